import PngVerif.Model.Encoder
import PngVerif.Proofs.Scanlines
/-!
# Proofs about the writer model (`Model/Encoder.lean`) against the validator (`Model/Validator.lean`)

Part 1: byte-level facts (field encodings are read back by `summarize`).
Part 2: the sequencing automaton run over raw chunks (`skRunR`) and its composition law.
Part 3: a sink that never fails accepts everything.
Part 4: the invariant `Inv` of `writerStep` (counters, sequence number, phase of the automaton) and
        `writer_skeleton_valid` (C12 for the whole-image API).
Part 5: facts for EVERY sink (C19): `Evolves`/`Grows` (what a call may change), `Safe` (panic sites),
        `writer_clean` (no panic, exactly one IEND, Ok from finish ⇒ complete), `writer_validation`.
Part 6: the image rule of the specification (`specImgOk`) and a back-end that meets the `Codec`
        contract (`scanCodec_ok`, via `decode_encode_scanlines` = C03).
Part 7: concrete model runs decided by the kernel (witnesses of the recorded defects, non-vacuity).
Part 8: the stream writer on a still picture (`CWInv`, `ZInv`, `SWInv`, `stream_still_valid`).
-/
namespace Png.Enc
open Png Png.Val

/-! ## Part 1: encodings -/

theorem toU8_toNat (n : Nat) : (n.toUInt8).toNat = n % 256 := by
  simp [Nat.toUInt8]

theorem be32_bytes (n : Nat) (h : n < 2 ^ 32) :
    be32 (n / 16777216 % 256).toUInt8 (n / 65536 % 256).toUInt8 (n / 256 % 256).toUInt8 (n % 256).toUInt8 = n := by
  simp only [be32, toU8_toNat]
  omega

theorem be32Bytes_length (n : Nat) : (be32Bytes n).length = 4 := by simp [be32Bytes]

theorem summarize_idat (d : Bytes) : summarize (mkIdat d) = .ok (.idat d) := by
  simp [summarize, mkIdat, tyIDAT, tyIHDR, tyPLTE]

theorem summarize_iend : summarize iendChunk = .ok (.iend 0) := by
  simp [summarize, iendChunk, tyIEND, tyIDAT, tyIHDR, tyPLTE]

theorem summarize_plte (p : Bytes) : summarize ⟨tyPLTE, p⟩ = .ok (.plte p.length) := by
  simp [summarize, tyIHDR, tyPLTE]

theorem summarize_fdat (seq : Nat) (d : Bytes) (h : seq < 2 ^ 32) :
    summarize (mkFdat seq d) = .ok (.fdat seq d) := by
  simp [summarize, mkFdat, tyFDAT, tyFCTL, tyACTL, tyIEND, tyIDAT, tyIHDR, tyPLTE, be32Bytes, be32At, be32_bytes, h]

theorem summarize_actl (n p : Nat) (hn : n < 2 ^ 32) (hp : p < 2 ^ 32) :
    summarize (mkActl n p) = .ok (.actl n p) := by
  simp [summarize, mkActl, tyACTL, tyIEND, tyIDAT, tyIHDR, tyPLTE, be32Bytes, be32At, be32_bytes, hn, hp]

theorem summarize_fctl (f : FC) (h : f.inRange) : summarize (mkFctl f) = .ok (.fctl f.toFctl) := by
  obtain ⟨h1, h2, h3, h4, h5, h6, h7, h8, h9⟩ := h
  simp [summarize, mkFctl, tyFCTL, tyIHDR, tyPLTE, tyIDAT, tyIEND, tyACTL, be32Bytes, be16Bytes, parseFctlL,
    be32At, be16At, FC.toFctl, be32_bytes, *]
  omega

/-- the chunk types `summarize` treats specially -/
def specialTypes : List Ty := [tyIHDR, tyPLTE, tyIDAT, tyIEND, tyACTL, tyFCTL, tyFDAT]

theorem summarize_other (c : RChunk) (h : c.ty ∉ specialTypes) :
    summarize c = .ok (.other c.ty c.data.length) := by
  simp only [specialTypes, List.mem_cons, List.not_mem_nil, or_false, not_or] at h
  obtain ⟨h1, h2, h3, h4, h5, h6, h7⟩ := h
  simp [summarize, h1, h2, h3, h4, h5, h6, h7]

/-! ## Part 2: the automaton over raw chunks -/

/-- `summarize` then `skStep`, chunk by chunk -/
def skRunR (imgOk : ImgRule) : Sk → List RChunk → Except String Sk
  | sk, [] => .ok sk
  | sk, c :: cs =>
    match summarize c with
    | .error e => .error e
    | .ok s =>
      match skStep imgOk sk s with
      | .ok sk' => skRunR imgOk sk' cs
      | .error e => .error e

theorem skRunR_append (imgOk : ImgRule) (a b : List RChunk) :
    ∀ sk, skRunR imgOk sk (a ++ b) =
      match skRunR imgOk sk a with
      | .ok sk' => skRunR imgOk sk' b
      | .error e => .error e := by
  induction a with
  | nil => intro sk; simp [skRunR]
  | cons c cs ih =>
    intro sk
    simp only [List.cons_append, skRunR]
    cases hs : summarize c with
    | error e => simp
    | ok s =>
      simp only []
      cases hk : skStep imgOk sk s with
      | error e => simp
      | ok sk' => simpa using ih sk'

theorem skRunR_append_ok {imgOk : ImgRule} {a b : List RChunk} {sk sk1 sk2 : Sk}
    (h1 : skRunR imgOk sk a = .ok sk1) (h2 : skRunR imgOk sk1 b = .ok sk2) :
    skRunR imgOk sk (a ++ b) = .ok sk2 := by
  rw [skRunR_append, h1]; exact h2

/-- a successful `skRunR` is a successful `mapM summarize` followed by a successful `skRun` -/
theorem skRunR_ok (imgOk : ImgRule) (cs : List RChunk) :
    ∀ sk sk', skRunR imgOk sk cs = .ok sk' →
      ∃ sums, cs.mapM summarize = .ok sums ∧ skRun imgOk sk sums = .ok sk' := by
  induction cs with
  | nil => intro sk sk' h; exact ⟨[], rfl, by simpa [skRunR, skRun] using h⟩
  | cons c cs ih =>
    intro sk sk' h
    simp only [skRunR] at h
    cases hs : summarize c with
    | error e => simp [hs] at h
    | ok s =>
      simp only [hs] at h
      cases hk : skStep imgOk sk s with
      | error e => simp [hk] at h
      | ok sk1 =>
        simp only [hk] at h
        obtain ⟨sums, hm, hr⟩ := ih sk1 sk' h
        refine ⟨s :: sums, ?_, ?_⟩
        · simp [List.mapM_cons, hs, hm]; rfl
        · simp [skRun, hk, hr]

theorem skeletonOfChunks_of_run {imgOk : ImgRule} {cw ch color : Nat} {rest : List RChunk} {sk : Sk}
    (h : skRunR imgOk { cw, ch, color } rest = .ok sk) (hd : sk.phase = .done) :
    skeletonOfChunks imgOk cw ch color rest = .ok () := by
  obtain ⟨sums, hm, hr⟩ := skRunR_ok imgOk rest _ _ h
  simp [skeletonOfChunks, hm, skeletonOk, hr, skEnd, hd]

/-! ## Part 3: a sink that never fails -/

def Sink.good (k : Sink) : Prop := k.beh.writeFailAt = none ∧ k.beh.flushFailAt = none

theorem Sink.emit_good {k : Sink} (h : k.good) (p : Piece) :
    k.emit p = ({ k with log := k.log ++ [⟨p, p.size⟩], count := k.count + p.size }, true) := by
  simp [Sink.emit, Sink.budget, h.1]

theorem Sink.chunks_append_complete (k : Sink) (c : RChunk) (n : Nat) :
    ({ k with log := k.log ++ [⟨.chunk c, (Piece.chunk c).size⟩], count := n } : Sink).chunks = k.chunks ++ [c] := by
  simp [Sink.chunks, Emit.complete, List.filterMap_append]

theorem Sink.emitChunks_good (cs : List RChunk) :
    ∀ {k : Sink}, k.good →
      (k.emitChunks cs).2 = true ∧ (k.emitChunks cs).1.good ∧
      (k.emitChunks cs).1.chunks = k.chunks ++ cs ∧ (k.emitChunks cs).1.beh = k.beh := by
  induction cs with
  | nil => intro k h; simp [Sink.emitChunks, h]
  | cons c cs ih =>
    intro k h
    simp only [Sink.emitChunks, Sink.emit_good h]
    have hg : ({ k with log := k.log ++ [⟨.chunk c, (Piece.chunk c).size⟩], count := k.count + (Piece.chunk c).size } : Sink).good := h
    obtain ⟨h1, h2, h3, h4⟩ := ih hg
    refine ⟨h1, h2, ?_, h4⟩
    rw [h3, Sink.chunks_append_complete]; simp

/-! ## Part 4a: chunk splitting and runs of data chunks -/

theorem chunksOfAux_flatten (n : Nat) (hn : 0 < n) : ∀ fuel (l : Bytes), l.length ≤ fuel → (chunksOfAux n fuel l).flatten = l := by
  intro fuel
  induction fuel with
  | zero => intro l h; have : l = [] := List.length_eq_zero_iff.mp (by omega); simp [chunksOfAux, this]
  | succ k ih =>
    intro l h
    simp only [chunksOfAux]
    by_cases hl : l = []
    · simp [hl]
    · simp only [hl, if_false, List.flatten_cons]
      rw [ih (l.drop n) (by
        have : 0 < l.length := List.length_pos_iff.mpr hl
        simp only [List.length_drop]; omega)]
      exact List.take_append_drop n l

theorem chunksOf_flatten (n : Nat) (hn : 0 < n) (l : Bytes) : (chunksOf n l).flatten = l :=
  chunksOfAux_flatten n hn _ l (Nat.le_refl _)

theorem chunksOf_ne_nil (n : Nat) (l : Bytes) (hl : l ≠ []) : chunksOf n l ≠ [] := by
  unfold chunksOf
  have : 0 < l.length := List.length_pos_iff.mpr hl
  cases h : l.length with
  | zero => omega
  | succ k => simp [chunksOfAux, hl]


theorem skRunR_idats (imgOk : ImgRule) (parts : List Bytes) :
    ∀ (sk : Sk) (acc : Bytes), sk.phase = .idat acc →
      skRunR imgOk sk (parts.map mkIdat) = .ok { sk with phase := .idat (acc ++ parts.flatten) } := by
  induction parts with
  | nil => intro sk acc h; simp [skRunR, ← h]
  | cons p ps ih =>
    intro sk acc h
    simp only [List.map_cons, skRunR, summarize_idat, skStep, h, stepIdat]
    simp only [reduceCtorEq, if_false]
    rw [ih _ (acc ++ p) rfl]
    simp

theorem skRunR_fdats (imgOk : ImgRule) (parts : List Bytes) :
    ∀ (sk : Sk) (w h : Nat) (acc : Bytes) (seq : Nat), sk.phase = .fdat w h acc → sk.frames ≠ none →
      sk.nextSeq = seq → seq < 2 ^ 32 →
      skRunR imgOk sk (fdatChunks seq parts).1 =
        .ok { sk with phase := .fdat w h (acc ++ parts.flatten), nextSeq := seqAfter seq parts.length } := by
  induction parts with
  | nil =>
    intro sk w h acc seq hp hf hs hlt
    simp [skRunR, fdatChunks, seqAfter, ← hp, ← hs, Nat.mod_eq_of_lt (hs ▸ hlt)]
  | cons p ps ih =>
    intro sk w h acc seq hp hf hs hlt
    simp only [fdatChunks, skRunR, summarize_fdat _ _ hlt, skStep, hp, stepFdat, hf, hs]
    simp only [reduceCtorEq, if_false, ne_eq, not_true_eq_false]
    rw [ih { sk with nextSeq := (seq + 1) % 2 ^ 32, phase := .fdat w h (acc ++ p) } w h (acc ++ p) ((seq + 1) % 2 ^ 32) rfl hf rfl (Nat.mod_lt _ (by decide))]
    simp [seqAfter]
    omega



/-! ## Part 4b: the invariant -/

/-- number of images the configuration declares -/
def declared (s : WState) : Nat :=
  match s.actl with
  | none => 1
  | some (n, _) => n + (if s.sepDefImg then 1 else 0)

/-- the automaton state that corresponds to a writer state, up to the three components the
    writer does not store -/
def absSk (s : WState) (seq fctls : Nat) (ph : Phase) : Sk :=
  { cw := s.width, ch := s.height, color := s.color, plte := s.hasPalette, frames := s.actl.map (·.1),
    pending := none, nextSeq := seq, fctls := fctls, phase := ph }

def closed : Phase → Phase
  | .idat _ => .mid
  | .fdat .. => .mid
  | p => p

def RectOk (s : WState) (f : FC) : Prop := 0 < f.w ∧ 0 < f.h ∧ f.x + f.w ≤ s.width ∧ f.y + f.h ≤ s.height

/-- contract of the whole-image back-end for one colour type / depth: never empty, and the image rule
    accepts its output for data of the right length -/
def Codec.Ok (imgOk : ImgRule) (E : Codec) (color depth : Nat) : Prop :=
  ∀ w h data, data.length = (rawRowLengthFromWidth color depth w - 1) * h →
    E.encode (bytesPerPixel color depth) (rawRowLengthFromWidth color depth w - 1) h data ≠ [] ∧
    imgOk w h (E.encode (bytesPerPixel color depth) (rawRowLengthFromWidth color depth w - 1) h data) = .ok ()

/-- the IHDR chunk, a function of fields that never change -/
def ihdrOf (s : WState) : RChunk :=
  ⟨tyIHDR, be32Bytes s.width ++ be32Bytes s.height ++ [s.depth.toUInt8, s.color.toUInt8, 0, 0, 0]⟩

structure Inv (imgOk : ImgRule) (s : WState) (seq fctls : Nat) (ph : Phase) : Prop where
  good : s.sink.good
  iend : s.iendWritten = false
  run : ∃ rest, s.sink.chunks = ihdrOf s :: rest ∧
    skRunR imgOk { cw := s.width, ch := s.height, color := s.color } rest = .ok (absSk s seq fctls ph)
  phPre : s.imagesWritten = 0 ↔ ph = .pre
  phDone : ph ≠ .done
  openI : ∀ acc, ph = .idat acc → imgOk s.width s.height acc = .ok ()
  openF : ∀ w h acc, ph = .fdat w h acc → imgOk w h acc = .ok ()
  dims : s.width < 2 ^ 32 ∧ s.height < 2 ^ 32
  valid : 0 < s.width ∧ 0 < s.height ∧ colorOk s.color = true ∧ depthOk s.depth = true
  actlR : ∀ n p, s.actl = some (n, p) → n < 2 ^ 32
  actlP : ∀ n p, s.actl = some (n, p) → 0 < n
  noActl : s.actl = none → s.fctl = none
  cnt : s.imagesWritten ≤ declared s
  fc : ∀ f, s.fctl = some f →
    f.inRange ∧ seq = f.seq ∧ RectOk s f ∧ fctls = s.animWritten ∧
    (∃ n p, s.actl = some (n, p) ∧ s.animWritten < n) ∧
    s.imagesWritten = s.animWritten + (if s.sepDefImg = true ∧ s.imagesWritten ≠ 0 then 1 else 0)
  fin : s.fctl = none → ∀ n p, s.actl = some (n, p) → fctls = n ∧ declared s ≤ s.imagesWritten

theorem closeRun_abs {imgOk : ImgRule} {s : WState} {seq fctls : Nat} {ph : Phase}
    (hI : ∀ acc, ph = .idat acc → imgOk s.width s.height acc = .ok ())
    (hF : ∀ w h acc, ph = .fdat w h acc → imgOk w h acc = .ok ()) :
    closeRun imgOk (absSk s seq fctls ph) = .ok (absSk s seq fctls (closed ph)) := by
  cases ph with
  | idat acc => simp [closeRun, absSk, closed, hI acc rfl]
  | fdat w h acc => simp [closeRun, absSk, closed, hF w h acc rfl]
  | pre => rfl
  | mid => rfl
  | done => rfl

theorem closed_pre_iff (ph : Phase) : closed ph = .pre ↔ ph = .pre := by
  cases ph <;> simp [closed]

theorem closed_ne_done {ph : Phase} (h : ph ≠ .done) : closed ph ≠ .done := by
  cases ph <;> simp_all [closed]

/-- the writer state with the sink replaced -/
theorem WState.emit_good {s : WState} (h : s.sink.good) (cs : List RChunk) :
    (s.emit cs).2 = true ∧ (s.emit cs).1 = { s with sink := (s.sink.emitChunks cs).1 } ∧
    (s.emit cs).1.sink.good ∧ (s.emit cs).1.sink.chunks = s.sink.chunks ++ cs := by
  obtain ⟨h1, h2, h3, _⟩ := Sink.emitChunks_good cs h
  simp only [WState.emit]
  exact ⟨h1, trivial, h2, h3⟩

/-- emitting one chunk that the automaton treats as "other ancillary" keeps the invariant -/
theorem Inv.emit_other {imgOk : ImgRule} {s : WState} {seq fctls : Nat} {ph : Phase}
    (inv : Inv imgOk s seq fctls ph) (c : RChunk) (hs : c.ty ∉ specialTypes)
    (hc : tyCritical c.ty = false) (hr : tyReservedOk c.ty = true) :
    (s.emit [c]).2 = true ∧ Inv imgOk (s.emit [c]).1 seq fctls (closed ph) := by
  obtain ⟨h1, h2, h3, h4⟩ := WState.emit_good inv.good [c]
  refine ⟨h1, ?_⟩
  rw [h2] at h3 h4 ⊢
  obtain ⟨rest, hch, hrun⟩ := inv.run
  have hstep : skRunR imgOk (absSk s seq fctls ph) [c] = .ok (absSk s seq fctls (closed ph)) := by
    simp only [skRunR, summarize_other c hs, skStep, stepOther, closeRun_abs inv.openI inv.openF, hc, hr]
    have : (absSk s seq fctls ph).phase ≠ .done := inv.phDone
    simp [this]
  exact {
    good := h3
    iend := inv.iend
    run := ⟨rest ++ [c], by rw [h4, hch]; rfl, skRunR_append_ok hrun hstep⟩
    phPre := by rw [closed_pre_iff]; exact inv.phPre
    phDone := closed_ne_done inv.phDone
    openI := by intro acc h; cases ph <;> simp [closed] at h
    openF := by intro w h acc hh; cases ph <;> simp [closed] at hh
    dims := inv.dims
    valid := inv.valid
    actlR := inv.actlR
    actlP := inv.actlP
    noActl := inv.noActl
    cnt := inv.cnt
    fc := inv.fc
    fin := inv.fin }



theorem Inv.setFctl {imgOk : ImgRule} {s : WState} {seq fctls : Nat} {ph : Phase}
    (inv : Inv imgOk s seq fctls ph) {f f' : FC} (hf : s.fctl = some f) (hseq : f'.seq = f.seq)
    (hr : f'.inRange) (hrect : RectOk s f') :
    Inv imgOk { s with fctl := some f' } seq fctls ph := by
  obtain ⟨h1, h2, h3, h4, h5, h6⟩ := inv.fc f hf
  exact {
    good := inv.good
    iend := inv.iend
    run := inv.run
    phPre := inv.phPre
    phDone := inv.phDone
    openI := inv.openI
    openF := inv.openF
    dims := inv.dims
    valid := inv.valid
    actlR := inv.actlR
    actlP := inv.actlP
    noActl := fun h => by have := inv.noActl h; simp [hf] at this
    cnt := inv.cnt
    fc := by
      intro g hg
      simp only [Option.some.injEq] at hg
      subst hg
      exact ⟨hr, by rw [hseq]; exact h2, hrect, h4, h5, h6⟩
    fin := by intro h; simp at h }

def textTypes : List Ty := [tyTEXT, tyZTXT, tyITXT]

/-- type invariants of the arguments (`u16` delays, enum discriminants, slices no longer than `isize::MAX`) and the chunk types the
    property allows for pass-through chunks -/
def Op.inRange : Op → Prop
  | .setDelay n d => n < 2 ^ 16 ∧ d < 2 ^ 16
  | .setBlend b => b ≤ 1
  | .setDispose d => d ≤ 2
  | .chunk ty _ => ty ∉ specialTypes ∧ tyCritical ty = false ∧ tyReservedOk ty = true
  | .image d => d.length < 2 ^ 63
  | .text (some c) => c.ty ∈ textTypes
  | _ => True

instance (o : Op) : Decidable o.inRange := by
  cases o <;> simp only [Op.inRange] <;> try infer_instance
  rename_i b; cases b <;> simp only [Op.inRange] <;> infer_instance

theorem gtCheckedSub_false {a b c : Nat} (h : gtCheckedSub a b c = false) : c ≤ b ∧ a ≤ b - c := by
  unfold gtCheckedSub at h
  split at h
  · simp at h; omega
  · simp at h

/-- frame setters keep the invariant (at any time: a first image with another rectangle is refused later) -/
theorem Inv.setter {imgOk : ImgRule} {E : Codec} {s : WState} {seq fctls : Nat} {ph : Phase}
    (inv : Inv imgOk s seq fctls ph) (op : Op) (hr : op.inRange)
    (hk : ∀ d, op ≠ .image d) (hc : ∀ t d, op ≠ .chunk t d) (ht : ∀ b, op ≠ .text b) :
    Inv imgOk (writerStep E s op).1 seq fctls ph ∧ (writerStep E s op).2.isPanic = false := by
  cases hf : s.fctl with
  | none =>
    cases op <;> simp_all [writerStep, setFrameDelay, setFrameDimension, setFramePosition, resetFrameDimension,
      resetFramePosition, setBlendOp, setDisposeOp, withFctl, Res.isPanic]
  | some f =>
    obtain ⟨⟨r1, r2, r3, r4, r5, r6, r7, r8, r9⟩, h2, ⟨q1, q2, q3, q4⟩, h4, h5, h6⟩ := inv.fc f hf
    have hd := inv.dims
    cases op with
    | image d => exact absurd rfl (hk d)
    | chunk t d => exact absurd rfl (hc t d)
    | text b => exact absurd rfl (ht b)
    | setDelay n d =>
      simp only [writerStep, setFrameDelay, withFctl, hf, Res.isPanic, and_true]
      exact inv.setFctl hf rfl ⟨r1, r2, r3, r4, r5, hr.1, hr.2, r8, r9⟩ ⟨q1, q2, q3, q4⟩
    | setBlend b =>
      simp only [writerStep, setBlendOp, withFctl, hf, Res.isPanic, and_true]
      exact inv.setFctl hf rfl ⟨r1, r2, r3, r4, r5, r6, r7, r8, hr⟩ ⟨q1, q2, q3, q4⟩
    | setDispose d =>
      simp only [writerStep, setDisposeOp, withFctl, hf, Res.isPanic, and_true]
      exact inv.setFctl hf rfl ⟨r1, r2, r3, r4, r5, r6, r7, hr, r9⟩ ⟨q1, q2, q3, q4⟩
    | setDim w h =>
      simp only [writerStep, setFrameDimension, withFctl, hf]
      cases hg : (gtCheckedSub w s.width f.x || gtCheckedSub h s.height f.y) with
      | true => simp [Res.isPanic]; exact inv
      | false =>
        simp only [Bool.or_eq_false_iff] at hg
        obtain ⟨a1, a2⟩ := gtCheckedSub_false hg.1
        obtain ⟨b1, b2⟩ := gtCheckedSub_false hg.2
        by_cases hw : w = 0
        · simp [hw, Res.isPanic]; exact inv
        · by_cases hh : h = 0
          · simp [hw, hh, Res.isPanic]; exact inv
          · simp only [Bool.false_eq_true, if_false, hw, hh, Res.isPanic, and_true]
            refine inv.setFctl hf rfl ⟨r1, by dsimp only; omega, by dsimp only; omega, r4, r5, r6, r7, r8, r9⟩ ⟨by dsimp only; omega, by dsimp only; omega, by dsimp only; omega, by dsimp only; omega⟩
    | setPos x y =>
      simp only [writerStep, setFramePosition, withFctl, hf]
      cases hg : (gtCheckedSub x s.width f.w || gtCheckedSub y s.height f.h) with
      | true => simp [Res.isPanic]; exact inv
      | false =>
        simp only [Bool.or_eq_false_iff] at hg
        obtain ⟨a1, a2⟩ := gtCheckedSub_false hg.1
        obtain ⟨b1, b2⟩ := gtCheckedSub_false hg.2
        simp only [Bool.false_eq_true, if_false, Res.isPanic, and_true]
        refine inv.setFctl hf rfl ⟨r1, r2, r3, by dsimp only; omega, by dsimp only; omega, r6, r7, r8, r9⟩ ⟨q1, q2, by dsimp only; omega, by dsimp only; omega⟩
    | resetDim =>
      simp only [writerStep, resetFrameDimension, withFctl, hf]
      have : ¬ (s.width < f.x ∨ s.height < f.y) := by omega
      simp only [this, if_false, Res.isPanic, and_true]
      refine inv.setFctl hf rfl ⟨r1, by dsimp only; omega, by dsimp only; omega, r4, r5, r6, r7, r8, r9⟩ ⟨by dsimp only; omega, by dsimp only; omega, by dsimp only; omega, by dsimp only; omega⟩
    | resetPos =>
      simp only [writerStep, resetFramePosition, withFctl, hf, Res.isPanic, and_true]
      refine inv.setFctl hf rfl ⟨r1, r2, r3, by dsimp only; omega, by dsimp only; omega, r6, r7, r8, r9⟩ ⟨q1, q2, by dsimp only; omega, by dsimp only; omega⟩



theorem textTypes_not_special {t : Ty} (h : t ∈ textTypes) :
    t ∉ specialTypes ∧ tyCritical t = false ∧ tyReservedOk t = true := by
  simp only [textTypes, List.mem_cons, List.not_mem_nil, or_false] at h
  rcases h with h | h | h <;> subst h <;> decide

/-- raw chunks and text chunks -/
theorem Inv.passThrough {imgOk : ImgRule} {E : Codec} {s : WState} {seq fctls : Nat} {ph : Phase}
    (inv : Inv imgOk s seq fctls ph) (op : Op) (hr : op.inRange)
    (hop : (∃ t d, op = .chunk t d) ∨ (∃ b, op = .text b)) :
    ∃ ph', Inv imgOk (writerStep E s op).1 seq fctls ph' ∧ (writerStep E s op).2.isPanic = false := by
  rcases hop with ⟨t, d, rfl⟩ | ⟨b, rfl⟩
  · simp only [writerStep, writeChunk]
    by_cases hl : d.length > 2 ^ 31 - 1
    · simp only [hl, if_true, Res.isPanic]; exact ⟨ph, inv, trivial⟩
    · simp only [hl, if_false]
      obtain ⟨h1, h2⟩ := inv.emit_other ⟨t, d⟩ hr.1 hr.2.1 hr.2.2
      refine ⟨closed ph, ?_⟩
      cases hm : s.emit [⟨t, d⟩] with
      | mk s' ok =>
        rw [hm] at h1 h2
        simp only at h1 h2
        subst h1
        exact ⟨h2, rfl⟩
  · cases b with
    | none => simp only [writerStep, writeTextChunk, Res.isPanic]; exact ⟨ph, inv, trivial⟩
    | some c =>
      simp only [writerStep, writeTextChunk]
      obtain ⟨a1, a2, a3⟩ := textTypes_not_special hr
      obtain ⟨h1, h2⟩ := inv.emit_other c a1 a2 a3
      refine ⟨closed ph, ?_⟩
      cases hm : s.emit [c] with
      | mk s' ok =>
        rw [hm] at h1 h2
        simp only at h1 h2
        subst h1
        exact ⟨h2, rfl⟩



theorem inLen_pos {color depth w : Nat} (hc : colorOk color = true) (hd : depthOk depth = true) (hw : 0 < w) :
    0 < rawRowLengthFromWidth color depth w - 1 := by
  have hs : 0 < samplesOf color := by
    simp only [colorOk, Bool.or_eq_true, beq_iff_eq] at hc
    rcases hc with (((h | h) | h) | h) | h <;> subst h <;> decide
  have hws : 0 < w * samplesOf color := Nat.mul_pos hw hs
  simp only [depthOk, Bool.or_eq_true, beq_iff_eq] at hd
  unfold rawRowLengthFromWidth
  generalize w * samplesOf color = n at hws
  rcases hd with (((h | h) | h) | h) | h <;> subst h <;> simp <;> (try split) <;> omega

/-! ### what the automaton does on the chunk groups the writer emits -/

theorem idatChunks_eq (z : Bytes) (hz : z ≠ []) :
    ∃ p ps, chunksOf maxIdatChunkLen z = p :: ps ∧ p ++ ps.flatten = z := by
  have hne := chunksOf_ne_nil maxIdatChunkLen z hz
  have hfl := chunksOf_flatten maxIdatChunkLen (by decide) z
  cases h : chunksOf maxIdatChunkLen z with
  | nil => exact absurd h hne
  | cons p ps => exact ⟨p, ps, rfl, by rw [h] at hfl; simpa using hfl⟩

/-- IDAT chunks of a first image that has no fcTL -/
theorem run_idats_pre (imgOk : ImgRule) (s : WState) (seq fctls : Nat) (z : Bytes) (hz : z ≠ [])
    (hp : ¬ (s.color = 3 ∧ s.hasPalette = false)) :
    skRunR imgOk (absSk s seq fctls .pre) (idatChunks z) = .ok (absSk s seq fctls (.idat z)) := by
  obtain ⟨p, ps, h1, h2⟩ := idatChunks_eq z hz
  simp only [idatChunks, h1, List.map_cons, skRunR, summarize_idat, skStep, stepIdat, absSk]
  simp only [reduceCtorEq, if_false, hp]
  rw [skRunR_idats imgOk ps _ p rfl]
  simp [h2]

/-- IDAT chunks of a first image announced by an fcTL that covers the canvas -/
theorem run_idats_pending (imgOk : ImgRule) (s : WState) (seq fctls : Nat) (z : Bytes) (hz : z ≠ [])
    (hp : ¬ (s.color = 3 ∧ s.hasPalette = false)) (f : FC)
    (hc : f.x = 0 ∧ f.y = 0 ∧ f.w = s.width ∧ f.h = s.height) :
    skRunR imgOk { absSk s seq fctls .pre with pending := some f.toFctl } (idatChunks z)
      = .ok (absSk s seq fctls (.idat z)) := by
  obtain ⟨p, ps, h1, h2⟩ := idatChunks_eq z hz
  obtain ⟨c1, c2, c3, c4⟩ := hc
  simp only [idatChunks, h1, List.map_cons, skRunR, summarize_idat, skStep, stepIdat, absSk]
  simp only [reduceCtorEq, if_false, hp, coversCanvas, FC.toFctl, c1, c2, c3, c4, beq_self_eq_true, Bool.and_self, if_true]
  rw [skRunR_idats imgOk ps _ p rfl]
  simp [h2]

/-- an fcTL: closes the current run of data chunks, becomes the pending frame control -/
theorem run_fctl (imgOk : ImgRule) (s : WState) (seq fctls : Nat) (ph : Phase) (f : FC)
    (hd : ph ≠ .done)
    (hI : ∀ acc, ph = .idat acc → imgOk s.width s.height acc = .ok ())
    (hF : ∀ w h acc, ph = .fdat w h acc → imgOk w h acc = .ok ())
    (ha : s.actl ≠ none) (hr : f.inRange) (hs : f.seq = seq) (hrect : RectOk s f) :
    skRunR imgOk (absSk s seq fctls ph) [mkFctl f] =
      .ok { absSk s ((seq + 1) % 2 ^ 32) (fctls + 1) (closed ph) with pending := some f.toFctl } := by
  obtain ⟨q1, q2, q3, q4⟩ := hrect
  have hfr : (s.actl.map (·.1)) ≠ none := by cases h : s.actl <;> simp_all
  have hfo : fctlFieldsOk (absSk s seq fctls (closed ph)) f.toFctl = .ok () := by
    obtain ⟨_, _, _, _, _, _, _, r8, r9⟩ := hr
    simp only [fctlFieldsOk, FC.toFctl, absSk]
    have e1 : ¬ (f.w = 0 ∨ f.h = 0) := by omega
    have e2 : ¬ (f.x + f.w > s.width ∨ f.y + f.h > s.height) := by omega
    have e3 : ¬ f.dispose > 2 := by omega
    have e4 : ¬ f.blend > 1 := by omega
    simp [e1, e2, e3, e4]
  have hnd : (absSk s seq fctls ph).phase ≠ .done := hd
  simp only [skRunR, summarize_fctl f hr, skStep, hnd, if_false, stepFctl, closeRun_abs hI hF, hfo]
  simp [absSk, hfr, FC.toFctl, hs]

/-- the fdAT chunks of a frame whose fcTL is pending -/
theorem run_fdats (imgOk : ImgRule) (s : WState) (seq fctls : Nat) (f : FC) (z : Bytes) (hz : z ≠ [])
    (ha : s.actl ≠ none) (hseq : seq < 2 ^ 32) :
    skRunR imgOk { absSk s seq fctls .mid with pending := some f.toFctl }
        (fdatChunks seq (chunksOf maxFdatChunkLen z)).1 =
      .ok (absSk s (seqAfter seq (chunksOf maxFdatChunkLen z).length) fctls (.fdat f.w f.h z)) := by
  have hne := chunksOf_ne_nil maxFdatChunkLen z hz
  have hfl := chunksOf_flatten maxFdatChunkLen (by decide) z
  have hfr : (s.actl.map (·.1)) ≠ none := by cases h : s.actl <;> simp_all
  cases h : chunksOf maxFdatChunkLen z with
  | nil => exact absurd h hne
  | cons p ps =>
    rw [h] at hfl
    simp only [fdatChunks, skRunR, summarize_fdat _ _ hseq, skStep, stepFdat, absSk, closeRun]
    simp only [reduceCtorEq, if_false, hfr, ne_eq, not_true_eq_false]
    rw [skRunR_fdats imgOk ps _ f.toFctl.width f.toFctl.height p ((seq + 1) % 2 ^ 32) rfl hfr rfl (Nat.mod_lt _ (by decide))]
    simp only [FC.toFctl, seqAfter, List.length_cons]
    have : p ++ ps.flatten = z := by simpa using hfl
    simp [this]
    omega



/-- the fields that never change after `write_header` -/
def StaticEq (s s' : WState) : Prop :=
  s'.width = s.width ∧ s'.height = s.height ∧ s'.color = s.color ∧ s'.depth = s.depth ∧ s'.actl = s.actl ∧
  s'.hasPalette = s.hasPalette ∧ s'.sepDefImg = s.sepDefImg ∧ s'.validate = s.validate

theorem StaticEq.refl (s : WState) : StaticEq s s := ⟨rfl, rfl, rfl, rfl, rfl, rfl, rfl, rfl⟩

theorem StaticEq.trans {a b c : WState} (h1 : StaticEq a b) (h2 : StaticEq b c) : StaticEq a c := by
  obtain ⟨a1, a2, a3, a4, a5, a6, a7, a8⟩ := h1
  obtain ⟨b1, b2, b3, b4, b5, b6, b7, b8⟩ := h2
  exact ⟨b1.trans a1, b2.trans a2, b3.trans a3, b4.trans a4, b5.trans a5, b6.trans a6, b7.trans a7, b8.trans a8⟩

theorem absSk_static {s s' : WState} (h : StaticEq s s') (seq fctls : Nat) (ph : Phase) :
    absSk s' seq fctls ph = absSk s seq fctls ph := by
  obtain ⟨a1, a2, a3, _, a5, a6, _, _⟩ := h
  simp [absSk, a1, a2, a3, a5, a6]

theorem declared_static {s s' : WState} (h : StaticEq s s') : declared s' = declared s := by
  obtain ⟨_, _, _, _, a5, _, a7, _⟩ := h
  simp [declared, a5, a7]

/-- re-establishing the invariant after the writer has appended the chunks `cs` -/
theorem Inv.extend {imgOk : ImgRule} {s : WState} {seq fctls : Nat} {ph : Phase}
    (inv : Inv imgOk s seq fctls ph) (s' : WState) (seq' fctls' : Nat) (ph' : Phase)
    (hst : StaticEq s s') (hgood : s'.sink.good) (hiend : s'.iendWritten = false)
    (cs : List RChunk) (hch : s'.sink.chunks = s.sink.chunks ++ cs)
    (hrun : skRunR imgOk (absSk s seq fctls ph) cs = .ok (absSk s seq' fctls' ph'))
    (phPre : s'.imagesWritten = 0 ↔ ph' = .pre) (phDone : ph' ≠ .done)
    (openI : ∀ acc, ph' = .idat acc → imgOk s.width s.height acc = .ok ())
    (openF : ∀ w h acc, ph' = .fdat w h acc → imgOk w h acc = .ok ())
    (noActl : s.actl = none → s'.fctl = none)
    (cnt : s'.imagesWritten ≤ declared s)
    (fc : ∀ f, s'.fctl = some f →
      f.inRange ∧ seq' = f.seq ∧ RectOk s f ∧ fctls' = s'.animWritten ∧
      (∃ n p, s.actl = some (n, p) ∧ s'.animWritten < n) ∧
      s'.imagesWritten = s'.animWritten + (if s.sepDefImg = true ∧ s'.imagesWritten ≠ 0 then 1 else 0))
    (fin : s'.fctl = none → ∀ n p, s.actl = some (n, p) → fctls' = n ∧ declared s ≤ s'.imagesWritten) :
    Inv imgOk s' seq' fctls' ph' := by
  have hd := declared_static hst
  obtain ⟨a1, a2, a3, a4, a5, a6, a7, a8⟩ := hst
  obtain ⟨rest, hc0, hr0⟩ := inv.run
  exact {
    good := hgood
    iend := hiend
    run := ⟨rest ++ cs, by rw [hch, hc0]; simp [ihdrOf, a1, a2, a3, a4], by
      rw [a1, a2, a3, absSk_static ⟨a1, a2, a3, a4, a5, a6, a7, a8⟩]
      exact skRunR_append_ok hr0 hrun⟩
    phPre := phPre
    phDone := phDone
    openI := by rw [a1, a2]; exact openI
    openF := openF
    dims := by rw [a1, a2]; exact inv.dims
    valid := by rw [a1, a2, a3, a4]; exact inv.valid
    actlR := by rw [a5]; exact inv.actlR
    actlP := by rw [a5]; exact inv.actlP
    noActl := by rw [a5]; exact noActl
    cnt := by rw [hd]; exact cnt
    fc := by
      intro f hf
      obtain ⟨h1, h2, h3, h4, h5, h6⟩ := fc f hf
      refine ⟨h1, h2, ?_, h4, by rw [a5]; exact h5, by rw [a7]; exact h6⟩
      simpa [RectOk, a1, a2] using h3
    fin := by rw [a5, hd]; exact fin }



theorem WState.emit_good' {s : WState} (h : s.sink.good) (cs : List RChunk) :
    ∃ k, s.emit cs = ({ s with sink := k }, true) ∧ k.good ∧ k.chunks = s.sink.chunks ++ cs := by
  obtain ⟨h1, h2, h3, _⟩ := Sink.emitChunks_good cs h
  refine ⟨(s.sink.emitChunks cs).1, ?_, h2, h3⟩
  simp only [WState.emit]
  cases hh : s.sink.emitChunks cs with
  | mk k ok => rw [hh] at h1; simp only at h1; subst h1; rfl

/-- what a successful `imageChecks` established -/
theorem imageChecks_ok {s : WState} {d : Bytes} {il h : Nat} (hc : imageChecks s d = .ok (il, h))
    (hr : d.length < 2 ^ 63) :
    ¬ (s.color = 3 ∧ s.hasPalette = false) ∧ validateNewImage s = none ∧
    il = inLenOf s (nextDims s).1 ∧ h = (nextDims s).2 ∧ d.length = il * h ∧ il ≠ 0 ∧
    validateFirstImageRect s = none := by
  unfold imageChecks at hc
  by_cases hp : s.color = 3 ∧ s.hasPalette = false
  · simp [hp] at hc
  · simp only [hp, if_false] at hc
    cases hv : validateNewImage s with
    | some e => simp [hv] at hc
    | none =>
    cases hv2 : validateFirstImageRect s with
    | some e => simp [hv, hv2] at hc
    | none =>
      simp only [hv, hv2] at hc
      by_cases hlt : inLenOf s (nextDims s).1 * (nextDims s).2 < 2 ^ 64
      · simp only [hlt, if_true] at hc
        by_cases hne : inLenOf s (nextDims s).1 * (nextDims s).2 ≠ d.length
        · simp [hne] at hc
        · simp only [hne, if_false] at hc
          by_cases h0 : inLenOf s (nextDims s).1 = 0
          · simp [h0] at hc
          · simp only [h0, if_false, Except.ok.injEq, Prod.mk.injEq] at hc
            obtain ⟨rfl, rfl⟩ := hc
            exact ⟨hp, rfl, rfl, rfl, by omega, h0, rfl⟩
      · simp only [hlt, if_false] at hc
        have : (2 ^ 64 - 1 : Nat) ≠ d.length := by omega
        simp [this] at hc

/-- a failed `imageChecks` is an error, not a panic, when the frame is non-empty -/
theorem imageChecks_error {s : WState} {d : Bytes} {r : Res} (hc : imageChecks s d = .error r)
    (hpos : 0 < inLenOf s (nextDims s).1) : r.isPanic = false := by
  unfold imageChecks at hc
  by_cases hp : s.color = 3 ∧ s.hasPalette = false
  · rw [if_pos hp] at hc; simp only [Except.error.injEq] at hc; subst hc; rfl
  · rw [if_neg hp] at hc
    cases hv : validateNewImage s with
    | some e => simp only [hv, Except.error.injEq] at hc; subst hc; rfl
    | none =>
    cases hv2 : validateFirstImageRect s with
    | some e => simp only [hv, hv2, Except.error.injEq] at hc; subst hc; rfl
    | none =>
      simp only [hv, hv2] at hc
      have h0 : ¬ inLenOf s (nextDims s).1 = 0 := by omega
      rw [if_neg h0] at hc
      by_cases hne : (if inLenOf s (nextDims s).1 * (nextDims s).2 < 2 ^ 64 then inLenOf s (nextDims s).1 * (nextDims s).2 else 2 ^ 64 - 1) ≠ d.length
      · rw [if_pos hne] at hc; simp only [Except.error.injEq] at hc; subst hc; rfl
      · rw [if_neg hne] at hc; cases hc

theorem incr_none {s : WState} (h : s.actl = none) :
    incrementImagesWritten s = { s with imagesWritten := min (s.imagesWritten + 1) (2 ^ 64 - 1) } := by
  simp [incrementImagesWritten, h]

theorem incr_some {s : WState} {n p : Nat} (h : s.actl = some (n, p)) :
    incrementImagesWritten s =
      if n ≤ s.animWritten then { s with imagesWritten := min (s.imagesWritten + 1) (2 ^ 64 - 1), fctl := none }
      else { s with imagesWritten := min (s.imagesWritten + 1) (2 ^ 64 - 1) } := by
  simp [incrementImagesWritten, h]



theorem declared_le (s : WState) (h : ∀ n p, s.actl = some (n, p) → n < 2 ^ 32) : declared s ≤ 2 ^ 32 := by
  unfold declared
  cases ha : s.actl with
  | none => simp
  | some a => obtain ⟨n, p⟩ := a; have := h n p ha; simp only; split <;> omega

theorem opt_cases {α : Type} (o : Option α) : o = none ∨ ∃ a, o = some a := by
  cases o <;> simp

/-- the IDAT image of a writer that has written nothing yet -/
theorem Inv.idatImage {imgOk : ImgRule} {s : WState} {seq fctls : Nat}
    (inv : Inv imgOk s seq fctls .pre) (z : Bytes) (hz : z ≠ [])
    (hp : ¬ (s.color = 3 ∧ s.hasPalette = false)) (hok : imgOk s.width s.height z = .ok ())
    (hskip : ∀ f, s.fctl = some f → s.sepDefImg = true) (hlt : s.imagesWritten < declared s) :
    (emitIdatImage s z).2 = .ok ∧ Inv imgOk (emitIdatImage s z).1 seq fctls (.idat z) := by
  obtain ⟨k, hk, hkg, hkc⟩ := WState.emit_good' inv.good (idatChunks z)
  have h0 : s.imagesWritten = 0 := inv.phPre.mpr rfl
  simp only [emitIdatImage, hk]
  refine ⟨trivial, ?_⟩
  have hrun := run_idats_pre imgOk s seq fctls z hz hp
  rcases opt_cases s.actl with ha | ⟨⟨n, p⟩, ha⟩
  · rw [incr_none (s := { s with sink := k }) ha]
    have hfn := inv.noActl ha
    refine inv.extend _ seq fctls (.idat z) (StaticEq.refl s) hkg inv.iend _ hkc hrun ?_ (by simp) ?_ (by simp) ?_ ?_ ?_ ?_
    · simp [h0]
    · intro acc h; cases h; exact hok
    · intro _; exact hfn
    · simp [h0, declared, ha]
    · intro f hf; simp [hfn] at hf
    · intro _ n p h; simp [ha] at h
  · rw [incr_some (s := { s with sink := k }) ha]
    rcases opt_cases s.fctl with hf | ⟨f, hf⟩
    · -- all frames written, yet nothing written: impossible
      have := (inv.fin hf n p ha).2
      omega
    ·
      obtain ⟨h1, h2, h3, h4, ⟨n', p', hn', hlt'⟩, h6⟩ := inv.fc f hf
      rw [ha] at hn'; simp only [Option.some.injEq, Prod.mk.injEq] at hn'; obtain ⟨rfl, rfl⟩ := hn'
      have hsep := hskip f hf
      have hnle : ¬ n ≤ s.animWritten := by omega
      simp only [hnle, if_false]
      have haw : s.animWritten = 0 := by simp [h0] at h6; omega
      refine inv.extend _ seq fctls (.idat z) (StaticEq.refl s) hkg inv.iend _ hkc hrun ?_ (by simp) ?_ (by simp) ?_ ?_ ?_ ?_
      · simp [h0]
      · intro acc h; cases h; exact hok
      · intro h; simp [ha] at h
      · simp [h0, declared, ha, hsep]
      · intro g hg
        simp only [hf, Option.some.injEq] at hg; subst hg
        refine ⟨h1, h2, h3, h4, ⟨n, p, ha, hlt'⟩, ?_⟩
        simp [h0, haw, hsep]
      · intro h; simp [hf] at h



theorem closed_of_written {ph : Phase} (h1 : ph ≠ .pre) (h2 : ph ≠ .done) : closed ph = .mid := by
  cases ph <;> simp_all [closed]

/-- an animation frame: fcTL, then IDAT (first image) or fdAT chunks -/
theorem Inv.frame {imgOk : ImgRule} {s : WState} {seq fctls : Nat} {ph : Phase}
    (inv : Inv imgOk s seq fctls ph) (f : FC) (hf : s.fctl = some f) (z : Bytes) (hz : z ≠ [])
    (hp : ¬ (s.color = 3 ∧ s.hasPalette = false)) (hok : imgOk f.w f.h z = .ok ())
    (hns : skipFctlOnDefault s = false)
    (h7 : s.imagesWritten = 0 → f.x = 0 ∧ f.y = 0 ∧ f.w = s.width ∧ f.h = s.height) :
    ∃ seq' fctls' ph', (emitFrame s f z).2 = .ok ∧ Inv imgOk (emitFrame s f z).1 seq' fctls' ph' := by
  obtain ⟨h1, h2, h3, h4, ⟨n, p, ha, hlt⟩, h6⟩ := inv.fc f hf
  subst h2
  have hn32 := inv.actlR n p ha
  have hane : s.actl ≠ none := by simp [ha]
  obtain ⟨k, hk, hkg, hkc⟩ := WState.emit_good' inv.good [mkFctl f]
  have hrf := run_fctl imgOk s f.seq fctls ph f inv.phDone inv.openI inv.openF hane h1 rfl h3
  have hov : ¬ (s.animWritten + 1 ≥ 2 ^ 32) := by omega
  have hseq1 : (f.seq + 1) % 2 ^ 32 < 2 ^ 32 := Nat.mod_lt _ (by decide)
  have hr1 : ({ f with seq := (f.seq + 1) % 2 ^ 32 } : FC).inRange := by
    obtain ⟨_, r2, r3, r4, r5, r6, r7, r8, r9⟩ := h1
    exact ⟨hseq1, r2, r3, r4, r5, r6, r7, r8, r9⟩
  simp only [emitFrame, hk, hov, if_false]
  by_cases h0 : s.imagesWritten = 0
  · -- first image: IDAT
    have hsep : s.sepDefImg = false := by
      simp only [skipFctlOnDefault, h0, beq_self_eq_true, Bool.and_true] at hns; exact hns
    have haw : s.animWritten = 0 := by simp [h0] at h6; omega
    have hph : ph = .pre := inv.phPre.mp h0
    subst hph
    rw [if_pos (show _ = 0 from h0)]
    obtain ⟨k2, hk2, hk2g, hk2c⟩ := WState.emit_good' (s := { s with sink := k, fctl := some { f with seq := (f.seq + 1) % 2 ^ 32 }, animWritten := s.animWritten + 1 }) hkg (idatChunks z)
    simp only [emitIdatImage, hk2]
    have hri := run_idats_pending imgOk s ((f.seq + 1) % 2 ^ 32) (fctls + 1) z hz hp f (h7 h0)
    have hrun : skRunR imgOk (absSk s f.seq fctls .pre) ([mkFctl f] ++ idatChunks z) =
        .ok (absSk s ((f.seq + 1) % 2 ^ 32) (fctls + 1) (.idat z)) := skRunR_append_ok hrf hri
    have hchunks : k2.chunks = s.sink.chunks ++ ([mkFctl f] ++ idatChunks z) := by
      rw [hk2c]; simp only; rw [hkc]; simp
    obtain ⟨c1, c2, c3, c4⟩ := h7 h0
    refine ⟨(f.seq + 1) % 2 ^ 32, fctls + 1, .idat z, trivial, ?_⟩
    rw [incr_some (s := { s with sink := k2, fctl := some { f with seq := (f.seq + 1) % 2 ^ 32 }, animWritten := s.animWritten + 1 }) ha]
    by_cases hle : n ≤ s.animWritten + 1
    · simp only [hle, if_true]
      refine inv.extend _ _ _ _ (StaticEq.refl s) hk2g inv.iend _ hchunks hrun ?_ (by simp) ?_ (by simp) ?_ ?_ ?_ ?_
      · simp [h0]
      · intro acc h; cases h; rw [← c3, ← c4]; exact hok
      · intro h; rfl
      · simp [h0, declared, ha]; omega
      · intro g hg; simp at hg
      · intro _ n' p' h'
        rw [ha] at h'; simp only [Option.some.injEq, Prod.mk.injEq] at h'; obtain ⟨rfl, rfl⟩ := h'
        simp only [declared, ha, hsep, h0]
        constructor
        · omega
        · simp; omega
    · simp only [hle, if_false]
      refine inv.extend _ _ _ _ (StaticEq.refl s) hk2g inv.iend _ hchunks hrun ?_ (by simp) ?_ (by simp) ?_ ?_ ?_ ?_
      · simp [h0]
      · intro acc h; cases h; rw [← c3, ← c4]; exact hok
      · intro h; simp [ha] at h
      · simp [h0, declared, ha]; omega
      · intro g hg
        simp only [Option.some.injEq] at hg; subst hg
        refine ⟨hr1, rfl, h3, by simp [h4], ⟨n, p, ha, by simp; omega⟩, by simp [h0, hsep, haw]⟩
      · intro h; simp at h
  · -- later image: fdAT
    rw [if_neg (show ¬ _ = 0 from h0)]
    have hphm : closed ph = .mid := closed_of_written (fun h => h0 (inv.phPre.mpr h)) inv.phDone
    obtain ⟨k2, hk2, hk2g, hk2c⟩ := WState.emit_good' (s := { s with sink := k, fctl := some { f with seq := (f.seq + 1) % 2 ^ 32 }, animWritten := s.animWritten + 1 }) hkg (fdatChunks ((f.seq + 1) % 2 ^ 32) (chunksOf maxFdatChunkLen z)).1
    simp only [emitFdatImage, hk2]
    rw [hphm] at hrf
    have hrd := run_fdats imgOk s ((f.seq + 1) % 2 ^ 32) (fctls + 1) f z hz hane (Nat.mod_lt _ (by decide))
    have hrun := skRunR_append_ok hrf hrd
    have hchunks : k2.chunks = s.sink.chunks ++ ([mkFctl f] ++ (fdatChunks ((f.seq + 1) % 2 ^ 32) (chunksOf maxFdatChunkLen z)).1) := by
      rw [hk2c]; simp only; rw [hkc]; simp
    have hdl := declared_le s inv.actlR
    have hcnt := inv.cnt
    have hmin : min (s.imagesWritten + 1) (2 ^ 64 - 1) = s.imagesWritten + 1 := by omega
    refine ⟨seqAfter ((f.seq + 1) % 2 ^ 32) (chunksOf maxFdatChunkLen z).length, fctls + 1, .fdat f.w f.h z, trivial, ?_⟩
    rw [incr_some (s := { s with sink := k2, fctl := some { f with seq := seqAfter ((f.seq + 1) % 2 ^ 32) (chunksOf maxFdatChunkLen z).length }, animWritten := s.animWritten + 1 }) ha]
    have hsa : seqAfter ((f.seq + 1) % 2 ^ 32) (chunksOf maxFdatChunkLen z).length < 2 ^ 32 := Nat.mod_lt _ (by decide)
    have h6' : s.imagesWritten = s.animWritten + (if s.sepDefImg = true then 1 else 0) := by
      simpa [h0] using h6
    by_cases hle : n ≤ s.animWritten + 1
    · simp only [hle, if_true]
      refine inv.extend _ _ _ _ (StaticEq.refl s) hk2g inv.iend _ hchunks hrun ?_ (by simp) (by simp) ?_ ?_ ?_ ?_ ?_
      · simp [hmin]
      · intro w h acc hh; cases hh; exact hok
      · intro h; rfl
      · simp only [hmin, declared, ha]; cases hs : s.sepDefImg <;> simp [hs] at h6' hcnt ⊢ <;> omega
      · intro g hg; simp at hg
      · intro _ n' p' h'
        rw [ha] at h'; simp only [Option.some.injEq, Prod.mk.injEq] at h'; obtain ⟨rfl, rfl⟩ := h'
        simp only [declared, ha, hmin]
        constructor
        · omega
        · cases hs : s.sepDefImg <;> simp [hs] at h6' hcnt ⊢ <;> omega
    · simp only [hle, if_false]
      refine inv.extend _ _ _ _ (StaticEq.refl s) hk2g inv.iend _ hchunks hrun ?_ (by simp) (by simp) ?_ ?_ ?_ ?_ ?_
      · simp [hmin]
      · intro w h acc hh; cases hh; exact hok
      · intro h; simp [ha] at h
      · simp only [hmin, declared, ha]; cases hs : s.sepDefImg <;> simp [hs] at h6' hcnt ⊢ <;> omega
      · intro g hg
        simp only [Option.some.injEq] at hg; subst hg
        obtain ⟨_, r2, r3, r4, r5, r6, r7, r8, r9⟩ := h1
        refine ⟨⟨hsa, r2, r3, r4, r5, r6, r7, r8, r9⟩, rfl, h3, by simp [h4], ⟨n, p, ha, by simp; omega⟩, ?_⟩
        simp only [hmin]; cases hs : s.sepDefImg <;> simp [hs] at h6' hcnt ⊢ <;> omega
      · intro h; simp at h



theorem nextDims_pos {imgOk : ImgRule} {s : WState} {seq fctls : Nat} {ph : Phase}
    (inv : Inv imgOk s seq fctls ph) : 0 < inLenOf s (nextDims s).1 := by
  obtain ⟨v1, v2, v3, v4⟩ := inv.valid
  unfold inLenOf nextDims
  rcases opt_cases s.fctl with hf | ⟨f, hf⟩
  · simp only [hf]; exact inLen_pos v3 v4 v1
  · simp only [hf]; exact inLen_pos v3 v4 (inv.fc f hf).2.2.1.1

/-- `write_image_data` keeps the invariant, provided it is not used for more images than declared -/
theorem Inv.image {imgOk : ImgRule} {E : Codec} {s : WState} {seq fctls : Nat} {ph : Phase}
    (inv : Inv imgOk s seq fctls ph) (hE : Codec.Ok imgOk E s.color s.depth) (d : Bytes) (hr : d.length < 2 ^ 63)
    (hdom : s.imagesWritten < declared s ∨ (writeImageData E s d).2 ≠ .ok) :
    ∃ seq' fctls' ph', Inv imgOk (writeImageData E s d).1 seq' fctls' ph' ∧
      (writeImageData E s d).2.isPanic = false := by
  unfold writeImageData at hdom ⊢
  cases hc : imageChecks s d with
  | error r => exact ⟨seq, fctls, ph, inv, imageChecks_error hc (nextDims_pos inv)⟩
  | ok a =>
    obtain ⟨il, h⟩ := a
    rw [hc] at hdom
    simp only at hdom ⊢
    obtain ⟨hp, hv, hil, hh, hlen, hil0, hv2⟩ := imageChecks_ok hc hr
    subst hil hh
    obtain ⟨hz, hok⟩ : E.encode (bytesPerPixel s.color s.depth) (inLenOf s (nextDims s).1) (nextDims s).2 d ≠ [] ∧
        imgOk (nextDims s).1 (nextDims s).2 (E.encode (bytesPerPixel s.color s.depth) (inLenOf s (nextDims s).1) (nextDims s).2 d) = .ok () :=
      hE (nextDims s).1 (nextDims s).2 d hlen
    generalize E.encode (bytesPerPixel s.color s.depth) (inLenOf s (nextDims s).1) (nextDims s).2 d = z at hz hok hdom ⊢
    unfold emitImage at hdom ⊢
    rcases opt_cases s.fctl with hf | ⟨f, hf⟩
    · -- no frame control: the single image of a still picture
      simp only [hf] at hdom ⊢
      have hnd : nextDims s = (s.width, s.height) := by simp [nextDims, hf]
      rw [hnd] at hok
      have hph : ph = .pre → (emitIdatImage s z).2 = .ok ∧ Inv imgOk (emitIdatImage s z).1 seq fctls (.idat z) := by
        intro h; subst h
        refine inv.idatImage z hz hp hok (by intro f h; simp [hf] at h) ?_
        have h0 : s.imagesWritten = 0 := inv.phPre.mpr rfl
        rcases opt_cases s.actl with ha | ⟨⟨n, p⟩, ha⟩
        · simp [declared, ha, h0]
        · have := inv.actlP n p ha; have := (inv.fin hf n p ha).2; simp only [declared, ha] at this; omega
      -- the domain condition forces "nothing written yet"
      have hlt : s.imagesWritten < declared s := by
        rcases hdom with h | h
        · exact h
        · exfalso
          by_cases hpre : ph = .pre
          · exact h (hph hpre).1
          · -- something was written: the declared number is reached, but then a good sink still says ok
            obtain ⟨k, hk, _, _⟩ := WState.emit_good' inv.good (idatChunks z)
            simp only [emitIdatImage, hk] at h; exact h rfl
      have hpre : ph = .pre := by
        apply inv.phPre.mp
        rcases opt_cases s.actl with ha | ⟨⟨n, p⟩, ha⟩
        · simp only [declared, ha] at hlt; omega
        · have := (inv.fin hf n p ha).2; omega
      obtain ⟨r1, r2⟩ := hph hpre
      exact ⟨seq, fctls, .idat z, r2, by rw [r1]; rfl⟩
    · simp only [hf] at hdom ⊢
      have hnd : nextDims s = (f.w, f.h) := by simp [nextDims, hf]
      rw [hnd] at hok
      obtain ⟨h1, h2, h3, h4, ⟨n, p, ha, hltn⟩, h6⟩ := inv.fc f hf
      -- `validate_first_image_rect` passed: a first image covers the canvas
      have h7 : s.imagesWritten = 0 → f.x = 0 ∧ f.y = 0 ∧ f.w = s.width ∧ f.h = s.height := by
        intro h0
        simp only [validateFirstImageRect, hf, h0, true_and] at hv2
        by_cases hc' : f.x = 0 ∧ f.y = 0 ∧ f.w = s.width ∧ f.h = s.height
        · exact hc'
        · simp [hc'] at hv2
      by_cases hsk : skipFctlOnDefault s = true
      · simp only [hsk, if_true] at hdom ⊢
        simp only [skipFctlOnDefault, Bool.and_eq_true, beq_iff_eq] at hsk
        obtain ⟨hsep, h0⟩ := hsk
        have hpre : ph = .pre := inv.phPre.mp h0
        subst hpre
        obtain ⟨_, _, c3, c4⟩ := h7 h0
        rw [c3, c4] at hok
        have hlt : s.imagesWritten < declared s := by simp [declared, ha, hsep, h0]
        obtain ⟨r1, r2⟩ := inv.idatImage z hz hp hok (fun _ _ => hsep) hlt
        exact ⟨seq, fctls, .idat z, r2, by rw [r1]; rfl⟩
      · have hsk' : skipFctlOnDefault s = false := by simpa using hsk
        simp only [hsk', Bool.false_eq_true, if_false] at hdom ⊢
        obtain ⟨seq', fctls', ph', r1, r2⟩ := inv.frame f hf z hz hp hok hsk' h7
        exact ⟨seq', fctls', ph', r2, by rw [r1]; rfl⟩



/-- a chunk the automaton passes over without any rule -/
def PlainAncillary (c : RChunk) : Prop :=
  c.ty ∉ specialTypes ∧ tyCritical c.ty = false ∧ tyReservedOk c.ty = true

theorem skRunR_plain_pre (imgOk : ImgRule) (cs : List RChunk) (h : ∀ c ∈ cs, PlainAncillary c) :
    ∀ sk : Sk, sk.phase = .pre → skRunR imgOk sk cs = .ok sk := by
  induction cs with
  | nil => intro sk _; rfl
  | cons c cs ih =>
    intro sk hp
    obtain ⟨h1, h2, h3⟩ := h c (by simp)
    simp only [skRunR, summarize_other c h1, skStep, hp, stepOther, closeRun, h2, h3]
    simp only [reduceCtorEq, if_false, Bool.false_eq_true, Bool.not_true]
    exact ih (fun c hc => h c (by simp [hc])) sk hp

def headerAncTypes : List Ty := [tyPHYS, tySRGB, tyGAMA, tyCHRM, tyICCP, tyEXIF, tyTRNS, tyTEXT, tyZTXT, tyITXT]

theorem headerAnc_plain {c : RChunk} (h : c.ty ∈ headerAncTypes) : PlainAncillary c := by
  simp only [headerAncTypes, List.mem_cons, List.not_mem_nil, or_false] at h
  unfold PlainAncillary
  rcases h with h | h | h | h | h | h | h | h | h | h <;> rw [h] <;> decide

theorem optChunk_ty {ty : Ty} {o : Option Bytes} {c : RChunk} (h : c ∈ optChunk ty o) : c.ty = ty := by
  cases o <;> simp [optChunk] at h; rw [h]

theorem preChunks_types (m : Meta) : ∀ c ∈ preChunks m, c.ty ∈ headerAncTypes := by
  intro c hc
  simp only [preChunks, List.mem_append] at hc
  rcases hc with (hc | hc) | hc
  · rw [optChunk_ty hc]; decide
  · cases hs : m.srgb with
    | some i =>
      simp only [hs, List.mem_append, List.mem_cons, List.not_mem_nil, or_false] at hc
      rcases hc with (hc | hc) | hc
      · rw [hc]; exact (by decide : tySRGB ∈ headerAncTypes)
      · split at hc <;> simp at hc; rw [hc]; exact (by decide : tyGAMA ∈ headerAncTypes)
      · split at hc <;> simp at hc; rw [hc]; exact (by decide : tyCHRM ∈ headerAncTypes)
    | none =>
      simp only [hs, List.mem_append] at hc
      rcases hc with (hc | hc) | hc <;> rw [optChunk_ty hc] <;> decide
  · rw [optChunk_ty hc]; decide

theorem textPrefix_mem (ts : List (Option RChunk)) : ∀ c ∈ (textPrefix ts).1, some c ∈ ts := by
  induction ts with
  | nil => intro c h; simp [textPrefix] at h
  | cons t ts ih =>
    intro c h
    cases t with
    | none => simp [textPrefix] at h
    | some r =>
      simp only [textPrefix, List.mem_cons] at h
      rcases h with h | h
      · simp [h]
      · simp [ih c h]

/-- `Encoder::with_info` lets the configuration through unchanged (its frame control is non-empty,
    inside the canvas, and already has sequence number 0) -/
def withInfoOk (c : Cfg) : Bool :=
  match withInfo c with
  | .ok c' => c' == c
  | .error _ => false

/-- what `Encoder::new` + `Encoder::set_animated` build: frame control = the whole canvas, sequence number 0 -/
def Cfg.fromNew (c : Cfg) : Prop :=
  c.actl.isSome = c.fctl.isSome ∧ (∀ a ∈ c.actl, a.1 ≠ 0) ∧
  ∀ f ∈ c.fctl, f.seq = 0 ∧ f.x = 0 ∧ f.y = 0 ∧ f.w = c.width ∧ f.h = c.height

instance (c : Cfg) : Decidable c.fromNew := by unfold Cfg.fromNew; infer_instance

/-- the configurations an `Encoder` can hold when `write_header` is called -/
def Cfg.Accepted (c : Cfg) : Prop := withInfoOk c = true ∨ c.fromNew

instance (c : Cfg) : Decidable c.Accepted := by unfold Cfg.Accepted; infer_instance

/-- the C12 domain as far as the configuration is concerned: field types in range, accepted by the
    `Encoder`, and legal pass-through payloads (palette bytes, text chunk types) -/
def Cfg.WellFormed (c : Cfg) : Prop :=
  c.inRange ∧ c.Accepted ∧
  (∀ p ∈ c.palette, c.color ≠ 0 ∧ c.color ≠ 4 ∧ p.length % 3 = 0 ∧ 0 < p.length ∧ p.length ≤ 768) ∧
  (∀ r, some r ∈ c.texts → r.ty ∈ textTypes)

instance (c : Cfg) : Decidable c.WellFormed := by
  unfold Cfg.WellFormed
  have : Decidable (∀ r, some r ∈ c.texts → r.ty ∈ textTypes) :=
    decidable_of_iff (∀ t ∈ c.texts, ∀ r, t = some r → r.ty ∈ textTypes) (by
      constructor
      · intro h r hr; exact h (some r) hr r rfl
      · intro h t ht r hr; subst hr; exact h r ht)
  infer_instance

/-- what acceptance guarantees: animation control and frame control come together, at least one frame,
    sequence number 0, and — on a non-empty canvas — a non-empty frame inside the canvas -/
theorem accepted_spec {c : Cfg} (h : c.Accepted) :
    (c.actl = none ↔ c.fctl = none) ∧ (∀ n p, c.actl = some (n, p) → 0 < n) ∧
    ∀ f, c.fctl = some f → f.seq = 0 ∧
      (0 < c.width → 0 < c.height → 0 < f.w ∧ 0 < f.h ∧ f.x + f.w ≤ c.width ∧ f.y + f.h ≤ c.height) := by
  rcases h with h | ⟨h1, h2, h3⟩
  · unfold withInfoOk withInfo at h
    by_cases h1 : (c.actl.isSome != c.fctl.isSome) = true
    · rw [if_pos h1] at h; cases h
    · rw [if_neg h1] at h
      by_cases h2 : c.actl.map (·.1) = some 0
      · rw [if_pos h2] at h; cases h
      · rw [if_neg h2] at h
        have hiff : c.actl = none ↔ c.fctl = none := by
          cases ha : c.actl <;> cases hf : c.fctl <;> simp [ha, hf] at h1 ⊢
        have hpos : ∀ n p, c.actl = some (n, p) → 0 < n := by
          intro n p ha
          cases n with
          | zero => simp [ha] at h2
          | succ k => omega
        refine ⟨hiff, hpos, ?_⟩
        intro f hf
        rw [hf] at h
        simp only [checkFrameControl] at h
        by_cases hw : f.w = 0
        · simp [hw] at h
        · by_cases hh : f.h = 0
          · simp [hw, hh] at h
          · cases hg : (gtCheckedSub f.w c.width f.x || gtCheckedSub f.h c.height f.y) with
            | true => simp [hw, hh, hg] at h
            | false =>
              simp only [hw, hh, hg, if_false, Bool.false_eq_true, beq_iff_eq] at h
              have hfc := congrArg Cfg.fctl h
              simp only [hf, Option.some.injEq] at hfc
              have hseq : f.seq = 0 := by have := congrArg FC.seq hfc; simpa using this.symm
              simp only [Bool.or_eq_false_iff] at hg
              obtain ⟨a1, a2⟩ := gtCheckedSub_false hg.1
              obtain ⟨b1, b2⟩ := gtCheckedSub_false hg.2
              exact ⟨hseq, fun _ _ => ⟨by omega, by omega, by omega, by omega⟩⟩
  · refine ⟨?_, ?_, ?_⟩
    · cases ha : c.actl <;> cases hf : c.fctl <;> simp [ha, hf] at h1 ⊢
    · intro n p ha
      have := h2 (n, p) (by simp [ha]); simp only at this; omega
    · intro f hf
      obtain ⟨g1, g2, g3, g4, g5⟩ := h3 f (by simp [hf])
      exact ⟨g1, fun hw hh => by omega⟩

/-- the automaton over the header chunks after IHDR -/
theorem header_run (imgOk : ImgRule) (c : Cfg) (hw : c.WellFormed) :
    skRunR imgOk { cw := c.width, ch := c.height, color := c.color }
      (preChunks c.md ++ (match c.actl with | some (n, p) => [mkActl n p] | none => []) ++
        optChunk tyPLTE c.palette ++ optChunk tyTRNS c.trns ++ (textPrefix c.texts).1) =
    .ok { cw := c.width, ch := c.height, color := c.color, plte := c.palette.isSome, frames := c.actl.map (·.1) } := by
  obtain ⟨⟨_, _, _, _, hr5, _⟩, hwi, hpal, htx⟩ := hw
  obtain ⟨_, hpos, _⟩ := accepted_spec hwi
  -- metadata chunks
  have h1 : skRunR imgOk { cw := c.width, ch := c.height, color := c.color } (preChunks c.md) =
      .ok { cw := c.width, ch := c.height, color := c.color } :=
    skRunR_plain_pre imgOk _ (fun x hx => headerAnc_plain (preChunks_types c.md x hx)) _ rfl
  -- acTL
  have h2 : skRunR imgOk { cw := c.width, ch := c.height, color := c.color }
      (match c.actl with | some (n, p) => [mkActl n p] | none => []) =
      .ok { cw := c.width, ch := c.height, color := c.color, frames := c.actl.map (·.1) } := by
    cases ha : c.actl with
    | none => rfl
    | some a =>
      obtain ⟨n, p⟩ := a
      have hn := hpos n p ha
      obtain ⟨r1, r2⟩ := hr5 (n, p) (by simp [ha])
      simp only [skRunR, summarize_actl n p r1 r2, skStep, stepActl]
      have : n ≠ 0 := by omega
      simp [this]
  -- PLTE
  have h3 : skRunR imgOk { cw := c.width, ch := c.height, color := c.color, frames := c.actl.map (·.1) }
      (optChunk tyPLTE c.palette) =
      .ok { cw := c.width, ch := c.height, color := c.color, plte := c.palette.isSome, frames := c.actl.map (·.1) } := by
    cases hp : c.palette with
    | none => rfl
    | some p =>
      obtain ⟨q1, q2, q3, q4, q5⟩ := hpal p (by simp [hp])
      simp only [optChunk, skRunR, summarize_plte, skStep, stepPlte]
      have e1 : ¬ (c.color = 0 ∨ c.color = 4) := by omega
      have e2 : ¬ (p.length % 3 ≠ 0 ∨ p.length = 0 ∨ p.length > 768) := by omega
      simp only [e1, e2, reduceCtorEq, if_false, ne_eq, not_true_eq_false, Bool.false_eq_true, Option.isSome_some]
  -- tRNS and text chunks
  have h4 : skRunR imgOk { cw := c.width, ch := c.height, color := c.color, plte := c.palette.isSome, frames := c.actl.map (·.1) }
      (optChunk tyTRNS c.trns ++ (textPrefix c.texts).1) =
      .ok { cw := c.width, ch := c.height, color := c.color, plte := c.palette.isSome, frames := c.actl.map (·.1) } := by
    apply skRunR_plain_pre imgOk _ _ _ rfl
    intro x hx
    simp only [List.mem_append] at hx
    rcases hx with hx | hx
    · exact headerAnc_plain (by rw [optChunk_ty hx]; decide)
    · have := htx x (textPrefix_mem c.texts x hx)
      obtain ⟨a1, a2, a3⟩ := textTypes_not_special this
      exact ⟨a1, a2, a3⟩
  simp only [List.append_assoc]
  exact skRunR_append_ok h1 (skRunR_append_ok h2 (skRunR_append_ok h3 h4))



theorem initState_good (c : Cfg) : (initState c {}).sink.good := ⟨rfl, rfl⟩

/-- after a successful `write_header` on a sink that never fails the invariant holds -/
theorem header_inv (imgOk : ImgRule) (c : Cfg) (hw : c.WellFormed) {s : WState}
    (h : writeHeader c {} = (s, .ok)) :
    Inv imgOk s 0 0 .pre ∧ StaticEq (initState c {}) s ∧ s.sink.chunks = headerChunks c := by
  have hrun := header_run imgOk c hw
  obtain ⟨⟨i1, i2, i3, i4, i5, i6⟩, hwi, hpal, htx⟩ := hw
  obtain ⟨hiff, hpos, hfc⟩ := accepted_spec hwi
  unfold writeHeader at h
  by_cases hw0 : c.width = 0
  · simp [hw0] at h
  · by_cases hh0 : c.height = 0
    · simp [hw0, hh0] at h
    · cases hci : combinationInvalid c.color c.depth with
      | true => simp [hw0, hh0, hci] at h
      | false =>
        simp only [hw0, hh0, hci, if_false, Bool.false_eq_true] at h
        rw [Sink.emit_good (initState_good c)] at h
        simp only at h
        obtain ⟨k, hk, hkg, hkc⟩ := WState.emit_good' (s := { initState c {} with sink := { (initState c {}).sink with log := (initState c {}).sink.log ++ [⟨.sig, Piece.sig.size⟩], count := (initState c {}).sink.count + Piece.sig.size } }) (initState_good c) (headerChunks c)
        rw [hk] at h
        simp only at h
        cases htp : (textPrefix c.texts).2 with
        | false => simp [htp] at h
        | true =>
          simp only [htp, if_true, Prod.mk.injEq, and_true] at h
          subst h
          have hch : k.chunks = headerChunks c := by
            rw [hkc]; simp [Sink.chunks, initState]
          refine ⟨?_, ⟨rfl, rfl, rfl, rfl, rfl, rfl, rfl, rfl⟩, hch⟩
          exact {
            good := hkg
            iend := rfl
            run := ⟨_, by rw [hch]; simp only [headerChunks, List.append_assoc, List.cons_append, List.nil_append]; rfl, by
              simp only [List.append_assoc, initState, absSk] at hrun ⊢; exact hrun⟩
            phPre := by simp [initState]
            phDone := by simp
            openI := by intro acc h; cases h
            openF := by intro w hh acc h; cases h
            dims := ⟨i1, i2⟩
            valid := ⟨by simp only [initState]; omega, by simp only [initState]; omega, i3, i4⟩
            actlR := by intro n p ha; exact (i5 (n, p) (by simpa [initState] using ha)).1
            actlP := by intro n p ha; exact hpos n p (by simpa [initState] using ha)
            noActl := by intro ha; exact hiff.mp (by simpa [initState] using ha)
            cnt := by simp [initState]
            fc := by
              intro f hf
              have hf' : c.fctl = some f := by simpa [initState] using hf
              obtain ⟨f1, f2⟩ := hfc f hf'
              obtain ⟨f3, f4, f5, f6⟩ := f2 (by omega) (by omega)
              have hne : c.actl ≠ none := fun hn => by rw [hiff.mp hn] at hf'; cases hf'
              obtain ⟨⟨n, p⟩, ha⟩ : ∃ a, c.actl = some a := by
                cases hx : c.actl with
                | none => exact absurd hx hne
                | some a => exact ⟨a, rfl⟩
              refine ⟨i6 f (by simp [hf']), f1.symm, ?_, rfl, ⟨n, p, by simp [initState, ha], hpos n p ha⟩, by simp [initState]⟩
              simp only [RectOk, initState]; omega
            fin := by
              intro hf n p ha
              have hf' : c.fctl = none := by simpa [initState] using hf
              have ha' : c.actl = some (n, p) := by simpa [initState] using ha
              rw [hiff.mpr hf'] at ha'; cases ha' }



/-! ### static fields are never touched (any sink) -/

theorem emit_static (s : WState) (cs : List RChunk) : StaticEq s (s.emit cs).1 := by
  simp [WState.emit, StaticEq]

theorem incr_static (s : WState) : StaticEq s (incrementImagesWritten s) := by
  unfold incrementImagesWritten
  cases ha : s.actl with
  | none => simp [StaticEq, ha]
  | some a => obtain ⟨n, p⟩ := a; simp only; split <;> simp [StaticEq, ha]

theorem emitIdatImage_static (s : WState) (z : Bytes) : StaticEq s (emitIdatImage s z).1 := by
  unfold emitIdatImage
  have h := emit_static s (idatChunks z)
  cases hh : s.emit (idatChunks z) with
  | mk s' ok =>
    rw [hh] at h
    cases ok with
    | false => exact h
    | true => exact h.trans (incr_static s')

theorem emitFdatImage_static (s : WState) (f : FC) (q : Nat) (z : Bytes) : StaticEq s (emitFdatImage s f q z).1 := by
  simp only [emitFdatImage]
  have h := emit_static s (fdatChunks q (chunksOf maxFdatChunkLen z)).1
  cases hh : s.emit (fdatChunks q (chunksOf maxFdatChunkLen z)).1 with
  | mk s' ok =>
    rw [hh] at h
    cases ok with
    | false => exact StaticEq.trans (b := s') h (by simp [StaticEq])
    | true => exact StaticEq.trans (b := { s' with fctl := some { f with seq := seqAfter q (chunksOf maxFdatChunkLen z).length } }) h (incr_static _)

theorem emitFrame_static (s : WState) (f : FC) (z : Bytes) : StaticEq s (emitFrame s f z).1 := by
  simp only [emitFrame]
  have h := emit_static s [mkFctl f]
  cases hh : s.emit [mkFctl f] with
  | mk s' ok =>
    rw [hh] at h
    cases ok with
    | false => exact h
    | true =>
      simp only
      split
      · exact h
      · split
        · exact StaticEq.trans (b := { s' with fctl := some { f with seq := (f.seq + 1) % 2 ^ 32 }, animWritten := s'.animWritten + 1 }) h (emitIdatImage_static _ z)
        · exact StaticEq.trans (b := { s' with fctl := some { f with seq := (f.seq + 1) % 2 ^ 32 }, animWritten := s'.animWritten + 1 }) h (emitFdatImage_static _ f _ z)

theorem emitImage_static (s : WState) (z : Bytes) : StaticEq s (emitImage s z).1 := by
  unfold emitImage
  cases hf : s.fctl with
  | none => exact emitIdatImage_static s z
  | some f => simp only; split; exact emitIdatImage_static s z; exact emitFrame_static s f z

theorem writeImageData_static (E : Codec) (s : WState) (d : Bytes) : StaticEq s (writeImageData E s d).1 := by
  unfold writeImageData
  cases imageChecks s d with
  | error r => exact StaticEq.refl s
  | ok a => exact emitImage_static s _

theorem withFctl_static (s : WState) (k : FC → WState × Res) (hk : ∀ f, StaticEq s (k f).1) : StaticEq s (withFctl s k).1 := by
  unfold withFctl
  cases s.fctl with
  | none => exact StaticEq.refl s
  | some f => exact hk f

theorem writerStep_static (E : Codec) (s : WState) (op : Op) : StaticEq s (writerStep E s op).1 := by
  cases op with
  | image d => exact writeImageData_static E s d
  | chunk t d =>
    simp only [writerStep, writeChunk]
    split
    · exact StaticEq.refl s
    · have h := emit_static s [⟨t, d⟩]
      cases hh : s.emit [⟨t, d⟩] with
      | mk s' ok => rw [hh] at h; cases ok <;> exact h
  | text b =>
    cases b with
    | none => exact StaticEq.refl s
    | some c =>
      simp only [writerStep, writeTextChunk]
      have h := emit_static s [c]
      cases hh : s.emit [c] with
      | mk s' ok => rw [hh] at h; cases ok <;> exact h
  | setDelay n d => exact withFctl_static s _ (fun f => by simp [StaticEq])
  | setDim w h =>
    refine withFctl_static s _ (fun f => ?_)
    split; exact StaticEq.refl s; split; exact StaticEq.refl s; split; exact StaticEq.refl s; simp [StaticEq]
  | setPos x y =>
    refine withFctl_static s _ (fun f => ?_)
    split; exact StaticEq.refl s; simp [StaticEq]
  | resetDim =>
    refine withFctl_static s _ (fun f => ?_)
    split; exact StaticEq.refl s; simp [StaticEq]
  | resetPos => exact withFctl_static s _ (fun f => by simp [StaticEq])
  | setBlend b => exact withFctl_static s _ (fun f => by simp [StaticEq])
  | setDispose d => exact withFctl_static s _ (fun f => by simp [StaticEq])



def Op.isImage : Op → Bool
  | .image _ => true
  | _ => false

/-- what the C12 domain asks of one operation in the state it is applied to: argument types in
    range, no successful image write beyond the declared number -/
def opAllowed (E : Codec) (s : WState) (op : Op) : Prop :=
  op.inRange ∧
  (op.isImage = true → s.imagesWritten < declared s ∨ (writerStep E s op).2 ≠ .ok)

instance (E : Codec) (s : WState) (op : Op) : Decidable (opAllowed E s op) := by
  unfold opAllowed; infer_instance

def AllAllowed (E : Codec) : WState → List Op → Prop
  | _, [] => True
  | s, op :: ops => opAllowed E s op ∧ AllAllowed E (writerStep E s op).1 ops

instance allAllowedDec (E : Codec) : (s : WState) → (ops : List Op) → Decidable (AllAllowed E s ops)
  | _, [] => isTrue trivial
  | s, op :: ops =>
    have := allAllowedDec E (writerStep E s op).1 ops
    by unfold AllAllowed; infer_instance

/-- one step of the whole-image API inside the domain -/
theorem Inv.step {imgOk : ImgRule} {E : Codec} {s : WState} {seq fctls : Nat} {ph : Phase}
    (inv : Inv imgOk s seq fctls ph) (hE : Codec.Ok imgOk E s.color s.depth) (op : Op)
    (ha : opAllowed E s op) :
    ∃ seq' fctls' ph', Inv imgOk (writerStep E s op).1 seq' fctls' ph' ∧ (writerStep E s op).2.isPanic = false := by
  obtain ⟨hr, himg⟩ := ha
  cases op with
  | image d => exact inv.image hE d hr (himg rfl)
  | chunk t d =>
    obtain ⟨ph', h⟩ := inv.passThrough (E := E) (.chunk t d) hr (Or.inl ⟨t, d, rfl⟩)
    exact ⟨seq, fctls, ph', h⟩
  | text b =>
    obtain ⟨ph', h⟩ := inv.passThrough (E := E) (.text b) hr (Or.inr ⟨b, rfl⟩)
    exact ⟨seq, fctls, ph', h⟩
  | setDelay n d => exact ⟨seq, fctls, ph, inv.setter (E := E) _ hr (by simp) (by simp) (by simp)⟩
  | setDim w h => exact ⟨seq, fctls, ph, inv.setter (E := E) _ hr (by simp) (by simp) (by simp)⟩
  | setPos x y => exact ⟨seq, fctls, ph, inv.setter (E := E) _ hr (by simp) (by simp) (by simp)⟩
  | resetDim => exact ⟨seq, fctls, ph, inv.setter (E := E) _ hr (by simp) (by simp) (by simp)⟩
  | resetPos => exact ⟨seq, fctls, ph, inv.setter (E := E) _ hr (by simp) (by simp) (by simp)⟩
  | setBlend b => exact ⟨seq, fctls, ph, inv.setter (E := E) _ hr (by simp) (by simp) (by simp)⟩
  | setDispose d => exact ⟨seq, fctls, ph, inv.setter (E := E) _ hr (by simp) (by simp) (by simp)⟩

theorem Res.not_panic_cases {r : Res} (h : r.isPanic = false) : ∀ p, r ≠ .panic p := by
  intro p hp; subst hp; cases h

/-- a whole operation sequence inside the domain: invariant at the end, no panic on the way -/
theorem Inv.runOps {imgOk : ImgRule} {E : Codec} (ops : List Op) :
    ∀ {s : WState} {seq fctls : Nat} {ph : Phase}, Inv imgOk s seq fctls ph →
      Codec.Ok imgOk E s.color s.depth → AllAllowed E s ops →
      ∃ seq' fctls' ph', Inv imgOk (Enc.runOps E s ops).1 seq' fctls' ph' ∧
        anyPanic (Enc.runOps E s ops).2 = false ∧ StaticEq s (Enc.runOps E s ops).1 := by
  induction ops with
  | nil => intro s seq fctls ph inv _ _; exact ⟨seq, fctls, ph, inv, rfl, StaticEq.refl s⟩
  | cons op ops ih =>
    intro s seq fctls ph inv hE hall
    obtain ⟨hop, hrest⟩ := hall
    obtain ⟨seq1, fctls1, ph1, inv1, hnp⟩ := inv.step hE op hop
    have hst := writerStep_static E s op
    have hE1 : Codec.Ok imgOk E (writerStep E s op).1.color (writerStep E s op).1.depth := by
      rw [hst.2.2.1, hst.2.2.2.1]; exact hE
    obtain ⟨seq2, fctls2, ph2, inv2, hnp2, hst2⟩ := ih inv1 hE1 hrest
    simp only [Enc.runOps]
    cases hws : writerStep E s op with
    | mk s' r =>
      rw [hws] at hnp inv2 hnp2 hst2 hst
      cases r with
      | panic p => cases hnp
      | ok => exact ⟨seq2, fctls2, ph2, inv2, by simpa [anyPanic, Res.isPanic] using hnp2, hst.trans hst2⟩
      | err e => exact ⟨seq2, fctls2, ph2, inv2, by simpa [anyPanic, Res.isPanic] using hnp2, hst.trans hst2⟩



/-- all declared images written: the IEND chunk completes a valid skeleton -/
theorem Inv.finishChunk {imgOk : ImgRule} {s : WState} {seq fctls : Nat} {ph : Phase}
    (inv : Inv imgOk s seq fctls ph) (hall : s.imagesWritten = declared s) :
    validateSequenceDone s = none ∧ (writeIend s).2 = true ∧
    (writeIend s).1.iendWritten = true ∧ (writeIend s).1.sink.good ∧
    ∃ rest, (writeIend s).1.sink.chunks = ihdrOf s :: rest ∧
      skeletonOfChunks imgOk s.width s.height s.color rest = .ok () := by
  -- the declared number is at least one
  have hpos : 0 < declared s := by
    unfold declared
    rcases opt_cases s.actl with ha | ⟨⟨n, p⟩, ha⟩
    · simp [ha]
    · have := inv.actlP n p ha; simp only [ha]; omega
  have hne : s.imagesWritten ≠ 0 := by omega
  -- an animation is complete
  have hfn : s.actl ≠ none → s.fctl = none := by
    intro _
    rcases opt_cases s.fctl with hf | ⟨f, hf⟩
    · exact hf
    · exfalso
      obtain ⟨_, _, _, _, ⟨n, p, ha, hlt⟩, h6⟩ := inv.fc f hf
      simp only [declared, ha] at hall
      simp only [hne, ne_eq, not_false_eq_true, and_true] at h6
      cases hs : s.sepDefImg <;> simp [hs] at h6 hall <;> omega
  have hv : validateSequenceDone s = none := by
    unfold validateSequenceDone
    cases s.validate with
    | false => rfl
    | true =>
      have : ¬ ((s.actl.isSome = true ∧ s.fctl.isSome = true) ∨ s.imagesWritten = 0) := by
        rintro (⟨h1, h2⟩ | h)
        · have : s.actl ≠ none := by intro h; simp [h] at h1
          simp [hfn this] at h2
        · exact hne h
      simp [this]
  obtain ⟨k, hk, hkg, hkc⟩ := WState.emit_good' (s := { s with iendWritten := true }) inv.good [iendChunk]
  have hphm : closed ph = .mid := closed_of_written (fun h => hne (inv.phPre.mpr h)) inv.phDone
  have hstep : skRunR imgOk (absSk s seq fctls ph) [iendChunk] = .ok (absSk s seq fctls .done) := by
    have hnd : (absSk s seq fctls ph).phase ≠ .done := inv.phDone
    simp only [skRunR, summarize_iend, skStep, hnd, if_false, stepIend, closeRun_abs inv.openI inv.openF, hphm]
    have hfr : ¬ ((absSk s seq fctls .mid).frames ≠ none ∧ (absSk s seq fctls .mid).frames ≠ some (absSk s seq fctls .mid).fctls) := by
      rintro ⟨h1, h2⟩
      simp only [absSk] at h1 h2
      rcases opt_cases s.actl with ha | ⟨⟨n, p⟩, ha⟩
      · simp [ha] at h1
      · have := (inv.fin (hfn (by simp [ha])) n p ha).1
        simp [ha, this] at h2
    simp only [hfr, if_false]
    simp [absSk]
  obtain ⟨rest, hc0, hr0⟩ := inv.run
  refine ⟨hv, by simp [writeIend, hk], by simp [writeIend, hk], by simp [writeIend, hk]; exact hkg, rest ++ [iendChunk], ?_, ?_⟩
  · simp only [writeIend, hk]; rw [hkc]; simp only; rw [hc0]; rfl
  · exact skeletonOfChunks_of_run (skRunR_append_ok hr0 hstep) rfl

def noFlushFault (s : WState) : Prop := s.sink.beh.flushFailAt = none

/-- the domain of C12 for the whole-image API (decidable for a given back-end): `write_header`
    succeeds, every operation is allowed, and at the end exactly the declared images are written -/
def SuppliesDeclaredImages (E : Codec) (c : Cfg) (ops : List Op) : Prop :=
  (writeHeader c {}).2 = .ok ∧ AllAllowed E (writeHeader c {}).1 ops ∧
  (Enc.runOps E (writeHeader c {}).1 ops).1.imagesWritten = declared (writeHeader c {}).1

instance (E : Codec) (c : Cfg) (ops : List Op) : Decidable (SuppliesDeclaredImages E c ops) := by
  unfold SuppliesDeclaredImages; infer_instance

theorem dropW_of_iend {s : WState} (h : s.iendWritten = true) : dropW s = s := by simp [dropW, h]

/-- C12 for `Writer`: inside the domain nothing fails, nothing panics, and the chunks the sink holds
    after `finish` (or after the drop) satisfy the sequencing rules of the validator -/
theorem writer_skeleton_valid (imgOk : ImgRule) (E : Codec) (c : Cfg) (hw : c.WellFormed)
    (hE : Codec.Ok imgOk E c.color c.depth) (ops : List Op) (fin : Final)
    (hdom : SuppliesDeclaredImages E c ops) :
    (runWriter E c {} ops fin).header = .ok ∧
    anyPanic (runWriter E c {} ops fin).results = false ∧
    (runWriter E c {} ops fin).final = some .ok ∧
    ∃ rest, (runWriter E c {} ops fin).state.sink.chunks = mkIhdr c :: rest ∧
      skeletonOfChunks imgOk c.width c.height c.color rest = .ok () := by
  obtain ⟨hh, hall, hcount⟩ := hdom
  cases hwh : writeHeader c {} with
  | mk s0 r0 =>
    rw [hwh] at hh hall hcount
    simp only at hh hall hcount
    subst hh
    obtain ⟨inv0, hst0, hch0⟩ := header_inv imgOk c hw hwh
    have hE0 : Codec.Ok imgOk E s0.color s0.depth := by rw [hst0.2.2.1, hst0.2.2.2.1]; exact hE
    obtain ⟨seq1, fctls1, ph1, inv1, hnp, hst1⟩ := inv0.runOps ops hE0 hall
    have hcount' : (Enc.runOps E s0 ops).1.imagesWritten = declared (Enc.runOps E s0 ops).1 := by
      rw [declared_static hst1]; exact hcount
    unfold runWriter
    rw [hwh]
    simp only
    cases hro : Enc.runOps E s0 ops with
    | mk s1 rs =>
      rw [hro] at inv1 hnp hst1 hcount'
      simp only at inv1 hnp hst1 hcount' ⊢
      obtain ⟨hv, hw1, hw2, hw3, rest, hw4, hw6⟩ := inv1.finishChunk hcount'
      have hst := hst0.trans hst1
      have hhd : ihdrOf s1 = mkIhdr c := by
        simp [ihdrOf, mkIhdr, hst.1, hst.2.1, hst.2.2.1, hst.2.2.2.1, initState]
      rw [hhd] at hw4
      have e1 : s1.width = c.width := hst.1
      have e2 : s1.height = c.height := hst.2.1
      have e3 : s1.color = c.color := hst.2.2.1
      rw [e1, e2, e3] at hw6
      simp only [hnp, Bool.false_eq_true, if_false]
      cases hwi : writeIend s1 with
      | mk s2 ok =>
        rw [hwi] at hw1 hw2 hw3 hw4
        simp only at hw1 hw2 hw3 hw4
        subst hw1
        cases fin with
        | drop =>
          have hd : dropW s1 = s2 := by simp [dropW, inv1.iend, hwi]
          simp only [finalStep, hd]
          exact ⟨trivial, trivial, trivial, rest, hw4, hw6⟩
        | finish =>
          have hfl : (s2.sink.flush).2 = true := by simp [Sink.flush, hw3.2]
          cases hf2 : s2.sink.flush with
          | mk k okf =>
            rw [hf2] at hfl; simp only at hfl; subst hfl
            have hkc : k.chunks = s2.sink.chunks := by
              have : k = { s2.sink with flushes := s2.sink.flushes + 1 } := by
                have := congrArg Prod.fst hf2; simpa [Sink.flush] using this.symm
              rw [this]; rfl
            simp only [finalStep, finishW, hv, hwi, hf2]
            rw [dropW_of_iend (by exact hw2)]
            exact ⟨trivial, trivial, trivial, rest, by simp only; rw [hkc]; exact hw4, hw6⟩



/-! ## Part 5: facts that hold for EVERY sink (C19) -/

/-- what `Sink.emit` does to the log, whatever the failure schedule -/
theorem Sink.emit_log (k : Sink) (p : Piece) :
    ∃ n, (k.emit p).1.log = k.log ++ [⟨p, n⟩] ∧ ((k.emit p).2 = true → n = p.size) ∧
      (k.emit p).1.beh = k.beh ∧ (k.emit p).1.flushes = k.flushes := by
  unfold Sink.emit
  cases k.budget with
  | none => exact ⟨p.size, rfl, fun _ => rfl, rfl, rfl⟩
  | some b =>
    by_cases h : p.size ≤ b
    · refine ⟨p.size, ?_⟩; simp [h]
    · refine ⟨b, ?_⟩; simp [h]

/-- the log grows by attempts to write chunks of `cs`, all complete if the call succeeds -/
theorem Sink.emitChunks_log (cs : List RChunk) :
    ∀ k : Sink, ∃ ext, (k.emitChunks cs).1.log = k.log ++ ext ∧
      (∀ e ∈ ext, ∃ c ∈ cs, e.piece = .chunk c) ∧
      ((k.emitChunks cs).2 = true → ∀ e ∈ ext, e.complete = true) ∧
      (k.emitChunks cs).1.beh = k.beh ∧ (k.emitChunks cs).1.flushes = k.flushes := by
  induction cs with
  | nil => intro k; exact ⟨[], by simp [Sink.emitChunks], by simp, by simp, rfl, rfl⟩
  | cons c cs ih =>
    intro k
    obtain ⟨n, h1, h2, h3, h4⟩ := k.emit_log (.chunk c)
    simp only [Sink.emitChunks]
    cases he : k.emit (.chunk c) with
    | mk k' ok =>
      rw [he] at h1 h2 h3 h4
      simp only at h1 h2 h3 h4
      cases ok with
      | false =>
        refine ⟨[⟨.chunk c, n⟩], h1, ?_, by simp, h3, h4⟩
        intro e he; simp only [List.mem_singleton] at he; subst he; exact ⟨c, by simp, rfl⟩
      | true =>
        obtain ⟨ext, g1, g2, g3, g4, g5⟩ := ih k'
        refine ⟨⟨.chunk c, n⟩ :: ext, by rw [g1, h1]; simp, ?_, ?_, by rw [g4, h3], by rw [g5, h4]⟩
        · intro e he
          simp only [List.mem_cons] at he
          rcases he with he | he
          · subst he; exact ⟨c, by simp, rfl⟩
          · obtain ⟨c', hc', hp⟩ := g2 e he; exact ⟨c', by simp [hc'], hp⟩
        · intro hok e he
          simp only [List.mem_cons] at he
          rcases he with he | he
          · subst he; simp [Emit.complete, h2 rfl]
          · exact g3 hok e he

/-- how a writer call may change the state, whatever the sink does: static fields and the IEND flag
    stay, the log only grows, by chunks that are not IEND; `fctl` keeps a legal rectangle if it had
    one; `animation_written` grows by at most one -/
structure Evolves (s s' : WState) : Prop where
  static : StaticEq s s'
  iend : s'.iendWritten = s.iendWritten
  beh : s'.sink.beh = s.sink.beh
  flushes : s'.sink.flushes = s.sink.flushes
  log : ∃ ext, s'.sink.log = s.sink.log ++ ext ∧ ∀ e ∈ ext, ∃ c, e.piece = .chunk c ∧ c.ty ≠ tyIEND
  rect : (∀ f, s.fctl = some f → RectOk s f) → ∀ f, s'.fctl = some f → RectOk s' f
  animLo : s.animWritten ≤ s'.animWritten
  animHi : s'.animWritten ≤ s.animWritten + 1

theorem Evolves.refl (s : WState) : Evolves s s :=
  ⟨StaticEq.refl s, rfl, rfl, rfl, ⟨[], by simp, by simp⟩, fun h => h, Nat.le_refl _, Nat.le_succ _⟩

theorem RectOk_static {a b : WState} (h : StaticEq a b) (f : FC) : RectOk b f ↔ RectOk a f := by
  simp [RectOk, h.1, h.2.1]

/-- composition; the bound on `animation_written` is kept separately by the callers -/
theorem Evolves.trans' {a b c : WState} (h1 : Evolves a b) (h2 : Evolves b c)
    (hhi : c.animWritten ≤ a.animWritten + 1) : Evolves a c := by
  obtain ⟨e1, l1, m1⟩ := h1.log
  obtain ⟨e2, l2, m2⟩ := h2.log
  exact {
    static := h1.static.trans h2.static
    iend := h2.iend.trans h1.iend
    beh := h2.beh.trans h1.beh
    flushes := h2.flushes.trans h1.flushes
    log := ⟨e1 ++ e2, by rw [l2, l1]; simp, by
      intro e he; simp only [List.mem_append] at he
      rcases he with he | he
      · exact m1 e he
      · exact m2 e he⟩
    rect := fun h => h2.rect (h1.rect h)
    animLo := Nat.le_trans h1.animLo h2.animLo
    animHi := hhi }

/-- emitting chunks none of which is an IEND -/
theorem Evolves.emit (s : WState) (cs : List RChunk) (hc : ∀ c ∈ cs, c.ty ≠ tyIEND) :
    Evolves s (s.emit cs).1 := by
  obtain ⟨ext, g1, g2, _, g4, g5⟩ := Sink.emitChunks_log cs s.sink
  exact {
    static := emit_static s cs
    iend := by simp [WState.emit]
    beh := by simp only [WState.emit]; exact g4
    flushes := by simp only [WState.emit]; exact g5
    log := ⟨ext, by simp only [WState.emit]; exact g1, by
      intro e he; obtain ⟨c, hcm, hp⟩ := g2 e he; exact ⟨c, hp, hc c hcm⟩⟩
    rect := by intro h f hf; simp only [WState.emit] at hf ⊢; exact h f hf
    animLo := by simp [WState.emit]
    animHi := by simp [WState.emit] }



theorem Evolves.incr (s : WState) : Evolves s (incrementImagesWritten s) := by
  have hst := incr_static s
  unfold incrementImagesWritten at hst ⊢
  cases ha : s.actl with
  | none =>
    simp only [ha] at hst ⊢
    exact ⟨hst, rfl, rfl, rfl, ⟨[], by simp, by simp⟩, fun h => h, Nat.le_refl _, Nat.le_succ _⟩
  | some a =>
    obtain ⟨n, p⟩ := a
    simp only [ha] at hst ⊢
    split
    · rename_i hle; simp only [hle, if_true] at hst
      exact ⟨hst, rfl, rfl, rfl, ⟨[], by simp, by simp⟩, fun _ f hf => by simp at hf, Nat.le_refl _, Nat.le_succ _⟩
    · rename_i hle; simp only [hle, if_false] at hst
      exact ⟨hst, rfl, rfl, rfl, ⟨[], by simp, by simp⟩, fun h => h, Nat.le_refl _, Nat.le_succ _⟩

/-- a field update that keeps the rectangle of the frame control -/
theorem Evolves.setSeq (s : WState) (g : FC) (hg : s.fctl = some g) (f' : FC)
    (hsame : f'.w = g.w ∧ f'.h = g.h ∧ f'.x = g.x ∧ f'.y = g.y) (a : Nat)
    (ha : s.animWritten ≤ a ∧ a ≤ s.animWritten + 1) :
    Evolves s { s with fctl := some f', animWritten := a } :=
  ⟨⟨rfl, rfl, rfl, rfl, rfl, rfl, rfl, rfl⟩, rfl, rfl, rfl, ⟨[], by simp, by simp⟩,
    fun h k hk => by
      simp only [Option.some.injEq] at hk; subst hk
      have := h g hg
      simp only [RectOk] at this ⊢
      obtain ⟨e1, e2, e3, e4⟩ := hsame
      rw [e1, e2, e3, e4]; exact this, ha.1, ha.2⟩

theorem idat_not_iend : ∀ c ∈ idatChunks z, c.ty ≠ tyIEND := by
  intro c hc; simp only [idatChunks, List.mem_map] at hc; obtain ⟨p, _, rfl⟩ := hc; show tyIDAT ≠ tyIEND; decide

theorem fdat_not_iend (parts : List Bytes) : ∀ q, ∀ c ∈ (fdatChunks q parts).1, c.ty ≠ tyIEND := by
  induction parts with
  | nil => intro q c hc; simp [fdatChunks] at hc
  | cons p ps ih =>
    intro q c hc
    simp only [fdatChunks, List.mem_cons] at hc
    rcases hc with hc | hc
    · subst hc; show tyFDAT ≠ tyIEND; decide
    · exact ih _ c hc

theorem incr_anim (s : WState) : (incrementImagesWritten s).animWritten = s.animWritten := by
  unfold incrementImagesWritten
  cases s.actl with
  | none => rfl
  | some a => obtain ⟨n, p⟩ := a; simp only; split <;> rfl

theorem Evolves.idatImage (s : WState) (z : Bytes) : Evolves s (emitIdatImage s z).1 := by
  unfold emitIdatImage
  have h := Evolves.emit s (idatChunks z) idat_not_iend
  cases hh : s.emit (idatChunks z) with
  | mk s' ok =>
    rw [hh] at h
    cases ok with
    | false => exact h
    | true =>
      refine h.trans' (Evolves.incr s') ?_
      have := h.animHi
      simp only [incr_anim] at this ⊢
      exact this

theorem idatImage_anim (s : WState) (z : Bytes) : (emitIdatImage s z).1.animWritten = s.animWritten := by
  unfold emitIdatImage
  cases hh : s.emit (idatChunks z) with
  | mk s' ok =>
    have : s'.animWritten = s.animWritten := by
      have := congrArg (fun x => x.1.animWritten) hh; simpa [WState.emit] using this.symm
    cases ok with
    | false => exact this
    | true => simp only [incr_anim]; exact this



theorem emit_anim (s : WState) (cs : List RChunk) : (s.emit cs).1.animWritten = s.animWritten := by
  simp [WState.emit]

theorem emit_fctl (s : WState) (cs : List RChunk) : (s.emit cs).1.fctl = s.fctl := by
  simp [WState.emit]

theorem Evolves.fdatImage (s : WState) (g f : FC) (hf : s.fctl = some g)
    (hsame : f.w = g.w ∧ f.h = g.h ∧ f.x = g.x ∧ f.y = g.y) (q : Nat) (z : Bytes) :
    Evolves s (emitFdatImage s f q z).1 ∧ (emitFdatImage s f q z).1.animWritten = s.animWritten := by
  simp only [emitFdatImage]
  have h := Evolves.emit s (fdatChunks q (chunksOf maxFdatChunkLen z)).1 (fdat_not_iend _ q)
  have ha := emit_anim s (fdatChunks q (chunksOf maxFdatChunkLen z)).1
  have hfc := emit_fctl s (fdatChunks q (chunksOf maxFdatChunkLen z)).1
  cases hh : s.emit (fdatChunks q (chunksOf maxFdatChunkLen z)).1 with
  | mk s' ok =>
    rw [hh] at h ha hfc
    simp only at h ha hfc
    have hf' : s'.fctl = some g := by rw [hfc]; exact hf
    cases ok with
    | false =>
      refine ⟨h.trans' (Evolves.setSeq s' g hf' { f with seq := seqAfter q (s'.sink.chunks.length - s.sink.chunks.length) } hsame s'.animWritten ⟨Nat.le_refl _, Nat.le_succ _⟩) ?_, ?_⟩
      · simp only; omega
      · exact ha
    | true =>
      have h2 := Evolves.setSeq s' g hf' { f with seq := seqAfter q (chunksOf maxFdatChunkLen z).length } hsame s'.animWritten ⟨Nat.le_refl _, Nat.le_succ _⟩
      refine ⟨(h.trans' h2 (by simp only; omega)).trans' (Evolves.incr _) ?_, ?_⟩
      · simp only [incr_anim]; omega
      · simp only [incr_anim]; exact ha

theorem Evolves.frame (s : WState) (f : FC) (hf : s.fctl = some f) (z : Bytes) :
    Evolves s (emitFrame s f z).1 := by
  simp only [emitFrame]
  have h := Evolves.emit s [mkFctl f] (by intro c hc; simp only [List.mem_singleton] at hc; subst hc; show tyFCTL ≠ tyIEND; decide)
  have ha := emit_anim s [mkFctl f]
  have hfc := emit_fctl s [mkFctl f]
  cases hh : s.emit [mkFctl f] with
  | mk s' ok =>
    rw [hh] at h ha hfc
    simp only at h ha hfc
    have hf' : s'.fctl = some f := by rw [hfc]; exact hf
    cases ok with
    | false => exact h
    | true =>
      simp only
      split
      · exact h
      · have h2 := Evolves.setSeq s' f hf' { f with seq := (f.seq + 1) % 2 ^ 32 } ⟨rfl, rfl, rfl, rfl⟩ (s'.animWritten + 1) ⟨Nat.le_succ _, Nat.le_refl _⟩
        have h12 := h.trans' h2 (by simp only; omega)
        split
        · refine h12.trans' (Evolves.idatImage _ z) ?_
          rw [idatImage_anim]; simp only; omega
        · obtain ⟨h3, h4⟩ := Evolves.fdatImage { s' with fctl := some { f with seq := (f.seq + 1) % 2 ^ 32 }, animWritten := s'.animWritten + 1 } { f with seq := (f.seq + 1) % 2 ^ 32 } f rfl ⟨rfl, rfl, rfl, rfl⟩ ((f.seq + 1) % 2 ^ 32) z
          refine h12.trans' h3 ?_
          rw [h4]; simp only; omega

theorem Evolves.image (s : WState) (z : Bytes) : Evolves s (emitImage s z).1 := by
  unfold emitImage
  cases hf : s.fctl with
  | none => exact Evolves.idatImage s z
  | some f => simp only; split; exact Evolves.idatImage s z; exact Evolves.frame s f hf z

theorem Evolves.writeImageData (E : Codec) (s : WState) (d : Bytes) : Evolves s (writeImageData E s d).1 := by
  unfold Enc.writeImageData
  cases imageChecks s d with
  | error r => exact Evolves.refl s
  | ok a => exact Evolves.image s _



/-- the caller does not write IEND chunks himself -/
def Op.noIend : Op → Prop
  | .chunk ty _ => ty ≠ tyIEND
  | .text (some c) => c.ty ≠ tyIEND
  | _ => True

instance (o : Op) : Decidable o.noIend := by
  cases o <;> simp only [Op.noIend] <;> try infer_instance
  rename_i b; cases b <;> simp only [Op.noIend] <;> infer_instance

theorem Evolves.setFc (s : WState) (f' : FC) (hr : (∀ f, s.fctl = some f → RectOk s f) → RectOk s f') :
    Evolves s { s with fctl := some f' } :=
  ⟨⟨rfl, rfl, rfl, rfl, rfl, rfl, rfl, rfl⟩, rfl, rfl, rfl, ⟨[], by simp, by simp⟩,
    fun h k hk => by simp only [Option.some.injEq] at hk; subst hk; exact hr h, Nat.le_refl _, Nat.le_succ _⟩

theorem Evolves.withFctl (s : WState) (k : FC → WState × Res)
    (hk : ∀ f, s.fctl = some f → Evolves s (k f).1) : Evolves s (Enc.withFctl s k).1 := by
  unfold Enc.withFctl
  cases hf : s.fctl with
  | none => exact Evolves.refl s
  | some f => exact hk f hf

/-- every operation of the whole-image API -/
theorem Evolves.step (E : Codec) (s : WState) (op : Op) (hn : op.noIend) : Evolves s (writerStep E s op).1 := by
  cases op with
  | image d => exact Evolves.writeImageData E s d
  | chunk t d =>
    simp only [writerStep, writeChunk]
    split
    · exact Evolves.refl s
    · have h := Evolves.emit s [⟨t, d⟩] (by intro c hc; simp only [List.mem_singleton] at hc; subst hc; exact hn)
      cases hh : s.emit [⟨t, d⟩] with
      | mk s' ok => rw [hh] at h; cases ok <;> exact h
  | text b =>
    cases b with
    | none => exact Evolves.refl s
    | some c =>
      simp only [writerStep, writeTextChunk]
      have h := Evolves.emit s [c] (by intro c' hc; simp only [List.mem_singleton] at hc; subst hc; exact hn)
      cases hh : s.emit [c] with
      | mk s' ok => rw [hh] at h; cases ok <;> exact h
  | setDelay n d =>
    exact Evolves.withFctl s _ (fun f hf => Evolves.setFc s _ (fun h => by have := h f hf; simpa [RectOk] using this))
  | setBlend b =>
    exact Evolves.withFctl s _ (fun f hf => Evolves.setFc s _ (fun h => by have := h f hf; simpa [RectOk] using this))
  | setDispose d =>
    exact Evolves.withFctl s _ (fun f hf => Evolves.setFc s _ (fun h => by have := h f hf; simpa [RectOk] using this))
  | setDim w h =>
    refine Evolves.withFctl s _ (fun f hf => ?_)
    cases hg : (gtCheckedSub w s.width f.x || gtCheckedSub h s.height f.y) with
    | true => simp only [if_true]; exact Evolves.refl s
    | false =>
      simp only [Bool.or_eq_false_iff] at hg
      obtain ⟨a1, a2⟩ := gtCheckedSub_false hg.1
      obtain ⟨b1, b2⟩ := gtCheckedSub_false hg.2
      simp only [Bool.false_eq_true, if_false]
      split
      · exact Evolves.refl s
      · split
        · exact Evolves.refl s
        · refine Evolves.setFc s _ (fun _ => ?_)
          simp only [RectOk]; omega
  | setPos x y =>
    refine Evolves.withFctl s _ (fun f hf => ?_)
    cases hg : (gtCheckedSub x s.width f.w || gtCheckedSub y s.height f.h) with
    | true => simp only [if_true]; exact Evolves.refl s
    | false =>
      simp only [Bool.or_eq_false_iff] at hg
      obtain ⟨a1, a2⟩ := gtCheckedSub_false hg.1
      obtain ⟨b1, b2⟩ := gtCheckedSub_false hg.2
      simp only [Bool.false_eq_true, if_false]
      refine Evolves.setFc s _ (fun h => ?_)
      have := h f hf
      simp only [RectOk] at this ⊢; omega
  | resetDim =>
    refine Evolves.withFctl s _ (fun f hf => ?_)
    split
    · exact Evolves.refl s
    · refine Evolves.setFc s _ (fun h => ?_)
      have := h f hf
      simp only [RectOk] at this ⊢; omega
  | resetPos =>
    refine Evolves.withFctl s _ (fun f hf => Evolves.setFc s _ (fun h => ?_))
    have := h f hf
    simp only [RectOk] at this ⊢; omega



/-- the part of the state the panic sites of the whole-image API depend on -/
structure Safe (s : WState) : Prop where
  rect : ∀ f, s.fctl = some f → RectOk s f
  valid : 0 < s.width ∧ 0 < s.height ∧ colorOk s.color = true ∧ depthOk s.depth = true

theorem Safe.nextDims_pos {s : WState} (h : Safe s) : 0 < inLenOf s (nextDims s).1 := by
  obtain ⟨v1, v2, v3, v4⟩ := h.valid
  unfold inLenOf nextDims
  rcases opt_cases s.fctl with hf | ⟨f, hf⟩
  · simp only [hf]; exact inLen_pos v3 v4 v1
  · simp only [hf]; exact inLen_pos v3 v4 (h.rect f hf).1

theorem emitIdatImage_no_panic (s : WState) (z : Bytes) : (emitIdatImage s z).2.isPanic = false := by
  unfold emitIdatImage
  cases hh : s.emit (idatChunks z) with
  | mk s' ok => cases ok <;> rfl

theorem emitFdatImage_no_panic (s : WState) (f : FC) (q : Nat) (z : Bytes) : (emitFdatImage s f q z).2.isPanic = false := by
  simp only [emitFdatImage]
  cases hh : s.emit (fdatChunks q (chunksOf maxFdatChunkLen z)).1 with
  | mk s' ok => cases ok <;> rfl

theorem emitFrame_no_panic (s : WState) (f : FC) (z : Bytes) (ha : s.animWritten + 1 < 2 ^ 32) :
    (emitFrame s f z).2.isPanic = false := by
  simp only [emitFrame]
  have han := emit_anim s [mkFctl f]
  cases hh : s.emit [mkFctl f] with
  | mk s' ok =>
    rw [hh] at han; simp only at han
    cases ok with
    | false => rfl
    | true =>
      have : ¬ (s'.animWritten + 1 ≥ 2 ^ 32) := by omega
      simp only [this, if_false]
      split
      · exact emitIdatImage_no_panic _ z
      · exact emitFdatImage_no_panic _ f _ z

theorem emitImage_no_panic (s : WState) (z : Bytes) (ha : s.animWritten + 1 < 2 ^ 32) :
    (emitImage s z).2.isPanic = false := by
  unfold emitImage
  cases hf : s.fctl with
  | none => exact emitIdatImage_no_panic s z
  | some f => simp only; split; exact emitIdatImage_no_panic s z; exact emitFrame_no_panic s f z ha

/-- no operation of the whole-image API panics in a safe state (any sink, any arguments) -/
theorem step_no_panic (E : Codec) {s : WState} (hs : Safe s) (ha : s.animWritten + 1 < 2 ^ 32) (op : Op) :
    (writerStep E s op).2.isPanic = false := by
  cases op with
  | image d =>
    simp only [writerStep, Enc.writeImageData]
    cases hc : imageChecks s d with
    | error r => exact imageChecks_error hc hs.nextDims_pos
    | ok a => exact emitImage_no_panic s _ ha
  | chunk t d =>
    simp only [writerStep, writeChunk]
    split
    · rfl
    · cases hh : s.emit [⟨t, d⟩] with
      | mk s' ok => cases ok <;> rfl
  | text b =>
    cases b with
    | none => rfl
    | some c =>
      simp only [writerStep, writeTextChunk]
      cases hh : s.emit [c] with
      | mk s' ok => cases ok <;> rfl
  | setDelay n d => simp only [writerStep, setFrameDelay, Enc.withFctl]; cases s.fctl <;> rfl
  | setBlend b => simp only [writerStep, setBlendOp, Enc.withFctl]; cases s.fctl <;> rfl
  | setDispose d => simp only [writerStep, setDisposeOp, Enc.withFctl]; cases s.fctl <;> rfl
  | resetPos => simp only [writerStep, resetFramePosition, Enc.withFctl]; cases s.fctl <;> rfl
  | setDim w h =>
    simp only [writerStep, setFrameDimension, Enc.withFctl]
    cases s.fctl with
    | none => rfl
    | some f => simp only; split; rfl; split; rfl; split; rfl; rfl
  | setPos x y =>
    simp only [writerStep, setFramePosition, Enc.withFctl]
    cases s.fctl with
    | none => rfl
    | some f => simp only; split; rfl; rfl
  | resetDim =>
    simp only [writerStep, resetFrameDimension, Enc.withFctl]
    cases hf : s.fctl with
    | none => rfl
    | some f =>
      have := hs.rect f hf
      simp only [RectOk] at this
      have hn : ¬ (s.width < f.x ∨ s.height < f.y) := by omega
      simp only [hn, if_false]; rfl

theorem Safe.evolves {s s' : WState} (hs : Safe s) (h : Evolves s s') : Safe s' :=
  ⟨h.rect hs.rect, by
    obtain ⟨a1, a2, a3, a4, _⟩ := h.static
    rw [a1, a2, a3, a4]; exact hs.valid⟩

/-- what survives any number of calls: static fields, the IEND flag, the failure schedule, and a log
    that only grows by chunks that are not IEND -/
structure Grows (s s' : WState) : Prop where
  static : StaticEq s s'
  iend : s'.iendWritten = s.iendWritten
  beh : s'.sink.beh = s.sink.beh
  flushes : s'.sink.flushes = s.sink.flushes
  log : ∃ ext, s'.sink.log = s.sink.log ++ ext ∧ ∀ e ∈ ext, ∃ c, e.piece = .chunk c ∧ c.ty ≠ tyIEND

theorem Evolves.grows {s s' : WState} (h : Evolves s s') : Grows s s' :=
  ⟨h.static, h.iend, h.beh, h.flushes, h.log⟩

theorem Grows.refl (s : WState) : Grows s s := (Evolves.refl s).grows

theorem Grows.trans {a b c : WState} (h1 : Grows a b) (h2 : Grows b c) : Grows a c := by
  obtain ⟨e1, l1, m1⟩ := h1.log
  obtain ⟨e2, l2, m2⟩ := h2.log
  exact ⟨h1.static.trans h2.static, h2.iend.trans h1.iend, h2.beh.trans h1.beh, h2.flushes.trans h1.flushes,
    ⟨e1 ++ e2, by rw [l2, l1]; simp, by
      intro e he; simp only [List.mem_append] at he
      rcases he with he | he
      · exact m1 e he
      · exact m2 e he⟩⟩

/-- no operation sequence of fewer than 2^32 operations panics -/
theorem runOps_no_panic (E : Codec) (ops : List Op) :
    ∀ {s : WState}, Safe s → (∀ op ∈ ops, op.noIend) → s.animWritten + ops.length < 2 ^ 32 →
      anyPanic (Enc.runOps E s ops).2 = false ∧ Safe (Enc.runOps E s ops).1 ∧ Grows s (Enc.runOps E s ops).1 := by
  induction ops with
  | nil => intro s hs _ _; exact ⟨rfl, hs, Grows.refl s⟩
  | cons op ops ih =>
    intro s hs hn hlen
    simp only [List.length_cons] at hlen
    have hnp := step_no_panic E hs (by omega) op
    have hev := Evolves.step E s op (hn op (by simp))
    have hs1 := hs.evolves hev
    obtain ⟨r1, r2, r3⟩ := ih hs1 (fun o ho => hn o (by simp [ho])) (by have := hev.animHi; omega)
    simp only [Enc.runOps]
    cases hws : writerStep E s op with
    | mk s' r =>
      rw [hws] at hnp hev r1 r2 r3
      cases r with
      | panic p => cases hnp
      | ok => exact ⟨by simpa [anyPanic, Res.isPanic] using r1, r2, hev.grows.trans r3⟩
      | err e => exact ⟨by simpa [anyPanic, Res.isPanic] using r1, r2, hev.grows.trans r3⟩



/-- the text chunks of the `Info` are not IEND chunks -/
def Cfg.NoIend (c : Cfg) : Prop := ∀ r, some r ∈ c.texts → r.ty ≠ tyIEND

theorem iendAttempts_append (k : Sink) (ext : List Emit) (n : Nat) (b : Bool) (f : Nat) :
    ({ k with log := k.log ++ ext, count := n, fired := b, flushes := f } : Sink).iendAttempts =
      k.iendAttempts + (ext.filter fun e => e.piece == .chunk iendChunk).length := by
  simp [Sink.iendAttempts, List.filter_append]

theorem iendAttempts_of_log {k k' : Sink} {ext : List Emit} (h : k'.log = k.log ++ ext) :
    k'.iendAttempts = k.iendAttempts + (ext.filter fun e => e.piece == .chunk iendChunk).length := by
  simp [Sink.iendAttempts, h, List.filter_append]

theorem no_iend_ext {ext : List Emit} (h : ∀ e ∈ ext, ∃ c, e.piece = .chunk c ∧ c.ty ≠ tyIEND) :
    (ext.filter fun e => e.piece == .chunk iendChunk).length = 0 := by
  rw [List.length_eq_zero_iff, List.filter_eq_nil_iff]
  intro e he
  obtain ⟨c, hp, hc⟩ := h e he
  simp only [hp, beq_iff_eq, Piece.chunk.injEq]
  intro hh; subst hh; exact hc rfl

theorem Grows.iendAttempts {s s' : WState} (h : Grows s s') : s'.sink.iendAttempts = s.sink.iendAttempts := by
  obtain ⟨ext, h1, h2⟩ := h.log
  rw [iendAttempts_of_log h1, no_iend_ext h2]; rfl

theorem writeIend_eq (s : WState) :
    writeIend s = ({ s with iendWritten := true, sink := (s.sink.emit (.chunk iendChunk)).1 },
      (s.sink.emit (.chunk iendChunk)).2) := by
  simp only [writeIend, WState.emit, Sink.emitChunks]
  cases he : s.sink.emit (.chunk iendChunk) with
  | mk k ok => cases ok <;> rfl

/-- `write_iend`: exactly one more IEND attempt; if it succeeds the log ends with a complete IEND -/
theorem writeIend_spec (s : WState) :
    (writeIend s).1.iendWritten = true ∧ (writeIend s).1.sink.iendAttempts = s.sink.iendAttempts + 1 ∧
    ((writeIend s).2 = true → ∃ pre, (writeIend s).1.sink.log = pre ++ [⟨.chunk iendChunk, 12⟩]) ∧
    StaticEq s (writeIend s).1 := by
  obtain ⟨n, h1, h2, _, _⟩ := s.sink.emit_log (.chunk iendChunk)
  rw [writeIend_eq]
  refine ⟨rfl, ?_, ?_, ⟨rfl, rfl, rfl, rfl, rfl, rfl, rfl, rfl⟩⟩
  · show (s.sink.emit (.chunk iendChunk)).1.iendAttempts = _
    rw [iendAttempts_of_log h1]; simp
  · intro hok
    refine ⟨s.sink.log, ?_⟩
    show (s.sink.emit (.chunk iendChunk)).1.log = _
    rw [h1, h2 hok]; rfl

theorem dropW_spec (s : WState) :
    (dropW s).iendWritten = true ∧
    (dropW s).sink.iendAttempts = s.sink.iendAttempts + (if s.iendWritten then 0 else 1) := by
  unfold dropW
  cases h : s.iendWritten with
  | true => simp [h]
  | false =>
    obtain ⟨h1, h2, _, _⟩ := writeIend_spec s
    simp [h1, h2]

theorem flush_log (k : Sink) : (k.flush).1.log = k.log ∧ (k.flush).1.iendAttempts = k.iendAttempts := by
  simp [Sink.flush, Sink.iendAttempts]

/-- `finish`: never panics; whatever happens there is exactly one more IEND attempt (none if the flag
    was already set); `Ok` means the log ends with a complete IEND chunk -/
theorem finishW_spec (s : WState) (h0 : s.iendWritten = false) :
    (finishW s).2.isPanic = false ∧ (finishW s).1.iendWritten = true ∧
    (finishW s).1.sink.iendAttempts = s.sink.iendAttempts + 1 ∧
    ((finishW s).2 = .ok → validateSequenceDone s = none ∧
      ∃ pre, (finishW s).1.sink.log = pre ++ [⟨.chunk iendChunk, 12⟩]) := by
  unfold finishW
  cases hv : validateSequenceDone s with
  | some e =>
    obtain ⟨d1, d2⟩ := dropW_spec s
    simp only [h0] at d2
    exact ⟨rfl, d1, by simpa using d2, fun h => by cases h⟩
  | none =>
    obtain ⟨w1, w2, w3, _⟩ := writeIend_spec s
    simp only
    cases hw : writeIend s with
    | mk s' ok =>
      rw [hw] at w1 w2 w3
      simp only at w1 w2 w3
      cases ok with
      | false =>
        simp only [dropW_of_iend w1]
        exact ⟨rfl, w1, w2, fun h => by cases h⟩
      | true =>
        obtain ⟨pre, hpre⟩ := w3 rfl
        obtain ⟨f1, f2⟩ := flush_log s'.sink
        simp only
        cases hf : s'.sink.flush with
        | mk k okf =>
          rw [hf] at f1 f2
          simp only at f1 f2
          have hd : dropW { s' with sink := k } = { s' with sink := k } := dropW_of_iend w1
          cases okf with
          | false => simp only [hd]; exact ⟨rfl, w1, by rw [f2]; exact w2, fun h => by cases h⟩
          | true => simp only [hd]; exact ⟨rfl, w1, by rw [f2]; exact w2, fun _ => ⟨trivial, pre, by rw [f1]; exact hpre⟩⟩



theorem headerChunks_no_iend (c : Cfg) (hn : c.NoIend) : ∀ x ∈ headerChunks c, x.ty ≠ tyIEND := by
  intro x hx
  simp only [headerChunks, List.mem_append, List.mem_singleton] at hx
  rcases hx with ((((hx | hx) | hx) | hx) | hx) | hx
  · subst hx; show tyIHDR ≠ tyIEND; decide
  · have := preChunks_types c.md x hx
    simp only [headerAncTypes, List.mem_cons, List.not_mem_nil, or_false] at this
    rcases this with h | h | h | h | h | h | h | h | h | h <;> rw [h] <;> decide
  · cases ha : c.actl with
    | none => simp [ha] at hx
    | some a => obtain ⟨n, p⟩ := a; simp only [ha, List.mem_singleton] at hx; subst hx; show tyACTL ≠ tyIEND; decide
  · rw [optChunk_ty hx]; decide
  · rw [optChunk_ty hx]; decide
  · exact hn x (textPrefix_mem c.texts x hx)

theorem initState_attempts (c : Cfg) (beh : SinkBehaviour) : (initState c beh).sink.iendAttempts = 0 := rfl

/-- `write_header` for every sink: no panic; success leaves a safe state without any IEND; failure
    leaves exactly one IEND attempt (the `Writer` is dropped) -/
theorem header_spec (c : Cfg) (beh : SinkBehaviour) (hr : c.inRange) (hf : c.Accepted) (hn : c.NoIend) :
    (writeHeader c beh).2.isPanic = false ∧
    ((writeHeader c beh).2 = .ok →
      Safe (writeHeader c beh).1 ∧ (writeHeader c beh).1.iendWritten = false ∧
      (writeHeader c beh).1.sink.iendAttempts = 0 ∧ (writeHeader c beh).1.animWritten = 0) ∧
    ((writeHeader c beh).2 ≠ .ok →
      (writeHeader c beh).1.iendWritten = true ∧ (writeHeader c beh).1.sink.iendAttempts = 1) := by
  obtain ⟨i1, i2, i3, i4, i5, i6⟩ := hr
  have hdrop : ∀ s : WState, s.iendWritten = false → s.sink.iendAttempts = 0 →
      (dropW s).iendWritten = true ∧ (dropW s).sink.iendAttempts = 1 := by
    intro s h1 h2
    obtain ⟨d1, d2⟩ := dropW_spec s
    rw [h1, h2] at d2; exact ⟨d1, by simpa using d2⟩
  unfold writeHeader
  by_cases hw0 : c.width = 0
  · rw [if_pos hw0]
    exact ⟨rfl, (fun h => by cases h), fun _ => hdrop (initState c beh) rfl rfl⟩
  · by_cases hh0 : c.height = 0
    · rw [if_neg hw0, if_pos hh0]
      exact ⟨rfl, (fun h => by cases h), fun _ => hdrop (initState c beh) rfl rfl⟩
    · cases hci : combinationInvalid c.color c.depth with
      | true =>
        rw [if_neg hw0, if_neg hh0, if_pos rfl]
        exact ⟨rfl, (fun h => by cases h), fun _ => hdrop (initState c beh) rfl rfl⟩
      | false =>
        rw [if_neg hw0, if_neg hh0, if_neg (by simp)]
        obtain ⟨n, g1, _, _, _⟩ := (initState c beh).sink.emit_log .sig
        cases he : (initState c beh).sink.emit .sig with
        | mk k ok =>
          rw [he] at g1; simp only at g1
          have hk0 : k.iendAttempts = 0 := by
            rw [iendAttempts_of_log g1]; simp [initState_attempts]
          cases ok with
          | false =>
            simp only
            exact ⟨rfl, (fun h => by cases h), fun _ => hdrop { initState c beh with sink := k } rfl hk0⟩
          | true =>
            simp only
            have hev := Evolves.emit { initState c beh with sink := k } (headerChunks c) (headerChunks_no_iend c hn)
            cases hem : ({ initState c beh with sink := k } : WState).emit (headerChunks c) with
            | mk s' ok2 =>
              rw [hem] at hev; simp only at hev
              have hatt : s'.sink.iendAttempts = 0 := by rw [hev.grows.iendAttempts]; exact hk0
              have hie : s'.iendWritten = false := hev.iend
              cases ok2 with
              | false => simp only; exact ⟨rfl, (fun h => by cases h), fun _ => hdrop s' hie hatt⟩
              | true =>
                simp only
                cases htp : (textPrefix c.texts).2 with
                | false => rw [if_neg (by simp)]; exact ⟨rfl, (fun h => by cases h), fun _ => hdrop s' hie hatt⟩
                | true =>
                  rw [if_pos rfl]
                  refine ⟨rfl, fun _ => ⟨?_, hie, hatt, ?_⟩, fun h => absurd rfl h⟩
                  · have hs0 : Safe ({ initState c beh with sink := k } : WState) := by
                      refine ⟨?_, ⟨by simp only [initState]; omega, by simp only [initState]; omega, i3, i4⟩⟩
                      intro f hff
                      have hcf : c.fctl = some f := hff
                      exact ((accepted_spec hf).2.2 f hcf).2 (by omega) (by omega)
                    exact hs0.evolves hev
                  · have := hev.animLo; have := hev.animHi
                    have e : s'.animWritten = 0 := by
                      have := congrArg (fun x => x.1.animWritten) hem
                      simpa [WState.emit, initState] using this.symm
                    exact e




/-- C19 for the whole-image API, every sink: no call panics; exactly one IEND is ever attempted (by
    `finish`, or by the drop — also the drop after a failed `write_header` or a failed `finish`);
    `Ok` from `finish` means the sink's log ends with a completely accepted IEND chunk and the
    sequence check passed -/
theorem writer_clean (E : Codec) (c : Cfg) (beh : SinkBehaviour) (ops : List Op) (fin : Final)
    (hr : c.inRange) (hf : c.Accepted) (hn : c.NoIend) (hno : ∀ op ∈ ops, op.noIend)
    (hlen : ops.length < 2 ^ 32) :
    (runWriter E c beh ops fin).header.isPanic = false ∧
    anyPanic (runWriter E c beh ops fin).results = false ∧
    (∀ r, (runWriter E c beh ops fin).final = some r → r.isPanic = false) ∧
    (runWriter E c beh ops fin).state.iendWritten = true ∧
    (runWriter E c beh ops fin).state.sink.iendAttempts = 1 ∧
    ((runWriter E c beh ops fin).final = some .ok → fin = .finish →
      ∃ pre, (runWriter E c beh ops fin).state.sink.log = pre ++ [⟨.chunk iendChunk, 12⟩]) := by
  obtain ⟨h1, h2, h3⟩ := header_spec c beh hr hf hn
  unfold runWriter
  cases hwh : writeHeader c beh with
  | mk s0 r0 =>
    rw [hwh] at h1 h2 h3
    simp only at h1 h2 h3
    cases r0 with
    | panic p => cases h1
    | err e =>
      obtain ⟨a1, a2⟩ := h3 (by simp)
      exact ⟨rfl, rfl, (fun r h => by cases h), a1, a2, (fun h => by cases h)⟩
    | ok =>
      obtain ⟨hs0, hi0, ha0, hw0⟩ := h2 rfl
      obtain ⟨r1, r2, r3⟩ := runOps_no_panic E ops hs0 hno (by omega)
      simp only
      cases hro : Enc.runOps E s0 ops with
      | mk s1 rs =>
        rw [hro] at r1 r2 r3
        simp only at r1 r2 r3 ⊢
        simp only [r1, Bool.false_eq_true, if_false]
        have hi1 : s1.iendWritten = false := r3.iend.trans hi0
        have ha1 : s1.sink.iendAttempts = 0 := r3.iendAttempts.trans ha0
        cases fin with
        | drop =>
          obtain ⟨d1, d2⟩ := dropW_spec s1
          rw [hi1, ha1] at d2
          refine ⟨rfl, trivial, fun r h => ?_, d1, by simpa [finalStep] using d2, (fun _ h => by cases h)⟩
          simp only [finalStep, Option.some.injEq] at h; subst h; rfl
        | finish =>
          obtain ⟨f1, f2, f3, f4⟩ := finishW_spec s1 hi1
          rw [ha1] at f3
          refine ⟨rfl, trivial, fun r h => ?_, f2, by simpa [finalStep] using f3, fun h _ => ?_⟩
          · simp only [finalStep, Option.some.injEq] at h; subst h; exact f1
          · simp only [finalStep, Option.some.injEq] at h
            exact (f4 h).2



/-- on a sink that never fails `emitImage` succeeds; its effect on the counters -/
theorem emitImage_good (s : WState) (z : Bytes) (hg : s.sink.good)
    (ha : ∀ f, s.fctl = some f → s.animWritten + 1 < 2 ^ 32) :
    ∃ s1, emitImage s z = (incrementImagesWritten s1, .ok) ∧ StaticEq s s1 ∧ s1.sink.good ∧
      s1.imagesWritten = s.imagesWritten ∧ s1.iendWritten = s.iendWritten ∧
      ((s.fctl = none ∧ s1.fctl = none ∧ s1.animWritten = s.animWritten) ∨
       (∃ f, s.fctl = some f ∧ skipFctlOnDefault s = true ∧ s1.fctl = some f ∧ s1.animWritten = s.animWritten) ∨
       (∃ f f', s.fctl = some f ∧ skipFctlOnDefault s = false ∧ s1.fctl = some f' ∧
          s1.animWritten = s.animWritten + 1)) := by
  have hidat : ∀ t : WState, t.sink.good →
      ∃ k, emitIdatImage t z = (incrementImagesWritten { t with sink := k }, .ok) ∧ k.good := by
    intro t ht
    obtain ⟨k, hk, hkg, _⟩ := WState.emit_good' ht (idatChunks z)
    exact ⟨k, by simp only [emitIdatImage, hk], hkg⟩
  unfold emitImage
  rcases opt_cases s.fctl with hf | ⟨f, hf⟩
  · simp only [hf]
    obtain ⟨k, hk, hkg⟩ := hidat s hg
    exact ⟨{ s with sink := k }, hk, ⟨rfl, rfl, rfl, rfl, rfl, rfl, rfl, rfl⟩, hkg, rfl, rfl, by simp [hf]⟩
  · simp only [hf]
    cases hsk : skipFctlOnDefault s with
    | true =>
      simp only [if_true]
      obtain ⟨k, hk, hkg⟩ := hidat s hg
      exact ⟨{ s with sink := k }, hk, ⟨rfl, rfl, rfl, rfl, rfl, rfl, rfl, rfl⟩, hkg, rfl, rfl, by simp [hf]⟩
    | false =>
      simp only [Bool.false_eq_true, if_false, emitFrame]
      obtain ⟨k, hk, hkg, _⟩ := WState.emit_good' hg [mkFctl f]
      have hov : ¬ (s.animWritten + 1 ≥ 2 ^ 32) := by have := ha f hf; omega
      simp only [hk, hov, if_false]
      by_cases h0 : s.imagesWritten = 0
      · rw [if_pos (show _ = 0 from h0)]
        obtain ⟨k2, hk2, hk2g⟩ := hidat { s with sink := k, fctl := some { f with seq := (f.seq + 1) % 2 ^ 32 }, animWritten := s.animWritten + 1 } hkg
        exact ⟨_, hk2, ⟨rfl, rfl, rfl, rfl, rfl, rfl, rfl, rfl⟩, hk2g, rfl, rfl, by simp⟩
      · rw [if_neg (show ¬ _ = 0 from h0)]
        obtain ⟨k2, hk2, hk2g, _⟩ := WState.emit_good' (s := { s with sink := k, fctl := some { f with seq := (f.seq + 1) % 2 ^ 32 }, animWritten := s.animWritten + 1 }) hkg (fdatChunks ((f.seq + 1) % 2 ^ 32) (chunksOf maxFdatChunkLen z)).1
        simp only [emitFdatImage, hk2]
        exact ⟨_, rfl, ⟨rfl, rfl, rfl, rfl, rfl, rfl, rfl, rfl⟩, hk2g, rfl, rfl, by simp⟩



theorem imageChecks_validate {s : WState} {d : Bytes} (e : Err) (hv : validateNewImage s = some e) :
    ∃ r, imageChecks s d = .error r := by
  unfold imageChecks
  by_cases hp : s.color = 3 ∧ s.hasPalette = false
  · rw [if_pos hp]; exact ⟨_, rfl⟩
  · rw [if_neg hp]; simp only [hv]; exact ⟨_, rfl⟩

theorem imageChecks_error_ne_ok {s : WState} {d : Bytes} {r : Res} (hc : imageChecks s d = .error r) : r ≠ .ok := by
  unfold imageChecks at hc
  by_cases hp : s.color = 3 ∧ s.hasPalette = false
  · rw [if_pos hp] at hc; simp only [Except.error.injEq] at hc; subst hc; simp
  · rw [if_neg hp] at hc
    cases hv : validateNewImage s with
    | some e => simp only [hv, Except.error.injEq] at hc; subst hc; simp
    | none =>
    cases hv2 : validateFirstImageRect s with
    | some e => simp only [hv, hv2, Except.error.injEq] at hc; subst hc; simp
    | none =>
      simp only [hv, hv2] at hc
      by_cases hne : (if inLenOf s (nextDims s).1 * (nextDims s).2 < 2 ^ 64 then inLenOf s (nextDims s).1 * (nextDims s).2 else 2 ^ 64 - 1) ≠ d.length
      · rw [if_pos hne] at hc; simp only [Except.error.injEq] at hc; subst hc; simp
      · rw [if_neg hne] at hc
        by_cases h0 : inLenOf s (nextDims s).1 = 0
        · rw [if_pos h0] at hc; simp only [Except.error.injEq] at hc; subst hc; simp
        · rw [if_neg h0] at hc; cases hc

/-- with `validate_sequence` the writer itself refuses an image beyond the declared ones -/
theorem Inv.validate_refuses {imgOk : ImgRule} {E : Codec} {s : WState} {seq fctls : Nat} {ph : Phase}
    (inv : Inv imgOk s seq fctls ph) (hval : s.validate = true) (hfull : declared s ≤ s.imagesWritten) (d : Bytes) :
    (writeImageData E s d).2 ≠ .ok := by
  have hv : ∃ e, validateNewImage s = some e := by
    unfold validateNewImage
    simp only [hval, Bool.not_true, Bool.false_eq_true, if_false]
    rcases opt_cases s.actl with ha | ⟨⟨n, p⟩, ha⟩
    · simp only [ha]
      have : s.imagesWritten ≠ 0 := by simp only [declared, ha] at hfull; omega
      simp [this]
    · simp only [ha]
      rcases opt_cases s.fctl with hf | ⟨f, hf⟩
      · simp [hf]
      · exfalso
        obtain ⟨_, _, _, _, ⟨n', p', ha', hlt⟩, h6⟩ := inv.fc f hf
        rw [ha] at ha'; simp only [Option.some.injEq, Prod.mk.injEq] at ha'; obtain ⟨rfl, rfl⟩ := ha'
        simp only [declared, ha] at hfull
        cases hs : s.sepDefImg <;> simp [hs] at h6 hfull
        · omega
        · split at h6 <;> omega
  obtain ⟨e, he⟩ := hv
  obtain ⟨r, hr⟩ := imageChecks_validate (d := d) e he
  unfold writeImageData
  rw [hr]
  exact imageChecks_error_ne_ok hr



theorem Inv.runOpsV {imgOk : ImgRule} {E : Codec} (ops : List Op) :
    ∀ {s : WState} {seq fctls : Nat} {ph : Phase}, Inv imgOk s seq fctls ph → s.validate = true →
      Codec.Ok imgOk E s.color s.depth → (∀ op ∈ ops, op.inRange) →
      ∃ seq' fctls' ph', Inv imgOk (Enc.runOps E s ops).1 seq' fctls' ph' ∧
        anyPanic (Enc.runOps E s ops).2 = false ∧ StaticEq s (Enc.runOps E s ops).1 := by
  induction ops with
  | nil => intro s seq fctls ph inv _ _ _; exact ⟨seq, fctls, ph, inv, rfl, StaticEq.refl s⟩
  | cons op ops ih =>
    intro s seq fctls ph inv hval hE hall
    have hr : op.inRange := hall op (by simp)
    have hrest : ∀ o ∈ ops, o.inRange := fun o ho => hall o (by simp [ho])
    have hop : opAllowed E s op := by
      refine ⟨hr, fun himg => ?_⟩
      by_cases hlt : s.imagesWritten < declared s
      · exact Or.inl hlt
      · right
        cases op with
        | image d => exact inv.validate_refuses hval (by omega) d
        | _ => cases himg
    obtain ⟨seq1, fctls1, ph1, inv1, hnp⟩ := inv.step hE op hop
    have hst := writerStep_static E s op
    have hE1 : Codec.Ok imgOk E (writerStep E s op).1.color (writerStep E s op).1.depth := by
      rw [hst.2.2.1, hst.2.2.2.1]; exact hE
    have hval1 : (writerStep E s op).1.validate = true := by rw [hst.2.2.2.2.2.2.2]; exact hval
    obtain ⟨seq2, fctls2, ph2, inv2, hnp2, hst2⟩ := ih inv1 hval1 hE1 hrest
    simp only [Enc.runOps]
    cases hws : writerStep E s op with
    | mk s' r =>
      rw [hws] at hnp inv2 hnp2 hst2 hst
      cases r with
      | panic p => cases hnp
      | ok => exact ⟨seq2, fctls2, ph2, inv2, by simpa [anyPanic, Res.isPanic] using hnp2, hst.trans hst2⟩
      | err e => exact ⟨seq2, fctls2, ph2, inv2, by simpa [anyPanic, Res.isPanic] using hnp2, hst.trans hst2⟩

/-- C19, sequence validation on the whole-image API (sink that never fails): `finish` returns `Ok`
    exactly when the declared number of images has been written -/
theorem writer_validation (imgOk : ImgRule) (E : Codec) (c : Cfg) (hw : c.WellFormed) (hval : c.validate = true)
    (hE : Codec.Ok imgOk E c.color c.depth) (ops : List Op)
    (hh : (writeHeader c {}).2 = .ok) (hall : ∀ op ∈ ops, op.inRange) :
    (runWriter E c {} ops .finish).final = some .ok ↔
      (Enc.runOps E (writeHeader c {}).1 ops).1.imagesWritten = declared (writeHeader c {}).1 := by
  cases hwh : writeHeader c {} with
  | mk s0 r0 =>
    rw [hwh] at hh
    simp only at hh ⊢
    subst hh
    obtain ⟨inv0, hst0, hch0⟩ := header_inv imgOk c hw hwh
    have hE0 : Codec.Ok imgOk E s0.color s0.depth := by rw [hst0.2.2.1, hst0.2.2.2.1]; exact hE
    have hv0 : s0.validate = true := by rw [hst0.2.2.2.2.2.2.2]; exact hval
    obtain ⟨seq1, fctls1, ph1, inv1, hnp, hst1⟩ := inv0.runOpsV ops hv0 hE0 hall
    unfold runWriter
    rw [hwh]
    simp only
    cases hro : Enc.runOps E s0 ops with
    | mk s1 rs =>
      rw [hro] at inv1 hnp hst1
      simp only at inv1 hnp hst1 ⊢
      simp only [hnp, Bool.false_eq_true, if_false, finalStep]
      have hd : declared s1 = declared s0 := declared_static hst1
      have hv1 : s1.validate = true := by rw [hst1.2.2.2.2.2.2.2]; exact hv0
      constructor
      · intro hok
        simp only [Option.some.injEq] at hok
        obtain ⟨_, _, _, f4⟩ := finishW_spec s1 inv1.iend
        obtain ⟨hvd, _⟩ := f4 hok
        -- `validate_sequence_done` passed
        unfold validateSequenceDone at hvd
        simp only [hv1, Bool.not_true, Bool.false_eq_true, if_false] at hvd
        have hcond : ¬ ((s1.actl.isSome = true ∧ s1.fctl.isSome = true) ∨ s1.imagesWritten = 0) := by
          intro hc; simp [hc] at hvd
        have hcnt := inv1.cnt
        rw [← hd]
        rcases opt_cases s1.actl with ha | ⟨⟨n, p⟩, ha⟩
        · have : s1.imagesWritten ≠ 0 := fun h => hcond (Or.inr h)
          simp only [declared, ha] at hcnt ⊢; omega
        · have hfn : s1.fctl = none := by
            rcases opt_cases s1.fctl with hf | ⟨f, hf⟩
            · exact hf
            · exact absurd (Or.inl ⟨by simp [ha], by simp [hf]⟩) hcond
          have := (inv1.fin hfn n p ha).2
          omega
      · intro hcount
        have hcount' : s1.imagesWritten = declared s1 := by rw [hd]; exact hcount
        obtain ⟨hv, hw1, hw2, hw3, rest, hw4, hw6⟩ := inv1.finishChunk hcount'
        simp only [finishW, hv]
        cases hwi : writeIend s1 with
        | mk s2 ok =>
          rw [hwi] at hw1 hw2 hw3
          simp only at hw1 hw2 hw3
          subst hw1
          have hfl : (s2.sink.flush).2 = true := by simp [Sink.flush, hw3.2]
          cases hf2 : s2.sink.flush with
          | mk k okf => rw [hf2] at hfl; simp only at hfl; subst hfl; simp only [hf2]



/-! ## Part 6: the image rule of the specification and a back-end that satisfies the contract -/

/-- one zlib stream (abstract inflater) that inflates to exactly `h` scanlines of `1 + row` bytes, each
    with a legal filter type byte (`decodeScanlines` fails exactly on a short stream or a filter byte > 4) -/
def specImgOk (inflate : Bytes → Option Bytes) (color depth : Nat) : ImgRule := fun w h z =>
  match inflate z with
  | none => .error "zlib-corrupt"
  | some raw =>
    if raw.length ≠ h * (1 + (rawRowLengthFromWidth color depth w - 1)) then .error "image-data-size"
    else match decodeScanlines (bytesPerPixel color depth) (rawRowLengthFromWidth color depth w - 1) h [] raw with
      | none => .error "filter-type"
      | some _ => .ok ()

/-- `data.chunks(in_len)` for `height` rows -/
def rowsOf (rl : Nat) : Nat → Bytes → List Bytes
  | 0, _ => []
  | h+1, d => d.take rl :: rowsOf rl h (d.drop rl)

/-- the shape of all three back-ends of `write_image_data`: filter every row against the previous
    one with some choice of filter type, then compress -/
def scanCodec (compress : Bytes → Bytes) (choose : Bytes → Bytes → FilterType) : Codec :=
  { encode := fun bpp rl h d => compress (encodeScanlines choose bpp [] (rowsOf rl h d)) }

theorem rowsOf_spec (rl : Nat) : ∀ (h : Nat) (d : Bytes), d.length = rl * h →
    (rowsOf rl h d).length = h ∧ ∀ r ∈ rowsOf rl h d, r.length = rl := by
  intro h
  induction h with
  | zero => intro d _; simp [rowsOf]
  | succ k ih =>
    intro d hd
    have hle : rl ≤ d.length := by rw [hd]; exact Nat.le_mul_of_pos_right rl (Nat.succ_pos k)
    obtain ⟨h1, h2⟩ := ih (d.drop rl) (by simp only [List.length_drop, hd, Nat.mul_succ]; omega)
    refine ⟨by simp [rowsOf, h1], ?_⟩
    intro r hr
    simp only [rowsOf, List.mem_cons] at hr
    rcases hr with hr | hr
    · subst hr; simp only [List.length_take]; omega
    · exact h2 r hr

theorem encodeScanlines_length (choose : Bytes → Bytes → FilterType) (bpp rl : Nat) (rows : List Bytes)
    (h : ∀ r ∈ rows, r.length = rl) : ∀ prev, (encodeScanlines choose bpp prev rows).length = rows.length * (1 + rl) := by
  induction rows with
  | nil => intro prev; simp [encodeScanlines]
  | cons r rs ih =>
    intro prev
    simp only [encodeScanlines, List.length_append, List.length_cons, filtRow_length,
      ih (fun x hx => h x (by simp [hx])) r, h r (by simp)]
    rw [Nat.succ_mul]; omega

/-- the contract of `Codec` holds for every filter choice and every compressor that the inflater inverts -/
theorem scanCodec_ok (compress : Bytes → Bytes) (inflate' : Bytes → Option Bytes)
    (choose : Bytes → Bytes → FilterType) (color depth : Nat)
    (hic : ∀ x, inflate' (compress x) = some x) (hnil : inflate' [] = none) :
    Codec.Ok (specImgOk inflate' color depth) (scanCodec compress choose) color depth := by
  intro w h d hd
  obtain ⟨h1, h2⟩ := rowsOf_spec _ h d hd
  constructor
  · intro hz
    have := hic (encodeScanlines choose (bytesPerPixel color depth) [] (rowsOf (rawRowLengthFromWidth color depth w - 1) h d))
    simp only [scanCodec] at hz
    rw [hz, hnil] at this; cases this
  · simp only [specImgOk, scanCodec, hic]
    have hl := encodeScanlines_length choose (bytesPerPixel color depth) _ _ h2 []
    rw [h1] at hl
    simp only [hl, ne_eq, not_true_eq_false, if_false]
    have hdec := decode_encode_scanlines choose (bytesPerPixel color depth) _ _ h2 [] []
    rw [h1, List.append_nil] at hdec
    rw [hdec]



/-! ## Part 7: concrete runs (witnesses of the recorded defects, and non-vacuity) -/

/-- toy back-ends for concrete runs: the "compressed" stream is the data behind a marker byte; the
    streaming one emits everything when it is finished -/
def toyCodec : Codec := { encode := fun _ _ _ d => 120 :: d }
def toyZ : ZCodec :=
  { out := fun hist op => match op with
      | .finish => 120 :: (hist.map fun o => match o with | .write d => d | _ => []).flatten
      | _ => []
    row := fun _ _ cur => 0 :: cur }
/-- the most permissive image rule: a skeleton rejected under it is rejected under every rule -/
def anyImg : ImgRule := fun _ _ _ => .ok ()

def okB : Except String Unit → Bool
  | .ok _ => true
  | .error _ => false

theorem toyCodec_ok (color depth : Nat) : Codec.Ok anyImg toyCodec color depth := by
  intro w h d _; exact ⟨by simp [toyCodec], rfl⟩

/-- validity of the sequencing rules for the chunks a run left in the sink -/
def runSkeletonOk (c : Cfg) (s : WState) : Bool :=
  okB (skeletonOfChunks anyImg c.width c.height c.color s.sink.chunks.tail)

def cfgStill : Cfg := { width := 1, height := 1 }
def cfgAnim (n : Nat) : Cfg := animatedCfg { width := 1, height := 1 } n 0
def cfgAnim22 : Cfg := animatedCfg { width := 2, height := 2 } 1 0
/-- `Encoder::with_info` with a frame control whose sequence number is 5 (repaired N3: reset to 0) -/
def cfgSeq5 : Cfg := { width := 1, height := 1, actl := some (1, 0), fctl := some { seq := 5, w := 1, h := 1 } }
/-- `Encoder::with_info` with a frame control that starts outside the canvas (repaired N3: refused) -/
def cfgOff : Cfg := { width := 2, height := 2, actl := some (2, 0), fctl := some { w := 2, h := 2, x := 10 } }
/-- `Encoder::with_info` with an empty frame (repaired N3: refused) -/
def cfgW0 : Cfg := { width := 2, height := 2, actl := some (2, 0), fctl := some { w := 0, h := 2 } }
def cfgIndexed : Cfg := { width := 1, height := 1, color := 3 }

/-- repaired N5: a frame setter before the first image; the image is refused until the frame covers the canvas again -/
def runSubframe : Run :=
  runWriter toyCodec cfgAnim22 {} [.setDim 1 1, .image [7], .resetDim, .image [1, 2, 3, 4]] .finish
/-- D13: two frames through an owned stream writer -/
def runD13 : ProgRun := runProg toyCodec toyZ (cfgAnim 2) {} [] (.intoStream 64 [.write [7], .write [9]] .finish)
/-- D14: owned stream writer, the sink accepts 40 bytes (signature, IHDR, 7 bytes of the IDAT chunk) -/
def runD14 : ProgRun := runProg toyCodec toyZ cfgStill { writeFailAt := some 40 } [] (.intoStream 64 [.write [7]] .finish)
/-- D14: 1 of 3 declared frames, validation on, stream `finish` -/
def runD14v : ProgRun :=
  runProg toyCodec toyZ { cfgAnim 3 with validate := true } {} [] (.intoStream 64 [.write [7]] .finish)
/-- N8: the declared image written through a borrowed stream writer, validation on -/
def runN8 : ProgRun :=
  runProg toyCodec toyZ { cfgStill with validate := true } {} [.stream 64 [.write [7]] .finish] .finish
/-- N1: animation and a chunk buffer shorter than a sequence number -/
def runN1 : ProgRun := runProg toyCodec toyZ (cfgAnim 2) {} [] (.intoStream 1 [.write [7]] .finish)
/-- N2: the sink fails (once) while the second frame's fcTL is written; the next complete row panics -/
def runN2 : ProgRun :=
  runProg toyCodec toyZ (cfgAnim 2) { writeFailAt := some 130, writeOnce := true } []
    (.intoStream 64 [.write [7], .write [8], .write [8]] .drop)
/-- N9: `write_image_data` fails (once) between fcTL and IDAT; three stream images later `set_fctl` panics -/
def runN9 : ProgRun :=
  runProg toyCodec toyZ (cfgAnim 1) { writeFailAt := some 100, writeOnce := true }
    [.op (.image [7]), .stream 64 [.write [7], .write [8], .write [9]] .finish] .finish
/-- repaired N6: indexed image without palette through the stream writer: refused before anything is written -/
def runN6 : ProgRun := runProg toyCodec toyZ cfgIndexed {} [] (.intoStream 64 [.write [0]] .finish)
/-- N10: a stream writer opened and dropped, then the image through `write_image_data` -/
def runN10 : ProgRun := runProg toyCodec toyZ cfgStill {} [.stream 64 [] .drop, .op (.image [7])] .finish
/-- repaired N4: `next_frame_info` on a huge canvas -/
def cfgHuge : Cfg := { width := 4294967295, height := 4294967295, color := 6, depth := 16 }
def runN4 : ProgRun := runProg toyCodec toyZ cfgHuge {} [] (.intoStream 64 [] .drop)

set_option maxRecDepth 100000

/-- core has no `DecidableEq (Except ε α)`; needed for `decide` on concrete outcomes -/
instance encExceptDecEq {ε α : Type} [DecidableEq ε] [DecidableEq α] : DecidableEq (Except ε α)
  | .ok a, .ok b => if h : a = b then isTrue (by rw [h]) else isFalse (fun h' => h (Except.ok.inj h'))
  | .error a, .error b =>
    if h : a = b then isTrue (by rw [h]) else isFalse (fun h' => h (Except.error.inj h'))
  | .ok _, .error _ => isFalse (fun h => by cases h)
  | .error _, .ok _ => isFalse (fun h => by cases h)

/-- repaired N3: what `with_info` does with the three configurations -/
theorem withInfo_facts :
    withInfo cfgSeq5 = .ok { cfgSeq5 with fctl := some { w := 1, h := 1 } } ∧
    withInfo cfgOff = .error .outOfBounds ∧ withInfo cfgW0 = .error .zeroWidth ∧
    withInfoOk cfgSeq5 = false ∧ (cfgAnim 2).Accepted := by decide

/-- repaired N5 -/
theorem runSubframe_facts :
    cfgAnim22.WellFormed ∧ runSubframe.results = [.ok, .err .outOfBounds, .ok, .ok] ∧
    runSubframe.final = some .ok ∧ runSkeletonOk cfgAnim22 runSubframe.state = true := by decide

theorem runD13_facts :
    runD13.final = [.ok, .ok, .ok, .ok] ∧
    runD13.state.sink.chunks.map (·.ty) = [tyIHDR, tyACTL, tyFCTL, tyIDAT, tyFCTL, tyIDAT, tyIEND] ∧
    (runD13.state.sink.chunks.map (·.data.take 4)).drop 3 = [[0, 0, 0, 1], [0, 0, 0, 2], [0, 0, 0, 3], []] ∧
    runSkeletonOk (cfgAnim 2) runD13.state = false := by decide

theorem runD14_facts :
    runD14.final = [.ok, .ok, .ok] ∧ runD14.state.sink.chunks.map (·.ty) = [tyIHDR] ∧
    runD14.state.sink.count = 40 ∧ runD14.state.sink.fired = true := by decide

theorem runD14v_facts :
    runD14v.final = [.ok, .ok, .ok] ∧
    runD14v.state.sink.chunks.map (·.ty) = [tyIHDR, tyACTL, tyFCTL, tyIDAT, tyIEND] := by decide

theorem runN8_facts :
    runN8.results = [[.ok, .ok, .ok]] ∧ runN8.final = [.err .missingFrames] ∧
    runN8.state.sink.chunks.map (·.ty) = [tyIHDR, tyIDAT, tyIEND] := by decide

theorem runN1_facts : runN1.final.contains (.panic .chunkBufferIndex) = true := by decide
theorem runN2_facts : runN2.final.contains (.panic .unreachableWrapper) = true ∧ runN2.final.take 3 = [.ok, .ok, .err .io] := by decide
theorem runN9_facts : runN9.results = [[.err .io], [.ok, .ok, .ok, .panic .setFctlNotAnimated]] := by decide
/-- repaired N6 -/
theorem runN6_facts :
    runN6.final = [.err .noPalette] ∧ runN6.state.sink.chunks.map (·.ty) = [tyIHDR, tyIEND] := by decide
theorem runN10_facts :
    runN10.results = [[.ok, .ok], [.ok]] ∧ runN10.final = [.ok] ∧
    runN10.state.sink.chunks.map (·.ty) = [tyIHDR, tyIDAT, tyIDAT, tyIEND] := by decide
/-- repaired N4 -/
theorem runN4_facts : runN4.final = [.ok, .ok] ∧ cfgHuge.inRange := by decide



/-! ## Part 8: the stream writer on a still image (C12, partial) -/

/-- everything the compressor has produced after the operations `h` -/
def outsAux (Z : ZCodec) : List ZOp → List ZOp → Bytes
  | _, [] => []
  | pre, o :: os => Z.out pre o ++ outsAux Z (pre ++ [o]) os
def outs (Z : ZCodec) (h : List ZOp) : Bytes := outsAux Z [] h

theorem outsAux_snoc (Z : ZCodec) (h : List ZOp) (o : ZOp) :
    ∀ pre, outsAux Z pre (h ++ [o]) = outsAux Z pre h ++ Z.out (pre ++ h) o := by
  induction h with
  | nil => intro pre; simp [outsAux]
  | cons x xs ih => intro pre; simp [outsAux, ih, List.append_assoc]

theorem outs_snoc (Z : ZCodec) (h : List ZOp) (o : ZOp) : outs Z (h ++ [o]) = outs Z h ++ Z.out h o := by
  simp [outs, outsAux_snoc]

/-- a chunk writer inside a still-image session: `w0` = the writer before the session, `out` = all
    bytes handed to the chunk writer so far; they sit, in order, in IDAT chunks and in the buffer -/
structure CWInv (w0 : WState) (c : CW) (out : Bytes) : Prop where
  /-- only the sink of the writer changes during the session -/
  same : { c.w with sink := w0.sink } = w0
  fctl : c.w.fctl = none
  img0 : c.w.imagesWritten = 0
  good : c.w.sink.good
  curr : c.curr = tyIDAT
  cap : 0 < c.cap
  room : c.buf.length < c.cap
  chunks : ∃ ds : List Bytes, c.w.sink.chunks = w0.sink.chunks ++ ds.map mkIdat ∧ ds.flatten ++ c.buf = out ∧ ∀ d ∈ ds, d ≠ []

theorem CWInv.flushInner {w0 : WState} {c : CW} {out : Bytes} (h : CWInv w0 c out) :
    ∃ c', c.flushInner = (c', .ok) ∧ CWInv w0 c' out ∧ c'.buf = [] ∧ c'.cap = c.cap := by
  unfold CW.flushInner
  by_cases hb : c.buf.length > 0
  · rw [if_pos hb]
    obtain ⟨k, hk, hkg, hkc⟩ := WState.emit_good' h.good [⟨c.curr, c.buf⟩]
    rw [hk]
    obtain ⟨ds, h1, h2, h3⟩ := h.chunks
    refine ⟨_, rfl, ⟨by simpa using h.same, h.fctl, h.img0, hkg, h.curr, h.cap, by simp [h.cap], ?_⟩, rfl, rfl⟩
    refine ⟨ds ++ [c.buf], ?_, by simpa using h2, ?_⟩
    · show k.chunks = _
      rw [hkc, h1, h.curr]; simp [mkIdat]
    · intro d hd
      simp only [List.mem_append, List.mem_singleton] at hd
      rcases hd with hd | hd
      · exact h3 d hd
      · subst hd; intro he; rw [he] at hb; simp at hb
  · rw [if_neg hb]
    have : c.buf = [] := List.length_eq_zero_iff.mp (by omega)
    exact ⟨c, rfl, h, this, rfl⟩

/-- `ChunkWriter::write` accepts a non-empty prefix and loses nothing -/
theorem CWInv.write {w0 : WState} {c : CW} {out : Bytes} (h : CWInv w0 c out) (data : Bytes)
    (hd : data ≠ []) :
    ∃ c' n, c.write data = (c', .ok n) ∧ 0 < n ∧ n ≤ data.length ∧ CWInv w0 c' (out ++ data.take n) ∧
      c'.cap = c.cap := by
  have hlen : 0 < data.length := List.length_pos_iff.mpr hd
  have hstart : c.startChunk = (c, none) := by
    unfold CW.startChunk; simp only [h.fctl]; split <;> rfl
  unfold CW.write
  rw [if_neg hd, hstart]
  simp only [CW.append]
  have hroom := h.room
  obtain ⟨ds, h1, h2, h3⟩ := h.chunks
  have hn : 0 < min data.length (c.cap - c.buf.length) := by omega
  have htl : (data.take (min data.length (c.cap - c.buf.length))).length = min data.length (c.cap - c.buf.length) := by
    simp only [List.length_take]; omega
  by_cases hfull : (c.buf ++ data.take (min data.length (c.cap - c.buf.length))).length = c.cap
  · rw [if_pos hfull]
    -- the chunk is full: it is written out
    have hne : 0 < (c.buf ++ data.take (min data.length (c.cap - c.buf.length))).length := by rw [hfull]; exact h.cap
    unfold CW.flushInner
    rw [if_pos hne]
    obtain ⟨k, hk, hkg, hkc⟩ := WState.emit_good' h.good [⟨c.curr, c.buf ++ data.take (min data.length (c.cap - c.buf.length))⟩]
    simp only [hk]
    refine ⟨_, _, rfl, hn, by omega, ⟨by simpa using h.same, h.fctl, h.img0, hkg, h.curr, h.cap, by simp [h.cap], ?_⟩, rfl⟩
    refine ⟨ds ++ [c.buf ++ data.take (min data.length (c.cap - c.buf.length))], ?_, ?_, ?_⟩
    · show k.chunks = _
      rw [hkc, h1, h.curr]; simp [mkIdat]
    · simp only [List.flatten_append, List.flatten_cons, List.flatten_nil, List.append_nil, ← h2, List.append_assoc]
    · intro d hd'
      simp only [List.mem_append, List.mem_singleton] at hd'
      rcases hd' with hd' | hd'
      · exact h3 d hd'
      · subst hd'; intro he; rw [he] at hne; simp at hne
  · rw [if_neg hfull]
    refine ⟨_, _, rfl, hn, by omega, ⟨h.same, h.fctl, h.img0, h.good, h.curr, h.cap, ?_, ⟨ds, h1, by simp only [← h2, List.append_assoc], h3⟩⟩, rfl⟩
    simp only [List.length_append, htl] at hfull ⊢
    omega



/-- the zlib encoder on top of the chunk writer: what the chunk writer got plus what flate2 still
    holds back is exactly what the compressor has produced -/
structure ZInv (w0 : WState) (Z : ZCodec) (z : ZEnc) (cap : Nat) : Prop where
  cw : ∃ out, CWInv w0 z.cw out ∧ out ++ z.pending = outs Z z.hist
  cap : z.cw.cap = cap

/-- `dump` forwards everything -/
theorem dumpAux_spec {w0 : WState} (fuel : Nat) :
    ∀ (z : ZEnc) (out : Bytes), CWInv w0 z.cw out → z.pending.length < fuel →
      ∃ z', ZEnc.dumpAux fuel z = (z', .ok) ∧ z'.pending = [] ∧ z'.hist = z.hist ∧
        CWInv w0 z'.cw (out ++ z.pending) ∧ z'.cw.cap = z.cw.cap := by
  induction fuel with
  | zero => intro z out _ h; omega
  | succ k ih =>
    intro z out hc hlt
    simp only [ZEnc.dumpAux]
    by_cases hp : z.pending = []
    · rw [if_pos hp]; exact ⟨z, rfl, hp, rfl, by rw [hp, List.append_nil]; exact hc, rfl⟩
    · rw [if_neg hp]
      obtain ⟨c', n, hw, hn0, hnl, hc', hcap⟩ := hc.write z.pending hp
      rw [hw]
      simp only
      have hn : ¬ n = 0 := by omega
      rw [if_neg hn]
      obtain ⟨z', h1, h2, h3, h4, h5⟩ := ih { z with cw := c', pending := z.pending.drop n } (out ++ z.pending.take n) hc'
        (by simp only [List.length_drop]; omega)
      refine ⟨z', h1, h2, h3, ?_, by rw [h5]; exact hcap⟩
      simpa [List.append_assoc] using h4

theorem ZInv.dump {w0 : WState} {Z : ZCodec} {z : ZEnc} {cap : Nat} (h : ZInv w0 Z z cap) :
    ∃ z', z.dump = (z', .ok) ∧ z'.pending = [] ∧ z'.hist = z.hist ∧ ZInv w0 Z z' cap := by
  obtain ⟨out, hc, ho⟩ := h.cw
  obtain ⟨z', h1, h2, h3, h4, h5⟩ := dumpAux_spec (z.pending.length + 1) z out hc (Nat.lt_succ_self _)
  exact ⟨z', h1, h2, h3, ⟨⟨out ++ z.pending, h4, by rw [h2, h3, List.append_nil]; exact ho⟩, by rw [h5]; exact h.cap⟩⟩

theorem ZInv.writeAll {w0 : WState} {Z : ZCodec} {z : ZEnc} {cap : Nat} (h : ZInv w0 Z z cap) (d : Bytes) :
    ∃ z', z.writeAll Z d = (z', .ok) ∧ ZInv w0 Z z' cap ∧
      z'.hist = (if d = [] then z.hist else z.hist ++ [.write d]) := by
  unfold ZEnc.writeAll
  by_cases hd : d = []
  · simp only [hd, if_true]; exact ⟨z, rfl, h, rfl⟩
  · simp only [hd, if_false]
    obtain ⟨z', h1, h2, h3, h4⟩ := h.dump
    rw [h1]
    simp only
    obtain ⟨out, hc, ho⟩ := h4.cw
    refine ⟨_, rfl, ⟨⟨out, hc, ?_⟩, h4.cap⟩, by simp [h3]⟩
    simp only [outs_snoc, ← ho, h2, List.append_nil, List.nil_append]

theorem ZInv.flush {w0 : WState} {Z : ZCodec} {z : ZEnc} {cap : Nat} (h : ZInv w0 Z z cap) :
    ∃ z', z.flush Z = (z', .ok) ∧ ZInv w0 Z z' cap ∧ z'.hist = z.hist ++ [ZOp.flush] ∧ z'.pending = [] := by
  unfold ZEnc.flush
  obtain ⟨out, hc, ho⟩ := h.cw
  have h0 : ZInv w0 Z { z with pending := z.pending ++ Z.out z.hist ZOp.flush, hist := z.hist ++ [ZOp.flush] } cap :=
    ⟨⟨out, hc, by simp only [outs_snoc, ← ho, List.append_assoc]⟩, h.cap⟩
  obtain ⟨z', h1, h2, h3, h4⟩ := h0.dump
  simp only [h1]
  obtain ⟨out', hc', ho'⟩ := h4.cw
  obtain ⟨c', f1, f2, f3, f4⟩ := hc'.flushInner
  rw [f1]
  exact ⟨_, rfl, ⟨⟨out', f2, by simpa using ho'⟩, by simp only; rw [f4]; exact h4.cap⟩, h3, h2⟩

theorem ZInv.finish {w0 : WState} {Z : ZCodec} {z : ZEnc} {cap : Nat} (h : ZInv w0 Z z cap)
    (hnf : z.finished = false) :
    ∃ z', z.finish Z = (z', .ok) ∧ ZInv w0 Z z' cap ∧ z'.hist = z.hist ++ [ZOp.finish] ∧ z'.pending = [] := by
  unfold ZEnc.finish
  obtain ⟨z1, h1, h2, h3, h4⟩ := h.dump
  simp only [h1]
  have hf1 : z1.finished = false := by simp only [ZEnc.finished, h3]; exact hnf
  simp only [hf1, Bool.false_eq_true, if_false]
  obtain ⟨out, hc, ho⟩ := h4.cw
  have h0 : ZInv w0 Z { z1 with pending := z1.pending ++ Z.out z1.hist ZOp.finish, hist := z1.hist ++ [ZOp.finish] } cap :=
    ⟨⟨out, hc, by simp only [outs_snoc, ← ho, List.append_assoc]⟩, h4.cap⟩
  obtain ⟨z2, g1, g2, g3, g4⟩ := h0.dump
  exact ⟨z2, g1, g4, by rw [g3, h3], g2⟩

/-- dropping the encoder: everything the compressor produced (including the final block) is in IDAT
    chunks after the chunks of `w0`; nothing else of the writer changed -/
theorem ZInv.drop {w0 : WState} {Z : ZCodec} {z : ZEnc} {cap : Nat} (h : ZInv w0 Z z cap)
    (hnf : z.finished = false) :
    ∃ k, z.drop Z false = ({ w0 with sink := k }, .ok) ∧ k.good ∧
      ∃ ds : List Bytes, k.chunks = w0.sink.chunks ++ ds.map mkIdat ∧
        ds.flatten = outs Z (z.hist ++ [ZOp.finish]) ∧ ∀ d ∈ ds, d ≠ [] := by
  obtain ⟨z', h1, h2, h3, h4⟩ := h.finish hnf
  unfold ZEnc.drop
  rw [h1]
  simp only [CW.drop]
  obtain ⟨out, hc, ho⟩ := h2.cw
  obtain ⟨c', f1, f2, f3, _⟩ := hc.flushInner
  rw [f1]
  simp only [Bool.false_eq_true, if_false]
  obtain ⟨ds, g1, g2, g3⟩ := f2.chunks
  refine ⟨c'.w.sink, ?_, f2.good, ds, g1, ?_, g3⟩
  · have := f2.same
    rw [← this]
  · rw [f3, List.append_nil] at g2
    rw [g2, ← h3, ← ho, h4, List.append_nil]



/-- a stream writer in the middle of the single image of a still picture -/
structure SWInv (w0 : WState) (Z : ZCodec) (s : SW) (cap : Nat) : Prop where
  wr : ∃ z, s.wr = .zlib z ∧ ZInv w0 Z z cap ∧ z.finished = false
  cur : s.curBuf.length = s.lineLen
  prev : s.prevBuf.length = s.lineLen
  pos : 0 < s.lineLen
  idx : s.index < s.lineLen
  mult : (s.toWrite + s.index) % s.lineLen = 0
  fctl : s.fctl = none
  owned : s.owned = false
  released : s.released = none

theorem finished_snoc {h : List ZOp} {o : ZOp} (hf : h.contains ZOp.finish = false) (ho : o ≠ ZOp.finish) :
    (h ++ [o]).contains ZOp.finish = false := by
  simp only [List.contains_eq_mem, List.mem_append, List.mem_singleton, decide_eq_false_iff_not, not_or] at hf ⊢
  exact ⟨hf, fun h => ho h.symm⟩

theorem overwrite_length (buf : Bytes) (i : Nat) (d : Bytes) (h : i + d.length ≤ buf.length) :
    (overwrite buf i d).length = buf.length := by
  simp only [overwrite, List.length_append, List.length_take, List.length_drop]; omega

/-- one `write` call inside the image: a non-empty prefix is taken, nothing panics, nothing fails -/
theorem SWInv.write {w0 : WState} {Z : ZCodec} {s : SW} {cap : Nat} (h : SWInv w0 Z s cap) (data : Bytes)
    (hd : data ≠ []) (hle : data.length ≤ s.toWrite) :
    ∃ s' n, s.write Z data = (s', .ok n) ∧ 0 < n ∧ n ≤ data.length ∧ SWInv w0 Z s' cap ∧
      s'.toWrite = s.toWrite - n := by
  obtain ⟨z, hz, hzi, hzf⟩ := h.wr
  have hlen : 0 < data.length := List.length_pos_iff.mpr hd
  have htw : ¬ s.toWrite = 0 := by omega
  unfold SW.write
  have hnu : ¬ s.wr = .unrecoverable := by rw [hz]; simp
  rw [if_neg hnu, if_neg hd]
  simp only [htw, if_false]
  have hrs : ¬ s.lineLen > s.curBuf.length := by rw [h.cur]; omega
  rw [if_neg hrs]
  have hidx := h.idx
  have hmult := h.mult
  have hpos := h.pos
  -- the row is not longer than what is still to be written
  have hge : s.lineLen - s.index ≤ s.toWrite := by
    have h1 : s.lineLen ≤ s.toWrite + s.index := by
      have : 0 < s.toWrite + s.index := by omega
      exact Nat.le_of_dvd this (Nat.dvd_of_mod_eq_zero hmult)
    omega
  have hwt : ¬ min data.length (s.lineLen - s.index) > s.toWrite := by omega
  rw [if_neg hwt]
  have hn0 : 0 < min data.length (s.lineLen - s.index) := by omega
  have hcl : (overwrite s.curBuf s.index (data.take (min data.length (s.lineLen - s.index)))).length = s.lineLen := by
    rw [overwrite_length, h.cur]
    simp only [List.length_take, h.cur]; omega
  by_cases hfull : s.index + min data.length (s.lineLen - s.index) = s.lineLen
  · rw [if_pos hfull]
    simp only [hz]
    obtain ⟨z1, a1, a2, a3⟩ := hzi.writeAll ((Z.row s.bpp s.prevBuf (overwrite s.curBuf s.index (data.take (min data.length (s.lineLen - s.index))))).take 1)
    rw [a1]
    simp only
    obtain ⟨z2, b1, b2, b3⟩ := a2.writeAll ((Z.row s.bpp s.prevBuf (overwrite s.curBuf s.index (data.take (min data.length (s.lineLen - s.index))))).drop 1)
    rw [b1]
    simp only
    have hzf2 : z2.finished = false := by
      simp only [ZEnc.finished] at hzf ⊢
      rw [b3, a3]
      split <;> split <;> first | exact hzf | (apply finished_snoc _ (by simp); first | exact hzf | (apply finished_snoc hzf (by simp)))
    refine ⟨_, _, rfl, hn0, by omega, ⟨⟨z2, rfl, b2, hzf2⟩, h.prev, hcl, hpos, hpos, ?_, h.fctl, h.owned, h.released⟩, rfl⟩
    simp only [Nat.add_zero]
    have h1 : s.lineLen ∣ s.toWrite + s.index := Nat.dvd_of_mod_eq_zero hmult
    obtain ⟨q, hq⟩ := h1
    have : s.toWrite - min data.length (s.lineLen - s.index) = s.lineLen * (q - 1) := by
      have hq1 : 1 ≤ q := by
        rcases q with _ | q
        · simp at hq; omega
        · omega
      rw [Nat.mul_sub, Nat.mul_one, ← hq]; omega
    rw [this]; exact Nat.mul_mod_right _ _
  · rw [if_neg hfull]
    refine ⟨_, _, rfl, hn0, by omega, ⟨⟨z, hz, hzi, hzf⟩, hcl, h.prev, hpos, by simp only; omega, ?_, h.fctl, h.owned, h.released⟩, rfl⟩
    simp only
    have : s.toWrite - min data.length (s.lineLen - s.index) + (s.index + min data.length (s.lineLen - s.index)) = s.toWrite + s.index := by omega
    rw [this]; exact hmult



theorem writeAllAux_spec {w0 : WState} {Z : ZCodec} {cap : Nat} (fuel : Nat) :
    ∀ (s : SW) (d : Bytes), SWInv w0 Z s cap → d.length ≤ s.toWrite → d.length < fuel →
      ∃ s', SW.writeAllAux Z fuel s d = (s', .ok) ∧ SWInv w0 Z s' cap ∧ s'.toWrite = s.toWrite - d.length := by
  induction fuel with
  | zero => intro s d _ _ h; omega
  | succ k ih =>
    intro s d hs hle hlt
    simp only [SW.writeAllAux]
    by_cases hd : d = []
    · rw [if_pos hd]; exact ⟨s, rfl, hs, by simp [hd]⟩
    · rw [if_neg hd]
      obtain ⟨s1, n, h1, h2, h3, h4, h5⟩ := hs.write d hd hle
      rw [h1]
      simp only
      have hn : ¬ n = 0 := by omega
      rw [if_neg hn]
      obtain ⟨s2, g1, g2, g3⟩ := ih s1 (d.drop n) h4 (by simp only [List.length_drop]; omega)
        (by simp only [List.length_drop]; omega)
      refine ⟨s2, g1, g2, ?_⟩
      rw [g3, h5]; simp only [List.length_drop]; omega

theorem SWInv.writeAll {w0 : WState} {Z : ZCodec} {s : SW} {cap : Nat} (h : SWInv w0 Z s cap) (d : Bytes)
    (hle : d.length ≤ s.toWrite) :
    ∃ s', s.writeAll Z d = (s', .ok) ∧ SWInv w0 Z s' cap ∧ s'.toWrite = s.toWrite - d.length :=
  writeAllAux_spec (d.length + 1) s d h hle (Nat.lt_succ_self _)

/-- `flush`: `Ok`, or `WrittenTooMuch` in the middle of a row; never a panic; the invariant stays -/
theorem SWInv.flush {w0 : WState} {Z : ZCodec} {s : SW} {cap : Nat} (h : SWInv w0 Z s cap) :
    ∃ s', (s.flush Z).1 = s' ∧ SWInv w0 Z s' cap ∧ s'.toWrite = s.toWrite ∧ s'.index = s.index ∧
      (s.flush Z).2 = (if s.index > 0 then .err .writtenTooMuch else .ok) := by
  obtain ⟨z, hz, hzi, hzf⟩ := h.wr
  obtain ⟨z', f1, f2, f3, _⟩ := hzi.flush
  unfold SW.flush
  simp only [hz, f1]
  have hzf' : z'.finished = false := by
    simp only [ZEnc.finished] at hzf ⊢; rw [f3]; exact finished_snoc hzf (by simp)
  have hinv : SWInv w0 Z { s with wr := .zlib z' } cap :=
    ⟨⟨z', rfl, f2, hzf'⟩, h.cur, h.prev, h.pos, h.idx, h.mult, h.fctl, h.owned, h.released⟩
  by_cases hi : s.index > 0
  · simp only [hi, if_true]; exact ⟨_, rfl, hinv, rfl, rfl, trivial⟩
  · simp only [hi, if_false]; exact ⟨_, rfl, hinv, rfl, rfl, trivial⟩

def SOp.size : SOp → Nat
  | .write d => d.length
  | _ => 0

def totalWritten (ops : List SOp) : Nat := (ops.map SOp.size).sum

/-- any sequence of stream operations that does not write more than the image -/
theorem SWInv.runSOps {w0 : WState} {Z : ZCodec} {cap : Nat} (ops : List SOp) :
    ∀ {s : SW}, SWInv w0 Z s cap → totalWritten ops ≤ s.toWrite →
      ∃ s', (Enc.runSOps Z s ops).1 = s' ∧ SWInv w0 Z s' cap ∧ s'.toWrite = s.toWrite - totalWritten ops ∧
        anyPanic (Enc.runSOps Z s ops).2 = false := by
  induction ops with
  | nil => intro s hs _; exact ⟨s, rfl, hs, by simp [totalWritten], rfl⟩
  | cons op ops ih =>
    intro s hs hle
    simp only [totalWritten, List.map_cons, List.sum_cons] at hle
    have key : ∃ s1 r, streamStep Z s op = (s1, r) ∧ r.isPanic = false ∧ SWInv w0 Z s1 cap ∧ s1.toWrite = s.toWrite - op.size := by
      cases op with
      | write d =>
        obtain ⟨s1, h1, h2, h3⟩ := hs.writeAll d (by simp only [SOp.size] at hle; omega)
        exact ⟨s1, .ok, h1, rfl, h2, h3⟩
      | flush =>
        obtain ⟨s1, h1, h2, h3, _, h5⟩ := hs.flush
        refine ⟨s1, (s.flush Z).2, by simp only [streamStep]; rw [← h1], ?_, h2, by simp [SOp.size, h3]⟩
        rw [h5]; split <;> rfl
      | set o =>
        refine ⟨s, .err .notAnimated, ?_, rfl, hs, by simp [SOp.size]⟩
        simp only [streamStep, setFc, hs.fctl]
        have := hs.fctl
        cases s; simp_all
    obtain ⟨s1, r, k1, k2, k3, k4⟩ := key
    obtain ⟨s2, g1, g2, g3, g4⟩ := ih k3 (by rw [k4]; simp only [totalWritten]; omega)
    simp only [Enc.runSOps, k1]
    cases r with
    | panic p => cases k2
    | ok =>
      simp only
      refine ⟨s2, g1, g2, ?_, by simpa [anyPanic, Res.isPanic] using g4⟩
      rw [g3, k4]; simp only [totalWritten, List.map_cons, List.sum_cons]; omega
    | err e =>
      simp only
      refine ⟨s2, g1, g2, ?_, by simpa [anyPanic, Res.isPanic] using g4⟩
      rw [g3, k4]; simp only [totalWritten, List.map_cons, List.sum_cons]; omega



/-- what the session needs of the `Writer` it starts on: a still picture, nothing written yet,
    a sink that never fails, an image whose size fits `usize` -/
structure StillStart (w : WState) : Prop where
  pal : ¬ (w.color = 3 ∧ w.hasPalette = false)
  fctl : w.fctl = none
  img0 : w.imagesWritten = 0
  good : w.sink.good
  valid : 0 < w.width ∧ colorOk w.color = true ∧ depthOk w.depth = true
  fits : inLenOf w w.width * w.height < 2 ^ 64

theorem SW.new_still {w : WState} (hw : StillStart w) (Z : ZCodec) (size : Nat) (hs : 0 < size) :
    ∃ s, SW.new w false size = (.inl s, .ok) ∧ SWInv w Z s (min chunkCap size) ∧
      s.toWrite = inLenOf w w.width * w.height := by
  have hpos : 0 < inLenOf w w.width := inLen_pos hw.valid.2.1 hw.valid.2.2 hw.valid.1
  have hnd : nextDims w = (w.width, w.height) := by simp [nextDims, hw.fctl]
  have hnf : (CW.new w size).nextFrameInfo = (inLenOf w w.width, inLenOf w w.width * w.height) := by
    simp only [CW.nextFrameInfo, CW.new, hnd]
    rw [if_pos hw.fits]
  have hrect : validateFirstImageRect w = none := by simp [validateFirstImageRect, hw.fctl]
  have hwh : (CW.new w size).writeHeader = (CW.new w size, .ok) := by
    simp only [CW.writeHeader, CW.new, hw.fctl, hw.img0]
    simp
  unfold SW.new
  rw [if_neg hw.pal]
  simp only [hrect, hnf, hwh]
  have hcap : 0 < min chunkCap size := by simp only [chunkCap]; omega
  refine ⟨_, rfl, ?_, rfl⟩
  have hcw : CWInv w (CW.new w size) [] :=
    ⟨rfl, hw.fctl, hw.img0, hw.good, by simp [CW.new, hw.img0], hcap, by simpa [CW.new] using hcap,
      ⟨[], by simp [CW.new], rfl, by simp⟩⟩
  exact {
    wr := ⟨{ cw := CW.new w size }, rfl, ⟨⟨[], hcw, rfl⟩, rfl⟩, rfl⟩
    cur := by simp
    prev := by simp
    pos := hpos
    idx := hpos
    mult := by simp
    fctl := hw.fctl
    owned := rfl
    released := rfl }

/-- the end of the session, `finish()` or drop, after the whole image was written: no error is
    possible any more; the `Writer` is handed back with only its sink changed, and the sink holds, after
    the chunks it had, IDAT chunks whose payloads concatenate to everything the compressor produced -/
theorem SWInv.finish_drop {w0 : WState} {Z : ZCodec} {s : SW} {cap : Nat} (h : SWInv w0 Z s cap)
    (hdone : s.toWrite = 0) (fin : Final) :
    ∃ s' k hist, (match fin with | .finish => s.finish Z | .drop => s.drop Z) = (s', .ok) ∧
      s'.writerState w0 = { w0 with sink := k } ∧ k.good ∧
      ∃ ds : List Bytes, k.chunks = w0.sink.chunks ++ ds.map mkIdat ∧
        ds.flatten = outs Z (hist ++ [ZOp.finish]) ∧ ∀ d ∈ ds, d ≠ [] := by
  have hi0 : s.index = 0 := by
    have hm := h.mult
    rw [hdone, Nat.zero_add, Nat.mod_eq_of_lt h.idx] at hm; exact hm
  obtain ⟨s1, f1, f2, f3, f4, f5⟩ := h.flush
  rw [hi0] at f5
  simp only [Nat.lt_irrefl, if_false, gt_iff_lt] at f5
  obtain ⟨z, hz, hzi, hzf⟩ := f2.wr
  obtain ⟨k, d1, d2, ds, d3, d4, d5⟩ := hzi.drop hzf
  have hfl : s.flush Z = (s1, .ok) := by rw [← f1, ← f5]
  refine ⟨({ s1 with wr := .none }).release (some { w0 with sink := k }), k, z.hist, ?_, ?_, d2, ds, d3, d4, d5⟩
  · cases fin with
    | finish =>
      simp only [SW.finish]
      have : ¬ s.toWrite > 0 := by omega
      rw [if_neg this, hfl]
      simp only [hz, Wrap.drop, d1, f2.owned]
    | drop =>
      simp only [SW.drop, hfl, hz, Wrap.drop, d1, f2.owned]
  · simp [SW.release, SW.writerState]



/-- a whole borrowed stream-writer session that writes exactly one still image, in pieces of any
    size, with any flushes and (refused) setter calls in between -/
theorem still_session {w : WState} (hw : StillStart w) (Z : ZCodec) (size : Nat) (hs : 0 < size)
    (ops : List SOp) (htot : totalWritten ops = inLenOf w w.width * w.height) (fin : Final) :
    anyPanic (streamSession Z w false size ops fin).2 = false ∧
    (streamSession Z w false size ops fin).2.getLast? = some .ok ∧
    ∃ k hist, (streamSession Z w false size ops fin).1 = { w with sink := k } ∧ k.good ∧
      ∃ ds : List Bytes, k.chunks = w.sink.chunks ++ ds.map mkIdat ∧
        ds.flatten = outs Z (hist ++ [ZOp.finish]) ∧ ∀ d ∈ ds, d ≠ [] := by
  obtain ⟨s0, n1, n2, n3⟩ := SW.new_still hw Z size hs
  obtain ⟨s1, r1, r2, r3, r4⟩ := n2.runSOps ops (by rw [n3, htot]; exact Nat.le_refl _)
  have hdone : s1.toWrite = 0 := by rw [r3, n3, htot]; omega
  obtain ⟨s2, k, hist, e1, e2, e3, ds, e4, e5, e6⟩ := r2.finish_drop hdone fin
  unfold streamSession
  simp only [n1]
  cases hro : Enc.runSOps Z s0 ops with
  | mk sA rs =>
    rw [hro] at r1 r4
    simp only at r1 r4
    subst r1
    simp only [r4, Bool.false_eq_true, if_false]
    cases fin with
    | finish =>
      simp only at e1 ⊢
      rw [e1]
      refine ⟨?_, by rw [List.getLast?_append]; simp, k, hist, e2, e3, ds, e4, e5, e6⟩
      simp only [anyPanic, List.any_cons, List.any_append, Res.isPanic, Bool.false_or, List.any_nil, Bool.or_false]
      exact r4
    | drop =>
      simp only at e1 ⊢
      rw [e1]
      refine ⟨?_, by rw [List.getLast?_append]; simp, k, hist, e2, e3, ds, e4, e5, e6⟩
      simp only [anyPanic, List.any_cons, List.any_append, Res.isPanic, Bool.false_or, List.any_nil, Bool.or_false]
      exact r4

/-- the sequencing automaton on `IHDR …header… IDAT⁺ IEND` of a still picture -/
theorem still_skeleton (imgOk : ImgRule) {s : WState} {seq fctls : Nat} (hactl : s.actl = none)
    (hp : ¬ (s.color = 3 ∧ s.hasPalette = false)) (ds : List Bytes) (hne : ds ≠ [])
    (hok : imgOk s.width s.height ds.flatten = .ok ()) :
    skRunR imgOk (absSk s seq fctls .pre) (ds.map mkIdat ++ [iendChunk]) = .ok (absSk s seq fctls .done) := by
  cases ds with
  | nil => exact absurd rfl hne
  | cons p ps =>
    have h1 : skRunR imgOk (absSk s seq fctls .pre) ((p :: ps).map mkIdat) = .ok (absSk s seq fctls (.idat (p :: ps).flatten)) := by
      simp only [List.map_cons, skRunR, summarize_idat, skStep, stepIdat, absSk]
      simp only [reduceCtorEq, if_false, hp]
      rw [skRunR_idats imgOk ps _ p rfl]
      simp
    have h2 : skRunR imgOk (absSk s seq fctls (.idat (p :: ps).flatten)) [iendChunk] = .ok (absSk s seq fctls .done) := by
      have hI : ∀ acc, Phase.idat (p :: ps).flatten = .idat acc → imgOk s.width s.height acc = .ok () := by
        intro acc h; cases h; exact hok
      have hF : ∀ w h acc, Phase.idat (p :: ps).flatten = .fdat w h acc → imgOk w h acc = .ok () := by
        intro w h acc hh; cases hh
      have hnd : (absSk s seq fctls (.idat (p :: ps).flatten)).phase ≠ .done := by simp [absSk]
      simp only [skRunR, summarize_iend, skStep, hnd, if_false, stepIend, closeRun_abs hI hF, closed]
      simp [absSk, hactl]
    exact skRunR_append_ok h1 h2



theorem runSteps_single (E : Codec) (Z : ZCodec) (s : WState) (size : Nat) (ops : List SOp) (fin : Final) :
    runSteps E Z s [.stream size ops fin] =
      ((streamSession Z s false size ops fin).1, [(streamSession Z s false size ops fin).2]) := by
  simp only [runSteps]
  split <;> rfl

/-- C12 for the stream writer on a still picture: header, then one borrowed stream-writer session that
    writes exactly the image (pieces of any size, any flushes, any chunk buffer size ≥ 1, `finish` or
    drop), then the `Writer` is dropped.  No call fails or panics; the sink holds the header chunks,
    then IDAT chunks only — no fcTL, no fdAT, no sequence numbers: the same skeleton as
    `write_image_data` — whose payloads concatenate to everything the compressor produced up to and
    including `finish`; and the skeleton is valid whenever that stream satisfies the image rule. -/
theorem stream_still_valid (imgOk : ImgRule) (E : Codec) (Z : ZCodec) (c : Cfg) (hw : c.WellFormed)
    (hstill : c.actl = none) (hpal : c.color = 3 → c.palette.isSome = true) (hh : (writeHeader c {}).2 = .ok) (size : Nat) (hs : 0 < size) (ops : List SOp)
    (hfit : (rawRowLengthFromWidth c.color c.depth c.width - 1) * c.height < 2 ^ 64)
    (htot : totalWritten ops = (rawRowLengthFromWidth c.color c.depth c.width - 1) * c.height) (fin : Final) :
    (runProg E Z c {} [.stream size ops fin] .drop).header = .ok ∧
    (runProg E Z c {} [.stream size ops fin] .drop).results.any anyPanic = false ∧
    (∀ rs ∈ (runProg E Z c {} [.stream size ops fin] .drop).results, rs.getLast? = some .ok) ∧
    ∃ (ds : List Bytes) (hist : List ZOp),
      (runProg E Z c {} [.stream size ops fin] .drop).state.sink.chunks =
        headerChunks c ++ ds.map mkIdat ++ [iendChunk] ∧
      ds.flatten = outs Z (hist ++ [ZOp.finish]) ∧ (∀ d ∈ ds, d ≠ []) ∧
      (ds ≠ [] → imgOk c.width c.height ds.flatten = .ok () →
        skeletonOfChunks imgOk c.width c.height c.color ((headerChunks c).tail ++ ds.map mkIdat ++ [iendChunk]) = .ok ()) := by
  cases hwh : writeHeader c {} with
  | mk s0 r0 =>
    rw [hwh] at hh; simp only at hh; subst hh
    obtain ⟨inv0, hst0, hch0⟩ := header_inv imgOk c hw hwh
    obtain ⟨e1, e2, e3, e4, e5, e6, e7, e8⟩ := hst0
    have hw0 : s0.width = c.width := e1
    have hh0 : s0.height = c.height := e2
    have hc0 : s0.color = c.color := e3
    have hd0 : s0.depth = c.depth := e4
    have ha0 : s0.actl = none := by rw [e5]; exact hstill
    have hp0 : ¬ (s0.color = 3 ∧ s0.hasPalette = false) := by
      intro ⟨h3, hnp⟩
      have h1 := hpal (by rw [← hc0]; exact h3)
      have h2 : s0.hasPalette = c.palette.isSome := e6
      rw [h2, h1] at hnp; cases hnp
    have hstart : StillStart s0 :=
      ⟨hp0, inv0.noActl ha0, inv0.phPre.mpr rfl, inv0.good, ⟨inv0.valid.1, inv0.valid.2.2.1, inv0.valid.2.2.2⟩, by
        simp only [inLenOf, hw0, hh0, hc0, hd0]; exact hfit⟩
    obtain ⟨p1, p2, k, hist, p3, p4, ds, p5, p6, p7⟩ := still_session hstart Z size hs ops (by
      simp only [inLenOf, hw0, hh0, hc0, hd0]; exact htot) fin
    unfold runProg
    rw [hwh]
    simp only [runSteps_single, p3]
    · simp only [p1, Bool.false_eq_true, if_false, List.any_cons, List.any_nil, Bool.or_false]
      -- the final drop writes the IEND
      obtain ⟨k2, q1, q2, q3⟩ := WState.emit_good' (s := { s0 with sink := k, iendWritten := true }) p4 [iendChunk]
      have hdrop : dropW { s0 with sink := k } = { s0 with sink := k2, iendWritten := true } := by
        simp only [dropW, inv0.iend, Bool.false_eq_true, if_false, writeIend, q1]
      refine ⟨trivial, trivial, ?_, ds, hist, ?_, p6, p7, ?_⟩
      · intro rs' hrs; simp only [List.mem_singleton] at hrs; subst hrs; exact p2
      · simp only [hdrop]; rw [q3]; simp only; rw [p5, hch0]
      · intro hne hok
        obtain ⟨rest, r1, r2⟩ := inv0.run
        have hrest : rest = (headerChunks c).tail := by
          rw [hch0] at r1; simp only [headerChunks, List.append_assoc, List.cons_append, List.nil_append] at r1 ⊢
          exact (List.cons.inj r1).2.symm
        have hp : ¬ (s0.color = 3 ∧ s0.hasPalette = false) := by
          intro ⟨h3, hnp⟩
          have h1 := hpal (by rw [← hc0]; exact h3)
          have h2 : s0.hasPalette = c.palette.isSome := e6
          rw [h2, h1] at hnp; cases hnp
        have hsk := still_skeleton imgOk (s := s0) (seq := 0) (fctls := 0) ha0 hp ds hne (by rw [hw0, hh0]; exact hok)
        have := skRunR_append_ok r2 hsk
        rw [hw0, hh0, hc0, hrest, ← List.append_assoc] at this
        exact skeletonOfChunks_of_run this rfl


end Png.Enc
