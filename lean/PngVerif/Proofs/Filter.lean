import PngVerif.Model.Filter
/-! Proofs about the scanline filter model (C14, used by C01/C03). -/
namespace Png

/-! ### The three Paeth formulations equal the specification on all bytes -/

theorem paethAInt_eq (a b c : Int) (_ : 0 ≤ a ∧ a < 256) (_ : 0 ≤ b ∧ b < 256) (_ : 0 ≤ c ∧ c < 256) :
    paethAInt a b c = paethSpecInt a b c := by
  unfold paethAInt paethSpecInt iabs
  simp only []
  split <;> split <;> split <;> (try split) <;> (try split) <;> (try split) <;> simp_all <;> omega

theorem paethStbiInt_eq (a b c : Int) (_ : 0 ≤ a ∧ a < 256) (_ : 0 ≤ b ∧ b < 256) (_ : 0 ≤ c ∧ c < 256) :
    paethStbiInt a b c = paethSpecInt a b c := by
  unfold paethStbiInt paethSpecInt
  simp only []
  split <;> split <;> (try split) <;> (try split) <;> omega

theorem paethFpngeNat_eq (a b c : Nat) (ha : a < 256) (hb : b < 256) (hc : c < 256) :
    (paethFpngeNat a b c : Int) = paethSpecInt a b c := by
  unfold paethFpngeNat paethSpecInt
  simp only []
  by_cases h1 : a < c <;> by_cases h2 : c < b <;> simp [h1, h2] <;>
    (repeat' split) <;> omega

private theorem u8_bounds (a : UInt8) : (0:Int) ≤ (a.toNat : Int) ∧ (a.toNat : Int) < 256 := by
  have := a.toNat_lt; omega

theorem paethA_eq_spec (a b c : UInt8) : paethA a b c = paethSpec a b c := by
  unfold paethA paethSpec
  rw [paethAInt_eq _ _ _ (u8_bounds a) (u8_bounds b) (u8_bounds c)]

theorem paethStbi_eq_spec (a b c : UInt8) : paethStbi a b c = paethSpec a b c := by
  unfold paethStbi paethSpec
  rw [paethStbiInt_eq _ _ _ (u8_bounds a) (u8_bounds b) (u8_bounds c)]

theorem paethFpnge_eq_spec (a b c : UInt8) : paethFpnge a b c = paethSpec a b c := by
  unfold paethFpnge paethSpec
  have h := paethFpngeNat_eq a.toNat b.toNat c.toNat a.toNat_lt b.toNat_lt c.toNat_lt
  rw [← h]; simp

/-- the specification's predictor always returns one of its arguments (so the `toUInt8` in
    `paethSpec` never truncates) -/
theorem paethSpecInt_mem (a b c : Int) : paethSpecInt a b c = a ∨ paethSpecInt a b c = b ∨ paethSpecInt a b c = c := by
  unfold paethSpecInt; simp only []; split
  · exact Or.inl rfl
  · split
    · exact Or.inr (Or.inl rfl)
    · exact Or.inr (Or.inr rfl)

theorem paethSpec_toNat (a b c : UInt8) :
    ((paethSpec a b c).toNat : Int) = paethSpecInt a.toNat b.toNat c.toNat := by
  unfold paethSpec
  rcases paethSpecInt_mem a.toNat b.toNat c.toNat with h | h | h <;> rw [h] <;> simp

/-! ### Average: bitwise form = floor of half the 9-bit sum -/

/-- the whole 2^16 table, evaluated by the kernel -/
def avgTableOk : Bool := (List.range 256).all fun a => (List.range 256).all fun b =>
  (a &&& b) + ((a ^^^ b) >>> 1) == (a + b) / 2
theorem avgTableOk_true : avgTableOk = true := by decide +kernel
theorem avg_nat (a b : Nat) (ha : a < 256) (hb : b < 256) :
    (a &&& b) + ((a ^^^ b) >>> 1) = (a + b) / 2 := by
  have h := avgTableOk_true
  simp only [avgTableOk, List.all_eq_true, List.mem_range, beq_iff_eq] at h
  exact h a ha b hb

theorem avgBitwise_eq (a b : UInt8) : avgBitwise a b = avgWide a b := by
  have h := avg_nat a.toNat b.toNat a.toNat_lt b.toNat_lt
  apply UInt8.toNat_inj.mp
  have ha := a.toNat_lt; have hb := b.toNat_lt
  simp only [avgBitwise, avgWide, UInt8.toNat_add, UInt8.toNat_and, UInt8.toNat_xor, UInt8.toNat_shiftRight]
  simp
  omega

/-! ### Filtering and reconstruction are mutually inverse (every predictor, bpp, prior, length) -/

theorem recon_filt (p) (bpp : Nat) (prior todo : Bytes) :
    ∀ done, recon p bpp prior done (filt p bpp prior done todo) = todo := by
  induction todo with
  | nil => intro done; simp [recon, filt]
  | cons x xs ih => intro done; simp [filt, recon, UInt8.sub_add_cancel, ih]

theorem filt_recon (p) (bpp : Nat) (prior fs : Bytes) :
    ∀ done, filt p bpp prior done (recon p bpp prior done fs) = fs := by
  induction fs with
  | nil => intro done; simp [recon, filt]
  | cons x xs ih => intro done; simp [filt, recon, UInt8.add_sub_cancel, ih]

theorem recon_length (p) (bpp : Nat) (prior fs : Bytes) :
    ∀ done, (recon p bpp prior done fs).length = fs.length := by
  induction fs with
  | nil => intro done; simp [recon]
  | cons x xs ih => intro done; simp [recon, ih]

theorem filt_length (p) (bpp : Nat) (prior fs : Bytes) :
    ∀ done, (filt p bpp prior done fs).length = fs.length := by
  induction fs with
  | nil => intro done; simp [filt]
  | cons x xs ih => intro done; simp [filt, ih]

theorem reconRow_filtRow (ft : FilterType) (bpp : Nat) (prior row : Bytes) :
    reconRow ft bpp prior (filtRow ft bpp prior row) = row := recon_filt _ _ _ _ _

theorem filtRow_reconRow (ft : FilterType) (bpp : Nat) (prior row : Bytes) :
    filtRow ft bpp prior (reconRow ft bpp prior row) = row := filt_recon _ _ _ _ _

/-- first row: an empty prior row behaves as an all-zero prior row -/
theorem getD_replicate_zero (n i : Nat) : (List.replicate n (0:UInt8)).getD i 0 = 0 := by
  simp only [List.getD, List.getElem?_replicate]; split <;> rfl

theorem nbrs_nil_eq_zeros (bpp n : Nat) (done : Bytes) :
    nbrs bpp [] done = nbrs bpp (List.replicate n 0) done := by
  simp only [nbrs, getD_replicate_zero]
  simp [List.getD]

theorem recon_nil_eq_zeros (p) (bpp n : Nat) (fs : Bytes) :
    ∀ done, done.length + fs.length ≤ n →
      recon p bpp [] done fs = recon p bpp (List.replicate n 0) done fs := by
  induction fs with
  | nil => intro done _; simp [recon]
  | cons x xs ih =>
    intro done h
    simp only [List.length_cons] at h
    simp only [recon]
    rw [nbrs_nil_eq_zeros bpp n done]
    congr 1
    exact ih _ (by simp; omega)

theorem reconRow_first (ft : FilterType) (bpp : Nat) (row : Bytes) :
    reconRow ft bpp [] row = reconRow ft bpp (List.replicate row.length 0) row :=
  recon_nil_eq_zeros _ _ _ _ _ (by simp)

end Png
