import PngVerif.Proofs.LazyEofStep
import PngVerif.Proofs.LazySpec
/-!
# Lazy reader with input that temporarily ends: attempts, repeated calls, runs
-/
namespace Png.LazyEof
open Png.Lazy (Frame Arrival ErrC Site Res Op)

/-- the invariant: the state without its markers satisfies the invariant of `Png.Lazy`; after an interrupted
    `finish` no frame is open -/
structure GoodE (e : Env) (s : St) : Prop where
  good : Png.Lazy.Good e.base s.core
  tail : ∀ k, s.tail = some k → s.core.caf = true ∧ s.core.cur = none ∧ s.core.rem = 0
  subok : SubOk e.base.frames s.core

/-- the invariant gives the invariant of the source-free specification -/
theorem GoodE.sinv {e : Env} {s : St} (h : GoodE e s) : Png.Lazy.Spec.SInv e.base.frames s.core.abs :=
  ⟨h.good.inv.rem_pos, h.good.inv.cur_lt, h.subok⟩

theorem L_step_subok (e : Png.Lazy.Env) (hv : e.Valid) (c : Png.Lazy.St) (hg : Png.Lazy.Good e c)
    (hs : SubOk e.frames c) (op : Op) : SubOk e.frames (Png.Lazy.step e c op).1 := by
  have href := (Png.Lazy.step_refines e hv c hg op).2
  have hsi : Png.Lazy.Spec.SInv e.frames c.abs := ⟨hg.inv.rem_pos, hg.inv.cur_lt, hs⟩
  have := Png.Lazy.Spec.step_sinv (fr := e.frames) op (Png.Lazy.step e c op).1.caf hsi
  rw [← href] at this
  exact this.sub_ok

/-- an attempt that consumed an `Eof` marker -/
structure Temp (e : Env) (op : Op) (s s' : St) (w : List Nat) : Prop where
  good : GoodE e s'
  lt : marks e s' < marks e s
  eq : Png.Lazy.step e.base s.core op = addWp w (Png.Lazy.step e.base s'.core op)
  cov : ∀ i ∈ w, Png.Lazy.covers s'.core.sub (Png.Lazy.Spec.availOf e.base.frames s'.core.fi) i = true

/-- an attempt that met no `Eof` marker -/
structure Final (e : Env) (op : Op) (s s' : St) (r : Res) : Prop where
  eq : Png.Lazy.step e.base s.core op = (s'.core, r)
  good : GoodE e s'
  le : marks e s' ≤ marks e s

theorem tail_noop (e : Env) (s : St) (op : Op) (hcaf : s.core.caf = true) (hcur : s.core.cur = none)
    (hrem : s.core.rem = 0) (hop : op ≠ .finish) :
    ∃ r0, step e s op = (s, r0, []) ∧ Png.Lazy.step e.base s.core op = (s.core, r0) := by
  cases op with
  | nextFrame =>
    exact ⟨.err .polled, by simp [step, nextFrame, hcur, hrem], by simp [Png.Lazy.step, Png.Lazy.nextFrame, hcur, hrem]⟩
  | nextRow =>
    exact ⟨.none, by simp [step, nextRow, finishDecoding, hcur, hcaf],
      by simp [Png.Lazy.step, Png.Lazy.nextRow, Png.Lazy.finishDecoding, hcur, hcaf]⟩
  | nextFrameInfo =>
    exact ⟨.err .polled, by simp [step, nextFrameInfo, hcaf, hrem],
      by simp [Png.Lazy.step, Png.Lazy.nextFrameInfo, hcaf, hrem]⟩
  | finish => exact absurd rfl hop

theorem lift_A (e : Env) (hv : e.base.Valid) (s s' : St) (op : Op) (r : Res) (w : List Nat) (hg : GoodE e s)
    (ht : s.tail = none)
    (h : (r = .err .eof ∧ TempA e op s s' w) ∨ FinalA e op s s' r) :
    (r = .err .eof ∧ Temp e op s s' w) ∨ Final e op s s' r := by
  rcases h with ⟨hr, h⟩ | h
  · left
    have ht' : s'.tail = none := h.tail.trans ht
    exact ⟨hr, ⟨h.good, by intro k hk; rw [ht'] at hk; simp at hk, h.subok hg.subok⟩,
      by simp only [marks, ht, ht']; exact h.lt, h.eq, h.cov⟩
  · right
    have ht' : s'.tail = none := h.tail.trans ht
    have hg' := (Png.Lazy.step_refines e.base hv s.core hg.good op).1
    have hso := L_step_subok e.base hv s.core hg.good hg.subok op
    rw [h.eq] at hg' hso
    exact ⟨h.eq, ⟨hg', by intro k hk; rw [ht'] at hk; simp at hk, hso⟩, by simp only [marks, ht, ht']; exact h.le⟩

theorem finish_op (e : Env) (s s' : St) (r : Res) (hg : GoodE e s) (h : finish e s = (s', r)) :
    (r = .err .eof ∧ Temp e .finish s s' []) ∨ Final e .finish s s' r := by
  unfold finish at h
  by_cases hf : s.core.finished = true
  · simp only [hf, if_true, Prod.mk.injEq] at h
    obtain ⟨rfl, rfl⟩ := h
    right
    exact ⟨by simp [Png.Lazy.step, Png.Lazy.finish, hf], hg, Nat.le_refl _⟩
  · simp only [hf, Bool.false_eq_true, if_false] at h
    by_cases hend : s.core.atEnd = true
    · simp only [hend, if_true, Prod.mk.injEq] at h
      obtain ⟨rfl, rfl⟩ := h
      right
      refine ⟨by simp [Png.Lazy.step, Png.Lazy.finish, hf, hend], ⟨?_, fun _ _ => ⟨rfl, rfl, rfl⟩, hg.subok⟩, ?_⟩
      · have := (Png.Lazy.finish_refines e.base s.core hg.good).1
        simpa [Png.Lazy.finish, hf, hend] using this
      · simp [marks, ahead]
    · simp only [hend, Bool.false_eq_true, if_false] at h
      by_cases hn : marks e s = 0
      · simp only [hn, if_true, Prod.mk.injEq] at h
        obtain ⟨rfl, rfl⟩ := h
        right
        refine ⟨by simp [Png.Lazy.step, Png.Lazy.finish, hf, hend], ⟨?_, fun _ _ => ⟨rfl, rfl, rfl⟩, hg.subok⟩,
          by simp [marks]⟩
        have := (Png.Lazy.finish_refines e.base s.core hg.good).1
        simpa [Png.Lazy.finish, hf, hend] using this
      · simp only [hn, if_false, Prod.mk.injEq] at h
        obtain ⟨rfl, rfl⟩ := h
        left
        refine ⟨rfl, ⟨⟨⟨by simp, by simp, by simp, by simp, by simp⟩, by intro i hi; simp at hi⟩,
          fun _ _ => ⟨rfl, rfl, rfl⟩, hg.subok⟩, by show marks e s - 1 < marks e s; omega, ?_, by simp⟩
        simp [addWp, addW, Png.Lazy.step, Png.Lazy.finish, hf, hend]

/-- **Every attempt** of a public call either consumes an `Eof` marker, answers `UnexpectedEof` and leaves a state
    from which the same call answers the same; or it is the call of `Png.Lazy` on the state without markers. -/
theorem step_sim (e : Env) (hv : e.base.Valid) (s : St) (hg : GoodE e s) (op : Op) (s' : St) (r : Res) (w : List Nat)
    (h : step e s op = (s', r, w)) :
    (r = .err .eof ∧ Temp e op s s' w) ∨ Final e op s s' r := by
  by_cases hop : op = .finish
  · subst hop
    simp only [step, Prod.mk.injEq] at h
    obtain ⟨h1, h2, rfl⟩ := h
    exact finish_op e s s' r hg (by rw [← h1, ← h2])
  · cases ht : s.tail with
    | some k =>
      obtain ⟨hcaf, hcur, hrem⟩ := hg.tail k ht
      obtain ⟨r0, h1, h2⟩ := tail_noop e s op hcaf hcur hrem hop
      rw [h1] at h
      simp only [Prod.mk.injEq] at h
      obtain ⟨rfl, rfl, rfl⟩ := h
      right; exact ⟨h2, hg, Nat.le_refl _⟩
    | none =>
      apply lift_A e hv s s' op r w hg ht
      cases op with
      | finish => exact absurd rfl hop
      | nextFrame => exact nextFrame_op e hv s s' r w hg.good h
      | nextRow =>
        simp only [step, Prod.mk.injEq] at h
        obtain ⟨h1, h2, rfl⟩ := h
        exact nextRow_op e s s' r hg.good (by rw [← h1, ← h2])
      | nextFrameInfo =>
        simp only [step, Prod.mk.injEq] at h
        obtain ⟨h1, h2, rfl⟩ := h
        exact nextFrameInfo_op e s s' r hg.good (by rw [← h1, ← h2])

/-! ## `UnexpectedEof` after `IEND`: repeating the call changes nothing -/

theorem Spec_nextRow_not_eof (fr : List Frame) (a : Png.Lazy.Spec.A) (b : Bool) :
    (Png.Lazy.Spec.nextRow fr a b).2 ≠ .err .eof := by
  unfold Png.Lazy.Spec.nextRow
  split
  · simp
  · split <;> simp

theorem Spec_close_atEnd (a : Png.Lazy.Spec.A) : (Png.Lazy.Spec.close a).atEnd = a.atEnd := by
  unfold Png.Lazy.Spec.close; split <;> rfl

theorem Spec_frameInto_not_eof (fr : List Frame) (a : Png.Lazy.Spec.A) :
    (Png.Lazy.Spec.frameInto fr a).2 ≠ .err .eof := by
  unfold Png.Lazy.Spec.frameInto
  simp only []
  split <;> simp

theorem Spec_readUntil_eof (fr : List Frame) (a : Png.Lazy.Spec.A)
    (h : (Png.Lazy.Spec.readUntilImageData fr a).2 = some (.err .eof)) : a.atEnd = true := by
  unfold Png.Lazy.Spec.readUntilImageData at h
  by_cases he : a.atEnd = true
  · exact he
  · simp only [he, Bool.false_eq_true, if_false] at h
    split at h <;> simp at h

theorem Spec_nextFrame_eof (fr : List Frame) (a : Png.Lazy.Spec.A)
    (h : (Png.Lazy.Spec.nextFrame fr a).2 = .err .eof) :
    a.cur = none ∧ a.rem ≠ 0 ∧ a.caf = true ∧ a.atEnd = true := by
  unfold Png.Lazy.Spec.nextFrame at h
  by_cases hc : a.cur.isSome = true
  · simp only [hc, if_true] at h
    exact absurd h (Spec_frameInto_not_eof fr a)
  · simp only [hc, Bool.false_eq_true, if_false] at h
    by_cases hr : a.rem = 0
    · simp [hr] at h
    · simp only [hr, if_false] at h
      by_cases hcaf : a.caf = true
      · simp only [hcaf, if_true] at h
        rcases hru : Png.Lazy.Spec.readUntilImageData fr a with ⟨a1, o⟩
        rw [hru] at h
        cases o with
        | some r =>
          simp only [] at h
          subst h
          exact ⟨by simpa using hc, hr, hcaf, Spec_readUntil_eof fr a (by rw [hru])⟩
        | none =>
          simp only [] at h
          exact absurd h (Spec_frameInto_not_eof fr a1)
      · simp only [hcaf, Bool.false_eq_true, if_false] at h
        exact absurd h (Spec_frameInto_not_eof fr a)

theorem Spec_nextFrameInfo_eof (fr : List Frame) (a : Png.Lazy.Spec.A)
    (h : (Png.Lazy.Spec.nextFrameInfo fr a).2 = .err .eof) : a.atEnd = true := by
  unfold Png.Lazy.Spec.nextFrameInfo at h
  by_cases hr : (if a.caf then a.rem else a.rem - 1) = 0
  · simp [hr] at h
  · simp only [hr, if_false] at h
    rcases hru : Png.Lazy.Spec.readUntilImageData fr
        (Png.Lazy.Spec.close { a with cur := if a.caf then a.cur else none }) with ⟨a1, o⟩
    rw [hru] at h
    cases o with
    | some r =>
      simp only [] at h
      subst h
      have := Spec_readUntil_eof fr _ (by rw [hru])
      rw [Spec_close_atEnd] at this
      exact this
    | none => simp at h

theorem L_eof_idem (e : Png.Lazy.Env) (hv : e.Valid) (c c1 : Png.Lazy.St) (hg : Png.Lazy.Good e c) (op : Op)
    (h : Png.Lazy.step e c op = (c1, .err .eof)) : Png.Lazy.step e c1 op = (c1, .err .eof) := by
  have href := (Png.Lazy.step_refines e hv c hg op).2
  rw [h] at href
  have hres := congrArg Prod.snd href
  simp only [] at hres
  cases op with
  | nextRow => exact absurd hres.symm (Spec_nextRow_not_eof _ _ _)
  | nextFrame =>
    obtain ⟨h1, h2, h3, h4⟩ := Spec_nextFrame_eof _ _ hres.symm
    have h1' : c.cur = none := h1
    have h2' : c.rem ≠ 0 := h2
    have h3' : c.caf = true := h3
    have h4' : c.atEnd = true := h4
    have : Png.Lazy.step e c .nextFrame = (c, .err .eof) := by
      simp [Png.Lazy.step, Png.Lazy.nextFrame, Png.Lazy.readUntilImageData, h1', h2', h3', h4']
    rw [this] at h
    simp only [Prod.mk.injEq, and_true] at h
    rw [← h]; exact this
  | nextFrameInfo =>
    have h4' : c.atEnd = true := Spec_nextFrameInfo_eof _ _ hres.symm
    have h3' : c.caf = true := hg.inv.end_caf h4'
    by_cases hr : c.rem = 0
    · simp [Png.Lazy.step, Png.Lazy.nextFrameInfo, h3', hr] at h
    · have : Png.Lazy.step e c .nextFrameInfo = (c, .err .eof) := by
        simp [Png.Lazy.step, Png.Lazy.nextFrameInfo, Png.Lazy.readUntilImageData, h3', h4', hr]
      rw [this] at h
      simp only [Prod.mk.injEq, and_true] at h
      rw [← h]; exact this
  | finish =>
    simp only [Png.Lazy.step, Png.Lazy.finish] at h ⊢
    by_cases hf : c.finished = true
    · simp [hf] at h
    · simp only [hf, Bool.false_eq_true, if_false] at h
      by_cases hend : c.atEnd = true
      · simp only [hend, if_true, Prod.mk.injEq, and_true] at h
        subst h
        simp
      · simp [hend] at h

/-- when a call of `Png.Lazy` answers `UnexpectedEof`, `IEND` has been consumed -/
theorem L_eof_facts (e : Png.Lazy.Env) (hv : e.Valid) (c c1 : Png.Lazy.St) (hg : Png.Lazy.Good e c) (op : Op)
    (h : Png.Lazy.step e c op = (c1, .err .eof)) :
    match op with
    | .nextRow => False
    | .nextFrame => c.cur = none ∧ c.rem ≠ 0 ∧ c.caf = true ∧ c.atEnd = true
    | .nextFrameInfo => c.rem ≠ 0 ∧ c.caf = true ∧ c.atEnd = true
    | .finish => c.finished = false ∧ c.atEnd = true := by
  have href := (Png.Lazy.step_refines e hv c hg op).2
  rw [h] at href
  have hres := congrArg Prod.snd href
  simp only [] at hres
  cases op with
  | nextRow => exact absurd hres.symm (Spec_nextRow_not_eof _ _ _)
  | nextFrame => exact Spec_nextFrame_eof _ _ hres.symm
  | nextFrameInfo =>
    have h4' : c.atEnd = true := Spec_nextFrameInfo_eof _ _ hres.symm
    have h3' : c.caf = true := hg.inv.end_caf h4'
    refine ⟨?_, h3', h4'⟩
    intro hr
    simp [Png.Lazy.step, Png.Lazy.nextFrameInfo, h3', hr] at h
  | finish =>
    simp only [Png.Lazy.step, Png.Lazy.finish] at h
    by_cases hf : c.finished = true
    · simp [hf] at h
    · by_cases hend : c.atEnd = true
      · exact ⟨by simpa using hf, hend⟩
      · simp [hf, hend] at h

/-- an attempt that answers `UnexpectedEof` without having consumed a marker leaves a state in which the same
    attempt changes nothing -/
theorem E_fix (e : Env) (hv : e.base.Valid) (s : St) (hg : GoodE e s) (op : Op) (s' : St) (w : List Nat)
    (h : step e s op = (s', .err .eof, w)) (hF : Final e op s s' (.err .eof)) :
    w = [] ∧ step e s' op = (s', .err .eof, []) := by
  have hfacts := L_eof_facts e.base hv s.core s'.core hg.good op hF.eq
  cases op with
  | nextRow => exact absurd hfacts id
  | nextFrame =>
    obtain ⟨h1, h2, h3, h4⟩ := hfacts
    have : step e s .nextFrame = (s, .err .eof, []) := by
      simp [step, nextFrame, readUntilImageData, h1, h2, h3, h4]
    rw [this] at h
    simp only [Prod.mk.injEq] at h
    refine ⟨h.2.2.symm, ?_⟩
    rw [← h.1]; exact this
  | nextFrameInfo =>
    obtain ⟨h2, h3, h4⟩ := hfacts
    have : step e s .nextFrameInfo = (s, .err .eof, []) := by
      simp [step, nextFrameInfo, readUntilImageData, h2, h3, h4]
    rw [this] at h
    simp only [Prod.mk.injEq] at h
    refine ⟨h.2.2.symm, ?_⟩
    rw [← h.1]; exact this
  | finish =>
    obtain ⟨h1, h4⟩ := hfacts
    have : step e s .finish =
        ({ s with core := { s.core with rem := 0, buf := 0, cur := none, caf := true } }, .err .eof, []) := by
      simp [step, finish, h1, h4]
    rw [this] at h
    simp only [Prod.mk.injEq] at h
    refine ⟨h.2.2.symm, ?_⟩
    rw [← h.1]
    simp [step, finish, h1, h4]

theorem resume_fix (e : Env) (op : Op) (s : St) (h : step e s op = (s, .err .eof, [])) :
    ∀ (n : Nat) (acc : List Nat), resume e n s op acc = (s, .err .eof) := by
  intro n
  induction n with
  | zero => intro acc; simp [resume, h, addW]
  | succ n ih => intro acc; simp [resume, h, ih]

theorem addW_eof (w : List Nat) (r : Res) (h : addW w r = .err .eof) : r = .err .eof := by
  cases r <;> simp_all [addW]

/-- **A repeated call**: with at least as many repetitions allowed as there are `Eof` markers ahead, the caller that
    repeats the call while it answers `UnexpectedEof` ends in the state, and with the answer, of the call of `Png.Lazy`
    on the input without markers (`acc` = rows written to the buffer before). -/
theorem resume_sim (e : Env) (hv : e.base.Valid) (op : Op) : ∀ (n : Nat) (s : St) (acc : List Nat), GoodE e s →
    marks e s ≤ n →
    (resume e n s op acc).1.core = (Png.Lazy.step e.base s.core op).1 ∧
    (resume e n s op acc).2 = addW acc (Png.Lazy.step e.base s.core op).2 ∧
    GoodE e (resume e n s op acc).1 ∧ marks e (resume e n s op acc).1 ≤ marks e s := by
  intro n
  induction n with
  | zero =>
    intro s acc hg hm
    rcases hst : step e s op with ⟨s', r, w⟩
    simp only [resume, hst]
    rcases step_sim e hv s hg op s' r w hst with ⟨_, hT⟩ | hF
    · have := hT.lt; omega
    · rw [hF.eq]; exact ⟨rfl, rfl, hF.good, hF.le⟩
  | succ n ih =>
    intro s acc hg hm
    rcases hst : step e s op with ⟨s', r, w⟩
    simp only [resume, hst]
    rcases step_sim e hv s hg op s' r w hst with ⟨rfl, hT⟩ | hF
    · simp only [if_true]
      obtain ⟨i1, i2, i3, i4⟩ := ih s' (acc ++ w) hT.good (by have := hT.lt; omega)
      have e1 := congrArg Prod.fst hT.eq
      have e2 := congrArg Prod.snd hT.eq
      simp only [addWp] at e1 e2
      refine ⟨i1.trans e1.symm, ?_, i3, by have := hT.lt; omega⟩
      rw [i2, e2, addW_append]
    · by_cases hr : r = .err .eof
      · subst hr
        simp only [if_true]
        rw [resume_fix e op s' (E_fix e hv s hg op s' w hst hF).2 n (acc ++ w), hF.eq]
        exact ⟨rfl, by simp [addW], hF.good, hF.le⟩
      · simp only [hr, if_false]
        rw [hF.eq]; exact ⟨rfl, rfl, hF.good, hF.le⟩

/-! ## runs -/

theorem init_goodE (e : Env) (hv : e.base.Valid) (rem0 : Nat) (hr : 1 ≤ rem0) (s : St) (h : init e rem0 = some s) :
    GoodE e s ∧ Png.Lazy.init e.base rem0 = some s.core := by
  unfold init at h
  cases hi : Png.Lazy.init e.base rem0 with
  | none => simp [hi] at h
  | some c =>
    simp only [hi, Option.map_some, Option.some.injEq] at h
    subst h
    obtain ⟨h1, h2⟩ := Png.Lazy.init_good e.base hv rem0 hr c hi
    exact ⟨⟨h1, by intro k hk; simp at hk, (Png.Lazy.Spec.init_sinv hr h2).sub_ok⟩, rfl⟩

/-- any sequence of attempts (repeated or not) keeps the invariant and never panics -/
theorem run_no_panic (e : Env) (hv : e.base.Valid) : ∀ (ops : List Op) (s : St), GoodE e s →
    GoodE e (run e s ops).1 ∧ ∀ r ∈ (run e s ops).2, ∀ site, r ≠ .panic site := by
  intro ops
  induction ops with
  | nil => intro s hg; exact ⟨hg, by simp [run]⟩
  | cons op ops ih =>
    intro s hg
    rcases hst : step e s op with ⟨s', r, w⟩
    have hg' : GoodE e s' ∧ ∀ site, r ≠ .panic site := by
      rcases step_sim e hv s hg op s' r w hst with ⟨rfl, hT⟩ | hF
      · exact ⟨hT.good, by intro site; simp⟩
      · refine ⟨hF.good, fun site hp => ?_⟩
        have := Png.Lazy.step_no_panic e.base hv s.core hg.good op site
        rw [hF.eq] at this
        exact this hp
    obtain ⟨i1, i2⟩ := ih s' hg'.1
    simp only [run, hst]
    refine ⟨i1, ?_⟩
    intro r' hr'
    simp only [List.mem_cons] at hr'
    rcases hr' with rfl | hr'
    · exact hg'.2
    · exact i2 r' hr'

/-- **the retrying caller sees the run on the input without markers** -/
theorem resumeRun_sim (e : Env) (hv : e.base.Valid) (n : Nat) : ∀ (ops : List Op) (s : St), GoodE e s →
    marks e s ≤ n →
    (resumeRun e n s ops).1.core = (Png.Lazy.run e.base s.core ops).1 ∧
    (resumeRun e n s ops).2 = (Png.Lazy.run e.base s.core ops).2 ∧
    GoodE e (resumeRun e n s ops).1 := by
  intro ops
  induction ops with
  | nil => intro s hg _; exact ⟨rfl, rfl, hg⟩
  | cons op ops ih =>
    intro s hg hm
    obtain ⟨r1, r2, r3, r4⟩ := resume_sim e hv op n s [] hg hm
    obtain ⟨i1, i2, i3⟩ := ih (resume e n s op []).1 r3 (by omega)
    simp only [resumeRun, Png.Lazy.run]
    rw [r1] at i1 i2
    refine ⟨i1, ?_, i3⟩
    rw [i2, r2]
    simp [addW_nil]

/-! ## an attempt that answers `UnexpectedEof` -/

theorem GoodE.sub_file {e : Env} {s : St} (h : GoodE e s) :
    s.core.sub = Png.Lazy.rowlensOf e.base.frames s.core.fi := by
  obtain ⟨f, h1, h2⟩ := h.subok
  simp [Png.Lazy.rowlensOf, h1, h2]

/-- **What an attempt that answers `UnexpectedEof` has done**: the invariant holds in the state it leaves; the
    rows it wrote are rows of the frame it stands in, covered by that frame's data; they are the first of the rows
    the uninterrupted call writes; and the same call on the state it leaves answers what the uninterrupted call
    answers (the written rows excepted) and ends in the same state. -/
theorem eof_attempt (e : Env) (hv : e.base.Valid) (s : St) (hg : GoodE e s) (op : Op) (s' : St) (w : List Nat)
    (h : step e s op = (s', .err .eof, w)) :
    GoodE e s' ∧
    (∀ i ∈ w, Png.Lazy.covers (Png.Lazy.rowlensOf e.base.frames s'.core.fi)
      (Png.Lazy.Spec.availOf e.base.frames s'.core.fi) i = true) ∧
    (∀ k w0, (Png.Lazy.step e.base s.core op).2 = .frame k w0 → ∃ rest, w0 = w ++ rest) ∧
    Png.Lazy.step e.base s.core op = addWp w (Png.Lazy.step e.base s'.core op) := by
  rcases step_sim e hv s hg op s' _ w h with ⟨_, hT⟩ | hF
  · refine ⟨hT.good, by rw [← hT.good.sub_file]; exact hT.cov, ?_, hT.eq⟩
    intro k w0 hk
    have e2 := congrArg Prod.snd hT.eq
    simp only [addWp] at e2
    rw [hk] at e2
    cases hr : (Png.Lazy.step e.base s'.core op).2 <;> rw [hr] at e2 <;> simp [addW] at e2
    exact ⟨_, e2.2⟩
  · obtain ⟨hw, _⟩ := E_fix e hv s hg op s' w h hF
    subst hw
    refine ⟨hF.good, by simp, ?_, ?_⟩
    · intro k w0 hk; rw [hF.eq] at hk; simp at hk
    · rw [addWp_nil, hF.eq, L_eof_idem e.base hv s.core s'.core hg.good op hF.eq]

/-! ## everything the retrying caller is answered -/

theorem trace_noEof (e : Env) (op : Op) : ∀ (n : Nat) (s : St) (acc : List Nat),
    noEof (resumeTrace e n s op acc) = noEof [(resume e n s op acc).2] := by
  intro n
  induction n with
  | zero => intro s acc; rfl
  | succ n ih =>
    intro s acc
    simp only [resumeTrace, resume]
    by_cases hr : (step e s op).2.1 = .err .eof
    · simp only [hr, if_true]
      rw [← ih]
      simp [noEof]
    · simp only [hr, if_false]

theorem traceRun_noEof (e : Env) (n : Nat) : ∀ (ops : List Op) (s : St),
    noEof (resumeTraceRun e n s ops) = noEof (resumeRun e n s ops).2 := by
  intro ops
  induction ops with
  | nil => intro s; rfl
  | cons op ops ih =>
    intro s
    simp only [resumeTraceRun, resumeRun]
    have := trace_noEof e op n s []
    have ih' := ih (resume e n s op []).1
    simp only [noEof, List.filter_append, List.filter_cons, List.filter_nil] at this ih' ⊢
    rw [this, ih']
    split <;> simp

theorem addW_no_panic (acc : List Nat) (r : Res) (h : ∀ site, r ≠ .panic site) : ∀ site, addW acc r ≠ .panic site := by
  intro site; cases r <;> simp_all [addW]

/-- an attempt keeps the invariant and does not panic -/
theorem step_ok (e : Env) (hv : e.base.Valid) (s : St) (hg : GoodE e s) (op : Op) :
    GoodE e (step e s op).1 ∧ ∀ site, (step e s op).2.1 ≠ .panic site := by
  rcases hst : step e s op with ⟨s', r, w⟩
  rcases step_sim e hv s hg op s' r w hst with ⟨rfl, hT⟩ | hF
  · exact ⟨hT.good, by intro site; simp⟩
  · refine ⟨hF.good, fun site hp => ?_⟩
    have := Png.Lazy.step_no_panic e.base hv s.core hg.good op site
    rw [hF.eq] at this
    exact this hp

/-- the retrying caller, whatever the number of repetitions it allows itself: no answer is a panic -/
theorem resume_no_panic (e : Env) (hv : e.base.Valid) (op : Op) : ∀ (n : Nat) (s : St) (acc : List Nat), GoodE e s →
    GoodE e (resume e n s op acc).1 ∧ ∀ r ∈ resumeTrace e n s op acc, ∀ site, r ≠ .panic site := by
  intro n
  induction n with
  | zero =>
    intro s acc hg
    obtain ⟨h1, h2⟩ := step_ok e hv s hg op
    refine ⟨h1, ?_⟩
    intro r hr
    simp only [resumeTrace, List.mem_singleton] at hr
    subst hr
    exact addW_no_panic _ _ h2
  | succ n ih =>
    intro s acc hg
    obtain ⟨h1, h2⟩ := step_ok e hv s hg op
    simp only [resume, resumeTrace]
    by_cases hr : (step e s op).2.1 = .err .eof
    · simp only [hr, if_true]
      obtain ⟨i1, i2⟩ := ih (step e s op).1 (acc ++ (step e s op).2.2) h1
      refine ⟨i1, ?_⟩
      intro r hr'
      simp only [List.mem_cons] at hr'
      rcases hr' with rfl | hr'
      · intro site; simp
      · exact i2 r hr'
    · simp only [hr, if_false]
      refine ⟨h1, ?_⟩
      intro r hr'
      simp only [List.mem_singleton] at hr'
      subst hr'
      exact addW_no_panic _ _ h2

theorem resumeTraceRun_no_panic (e : Env) (hv : e.base.Valid) (n : Nat) : ∀ (ops : List Op) (s : St), GoodE e s →
    ∀ r ∈ resumeTraceRun e n s ops, ∀ site, r ≠ .panic site := by
  intro ops
  induction ops with
  | nil => intro s _ r hr; simp [resumeTraceRun] at hr
  | cons op ops ih =>
    intro s hg r hr
    obtain ⟨h1, h2⟩ := resume_no_panic e hv op n s [] hg
    simp only [resumeTraceRun, List.mem_append] at hr
    rcases hr with hr | hr
    · exact h2 r hr
    · exact ih _ h1 r hr

end Png.LazyEof
