import PngVerif.Proofs.RoundTripAnimEnc
import PngVerif.Proofs.RoundTripStream
/-!
# C03 end to end for animations through ONE owned `StreamWriter`, encoder side

`Proofs/Encoder.lean` (`HeaderRel.sim`, `Completed`): a complete stream image leaves the `Writer` in exactly the state
`emitImage wpre ds ds` leaves it in, `wpre` being the `Writer` the frame header was written on and `ds` the cut of the
finished zlib stream into data chunks.  `Proofs/RoundTripStream.lean`: which rows went into that stream (`InsideD`,
`CompletedD`) and how long the chunks are (`Lens`).  Here these are carried through `new_frame`:

* `emitImage_first_cut` / `emitImage_later_cut`: `emitImage` on an animated `Writer` for ANY cut `ds` (the whole-image API
  cuts at `2^31 − 1` / `2^31 − 5` bytes: `Proofs/RoundTripAnimEnc.lean`; the chunk writer at its buffer size);
* `applySet` / `fcOfS`: the stream writer's own copy of the frame control under its setters (`SetOp`; refused calls are
  no-ops) — `setFc` of the model is `applySetter` of `Proofs/RoundTripAnimEnc.lean`;
* `begin_frame`: the first non-empty `write` between two images: `new_frame` installs the copy (with the `Writer`'s sequence
  number), writes the frame header, and the stream writer stands at the first byte of the frame (`InsideD … []`, `Lens`
  re-based behind the `fcTL`);
* `frame_done`: when the frame is complete the `Writer` is `(emitImage wpre ds ds).1`;
* `anim_stream_log`: the whole session.
-/
namespace Png.Enc
open Png Png.Val

/-! ## `emitImage` on an animated `Writer`, any cut -/

/-- **a frame after the first image, any cut `ds` of its zlib stream**: `fcTL` with the number `f.seq`, `fdAT` chunks with the
    following numbers -/
theorem emitImage_later_cut (c : Cfg) (n plays : Nat) (ha : c.actl = some (n, plays)) (hn : n < 2 ^ 32)
    (s : WState) (hs : AnimSt c s) (f : FC) (hf : s.fctl = some f)
    (hk : s.imagesWritten ≠ 0) (han : s.animWritten < n) (pi ds : List Bytes) (hseq : f.seq + 1 + ds.length < 2 ^ 32) :
    ∃ s', emitImage s pi ds = (s', .ok) ∧ AnimSt c s' ∧ s'.imagesWritten ≠ 0 ∧ s'.animWritten = s.animWritten + 1 ∧
      s'.fctl = (if n ≤ s.animWritten + 1 then none else some { f with seq := f.seq + 1 + ds.length }) ∧
      s'.sink.log = s.sink.log ++ (mkFctl f :: fdatList (f.seq + 1) ds).map fullEmit := by
  obtain ⟨e1, e2, e3, e4, e5, _, _, _⟩ := hs.static
  simp only [initState] at e5
  have hskip : skipFctlOnDefault s = false := by
    simp only [skipFctlOnDefault, Bool.and_eq_false_iff, beq_eq_false_iff_ne]; exact Or.inr hk
  obtain ⟨a1, a2⟩ := WState.emit_good_eq hs.good [mkFctl f]
  obtain ⟨l1, _⟩ := Sink.emitChunks_good_log [mkFctl f] hs.good
  generalize hk1 : (s.sink.emitChunks [mkFctl f]).1 = k1 at a1 a2 l1
  have hov : ¬ (s.animWritten + 1 ≥ 2 ^ 32) := by omega
  have hsq1 : (f.seq + 1) % 2 ^ 32 = f.seq + 1 := Nat.mod_eq_of_lt (by omega)
  obtain ⟨b1, b2⟩ := WState.emit_good_eq (s := { s with sink := k1, fctl := some { f with seq := f.seq + 1 }, animWritten := s.animWritten + 1 }) a2
    (fdatList (f.seq + 1) ds)
  obtain ⟨l2, _⟩ := Sink.emitChunks_good_log (fdatList (f.seq + 1) ds) a2
  generalize hk2 : (k1.emitChunks (fdatList (f.seq + 1) ds)).1 = k2 at b1 b2 l2
  have hsa : seqAfter (f.seq + 1) ds.length = f.seq + 1 + ds.length := by
    simp only [seqAfter]; exact Nat.mod_eq_of_lt (by omega)
  have himg : emitImage s pi ds =
      (incrementImagesWritten { s with sink := k2, fctl := some { f with seq := f.seq + 1 + ds.length }, animWritten := s.animWritten + 1 }, .ok) := by
    simp only [emitImage, hf, hskip, Bool.false_eq_true, if_false, emitFrame, a1, hov, hsq1, hk, emitFdatImage,
      fdatChunks_eq ds (f.seq + 1) (by omega), b1, hsa]
  generalize hs2 : ({ s with sink := k2, fctl := some { f with seq := f.seq + 1 + ds.length }, animWritten := s.animWritten + 1 } : WState) = s2 at himg
  obtain ⟨i1, i2, i3, i4, i5⟩ := incr_fields s2
  have hactl2 : s2.actl = some (n, plays) := by rw [← hs2]; show s.actl = _; rw [e5]; exact ha
  refine ⟨_, himg, ⟨StaticEq.trans (StaticEq.trans hs.static (by rw [← hs2]; exact ⟨rfl, rfl, rfl, rfl, rfl, rfl, rfl, rfl⟩)) i5,
    by rw [i1, ← hs2]; exact b2, by rw [i2, ← hs2]; exact hs.iend⟩, ?_, by rw [i3, ← hs2], ?_, ?_⟩
  · rw [i4]; exact min_succ_ne_zero _
  · rw [incr_fctl_some s2 n plays hactl2, ← hs2]
  · rw [i1, ← hs2]
    show k2.log = _
    rw [l2, l1]
    simp

/-- **the first image as the first frame, any cut**: `fcTL` with the number `f.seq`, `IDAT` chunks -/
theorem emitImage_first_cut (c : Cfg) (n plays : Nat) (ha : c.actl = some (n, plays)) (hsep : c.sepDefImg = false)
    (s : WState) (hs : AnimSt c s) (f : FC) (hf : s.fctl = some f)
    (hk : s.imagesWritten = 0) (han : s.animWritten = 0) (ds pf : List Bytes) (hseq : f.seq + 1 < 2 ^ 32) :
    ∃ s', emitImage s ds pf = (s', .ok) ∧ AnimSt c s' ∧ s'.imagesWritten ≠ 0 ∧ s'.animWritten = 1 ∧
      s'.fctl = (if n ≤ 1 then none else some { f with seq := f.seq + 1 }) ∧
      s'.sink.log = s.sink.log ++ (mkFctl f :: ds.map mkIdat).map fullEmit := by
  obtain ⟨e1, e2, e3, e4, e5, _, e7, _⟩ := hs.static
  simp only [initState] at e5 e7
  have hskip : skipFctlOnDefault s = false := by
    simp only [skipFctlOnDefault, e7, hsep, Bool.false_and]
  obtain ⟨l1, a2⟩ := Sink.emitChunks_good_log [mkFctl f] hs.good
  generalize hk1 : (s.sink.emitChunks [mkFctl f]).1 = k1 at a2 l1
  have hsq1 : (f.seq + 1) % 2 ^ 32 = f.seq + 1 := Nat.mod_eq_of_lt hseq
  obtain ⟨b1, b2⟩ := WState.emit_good_eq (s := { s with sink := k1, fctl := some { f with seq := f.seq + 1 }, animWritten := s.animWritten + 1 }) a2
    (ds.map mkIdat)
  obtain ⟨l2, _⟩ := Sink.emitChunks_good_log (ds.map mkIdat) a2
  generalize hk2 : (k1.emitChunks (ds.map mkIdat)).1 = k2 at b1 b2 l2
  have himg : emitImage s ds pf =
      (incrementImagesWritten { s with sink := k2, fctl := some { f with seq := f.seq + 1 }, animWritten := s.animWritten + 1 }, .ok) := by
    have he : emitImage s ds pf = emitFrame s f ds pf := by
      simp only [emitImage, hf, hskip, Bool.false_eq_true, if_false]
    rw [he, emitFrame_good s f _ _ hs.good (by rw [han]; decide), if_pos hk, hk1, hsq1]
    simp only [emitIdatImage, b1]
  generalize hs2 : ({ s with sink := k2, fctl := some { f with seq := f.seq + 1 }, animWritten := s.animWritten + 1 } : WState) = s2 at himg
  obtain ⟨i1, i2, i3, i4, i5⟩ := incr_fields s2
  have hactl2 : s2.actl = some (n, plays) := by rw [← hs2]; show s.actl = _; rw [e5]; exact ha
  refine ⟨_, himg, ⟨StaticEq.trans (StaticEq.trans hs.static (by rw [← hs2]; exact ⟨rfl, rfl, rfl, rfl, rfl, rfl, rfl, rfl⟩)) i5,
    by rw [i1, ← hs2]; exact b2, by rw [i2, ← hs2]; exact hs.iend⟩, ?_, by rw [i3, ← hs2]; show s.animWritten + 1 = 1; rw [han], ?_, ?_⟩
  · rw [i4]; exact min_succ_ne_zero _
  · rw [incr_fctl_some s2 n plays hactl2, ← hs2]
    show (if n ≤ s.animWritten + 1 then none else _) = _
    rw [han]
  · rw [i1, ← hs2]
    show k2.log = _
    rw [l2, l1]
    simp

/-! ## the stream writer's setters -/

def SetOp.toOp : SetOp → Op
  | .delay n d => .setDelay n d
  | .dim w h => .setDim w h
  | .pos x y => .setPos x y
  | .resetDim => .resetDim
  | .resetPos => .resetPos
  | .blend b => .setBlend b
  | .dispose d => .setDispose d

theorem SetOp.toOp_setter (o : SetOp) : o.toOp.isSetter = true := by cases o <;> rfl

theorem SetOp.toOp_inRange (o : SetOp) (h : o.inRange) : o.toOp.inRange := by
  cases o <;> simp only [SetOp.inRange] at h <;> simp only [SetOp.toOp, Op.inRange] <;> first | exact h | trivial

/-- the stream writer's copy of the frame control after the setter calls `pre` -/
def fcOfS (W H : Nat) (f : FC) (pre : List SetOp) : FC := fcOf W H f (pre.map SetOp.toOp)

/-- `setFc` of the model on a frame control inside the canvas is `applySetter`; no panic -/
theorem setFc_apply (W H : Nat) (f : FC) (hin : FcIn W H f) (o : SetOp) :
    (setFc W H (some f) o).1 = some (applySetter W H f o.toOp) ∧ (setFc W H (some f) o).2.isPanic = false := by
  obtain ⟨h1, h2, h3, h4⟩ := hin
  cases o with
  | delay n d => (constructor <;> first | rfl | trivial)
  | blend b => (constructor <;> first | rfl | trivial)
  | dispose d => (constructor <;> first | rfl | trivial)
  | resetPos => (constructor <;> first | rfl | trivial)
  | resetDim =>
    have : ¬ (W < f.x ∨ H < f.y) := by omega
    simp only [setFc, SetOp.toOp, applySetter, this, if_false]
    (constructor <;> first | rfl | trivial)
  | dim w hh =>
    simp only [setFc, SetOp.toOp, applySetter]
    cases hg : (gtCheckedSub w W f.x || gtCheckedSub hh H f.y) with
    | true => simp only [if_true]; (constructor <;> first | rfl | trivial)
    | false =>
      simp only [Bool.false_eq_true, if_false]
      by_cases hw : w = 0
      · simp only [hw, if_true]; (constructor <;> first | rfl | trivial)
      · simp only [hw, if_false]
        by_cases hh0 : hh = 0
        · simp only [hh0, if_true]; (constructor <;> first | rfl | trivial)
        · simp only [hh0, if_false]; (constructor <;> first | rfl | trivial)
  | pos x y =>
    simp only [setFc, SetOp.toOp, applySetter]
    cases hg : (gtCheckedSub x W f.w || gtCheckedSub y H f.h) with
    | true => simp only [if_true]; (constructor <;> first | rfl | trivial)
    | false => simp only [Bool.false_eq_true, if_false]; (constructor <;> first | rfl | trivial)

/-- no setter call panicked (and they are all setter calls) -/
def SetsOk (rs : List Res) : Prop := ∀ r ∈ rs, r.isPanic = false

/-- **the setter calls of a stream writer**: only its copy of the frame control changes, as `fcOfS` says -/
theorem sets_run (Z : ZCodec) : ∀ (pre : List SetOp) (s : SW) (g : FC), s.fctl = some g → FcIn s.width s.height g →
    ∃ rs, runSOps Z s (pre.map SOp.set) = ({ s with fctl := some (fcOfS s.width s.height g pre) }, rs) ∧ SetsOk rs ∧
      rs.length = pre.length := by
  intro pre
  induction pre with
  | nil =>
    intro s g hg _
    have hs : s = { s with fctl := some g } := by cases s; simp only at hg; subst hg; rfl
    exact ⟨[], by simp only [List.map_nil, runSOps, fcOfS, fcOf, List.foldl_nil]; rw [← hs], fun _ h => (by cases h), rfl⟩
  | cons o os ih =>
    intro s g hg hin
    obtain ⟨h1, h2⟩ := setFc_apply s.width s.height g hin o
    obtain ⟨rs, e1, e2, e3⟩ := ih { s with fctl := some (applySetter s.width s.height g o.toOp) } _ rfl (applySetter_in hin _)
    refine ⟨(setFc s.width s.height (some g) o).2 :: rs, ?_, ?_, by simp [e3]⟩
    · simp only [List.map_cons, runSOps, streamStep, hg]
      cases hr : (setFc s.width s.height (some g) o).2 with
      | panic p => rw [hr] at h2; cases h2
      | ok =>
        cases hsf : setFc s.width s.height (some g) o with
        | mk fc r =>
          rw [hsf] at h1 hr; simp only at h1 hr; subst h1 hr
          simp only
          rw [e1]; rfl
      | err e =>
        cases hsf : setFc s.width s.height (some g) o with
        | mk fc r =>
          rw [hsf] at h1 hr; simp only at h1 hr; subst h1 hr
          simp only
          rw [e1]; rfl
    · intro r hr
      rcases List.mem_cons.mp hr with rfl | hr
      · exact h2
      · exact e2 r hr

/-! ## the beginning and the end of a frame -/

/-- the stream writer at the first byte of an image (`IDAT` or `fdAT`), nothing received yet -/
theorem InsideD.init' {Z : ZCodec} {wH : WState} {fd : Bool} {fh : Nat} {s : SW} {cap : Nat} {kind : Ty}
    (hg : wH.sink.good) (hfdf : fd = true → ∃ f, wH.fctl = some f ∧ f.seq < 2 ^ 32) (hcap : 5 ≤ cap)
    (hkind : kind = if fd then tyFDAT else tyIDAT)
    (hwr : s.wr = .zlib { cw := ⟨wH, cap, [], kind⟩ }) (hL : 0 < s.lineLen) (hfh : 0 < fh)
    (htw : s.toWrite = s.lineLen * fh) (hidx : s.index = 0)
    (hprev : s.prevBuf = List.replicate s.lineLen 0) (hcur : s.curBuf.length = s.lineLen)
    (hrel : s.released = none) : InsideD Z wH fd fh s [] := by
  have hw : wH = { (if fd then bumpSeq wH 0 else wH) with sink := (wH.sink.emitChunks (dataChunks fd (seq0Of wH) [])).1 } := by
    have hd : dataChunks fd (seq0Of wH) [] = [] := by cases fd <;> simp [dataChunks, fdatChunks]
    rw [hd]
    cases fd with
    | false => simp [Sink.emitChunks]
    | true =>
      obtain ⟨f, hf, hlt⟩ := hfdf rfl
      have : bumpSeq wH 0 = wH := bumpSeq_zero (fun g hg' => by rw [hf] at hg'; cases hg'; exact hlt)
      simp [this, Sink.emitChunks]
  have hcwi : CWI wH fd ⟨wH, cap, [], kind⟩ [] :=
    ⟨⟨hcap, hkind, hfdf, hg, [], [], by simp, by simp, by simp, by simpa using hw⟩, by simp; omega⟩
  refine ⟨⟨{ cw := ⟨wH, cap, [], kind⟩ }, [], hwr, ⟨[], hcwi, rfl⟩, rfl, ?_, by simp, by simp [writtenOf, fedRows], by simp [hprev],
    by simp [hidx]⟩, hcur, hL, by omega, ?_, hrel⟩
  · simp [hidx, htw]
  · rw [htw]; exact Nat.mul_pos hL hfh

/-- the stream writer at the first byte of the frame `g` whose header was written on the `Writer` `wpre` -/
structure FrameStart (Z : ZCodec) (c : Cfg) (capx : Nat) (s1 : SW) (wpre wH : WState) (fd : Bool) (g : FC) : Prop where
  inside : InsideD Z wH fd g.h s1 []
  rel : HeaderRel wpre wH fd
  line : s1.lineLen = (c.sub g).rowLen
  bpp : s1.bpp = bytesPerPixel c.color c.depth
  lens : SW.LensOk wH.sink.chunks.length capx s1

theorem lens_fresh (wH : WState) (cap : Nat) (kind : Ty) (hg : wH.sink.good) (hcap : 5 ≤ cap) :
    Lens wH.sink.chunks.length cap ⟨wH, cap, [], kind⟩ :=
  ⟨rfl, by omega, Nat.zero_le _, hg, Nat.le_refl _, by simp⟩

/-- geometry of the next frame on an animated `Writer` whose frame control is `g` -/
theorem nextFrameInfo_anim (c : Cfg) (hdepth : depthOk c.depth = true) (w : WState) (hst : StaticEq (initState c {}) w) (g : FC)
    (hf : w.fctl = some g) (hin : FcIn c.width c.height g) (hsz : c.rowLen * c.height < 2 ^ 64) (cap : Nat) (buf : Bytes) (curr : Ty) :
    CW.nextFrameInfo ⟨w, cap, buf, curr⟩ = ((c.sub g).rowLen, (c.sub g).rowLen * g.h) := by
  obtain ⟨_, _, e3, e4, _⟩ := hst
  simp only [initState] at e3 e4
  have hd : nextDims w = (g.w, g.h) := by simp [nextDims, hf]
  have hil : inLenOf w g.w = (c.sub g).rowLen := by simp [inLenOf, Cfg.rowLen, Cfg.sub, e3, e4]
  have hle := sub_size_le hdepth hin
  have hlt : (c.sub g).rowLen * g.h < 2 ^ 64 := by omega
  simp only [CW.nextFrameInfo, hd, hil, hlt, if_true]

/-- **the first non-empty `write` between two images starts the next frame**: `new_frame` installs the stream writer's copy `g`
    of the frame control with the `Writer`'s sequence number, writes the `fcTL`, and the stream writer stands at the first byte
    of the frame -/
theorem begin_frame (Z : ZCodec) (c : Cfg) (hcolor : colorOk c.color = true) (hdepth : depthOk c.depth = true) (n plays : Nat)
    (ha : c.actl = some (n, plays)) (hn : n < 2 ^ 32) (hsz : c.rowLen * c.height < 2 ^ 64)
    (s : SW) (w : WState) (cap : Nat) (curr : Ty) (hwr : s.wr = .chunk ⟨w, cap, [], curr⟩) (hcap : 5 ≤ cap)
    (htw : s.toWrite = 0) (hrl : s.released = none) (hbpp : s.bpp = bytesPerPixel c.color c.depth)
    (g : FC) (hsf : s.fctl = some g) (hin : FcIn c.width c.height g)
    (hw : AnimSt c w) (fw : FC) (hwf : w.fctl = some fw) (hk : w.imagesWritten ≠ 0) (han : w.animWritten < n) :
    ∃ s1 wH, s.beginIfDone Z = (s1, .ok) ∧
      FrameStart Z c cap s1 { w with fctl := some { g with seq := fw.seq } } wH true g ∧
      s1.owned = s.owned ∧ s1.fctl = s.fctl ∧ s1.width = s.width ∧ s1.height = s.height ∧ 0 < s1.toWrite ∧
      (∃ z, s1.wr = .zlib z) := by
  obtain ⟨e1, e2, e3, e4, e5, _, _, _⟩ := hw.static
  simp only [initState] at e5
  have hv : validateNewImage w = none := by
    unfold validateNewImage
    cases w.validate <;> simp [e5, ha, hwf]
  generalize hwp : ({ w with fctl := some { g with seq := fw.seq } } : WState) = wpre
  have hset : CW.setFctlOpt ⟨w, cap, [], curr⟩ s.fctl = ⟨wpre, cap, [], curr⟩ := by
    rw [hsf, ← hwp]; simp only [CW.setFctlOpt, CW.setFctl, hwf]
  have hstp : StaticEq (initState c {}) wpre := by
    rw [← hwp]; exact StaticEq.trans hw.static ⟨rfl, rfl, rfl, rfl, rfl, rfl, rfl, rfl⟩
  have hpf : wpre.fctl = some { g with seq := fw.seq } := by rw [← hwp]
  have hgood : wpre.sink.good := by rw [← hwp]; exact hw.good
  have hinfo := nextFrameInfo_anim c hdepth wpre hstp { g with seq := fw.seq } hpf hin hsz cap [] curr
  have hsub : c.sub { g with seq := fw.seq } = c.sub g := rfl
  rw [hsub] at hinfo
  obtain ⟨wH, h1, h2, _, _, _⟩ := writeHeader_rel cap curr hgood
    (fun f _ => by rw [← hwp]; show w.animWritten + 1 < 2 ^ 32; omega)
  have hkind : chunkKind wpre = tyFDAT := by
    rw [← hwp]; simp [chunkKind, hk]
  have hfd : (chunkKind wpre == tyFDAT) = true := by rw [hkind]; rfl
  rw [hfd] at h2
  have hL : 0 < (c.sub g).rowLen := inLen_pos hcolor hdepth hin.1
  have hfl : (⟨w, cap, [], curr⟩ : CW).flushInner = (⟨w, cap, [], curr⟩, .ok) := by simp [CW.flushInner]
  refine ⟨{ s with wr := .zlib { cw := ⟨wH, cap, [], chunkKind wpre⟩ }, index := 0, lineLen := (c.sub g).rowLen, toWrite := (c.sub g).rowLen * g.h, prevBuf := List.replicate (c.sub g).rowLen 0, curBuf := (s.curBuf ++ List.replicate (c.sub g).rowLen 0).take (c.sub g).rowLen },
    wH, ?_, ?_, rfl, rfl, rfl, rfl, Nat.mul_pos hL hin.2.1, ⟨_, rfl⟩⟩
  · unfold SW.beginIfDone
    rw [if_pos htw]
    simp only [hwr, SW.endZlib, SW.newFrame, hfl, hv, hset, hinfo, h1]
  · refine ⟨?_, h2, rfl, hbpp, ?_⟩
    · exact InsideD.init' h2.good h2.fdf hcap (by rw [hkind]; rfl) rfl hL hin.2.1 rfl rfl rfl (by simp) hrl
    · exact lens_fresh wH cap _ h2.good hcap

/-- what the chunk writer made of the finished zlib stream of a frame of `fh` rows of `L` bytes: non-empty pieces `ds`; the
    compressor was handed exactly the rows of `data`, each filtered against the previous one (the first against a zero row) -/
def CutOf (Z : ZCodec) (bpp L fh : Nat) (data : Bytes) (ds : List Bytes) : Prop :=
  (∀ d ∈ ds, d ≠ []) ∧ ∃ (hist : List ZOp) (curs : List Bytes), ds.flatten = outs Z (hist ++ [ZOp.finish]) ∧
    hist.contains ZOp.finish = false ∧ writtenOf hist = (fedRows Z bpp (List.replicate L 0) curs).flatten ∧
    curs.length = fh ∧ (∀ r ∈ curs, r.length = L) ∧ curs.flatten = data

/-- **the end of a frame**: the chunk writer is empty and holds the `Writer` `emitImage wpre ds ds` leaves, `ds` being the cut
    of the frame's zlib stream into data chunks, none longer than the buffer -/
theorem frame_done {Z : ZCodec} {wpre wH : WState} {fd : Bool} {fh L bpp n0 capx : Nat} {s : SW} {data : Bytes}
    (h : CompletedD Z wH fd fh L bpp s data) (hrel : HeaderRel wpre wH fd) (hl : SW.LensOk n0 capx s)
    (hn0 : n0 = wH.sink.chunks.length) :
    ∃ curr ds, s.wr = .chunk ⟨(emitImage wpre ds ds).1, capx, [], curr⟩ ∧ (emitImage wpre ds ds).2 = .ok ∧
      CutOf Z bpp L fh data ds ∧ (∀ ch ∈ dataChunks fd (seq0Of wH) ds, ch.data.length ≤ capx) := by
  obtain ⟨cap, curr, ds, hist, curs, _, hwr, hz1, hz2, hnf, hcl, hcc, hwo, hfl⟩ := h.st
  have hsim := hrel.sim ds
  have hL1 : Lens n0 capx ⟨incrementImagesWritten { (if fd then bumpSeq wH ds.length else wH) with
      sink := (wH.sink.emitChunks (dataChunks fd (seq0Of wH) ds)).1 }, cap, [], curr⟩ := by
    unfold SW.LensOk at hl; rw [hwr] at hl; exact hl
  have hcap : cap = capx := hL1.capEq
  subst hcap
  refine ⟨curr, ds, by rw [hsim]; exact hwr, by rw [hsim], ⟨hz1, hist, curs, hz2, hnf, hwo, hcl, hcc, hfl⟩, ?_⟩
  intro ch hch
  have hchunks : (incrementImagesWritten { (if fd then bumpSeq wH ds.length else wH) with
      sink := (wH.sink.emitChunks (dataChunks fd (seq0Of wH) ds)).1 }).sink.chunks =
      wH.sink.chunks ++ dataChunks fd (seq0Of wH) ds := by
    rw [incrementImagesWritten_sink]
    exact (Sink.emitChunks_good _ hrel.good).2.2.1
  apply hL1.lens ch
  show ch ∈ (incrementImagesWritten _).sink.chunks.drop n0
  rw [hchunks, hn0, List.drop_left]
  exact hch

/-! ## what no `write` touches -/

/-- the fields of a stream writer no `write` touches -/
def Keep (s s' : SW) : Prop := s'.fctl = s.fctl ∧ s'.width = s.width ∧ s'.height = s.height ∧ s'.bpp = s.bpp

theorem Keep.refl (s : SW) : Keep s s := ⟨rfl, rfl, rfl, rfl⟩
theorem Keep.trans {a b c : SW} (h1 : Keep a b) (h2 : Keep b c) : Keep a c :=
  ⟨h2.1.trans h1.1, h2.2.1.trans h1.2.1, h2.2.2.1.trans h1.2.2.1, h2.2.2.2.trans h1.2.2.2⟩

theorem endZlib_keep (Z : ZCodec) (s : SW) : Keep s (s.endZlib Z).1 := by
  unfold SW.endZlib
  repeat' split
  all_goals exact ⟨rfl, rfl, rfl, rfl⟩

theorem newFrame_keep (s : SW) : Keep s s.newFrame.1 := by
  unfold SW.newFrame
  repeat' split
  all_goals try simp only
  all_goals repeat' split
  all_goals exact ⟨rfl, rfl, rfl, rfl⟩

theorem finishImage_keep (Z : ZCodec) (s : SW) : Keep s (s.finishImage Z).1 := by
  have h1 := endZlib_keep Z s
  unfold SW.finishImage
  cases he : s.endZlib Z with
  | mk s1 r =>
    rw [he] at h1
    cases r with
    | ok =>
      simp only
      repeat' split
      all_goals first | exact h1 | exact Keep.trans h1 ⟨rfl, rfl, rfl, rfl⟩
    | err e => exact h1
    | panic p => exact h1

theorem beginIfDone_keep (Z : ZCodec) (s : SW) : Keep s (s.beginIfDone Z).1 := by
  unfold SW.beginIfDone
  split
  · split
    · exact Keep.refl s
    · exact Keep.refl s
    · have h1 := endZlib_keep Z s
      cases he : s.endZlib Z with
      | mk s1 r =>
        rw [he] at h1
        cases r with
        | ok => exact Keep.trans h1 (newFrame_keep s1)
        | err e => exact h1
        | panic p => exact h1
  · exact Keep.refl s

theorem rowDone_keep (Z : ZCodec) (s : SW) : Keep s (s.rowDone Z).1 := by
  unfold SW.rowDone
  split
  · simp only
    repeat' split
    all_goals first
      | exact ⟨rfl, rfl, rfl, rfl⟩
      | exact Keep.trans ⟨rfl, rfl, rfl, rfl⟩ (finishImage_keep Z _)
  · exact Keep.refl s

theorem write_keep (Z : ZCodec) (s : SW) (d : Bytes) : Keep s (s.write Z d).1 := by
  unfold SW.write
  split
  · exact Keep.refl s
  · split
    · exact Keep.refl s
    · have h1 := beginIfDone_keep Z s
      cases hb : s.beginIfDone Z with
      | mk s1 r =>
        rw [hb] at h1
        cases r with
        | err e => exact h1
        | panic p => exact h1
        | ok =>
          simp only
          split
          · exact h1
          · split
            · exact h1
            · split
              · have h2 := rowDone_keep Z { s1 with curBuf := overwrite s1.curBuf s1.index (d.take (min d.length (s1.lineLen - s1.index))), index := s1.index + min d.length (s1.lineLen - s1.index), toWrite := s1.toWrite - min d.length (s1.lineLen - s1.index) }
                cases hr : SW.rowDone Z { s1 with curBuf := overwrite s1.curBuf s1.index (d.take (min d.length (s1.lineLen - s1.index))), index := s1.index + min d.length (s1.lineLen - s1.index), toWrite := s1.toWrite - min d.length (s1.lineLen - s1.index) } with
                | mk s2 r2 =>
                  rw [hr] at h2
                  cases r2 <;> exact Keep.trans h1 (Keep.trans ⟨rfl, rfl, rfl, rfl⟩ h2)
              · exact Keep.trans h1 ⟨rfl, rfl, rfl, rfl⟩

theorem writeAllAux_keep (Z : ZCodec) : ∀ (fuel : Nat) (s : SW) (d : Bytes), Keep s (SW.writeAllAux Z fuel s d).1 := by
  intro fuel
  induction fuel with
  | zero => intro s d; exact Keep.refl s
  | succ k ih =>
    intro s d
    simp only [SW.writeAllAux]
    split
    · exact Keep.refl s
    · have h1 := write_keep Z s d
      cases hw : s.write Z d with
      | mk s1 r =>
        rw [hw] at h1
        cases r with
        | ok n =>
          simp only
          split
          · exact h1
          · exact Keep.trans h1 (ih _ _)
        | err e => exact h1
        | panic p => exact h1

theorem runWrites_keep (Z : ZCodec) : ∀ (ds : List Bytes) (s : SW), Keep s (runSOps Z s (ds.map SOp.write)).1 := by
  intro ds
  induction ds with
  | nil => intro s; exact Keep.refl s
  | cons d ds ih =>
    intro s
    simp only [List.map_cons, runSOps, streamStep]
    have h1 : Keep s (s.writeAll Z d).1 := writeAllAux_keep Z _ s d
    cases hw : s.writeAll Z d with
    | mk s1 r =>
      rw [hw] at h1
      cases r with
      | panic p => exact h1
      | ok => exact Keep.trans h1 (ih s1)
      | err e => exact Keep.trans h1 (ih s1)

/-! ## one frame -/

/-- **the `write_all` calls of one frame** (any partition `pieces` of its data), from the first byte of the frame: every call
    returns `Ok`; then the frame is complete and the chunk writer holds the `Writer` `emitImage wpre ds ds` leaves -/
theorem frame_writes (Z : ZCodec) (c : Cfg) (capx : Nat) (s1 : SW) (wpre wH : WState) (fd : Bool) (g : FC)
    (hfs : FrameStart Z c capx s1 wpre wH fd g) (pieces : List Bytes) (data : Bytes) (hflat : pieces.flatten = data)
    (hlen : data.length = (c.sub g).rowLen * g.h) :
    ∃ s2 curr ds, runSOps Z s1 (pieces.map SOp.write) = (s2, pieces.map fun _ => Res.ok) ∧
      s2.wr = .chunk ⟨(emitImage wpre ds ds).1, capx, [], curr⟩ ∧ (emitImage wpre ds ds).2 = .ok ∧
      CutOf Z (bytesPerPixel c.color c.depth) (c.sub g).rowLen g.h data ds ∧
      (∀ ch ∈ dataChunks fd (seq0Of wH) ds, ch.data.length ≤ capx) ∧
      s2.toWrite = 0 ∧ s2.index = 0 ∧ s2.released = none ∧ s2.owned = s1.owned ∧ Keep s1 s2 := by
  obtain ⟨s2, hrun, hat, ho, hlk⟩ := AtD.runWrites (Z := Z) pieces s1 [] (Or.inl ⟨hfs.inside, hfs.line, hfs.bpp⟩) hfs.lens
    (by rw [hflat, hlen]; simp)
  rw [List.nil_append, hflat] at hat
  have hco : CompletedD Z wH fd g.h (c.sub g).rowLen (bytesPerPixel c.color c.depth) s2 data := by
    rcases hat with ⟨hin, hL, _⟩ | hco
    · exfalso
      have := hin.room
      have := hin.tw
      rw [hL] at *
      omega
    · exact hco
  obtain ⟨curr, ds, h1, h2, h3, h4⟩ := frame_done hco hfs.rel hlk rfl
  have hk := runWrites_keep Z pieces s1
  rw [hrun] at hk
  exact ⟨s2, curr, ds, hrun, h1, h2, h3, h4, hco.tw, hco.idx, hco.released, ho, hk⟩

/-- the stream writer does not see its frame control: changing the copy keeps the frame start -/
theorem FrameStart.setFctl {Z : ZCodec} {c : Cfg} {capx : Nat} {s1 : SW} {wpre wH : WState} {fd : Bool} {g : FC}
    (h : FrameStart Z c capx s1 wpre wH fd g) (fc : Option FC) : FrameStart Z c capx { s1 with fctl := fc } wpre wH fd g :=
  ⟨⟨h.inside.st, h.inside.cur, h.inside.pos, h.inside.idx, h.inside.tw, h.inside.released⟩, h.rel, h.line, h.bpp, h.lens⟩

/-- `StreamWriter::new` on the `Writer` right after `write_header` of an animated configuration whose frame control covers the
    canvas: the `fcTL` of the first frame is written — unless the first image is a separate default image (`HeaderRel` covers
    both) —, the stream writer stands at the first byte of the `IDAT` image -/
theorem SW.new_anim (Z : ZCodec) (c : Cfg) (n plays : Nat) (f0 : FC) (hc : c.Anim n plays f0)
    (hcov : f0.x = 0 ∧ f0.y = 0 ∧ f0.w = c.width ∧ f0.h = c.height)
    (w : WState) (hw : AnimSt c w) (hi : w.imagesWritten = 0) (han : w.animWritten = 0) (hf : w.fctl = some f0)
    (hsz : c.rowLen * c.height < 2 ^ 64) (owned : Bool) (size : Nat) :
    ∃ s0 wH, SW.new w owned size = (.inl s0, .ok) ∧
      FrameStart Z c (max (min chunkCap size) streamMinBuffer) s0 w wH false f0 ∧
      s0.owned = owned ∧ s0.fctl = some f0 ∧ s0.width = c.width ∧ s0.height = c.height := by
  obtain ⟨e1, e2, e3, e4, e5, e6, _, _⟩ := hw.static
  simp only [initState] at e1 e2 e3 e4 e5 e6
  have hpal : ¬ (w.color = 3 ∧ w.hasPalette = false) := by
    intro ⟨h1, h2⟩
    have := hc.pal (by rw [← e3]; exact h1)
    rw [← e6, h2] at this; cases this
  have hv : validateNewImage w = none := by
    unfold validateNewImage
    cases w.validate <;> simp [e5, hc.actl, hf]
  have hr : validateFirstImageRect w = none := by
    simp [validateFirstImageRect, hf, hi, hcov.1, hcov.2.1, hcov.2.2.1, hcov.2.2.2, e1, e2]
  have hck : streamChecks w = none := by simp only [streamChecks, if_neg hpal, hv, hr]
  have hkind : chunkKind w = tyIDAT := by simp [chunkKind, hi]
  have hinfo := fun cap buf curr => nextFrameInfo_anim c hc.depth w hw.static f0 hf hc.rect hsz cap buf curr
  obtain ⟨wH, h1, h2, _, _, _⟩ := writeHeader_rel (max (min chunkCap size) streamMinBuffer) (chunkKind w) hw.good
    (fun f _ => by rw [han]; decide)
  have hfd : (chunkKind w == tyFDAT) = false := by rw [hkind]; decide
  rw [hfd] at h2
  have hL : 0 < (c.sub f0).rowLen := inLen_pos hc.color hc.depth hc.rect.1
  unfold SW.new
  simp only [hck, CW.new, hinfo, h1]
  refine ⟨_, wH, rfl, ⟨?_, h2, rfl, by show bytesPerPixel w.color w.depth = _; rw [e3, e4], ?_⟩, rfl, hf, e1, e2⟩
  · exact InsideD.init' h2.good h2.fdf (Nat.le_max_right _ _) (by rw [hkind]; rfl) rfl hL hc.rect.2.1 rfl rfl rfl (by simp) rfl
  · exact lens_fresh wH _ _ h2.good (Nat.le_max_right _ _)

/-! ## sequences of calls -/

theorem runSOps_append (Z : ZCodec) : ∀ (a b : List SOp) (s s1 : SW) (r1 : List Res), runSOps Z s a = (s1, r1) →
    anyPanic r1 = false → runSOps Z s (a ++ b) = ((runSOps Z s1 b).1, r1 ++ (runSOps Z s1 b).2) := by
  intro a
  induction a with
  | nil => intro b s s1 r1 h _; simp only [runSOps, Prod.mk.injEq] at h; obtain ⟨rfl, rfl⟩ := h; rfl
  | cons o os ih =>
    intro b s s1 r1 h hp
    simp only [List.cons_append, runSOps] at h ⊢
    cases hstep : streamStep Z s o with
    | mk s' r =>
      rw [hstep] at h
      cases r with
      | panic p =>
        simp only [Prod.mk.injEq] at h
        obtain ⟨_, rfl⟩ := h
        simp [anyPanic, Res.isPanic] at hp
      | ok =>
        simp only at h ⊢
        cases hrest : runSOps Z s' os with
        | mk s'' rs =>
          rw [hrest] at h
          simp only [Prod.mk.injEq] at h
          obtain ⟨rfl, rfl⟩ := h
          have hp' : anyPanic rs = false := by simpa [anyPanic, Res.isPanic] using hp
          rw [ih b s' s'' rs hrest hp']
          rfl
      | err e =>
        simp only at h ⊢
        cases hrest : runSOps Z s' os with
        | mk s'' rs =>
          rw [hrest] at h
          simp only [Prod.mk.injEq] at h
          obtain ⟨rfl, rfl⟩ := h
          have hp' : anyPanic rs = false := by simpa [anyPanic, Res.isPanic] using hp
          rw [ih b s' s'' rs hrest hp']
          rfl

/-- between two images, the `write_all` calls of the next frame act as if issued on the stream writer `new_frame` leaves: empty
    calls do nothing, the first non-empty one starts the frame -/
theorem writes_via_begin (Z : ZCodec) (s s1 : SW) (hu : s.wr ≠ .unrecoverable) (hb : s.beginIfDone Z = (s1, .ok))
    (htw : s1.toWrite ≠ 0) (hu1 : s1.wr ≠ .unrecoverable) :
    ∀ pieces : List Bytes, pieces.flatten ≠ [] →
      runSOps Z s (pieces.map SOp.write) = runSOps Z s1 (pieces.map SOp.write) := by
  intro pieces
  induction pieces with
  | nil => intro h; exact absurd rfl h
  | cons d ds ih =>
    intro hne
    by_cases hd : d = []
    · subst hd
      simp only [List.map_cons, runSOps, streamStep, writeAll_nil]
      rw [ih (by simpa using hne)]
    · have hw : s.writeAll Z d = s1.writeAll Z d := by
        simp only [SW.writeAll, SW.writeAllAux, if_neg hd, write_via_begin hu hd hb htw hu1]
      simp only [List.map_cons, runSOps, streamStep, hw]

end Png.Enc
