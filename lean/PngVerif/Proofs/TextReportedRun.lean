import PngVerif.Proofs.TextReported
import PngVerif.Proofs.TrnsShape
import PngVerif.Proofs.ComposeAncBig
/-!
# C16/C20 glue, part 2: the text vectors of `Info` list the text chunks of the stream, in stream order

`Model/Framing` keeps ONE list `Info.text` (records in the order of arrival); `png::Info` has three vectors
(`uncompressed_latin1_text`, `compressed_latin1_text`, `utf8_text`), each pushed to by one parser.  Here:

* `reported`, `uncompressedLatin1Text`, `compressedLatin1Text`, `utf8Text` — the three vectors as the crate builds them
  (`reportedText` of every stored record, sorted by kind, order kept);
* `PTxt` / `dispatch_text_keep` — every chunk parser other than the three text parsers leaves `Info.text` alone;
* `parseChunk_reported` — one accepted chunk appends exactly `chunkReported` (the text model's parse of the chunk body:
  one entry for a tEXt / zTXt / iTXt chunk, nothing for any other chunk or under `ignore_text_chunk`);
* `ancChunks_reported`, `ancChunksG_reported` — a sequence of accepted chunks appends `streamReported`, the entries of the
  text chunks of the sequence in the order of the sequence; `streamReported_kinds` writes its three sub-lists with the
  text model's parsers;
* `tEXt_chunk_tie`, `zTXt_chunk_tie`, `iTXt_chunk_tie` — one text chunk through `parse_chunk`, any body: accepted with the
  text model's value appended, or refused (fatally) with the text model's error;
* `ancStep_text`, `ancChunks_of_text` — text chunks the text model accepts are accepted by the stream decoder (within
  `Limits` and the chunk buffer);
* `TextInv`, `update_textInv` — every stored record is one the crate's `decode` accepts: an invariant of `update`.
-/
namespace Png.C16
open Png Png.Framing

/-! ## the three vectors -/

def ReportOut.toOption : ReportOut → Option Reported
  | .ok r => some r
  | _ => none

/-- the entries `Info` reports for a list of stored records -/
def reportedList (l : List TextChunk) : List Reported := l.filterMap fun r => (reportedText r).toOption

/-- all text entries of `Info`, in the order in which the chunks were parsed -/
def reported (i : Info) : List Reported := reportedList i.text

def Reported.tEXt? : Reported → Option TEXt
  | .tEXt c => some c
  | _ => none
def Reported.zTXt? : Reported → Option ZTXt
  | .zTXt c => some c
  | _ => none
def Reported.iTXt? : Reported → Option ITXt
  | .iTXt c => some c
  | _ => none

/-- `Info::uncompressed_latin1_text` -/
def uncompressedLatin1Text (i : Info) : List TEXt := (reported i).filterMap Reported.tEXt?
/-- `Info::compressed_latin1_text` -/
def compressedLatin1Text (i : Info) : List ZTXt := (reported i).filterMap Reported.zTXt?
/-- `Info::utf8_text` -/
def utf8Text (i : Info) : List ITXt := (reported i).filterMap Reported.iTXt?

theorem reportedList_append (a b : List TextChunk) : reportedList (a ++ b) = reportedList a ++ reportedList b := by
  unfold reportedList; rw [List.filterMap_append]

def ITXtOut.toOption : ITXtOut → Option ITXt
  | .ok c => some c
  | _ => none

/-- what one chunk `(t, body)` contributes to the text entries of `Info`: the text model's parse of the body of a
    tEXt / zTXt / iTXt chunk (nothing under `ignore_text_chunk`, nothing for other chunk types) -/
def chunkReported (ignoreText : Bool) (t : ChunkType) (body : Bytes) : List Reported :=
  if ignoreText then []
  else if t = tEXt then ((Png.parseTEXt body).toOption.map Reported.tEXt).toList
  else if t = zTXt then ((Png.parseZTXt body).toOption.map Reported.zTXt).toList
  else if t = iTXt then ((ITXtOut.toOption (Png.parseITXt body)).map Reported.iTXt).toList
  else []

/-- the text entries of a chunk sequence, in the order of the sequence -/
def streamReported (ignoreText : Bool) (cs : List (ChunkType × Bytes)) : List Reported :=
  cs.flatMap fun c => chunkReported ignoreText c.1 c.2

theorem streamReported_cons (ig : Bool) (c : ChunkType × Bytes) (cs : List (ChunkType × Bytes)) :
    streamReported ig (c :: cs) = chunkReported ig c.1 c.2 ++ streamReported ig cs := by
  simp [streamReported]

theorem streamReported_append (ig : Bool) (a b : List (ChunkType × Bytes)) :
    streamReported ig (a ++ b) = streamReported ig a ++ streamReported ig b := by
  simp [streamReported]

/-! ## every other parser leaves `Info.text` alone -/

/-- a parser that leaves the stored text records alone -/
def PTxt (d : Dec) (r : PRes) : Prop := ∀ d' ev, r = .ok (d', ev) → d'.info.map (·.text) = d.info.map (·.text)

local macro "parser_txt" h:ident : tactic => `(tactic| (
  simp only [bind, Except.bind, eofOr, pure, Except.pure, throw, throwThe, MonadExceptOf.throw, withInfo] at $h:ident
  repeat' split at $h:ident
  all_goals first
    | (cases $h:ident; done)
    | (cases $h:ident
       try (have hr := reserve_eq_limit (by assumption); subst hr)
       simp_all [setInfo, Option.map_map, Function.comp_def])))

theorem parseActl_txt (d : Dec) : PTxt d (parseActl d) := by
  intro d' ev h; unfold parseActl at h; parser_txt h
theorem parsePlte_txt (d : Dec) : PTxt d (parsePlte d) := by
  intro d' ev h; unfold parsePlte at h; parser_txt h
theorem parseSbit_txt (d : Dec) : PTxt d (parseSbit d) := by
  intro d' ev h; unfold parseSbit at h; parser_txt h
theorem parseTrns_txt (d : Dec) : PTxt d (parseTrns d) := by
  intro d' ev h; unfold parseTrns at h; parser_txt h
theorem parsePhys_txt (d : Dec) : PTxt d (parsePhys d) := by
  intro d' ev h; unfold parsePhys at h; parser_txt h
theorem parseChrm_txt (d : Dec) : PTxt d (parseChrm d) := by
  intro d' ev h; unfold parseChrm at h; parser_txt h
theorem parseGama_txt (d : Dec) : PTxt d (parseGama d) := by
  intro d' ev h; unfold parseGama at h; parser_txt h
theorem parseSrgb_txt (d : Dec) : PTxt d (parseSrgb d) := by
  intro d' ev h; unfold parseSrgb at h; parser_txt h
theorem parseCicp_txt (d : Dec) : PTxt d (parseCicp d) := by
  intro d' ev h; unfold parseCicp at h; parser_txt h
theorem parseMdcv_txt (d : Dec) : PTxt d (parseMdcv d) := by
  intro d' ev h; unfold parseMdcv at h; parser_txt h
theorem parseClli_txt (d : Dec) : PTxt d (parseClli d) := by
  intro d' ev h; unfold parseClli at h; parser_txt h
theorem parseExif_txt (d : Dec) : PTxt d (parseExif d) := by
  intro d' ev h; unfold parseExif at h; parser_txt h
theorem parseBkgd_txt (d : Dec) : PTxt d (parseBkgd d) := by
  intro d' ev h; unfold parseBkgd at h; parser_txt h

theorem parseIccpRaw_txt {cfg : Cfg} {d d' : Dec} (h : parseIccpRaw cfg d = .ok d') :
    d'.info.map (·.text) = d.info.map (·.text) := by
  unfold parseIccpRaw at h
  simp only [bind, Except.bind, eofOr, pure, Except.pure, throw, throwThe, MonadExceptOf.throw] at h
  repeat' split at h
  all_goals first
    | (cases h; done)
    | (cases h
       have hr := reserve_eq_limit (by assumption); subst hr
       simp only [setInfo, Option.map_map]; rfl)

theorem parseIccp_txt (cfg : Cfg) (d : Dec) : PTxt d (parseIccp cfg d) := by
  intro d' ev h
  unfold parseIccp at h
  simp only at h
  repeat' split at h
  all_goals first
    | (cases h; done)
    | (cases h; rfl)
    | (cases h; have hk := parseIccpRaw_txt (by assumption); exact hk)

theorem parseFctl_txt (d : Dec) : PTxt d (parseFctl d) := by
  intro d' ev h
  obtain ⟨i, fc, hi, _, hi', _⟩ := parseFctl_spec h
  rw [hi, hi']; rfl

local macro "dcase" h:ident c:term "," l:term : tactic =>
  `(tactic| (by_cases hc : $c; (· rw [if_pos hc] at $h:ident; exact $l); rw [if_neg hc] at $h:ident))

/-- is `(t, opts)` handled by one of the three text parsers? -/
def IsTextArm (d : Dec) (t : ChunkType) : Prop := (t = tEXt ∨ t = zTXt ∨ t = iTXt) ∧ d.opts.ignoreText = false

/-- **every arm of `parse_chunk` other than the three text parsers leaves the text records alone** (`IHDR` is not
    accepted twice, so it does not occur once `info` is there) -/
theorem dispatch_text_keep {cfg : Cfg} {d d' : Dec} {t : ChunkType} {ev : Ev} (h : dispatch cfg d t = .ok (d', ev))
    (hs : d.info.isSome = true) (hn : ¬ IsTextArm d t) : d'.info.map (·.text) = d.info.map (·.text) := by
  have key : ∀ {r : PRes}, PTxt d r → r = .ok (d', ev) → d'.info.map (·.text) = d.info.map (·.text) := fun hp hr => hp _ _ hr
  have arm : ∀ {x : ChunkType}, (x = tEXt ∨ x = zTXt ∨ x = iTXt) → ¬ (t = x ∧ (!d.opts.ignoreText) = true) := by
    intro x hx ⟨h1, h2⟩
    exact hn ⟨h1 ▸ hx, by simpa using h2⟩
  unfold dispatch at h
  by_cases h0 : t = IHDR
  · rw [if_pos h0] at h
    have := (parseIhdr_spec h).1
    rw [this] at hs; cases hs
  rw [if_neg h0] at h
  dcase h (t = sBIT), key (parseSbit_txt _) h
  dcase h (t = PLTE), key (parsePlte_txt _) h
  dcase h (t = tRNS), key (parseTrns_txt _) h
  dcase h (t = pHYs), key (parsePhys_txt _) h
  dcase h (t = gAMA), key (parseGama_txt _) h
  dcase h (t = acTL), key (parseActl_txt _) h
  dcase h (t = fcTL), key (parseFctl_txt _) h
  dcase h (t = cHRM), key (parseChrm_txt _) h
  dcase h (t = sRGB), key (parseSrgb_txt _) h
  dcase h (t = cICP), key (parseCicp_txt _) h
  dcase h (t = mDCV), key (parseMdcv_txt _) h
  dcase h (t = cLLI), key (parseClli_txt _) h
  dcase h (t = eXIf), key (parseExif_txt _) h
  dcase h (t = bKGD), key (parseBkgd_txt _) h
  dcase h (t = iCCP ∧ (!d.opts.ignoreIccp) = true), key (parseIccp_txt _ _) h
  rw [if_neg (arm (Or.inl rfl)), if_neg (arm (Or.inr (Or.inl rfl))), if_neg (arm (Or.inr (Or.inr rfl)))] at h
  cases h; rfl

/-! ## the three text parsers append exactly the text model's chunk -/

theorem parse_limits (cfg : Cfg) (d : Dec) (h : ¬ d.raw.length ≤ d.limit) :
    parseText d = .error .limits ∧ parseZtxt d = .error .limits ∧ parseItxt cfg d = .error .limits := by
  have hr : reserve d d.raw.length = .error .limits := by unfold reserve; rw [if_neg (by omega)]
  refine ⟨?_, ?_, ?_⟩
  · unfold parseText; rw [hr]; rfl
  · unfold parseZtxt; rw [hr]; rfl
  · unfold parseItxt; rw [hr]; rfl

theorem addText_info (d : Dec) (i : Info) (hi : d.info = some i) (r : TextChunk) :
    (addText (charged d) r).info = some { i with text := i.text ++ [r] } := by
  show (d.info.map _) = _
  rw [hi]; rfl

theorem reportedList_single {r : TextChunk} {x : Reported} (h : reportedText r = .ok x) : reportedList [r] = [x] := by
  simp [reportedList, h, ReportOut.toOption]

/-- the three text arms: an accepted chunk appends one record, reported as the text model's parse of the body -/
theorem text_arm_reported (cfg : Cfg) (hu : ∀ b, cfg.utf8Ok b = (utf8Decode b).isSome) {d d' : Dec} {t : ChunkType} {ev : Ev}
    (i : Info) (hi : d.info = some i) (ht : IsTextArm d t) (h : dispatch cfg d t = .ok (d', ev)) :
    ∃ rec x, d'.info = some { i with text := i.text ++ [rec] } ∧ reportedText rec = .ok x ∧
      chunkReported d.opts.ignoreText t d.raw = [x] := by
  obtain ⟨ht, ho⟩ := ht
  by_cases hlim : d.raw.length ≤ d.limit
  · rcases ht with rfl | rfl | rfl
    · rw [dispatch_tEXt cfg d ho] at h
      have := parseText_tie d i hi hlim
      cases hp : Png.parseTEXt d.raw with
      | error e => rw [hp] at this; rw [this] at h; cases h
      | ok c =>
        rw [hp] at this
        obtain ⟨rec, h1, h2⟩ := this
        rw [h1] at h; cases h
        exact ⟨rec, _, addText_info d i hi rec, h2, by simp [chunkReported, ho, hp, Except.toOption]⟩
    · rw [dispatch_zTXt cfg d ho] at h
      have := parseZtxt_tie d i hi hlim
      cases hp : Png.parseZTXt d.raw with
      | error e => rw [hp] at this; rw [this] at h; cases h
      | ok c =>
        rw [hp] at this
        obtain ⟨rec, h1, h2⟩ := this
        rw [h1] at h; cases h
        refine ⟨rec, _, addText_info d i hi rec, h2, ?_⟩
        have : zTXt ≠ tEXt := by decide
        simp [chunkReported, ho, hp, Except.toOption, this]
    · rw [dispatch_iTXt cfg d ho] at h
      have := parseItxt_tie cfg hu d i hi hlim
      cases hp : Png.parseITXt d.raw with
      | err e => rw [hp] at this; rw [this] at h; cases h
      | panic => rw [hp] at this; exact this.elim
      | ok c =>
        rw [hp] at this
        obtain ⟨rec, h1, h2⟩ := this
        rw [h1] at h; cases h
        refine ⟨rec, _, addText_info d i hi rec, h2, ?_⟩
        have h1 : iTXt ≠ tEXt := by decide
        have h2 : iTXt ≠ zTXt := by decide
        simp [chunkReported, ho, hp, ITXtOut.toOption, h1, h2]
  · obtain ⟨l1, l2, l3⟩ := parse_limits cfg d hlim
    rcases ht with rfl | rfl | rfl
    · rw [dispatch_tEXt cfg d ho, l1] at h; cases h
    · rw [dispatch_zTXt cfg d ho, l2] at h; cases h
    · rw [dispatch_iTXt cfg d ho, l3] at h; cases h

theorem chunkReported_other (d : Dec) (t : ChunkType) (body : Bytes) (hn : ¬ IsTextArm d t) :
    chunkReported d.opts.ignoreText t body = [] := by
  unfold chunkReported
  cases ho : d.opts.ignoreText with
  | true => rfl
  | false =>
    have : ¬ (t = tEXt ∨ t = zTXt ∨ t = iTXt) := fun h => hn ⟨h, ho⟩
    simp only [not_or] at this
    simp [this.1, this.2.1, this.2.2]

theorem benign_not_text {t : ChunkType} (hb : benign t = true) : ¬ (t = tEXt ∨ t = zTXt ∨ t = iTXt) := by
  rintro (rfl | rfl | rfl) <;> exact absurd hb (by decide)

/-- **one accepted chunk** (any type, any body, any decoder that has seen `IHDR`): the text entries of `Info` grow by
    exactly `chunkReported` — the text model's parse of the body for a text chunk, nothing otherwise; the options are
    kept -/
theorem parseChunk_reported (cfg : Cfg) (hu : ∀ b, cfg.utf8Ok b = (utf8Decode b).isSome) {d d2 : Dec} {t : ChunkType} {ev : Ev}
    (i : Info) (hi : d.info = some i) (h : parseChunk cfg d t = .ok (ev, d2)) :
    ∃ i2, d2.info = some i2 ∧ d2.opts = d.opts ∧
      (∃ recs, i2.text = i.text ++ recs ∧ reportedList recs = chunkReported d.opts.ignoreText t d.raw ∧
        ∀ r ∈ recs, ∃ x, reportedText r = .ok x) ∧
      reported i2 = reported i ++ chunkReported d.opts.ignoreText t d.raw ∧
      (IsTextArm d t → ∃ x, chunkReported d.opts.ignoreText t d.raw = [x]) := by
  have hopts : d2.opts = d.opts := (parseChunk_frame h).opts
  have fin : ∀ i2 : Info, ∀ recs, i2.text = i.text ++ recs → reportedList recs = chunkReported d.opts.ignoreText t d.raw →
      reported i2 = reported i ++ chunkReported d.opts.ignoreText t d.raw := by
    intro i2 recs h1 h2
    unfold reported; rw [h1, reportedList_append, h2]
  have keep : d2.info.map (·.text) = (d.atCrc t).info.map (·.text) → chunkReported d.opts.ignoreText t d.raw = [] →
      ∃ i2, d2.info = some i2 ∧ d2.opts = d.opts ∧
        (∃ recs, i2.text = i.text ++ recs ∧ reportedList recs = chunkReported d.opts.ignoreText t d.raw ∧
          ∀ r ∈ recs, ∃ x, reportedText r = .ok x) ∧
        reported i2 = reported i ++ chunkReported d.opts.ignoreText t d.raw := by
    intro hk hc
    rw [show (d.atCrc t).info = some i from hi] at hk
    cases h2 : d2.info with
    | none => rw [h2] at hk; cases hk
    | some i2 =>
      rw [h2] at hk
      simp only [Option.map_some, Option.some.injEq] at hk
      have ht : i2.text = i.text ++ [] := by rw [hk, List.append_nil]
      exact ⟨i2, rfl, hopts, ⟨[], ht, by rw [hc]; rfl, fun r hr => by cases hr⟩, fin i2 [] ht (by rw [hc]; rfl)⟩
  rcases parseChunk_cases h with hd | ⟨e, _, _, hb, _, hd2⟩
  · by_cases ha : IsTextArm (d.atCrc t) t
    · obtain ⟨rec, x, h1, h2, h3⟩ := text_arm_reported cfg hu (d := d.atCrc t) i hi ha hd
      have h3' : reportedList [rec] = chunkReported d.opts.ignoreText t d.raw := by rw [reportedList_single h2]; exact h3.symm
      have hall : ∀ r ∈ [rec], ∃ x, reportedText r = .ok x := by
        intro r hr
        rw [List.mem_singleton] at hr
        exact ⟨x, hr ▸ h2⟩
      exact ⟨_, h1, hopts, ⟨[rec], rfl, h3', hall⟩, fin _ [rec] rfl h3', fun _ => ⟨x, h3⟩⟩
    · obtain ⟨i2, k1, k2, k3, k4⟩ := keep (dispatch_text_keep (d := d.atCrc t) hd (by rw [show (d.atCrc t).info = some i from hi]; rfl) ha)
        (chunkReported_other (d.atCrc t) t d.raw ha)
      exact ⟨i2, k1, k2, k3, k4, fun h' => absurd h' ha⟩
  · have hinfo : d2.info = (d.atCrc t).info := by rw [hd2, benignResidue_info]
    have hnt : ¬ IsTextArm (d.atCrc t) t := fun ha => benign_not_text hb ha.1
    obtain ⟨i2, k1, k2, k3, k4⟩ := keep (by rw [hinfo]) (chunkReported_other (d.atCrc t) t d.raw hnt)
    exact ⟨i2, k1, k2, k3, k4, fun h' => absurd h' hnt⟩

/-! ## sequences of accepted chunks -/

/-- **chunks that fit the chunk buffer** (`AncChunks`): after the sequence the text entries of `Info` are those it had
    before followed by the entries of the text chunks of the sequence, in the order of the sequence -/
theorem ancChunks_reported (cfg : Cfg) (hu : ∀ b, cfg.utf8Ok b = (utf8Decode b).isSome) {d d' : Dec}
    {cs : List (ChunkType × Bytes)} (h : AncChunks cfg d cs d') :
    ∀ i, d.info = some i → ∃ i', d'.info = some i' ∧ d'.opts = d.opts ∧
      reported i' = reported i ++ streamReported d.opts.ignoreText cs ∧
      (d.opts.ignoreText = false → ∀ c ∈ cs, (c.1 = tEXt ∨ c.1 = zTXt ∨ c.1 = iTXt) →
        ∃ x, chunkReported false c.1 c.2 = [x]) := by
  induction h with
  | nil d => intro i hi; exact ⟨i, hi, rfl, by simp [streamReported], fun _ c hc => by cases hc⟩
  | @cons d0 d1 d' t body cs h1 _ ih =>
    intro i hi
    obtain ⟨ev, d2, hp, rfl⟩ := h1.parse
    obtain ⟨i2, a1, a2, _, a4, a5⟩ := parseChunk_reported cfg hu (d := d0.atParse t body) i hi hp
    obtain ⟨i', b1, b2, b3, b4⟩ := ih i2 a1
    refine ⟨i', b1, b2.trans a2, ?_, ?_⟩
    · rw [b3, a4, streamReported_cons, List.append_assoc]
      show _ ++ (chunkReported d0.opts.ignoreText t body ++ streamReported d2.opts.ignoreText cs) = _
      rw [a2]; rfl
    · intro ho c hc ht
      rcases List.mem_cons.mp hc with rfl | hc
      · have := a5 ⟨ht, ho⟩
        rw [show (d0.atParse t body).opts.ignoreText = false from ho] at this
        exact this
      · exact b4 (by rw [show (d2.withState (some (.u32 .length []))).opts = d2.opts from rfl, a2]; exact ho) c hc ht

/-- **chunks of any length** (`AncChunksG`: the chunk buffer grows as `reserve_current_chunk` allows): the same -/
theorem ancChunksG_reported (cfg : Cfg) (hu : ∀ b, cfg.utf8Ok b = (utf8Decode b).isSome) {d d' : Dec}
    {cs : List (ChunkType × Bytes)} (h : AncChunksG cfg d cs d') :
    ∀ i, d.info = some i → ∃ i', d'.info = some i' ∧ d'.opts = d.opts ∧
      reported i' = reported i ++ streamReported d.opts.ignoreText cs ∧
      (d.opts.ignoreText = false → ∀ c ∈ cs, (c.1 = tEXt ∨ c.1 = zTXt ∨ c.1 = iTXt) →
        ∃ x, chunkReported false c.1 c.2 = [x]) := by
  induction h with
  | nil d => intro i hi; exact ⟨i, hi, rfl, by simp [streamReported], fun _ c hc => by cases hc⟩
  | @cons d0 d1 d' t body cs h1 _ ih =>
    intro i hi
    obtain ⟨cap', limit', _, ev, d2, hp, rfl⟩ := h1.parse
    obtain ⟨i2, a1, a2, _, a4, a5⟩ :=
      parseChunk_reported cfg hu (d := { d0.atParse t body with cap := cap', limit := limit' }) i hi hp
    obtain ⟨i', b1, b2, b3, b4⟩ := ih i2 a1
    refine ⟨i', b1, b2.trans a2, ?_, ?_⟩
    · rw [b3, a4, streamReported_cons, List.append_assoc]
      show _ ++ (chunkReported d0.opts.ignoreText t body ++ streamReported d2.opts.ignoreText cs) = _
      rw [a2]; rfl
    · intro ho c hc ht
      rcases List.mem_cons.mp hc with rfl | hc
      · have := a5 ⟨ht, ho⟩
        rw [show ({ d0.atParse t body with cap := cap', limit := limit' } : Dec).opts.ignoreText = false from ho] at this
        exact this
      · exact b4 (by rw [show (d2.withState (some (.u32 .length []))).opts = d2.opts from rfl, a2]; exact ho) c hc ht


/-! ## the three vectors after one more entry / after a sequence -/

theorem reported_snoc (i : Info) (rec : TextChunk) (x : Reported) (h : reportedText rec = .ok x) :
    reported { i with text := i.text ++ [rec] } = reported i ++ [x] := by
  unfold reported; rw [reportedList_append, reportedList_single h]

theorem vectors_append (i i' : Info) (l : List Reported) (h : reported i' = reported i ++ l) :
    uncompressedLatin1Text i' = uncompressedLatin1Text i ++ l.filterMap Reported.tEXt? ∧
    compressedLatin1Text i' = compressedLatin1Text i ++ l.filterMap Reported.zTXt? ∧
    utf8Text i' = utf8Text i ++ l.filterMap Reported.iTXt? := by
  unfold uncompressedLatin1Text compressedLatin1Text utf8Text
  rw [h, List.filterMap_append, List.filterMap_append, List.filterMap_append]
  exact ⟨rfl, rfl, rfl⟩

theorem tEXt_ne : tEXt ≠ zTXt ∧ tEXt ≠ iTXt ∧ zTXt ≠ iTXt := by decide

/-- the entries of each kind in a chunk sequence, written with the text model's parsers -/
theorem streamReported_kinds (cs : List (ChunkType × Bytes)) :
    (streamReported false cs).filterMap Reported.tEXt? =
      cs.filterMap (fun c => if c.1 = tEXt then (Png.parseTEXt c.2).toOption else none) ∧
    (streamReported false cs).filterMap Reported.zTXt? =
      cs.filterMap (fun c => if c.1 = zTXt then (Png.parseZTXt c.2).toOption else none) ∧
    (streamReported false cs).filterMap Reported.iTXt? =
      cs.filterMap (fun c => if c.1 = iTXt then ITXtOut.toOption (Png.parseITXt c.2) else none) := by
  obtain ⟨n1, n2, n3⟩ := tEXt_ne
  induction cs with
  | nil => exact ⟨rfl, rfl, rfl⟩
  | cons c cs ih =>
    obtain ⟨t, body⟩ := c
    rw [streamReported_cons, List.filterMap_append, List.filterMap_append, List.filterMap_append, ih.1, ih.2.1, ih.2.2]
    simp only [List.filterMap_cons]
    unfold chunkReported
    simp only [Bool.false_eq_true, if_false]
    by_cases h1 : t = tEXt
    · subst h1
      simp only [if_true, if_neg n1, if_neg n2]
      cases Png.parseTEXt body <;> simp [Except.toOption, Reported.tEXt?, Reported.zTXt?, Reported.iTXt?]
    · by_cases h2 : t = zTXt
      · subst h2
        simp only [if_true, if_neg h1, if_neg n3]
        cases Png.parseZTXt body <;> simp [Except.toOption, Reported.tEXt?, Reported.zTXt?, Reported.iTXt?]
      · by_cases h3 : t = iTXt
        · subst h3
          simp only [if_true, if_neg h1, if_neg h2]
          cases Png.parseITXt body <;> simp [ITXtOut.toOption, Reported.tEXt?, Reported.zTXt?, Reported.iTXt?]
        · simp [h1, h2, h3]

theorem streamReported_ignored (cs : List (ChunkType × Bytes)) : streamReported true cs = [] := by
  simp [streamReported, chunkReported]

/-! ## one text chunk through `parse_chunk`: success with the text model's value, or the text model's error, fatal -/

theorem textErr_fatal (e : TextDecErr) (t : ChunkType) (ht : t = tEXt ∨ t = zTXt ∨ t = iTXt) :
    ((textErr e).isFormat && benign t) = false := by
  rcases ht with rfl | rfl | rfl <;> simp (decide := true) [textErr, PErr.isFormat]

theorem tEXt_chunk_tie (cfg : Cfg) (d : Dec) (i : Info) (hi : d.info = some i) (ho : d.opts.ignoreText = false)
    (hlim : d.raw.length ≤ d.limit) :
    match Png.parseTEXt d.raw with
    | .ok c => ∃ d' i', parseChunk cfg d tEXt = .ok (.nothing, d') ∧ d'.info = some i' ∧ d'.limit = d.limit - d.raw.length ∧
        reported i' = reported i ++ [.tEXt c]
    | .error e => parseChunk cfg d tEXt = .error (.format (errName e)) := by
  have := parseText_tie (d.atCrc tEXt) i hi hlim
  rw [show (d.atCrc tEXt).raw = d.raw from rfl] at this
  cases hp : Png.parseTEXt d.raw with
  | error e =>
    rw [hp] at this
    exact parseChunk_of_error (by rw [dispatch_tEXt cfg (d.atCrc tEXt) ho]; exact this) (textErr_fatal e tEXt (Or.inl rfl))
  | ok c =>
    rw [hp] at this
    obtain ⟨rec, h1, h2⟩ := this
    exact ⟨addText (charged (d.atCrc tEXt)) rec, _, parseChunk_of_ok (by rw [dispatch_tEXt cfg (d.atCrc tEXt) ho]; exact h1), addText_info _ i hi rec, rfl,
      reported_snoc i rec _ h2⟩

theorem zTXt_chunk_tie (cfg : Cfg) (d : Dec) (i : Info) (hi : d.info = some i) (ho : d.opts.ignoreText = false)
    (hlim : d.raw.length ≤ d.limit) :
    match Png.parseZTXt d.raw with
    | .ok c => ∃ d' i', parseChunk cfg d zTXt = .ok (.nothing, d') ∧ d'.info = some i' ∧ d'.limit = d.limit - d.raw.length ∧
        reported i' = reported i ++ [.zTXt c]
    | .error e => parseChunk cfg d zTXt = .error (.format (errName e)) := by
  have := parseZtxt_tie (d.atCrc zTXt) i hi hlim
  rw [show (d.atCrc zTXt).raw = d.raw from rfl] at this
  cases hp : Png.parseZTXt d.raw with
  | error e =>
    rw [hp] at this
    exact parseChunk_of_error (by rw [dispatch_zTXt cfg (d.atCrc zTXt) ho]; exact this) (textErr_fatal e zTXt (Or.inr (Or.inl rfl)))
  | ok c =>
    rw [hp] at this
    obtain ⟨rec, h1, h2⟩ := this
    exact ⟨addText (charged (d.atCrc zTXt)) rec, _, parseChunk_of_ok (by rw [dispatch_zTXt cfg (d.atCrc zTXt) ho]; exact h1), addText_info _ i hi rec, rfl,
      reported_snoc i rec _ h2⟩

theorem iTXt_chunk_tie (cfg : Cfg) (hu : ∀ b, cfg.utf8Ok b = (utf8Decode b).isSome) (d : Dec) (i : Info)
    (hi : d.info = some i) (ho : d.opts.ignoreText = false) (hlim : d.raw.length ≤ d.limit) :
    match Png.parseITXt d.raw with
    | .ok c => ∃ d' i', parseChunk cfg d iTXt = .ok (.nothing, d') ∧ d'.info = some i' ∧ d'.limit = d.limit - d.raw.length ∧
        reported i' = reported i ++ [.iTXt c]
    | .err e => parseChunk cfg d iTXt = .error (.format (errName e))
    | .panic => False := by
  have := parseItxt_tie cfg hu (d.atCrc iTXt) i hi hlim
  rw [show (d.atCrc iTXt).raw = d.raw from rfl] at this
  cases hp : Png.parseITXt d.raw with
  | err e =>
    rw [hp] at this
    exact parseChunk_of_error (by rw [dispatch_iTXt cfg (d.atCrc iTXt) ho]; exact this) (textErr_fatal e iTXt (Or.inr (Or.inr rfl)))
  | panic => rw [hp] at this; exact this
  | ok c =>
    rw [hp] at this
    obtain ⟨rec, h1, h2⟩ := this
    exact ⟨addText (charged (d.atCrc iTXt)) rec, _, parseChunk_of_ok (by rw [dispatch_iTXt cfg (d.atCrc iTXt) ho]; exact h1), addText_info _ i hi rec, rfl,
      reported_snoc i rec _ h2⟩


/-! ## text chunks the text model accepts are accepted by the stream decoder -/

/-- the chunk `(t, body)` is a text chunk whose body the text model's parser accepts -/
def TextAccepted (t : ChunkType) (body : Bytes) : Prop :=
  (t = tEXt ∧ ∃ c, Png.parseTEXt body = .ok c) ∨ (t = zTXt ∧ ∃ c, Png.parseZTXt body = .ok c) ∨
  (t = iTXt ∧ ∃ c, Png.parseITXt body = .ok c)

/-- **one text chunk**: accepted by the text model, within `Limits` and the chunk buffer ⟹ accepted by `parse_chunk`
    (`AncStep`), charged with its length -/
theorem ancStep_text (cfg : Cfg) (hu : ∀ b, cfg.utf8Ok b = (utf8Decode b).isSome) (d : Dec) (i : Info) (hi : d.info = some i)
    (ho : d.opts.ignoreText = false) (t : ChunkType) (body : Bytes) (ha : TextAccepted t body)
    (hlim : body.length ≤ d.limit) (hcap : body.length ≤ d.cap) (hlen : body.length < 2 ^ 32) :
    ∃ d' i', AncStep cfg d t body d' ∧ d'.info = some i' ∧ d'.limit = d.limit - body.length ∧ d'.cap = d.cap ∧
      d'.opts = d.opts := by
  have fin : ∀ d2 i', parseChunk cfg (d.atParse t body) t = .ok (.nothing, d2) → d2.info = some i' →
      d2.limit = d.limit - body.length → t ≠ IHDR → t ≠ IDAT → t ≠ fdAT → t ≠ IEND → t ≠ fcTL → t < 2 ^ 32 →
      ∃ d' i', AncStep cfg d t body d' ∧ d'.info = some i' ∧ d'.limit = d.limit - body.length ∧ d'.cap = d.cap ∧
        d'.opts = d.opts := by
    intro d2 i' hp h1 h2 t0 t1 t2 t3 t4 t5
    have hfr := parseChunk_frame hp
    exact ⟨d2.withState (some (.u32 .length [])), i', ⟨t0, t1, t2, t3, t4, t5, hlen, hcap, _, d2, hp, rfl⟩, h1, h2,
      hfr.cap, hfr.opts⟩
  rcases ha with ⟨rfl, c, hc⟩ | ⟨rfl, c, hc⟩ | ⟨rfl, c, hc⟩
  · have := tEXt_chunk_tie cfg (d.atParse tEXt body) i hi ho hlim
    rw [show (d.atParse tEXt body).raw = body from rfl, hc] at this
    obtain ⟨d2, i', h1, h2, h3, _⟩ := this
    exact fin d2 i' h1 h2 h3 (by decide) (by decide) (by decide) (by decide) (by decide) (by decide)
  · have := zTXt_chunk_tie cfg (d.atParse zTXt body) i hi ho hlim
    rw [show (d.atParse zTXt body).raw = body from rfl, hc] at this
    obtain ⟨d2, i', h1, h2, h3, _⟩ := this
    exact fin d2 i' h1 h2 h3 (by decide) (by decide) (by decide) (by decide) (by decide) (by decide)
  · have := iTXt_chunk_tie cfg hu (d.atParse iTXt body) i hi ho hlim
    rw [show (d.atParse iTXt body).raw = body from rfl, hc] at this
    obtain ⟨d2, i', h1, h2, h3, _⟩ := this
    exact fin d2 i' h1 h2 h3 (by decide) (by decide) (by decide) (by decide) (by decide) (by decide)

/-- **any sequence of text chunks** the text model accepts, each fitting the chunk buffer, their total length within
    `Limits`: the stream decoder accepts them all (`AncChunks`) -/
theorem ancChunks_of_text (cfg : Cfg) (hu : ∀ b, cfg.utf8Ok b = (utf8Decode b).isSome) (cs : List (ChunkType × Bytes)) :
    ∀ (d : Dec) (i : Info), d.info = some i → d.opts.ignoreText = false →
      (∀ c ∈ cs, TextAccepted c.1 c.2 ∧ c.2.length ≤ d.cap ∧ c.2.length < 2 ^ 32) →
      (cs.map fun c => c.2.length).sum ≤ d.limit → ∃ d', AncChunks cfg d cs d' := by
  induction cs with
  | nil => intro d _ _ _ _ _; exact ⟨d, .nil d⟩
  | cons c cs ih =>
    intro d i hi ho hall hsum
    obtain ⟨t, body⟩ := c
    simp only [List.map_cons, List.sum_cons] at hsum
    obtain ⟨ha, hcap, hlen⟩ := hall (t, body) (List.mem_cons_self ..)
    obtain ⟨d1, i1, s1, s2, s3, s4, s5⟩ := ancStep_text cfg hu d i hi ho t body ha (by omega) hcap hlen
    obtain ⟨d', hd'⟩ := ih d1 i1 s2 (by rw [s5]; exact ho)
      (fun c hc => by rw [s4]; exact hall c (List.mem_cons_of_mem _ hc)) (by rw [s3]; omega)
    exact ⟨d', .cons s1 hd'⟩


/-! ## every stored record is reported: an invariant of `update` -/

/-- every text record stored in `Info` is one the crate's `decode` accepts — nothing that was stored is missing from the
    three vectors -/
def TextInv (d : Dec) : Prop := ∀ i, d.info = some i → ∀ r ∈ i.text, ∃ x, reportedText r = .ok x

theorem TextInv.of_info {d d' : Dec} (h : d'.info = d.info) (hd : TextInv d) : TextInv d' := by
  intro i hi; exact hd i (h ▸ hi)

theorem parseIhdr_text {d d' : Dec} {ev : Ev} (h : parseIhdr d = .ok (d', ev)) : ∃ i, d'.info = some i ∧ i.text = [] := by
  unfold parseIhdr at h
  simp only [bind, Except.bind, eofOr, pure, Except.pure, throw, throwThe, MonadExceptOf.throw] at h
  repeat' split at h
  all_goals first
    | (cases h; done)
    | (cases h; exact ⟨_, rfl, rfl⟩)

/-- `parse_chunk` keeps the invariant (real UTF-8 test) -/
theorem parseChunk_textInv (cfg : Cfg) (hu : ∀ b, cfg.utf8Ok b = (utf8Decode b).isSome) {d d' : Dec} {t : ChunkType} {ev : Ev}
    (h : parseChunk cfg d t = .ok (ev, d')) (hd : TextInv d) : TextInv d' := by
  cases hi : d.info with
  | some i =>
    obtain ⟨i2, h1, _, ⟨recs, h3, _, h5⟩, _⟩ := parseChunk_reported cfg hu i hi h
    intro j hj r hr
    rw [h1] at hj; cases hj
    rw [h3, List.mem_append] at hr
    rcases hr with hr | hr
    · exact hd i hi r hr
    · exact h5 r hr
  | none =>
    have hn : (d.atCrc t).info = none := hi
    rcases parseChunk_cases h with hdp | ⟨e, _, _, _, _, rfl⟩
    · by_cases h0 : t = IHDR
      · subst h0
        unfold dispatch at hdp
        rw [if_pos rfl] at hdp
        obtain ⟨i, hi', ht⟩ := parseIhdr_text hdp
        intro j hj r hr
        rw [hi'] at hj; cases hj
        rw [ht] at hr; cases hr
      · by_cases h1 : t = fcTL
        · subst h1
          unfold dispatch at hdp
          simp (decide := true) only [if_false, if_true] at hdp
          obtain ⟨i, _, hi', _⟩ := parseFctl_spec hdp
          rw [hn] at hi'; cases hi'
        · have := (dispatch_gen h0 h1 hdp).isSome
          rw [hn] at this
          intro j hj
          rw [hj] at this; cases this
    · exact hd.of_info (by rw [benignResidue_info]; rfl)

/-- **every `next_state` call keeps the invariant** -/
theorem nextState_textInv {cfg : Cfg} (hu : ∀ b, cfg.utf8Ok b = (utf8Decode b).isSome) {d d' : Dec} {st : St} {buf : Bytes}
    {n : Nat} {ev : Ev} (hd : TextInv d) (h : nextState cfg d st buf = .ok (n, ev, d')) : TextInv d' := by
  unfold nextState at h
  simp only at h
  have hd0 : TextInv { d with state := none } := hd.of_info rfl
  cases st with
  | u32 kind acc =>
    simp only at h
    rcases stepU32_eq h with ⟨_, _, acc', _, hd'⟩ | ⟨b0, b1, b2, b3, hp, _⟩
    · subst hd'; exact hd.of_info rfl
    · cases kind with
      | sig1 => obtain ⟨_, k', _, rfl⟩ := parseU32_simple (Or.inl rfl) hp; exact hd.of_info rfl
      | sig2 => obtain ⟨_, k', _, rfl⟩ := parseU32_simple (Or.inr (Or.inl rfl)) hp; exact hd.of_info rfl
      | length => obtain ⟨_, k', _, rfl⟩ := parseU32_simple (Or.inr (Or.inr rfl)) hp; exact hd.of_info rfl
      | type len =>
        cases parseU32_typeStep hp with
        | flush hne hdt he hi hh hst hc hri hrf hsq => exact hd.of_info hi
        | begin hno he hi hri hrf ho hh hc hinfo hst hsq hraw => exact hd.of_info hi
      | crc t =>
        rcases parseU32_crcStep hp with ⟨_, _, rfl⟩ | ⟨_, _, rfl⟩ | ⟨_, rfl⟩ <;> exact hd.of_info rfl
      | seqNo =>
        obtain ⟨_, q, _, _⟩ := parseU32_seqNoStep hp
        exact hd.of_info q.info
  | parseChunkData t =>
    simp only at h
    unfold stepParse at h
    split at h
    · cases hp : parseChunk cfg { d with state := none } t with
      | error e => rw [hp] at h; cases h
      | ok r =>
        rw [hp] at h; obtain ⟨ev1, d1⟩ := r
        simp only [Except.map] at h
        cases h
        exact parseChunk_textInv cfg hu hp hd0
    · cases hp : reserveCurrentChunk { d with state := none } with
      | error e => rw [hp] at h; cases h
      | ok d1 =>
        rw [hp] at h
        simp only [Except.map] at h
        cases h
        obtain ⟨q, _⟩ := reserveCurrentChunk_quiet hp
        exact hd.of_info q.info
  | readChunkData t =>
    simp only at h
    obtain ⟨_, q, _, _⟩ := stepRead_eq h
    exact hd.of_info q.info
  | imageData t =>
    simp only at h
    obtain ⟨_, q, _⟩ := stepImage_eq h
    exact hd.of_info q.info

/-- **every `update` call keeps the invariant**, whatever the input and whatever it returns -/
theorem update_textInv (cfg : Cfg) (hu : ∀ b, cfg.utf8Ok b = (utf8Decode b).isSome) (d : Dec) (buf : Bytes) (hd : TextInv d) :
    TextInv (update cfg d buf).1 := by
  cases hs : d.state with
  | none =>
    have := (poisoned_refuses cfg d buf hs).2
    rw [this]; exact hd
  | some st0 =>
    have := update_inv cfg TextInv (fun x st b n x' hx _ hn => nextState_textInv hu hx hn) d buf hd (by simp [hs])
    cases hup : update cfg d buf with
    | mk dF res =>
      rw [hup] at this
      cases res with
      | ok r =>
        obtain ⟨m, ev⟩ := r
        rcases this with ⟨_, h⟩ | ⟨dk, st, b, n, hk, _, hn⟩
        · exact h
        · exact nextState_textInv hu hk hn
      | error e =>
        obtain ⟨dk, hk, rfl⟩ := this
        exact hk.of_info rfl

theorem textInv_new (opts : Options) (limit : Nat) : TextInv ({ opts := opts, limit := limit } : Dec) := by
  intro i hi; cases hi

/-- under the invariant the reported list has one entry per stored record -/
theorem reported_length {i : Info} (h : ∀ r ∈ i.text, ∃ x, reportedText r = .ok x) : (reported i).length = i.text.length := by
  unfold reported reportedList
  generalize i.text = l at h
  induction l with
  | nil => rfl
  | cons r l ih =>
    obtain ⟨x, hx⟩ := h r (List.mem_cons_self ..)
    have := ih (fun r hr => h r (List.mem_cons_of_mem _ hr))
    rw [List.filterMap_cons, hx]
    show (x :: _).length = _
    rw [List.length_cons, this, List.length_cons]

theorem vectors_length (l : List Reported) :
    (l.filterMap Reported.tEXt?).length + (l.filterMap Reported.zTXt?).length + (l.filterMap Reported.iTXt?).length = l.length := by
  induction l with
  | nil => rfl
  | cons r l ih =>
    cases r <;> simp [List.filterMap_cons, Reported.tEXt?, Reported.zTXt?, Reported.iTXt?] <;> omega

end Png.C16
