import PngVerif.Props.C09AnyPath
import PngVerif.Proofs.RoundTripAnimGen
/-!
# C09 on any call path, with `acTL` anywhere before the first frame

`AnyPath.C09_any_path_of` is stated for the layout `wellFormedApng` (`acTL` right behind `IHDR`).  The crate's encoder
writes `pHYs`, `sRGB`, `gAMA`, `cHRM`, `iCCP`, `eXIf` in front of `acTL`; `Proofs/RoundTripAnimGen.lean` re-proves the
whole-frame theorem for that layout (`Reader.apngFile`, `apng_wf_gen`).  Here the composition with C13 is re-proved for
it: `apng_start_gen` / `apng_default_start_gen` (the reader `read_info` returns has no buffer pending and
`frames.length + 1` frames remaining; the proofs are those of `apng_start` / `apng_default_start` from the point where
the chunks before the first frame have been read) and `C09_any_path_gen_of` / `C09_default_any_path_gen_of`.
-/
namespace Png.Reader
open Png Png.Framing Png.WellFormed

theorem apng_start_gen (cfg : Cfg) (hI : cfg.InflateOk) (hC : cfg.CrcOk) {t : TCfg} {f : Flags} (ht : t.IsIdentity f)
    (opts : Options) (limit : Nat) (h : Header) (hv : h.Valid) (plays : Nat)
    (ancB : Bytes) (dB : Dec)
    (frames : List (FrameControl × List Bytes × Bytes))
    (TB : AncTrace cfg (afterIhdr cfg opts limit h) ancB dB) (hidleB : Idle dB h.info.core) (hsq0 : dB.seqNo = none)
    (hcapB : 26 ≤ dB.cap) (hactlB : dB.info.map (·.actl) = some (some (frames.length + 1, plays)))
    (fc0 : FrameControl) (zs0 : List Bytes) (raw0 : Bytes) (hfc0 : FcOk h fc0)
    (hzs0 : zs0 ≠ []) (hlen0 : ∀ z ∈ zs0, z.length < 2 ^ 32) (hinf0 : cfg.inflate zs0.flatten = some (raw0, true))
    (hsize : h.lineSize * h.height < 2 ^ 64)
    (hlimit : (h.frame fc0).lineSize + (frames.map fun x => (h.frame x.1).lineSize).sum ≤ dB.limit) :
    ∃ r0,
      step cfg t (R.init opts limit f (apngFile cfg h ancB fc0 zs0 (framesOf frames))
          (apngFile cfg h ancB fc0 zs0 (framesOf frames)).length) .readInfo = (r0, .header) ∧
      r0.pendingBuf = none ∧ r0.remaining = frames.length + 1 := by
  obtain ⟨hw1, hw2, hh1, hh2, hleg⟩ := hv
  have hd := (legal_pos hleg).2.2
  generalize hfc0' : ({ fc0 with seq := 0 } : FrameControl) = fc0'
  have hframe0 : h.frame fc0' = h.frame fc0 := by rw [← hfc0']; rfl
  obtain ⟨dF, TC, hidleC, hsqC, hlimC, hcapC, _, hactlC⟩ := fctl0_step cfg hC fc0' hidleB hcapB
    (by
      rw [← hfc0']
      refine ⟨by show (0 : Nat) < 2 ^ 32; decide, ?_, ?_, ?_, ?_, hfc0.dn, hfc0.dd, ?_, ?_⟩
      · show fc0.width < 2 ^ 32; have := hfc0.xw; omega
      · show fc0.height < 2 ^ 32; have := hfc0.yh; omega
      · show fc0.x < 2 ^ 32; have := hfc0.xw; omega
      · show fc0.y < 2 ^ 32; have := hfc0.yh; omega
      · show fc0.dispose < 256; have := hfc0.dis; omega
      · show fc0.blend < 256; have := hfc0.bl; omega)
    (by rw [hsq0, ← hfc0']; rfl) (by rw [← hfc0']; exact hfc0.dis) (by rw [← hfc0']; exact hfc0.bl)
    (by
      intro i hi
      obtain ⟨j, hj, hcj, _⟩ := hidleB.info
      rw [hi] at hj; cases hj
      simp only [Info.core, Header.info, Prod.mk.injEq] at hcj
      rw [fctlInBounds_iff, ← hfc0']
      exact ⟨hfc0.w1, hfc0.h1, by rw [hcj.1]; exact hfc0.xw, by rw [hcj.2.1]; exact hfc0.yh⟩)
  have hancAll : AncTrace cfg (afterIhdr cfg opts limit h) (ancB ++ chunk cfg fcTL (fctlBody fc0')) dF := TB.append TC
  cases zs0 with
  | nil => exact absurd rfl hzs0
  | cons z0 zs0 =>
    obtain ⟨hl1, hl2, hl3, hl4⟩ := nextHead_facts cfg 1 (framesOf frames)
    have htail := nextHead_eq cfg 1 (framesOf frames)
    generalize hLn : (nextHead cfg 1 (framesOf frames)).1 = lenN at *
    generalize hTn : (nextHead cfg 1 (framesOf frames)).2.1 = tN at *
    generalize hRn : (nextHead cfg 1 (framesOf frames)).2.2 = restN at *
    have hfile : apngFile cfg h ancB fc0 (z0 :: zs0) (framesOf frames) =
        signature ++ (chunk cfg IHDR h.body ++ ((ancB ++ chunk cfg fcTL (fctlBody fc0')) ++ (idats cfg (z0 :: zs0) ++
            (be32Bytes lenN ++ typeBytes tN ++ restN)))) := by
      unfold apngFile
      rw [← htail, hfc0']
      simp only [List.append_assoc]
    rw [hfile]
    have hLS0 : (h.frame fc0).lineSize ≤ dF.limit := by rw [hlimC]; omega
    obtain ⟨r, i, N, dEnd, hri, _, _, hfctl, _, _, hpb, _, _, hiF, hremN, hN, _⟩ :=
      readInfo_wf cfg hI hC ht opts limit h ⟨hw1, hw2, hh1, hh2, hleg⟩ _ dF (some fc0') hancAll hidleC z0 zs0 raw0
        (hlen0 z0 (by simp)) (fun z' hz' => hlen0 z' (by simp [hz'])) hinf0 lenN tN restN hl1 hl2 hl3 hsize
        (fun j hc hf => by
          have : hdrOf j = h.frame fc0' := by
            have := hdrOf_frame (i := j) fc0' hc
            have hj : ({ j with fctl := some fc0' } : Info) = j := by cases j; simp only at hf; subst hf; rfl
            rw [hj] at this; exact this
          rw [this, hframe0]; exact hLS0)
    have hactl : i.actl = some (frames.length + 1, plays) := by
      have h1 : dF.info.map (·.actl) = some (some (frames.length + 1, plays)) := by
        rw [hactlC, hactlB]
      rw [hiF] at h1
      simpa using h1
    have hNv : N = frames.length + 1 := by
      rw [hN, hactl, hfctl]; simp
    refine ⟨r, ?_, hpb, by rw [hremN, hNv]⟩
    rw [step_readInfo_init]; exact hri

theorem apng_default_start_gen (cfg : Cfg) (hI : cfg.InflateOk) (hC : cfg.CrcOk) {t : TCfg} {f : Flags} (ht : t.IsIdentity f)
    (opts : Options) (limit : Nat) (h : Header) (hv : h.Valid) (plays : Nat)
    (ancB : Bytes) (dB : Dec)
    (frames : List (FrameControl × List Bytes × Bytes))
    (TB : AncTrace cfg (afterIhdr cfg opts limit h) ancB dB) (hidleB : Idle dB h.info.core)
    (hactlB : dB.info.map (·.actl) = some (some (frames.length, plays)))
    (zs0 : List Bytes) (raw0 : Bytes)
    (hzs0 : zs0 ≠ []) (hlen0 : ∀ z ∈ zs0, z.length < 2 ^ 32) (hinf0 : cfg.inflate zs0.flatten = some (raw0, true))
    (hsize : h.lineSize * h.height < 2 ^ 64)
    (hlimit : h.lineSize + (frames.map fun x => (h.frame x.1).lineSize).sum ≤ dB.limit) :
    ∃ r0,
      step cfg t (R.init opts limit f (apngDefaultFile cfg h ancB zs0 (framesOf frames))
          (apngDefaultFile cfg h ancB zs0 (framesOf frames)).length) .readInfo = (r0, .header) ∧
      r0.pendingBuf = none ∧ r0.remaining = frames.length + 1 := by
  obtain ⟨hw1, hw2, hh1, hh2, hleg⟩ := hv
  cases zs0 with
  | nil => exact absurd rfl hzs0
  | cons z0 zs0 =>
    obtain ⟨hl1, hl2, hl3, hl4⟩ := nextHead_facts cfg 0 (framesOf frames)
    have htail := nextHead_eq cfg 0 (framesOf frames)
    generalize hLn : (nextHead cfg 0 (framesOf frames)).1 = lenN at *
    generalize hTn : (nextHead cfg 0 (framesOf frames)).2.1 = tN at *
    generalize hRn : (nextHead cfg 0 (framesOf frames)).2.2 = restN at *
    have hfile : apngDefaultFile cfg h ancB (z0 :: zs0) (framesOf frames) =
        signature ++ (chunk cfg IHDR h.body ++ (ancB ++
          (idats cfg (z0 :: zs0) ++ (be32Bytes lenN ++ typeBytes tN ++ restN)))) := by
      unfold apngDefaultFile
      rw [← htail]
      simp only [List.append_assoc]
    rw [hfile]
    obtain ⟨r, i, N, dEnd, hri, _, _, hfctl, _, _, hpb, _, _, hiF, hremN, hN, _⟩ :=
      readInfo_wf cfg hI hC ht opts limit h ⟨hw1, hw2, hh1, hh2, hleg⟩ _ dB none TB hidleB z0 zs0 raw0
        (hlen0 z0 (by simp)) (fun z' hz' => hlen0 z' (by simp [hz'])) hinf0 lenN tN restN hl1 hl2 hl3 hsize
        (fun j hc hf => by rw [hdrOf_eq hc hf]; omega)
    have hactl : i.actl = some (frames.length, plays) := by
      have h1 : dB.info.map (·.actl) = some (some (frames.length, plays)) := hactlB
      rw [hiF] at h1
      simpa using h1
    have hNv : N = frames.length + 1 := by
      rw [hN, hactl, hfctl]; simp
    refine ⟨r, ?_, hpb, by rw [hremN, hNv]⟩
    rw [step_readInfo_init]; exact hri

end Png.Reader

namespace Png.AnyPath
open Png Png.Framing Png.Reader Png.WellFormed Png.Driver

/-- **C09 on any call path, any bytes `ancB` between `IHDR` and `fcTL` number 0** read as `AncTrace` demands and leaving the
    `acTL` counts in `info` (hypotheses of `Reader.apng_wf_gen`), from `AnyPathOk` -/
theorem C09_any_path_gen_of (cfg : Cfg) (t : TCfg) (hap : AnyPathOk cfg t) (f : Flags) (opts : Options) (limit : Nat)
    (h : Header) (plays : Nat) (ancB : Bytes) (dB : Dec) (frames : List (FrameControl × List Bytes × Bytes))
    (fc0 : FrameControl) (zs0 : List Bytes) (raw0 : Bytes) (p : UInt8)
    (hI : cfg.InflateOk) (hC : cfg.CrcOk) (ht : t.IsIdentity f) (hv : h.Valid)
    (TB : AncTrace cfg (afterIhdr cfg opts limit h) ancB dB) (hidleB : Idle dB h.info.core) (hsq0 : dB.seqNo = none)
    (hcapB : 26 ≤ dB.cap) (hactlB : dB.info.map (·.actl) = some (some (frames.length + 1, plays)))
    (hfc0 : FcOk h fc0) (hzs0 : zs0 ≠ []) (hlen0 : ∀ z ∈ zs0, z.length < 2 ^ 32)
    (hinf0 : cfg.inflate zs0.flatten = some (raw0, true)) (hraw0 : RawOk (h.frame fc0) raw0)
    (hframes : ∀ fr ∈ frames, FrameOk cfg h fr)
    (hseq : 1 + (frames.map fun x => 1 + x.2.1.length).sum < 2 ^ 32)
    (hsize : h.lineSize * h.height < 2 ^ 64)
    (hlimit : (h.frame fc0).lineSize + (frames.map fun x => (h.frame x.1).lineSize).sum ≤ dB.limit)
    (hfile : (apngFile cfg h ancB fc0 zs0 (framesOf frames)).length < 2 ^ 32) (ops : List PathOp) :
    (asmRun cfg t (List.replicate h.bufferSize p)
      (readerOf cfg t opts limit f (apngFile cfg h ancB fc0 zs0 (framesOf frames)),
       Asm.init (List.replicate h.bufferSize p)) ops).2.problem = false ∧
    ∀ k px, (k, px) ∈ (asmRun cfg t (List.replicate h.bufferSize p)
      (readerOf cfg t opts limit f (apngFile cfg h ancB fc0 zs0 (framesOf frames)),
       Asm.init (List.replicate h.bufferSize p)) ops).2.frames →
      ∃ fr : FrameControl × List Bytes × Bytes, ((fc0, zs0, raw0) :: frames)[k]? = some fr ∧
        specFrame (h.frame fr.1) fr.2.2 (List.replicate h.bufferSize p) = some px := by
  obtain ⟨r0, h0, hpb, hrem⟩ := apng_start_gen cfg hI hC ht opts limit h hv plays ancB dB frames TB hidleB hsq0 hcapB hactlB
    fc0 zs0 raw0 hfc0 hzs0 hlen0 hinf0 hsize hlimit
  obtain ⟨buf0, rs, hrun, hspec0, hbl0, hfo⟩ := apng_wf_gen cfg hI hC ht opts limit h hv plays ancB dB frames TB hidleB hsq0
    hcapB hactlB fc0 zs0 raw0 hfc0 hzs0 hlen0 hinf0 hraw0 hframes hseq hsize hlimit p (List.replicate frames.length p)
    (by simp) p
  obtain ⟨bs, hfb, hrl, hall⟩ := framesOk_bufs h p frames (List.replicate frames.length p) rs
    (fun q hq => (List.mem_replicate.mp hq).2) hfo
  generalize apngFile cfg h ancB fc0 zs0 (framesOf frames) = file at *
  have hr : readerOf cfg t opts limit f file = r0 := by unfold readerOf; rw [h0]
  rw [hr]
  have hrun' := run_after_readInfo h0 hrun
  have hops : ∀ x : Reader.Res, List.replicate (x :: rs).length (Op.nextFrame p) ++ [Op.nextFrame p] =
      Op.nextFrame p :: ((List.replicate frames.length p).map Op.nextFrame ++ [Op.nextFrame p]) := by
    intro x; simp [hrl, List.replicate_succ]
  obtain ⟨a, b⟩ := hap opts limit f file hfile r0 p h.bufferSize (.frame _ buf0 :: rs) (buf0 :: bs) [.nextFrame p]
    [.err .parameter "PolledAfterEndOfImage"] h0 hpb (by rw [hrem]; simp [hrl]) ⟨rfl, hbl0, hfb⟩
    (by rw [hops]; simpa using hrun') ops
  refine ⟨a, fun k px hk => ?_⟩
  have hb := b k px hk
  cases k with
  | zero =>
    simp only [List.getElem?_cons_zero, Option.some.injEq] at hb
    subst hb
    exact ⟨(fc0, zs0, raw0), rfl, hspec0⟩
  | succ k =>
    simp only [List.getElem?_cons_succ] at hb ⊢
    exact hall k px hb

/-- **… the `IDAT` image not being part of the animation** (hypotheses of `Reader.apng_default_wf_gen`) -/
theorem C09_default_any_path_gen_of (cfg : Cfg) (t : TCfg) (hap : AnyPathOk cfg t) (f : Flags) (opts : Options) (limit : Nat)
    (h : Header) (plays : Nat) (ancB : Bytes) (dB : Dec) (frames : List (FrameControl × List Bytes × Bytes))
    (zs0 : List Bytes) (raw0 : Bytes) (p : UInt8)
    (hI : cfg.InflateOk) (hC : cfg.CrcOk) (ht : t.IsIdentity f) (hv : h.Valid)
    (TB : AncTrace cfg (afterIhdr cfg opts limit h) ancB dB) (hidleB : Idle dB h.info.core) (hsq0 : dB.seqNo = none)
    (hcapB : 26 ≤ dB.cap) (hactlB : dB.info.map (·.actl) = some (some (frames.length, plays)))
    (hzs0 : zs0 ≠ []) (hlen0 : ∀ z ∈ zs0, z.length < 2 ^ 32)
    (hinf0 : cfg.inflate zs0.flatten = some (raw0, true)) (hraw0 : RawOk h raw0)
    (hframes : ∀ fr ∈ frames, FrameOk cfg h fr)
    (hseq : (frames.map fun x => 1 + x.2.1.length).sum < 2 ^ 32)
    (hsize : h.lineSize * h.height < 2 ^ 64)
    (hlimit : h.lineSize + (frames.map fun x => (h.frame x.1).lineSize).sum ≤ dB.limit)
    (hfile : (apngDefaultFile cfg h ancB zs0 (framesOf frames)).length < 2 ^ 32) (ops : List PathOp) :
    (asmRun cfg t (List.replicate h.bufferSize p)
      (readerOf cfg t opts limit f (apngDefaultFile cfg h ancB zs0 (framesOf frames)),
       Asm.init (List.replicate h.bufferSize p)) ops).2.problem = false ∧
    ∀ k px, (k, px) ∈ (asmRun cfg t (List.replicate h.bufferSize p)
      (readerOf cfg t opts limit f (apngDefaultFile cfg h ancB zs0 (framesOf frames)),
       Asm.init (List.replicate h.bufferSize p)) ops).2.frames →
      (k = 0 → specPixels h raw0 (List.replicate h.bufferSize p) = some px) ∧
      (∀ j, k = j + 1 → ∃ fr : FrameControl × List Bytes × Bytes, frames[j]? = some fr ∧
        specFrame (h.frame fr.1) fr.2.2 (List.replicate h.bufferSize p) = some px) := by
  obtain ⟨r0, h0, hpb, hrem⟩ := apng_default_start_gen cfg hI hC ht opts limit h hv plays ancB dB frames TB hidleB hactlB
    zs0 raw0 hzs0 hlen0 hinf0 hsize hlimit
  obtain ⟨buf0, rs, hrun, hspec0, hbl0, hfo⟩ := apng_default_wf_gen cfg hI hC ht opts limit h hv plays ancB dB frames TB hidleB
    hsq0 hcapB hactlB zs0 raw0 hzs0 hlen0 hinf0 hraw0 hframes hseq hsize hlimit p (List.replicate frames.length p)
    (by simp) p
  obtain ⟨bs, hfb, hrl, hall⟩ := framesOk_bufs h p frames (List.replicate frames.length p) rs
    (fun q hq => (List.mem_replicate.mp hq).2) hfo
  generalize apngDefaultFile cfg h ancB zs0 (framesOf frames) = file at *
  have hr : readerOf cfg t opts limit f file = r0 := by unfold readerOf; rw [h0]
  rw [hr]
  have hrun' := run_after_readInfo h0 hrun
  have hops : ∀ x : Reader.Res, List.replicate (x :: rs).length (Op.nextFrame p) ++ [Op.nextFrame p] =
      Op.nextFrame p :: ((List.replicate frames.length p).map Op.nextFrame ++ [Op.nextFrame p]) := by
    intro x; simp [hrl, List.replicate_succ]
  obtain ⟨a, b⟩ := hap opts limit f file hfile r0 p h.bufferSize (.frame _ buf0 :: rs) (buf0 :: bs) [.nextFrame p]
    [.err .parameter "PolledAfterEndOfImage"] h0 hpb (by rw [hrem]; simp [hrl]) ⟨rfl, hbl0, hfb⟩
    (by rw [hops]; simpa using hrun') ops
  refine ⟨a, fun k px hk => ?_⟩
  have hb := b k px hk
  cases k with
  | zero =>
    simp only [List.getElem?_cons_zero, Option.some.injEq] at hb
    subst hb
    exact ⟨fun _ => hspec0, fun j hj => by omega⟩
  | succ k =>
    simp only [List.getElem?_cons_succ] at hb
    refine ⟨fun hk0 => by omega, fun j hj => ?_⟩
    have : k = j := by omega
    subst this
    exact hall k px hb

end Png.AnyPath
