import PngVerif.Proofs.ComposeTransformSpec
/-!
# C08 end to end, layer L2 with an arbitrary row transformation: the row loops of `next_frame`

`Proofs/ComposeReader.lean` / `ComposeFrame.lean` walk `next_interlaced_row_impl` and the two row loops of
`next_frame` along the trace of the image data for the IDENTITY transformation (`TCfg.IsIdentity`).  This file does
the same for an arbitrary transformation `t : TCfg` of which only the following is assumed, for the flags `f` and the
`Info` `i` the decoder holds while the image data is read (`TCfg.Converts`):

* the advertised output type `t.outColorDepth i f` is one of the fifteen legal pairs;
* `create_transform_fn` succeeds on `i`;
* the function created from `i`, applied to a row of `w` pixels of the image's type (`1 ≤ w ≤` the frame's width)
  and an output buffer of `output_line_size(w)` bytes, does not panic and fills exactly that many bytes.

The rows written are then `t.conv f i w row` for the specification's reconstructed scanlines `row`.
-/
namespace Png.Reader
open Png Png.Framing Png.WellFormed

/-- the conversion the transformation `t` (created from `i`, applied while the decoder holds `i`) computes on a row of
    `w` pixels, into a buffer of the advertised line size -/
def TCfg.conv (t : TCfg) (f : Flags) (i : Info) (w : Nat) (row : Bytes) : Bytes :=
  (t.apply i f i row (outLineSize t i f w)).getD []

/-- **the contract C08's end-to-end theorem assumes of the row transformation**, for the flags `f` and the `Info` `i`
    at the begin of the image data: legal output type, creation succeeds, rows of every width up to `W` are converted
    into exactly `output_line_size` bytes.  (`TCfg.Ok` of `Proofs/ReaderInv.lean` implies it when creation succeeds:
    `TCfg.Converts.of_ok`.) -/
structure TCfg.Converts (t : TCfg) (f : Flags) (i : Info) (W : Nat) : Prop where
  outLegal : ((t.outColorDepth i f).1, (t.outColorDepth i f).2) ∈ legalPairs
  create : t.create i f = .ok ()
  apply : ∀ row w, 1 ≤ w → w ≤ W → row.length + 1 = rawRowLengthFromWidth i.color i.depth w →
    ∃ out, t.apply i f i row (outLineSize t i f w) = some out ∧ out.length = outLineSize t i f w

theorem TCfg.Converts.of_ok {t : TCfg} (ht : t.Ok) {f : Flags} {i : Info} (hl : InfoLegal i) (hc : t.create i f = .ok ())
    (W : Nat) : t.Converts f i W :=
  ⟨ht.outLegal i f hl, hc, fun row w hw _ hrow => ht.applyOk i f i row w hl (Evolves.refl i) hc hw hrow⟩

theorem TCfg.Converts.conv_eq {t : TCfg} {f : Flags} {i : Info} {W : Nat} (h : t.Converts f i W) {row : Bytes} {w : Nat}
    (hw : 1 ≤ w) (hwW : w ≤ W) (hrow : row.length + 1 = rawRowLengthFromWidth i.color i.depth w) :
    t.apply i f i row (outLineSize t i f w) = some (t.conv f i w row) ∧ (t.conv f i w row).length = outLineSize t i f w := by
  obtain ⟨out, h1, h2⟩ := h.apply row w hw hwW hrow
  unfold TCfg.conv
  rw [h1]
  exact ⟨rfl, h2⟩

/-- the `Info` a cached transform function was created from (if any) is `i` -/
def CachedIs (i : Info) (r : R) : Prop := ∀ snap, r.cached = some snap → snap = i

theorem cachedIs_getD {i : Info} {r : R} (h : CachedIs i r) : r.cached.getD i = i := by
  cases hc : r.cached with
  | none => rfl
  | some s => exact h s hc

theorem cachedIs_after {i : Info} {r r' : R} (hca : CachedIs i r) (h : r'.cached = some (r.cached.getD i)) :
    CachedIs i r' := by
  intro s hs
  rw [h, cachedIs_getD hca] at hs
  cases hs; rfl

theorem cachedIs_of_none {i : Info} {r : R} (h : r.cached = none) : CachedIs i r := by
  intro s hs; rw [h] at hs; cases hs

/-- **one row**: `next_interlaced_row_impl` reconstructs the next scanline of the inflated stream (as
    `nextRowImpl_trace`) and hands out what the transformation created from `i` makes of it -/
theorem nextRowImplT_trace (cfg : Cfg) {t : TCfg} {f : Flags} (i : Info) (hcr : t.create i f = .ok ())
    (N rowlen outLen : Nat) (ft : FilterType) (dEnd : Dec) (bEnd : Bytes)
    (h2 : 2 ≤ rowlen) (pend : List (Ev × Bytes)) (r : R) (hfl : r.flags = f)
    (hca : CachedIs i r)
    (hP : Pending cfg i N r pend dEnd bEnd) (hinv : r.ub.Inv)
    (hprev : r.ub.prevRow = [] ∨ r.ub.prevRow.length = rowlen - 1)
    (hlen : rowlen ≤ (r.ub.abs.pending ++ dataOf pend).length)
    (hft : FilterType.ofNat? ((r.ub.abs.pending ++ dataOf pend).headD 0).toNat = some ft)
    (out : Bytes)
    (hap : t.apply i f i (unfilterImpl ft r.bpp r.ub.prevRow (((r.ub.abs.pending ++ dataOf pend).drop 1).take (rowlen - 1)))
      outLen = some out) :
    ∃ r' pend', nextRowImpl cfg t r rowlen outLen = (r', .ok out) ∧
      Pending cfg i N r' pend' dEnd bEnd ∧ r'.ub.Inv ∧
      r'.ub.prevRow = unfilterImpl ft r.bpp r.ub.prevRow (((r.ub.abs.pending ++ dataOf pend).drop 1).take (rowlen - 1)) ∧
      r'.ub.abs.pending ++ dataOf pend' = (r.ub.abs.pending ++ dataOf pend).drop rowlen ∧
      RowImplFrame i r r' := by
  obtain ⟨r1, pend', hrun, hP1, hinv1, hrow1, hpend1, hfr1⟩ :=
    nextRawRow_trace cfg i N rowlen ft dEnd bEnd h2 pend r (fuelOf r) hP.length_lt hP hinv hprev hlen hft
  have hrl : r1.ub.prevRow.length = rowlen - 1 := by
    rw [hrow1, unfilterImpl_length]
    simp only [List.length_take, List.length_drop]
    omega
  have hfl1 : r1.flags = f := by rw [hfr1]; exact hfl
  have hca1 : r1.cached = r.cached := by rw [hfr1]
  have hi1 : infoOf r1 = some i := hP1.info
  -- the transform function
  have hgt : ∃ r2, getTransform t r1 i = .ok (r2, i) ∧ r2 = { r1 with cached := some i } := by
    unfold getTransform
    cases h : r.cached with
    | none =>
      rw [hca1, h]
      simp only [hfl1, hcr]
      exact ⟨_, rfl, rfl⟩
    | some s0 =>
      have hs0 : s0 = i := hca s0 h
      subst hs0
      rw [hca1, h]
      refine ⟨r1, rfl, ?_⟩
      have : r1.cached = some s0 := by rw [hca1, h]
      cases r1; simp only at this; subst this; rfl
  obtain ⟨r2, hg, hr2⟩ := hgt
  have hap' : t.apply i r2.flags i r1.ub.prevRow outLen = some out := by
    have : r2.flags = f := by rw [hr2]; exact hfl1
    rw [this, hrow1]
    exact hap
  refine ⟨{ r2 with sub := r2.sub.advance }, pend', ?_, ?_, ?_, ?_, ?_, ?_⟩
  · unfold nextRowImpl
    rw [hrun]
    simp only [hi1, hg]
    rw [if_neg (by rw [hrl]; simp), hap']
  · rw [hr2]
    refine ⟨hP1.out, hP1.info, hP1.trace, ?_, hP1.hN⟩
    have : ({ r1 with cached := some i } : R).sub.advance.caf = r1.sub.caf := (advance_dims _).2.2.2
    rcases hP1.caf with ⟨a, b, c⟩ | ⟨a, b, c⟩
    · exact Or.inl ⟨by show ({ r1 with cached := some i } : R).sub.advance.caf = false; rw [this]; exact a, b, c⟩
    · exact Or.inr ⟨by show ({ r1 with cached := some i } : R).sub.advance.caf = true; rw [this]; exact a, b, c⟩
  · rw [hr2]; exact hinv1
  · rw [hr2]; exact hrow1
  · rw [hr2]; exact hpend1
  · unfold RowImplFrame
    rw [hr2, cachedIs_getD hca]
    unfold RowFrame at hfr1
    have hsub : r1.sub = { r.sub with caf := r1.sub.caf } := by rw [hfr1]
    show ({ ({ r1 with cached := some i } : R) with sub := r1.sub.advance } : R) = _
    have hadv : r1.sub.advance = { r.sub.advance with caf := r1.sub.advance.caf } := by
      rw [hsub, advance_caf]
    rw [hadv]
    generalize r1.sub.advance.caf = c
    rw [hfr1]

/-! ## the non-interlaced row loop -/

/-- **the non-interlaced loop of `next_frame` with a row transformation**: rows `k..H` are written one after the
    other, `OL` (the output line size) bytes apart, behind the first `k` rows of the buffer; they are `conv` of the
    specification's reconstruction of the scanlines of `S` -/
theorem frameRowsT_trace (cfg : Cfg) {t : TCfg} {f : Flags} (i : Info) (hcr : t.create i f = .ok ())
    (N : Nat) (dEnd : Dec) (bEnd : Bytes) (rb : Nat → Nat) (unit W H LS OL : Nat) (conv : Bytes → Bytes)
    (hLS : 1 ≤ LS) (hOL : 1 ≤ OL) (hrb : rb W = LS) (hunit : 1 ≤ unit) (hdvd : unit ∣ LS)
    (happ : ∀ row : Bytes, row.length = LS → t.apply i f i row OL = some (conv row) ∧ (conv row).length = OL) :
    ∀ (n k : Nat) (r : R) (buf S : Bytes) (pend : List (Ev × Bytes)), k + n = H →
      Pending cfg i N r pend dEnd bEnd → r.ub.abs.pending ++ dataOf pend = S → r.ub.Inv → r.bpp = unit → r.flags = f →
      CachedIs i r → r.sub.rowlen = LS + 1 → r.sub.width = W → SubWf r.sub →
      Rows r.sub ((List.range' k n).map fun l => (0, l, W)) →
      ScanlinesOk rb ((List.range' k n).map fun l => (0, l, W)) S →
      (k = 0 → r.ub.prevRow = []) → (k ≠ 0 → r.ub.prevRow.length = LS) → H * OL ≤ buf.length →
      ∃ r' pend', frameRows cfg t OL n k r buf =
          (r', buf.take (k * OL) ++
            (((unfilterScanlines unit rb ((List.range' k n).map fun l => (0, l, W)) r.ub.prevRow S).map conv).flatten ++
              buf.drop (H * OL)), none) ∧
        Pending cfg i N r' pend' dEnd bEnd ∧ r'.sub.cur = none ∧ SameEnv r r' ∧
        r'.sub.width = r.sub.width ∧ r'.sub.height = r.sub.height ∧ CachedIs i r' := by
  intro n
  induction n with
  | zero =>
    intro k r buf S pend hk hP _ _ _ _ hca _ _ _ hrows _ _ _ hbuf
    refine ⟨r, pend, ?_, hP, hrows.cur_none, SameEnv.refl r, rfl, rfl, hca⟩
    simp only [frameRows, List.range'_zero, List.map_nil, unfilterScanlines, List.flatten_nil, List.nil_append]
    simp only [Nat.add_zero] at hk
    subst hk
    rw [List.take_append_drop]
  | succ n ih =>
    intro k r buf S pend hk hP hS hinv hbpp hfl hca hrl hw hwf hrows hok hp0 hp1 hbuf
    rw [List.range'_succ, List.map_cons] at hrows hok ⊢
    obtain ⟨hlen, hhead, hrest⟩ := hok
    obtain ⟨ft, hft⟩ := ofNat?_of_le hhead
    rw [hrb] at hlen hrest
    have hprev : r.ub.prevRow = [] ∨ r.ub.prevRow.length = (LS + 1) - 1 := by
      by_cases hk0 : k = 0
      · exact Or.inl (hp0 hk0)
      · exact Or.inr (by rw [hp1 hk0]; omega)
    have hdl : ((S.drop 1).take LS).length = LS := by simp only [List.length_take, List.length_drop]; omega
    have hrawlen : (unfilterImpl ft r.bpp r.ub.prevRow ((S.drop 1).take LS)).length = LS := by
      rw [unfilterImpl_length]; exact hdl
    obtain ⟨hap, hcl⟩ := happ _ hrawlen
    obtain ⟨r1, pend1, hrun, hP1, hinv1, hrow1, hpend1, hfr1⟩ :=
      nextRowImplT_trace cfg i hcr N (LS + 1) OL ft dEnd bEnd (by omega) pend r hfl hca hP hinv hprev
        (by rw [hS]; omega) (by rw [hS]; exact hft) (conv (unfilterImpl ft r.bpp r.ub.prevRow ((S.drop 1).take LS)))
        (by rw [hS]; exact hap)
    obtain ⟨hsub1, hbpp1, hfl1, hca1, _⟩ := hfr1.facts
    rw [hS] at hrow1 hpend1
    have hsub : (LS + 1) - 1 = LS := by omega
    rw [hsub] at hrow1
    -- the row is the specification's
    have hspec : unfilterImpl ft r.bpp r.ub.prevRow ((S.drop 1).take LS) =
        reconRow ft unit (if k = 0 then [] else r.ub.prevRow) ((S.drop 1).take LS) := by
      rw [hbpp, unfilterImpl_eq_spec ft unit hunit _ _ (by rw [hdl]; exact hdvd) (by rw [hdl]; simpa using hprev)]
      by_cases hk0 : k = 0
      · rw [if_pos hk0, hp0 hk0]
      · rw [if_neg hk0]
    generalize hrowv : unfilterImpl ft r.bpp r.ub.prevRow ((S.drop 1).take LS) = row at hrun hrow1 hspec hcl hrawlen
    have hkH : k + 1 ≤ H := by omega
    have hkOL : (k + 1) * OL ≤ buf.length := Nat.le_trans (Nat.mul_le_mul_right _ hkH) hbuf
    have hkOL' : k * OL + OL = (k + 1) * OL := by rw [Nat.succ_mul]
    have hbuf1 : H * OL ≤ (setSlice buf (k * OL) (conv row)).length := by
      rw [setSlice_length _ _ _ (by rw [hcl]; omega)]; exact hbuf
    have hdrop1 : (setSlice buf (k * OL) (conv row)).drop (H * OL) = buf.drop (H * OL) := by
      have hle : (k + 1) * OL ≤ H * OL := Nat.mul_le_mul_right _ hkH
      unfold setSlice
      have hl : (buf.take (k * OL) ++ conv row).length = (k + 1) * OL := by
        simp only [List.length_append, List.length_take, hcl]; omega
      rw [List.drop_append, List.drop_of_length_le (by rw [hl]; exact hle), List.nil_append, hl, List.drop_drop, hcl]
      congr 1; omega
    obtain ⟨r2, pend2, hrun2, hP2, hcur2, hse2, hw2, hh2, hca2⟩ := ih (k + 1) r1 (setSlice buf (k * OL) (conv row))
      (S.drop (LS + 1)) pend1
      (by omega) hP1 hpend1 hinv1 (by rw [hbpp1]; exact hbpp) (by rw [hfl1]; exact hfl) (cachedIs_after hca hca1)
      (by rw [hsub1]; exact (advance_rowlen _).trans hrl) (by rw [hsub1]; exact (advance_width _).trans hw)
      (by rw [hsub1]; exact hwf.advance) (by rw [hsub1]; exact (hrows.advance hwf).caf _)
      (by rw [Nat.add_comm LS 1]; exact hrest) (by omega) (fun _ => by rw [hrow1]; exact hrawlen) hbuf1
    refine ⟨r2, pend2, ?_, hP2, hcur2, hfr1.sameEnv.trans hse2, ?_, ?_, hca2⟩
    · rw [frameRows, if_neg (by omega), hrl, hrun]
      simp only
      rw [hrun2]
      congr 1
      congr 1
      have e1 : (setSlice buf (k * OL) (conv row)).take ((k + 1) * OL) = buf.take (k * OL) ++ conv row := by
        have := setSlice_take buf (conv row) (k * OL) (by omega)
        rw [hcl, hkOL'] at this; exact this
      have e2 : unfilterScanlines unit rb ((0, k, W) :: (List.range' (k + 1) n).map fun l => (0, l, W)) r.ub.prevRow S =
          row :: unfilterScanlines unit rb ((List.range' (k + 1) n).map fun l => (0, l, W)) row (S.drop (LS + 1)) := by
        simp only [unfilterScanlines, hft, hrb]
        rw [← hspec, Nat.add_comm 1 LS]
      rw [e1, e2, hrow1, hdrop1, List.map_cons, List.flatten_cons, List.append_assoc, List.append_assoc]
    · rw [hw2, hsub1]; exact advance_width _
    · rw [hh2, hsub1]; exact advance_height _

/-! ## the interlaced row loop -/

/-- `next_interlaced_row` on a row `c` (line `c.line` of width `w`): the transformation's output for the row the
    specification reconstructs from the next scanline of `S` -/
theorem nextInterlacedRowT_row (cfg : Cfg) {t : TCfg} {f : Flags} (i : Info) {W0 : Nat} (hcv : t.Converts f i W0)
    (hleg : (i.color, i.depth) ∈ legalPairs) (N : Nat) (dEnd : Dec) (bEnd : Bytes) (pend : List (Ev × Bytes)) (r : R)
    (S : Bytes) (c : IInfo) (l w : Nat) (ft : FilterType) (hcl : c.line = l) (hcw : widthOf r.sub c = w)
    (hrlc : rowlenOf i.color i.depth r.sub c = rawRowLengthFromWidth i.color i.depth w)
    (hfl : r.flags = f) (hbpp : r.bpp = bytesPerPixel i.color i.depth)
    (hca : CachedIs i r) (hP : Pending cfg i N r pend dEnd bEnd)
    (hS : r.ub.abs.pending ++ dataOf pend = S) (hinv : r.ub.Inv) (hcur : r.sub.cur = some c)
    (hw1 : 1 ≤ w) (hwW : w ≤ r.sub.width) (hW0 : r.sub.width ≤ W0)
    (hprev : l ≠ 0 → r.ub.prevRow = [] ∨ r.ub.prevRow.length + 1 = rawRowLengthFromWidth i.color i.depth w)
    (hlen : rawRowLengthFromWidth i.color i.depth w ≤ S.length)
    (hft : FilterType.ofNat? (S.headD 0).toNat = some ft) :
    ∃ r' pend', nextInterlacedRow cfg t r =
        (r', .row c (t.conv f i w (reconRow ft (bytesPerPixel i.color i.depth) (if l = 0 then [] else r.ub.prevRow)
          ((S.drop 1).take (rawRowLengthFromWidth i.color i.depth w - 1))))) ∧
      Pending cfg i N r' pend' dEnd bEnd ∧ r'.ub.Inv ∧
      r'.ub.prevRow = reconRow ft (bytesPerPixel i.color i.depth) (if l = 0 then [] else r.ub.prevRow)
          ((S.drop 1).take (rawRowLengthFromWidth i.color i.depth w - 1)) ∧
      r'.ub.abs.pending ++ dataOf pend' = S.drop (rawRowLengthFromWidth i.color i.depth w) ∧
      r'.sub = { r.sub.advance with caf := r'.sub.caf } ∧ r'.bpp = r.bpp ∧ r'.flags = r.flags ∧
      r'.cached = some (r.cached.getD i) ∧ SameEnv r r' := by
  have hd := (legal_pos hleg).2.2
  have hod := (legal_pos hcv.outLegal).2.2
  have hrl2 := rowlen_ge2 hleg hw1
  generalize hRL : rawRowLengthFromWidth i.color i.depth w = RL at *
  -- the reader `read_row` works on
  have hinfo : infoOf r = some i := hP.info
  obtain ⟨rS, hrS⟩ : ∃ x : R, x = { r with scratchLen := outLineSize t i r.flags r.sub.width } := ⟨_, rfl⟩
  have hni : nextInterlacedRow cfg t r = readRow cfg t rS (outLineSize t i r.flags r.sub.width) := by
    subst hrS; unfold nextInterlacedRow; simp only [hinfo]
  have hcurS : rS.sub.cur = some c := by rw [hrS]; exact hcur
  have hrr := readRow_some cfg t rS (outLineSize t i r.flags r.sub.width) c hcurS
  generalize hr0 : (if c.line = 0 then ({ rS with ub := rS.ub.resetPrev } : R) else rS) = r0 at hrr
  have hr0' : r0 = { r with scratchLen := outLineSize t i r.flags r.sub.width, ub := if l = 0 then r.ub.resetPrev else r.ub } := by
    subst hr0 hrS hcl; by_cases hl : c.line = 0 <;> simp [hl]
  have hub0 : r0.ub = if l = 0 then r.ub.resetPrev else r.ub := by rw [hr0']
  have hpend0 : r0.ub.abs.pending = r.ub.abs.pending := by
    rw [hub0]; by_cases hl : l = 0
    · rw [if_pos hl, UB.abs_resetPrev]; rfl
    · rw [if_neg hl]
  have hprev0 : r0.ub.prevRow = if l = 0 then [] else r.ub.prevRow := by
    rw [hub0]; by_cases hl : l = 0
    · rw [if_pos hl, if_pos hl, prevRow_resetPrev]
    · rw [if_neg hl, if_neg hl]
  have hinv0 : r0.ub.Inv := by
    rw [hub0]; by_cases hl : l = 0
    · rw [if_pos hl]; exact UB.inv_resetPrev _ hinv
    · rw [if_neg hl]; exact hinv
  have hP0 : Pending cfg i N r0 pend dEnd bEnd := by
    rw [hr0']; exact ⟨hP.out, hP.info, hP.trace, hP.caf, hP.hN⟩
  have hprev0' : r0.ub.prevRow = [] ∨ r0.ub.prevRow.length = RL - 1 := by
    rw [hprev0]; by_cases hl : l = 0
    · rw [if_pos hl]; exact Or.inl rfl
    · rw [if_neg hl]
      rcases hprev hl with h | h
      · exact Or.inl h
      · exact Or.inr (by omega)
  have hdl : ((S.drop 1).take (RL - 1)).length = RL - 1 := by simp only [List.length_take, List.length_drop]; omega
  have hbpp0 : r0.bpp = r.bpp := by rw [hr0']
  have hspec : unfilterImpl ft r0.bpp r0.ub.prevRow ((S.drop 1).take (RL - 1)) =
      reconRow ft (bytesPerPixel i.color i.depth) (if l = 0 then [] else r.ub.prevRow) ((S.drop 1).take (RL - 1)) := by
    rw [hbpp0, hbpp, unfilterImpl_eq_spec ft _ (bpp_total _ _ hleg).2 _ _
      (by rw [hdl, ← hRL]; exact rowlen_multiple _ _ _ hleg) (by rw [hdl]; exact hprev0'), hprev0]
  generalize hrowv : reconRow ft (bytesPerPixel i.color i.depth) (if l = 0 then [] else r.ub.prevRow)
      ((S.drop 1).take (RL - 1)) = row at hspec ⊢
  have hrowlen : row.length + 1 = RL := by
    rw [← hspec, unfilterImpl_length, hdl]; omega
  obtain ⟨hap, hcl'⟩ := hcv.conv_eq (row := row) hw1 (Nat.le_trans hwW hW0) (by rw [hRL]; exact hrowlen)
  obtain ⟨r1, pend1, hrun, hP1, hinv1, hrow1, hpend1, hfr1⟩ :=
    nextRowImplT_trace cfg i hcv.create N RL (outLineSize t i f w) ft dEnd bEnd hrl2 pend r0 (by rw [hr0']; exact hfl)
      (by intro s0 hs0; rw [hr0'] at hs0; exact hca s0 hs0)
      hP0 hinv0 hprev0' (by rw [hpend0, hS]; exact hlen) (by rw [hpend0, hS]; exact hft) (t.conv f i w row)
      (by rw [hpend0, hS, hspec]; exact hap)
  rw [hpend0, hS] at hrow1 hpend1
  obtain ⟨hsub1, hbpp1, hfl1, hca1, _⟩ := hfr1.facts
  rw [hspec] at hrow1
  have hse : SameEnv r r1 := by
    refine SameEnv.trans (b := r0) ?_ hfr1.sameEnv
    rw [hr0']; exact ⟨rfl, rfl, rfl, rfl, rfl, rfl, rfl⟩
  have hsub0 : r0.sub = r.sub := by rw [hr0']
  refine ⟨r1, pend1, ?_, hP1, hinv1, hrow1, hpend1, by rw [← hsub0]; exact hsub1, hbpp1.trans hbpp0,
    by rw [hfl1, hr0'], by rw [hca1, hr0'], hse⟩
  rw [hni, hrr]
  have hinfo0 : infoOf r0 = some i := hP0.info
  simp only [hinfo0]
  have hfl0 : r0.flags = f := by rw [hr0']; exact hfl
  have hols : lineSizeFor t r0 i c = outLineSize t i f w := by
    rw [lineSizeFor_eq, hsub0, hcw, hfl0]
  have hbl : ¬ outLineSize t i r.flags r.sub.width < lineSizeFor t r0 i c := by
    rw [hols, hfl, outLineSize_eq, outLineSize_eq]
    have := rowlen_mono (c := (t.outColorDepth i f).1) hod hwW
    omega
  have hrlo : rowlenOf i.color i.depth r0.sub c = RL := by rw [hsub0]; exact hrlc
  rw [if_neg hbl, hols, hrlo, hrun]

/-- the rows with their converted contents, as `Adam7.deinterlace` takes them -/
def passRowsT (conv : Nat → Bytes → Bytes) (ls : List (Nat × Nat × Nat)) (rows : List Bytes) : List (Adam7.Adam7Info × Bytes) :=
  (ls.zip rows).map fun x => ({ pass := x.1.1, line := x.1.2.1, width := x.1.2.2 }, conv x.1.2.2 x.2)

/-- **the interlaced loop of `next_frame` with a row transformation**: `next_interlaced_row` + `expand_pass` until
    `None` is the specification's `Adam7.deinterlace` — with the OUTPUT line size and bits per pixel — of the
    transformation's output for the specification's reconstructed scanlines of `S` -/
theorem frameInterlacedT_trace (cfg : Cfg) {t : TCfg} {f : Flags} (i : Info) (W H : Nat) (hcv : t.Converts f i W)
    (hleg : (i.color, i.depth) ∈ legalPairs) (N : Nat) (dEnd : Dec) (bEnd : Bytes) (hH : 1 ≤ H) :
    ∀ (ls : List (Nat × Nat × Nat)) (r : R) (buf S : Bytes) (pend : List (Ev × Bytes)) (fuel : Nat), ls.length < fuel →
      Pending cfg i N r pend dEnd bEnd → r.ub.abs.pending ++ dataOf pend = S → r.ub.Inv →
      r.bpp = bytesPerPixel i.color i.depth → r.flags = f → CachedIs i r →
      r.sub.width = W → r.sub.height = H → IterWf true r.sub → CurOk true r.sub →
      PrevOk i.color i.depth r.sub r.ub.prevRow → Rows r.sub ls →
      ScanlinesOk (fun w => rawRowLengthFromWidth i.color i.depth w - 1) ls S →
      H * outLineSize t i f W ≤ buf.length →
      ∃ r' buf', frameInterlaced cfg t (outLineSize t i f W)
            (samplesOf (t.outColorDepth i f).1 * (t.outColorDepth i f).2) fuel r buf = (r', buf', none) ∧
        Adam7.deinterlace buf (outLineSize t i f W) (samplesOf (t.outColorDepth i f).1 * (t.outColorDepth i f).2)
          (passRowsT (t.conv f i) ls (unfilterScanlines (bytesPerPixel i.color i.depth)
            (fun w => rawRowLengthFromWidth i.color i.depth w - 1) ls r.ub.prevRow S)) = some buf' ∧
        buf'.length = buf.length ∧
        Pending cfg i N r' [] dEnd bEnd ∧ r'.sub.cur = none ∧ r'.sub.caf = true ∧ r'.dec = dEnd ∧ avail r' = bEnd ∧
        r'.remaining + 1 = N ∧ SameEnv r r' ∧ r'.sub.width = r.sub.width ∧ r'.sub.height = r.sub.height ∧
        CachedIs i r' := by
  intro ls
  induction ls with
  | nil =>
    intro r buf S pend fuel hf hP _ _ _ _ hca _ _ _ _ _ hrows _ _
    obtain ⟨r', hrun, h1, h2, h3, h4, h5, h6, _, h8⟩ := nextInterlacedRow_none (t := t) hP hrows.cur_none
    cases fuel with
    | zero => omega
    | succ fuel =>
      refine ⟨r', buf, ?_, ?_, rfl, h1, by rw [h2]; exact hrows.cur_none, by rw [h2], h3, h4, h5, h6, by rw [h2], by rw [h2],
        fun s0 hs0 => hca s0 (h8 ▸ hs0)⟩
      · rw [frameInterlaced, hrun]
      · simp [passRowsT, unfilterScanlines, Adam7.deinterlace, Adam7.deinterlaceWith, Adam7.foldOpt]
  | cons x rest ih =>
    intro r buf S pend fuel hf hP hS hinv hbpp hfl hca hw hh hiw hcu hpo hrows hok hbuf
    obtain ⟨p, l, w⟩ := x
    obtain ⟨hlen, hhead, hrest⟩ := hok
    simp only at hlen hrest
    obtain ⟨ft, hft⟩ := ofNat?_of_le hhead
    -- the current row
    have hcurE : ∃ c, r.sub.cur = some c ∧ (p, l, w) = c.desc r.sub.width := by
      rcases hrows with ⟨c, h1, h2⟩ | ⟨_, h2⟩
      · exact ⟨c, h1, (List.cons.inj h2).1⟩
      · cases h2
    obtain ⟨c, hcur, hdesc⟩ := hcurE
    obtain ⟨pc, lc, wc, hc, hp1, hp7, hwp, hw1, hlp⟩ := curOk_adam7 hiw hcu hcur
    subst hc
    simp only [IInfo.desc, Prod.mk.injEq] at hdesc
    obtain ⟨h1, h2, h3⟩ := hdesc
    subst h1 h2 h3
    have hwle : w ≤ r.sub.width := by rw [hwp]; exact passW_le _ _ ⟨hp1, hp7⟩
    have hrl2 := rowlen_ge2 hleg hw1
    have hprev : l ≠ 0 → r.ub.prevRow = [] ∨ r.ub.prevRow.length + 1 = rawRowLengthFromWidth i.color i.depth w := by
      unfold PrevOk at hpo; rw [hcur] at hpo; exact hpo
    obtain ⟨r1, pend1, hrun, hP1, hinv1, hrow1, hpend1, hsub1, hbpp1, hfl1, hca1, hse1⟩ :=
      nextInterlacedRowT_row cfg i hcv hleg N dEnd bEnd pend r S (.adam7 p l w) l w ft rfl rfl rfl hfl hbpp hca hP hS hinv hcur
        hw1 hwle (by rw [hw]; exact Nat.le_refl _) hprev (by omega) hft
    generalize hrowv : reconRow ft (bytesPerPixel i.color i.depth) (if l = 0 then [] else r.ub.prevRow)
      ((S.drop 1).take (rawRowLengthFromWidth i.color i.depth w - 1)) = row at hrun hrow1
    have hrowlen : row.length = rawRowLengthFromWidth i.color i.depth w - 1 := by
      rw [← hrowv]; unfold reconRow; rw [recon_length]
      simp only [List.length_take, List.length_drop]; omega
    have hcl := (hcv.conv_eq (row := row) hw1 (by rw [← hw]; exact hwle) (by rw [hrowlen]; omega)).2
    obtain ⟨buf1, hex, hbl⟩ := expandPass_fits (c := (t.outColorDepth i f).1) (d := (t.outColorDepth i f).2) (W := W) (H := H)
      (w := w) (p := p) (l := l)
      (stride := outLineSize t i f W) (buf := buf) (data := t.conv f i w row) hcv.outLegal ⟨hp1, hp7⟩
      (by rw [hwp, hw]) (by rw [← hh]; exact hlp) hH (outLineSize_eq t i f W) (by rw [hcl]; exact outLineSize_eq t i f w) hbuf
    cases fuel with
    | zero => omega
    | succ fuel =>
      have hadv := advance_ok hiw
      have hpo1 : PrevOk i.color i.depth r.sub.advance row :=
        advance_prev (color := i.color) (depth := i.depth) (prev := row) hiw hcu hcur (by
          simp only [rowlenOf]; rw [hrowlen]; omega)
      obtain ⟨r2, buf2, hrun2, hde2, hbl2, hP2, hcur2, hcaf2, hdec2, hav2, hrem2, hse2, hw2, hh2, hca2⟩ :=
        ih r1 buf1 (S.drop (rawRowLengthFromWidth i.color i.depth w)) pend1 fuel (by simp at hf; omega) hP1 hpend1 hinv1
          (hbpp1.trans hbpp) (hfl1.trans hfl) (cachedIs_after hca hca1)
          (by rw [hsub1]; exact (advance_width _).trans hw) (by rw [hsub1]; exact (advance_height _).trans hh)
          (by rw [hsub1]; exact hadv.1) (by rw [hsub1]; exact hadv.2)
          (by rw [hsub1, hrow1]; exact hpo1) (by rw [hsub1]; exact (hrows.advance hiw.subWf).caf _)
          (by
            have : 1 + (rawRowLengthFromWidth i.color i.depth w - 1) = rawRowLengthFromWidth i.color i.depth w := by omega
            rw [this] at hrest; exact hrest)
          (by rw [hbl]; exact hbuf)
      refine ⟨r2, buf2, ?_, ?_, hbl2.trans hbl, hP2, hcur2, hcaf2, hdec2, hav2, hrem2, hse1.trans hse2, ?_, ?_, hca2⟩
      · rw [frameInterlaced, hrun]
        simp only [hex]
        exact hrun2
      · have e2 : unfilterScanlines (bytesPerPixel i.color i.depth) (fun w => rawRowLengthFromWidth i.color i.depth w - 1)
            ((p, l, w) :: rest) r.ub.prevRow S =
            row :: unfilterScanlines (bytesPerPixel i.color i.depth) (fun w => rawRowLengthFromWidth i.color i.depth w - 1)
              rest row (S.drop (rawRowLengthFromWidth i.color i.depth w)) := by
          simp only [unfilterScanlines, hft, hrowv]
          have : 1 + (rawRowLengthFromWidth i.color i.depth w - 1) = rawRowLengthFromWidth i.color i.depth w := by omega
          rw [this]
        rw [e2]
        simp only [passRowsT, List.zip_cons_cons, List.map_cons]
        rw [deinterlace_cons _ hex]
        rw [hrow1] at hde2
        exact hde2
      · rw [hw2, hsub1]; exact advance_width _
      · rw [hh2, hsub1]; exact advance_height _

end Png.Reader
