import PngVerif.Proofs.ReaderPathsZ2
/-!
# Where a `LimitsExceeded` of the `Reader` comes from (C18, repair 0a2b38f of `read_until_image_data`)

Two places report `DecodingError::LimitsExceeded`:

* the stream decoder (`StreamingDecoder::update`: `reserve_current_chunk`, the `iCCP`/text inflaters) — a fatal
  error, the decoder is poisoned (`dec.state = none`) and `Proofs/ReaderEnd.poisoned_absorbing` applies;
* `Reader::read_until_image_data` when `Limits` refuses the row buffers of the (sub)frame whose data it just
  reached (mod.rs:366-374) — the stream decoder stays usable, nothing of the new sub-frame is installed and the
  reader is ended (`Refused`, `Proofs/ReaderInv`).

`*_lim`: every function of `Model/Reader.lean` below `next_frame` / `next_frame_info` that fails with the limits
error leaves a poisoned stream decoder — except `readUntilImageData`, which may also end in the `Refused` state
(`readUntilImageData_limits`).  Hence `nextFrameBuf_limits`, `nextFrameInfo_limits`, `step_limits`: a public call
that answers `LimitsExceeded` and leaves the stream decoder usable refused a frame, and the reader is ended with
the OLD sub-frame still installed.
-/
namespace Png.Reader
open Png Png.Framing

/-- `DecodingError::LimitsExceeded` -/
def Res.isLimits : Res → Bool
  | .err .limits _ => true
  | _ => false

/-- a failed call that reports the limits error leaves a poisoned stream decoder -/
def LimE {α : Type} (x : R × Except Res α) : Prop :=
  ∀ e, x.2 = .error e → e.isLimits = true → x.1.dec.state = none

/-- the same for the public calls (`R × Res`) -/
def LimR (x : R × Res) : Prop := x.2.isLimits = true → x.1.dec.state = none

theorem LimE.ok {α : Type} (r : R) (a : α) : LimE (r, (.ok a : Except Res α)) := fun _ h => by cases h

theorem LimE.notLim {α : Type} (r : R) {e : Res} (h : e.isLimits = false) : LimE (r, (.error e : Except Res α)) := by
  intro e' he hl
  cases he
  rw [h] at hl; cases hl

theorem LimE.cast {α β : Type} {r : R} {e : Res} (h : LimE (r, (.error e : Except Res α))) :
    LimE (r, (.error e : Except Res β)) := by
  intro e' he hl
  cases he
  exact h e rfl hl

theorem ofFraming_limits {e : Framing.Err} (h : (ofFraming e).isLimits = true) : e = .limits := by
  cases e <;> first | rfl | cases h

/-- **`decode_next`**: the limits error comes from `update`, which poisons the decoder on every error -/
theorem decodeNext'_lim (cfg : Cfg) (r : R) : LimE (decodeNext' cfg r) := by
  unfold decodeNext'
  simp only
  split
  · exact LimE.notLim _ rfl
  · split
    · rename_i d' e hu
      intro e' he _
      show d'.state = none
      exact error_poisons cfg _ d' _ e hu
    · exact LimE.ok _ _

/-- a loop around `decode_next` whose own exits never report the limits error -/
theorem gloop_lim {α : Type} (cfg : Cfg) (B : Body α)
    (hpre : ∀ r x, B.pre r = some x → LimE x)
    (hpost : ∀ r ev data x, B.post r ev data = .inl x → LimE x) :
    ∀ (fuel : Nat) (r : R), LimE (gloop cfg B fuel r) := by
  intro fuel
  induction fuel with
  | zero => intro r; exact LimE.notLim _ rfl
  | succ fuel ih =>
    intro r
    rw [gloop]
    cases hp : B.pre r with
    | some x => exact hpre r x hp
    | none =>
      simp only
      have h1 := decodeNext'_lim cfg (B.prep r)
      cases hd : decodeNext' cfg (B.prep r) with
      | mk r' res =>
        rw [hd] at h1
        cases res with
        | error e => simp only; exact h1.cast
        | ok p =>
          obtain ⟨ev, data⟩ := p
          simp only
          cases hpo : B.post r' ev data with
          | inl x => exact hpost r' ev data x hpo
          | inr r'' => exact ih r''

theorem rdReadUntilImageData_lim (cfg : Cfg) (fuel : Nat) (r : R) : LimE (rdReadUntilImageData cfg fuel r) := by
  rw [rdReadUntilImageData_gloop]
  refine gloop_lim cfg bodyUntil (fun _ _ h => by cases h) (fun r ev data x hx => ?_) fuel r
  cases hd : data.isEmpty with
  | false =>
    simp only [bodyUntil, hd, Bool.false_eq_true, if_false, Sum.inl.injEq] at hx
    subst hx; exact LimE.notLim _ rfl
  | true =>
    simp only [bodyUntil, hd, if_true] at hx
    cases ev with
    | chunkBegin len ty =>
      simp only at hx
      by_cases hty : ty = IDAT ∨ ty = fdAT
      · rw [if_pos hty] at hx; cases hx; exact LimE.ok _ _
      · rw [if_neg hty] at hx; cases hx
    | imageEnd => simp only [Sum.inl.injEq] at hx; subst hx; exact LimE.notLim _ rfl
    | _ => cases hx

theorem finishDecodingImageData_lim (cfg : Cfg) (fuel : Nat) (r : R) : LimE (finishDecodingImageData cfg fuel r) := by
  rw [finishDecodingImageData_gloop]
  refine gloop_lim cfg bodyFinish (fun _ _ h => by cases h) (fun r ev data x hx => ?_) fuel r
  cases ev <;> simp only [bodyFinish, Sum.inl.injEq, reduceCtorEq] at hx <;>
    first | (subst hx; first | exact LimE.ok _ _ | exact LimE.notLim _ rfl) | cases hx

theorem markFlushed_notLim {r : R} {e : Res} (h : markFlushed r = .error e) : e.isLimits = false := by
  have := markFlushed_err h
  cases e <;> first | rfl | cases this

theorem nextRawRow_lim (cfg : Cfg) (rowlen fuel : Nat) (r : R) : LimE (nextRawRow cfg rowlen fuel r) := by
  rw [nextRawRow_gloop]
  refine gloop_lim cfg (bodyRaw rowlen) (fun r x hx => ?_) (fun r ev data x hx => ?_) fuel r
  · simp only [bodyRaw] at hx
    split at hx
    · split at hx
      · cases hx; exact LimE.notLim _ rfl
      · cases hx
    · simp only [Option.some.injEq] at hx
      subst hx
      cases r.ub.unfilterCurr rowlen r.bpp with
      | ok u => exact LimE.ok _ _
      | unknownFilter _ => exact LimE.notLim _ rfl
      | panic => exact LimE.notLim _ rfl
  · simp only [bodyRaw, rawPost] at hx
    cases ev with
    | imageDataFlushed =>
      simp only at hx
      cases hm : markFlushed { r with ub := r.ub.extend data } with
      | error e => rw [hm] at hx; cases hx; exact LimE.notLim _ (markFlushed_notLim hm)
      | ok r3 => rw [hm] at hx; cases hx
    | _ => cases hx <;> exact LimE.notLim _ rfl

theorem finishDecoding_lim (cfg : Cfg) (r : R) : LimE (finishDecoding cfg r) := by
  unfold finishDecoding
  split
  · exact LimE.notLim _ rfl
  · split
    · exact LimE.ok _ _
    · have h1 := finishDecodingImageData_lim cfg (fuelOf r) r
      cases hx : finishDecodingImageData cfg (fuelOf r) r with
      | mk r' res =>
        rw [hx] at h1
        cases res with
        | error e => exact h1
        | ok u =>
          simp only
          cases hm : markFlushed r' with
          | error e => exact LimE.notLim _ (markFlushed_notLim hm)
          | ok r2 => exact LimE.ok _ _

theorem getTransform_notLim {t : TCfg} {r : R} {i : Info} {e : Res} (h : getTransform t r i = .error e) :
    e.isLimits = false := by
  unfold getTransform at h
  split at h
  · cases h
  · split at h
    · split at h <;> (cases h; rfl)
    · cases h

theorem nextRowImpl_lim (cfg : Cfg) (t : TCfg) (r : R) (rl ol : Nat) : LimE (nextRowImpl cfg t r rl ol) := by
  rw [nextRowImpl_post]
  have h1 := nextRawRow_lim cfg rl (fuelOf r) r
  cases hx : nextRawRow cfg rl (fuelOf r) r with
  | mk r1 res =>
    rw [hx] at h1
    unfold rowImplPost
    cases res with
    | error e => simp only; exact h1.cast
    | ok u =>
      simp only
      split
      · exact LimE.notLim _ rfl
      · cases infoOf r1 with
        | none => exact LimE.notLim _ rfl
        | some i =>
          simp only
          cases hg : getTransform t r1 i with
          | error e => exact LimE.notLim _ (getTransform_notLim hg)
          | ok p =>
            obtain ⟨r2, snap⟩ := p
            simp only
            cases t.apply snap r2.flags i r1.ub.prevRow ol with
            | none => exact LimE.notLim _ rfl
            | some o => exact LimE.ok _ _

theorem readRow_lim (cfg : Cfg) (t : TCfg) (r : R) (n : Nat) : LimR (readRow cfg t r n) := by
  cases hcur : r.sub.cur with
  | none =>
    rw [readRow_none cfg t r n hcur]
    unfold endRes
    have := finishDecoding_lim cfg r
    cases hx : finishDecoding cfg r with
    | mk r' res =>
      rw [hx] at this
      cases res with
      | error e => exact fun hl => this e rfl hl
      | ok u => intro hl; cases hl
  | some ii =>
    rw [readRow_some' cfg t r n ii hcur]
    cases infoOf (rowStart r ii) with
    | none => intro hl; cases hl
    | some i =>
      simp only
      split
      · intro hl; cases hl
      · have := nextRowImpl_lim cfg t (rowStart r ii) (rowlenOf i.color i.depth (rowStart r ii).sub ii)
          (lineSizeFor t (rowStart r ii) i ii)
        cases hx : nextRowImpl cfg t (rowStart r ii) (rowlenOf i.color i.depth (rowStart r ii).sub ii)
          (lineSizeFor t (rowStart r ii) i ii) with
        | mk r' res =>
          rw [hx] at this
          cases res with
          | error e => exact fun hl => this e rfl hl
          | ok out => intro hl; cases hl

theorem nextInterlacedRow_lim (cfg : Cfg) (t : TCfg) (r : R) : LimR (nextInterlacedRow cfg t r) := by
  unfold nextInterlacedRow
  cases infoOf r with
  | none => intro hl; cases hl
  | some i => exact readRow_lim cfg t _ _

/-- the same for the row loops of `next_frame` (`R × Bytes × Option Res`) -/
def LimB (x : R × Bytes × Option Res) : Prop := ∀ e, x.2.2 = some e → e.isLimits = true → x.1.dec.state = none

theorem frameRows_lim (cfg : Cfg) (t : TCfg) (ls : Nat) : ∀ (n k : Nat) (r : R) (buf : Bytes),
    LimB (frameRows cfg t ls n k r buf) := by
  intro n
  induction n with
  | zero => intro k r buf e he; cases he
  | succ n ih =>
    intro k r buf
    rw [frameRows]
    split
    · intro e he; cases he
    · have h1 := nextRowImpl_lim cfg t r r.sub.rowlen ls
      cases hx : nextRowImpl cfg t r r.sub.rowlen ls with
      | mk r' res =>
        rw [hx] at h1
        cases res with
        | error e => intro e' he hl; cases he; exact h1 e rfl hl
        | ok out => exact ih _ _ _

theorem frameInterlaced_lim (cfg : Cfg) (t : TCfg) (stride bits : Nat) : ∀ (fuel : Nat) (r : R) (buf : Bytes),
    LimB (frameInterlaced cfg t stride bits fuel r buf) := by
  intro fuel
  induction fuel with
  | zero => intro r buf e he hl; cases he; cases hl
  | succ fuel ih =>
    intro r buf
    rw [frameInterlaced]
    have h1 := nextInterlacedRow_lim cfg t r
    cases hx : nextInterlacedRow cfg t r with
    | mk r' res =>
      rw [hx] at h1
      cases res with
      | row ii data =>
        cases ii with
        | null l => intro e he hl; cases he; cases hl
        | adam7 p l w =>
          simp only
          cases Adam7.expandPass buf stride data { pass := p, line := l, width := w } bits with
          | none => intro e he hl; cases he; cases hl
          | some buf' => exact ih r' buf'
      | noRow => intro e he; cases he
      | err c w => intro e he hl; cases he; exact h1 hl
      | header => intro e he hl; cases he; cases hl
      | frame _ _ => intro e he hl; cases he; cases hl
      | frameInfo _ => intro e he hl; cases he; cases hl
      | done => intro e he hl; cases he; cases hl
      | panic _ => intro e he hl; cases he; cases hl

theorem frameBody_lim (cfg : Cfg) (t : TCfg) (r : R) (il : Bool) (ls bits : Nat) (buf : Bytes) :
    LimB (frameBody cfg t r il ls bits buf) := by
  unfold frameBody
  split
  · exact frameInterlaced_lim cfg t ls bits _ r buf
  · simp only
    split
    · intro e he hl; cases he; cases hl
    · exact frameRows_lim cfg t ls _ _ r buf

/-- **`next_frame` inside the frame's data**: a limits error is a fatal error of the stream decoder -/
theorem frameInto_lim (cfg : Cfg) (t : TCfg) (r : R) (buf : Bytes) :
    (frameInto cfg t r buf).2.1.isLimits = true → (frameInto cfg t r buf).1.dec.state = none := by
  unfold frameInto
  cases infoOf r with
  | none => intro hl; cases hl
  | some i =>
    simp only
    split
    · intro hl; cases hl
    · have hb := frameBody_lim cfg t r i.interlaced (outLineSize t i r.flags r.sub.width)
        (samplesOf (t.outColorDepth i r.flags).1 * (t.outColorDepth i r.flags).2) buf
      generalize frameBody cfg t r i.interlaced (outLineSize t i r.flags r.sub.width)
        (samplesOf (t.outColorDepth i r.flags).1 * (t.outColorDepth i r.flags).2) buf = o at hb
      obtain ⟨r2, buf2, res2⟩ := o
      cases res2 with
      | some e => exact fun hl => hb e rfl hl
      | none =>
        simp only
        have h2 := finishDecoding_lim cfg r2
        generalize finishDecoding cfg r2 = o2 at h2
        obtain ⟨r3, res3⟩ := o2
        cases res3 with
        | error e => exact fun hl => h2 e rfl hl
        | ok u => intro hl; cases hl

/-! ## `read_until_image_data`, `next_frame`, `next_frame_info` -/

/-- **`Reader::read_until_image_data` fails with the limits error**: the stream decoder is poisoned (its own
    `Limits` checks), or the reservation of the row buffers was refused (`Refused`: old sub-frame kept, reader ended,
    stream decoder usable) -/
theorem readUntilImageData_limits (cfg : Cfg) (t : TCfg) (r : R) (hB : Base r) (hm : OutMode r) {r' : R} {e : Res}
    (h : readUntilImageData cfg t r = (r', .error e)) (hl : e.isLimits = true) :
    r'.dec.state = none ∨ Refused r r' := by
  have hsp := rdReadUntilImageData_spec cfg (fuelOf r) r (fuelOf_ge r) hB hm
  have hlim := rdReadUntilImageData_lim cfg (fuelOf r) r
  unfold readUntilImageData at h
  generalize rdReadUntilImageData cfg (fuelOf r) r = out at hsp hlim h
  obtain ⟨r1, res⟩ := out
  cases res with
  | error e1 =>
    simp only [Prod.mk.injEq, Except.error.injEq] at h
    obtain ⟨rfl, rfl⟩ := h
    exact Or.inl (hlim e1 rfl hl)
  | ok u =>
    obtain ⟨a1, a2, a3, _⟩ := hsp
    simp only at h
    cases hi : r1.dec.info with
    | none => rw [hi] at a3; cases a3
    | some i =>
      simp only [infoOf, hi] at h
      rcases reserveBytes_cases r1 (outLineSize t i r1.flags (Sub.new i).width) with hr | hr
      · rw [hr] at h
        simp only [Prod.mk.injEq] at h
        exact Or.inr ⟨⟨r1, a1, a2, by rw [hi]; rfl, h.1.symm⟩⟩
      · rw [hr] at h
        simp only at h
        obtain ⟨hb, _⟩ := bpp_total i.color i.depth (a1.base.dinv.legal i hi).pair
        rw [hb] at h
        cases h

/-- what a refused frame leaves, relative to the reader before the public call: no frame remains, the OLD
    sub-frame (its geometry and row iterator) is still installed, marked consumed and without a current row;
    the stream decoder is usable; the transformation flags are untouched; the reader is not finished -/
structure RefusedBy (r r' : R) : Prop where
  remaining : r'.remaining = 0
  sub : r'.sub = { r.sub with cur := none, caf := true }
  live : r'.dec.state ≠ none
  flags : r'.flags = r.flags
  finished : r'.finished = false

theorem RefusedBy.of {t : TCfg} {r r' : R} (hI : Inv t r) (hrem : r.remaining ≠ 0) (h : Refused r r') : RefusedBy r r' := by
  obtain ⟨f1, f2, _, _, f5, _, f7, _⟩ := h.fields
  obtain ⟨r1, _, a2, _, rfl⟩ := h.mid
  exact ⟨f1, f2, a2.state_ne_none, f7, f5.trans (hI.not_finished hrem)⟩

/-- **`next_frame` answers `LimitsExceeded`**: a fatal error of the stream decoder, or the next frame was refused -/
theorem nextFrameBuf_limits (cfg : Cfg) {t : TCfg} (r : R) (buf : Bytes) (hI : Inv t r)
    (hl : (nextFrameBuf cfg t r buf).2.1.isLimits = true) :
    (nextFrameBuf cfg t r buf).1.dec.state = none ∨ RefusedBy r (nextFrameBuf cfg t r buf).1 := by
  by_cases hc : r.sub.cur.isSome = true
  · rw [nextFrameBuf_some cfg t r buf hc] at hl ⊢
    exact Or.inl (frameInto_lim cfg t r buf hl)
  rw [nextFrameBuf_eq, if_neg hc] at hl ⊢
  unfold nextFrameBuf0 at hl ⊢
  by_cases hrem : r.remaining = 0
  · rw [if_pos hrem] at hl; cases hl
  · rw [if_neg hrem] at hl ⊢
    cases hcaf : r.sub.caf with
    | false =>
      rw [hcaf] at hl
      simp only [Bool.false_eq_true, if_false] at hl ⊢
      exact Or.inl (frameInto_lim cfg t r buf hl)
    | true =>
      rw [hcaf] at hl
      simp only [if_true] at hl ⊢
      have hfl := (hI.flushed hcaf).resolve_left hrem
      cases hx : readUntilImageData cfg t r with
      | mk r1 res =>
        rw [hx] at hl
        cases res with
        | error e =>
          simp only at hl ⊢
          exact (readUntilImageData_limits cfg t r hI.base hfl.2 hx hl).imp_right (RefusedBy.of hI hrem)
        | ok u =>
          simp only at hl ⊢
          exact Or.inl (frameInto_lim cfg t r1 buf hl)

theorem nextFrameOp_limits (cfg : Cfg) {t : TCfg} (r : R) (p : UInt8) (hI : Inv t r)
    (hl : (nextFrameOp cfg t r p).2.isLimits = true) :
    (nextFrameOp cfg t r p).1.dec.state = none ∨ RefusedBy r (nextFrameOp cfg t r p).1 := by
  unfold nextFrameOp at hl ⊢
  obtain ⟨i, hi, _⟩ := hI.info
  simp only [infoOf, hi] at hl ⊢
  have h := nextFrameBuf_limits cfg { r with pendingBuf := none }
    (callerBuf r (outLineSize t i r.flags i.width * i.height) p) (hI.setPending none)
  generalize nextFrameBuf cfg t { r with pendingBuf := none }
    (callerBuf r (outLineSize t i r.flags i.width * i.height) p) = out at h hl
  obtain ⟨r1, res, b⟩ := out
  simp only at h hl ⊢
  cases res with
  | err c w =>
    cases c with
    | limits =>
      simp only at hl ⊢
      rcases h rfl with h | h
      · exact Or.inl h
      · exact Or.inr ⟨h.remaining, h.sub, h.live, h.flags, h.finished⟩
    | _ => cases hl
  | _ => cases hl

/-- **`next_frame_info` answers `LimitsExceeded`**: a fatal error of the stream decoder, or the next frame was
    refused — after the rest of the current frame was skipped -/
theorem nextFrameInfo_limits (cfg : Cfg) {t : TCfg} (r : R) (hI : Inv t r)
    (hl : (nextFrameInfo cfg t r).2.isLimits = true) :
    (nextFrameInfo cfg t r).1.dec.state = none ∨ RefusedBy r (nextFrameInfo cfg t r).1 := by
  have tail : ∀ (x : R), Inv t x → x.sub.caf = true → x.remaining ≠ 0 →
      ∀ o : R × Res, o = (match readUntilImageData cfg t x with
        | (r2, .error e) => (r2, e)
        | (r2, .ok ()) =>
          match infoOf r2 >>= (·.fctl) with
          | some fc => (r2, .frameInfo fc)
          | none => (r2, .panic "frame_control.as_ref().unwrap() (mod.rs:352)")) →
      o.2.isLimits = true → o.1.dec.state = none ∨ RefusedBy x o.1 := by
    intro x hIx hcx hrx o ho hlo
    have hfl := (hIx.flushed hcx).resolve_left hrx
    cases hx : readUntilImageData cfg t x with
    | mk r2 res =>
      rw [hx] at ho
      cases res with
      | error e =>
        subst ho
        exact (readUntilImageData_limits cfg t x hIx.base hfl.2 hx hlo).imp_right (RefusedBy.of hIx hrx)
      | ok u =>
        subst ho
        simp only at hlo
        cases hq : (infoOf r2 >>= (·.fctl)) with
        | none => rw [hq] at hlo; cases hlo
        | some fc => rw [hq] at hlo; cases hlo
  unfold nextFrameInfo at hl ⊢
  cases hcaf : r.sub.caf with
  | true =>
    rw [hcaf] at hl
    simp only [if_true, Bool.not_true, Bool.false_eq_true, if_false] at hl ⊢
    cases hrem : r.remaining with
    | zero => rw [hrem] at hl; cases hl
    | succ n =>
      rw [hrem] at hl
      simp only at hl ⊢
      exact tail r hI hcaf (by omega) _ rfl hl
  | false =>
    rw [hcaf] at hl
    simp only [Bool.false_eq_true, if_false, Bool.not_false, if_true] at hl ⊢
    cases hrem : r.remaining - 1 with
    | zero => rw [hrem] at hl; cases hl
    | succ n =>
      rw [hrem] at hl
      simp only at hl ⊢
      have hsp := finishDecoding_spec cfg { r with sub := { r.sub with cur := none } } hI.clearCur rfl
      have hlim := finishDecoding_lim cfg { r with sub := { r.sub with cur := none } }
      generalize finishDecoding cfg { r with sub := { r.sub with cur := none } } = out at hsp hlim hl
      obtain ⟨r1, res⟩ := out
      cases res with
      | error e => exact Or.inl (hlim e rfl hl)
      | ok u =>
        obtain ⟨b1, b2, b3, _, _, b6⟩ := hsp
        simp only at hl ⊢
        have hrem1 : r1.remaining + 1 = r.remaining := b6 hcaf
        have hcaf1 : r1.sub.caf = true := by rw [b3]
        rcases tail r1 b1 hcaf1 (by omega) _ rfl hl with h | h
        · exact Or.inl h
        · refine Or.inr ⟨h.remaining, h.sub.trans ?_, h.live, h.flags.trans b2.flags, h.finished⟩
          rw [b3]

theorem readUntilEndOfInput_lim (cfg : Cfg) (fuel : Nat) (r : R) : LimE (readUntilEndOfInput cfg fuel r) := by
  rw [readUntilEndOfInput_gloop]
  refine gloop_lim cfg bodyEnd (fun _ _ h => by cases h) (fun r ev data x hx => ?_) fuel r
  cases ev <;> simp only [bodyEnd, Sum.inl.injEq, reduceCtorEq] at hx <;>
    first | (subst hx; exact LimE.ok _ _) | cases hx

/-- **`finish` answers `LimitsExceeded`**: a fatal error of the stream decoder -/
theorem finish_lim (cfg : Cfg) (r : R) : LimR (finish cfg r) := by
  unfold finish
  split
  · intro hl; cases hl
  · simp only
    have h := readUntilEndOfInput_lim cfg
      (fuelOf { r with remaining := 0, ub := UB.new, sub := { r.sub with cur := none, caf := true } })
      { r with remaining := 0, ub := UB.new, sub := { r.sub with cur := none, caf := true } }
    generalize readUntilEndOfInput cfg
      (fuelOf { r with remaining := 0, ub := UB.new, sub := { r.sub with cur := none, caf := true } })
      { r with remaining := 0, ub := UB.new, sub := { r.sub with cur := none, caf := true } } = out at h
    obtain ⟨r1, res⟩ := out
    cases res with
    | error e => exact fun hl => h e rfl hl
    | ok u => intro hl; cases hl

/-- **a call of the `Reader` answers `LimitsExceeded`**: either the stream decoder refused something (a fatal
    error: it is poisoned, `poisoned_absorbing`), or the call is a `next_frame` / `next_frame_info` whose
    `read_until_image_data` reached the next frame's data and `Limits` refused its row buffers: then the stream
    decoder is usable, the old sub-frame is still installed and the reader is ended (`RefusedBy`) -/
theorem step_limits (cfg : Cfg) {t : TCfg} (r : R) (op : Op) (hI : Inv t r) (hr : r.isReader = true)
    (hl : (step cfg t r op).2.isLimits = true) :
    (step cfg t r op).1.dec.state = none ∨
      ((op = .nextFrameInfo ∨ ∃ p, op = .nextFrame p) ∧ RefusedBy r (step cfg t r op).1) := by
  obtain ⟨s1, s2, s3, s4, s5⟩ := step_reader cfg t r hr
  obtain ⟨i, hi, _⟩ := hI.info
  cases op with
  | grow n => cases hl
  | readInfo =>
    exfalso
    have : step cfg t r .readInfo = (if r.dead then (r, .err .parameter "model: Decoder consumed by a failed read_info")
        else readInfo cfg t r) := rfl
    rw [this] at hl
    split at hl
    · cases hl
    · unfold readInfo readInfo' at hl
      rw [hr] at hl
      simp only [if_true] at hl
      cases hl
  | readHeader =>
    exfalso
    have : step cfg t r .readHeader = (r, .err .parameter "model: Decoder already consumed") := by
      simp only [step]; rw [if_pos (Or.inl hr)]
    rw [this] at hl; cases hl
  | nextFrame p =>
    rw [s1 p] at hl ⊢
    exact (nextFrameOp_limits cfg r p hI hl).imp_right (fun h => ⟨Or.inr ⟨p, rfl⟩, h⟩)
  | nextRow =>
    rw [s2] at hl ⊢
    exact Or.inl (nextInterlacedRow_lim cfg t _ hl)
  | readRow =>
    rw [s3] at hl ⊢
    simp only [infoOf, hi] at hl ⊢
    exact Or.inl (readRow_lim cfg t _ _ hl)
  | nextFrameInfo =>
    rw [s4] at hl ⊢
    rcases nextFrameInfo_limits cfg { r with pendingBuf := none } (hI.setPending none) hl with h | h
    · exact Or.inl h
    · exact Or.inr ⟨Or.inl rfl, ⟨h.remaining, h.sub, h.live, h.flags, h.finished⟩⟩
  | finish =>
    rw [s5] at hl ⊢
    exact Or.inl (finish_lim cfg _ hl)

end Png.Reader
