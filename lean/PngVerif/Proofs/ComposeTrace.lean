import PngVerif.Proofs.ComposeFraming
import PngVerif.Proofs.ReaderSeq
/-!
# Layer L1 of the C01 composition, part 2: the events of a well-formed chunk sequence

`Trace cfg P d b evs d' b'`: successive `update` calls — each on everything that is left of the input, as
`ReadDecoder::decode_next` makes them, with the caller's `image_data` vector empty at every call — starting
with decoder `d` and input `b` report the events `evs` (each with the image data the call produced), and end
with decoder `d'` and input `b'` left; `P` holds for every decoder on the way.

The `IDAT` sequence: whatever the cut of the zlib stream into chunks (empty chunks included), the data handed
out along the trace concatenates to the inflated stream; the trace ends with `ImageDataFlushed` at the type
field of the next chunk.
-/
namespace Png.Framing
open Png Png.WellFormed

/-- `image_data.clear()` before the next call -/
def Dec.clearOut (d : Dec) : Dec := { d with out := [] }

@[simp] theorem clearOut_out (d : Dec) : d.clearOut.out = [] := rfl
@[simp] theorem clearOut_state (d : Dec) : d.clearOut.state = d.state := rfl
@[simp] theorem clearOut_info (d : Dec) : d.clearOut.info = d.info := rfl

theorem clearOut_of_nil {d : Dec} (h : d.out = []) : d.clearOut = d := by
  cases d; simp only [Dec.clearOut] at *; subst h; rfl

inductive Trace (cfg : Cfg) (P : Dec → Prop) : Dec → Bytes → List (Ev × Bytes) → Dec → Bytes → Prop
  | nil (d : Dec) (b : Bytes) : Trace cfg P d b [] d b
  | cons {d d1 d' : Dec} {b b' : Bytes} {n : Nat} {ev : Ev} {rest : List (Ev × Bytes)} (hne : b ≠ [])
      (hu : update cfg d b = (d1, .ok (n, ev))) (hp : P d1.clearOut)
      (ht : Trace cfg P d1.clearOut (b.drop n) rest d' b') :
      Trace cfg P d b ((ev, d1.out) :: rest) d' b'

theorem Trace.append {cfg : Cfg} {P : Dec → Prop} {d d1 d2 : Dec} {b b1 b2 : Bytes} {e1 e2 : List (Ev × Bytes)}
    (h1 : Trace cfg P d b e1 d1 b1) (h2 : Trace cfg P d1 b1 e2 d2 b2) : Trace cfg P d b (e1 ++ e2) d2 b2 := by
  induction h1 with
  | nil d b => exact h2
  | cons hne hu hp _ ih => exact .cons hne hu hp (ih h2)

theorem Trace.mono {cfg : Cfg} {P Q : Dec → Prop} (hPQ : ∀ d, P d → Q d) {d d' : Dec} {b b' : Bytes}
    {evs : List (Ev × Bytes)} (h : Trace cfg P d b evs d' b') : Trace cfg Q d b evs d' b' := by
  induction h with
  | nil d b => exact .nil d b
  | cons hne hu hp _ ih => exact .cons hne hu (hPQ _ hp) ih

/-- one call, with the data it produced and what is left named -/
theorem Trace.one {cfg : Cfg} {P : Dec → Prop} {d d1 d1c : Dec} {b b1 : Bytes} {n : Nat} {ev : Ev} {data : Bytes}
    (hne : b ≠ []) (hu : update cfg d b = (d1, .ok (n, ev))) (hc : d1.clearOut = d1c) (hp : P d1c)
    (hd : d1.out = data) (hb : b.drop n = b1) : Trace cfg P d b [(ev, data)] d1c b1 := by
  subst hc hd hb
  exact .cons hne hu hp (.nil _ _)

/-- `Trace.cons` with everything named -/
theorem Trace.cons' {cfg : Cfg} {P : Dec → Prop} {d d1 d1c d' : Dec} {b b1 b' : Bytes} {n : Nat} {ev : Ev} {data : Bytes}
    {rest : List (Ev × Bytes)} (hne : b ≠ []) (hu : update cfg d b = (d1, .ok (n, ev))) (hd : d1.out = data)
    (hc : d1.clearOut = d1c) (hp : P d1c) (hb : b.drop n = b1) (ht : Trace cfg P d1c b1 rest d' b') :
    Trace cfg P d b ((ev, data) :: rest) d' b' := by
  subst hc hd hb
  exact .cons hne hu hp ht

theorem mu_clearOut (d : Dec) (b : Bytes) : mu d.clearOut b = mu d b := rfl

/-- every call uses up some of the potential `5·|input| + rank`: a trace is no longer than that -/
theorem Trace.length_le {cfg : Cfg} {P : Dec → Prop} {d d' : Dec} {b b' : Bytes} {evs : List (Ev × Bytes)}
    (h : Trace cfg P d b evs d' b') : evs.length + mu d' b' ≤ mu d b := by
  induction h with
  | nil d b => simp
  | cons hne hu hp _ ih =>
    have := (update_no_spin cfg _ _ _ _ _ hne hu).2.2.1
    rw [mu_clearOut] at ih
    simp only [List.length_cons]; omega

/-! ## bytes -/

theorem be32Bytes_length (n : Nat) : (be32Bytes n).length = 4 := rfl
theorem typeBytes_length (t : Nat) : (typeBytes t).length = 4 := rfl

theorem chunk_append (cfg : Cfg) (t : ChunkType) (body tb : Bytes) :
    chunk cfg t body ++ tb =
      be32Bytes body.length ++ typeBytes t ++ (body ++ (be32Bytes (cfg.crc (typeBytes t ++ body)) ++ tb)) := by
  simp only [chunk, List.append_assoc]

theorem drop_head8 (len t : Nat) (rest : Bytes) : (be32Bytes len ++ typeBytes t ++ rest).drop 8 = rest :=
  List.drop_left' rfl

theorem head8_ne_nil (len t : Nat) (rest : Bytes) : be32Bytes len ++ typeBytes t ++ rest ≠ [] := by
  simp [be32Bytes]

/-- the CRC function returns 32-bit values -/
def Cfg.CrcOk (cfg : Cfg) : Prop := ∀ b, cfg.crc b < 2 ^ 32

/-! ## the `IDAT` sequence -/

/-- the fields reading a data chunk leaves alone (the sequence number only for `IDAT`) -/
structure KeepD (d d' : Dec) : Prop where
  opts : d'.opts = d.opts
  limit : d'.limit = d.limit
  cap : d'.cap = d.cap
  info : d'.info = d.info
  haveIccp : d'.haveIccp = d.haveIccp

theorem KeepD.refl (d : Dec) : KeepD d d := ⟨rfl, rfl, rfl, rfl, rfl⟩
theorem KeepD.trans {a b c : Dec} (h1 : KeepD a b) (h2 : KeepD b c) : KeepD a c :=
  ⟨h2.opts.trans h1.opts, h2.limit.trans h1.limit, h2.cap.trans h1.cap, h2.info.trans h1.info,
   h2.haveIccp.trans h1.haveIccp⟩

/-- inside the body of an `IDAT` chunk whose `len` body bytes are still to come -/
structure MidIdat (d : Dec) (i : Info) (pre : Bytes) (e len : Nat) : Prop where
  state : d.state = some (.imageData IDAT)
  curType : d.curType = IDAT
  remaining : d.remaining = len
  zin : d.zin = pre
  zemitted : d.zemitted = e
  out : d.out = []
  info : d.info = some i
  readyIdat : d.readyIdat = true
  crcAcc : d.opts.ignoreCrc = false → d.crcAcc = typeBytes IDAT

/-- between two chunks, after an `IDAT` chunk -/
structure InIdat (d : Dec) (i : Info) (pre : Bytes) (e : Nat) : Prop where
  state : d.state = some (.u32 .length [])
  curType : d.curType = IDAT
  zin : d.zin = pre
  zstarted : d.zstarted = true
  zemitted : d.zemitted = e
  out : d.out = []
  info : d.info = some i
  readyIdat : d.readyIdat = true

/-- right after `ImageDataFlushed`: the type `t` of the next chunk (length `len`) waits to be parsed again -/
structure Flushed (d : Dec) (i : Info) (len t : Nat) : Prop where
  state : ∃ t0 t1 t2 t3, typeBytes t = [t0, t1, t2, t3] ∧ be32 t0 t1 t2 t3 = t ∧
    d.state = some (.u32 (.type len) [t0, t1, t2, t3])
  curType : d.curType = t
  zin : d.zin = []
  zstarted : d.zstarted = false
  zemitted : d.zemitted = 0
  out : d.out = []
  info : d.info = some i
  readyIdat : d.readyIdat = false
  readyFdat : d.readyFdat = false

/-- events `decode_image_data` accepts and answers with `ImageDataCompletionStatus::ExpectingMoreData` -/
def Ev.isMore : Ev → Bool
  | .imageData | .nothing | .chunkComplete _ _ | .chunkBegin _ _ | .partialChunk _ => true
  | _ => false

/-- the events of a data-chunk sequence: any number of `isMore` events, then `ImageDataFlushed` -/
inductive DataEvs : List (Ev × Bytes) → Prop
  | last (dl : Bytes) : DataEvs [(.imageDataFlushed, dl)]
  | more (ev : Ev) (data : Bytes) (rest : List (Ev × Bytes)) (h : ev.isMore = true) (hr : DataEvs rest) :
      DataEvs ((ev, data) :: rest)

theorem DataEvs.append {a b : List (Ev × Bytes)} (ha : ∀ e ∈ a, e.1.isMore = true) (hb : DataEvs b) : DataEvs (a ++ b) := by
  induction a with
  | nil => exact hb
  | cons x a ih =>
    obtain ⟨ev, data⟩ := x
    exact .more ev data _ (ha (ev, data) (by simp)) (ih fun e he => ha e (by simp [he]))

/-- all image data of a trace, in order -/
def dataOf (evs : List (Ev × Bytes)) : Bytes := (evs.map (·.2)).flatten

theorem dataOf_cons (ev : Ev) (data : Bytes) (rest : List (Ev × Bytes)) : dataOf ((ev, data) :: rest) = data ++ dataOf rest := by
  simp [dataOf]

theorem dataOf_append (a b : List (Ev × Bytes)) : dataOf (a ++ b) = dataOf a ++ dataOf b := by
  simp [dataOf]

/-- the rest of an `IDAT` chunk's body `z` and its CRC: `ImageData` with what `z` adds to the inflater's
    output, then `ChunkComplete` -/
theorem idat_body_trace (cfg : Cfg) (hC : cfg.CrcOk) {d : Dec} {i : Info} {pre z o tb : Bytes} {e : Nat} {b : Bool}
    (hd : MidIdat d i pre e z.length) (hinf : cfg.inflate (pre ++ z) = some (o, b)) :
    ∃ d', Trace cfg (fun d => d.info = some i) d (z ++ (be32Bytes (cfg.crc (typeBytes IDAT ++ z)) ++ tb))
        [(.imageData, o.drop e), (.chunkComplete (cfg.crc (typeBytes IDAT ++ z)) IDAT, [])] d' tb ∧
      InIdat d' i (pre ++ z) (max e o.length) ∧ KeepD d d' ∧ d'.seqNo = d.seqNo := by
  have hne : z ++ (be32Bytes (cfg.crc (typeBytes IDAT ++ z)) ++ tb) ≠ [] := by simp [be32Bytes]
  have hu1 := update_imageData (cfg := cfg) (t := IDAT) (rest := be32Bytes (cfg.crc (typeBytes IDAT ++ z)) ++ tb)
    hd.state hd.remaining hne (by rw [hd.zin]; exact hinf)
  generalize hD1 : (((d.withState none).imagePiece z.length z o).withState (some (.u32 (.crc IDAT) []))) = D1 at hu1
  have f_out : D1.out = o.drop e := by subst hD1; simp [Dec.withState, Dec.imagePiece, hd.out, hd.zemitted]
  have f_state : D1.clearOut.state = some (.u32 (.crc IDAT) []) := by subst hD1; rfl
  have f_crc : D1.clearOut.opts.ignoreCrc = false → cfg.crc D1.clearOut.crcAcc = cfg.crc (typeBytes IDAT ++ z) := by
    intro h; subst hD1
    have := hd.crcAcc h
    simp only [Dec.clearOut, Dec.withState, Dec.imagePiece] at *
    rw [this]
  have hu2 := update_crc (cfg := cfg) (rest := tb) f_state (hC _) IDAT_ne_IEND' f_crc
  refine ⟨(D1.clearOut.withState (some (.u32 .length []))).clearOut, ?_, ?_⟩
  · have f_info : D1.clearOut.info = some i := by subst hD1; exact hd.info
    refine Trace.cons' hne hu1 f_out rfl f_info (List.drop_left' rfl) ?_
    exact Trace.one (by simp [be32Bytes]) hu2 rfl f_info rfl (List.drop_left' (be32Bytes_length _))
  · subst hD1
    exact ⟨⟨rfl, hd.curType, by simp [Dec.clearOut, Dec.withState, Dec.imagePiece, hd.zin], rfl,
      by simp [Dec.clearOut, Dec.withState, Dec.imagePiece, hd.zemitted], rfl, hd.info, hd.readyIdat⟩,
      ⟨rfl, rfl, rfl, rfl, rfl⟩, rfl⟩


/-- length and type of a further `IDAT` chunk -/
theorem idat_begin_trace (cfg : Cfg) {d : Dec} {i : Info} {pre rest : Bytes} {e len : Nat}
    (hd : InIdat d i pre e) (hlen : len < 2 ^ 32) :
    ∃ d', Trace cfg (fun d => d.info = some i) d (be32Bytes len ++ typeBytes IDAT ++ rest)
        [(.chunkBegin len IDAT, [])] d' rest ∧ MidIdat d' i pre e len ∧ KeepD d d' ∧ d'.seqNo = d.seqNo := by
  have hnf : ¬ IsFlush d IDAT := by intro h; exact h.1 hd.curType.symm
  have hu := update_chunkBegin_IDAT (cfg := cfg) (rest := rest) hd.state hlen (by rw [hd.info]; rfl) hnf hd.readyIdat
  refine ⟨_, Trace.one (head8_ne_nil _ _ _) hu rfl hd.info hd.out (drop_head8 _ _ _), ?_, ⟨rfl, rfl, rfl, rfl, rfl⟩, rfl⟩
  refine ⟨rfl, rfl, rfl, hd.zin, hd.zemitted, rfl, hd.info, hd.readyIdat, fun h => ?_⟩
  have h' : d.opts.ignoreCrc = false := h
  simp [Dec.clearOut, h']

/-- the type field that ends the `IDAT` sequence: `ImageDataFlushed` with the rest of the inflater's output -/
theorem idat_flush_trace (cfg : Cfg) {d : Dec} {i : Info} {pre rest raw : Bytes} {e len t : Nat}
    (hd : InIdat d i pre e) (hlen : len < 2 ^ 32) (ht : t < 2 ^ 32) (hne : t ≠ IDAT)
    (hinf : cfg.inflate pre = some (raw, true)) :
    ∃ d', Trace cfg (fun d => d.info = some i) d (be32Bytes len ++ typeBytes t ++ rest)
        [(.imageDataFlushed, raw.drop e)] d' rest ∧ Flushed d' i len t ∧ KeepD d d' ∧ d'.seqNo = d.seqNo := by
  have hf : IsFlush d t := ⟨by rw [hd.curType]; exact hne, Or.inl hd.curType⟩
  obtain ⟨t0, t1, t2, t3, htb, hte, hu⟩ := update_flush (cfg := cfg) (rest := rest) hd.state hlen ht
    (by rw [hd.info]; rfl) hf hd.zstarted (by rw [hd.zin]; exact hinf)
  refine ⟨_, Trace.one (head8_ne_nil _ _ _) hu rfl hd.info (by simp [hd.out, hd.zemitted]) (drop_head8 _ _ _), ?_,
    ⟨rfl, rfl, rfl, rfl, rfl⟩, rfl⟩
  exact ⟨⟨t0, t1, t2, t3, htb, hte, rfl⟩, rfl, rfl, rfl, rfl, rfl, hd.info, rfl, rfl⟩

theorem drop_of_prefix {o raw : Bytes} (h : o <+: raw) (e : Nat) :
    o.drop e ++ raw.drop (max e o.length) = raw.drop e := by
  obtain ⟨s, rfl⟩ := h
  exact drop_prefix_split e o s

theorem idats_cons (cfg : Cfg) (z : Bytes) (zs : List Bytes) : idats cfg (z :: zs) = chunk cfg IDAT z ++ idats cfg zs := by
  simp [idats, chunks]

/-- **the `IDAT` chunks after the first**: any list of further pieces `zs` of the zlib stream, then the type
    field of the next chunk.  The data handed out is what was missing of the inflated stream. -/
theorem idat_chunks_trace (cfg : Cfg) (hI : cfg.InflateOk) (hC : cfg.CrcOk) (i : Info) (raw rest : Bytes)
    (len t : Nat) (hlen : len < 2 ^ 32) (ht : t < 2 ^ 32) (hne : t ≠ IDAT) :
    ∀ (zs : List Bytes) (d : Dec) (pre : Bytes) (e : Nat), InIdat d i pre e → (∀ z ∈ zs, z.length < 2 ^ 32) →
      cfg.inflate (pre ++ zs.flatten) = some (raw, true) →
      ∃ evs d', Trace cfg (fun d => d.info = some i) d (idats cfg zs ++ (be32Bytes len ++ typeBytes t ++ rest)) evs d' rest ∧
        DataEvs evs ∧ dataOf evs = raw.drop e ∧ Flushed d' i len t ∧ KeepD d d' ∧ d'.seqNo = d.seqNo := by
  intro zs
  induction zs with
  | nil =>
    intro d pre e hd _ hinf
    simp only [List.flatten_nil, List.append_nil] at hinf
    obtain ⟨d', htr, hfl, hk, hsq⟩ := idat_flush_trace cfg (rest := rest) hd hlen ht hne hinf
    refine ⟨[(.imageDataFlushed, raw.drop e)], d', ?_, .last _, by simp [dataOf], hfl, hk, hsq⟩
    simpa [idats, chunks] using htr
  | cons z zs ih =>
    intro d pre e hd hz hinf
    have hinf' : cfg.inflate ((pre ++ z) ++ zs.flatten) = some (raw, true) := by
      simpa [List.append_assoc] using hinf
    obtain ⟨o, b, ho, hpre⟩ := hI.mono _ _ _ _ hinf'
    obtain ⟨d1, htr1, hm, hk1, hs1⟩ := idat_begin_trace cfg
      (rest := z ++ (be32Bytes (cfg.crc (typeBytes IDAT ++ z)) ++ (idats cfg zs ++ (be32Bytes len ++ typeBytes t ++ rest))))
      hd (hz z (by simp))
    obtain ⟨d2, htr2, hin, hk2, hs2⟩ := idat_body_trace cfg hC
      (tb := idats cfg zs ++ (be32Bytes len ++ typeBytes t ++ rest)) hm ho
    obtain ⟨evs, d', htr3, hev, hdata, hfl, hk3, hs3⟩ := ih d2 (pre ++ z) (max e o.length) hin (fun z' h => hz z' (by simp [h])) hinf'
    refine ⟨([(.chunkBegin z.length IDAT, [])] ++
      [(.imageData, o.drop e), (.chunkComplete (cfg.crc (typeBytes IDAT ++ z)) IDAT, [])]) ++ evs, d', ?_, ?_, ?_, hfl,
      (hk1.trans hk2).trans hk3, hs3.trans (hs2.trans hs1)⟩
    · rw [idats_cons, List.append_assoc, chunk_append]
      exact (htr1.append htr2).append htr3
    · refine DataEvs.append (by
        intro x hx
        simp only [List.cons_append, List.nil_append, List.mem_cons, List.mem_nil_iff, or_false] at hx
        rcases hx with rfl | rfl | rfl <;> rfl) hev
    · simp only [List.cons_append, List.nil_append, dataOf_cons, hdata, List.nil_append]
      exact drop_of_prefix hpre e

/-- **the whole `IDAT` sequence as `decode_image_data` sees it**, from inside the first chunk (whose begin
    `read_until_image_data` consumed): the pieces `z :: zs` of the zlib stream, then the type field of the next
    chunk -/
theorem idat_sequence_trace (cfg : Cfg) (hI : cfg.InflateOk) (hC : cfg.CrcOk) (i : Info) (raw rest : Bytes)
    (len t : Nat) (hlen : len < 2 ^ 32) (ht : t < 2 ^ 32) (hne : t ≠ IDAT) (z : Bytes) (zs : List Bytes) (d : Dec)
    (hd : MidIdat d i [] 0 z.length) (hz : ∀ z' ∈ zs, z'.length < 2 ^ 32)
    (hinf : cfg.inflate (z :: zs).flatten = some (raw, true)) :
    ∃ evs d', Trace cfg (fun d => d.info = some i) d
        (z ++ (be32Bytes (cfg.crc (typeBytes IDAT ++ z)) ++ (idats cfg zs ++ (be32Bytes len ++ typeBytes t ++ rest)))) evs d' rest ∧
      DataEvs evs ∧ dataOf evs = raw ∧ Flushed d' i len t ∧ KeepD d d' ∧ d'.seqNo = d.seqNo := by
  have hinf' : cfg.inflate (([] ++ z) ++ zs.flatten) = some (raw, true) := by simpa using hinf
  obtain ⟨o, b, ho, hpre⟩ := hI.mono _ _ _ _ hinf'
  obtain ⟨d2, htr2, hin, hk2, hs2⟩ := idat_body_trace cfg hC
    (tb := idats cfg zs ++ (be32Bytes len ++ typeBytes t ++ rest)) hd ho
  obtain ⟨evs, d', htr3, hev, hdata, hfl, hk3, hs3⟩ :=
    idat_chunks_trace cfg hI hC i raw rest len t hlen ht hne zs d2 ([] ++ z) (max 0 o.length) hin hz hinf'
  refine ⟨[(.imageData, o.drop 0), (.chunkComplete (cfg.crc (typeBytes IDAT ++ z)) IDAT, [])] ++ evs, d',
    htr2.append htr3, ?_, ?_, hfl, hk2.trans hk3, hs3.trans hs2⟩
  · refine DataEvs.append (by
      intro x hx
      simp only [List.mem_cons, List.mem_nil_iff, or_false] at hx
      rcases hx with rfl | rfl <;> rfl) hev
  · simp only [List.cons_append, List.nil_append, dataOf_cons, hdata]
    have := drop_of_prefix hpre 0
    simpa using this


/-! ## signature and `IHDR` -/

theorem signature_eq : signature = [137, 80, 78, 71, 13, 10, 26, 10] := by decide

theorem parseU32_sig1_ok (cfg : Cfg) (D : Dec) :
    parseU32 cfg D .sig1 137 80 78 71 = .ok (.nothing, D.withState (some (.u32 .sig2 []))) := by
  rw [parseU32_sig1, if_pos (by decide)]; rfl

theorem parseU32_sig2_ok (cfg : Cfg) (D : Dec) :
    parseU32 cfg D .sig2 13 10 26 10 = .ok (.nothing, D.withState (some (.u32 .length []))) := by
  rw [parseU32_sig2, if_pos (by decide)]; rfl

/-- the signature is consumed silently; the call goes on with the first chunk -/
theorem update_signature {cfg : Cfg} {d d'' : Dec} {rest : Bytes} {m : Nat} {ev : Ev}
    (hs : d.state = some (.u32 .sig1 []))
    (h2 : update cfg (d.withState (some (.u32 .length []))) rest = (d'', .ok (m, ev))) :
    update cfg d (signature ++ rest) = (d'', .ok (8 + m, ev)) := by
  rw [signature_eq]
  have := update_u32_nothing (cfg := cfg) (b0 := 137) (b1 := 80) (b2 := 78) (b3 := 71)
    (rest := 13 :: 10 :: 26 :: 10 :: rest) (m := 4 + m) (ev := ev) (d'' := d'') hs (parseU32_sig1_ok cfg _)
    (update_u32_nothing rfl (parseU32_sig2_ok cfg _) h2)
  have h8 : 8 + m = 4 + (4 + m) := by omega
  rw [h8]; exact this

theorem legal_lt256 {c d : Nat} (h : (c, d) ∈ legalPairs) : c < 256 ∧ d < 256 := by
  simp only [legalPairs, List.mem_cons, Prod.mk.injEq, List.mem_nil_iff, or_false] at h
  rcases h with ⟨rfl, rfl⟩ | ⟨rfl, rfl⟩ | ⟨rfl, rfl⟩ | ⟨rfl, rfl⟩ | ⟨rfl, rfl⟩ | ⟨rfl, rfl⟩ | ⟨rfl, rfl⟩ |
    ⟨rfl, rfl⟩ | ⟨rfl, rfl⟩ | ⟨rfl, rfl⟩ | ⟨rfl, rfl⟩ | ⟨rfl, rfl⟩ | ⟨rfl, rfl⟩ | ⟨rfl, rfl⟩ | ⟨rfl, rfl⟩ <;> decide

theorem Header.body_length (h : Header) : h.body.length = 13 := rfl

/-- `parse_chunk` on the `IHDR` body of a valid header: the header event; `info` holds exactly the header -/
theorem parseChunk_ihdr (cfg : Cfg) (D : Dec) (h : Header) (hv : h.Valid) (hraw : D.raw = h.body)
    (hinfo : D.info = none) :
    parseChunk cfg D IHDR =
      .ok (.header h.width h.height h.depth h.color h.interlaced, { D.atCrc IHDR with info := some h.info }) := by
  obtain ⟨hw1, hw2, hh1, hh2, hleg⟩ := hv
  obtain ⟨w0, w1, w2, w3, hw, hwe⟩ := be32Bytes_eq hw2
  obtain ⟨h0, h1, h2, h3, hh, hhe⟩ := be32Bytes_eq hh2
  obtain ⟨hc256, hd256⟩ := legal_lt256 hleg
  have hdep := toUInt8_toNat_of_lt hd256
  have hcol := toUInt8_toNat_of_lt hc256
  apply parseChunk_of_ok
  rw [dispatch_IHDR]
  have hraw' : (D.atCrc IHDR).raw = ihdrBody w0 w1 w2 w3 h0 h1 h2 h3 h.depth.toUInt8 h.color.toUInt8 0 0
      (if h.interlaced then 1 else 0) ++ [] := by
    show D.raw = _
    rw [hraw, Header.body, hw, hh]; rfl
  have hil : ((if h.interlaced then (1 : UInt8) else 0).toNat == 1) = h.interlaced := by cases h.interlaced <;> rfl
  have hil1 : (if h.interlaced then (1 : UInt8) else 0).toNat ≤ 1 := by cases h.interlaced <;> decide
  have := (parseIhdr_ok_iff (D.atCrc IHDR) _ _ w0 w1 w2 w3 h0 h1 h2 h3 h.depth.toUInt8 h.color.toUInt8 0 0
    (if h.interlaced then 1 else 0) [] hraw').mpr
    ⟨⟨hinfo, by omega, by omega, by rw [hdep, hcol]; exact hleg, rfl, rfl, hil1⟩, rfl, rfl⟩
  rw [this, hwe, hhe, hdep, hcol, hil]
  rfl

/-- the decoder `Decoder::new` starts with -/
def dec0 (opts : Options) (limit : Nat) : Dec := { opts := opts, limit := limit }

/-- the decoder right after the `IHDR` chunk of header `h` (and its CRC); `_cfg` only for uniformity with the other states -/
def afterIhdr (_cfg : Cfg) (opts : Options) (limit : Nat) (h : Header) : Dec :=
  { opts := opts, limit := limit, state := some (.u32 .length []), curType := IHDR,
    crcAcc := if opts.ignoreCrc then [] else typeBytes IHDR ++ h.body, remaining := 0, raw := h.body,
    info := some h.info }

/-- **signature and `IHDR`**: three calls — `ChunkBegin` (no `info` yet), the header event (`info` = the header),
    `ChunkComplete` — none of them with image data; then the decoder is `afterIhdr` -/
theorem ihdr_trace (cfg : Cfg) (hC : cfg.CrcOk) (opts : Options) (limit : Nat) (h : Header) (hv : h.Valid) (tb : Bytes) :
    ∃ d1 d2, Trace cfg (fun d => d.info = none) (dec0 opts limit) (signature ++ (chunk cfg IHDR h.body ++ tb))
        [(.chunkBegin 13 IHDR, [])] d1 (h.body ++ (be32Bytes (cfg.crc (typeBytes IHDR ++ h.body)) ++ tb)) ∧
      d1.out = [] ∧
      Trace cfg (fun d => d.info = some h.info) d1 (h.body ++ (be32Bytes (cfg.crc (typeBytes IHDR ++ h.body)) ++ tb))
        [(.header h.width h.height h.depth h.color h.interlaced, [])] d2 (be32Bytes (cfg.crc (typeBytes IHDR ++ h.body)) ++ tb) ∧
      d2.out = [] ∧
      Trace cfg (fun _ => True) d2 (be32Bytes (cfg.crc (typeBytes IHDR ++ h.body)) ++ tb)
        [(.chunkComplete (cfg.crc (typeBytes IHDR ++ h.body)) IHDR, [])] (afterIhdr cfg opts limit h) tb := by
  -- first call: signature, length, type
  have hu1 := update_signature (cfg := cfg) (d := dec0 opts limit) rfl
    (update_chunkBegin_other (cfg := cfg) (d := (dec0 opts limit).withState (some (.u32 .length []))) (len := 13) (t := IHDR)
      (rest := h.body ++ (be32Bytes (cfg.crc (typeBytes IHDR ++ h.body)) ++ tb))
      rfl (by decide) IHDR_lt (Or.inr rfl) (by intro hf; exact absurd hf.2 (by show ¬ ((0 : Nat) = IDAT ∨ (0 : Nat) = fdAT); decide +kernel))
      (by decide +kernel) (by decide +kernel))
  generalize hD1 : ({ (dec0 opts limit).withState (some (.u32 .length [])) with
      state := some (if 13 = 0 then St.parseChunkData IHDR else St.readChunkData IHDR), curType := IHDR,
      crcAcc := if ((dec0 opts limit).withState (some (.u32 .length []))).opts.ignoreCrc then
        ((dec0 opts limit).withState (some (.u32 .length []))).crcAcc else typeBytes IHDR,
      remaining := 13, raw := [] } : Dec) = D1 at hu1
  have hfile : signature ++ (chunk cfg IHDR h.body ++ tb) =
      signature ++ (be32Bytes 13 ++ typeBytes IHDR ++ (h.body ++ (be32Bytes (cfg.crc (typeBytes IHDR ++ h.body)) ++ tb))) := by
    rw [chunk_append]; rfl
  -- second call: the body
  have hp := parseChunk_ihdr cfg (D1.clearOut.collect h.body) h hv (by subst hD1; rfl) (by subst hD1; rfl)
  have hu2 := update_body_event (cfg := cfg) (d := D1.clearOut) (t := IHDR) (body := h.body)
    (rest := be32Bytes (cfg.crc (typeBytes IHDR ++ h.body)) ++ tb) (by subst hD1; rfl) (by subst hD1; rfl)
    (by simp [Header.body, be32Bytes]) (by subst hD1; show 13 ≤ Params.chunkBufferSize - 0; decide) (by simp [be32Bytes]) hp (by simp)
  generalize hD2 : ({ (D1.clearOut.collect h.body).atCrc IHDR with info := some h.info } : Dec) = D2 at hu2
  -- third call: the CRC
  have hu3 := update_crc (cfg := cfg) (d := D2.clearOut) (t := IHDR) (c := cfg.crc (typeBytes IHDR ++ h.body)) (rest := tb)
    (by subst hD2; rfl) (hC _) IHDR_ne_IEND' (by
      intro hig; subst hD2 hD1
      have hig' : opts.ignoreCrc = false := hig
      simp [Dec.clearOut, Dec.collect, Dec.readPiece, Dec.withState, Dec.atCrc, dec0, hig'])
  refine ⟨D1.clearOut, D2.clearOut, ?_, rfl, ?_, rfl, ?_⟩
  · rw [hfile]
    refine Trace.one (by simp [signature_eq]) hu1 rfl (by subst hD1; rfl) (by subst hD1; rfl) ?_
    rw [signature_eq]; rfl
  · exact Trace.one (by simp [Header.body, be32Bytes]) hu2 rfl (by subst hD2; rfl) (by subst hD2 hD1; rfl)
      (List.drop_left' rfl)
  · refine Trace.one (by simp [be32Bytes]) hu3 ?_ trivial (by subst hD2 hD1; rfl) (List.drop_left' rfl)
    subst hD2 hD1
    cases hig : opts.ignoreCrc <;>
      simp [Dec.clearOut, Dec.collect, Dec.readPiece, Dec.withState, Dec.atCrc, dec0, afterIhdr, hig, Header.body_length]


/-! ## between `IHDR` and the image data -/

/-- an event between `IHDR` and the image data: no image data, not `ImageEnd`, not the begin of a data chunk -/
def PreEv (e : Ev × Bytes) : Prop :=
  e.2 = [] ∧ e.1 ≠ .imageEnd ∧ ∀ len t, e.1 = .chunkBegin len t → t ≠ IDAT ∧ t ≠ fdAT

/-- between two chunks, before the image data: `info` holds the header fields `c` and no frame control; no
    data-chunk sequence has begun -/
structure IdleF (d : Dec) (c : Nat × Nat × Nat × Nat × Bool) (fo : Option FrameControl) : Prop where
  state : d.state = some (.u32 .length [])
  out : d.out = []
  info : ∃ i, d.info = some i ∧ i.core = c ∧ i.fctl = fo
  notData : ¬ (d.curType = IDAT ∨ d.curType = fdAT)
  readyIdat : d.readyIdat = true
  zin : d.zin = []
  zemitted : d.zemitted = 0

/-- idle, no frame control stored (a still image, or an animation whose first `fcTL` follows the `IDAT`s) -/
abbrev Idle (d : Dec) (c : Nat × Nat × Nat × Nat × Bool) : Prop := IdleF d c none

theorem idle_afterIhdr (cfg : Cfg) (opts : Options) (limit : Nat) (h : Header) :
    Idle (afterIhdr cfg opts limit h) h.info.core :=
  ⟨rfl, rfl, ⟨h.info, rfl, rfl, rfl⟩, by show ¬ (IHDR = IDAT ∨ IHDR = fdAT); decide +kernel, rfl, rfl, rfl⟩

/-- the chunks `anc` (as bytes) between `IHDR` and the first `IDAT` are read without image data, `ImageEnd` or the
    begin of a data chunk, and take the decoder from `d` to `d'` -/
def AncTrace (cfg : Cfg) (d : Dec) (anc : Bytes) (d' : Dec) : Prop :=
  ∀ tb : Bytes, tb ≠ [] → ∃ evs, Trace cfg (fun _ => True) d (anc ++ tb) evs d' tb ∧ ∀ e ∈ evs, PreEv e

theorem AncTrace.nil (cfg : Cfg) (d : Dec) : AncTrace cfg d [] d :=
  fun tb _ => ⟨[], .nil _ _, fun _ h => by cases h⟩

theorem AncTrace.append {cfg : Cfg} {d d1 d2 : Dec} {a b : Bytes} (h1 : AncTrace cfg d a d1) (h2 : AncTrace cfg d1 b d2) :
    AncTrace cfg d (a ++ b) d2 := by
  intro tb htb
  obtain ⟨e2, t2, p2⟩ := h2 tb htb
  obtain ⟨e1, t1, p1⟩ := h1 (b ++ tb) (by simp [htb])
  refine ⟨e1 ++ e2, ?_, ?_⟩
  · rw [List.append_assoc]; exact t1.append t2
  · intro e he
    rcases List.mem_append.mp he with h | h
    · exact p1 e h
    · exact p2 e h

/-- length and type of the first `IDAT` chunk -/
theorem first_idat_begin (cfg : Cfg) {d : Dec} {c : Nat × Nat × Nat × Nat × Bool} {fo : Option FrameControl} {len : Nat}
    {rest : Bytes} (hd : IdleF d c fo) (hlen : len < 2 ^ 32) :
    ∃ d' i, Trace cfg (fun _ => True) d (be32Bytes len ++ typeBytes IDAT ++ rest) [(.chunkBegin len IDAT, [])] d' rest ∧
      MidIdat d' i [] 0 len ∧ i.core = c ∧ i.fctl = fo ∧ d'.limit = d.limit ∧ d'.info = d.info ∧ d'.seqNo = d.seqNo ∧
      KeepD d d' := by
  obtain ⟨i, hi, hc, hf⟩ := hd.info
  have hnf : ¬ IsFlush d IDAT := fun h => hd.notData h.2
  have hu := update_chunkBegin_IDAT (cfg := cfg) (rest := rest) hd.state hlen (by rw [hi]; rfl) hnf hd.readyIdat
  refine ⟨_, i, Trace.one (head8_ne_nil _ _ _) hu rfl trivial hd.out (drop_head8 _ _ _), ?_, hc, hf, rfl, rfl, rfl,
    ⟨rfl, rfl, rfl, rfl, rfl⟩⟩
  refine ⟨rfl, rfl, rfl, hd.zin, hd.zemitted, rfl, hi, hd.readyIdat, fun h => ?_⟩
  have h' : d.opts.ignoreCrc = false := h
  simp [Dec.clearOut, h']

theorem MidIdat.setLimit {d : Dec} {i : Info} {pre : Bytes} {e len : Nat} (h : MidIdat d i pre e len) (l : Nat) :
    MidIdat { d with limit := l } i pre e len :=
  ⟨h.state, h.curType, h.remaining, h.zin, h.zemitted, h.out, h.info, h.readyIdat, h.crcAcc⟩


/-! ## `IEND` -/

theorem IEND_not_known : IEND ∉ knownTypes := by decide +kernel

/-- **`IEND` right behind the image data**: the pending type is parsed again (`ChunkBegin`), the empty body is
    "parsed" (`PartialChunk`, `IEND` is not a type `parse_chunk` knows), the CRC ends the image (`ImageEnd`); the
    decoder is finished (`state = None`) and keeps its `info` -/
theorem iend_trace (cfg : Cfg) (hC : cfg.CrcOk) {d : Dec} {i : Info} (hd : Flushed d i 0 IEND) (rest : Bytes) :
    ∃ d', Trace cfg (fun d => d.info = some i) d (be32Bytes (cfg.crc (typeBytes IEND ++ [])) ++ rest)
        [(.chunkBegin 0 IEND, []), (.partialChunk IEND, []), (.imageEnd, [])] d' rest ∧
      d'.state = none ∧ d'.info = some i ∧ d'.out = [] := by
  obtain ⟨t0, t1, t2, t3, htb, hte, hst⟩ := hd.state
  have hne : be32Bytes (cfg.crc (typeBytes IEND ++ [])) ++ rest ≠ [] := by simp [be32Bytes]
  -- the type again
  have hp1 := parseU32_type_other cfg (d.withState none) 0 t0 t1 t2 t3 (Or.inl (by show d.info.isSome = true; rw [hd.info]; rfl))
    (by intro hf; exact hf.1 (by show be32 t0 t1 t2 t3 = d.curType; rw [hte, hd.curType]))
    (by rw [hte]; decide +kernel) (by rw [hte]; exact fun h => IDAT_ne_IEND' h.symm)
  rw [hte] at hp1
  have hu1 := update_pending_event (cfg := cfg) hst hne hp1 (by simp)
  generalize hD1 : ({ d.withState none with state := some (if 0 = 0 then St.parseChunkData IEND else St.readChunkData IEND), curType := IEND, crcAcc := if (d.withState none).opts.ignoreCrc then (d.withState none).crcAcc else typeBytes IEND, remaining := 0, raw := [] } : Dec) = D1 at hu1
  have ho1 : D1.out = [] := by rw [← hD1]; exact hd.out
  have hi1 : D1.info = some i := by rw [← hD1]; exact hd.info
  -- the empty body
  have hp2 : parseChunk cfg D1 IEND = .ok (.partialChunk IEND, D1.atCrc IEND) :=
    parseChunk_of_ok (dispatch_unknown cfg _ IEND (Or.inl IEND_not_known))
  have hu2 := update_parse_event' (cfg := cfg) (d := D1) (rest := be32Bytes (cfg.crc (typeBytes IEND ++ [])) ++ rest)
    (by rw [← hD1]; rfl) (by rw [← hD1]) hne hp2 (by simp)
  -- the CRC
  have hu3 := update_crc_end (cfg := cfg) (d := D1.atCrc IEND) (c := cfg.crc (typeBytes IEND ++ [])) (rest := rest) rfl (hC _)
    (by
      intro hig
      have hig' : d.opts.ignoreCrc = false := by rw [← hD1] at hig; exact hig
      rw [← hD1]
      simp [Dec.atCrc, Dec.withState, hig'])
  refine ⟨(D1.atCrc IEND).withState none, ?_, rfl, hi1, ho1⟩
  refine Trace.cons' hne hu1 ho1 (clearOut_of_nil ho1) hi1 (List.drop_zero) ?_
  refine Trace.cons' hne hu2 ho1 (clearOut_of_nil (d := D1.atCrc IEND) ho1) hi1 (List.drop_zero) ?_
  exact Trace.one hne hu3 (clearOut_of_nil (d := (D1.atCrc IEND).withState none) ho1) hi1 ho1 (List.drop_left' rfl)

end Png.Framing
