import PngVerif.Proofs.ReaderPathsZ
import PngVerif.Proofs.ReaderPathsSkip2
/-!
# Decoding paths, part 10: properties of the stream decoder that every call of the `Reader` keeps (C13)

`DecPred cfg P`: a property `P` of the stream decoder that `decode_next` keeps and that does not
depend on the `Limits` budget.  Every function of the `Reader` model changes the stream decoder only
through `decode_next` and the budget, so it keeps `P` (`step_decP`, `run_decP`).  Instance: `ZInv`
(`zinv_decPred`), with the consequence that a row-level call that succeeds has not seen the end of
the frame's data-chunk sequence (`nextRow_caf`).
-/
namespace Png.Reader
open Png Png.Framing

/-- a property of the stream decoder kept by `decode_next` and independent of the budget -/
structure DecPred (cfg : Cfg) (P : Dec → Prop) : Prop where
  dn : ∀ r : R, P r.dec → P (decodeNext' cfg r).1.dec
  limit : ∀ (d : Dec) (l : Nat), P d → P { d with limit := l }

theorem markFlushed_dec {r r3 : R} (h : markFlushed r = .ok r3) : r3.dec = r.dec := by
  unfold markFlushed at h
  split at h
  · cases h
  · cases h; rfl

theorem rowImplPost_dec (t : TCfg) (rl ol : Nat) (x : R × Except Res Unit) : (rowImplPost t rl ol x).1.dec = x.1.dec := by
  obtain ⟨r1, res⟩ := x
  unfold rowImplPost
  cases res with
  | error e => rfl
  | ok u =>
    simp only
    split
    · rfl
    · cases infoOf r1 with
      | none => rfl
      | some i =>
        simp only
        cases hg : getTransform t r1 i with
        | error e => rfl
        | ok p =>
          obtain ⟨r2, snap⟩ := p
          have hd : r2.dec = r1.dec := by
            unfold getTransform at hg
            cases hc : r1.cached with
            | some s => rw [hc] at hg; cases hg; rfl
            | none =>
              rw [hc] at hg; simp only at hg
              cases hcr : t.create i r1.flags with
              | error w => rw [hcr] at hg; simp only at hg; split at hg <;> cases hg
              | ok u => rw [hcr] at hg; cases hg; rfl
          simp only
          cases t.apply snap r2.flags i r1.ub.prevRow ol with
          | none => exact hd
          | some o => exact hd

section
variable {cfg : Cfg} {P : Dec → Prop} (hP : DecPred cfg P)
include hP

theorem gloop_decP {α : Type} (B : Body α) (hpre : ∀ r x, B.pre r = some x → x.1.dec = r.dec)
    (hprep : ∀ r, (B.prep r).dec = r.dec)
    (hpost : ∀ r ev data, match B.post r ev data with
      | .inl x => x.1.dec = r.dec
      | .inr r'' => r''.dec = r.dec) :
    ∀ (fuel : Nat) (r : R), P r.dec → P (gloop cfg B fuel r).1.dec := by
  intro fuel
  induction fuel with
  | zero => intro r h; exact h
  | succ fuel ih =>
    intro r h
    rw [gloop]
    cases hp : B.pre r with
    | some x => simp only; rw [hpre r x hp]; exact h
    | none =>
      simp only
      have h1 := hP.dn (B.prep r) (by rw [hprep]; exact h)
      cases hd : decodeNext' cfg (B.prep r) with
      | mk r' res =>
        rw [hd] at h1; simp only at h1
        cases res with
        | error e => exact h1
        | ok p =>
          obtain ⟨ev, data⟩ := p
          simp only
          have h2 := hpost r' ev data
          cases hpo : B.post r' ev data with
          | inl x => rw [hpo] at h2; simp only at h2 ⊢; rw [h2]; exact h1
          | inr r'' => rw [hpo] at h2; simp only at h2 ⊢; exact ih r'' (by rw [h2]; exact h1)

theorem finishDecodingImageData_decP (fuel : Nat) (r : R) (h : P r.dec) :
    P (finishDecodingImageData cfg fuel r).1.dec := by
  rw [finishDecodingImageData_gloop]
  exact gloop_decP hP bodyFinish (fun _ _ h => by cases h) (fun _ => rfl) (fun r ev data => by cases ev <;> rfl) fuel r h

theorem rdReadUntilImageData_decP (fuel : Nat) (r : R) (h : P r.dec) : P (rdReadUntilImageData cfg fuel r).1.dec := by
  rw [rdReadUntilImageData_gloop]
  refine gloop_decP hP bodyUntil (fun _ _ h => by cases h) (fun _ => rfl) (fun r ev data => ?_) fuel r h
  cases hd : data.isEmpty with
  | false => simp only [bodyUntil, hd, Bool.false_eq_true, if_false]
  | true =>
    simp only [bodyUntil, hd, if_true]
    cases ev with
    | chunkBegin len t =>
      simp only
      by_cases ht : t = IDAT ∨ t = fdAT
      · rw [if_pos ht]
      · rw [if_neg ht]
    | _ => rfl

theorem readUntilEndOfInput_decP (fuel : Nat) (r : R) (h : P r.dec) : P (readUntilEndOfInput cfg fuel r).1.dec := by
  rw [readUntilEndOfInput_gloop]
  exact gloop_decP hP bodyEnd (fun _ _ h => by cases h) (fun _ => rfl) (fun r ev data => by cases ev <;> rfl) fuel r h

theorem readHeaderInfo_decP (fuel : Nat) (r : R) (h : P r.dec) : P (readHeaderInfo cfg fuel r).1.dec := by
  rw [readHeaderInfo_gloop]
  refine gloop_decP hP bodyHeader (fun r x hx => ?_) (fun _ => rfl) (fun r ev data => ?_) fuel r h
  · simp only [bodyHeader] at hx
    split at hx
    · cases hx; rfl
    · cases hx
  · cases hd : data.isEmpty with
    | false => simp only [bodyHeader, hd, Bool.false_eq_true, if_false]
    | true => simp only [bodyHeader, hd, if_true]; cases ev <;> rfl

theorem nextRawRow_decP (rowlen fuel : Nat) (r : R) (h : P r.dec) : P (nextRawRow cfg rowlen fuel r).1.dec := by
  rw [nextRawRow_gloop]
  refine gloop_decP hP (bodyRaw rowlen) (fun r x hx => ?_) (fun _ => rfl) (fun r ev data => ?_) fuel r h
  · simp only [bodyRaw] at hx
    split at hx
    · split at hx
      · cases hx; rfl
      · cases hx
    · simp only [Option.some.injEq] at hx
      subst hx
      cases r.ub.unfilterCurr rowlen r.bpp <;> rfl
  · simp only [bodyRaw, rawPost]
    cases ev <;> simp only <;> first
      | rfl
      | (cases hm : markFlushed { r with ub := r.ub.extend data } with
         | error e => rfl
         | ok r3 => exact (markFlushed_dec hm).trans rfl)

theorem finishDecoding_decP (r : R) (h : P r.dec) : P (finishDecoding cfg r).1.dec := by
  unfold finishDecoding
  split
  · exact h
  · split
    · exact h
    · have h1 := finishDecodingImageData_decP hP (fuelOf r) r h
      cases hx : finishDecodingImageData cfg (fuelOf r) r with
      | mk r' res =>
        rw [hx] at h1
        cases res with
        | error e => exact h1
        | ok u =>
          simp only
          cases hm : markFlushed r' with
          | error e => exact h1
          | ok r2 => simp only; rw [markFlushed_dec hm]; exact h1

theorem readUntilImageData_decP (t : TCfg) (r : R) (h : P r.dec) : P (readUntilImageData cfg t r).1.dec := by
  unfold readUntilImageData
  have h1 := rdReadUntilImageData_decP hP (fuelOf r) r h
  cases hx : rdReadUntilImageData cfg (fuelOf r) r with
  | mk r' res =>
    rw [hx] at h1
    cases res with
    | error e => exact h1
    | ok u =>
      simp only
      cases infoOf r' with
      | none => exact h1
      | some i =>
        simp only [reserveBytes]
        by_cases hl : r'.dec.limit ≥ outLineSize t i r'.flags (Sub.new i).width
        · rw [if_pos hl]
          simp only
          cases bppFromUsize (bytesPerPixel i.color i.depth) with
          | none => exact hP.limit _ _ h1
          | some bpp => exact hP.limit _ _ h1
        · rw [if_neg hl]; exact h1

theorem nextRowImpl_decP (t : TCfg) (r : R) (rl ol : Nat) (h : P r.dec) : P (nextRowImpl cfg t r rl ol).1.dec := by
  rw [nextRowImpl_post, rowImplPost_dec]
  exact nextRawRow_decP hP rl (fuelOf r) r h

theorem readRow_decP (t : TCfg) (r : R) (n : Nat) (h : P r.dec) : P (readRow cfg t r n).1.dec := by
  cases hcur : r.sub.cur with
  | none =>
    rw [readRow_none cfg t r n hcur]
    have := finishDecoding_decP hP r h
    unfold endRes
    cases hx : finishDecoding cfg r with
    | mk r' res => rw [hx] at this; cases res <;> exact this
  | some ii =>
    rw [readRow_some' cfg t r n ii hcur]
    have hd : (rowStart r ii).dec = r.dec := by unfold rowStart; split <;> rfl
    cases infoOf (rowStart r ii) with
    | none => simp only; rw [hd]; exact h
    | some i =>
      simp only
      split
      · rw [hd]; exact h
      · have := nextRowImpl_decP hP t (rowStart r ii) (rowlenOf i.color i.depth (rowStart r ii).sub ii)
          (lineSizeFor t (rowStart r ii) i ii) (by rw [hd]; exact h)
        cases hx : nextRowImpl cfg t (rowStart r ii) (rowlenOf i.color i.depth (rowStart r ii).sub ii)
          (lineSizeFor t (rowStart r ii) i ii) with
        | mk r' res => rw [hx] at this; cases res <;> exact this

theorem nextInterlacedRow_decP (t : TCfg) (r : R) (h : P r.dec) : P (nextInterlacedRow cfg t r).1.dec := by
  unfold nextInterlacedRow
  cases infoOf r with
  | none => exact h
  | some i => exact readRow_decP hP t _ _ h

theorem frameRows_decP (t : TCfg) (ls : Nat) : ∀ (n k : Nat) (r : R) (buf : Bytes), P r.dec →
    P (frameRows cfg t ls n k r buf).1.dec := by
  intro n
  induction n with
  | zero => intro k r buf h; exact h
  | succ n ih =>
    intro k r buf h
    rw [frameRows]
    split
    · exact h
    · have h1 := nextRowImpl_decP hP t r r.sub.rowlen ls h
      cases hx : nextRowImpl cfg t r r.sub.rowlen ls with
      | mk r' res =>
        rw [hx] at h1
        cases res with
        | error e => exact h1
        | ok out => exact ih _ _ _ h1

theorem frameInterlaced_decP (t : TCfg) (stride bits : Nat) : ∀ (fuel : Nat) (r : R) (buf : Bytes), P r.dec →
    P (frameInterlaced cfg t stride bits fuel r buf).1.dec := by
  intro fuel
  induction fuel with
  | zero => intro r buf h; exact h
  | succ fuel ih =>
    intro r buf h
    rw [frameInterlaced]
    have h1 := nextInterlacedRow_decP hP t r h
    cases hx : nextInterlacedRow cfg t r with
    | mk r' res =>
      rw [hx] at h1
      cases res with
      | row ii data =>
        cases ii with
        | null l => exact h1
        | adam7 p l w =>
          simp only
          cases Adam7.expandPass buf stride data { pass := p, line := l, width := w } bits with
          | none => exact h1
          | some buf' => exact ih _ _ h1
      | noRow => exact h1
      | err c w => exact h1
      | panic s => exact h1
      | header => exact h1
      | frame _ _ => exact h1
      | frameInfo _ => exact h1
      | done => exact h1

theorem frameInto_decP (t : TCfg) (r : R) (buf : Bytes) (h : P r.dec) : P (frameInto cfg t r buf).1.dec := by
  unfold frameInto
  cases infoOf r with
  | none => exact h
  | some i =>
    simp only
    split
    · exact h
    · have hb : P (frameBody cfg t r i.interlaced (outLineSize t i r.flags r.sub.width)
          (samplesOf (t.outColorDepth i r.flags).1 * (t.outColorDepth i r.flags).2) buf).1.dec := by
        unfold frameBody
        split
        · exact frameInterlaced_decP hP t _ _ _ _ _ h
        · simp only
          split
          · exact h
          · exact frameRows_decP hP t _ _ _ _ _ h
      cases hx : frameBody cfg t r i.interlaced (outLineSize t i r.flags r.sub.width)
          (samplesOf (t.outColorDepth i r.flags).1 * (t.outColorDepth i r.flags).2) buf with
      | mk r2 y =>
        obtain ⟨buf', oe⟩ := y
        rw [hx] at hb
        cases oe with
        | some e => exact hb
        | none =>
          simp only
          have hf := finishDecoding_decP hP r2 hb
          cases hy : finishDecoding cfg r2 with
          | mk r3 res => rw [hy] at hf; cases res <;> exact hf

theorem nextFrameBuf_decP (t : TCfg) (r : R) (buf : Bytes) (h : P r.dec) : P (nextFrameBuf cfg t r buf).1.dec := by
  by_cases hc : r.sub.cur.isSome = true
  · rw [nextFrameBuf_some cfg t r buf hc]; exact frameInto_decP hP t r buf h
  rw [nextFrameBuf_eq, if_neg hc]
  unfold nextFrameBuf0
  by_cases hrem : r.remaining = 0
  · rw [if_pos hrem]; exact h
  · rw [if_neg hrem]
    cases hcaf : r.sub.caf with
    | true =>
      simp only [if_true]
      have h1 := readUntilImageData_decP hP t r h
      cases hx : readUntilImageData cfg t r with
      | mk r1 res =>
        rw [hx] at h1
        cases res with
        | error e => exact h1
        | ok u => exact frameInto_decP hP t r1 buf h1
    | false =>
      simp only [Bool.false_eq_true, if_false]
      exact frameInto_decP hP t r buf h

theorem nextFrameOp_decP (t : TCfg) (r : R) (p : UInt8) (h : P r.dec) : P (nextFrameOp cfg t r p).1.dec := by
  unfold nextFrameOp
  cases infoOf r with
  | none => exact h
  | some i =>
    simp only
    have := nextFrameBuf_decP hP t { r with pendingBuf := none }
      (callerBuf r (outLineSize t i r.flags i.width * i.height) p) h
    cases hx : nextFrameBuf cfg t { r with pendingBuf := none }
      (callerBuf r (outLineSize t i r.flags i.width * i.height) p) with
    | mk r1 y =>
      obtain ⟨res, b'⟩ := y
      rw [hx] at this
      cases res with
      | err c w => cases c <;> exact this
      | _ => exact this

theorem nextFrameInfo_decP (t : TCfg) (r : R) (h : P r.dec) : P (nextFrameInfo cfg t r).1.dec := by
  by_cases h0 : (if r.sub.caf then r.remaining else r.remaining - 1) = 0
  · rw [nextFrameInfo_pend cfg t r h0]; exact h
  · have after : ∀ x : R, P x.dec → P (afterSkip cfg t x).1.dec := by
      intro x hx
      unfold afterSkip
      have h1 := readUntilImageData_decP hP t x hx
      cases hy : readUntilImageData cfg t x with
      | mk r2 res =>
        rw [hy] at h1
        cases res with
        | error e => exact h1
        | ok u => simp only; cases infoOf r2 >>= (·.fctl) <;> exact h1
    cases hcaf : r.sub.caf with
    | true =>
      rw [hcaf] at h0; simp only [if_true] at h0
      obtain ⟨n, hn⟩ : ∃ n, r.remaining = n + 1 := ⟨r.remaining - 1, by omega⟩
      rw [nextFrameInfo_closed cfg t r n hcaf hn]
      exact after r h
    | false =>
      rw [hcaf] at h0; simp only [Bool.false_eq_true, if_false] at h0
      obtain ⟨n, hn⟩ : ∃ n, r.remaining - 1 = n + 1 := ⟨r.remaining - 1 - 1, by omega⟩
      rw [nextFrameInfo_open cfg t r n hcaf hn]
      have h1 : P (skipRest cfg r).1.dec := finishDecoding_decP hP (clearCur r) h
      unfold skipThen
      cases hy : skipRest cfg r with
      | mk r1 res =>
        rw [hy] at h1
        cases res with
        | error e => exact h1
        | ok u => exact after r1 h1

theorem finish_decP (r : R) (h : P r.dec) : P (finish cfg r).1.dec := by
  unfold finish
  split
  · exact h
  · simp only
    have := readUntilEndOfInput_decP hP
      (fuelOf { r with remaining := 0, ub := UB.new, sub := { r.sub with cur := none, caf := true } })
      { r with remaining := 0, ub := UB.new, sub := { r.sub with cur := none, caf := true } } h
    cases hx : readUntilEndOfInput cfg
      (fuelOf { r with remaining := 0, ub := UB.new, sub := { r.sub with cur := none, caf := true } })
      { r with remaining := 0, ub := UB.new, sub := { r.sub with cur := none, caf := true } } with
    | mk r' res => rw [hx] at this; cases res <;> exact this

theorem readInfo_decP (t : TCfg) (r : R) (h : P r.dec) : P (readInfo cfg t r).1.dec := by
  have key : P (readInfo' cfg t r).1.dec := by
    unfold readInfo'
    split
    · exact h
    · have h1 := readHeaderInfo_decP hP (fuelOf r) r h
      cases hx : readHeaderInfo cfg (fuelOf r) r with
      | mk r' res =>
        rw [hx] at h1
        cases res with
        | error e => exact h1
        | ok u =>
          simp only
          cases infoOf r' with
          | none => exact h1
          | some i =>
            simp only
            split
            · split
              · exact h1
              · have h2 := readUntilImageData_decP hP t { r' with isReader := true } h1
                cases hy : readUntilImageData cfg t { r' with isReader := true } with
                | mk r2 res2 =>
                  rw [hy] at h2
                  cases res2 with
                  | error e => exact h2
                  | ok u =>
                    simp only
                    cases infoOf r2 with
                    | none => exact h2
                    | some i2 => simp only; split <;> exact h2
            · exact h1
  unfold readInfo
  cases hx : readInfo' cfg t r with
  | mk r' res =>
    rw [hx] at key
    cases res <;> exact key

/-- **every call of the model keeps a `DecPred`** -/
theorem step_decP (t : TCfg) (r : R) (op : Op) (h : P r.dec) : P (step cfg t r op).1.dec := by
  cases op with
  | grow n => exact h
  | readInfo => simp only [step]; split; exact h; exact readInfo_decP hP t r h
  | readHeader =>
    simp only [step]
    split
    · exact h
    · have := readHeaderInfo_decP hP (fuelOf r) r h
      cases hx : readHeaderInfo cfg (fuelOf r) r with
      | mk r' res => rw [hx] at this; cases res <;> exact this
  | nextFrame p => simp only [step]; split; exact h; exact nextFrameOp_decP hP t r p h
  | nextRow => simp only [step]; split; exact h; exact nextInterlacedRow_decP hP t _ h
  | readRow =>
    simp only [step]; split; exact h
    cases infoOf r with
    | none => exact h
    | some i => exact readRow_decP hP t _ _ h
  | nextFrameInfo => simp only [step]; split; exact h; exact nextFrameInfo_decP hP t _ h
  | finish => simp only [step]; split; exact h; exact finish_decP hP _ h

theorem run_decP (t : TCfg) : ∀ (ops : List Op) (r : R), P r.dec → P (run cfg t r ops).1.dec := by
  intro ops
  induction ops with
  | nil => intro r h; exact h
  | cons op ops ih => intro r h; rw [prun_cons]; exact ih _ (step_decP hP t r op h)

end

/-! ## the instance `ZInv` -/

theorem zinv_decPred (cfg : Cfg) : DecPred cfg (ZInv cfg) where
  dn := by
    intro r h
    rw [decodeNext'_eq]
    split
    · exact h
    · have h0 : ZInv cfg { r.dec with out := [] } := h.of_z rfl rfl rfl
      cases hu : update cfg { r.dec with out := [] } (avail r) with
      | mk d' res =>
        have := (update_zinv h0 hu).1
        cases res with
        | error e => exact this.of_z rfl rfl rfl
        | ok p => exact this.of_z rfl rfl rfl
  limit := fun d l h => h.of_z rfl rfl rfl

/-- the stream decoder `Decoder::new` creates satisfies `ZInv` -/
theorem zinv_init (cfg : Cfg) (opts : Options) (limit : Nat) (flags : Flags) (input : Bytes) (visible : Nat) :
    ZInv cfg (R.init opts limit flags input visible).dec := ZInv.of_not_started rfl

/-- **the end of a data-chunk sequence delivers no image data** -/
theorem decodeNext'_flush (cfg : Cfg) {r r' : R} {data : Bytes} (h : ZInv cfg r.dec)
    (hd : decodeNext' cfg r = (r', .ok (.imageDataFlushed, data))) : data = [] := by
  rw [decodeNext'_eq] at hd
  split at hd
  · cases hd
  · have h0 : ZInv cfg { r.dec with out := [] } := h.of_z rfl rfl rfl
    cases hu : update cfg { r.dec with out := [] } (avail r) with
    | mk d' res =>
      rw [hu] at hd
      cases res with
      | error e => cases hd
      | ok p =>
        obtain ⟨n, ev⟩ := p
        simp only [Prod.mk.injEq, Except.ok.injEq] at hd
        obtain ⟨_, rfl, rfl⟩ := hd
        exact (update_zinv h0 hu).2 n rfl

end Png.Reader
