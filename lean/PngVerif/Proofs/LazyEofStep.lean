import PngVerif.Proofs.LazyEofFrame
/-!
# Lazy reader with input that temporarily ends: one attempt of each public call
-/
namespace Png.LazyEof
open Png.Lazy (Frame Arrival ErrC Site Res Op)

theorem L_finishDecoding_done {c : Png.Lazy.St} (hcur : c.cur = none) (hcaf : c.caf = true) :
    Png.Lazy.finishDecoding c = (c, none) := by
  simp [Png.Lazy.finishDecoding, hcur, hcaf]

/-- with no row left and the data sequence still open, the row loop of `next_frame` does nothing -/
theorem L_frameInto_closed (e : Png.Lazy.Env) (c : Png.Lazy.St) (hcur : c.cur = none) (hcaf : c.caf = false)
    (hs : c.src.isSome = true) : Png.Lazy.frameInto e c = Ltail c.fi (c, [], none) := by
  have hopen := L_finishDecoding_open hcur hcaf hs
  rw [L_frameInto_eq]
  unfold Lbody
  by_cases hil : e.interlaced = true
  · simp only [hil, if_true, Png.Lazy.frameInterlaced, Png.Lazy.nextRow_none hcur, hopen, Ltail]
    by_cases hr : c.rem = 0
    · simp [hr]
    · simp only [hr, if_false]
      rw [L_finishDecoding_done (by simp [hcur]) (by simp)]
  · simp only [hil, Bool.false_eq_true, if_false, hcur, Option.getD_none, Nat.sub_self, Png.Lazy.frameRows]

theorem frameInto_sim (e : Env) (s1 s' : St) (r : Res) (w : List Nat) (hg : Png.Lazy.Good e.base s1.core)
    (h : frameInto e s1 = (s', r, w)) :
    (r = .err .eof ∧ TempF e s1 s' w) ∨ (Png.Lazy.frameInto e.base s1.core = (s'.core, r) ∧ Keep s1 s') := by
  -- the row loop
  have hbody : ∀ (s2 : St) (w2 : List Nat) (o2 : Option Res),
      (if e.base.interlaced then frameInterlaced (s1.core.sub.length + 2) s1 []
       else frameRows (s1.core.sub.length - s1.core.cur.getD s1.core.sub.length)
         (s1.core.cur.getD s1.core.sub.length) s1 []) = (s2, w2, o2) →
      (o2 = some (.err .eof) ∧ TempF e s1 s2 w2) ∨ (Lbody e.base s1.core = (s2.core, w2, o2) ∧ Keep s1 s2) := by
    intro s2 w2 o2 hb
    unfold Lbody
    by_cases hil : e.base.interlaced = true
    · simp only [hil, if_true] at hb ⊢
      rcases frameInterlaced_sim e hil _ s1 [] s2 w2 o2 hg (by simp only [remRows]; omega) hb with h1 | h1
      · obtain ⟨rfl, w1, rfl, ht⟩ := h1
        left; exact ⟨rfl, by simpa using ht⟩
      · right; exact h1
    · have hil' : e.base.interlaced = false := by simpa using hil
      simp only [hil', Bool.false_eq_true, if_false] at hb ⊢
      have hcl : ∀ j, s1.core.cur = some j → j < s1.core.sub.length := hg.inv.cur_lt
      rcases frameRows_sim e hil' _ _ s1 [] s2 w2 o2 hg
          (by intro hn; cases hc : s1.core.cur with
              | none => simp [hc] at hn
              | some j => simp)
          (by cases hc : s1.core.cur with
              | none => simp
              | some j => have := hcl j hc; simp; omega) hb with h1 | h1
      · obtain ⟨rfl, w1, rfl, ht⟩ := h1
        left; exact ⟨rfl, by simpa using ht⟩
      · right; exact h1
  unfold frameInto at h
  simp only [] at h
  rcases hb : (if e.base.interlaced then frameInterlaced (s1.core.sub.length + 2) s1 []
       else frameRows (s1.core.sub.length - s1.core.cur.getD s1.core.sub.length)
         (s1.core.cur.getD s1.core.sub.length) s1 []) with ⟨s2, w2, o2⟩
  rw [hb] at h
  rcases hbody s2 w2 o2 hb with h1 | h1
  · obtain ⟨rfl, ht⟩ := h1
    simp only [Prod.mk.injEq] at h
    obtain ⟨rfl, rfl, rfl⟩ := h
    left; exact ⟨rfl, ht⟩
  · obtain ⟨hL, hk⟩ := h1
    have hpost := Png.Lazy.body_post e.base s1.core hg
    change Png.Lazy.BodyPost e.base s1.core _ [] (Lbody e.base s1.core) at hpost
    rw [hL] at hpost
    have hg2 : Png.Lazy.Good e.base s2.core := hpost.1
    rw [L_frameInto_eq, hL]
    cases o2 with
    | some r2 =>
      simp only [Prod.mk.injEq] at h
      obtain ⟨rfl, rfl, rfl⟩ := h
      right; exact ⟨rfl, hk⟩
    | none =>
      simp only [] at h
      rcases hfd : finishDecoding s2 with ⟨s3, o3⟩
      rw [hfd] at h
      rcases finishDecoding_sim e.base s2 s3 o3 hg2 hfd with h2 | h2
      · obtain ⟨rfl, hm, hg3, hcur2, heq⟩ := h2
        simp only [Prod.mk.injEq] at h
        obtain ⟨rfl, rfl, rfl⟩ := h
        left
        obtain ⟨hsub2, hcov2⟩ := L_body_done e.base s1.core s2.core w2 hg hL
        refine ⟨rfl, hg3, hm.caf, Nat.lt_of_lt_of_le hm.ahead hk.ahead, hm.tail.trans hk.2.2.1, ?_,
          hm.fi.trans hk.1, hm.sub.trans hsub2, hcov2⟩
        rw [L_frameInto_eq, hL, L_frameInto_closed e.base s3.core (hm.cur.trans hcur2) hm.caf hm.src]
        have hopen := L_finishDecoding_open hcur2 hm.caf0 (hg2.inv.src_some hm.caf0)
        simp only [Ltail, heq, hopen, hm.fi, hk.1, addWp]
        by_cases hr : s2.core.rem = 0 <;> simp [hr, addW]
      · obtain ⟨hL2, hk2⟩ := h2
        right
        simp only [Ltail, hL2]
        cases o3 with
        | some r3 =>
          simp only [Prod.mk.injEq] at h
          obtain ⟨rfl, rfl, rfl⟩ := h
          exact ⟨rfl, hk.trans hk2⟩
        | none =>
          simp only [Prod.mk.injEq] at h
          obtain ⟨rfl, rfl, rfl⟩ := h
          exact ⟨rfl, hk.trans hk2⟩

/-! ## the three calls that read image data -/

/-- the subframe the reader works on is the frame of the file -/
def SubOk (fr : List Frame) (c : Png.Lazy.St) : Prop := ∃ f, fr[c.fi]? = some f ∧ c.sub = f.rowlens

theorem SubOk.of_eq {fr : List Frame} {c c' : Png.Lazy.St} (hfi : c'.fi = c.fi) (hsub : c'.sub = c.sub)
    (h : SubOk fr c) : SubOk fr c' := by
  obtain ⟨f, h1, h2⟩ := h
  exact ⟨f, by rw [hfi]; exact h1, by rw [hsub]; exact h2⟩

theorem L_readUntil_subok (e : Png.Lazy.Env) (c c1 : Png.Lazy.St)
    (h : Png.Lazy.readUntilImageData e c = (c1, none)) : SubOk e.frames c1 := by
  unfold Png.Lazy.readUntilImageData at h
  split at h
  · simp at h
  · split at h
    · simp at h
    · split at h
      · rename_i f a hf ha
        simp only [Prod.mk.injEq, and_true] at h
        subst h
        exact ⟨f, hf, rfl⟩
      · simp at h

/-- an attempt that consumed an `Eof` marker: the same call on the state it leaves answers what the call would have
    answered, the rows `w` already written excepted -/
structure TempA (e : Env) (op : Op) (s s' : St) (w : List Nat) : Prop where
  good : Png.Lazy.Good e.base s'.core
  lt : ahead e s' < ahead e s
  tail : s'.tail = s.tail
  eq : Png.Lazy.step e.base s.core op = addWp w (Png.Lazy.step e.base s'.core op)
  /-- the rows the attempt wrote are rows of the subframe it stands in, covered by the data of that frame -/
  cov : ∀ i ∈ w, Png.Lazy.covers s'.core.sub (Png.Lazy.Spec.availOf e.base.frames s'.core.fi) i = true
  subok : SubOk e.base.frames s.core → SubOk e.base.frames s'.core

/-- an attempt that met no `Eof` marker is the call of `Png.Lazy` -/
structure FinalA (e : Env) (op : Op) (s s' : St) (r : Res) : Prop where
  eq : Png.Lazy.step e.base s.core op = (s'.core, r)
  le : ahead e s' ≤ ahead e s
  tail : s'.tail = s.tail

theorem nextRow_op (e : Env) (s s' : St) (r : Res) (hg : Png.Lazy.Good e.base s.core) (h : nextRow s = (s', r)) :
    (r = .err .eof ∧ TempA e .nextRow s s' []) ∨ FinalA e .nextRow s s' r := by
  rcases nextRow_sim e.base s s' r hg h with h1 | h1
  · obtain ⟨rfl, hm, hg1, heq⟩ := h1
    left; exact ⟨rfl, hg1, hm.ahead, hm.tail, by rw [addWp_nil]; exact heq.symm, by simp, SubOk.of_eq hm.fi hm.sub⟩
  · right; exact ⟨h1.1, h1.2.ahead, h1.2.2.2.1⟩

theorem L_nextFrame_open (e : Png.Lazy.Env) (c : Png.Lazy.St)
    (h : c.cur.isSome = true ∨ (c.caf = false ∧ c.rem ≠ 0)) : Png.Lazy.nextFrame e c = Png.Lazy.frameInto e c := by
  unfold Png.Lazy.nextFrame
  rcases h with h | ⟨h1, h2⟩
  · simp [h]
  · by_cases hc : c.cur.isSome = true
    · simp [hc]
    · simp [hc, h1, h2]

theorem TempF.toA {e : Env} {s s' : St} {w : List Nat} (h : TempF e s s' w)
    (h0 : s.core.cur.isSome = true ∨ (s.core.caf = false ∧ s.core.rem ≠ 0)) : TempA e .nextFrame s s' w := by
  refine ⟨h.good, h.ahead, h.tail, ?_, by rw [h.sub, h.fi]; exact h.cov, SubOk.of_eq h.fi h.sub⟩
  have hr := h.good.inv.rem_pos h.caf
  show Png.Lazy.nextFrame e.base s.core = addWp w (Png.Lazy.nextFrame e.base s'.core)
  rw [L_nextFrame_open e.base s.core h0, L_nextFrame_open e.base s'.core (Or.inr ⟨h.caf, by omega⟩)]
  exact h.eq

theorem nextFrame_op (e : Env) (hv : e.base.Valid) (s s' : St) (r : Res) (w : List Nat)
    (hg : Png.Lazy.Good e.base s.core) (h : nextFrame e s = (s', r, w)) :
    (r = .err .eof ∧ TempA e .nextFrame s s' w) ∨ FinalA e .nextFrame s s' r := by
  -- the call goes straight into the current frame
  have direct : (s.core.cur.isSome = true ∨ (s.core.caf = false ∧ s.core.rem ≠ 0)) → frameInto e s = (s', r, w) →
      (r = .err .eof ∧ TempA e .nextFrame s s' w) ∨ FinalA e .nextFrame s s' r := by
    intro h0 hf
    rcases frameInto_sim e s s' r w hg hf with h1 | h1
    · left; exact ⟨h1.1, h1.2.toA h0⟩
    · right
      exact ⟨by show Png.Lazy.nextFrame e.base s.core = _; rw [L_nextFrame_open e.base s.core h0]; exact h1.1,
        h1.2.ahead, h1.2.2.2.1⟩
  unfold nextFrame at h
  by_cases hc : s.core.cur.isSome = true
  · simp only [hc, if_true] at h
    exact direct (Or.inl hc) h
  · simp only [hc, Bool.false_eq_true, if_false] at h
    have hcur : s.core.cur = none := by simpa using hc
    by_cases hr : s.core.rem = 0
    · simp only [hr, if_true, Prod.mk.injEq] at h
      obtain ⟨rfl, rfl, rfl⟩ := h
      right
      exact ⟨by show Png.Lazy.nextFrame e.base s.core = _; simp [Png.Lazy.nextFrame, hcur, hr], Nat.le_refl _, rfl⟩
    · simp only [hr, if_false] at h
      by_cases hcaf : s.core.caf = true
      · simp only [hcaf, if_true] at h
        have hLn1 : ∀ c1 r1, Png.Lazy.readUntilImageData e.base s.core = (c1, some r1) →
            Png.Lazy.nextFrame e.base s.core = (c1, r1) := by
          intro c1 r1 hh; simp [Png.Lazy.nextFrame, hcur, hr, hcaf, hh]
        have hLn2 : ∀ c1, Png.Lazy.readUntilImageData e.base s.core = (c1, none) →
            Png.Lazy.nextFrame e.base s.core = Png.Lazy.frameInto e.base c1 := by
          intro c1 hh; simp [Png.Lazy.nextFrame, hcur, hr, hcaf, hh]
        rcases hru : readUntilImageData e s with ⟨s1, o1⟩
        rw [hru] at h
        rcases readUntil_sim e s s1 o1 hru with h1 | h1
        · obtain ⟨rfl, hcore, htail, hlt⟩ := h1
          simp only [Prod.mk.injEq] at h
          obtain ⟨rfl, rfl, rfl⟩ := h
          left
          exact ⟨rfl, by rw [hcore]; exact hg, hlt, htail, by rw [addWp_nil, hcore], by simp, by rw [hcore]; exact id⟩
        · obtain ⟨hL, htail, hle⟩ := h1
          cases o1 with
          | some r1 =>
            simp only [Prod.mk.injEq] at h
            obtain ⟨rfl, rfl, rfl⟩ := h
            right
            exact ⟨hLn1 _ _ hL, hle, htail⟩
          | none =>
            simp only [] at h
            have hg1 : Png.Lazy.Good e.base s1.core := by
              have := (Png.Lazy.readUntil_refines e.base hv s.core hg hcaf (by omega)).1
              rw [hL] at this; exact this
            rcases frameInto_sim e s1 s' r w hg1 h with h2 | h2
            · obtain ⟨rfl, ht⟩ := h2
              left
              refine ⟨rfl, ht.good, Nat.lt_of_lt_of_le ht.ahead hle, ht.tail.trans htail, ?_,
                by rw [ht.sub, ht.fi]; exact ht.cov,
                fun _ => SubOk.of_eq ht.fi ht.sub (L_readUntil_subok e.base s.core s1.core hL)⟩
              have hr' := ht.good.inv.rem_pos ht.caf
              show Png.Lazy.nextFrame e.base s.core = addWp w (Png.Lazy.nextFrame e.base s'.core)
              rw [hLn2 _ hL, L_nextFrame_open e.base s'.core (Or.inr ⟨ht.caf, by omega⟩)]
              exact ht.eq
            · right
              exact ⟨(hLn2 _ hL).trans h2.1,
                Nat.le_trans h2.2.ahead hle, h2.2.2.2.1.trans htail⟩
      · simp only [hcaf, Bool.false_eq_true, if_false] at h
        exact direct (Or.inr ⟨by simpa using hcaf, hr⟩) h

/-! ## `next_frame_info` -/

/-- what `Png.Lazy.nextFrameInfo` does once the current frame is closed -/
def nfiTail (e : Png.Lazy.Env) (p : Png.Lazy.St × Option Res) : Png.Lazy.St × Res :=
  match p.2 with
  | some r => (p.1, r)
  | none =>
    match (Png.Lazy.readUntilImageData e p.1).2 with
    | some r => ((Png.Lazy.readUntilImageData e p.1).1, r)
    | none => ((Png.Lazy.readUntilImageData e p.1).1, .fctl (Png.Lazy.readUntilImageData e p.1).1.fi)

theorem L_nfi (e : Png.Lazy.Env) (c : Png.Lazy.St) (hr : (if c.caf then c.rem else c.rem - 1) ≠ 0) :
    Png.Lazy.nextFrameInfo e c =
      nfiTail e (if !c.caf then Png.Lazy.finishDecoding { c with cur := none } else (c, none)) := by
  unfold Png.Lazy.nextFrameInfo nfiTail
  simp only [hr, if_false]
  rcases (if !c.caf then Png.Lazy.finishDecoding { c with cur := none } else (c, none)) with ⟨c1, _ | r1⟩
  · simp only []
    rcases Png.Lazy.readUntilImageData e c1 with ⟨c2, _ | r2⟩ <;> rfl
  · rfl

theorem L_good_dropcur {e : Png.Lazy.Env} {c : Png.Lazy.St} (hg : Png.Lazy.Good e c) :
    Png.Lazy.Good e { c with cur := none } :=
  ⟨⟨hg.inv.rem_pos, hg.inv.src_some, hg.inv.src_none, by intro i hi; simp at hi, hg.inv.end_caf⟩,
    by intro i hi; simp at hi⟩

theorem L_dropcur_id {c : Png.Lazy.St} (h : c.cur = none) : ({ c with cur := none } : Png.Lazy.St) = c := by
  cases c; simp_all

theorem nextFrameInfo_op (e : Env) (s s' : St) (r : Res) (hg : Png.Lazy.Good e.base s.core)
    (h : nextFrameInfo e s = (s', r)) :
    (r = .err .eof ∧ TempA e .nextFrameInfo s s' []) ∨ FinalA e .nextFrameInfo s s' r := by
  unfold nextFrameInfo at h
  by_cases hr : (if s.core.caf then s.core.rem else s.core.rem - 1) = 0
  · simp only [hr, if_true, Prod.mk.injEq] at h
    obtain ⟨rfl, rfl⟩ := h
    right
    exact ⟨by show Png.Lazy.nextFrameInfo e.base s.core = _; simp [Png.Lazy.nextFrameInfo, hr], Nat.le_refl _, rfl⟩
  · simp only [hr, if_false] at h
    have hLs := L_nfi e.base s.core hr
    -- the part after the current frame has been closed: `s1` is closed, `remaining_frames` not exhausted
    have after : ∀ s1 : St, Png.Lazy.Good e.base s1.core → s1.core.caf = true → s1.core.rem ≠ 0 →
        Png.Lazy.nextFrameInfo e.base s.core = nfiTail e.base (s1.core, none) →
        ahead e s1 ≤ ahead e s → s1.tail = s.tail →
        (SubOk e.base.frames s.core → SubOk e.base.frames s1.core) →
        (match readUntilImageData e s1 with
          | (s2, some r) => (s2, r)
          | (s2, none) => (s2, .fctl s2.core.fi)) = (s', r) →
        (r = .err .eof ∧ TempA e .nextFrameInfo s s' []) ∨ FinalA e .nextFrameInfo s s' r := by
      intro s1 hg1 hcaf1 hrem1 hL1 hle1 htail1 hso h
      have hL1' : Png.Lazy.nextFrameInfo e.base s1.core = nfiTail e.base (s1.core, none) := by
        rw [L_nfi e.base s1.core (by simp [hcaf1, hrem1])]; simp [hcaf1]
      rcases hru : readUntilImageData e s1 with ⟨s2, o2⟩
      rw [hru] at h
      rcases readUntil_sim e s1 s2 o2 hru with h1 | h1
      · obtain ⟨rfl, hcore, htail, hlt⟩ := h1
        simp only [Prod.mk.injEq] at h
        obtain ⟨rfl, rfl⟩ := h
        left
        refine ⟨rfl, by rw [hcore]; exact hg1, Nat.lt_of_lt_of_le hlt hle1, htail.trans htail1, ?_, by simp,
          by rw [hcore]; exact hso⟩
        rw [addWp_nil]
        show Png.Lazy.nextFrameInfo e.base s.core = Png.Lazy.nextFrameInfo e.base s2.core
        rw [hcore, hL1', hL1]
      · obtain ⟨hL, htail, hle⟩ := h1
        right
        have hE : Png.Lazy.nextFrameInfo e.base s.core = nfiTail e.base (s1.core, none) := hL1
        simp only [nfiTail, hL] at hE
        cases o2 with
        | none =>
          simp only [Prod.mk.injEq] at h
          obtain ⟨rfl, rfl⟩ := h
          exact ⟨hE, Nat.le_trans hle hle1, htail.trans htail1⟩
        | some r2 =>
          simp only [Prod.mk.injEq] at h
          obtain ⟨rfl, rfl⟩ := h
          exact ⟨hE, Nat.le_trans hle hle1, htail.trans htail1⟩
    by_cases hcaf : s.core.caf = true
    · simp only [hcaf, Bool.not_true, Bool.false_eq_true, if_false] at h
      simp only [hcaf, if_true] at hr
      exact after s hg hcaf hr (by rw [hLs]; simp [hcaf]) (Nat.le_refl _) rfl id h
    · have hcaf' : s.core.caf = false := by simpa using hcaf
      rw [if_pos (show (!s.core.caf) = true by simp [hcaf'])] at h hLs
      simp only [hcaf', Bool.false_eq_true, if_false] at hr
      have hg0 : Png.Lazy.Good e.base ({ s with core := { s.core with cur := none } } : St).core := L_good_dropcur hg
      rcases hfd : finishDecoding { s with core := { s.core with cur := none } } with ⟨s1, o1⟩
      rw [hfd] at h
      rcases finishDecoding_sim e.base _ s1 o1 hg0 hfd with h1 | h1
      · obtain ⟨rfl, hm, hg1, _, heq⟩ := h1
        simp only [Prod.mk.injEq] at h
        obtain ⟨rfl, rfl⟩ := h
        left
        refine ⟨rfl, hg1, hm.ahead, hm.tail, ?_, by simp, SubOk.of_eq hm.fi hm.sub⟩
        rw [addWp_nil]
        show Png.Lazy.nextFrameInfo e.base s.core = Png.Lazy.nextFrameInfo e.base s1.core
        have hr1 : (if s1.core.caf then s1.core.rem else s1.core.rem - 1) ≠ 0 := by
          rw [hm.caf, hm.rem]; simpa using hr
        rw [hLs, L_nfi e.base s1.core hr1]
        rw [if_pos (show (!s1.core.caf) = true by rw [hm.caf]; rfl), L_dropcur_id hm.cur, heq]
      · obtain ⟨hL, hk⟩ := h1
        have hopen := L_finishDecoding_open (c := { s.core with cur := none }) rfl hcaf' (hg.inv.src_some hcaf')
        have hrem : ¬ s.core.rem = 0 := by omega
        simp only [hrem, if_false] at hopen
        change Png.Lazy.finishDecoding { s.core with cur := none } = _ at hL
        rw [hopen] at hL
        simp only [Prod.mk.injEq] at hL
        obtain ⟨hc1, rfl⟩ := hL
        simp only [] at h
        have hg1 : Png.Lazy.Good e.base s1.core := by
          rw [← hc1]
          exact ⟨⟨by simp, by simp, by simp, by simp, by simp⟩, by intro i hi; simp at hi⟩
        refine after s1 hg1 (by rw [← hc1]) (by rw [← hc1]; simpa using hr) ?_ hk.ahead hk.2.2.1
          (SubOk.of_eq (by rw [← hc1]) (by rw [← hc1])) h
        rw [hLs, hopen, hc1]

end Png.LazyEof
