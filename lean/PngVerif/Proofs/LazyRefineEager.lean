import PngVerif.Proofs.LazyRefineDefs
/-!
# `Reader` refines `Lazy`, part 14: arrivals that bring nothing with `Done` behave like the eager arrival

Inside the `Lazy` model: if no arrival of the environment brings bytes together with `Done` (`last = 0` — the arrivals
the byte-level model induces, `Proofs/LazyRefineZ.lean`), a row call that delivers a row does not see the end of the
frame's data, so the oracle bits of the specification (`Spec.run`) are irrelevant: the results of every call sequence
are those of the specification with all bits `false`.  Hence two such environments over the same file — in particular
the induced one and `Arrival.eager` — give the same results for EVERY call sequence (no `Polled` hypothesis).
-/
namespace Png.Lazy

/-- the source brings nothing together with `Done` -/
def Last0 (o : Option Arrival) : Prop := ∀ a, o = some a → a.last = 0

/-- no arrival of the environment brings bytes together with `Done` -/
def EnvLast0 (e : Env) : Prop := ∀ a ∈ e.arrs, a.last = 0

theorem last0_none : Last0 none := fun _ h => by cases h

theorem pull_last0 (s : St) (h : Last0 s.src) : Last0 (pull s).1.src := by
  unfold pull
  match hs : s.src with
  | none => simp only; rw [hs]; exact last0_none
  | some ⟨[], m⟩ => exact last0_none
  | some ⟨n :: ns, m⟩ =>
    intro a ha
    simp only [Option.some.injEq] at ha
    subst ha
    have := h _ hs
    exact this

theorem pull_done_zero (s s' : St) (m : Nat) (h : Last0 s.src) (hp : pull s = (s', .done m)) : m = 0 := by
  unfold pull at hp
  match hs : s.src with
  | none => rw [hs] at hp; cases hp
  | some ⟨[], m'⟩ =>
    rw [hs] at hp
    simp only [Prod.mk.injEq, Pull.done.injEq] at hp
    rw [← hp.2]; exact h _ hs
  | some ⟨n :: ns, m'⟩ => rw [hs] at hp; cases hp

theorem mark_src {s s2 : St} (h : mark s = .ok s2) : s2.src = s.src ∧ s2.buf = s.buf ∧ s2.caf = true := by
  unfold mark at h
  split at h
  · cases h
  · cases h; exact ⟨rfl, rfl, rfl⟩

theorem nextRaw_last0 (rl : Nat) : ∀ (fuel : Nat) (s : St), Last0 s.src → Last0 (nextRaw rl fuel s).1.src := by
  intro fuel
  induction fuel with
  | zero => intro s h; exact h
  | succ fuel ih =>
    intro s h
    unfold nextRaw
    by_cases hb : s.buf < rl
    · simp only [hb, if_true]
      by_cases hc : s.caf = true
      · simp only [hc, if_true]; exact h
      · simp only [hc, Bool.false_eq_true, if_false]
        have hp := pull_last0 s h
        cases hpl : pull s with
        | mk s' p =>
          rw [hpl] at hp
          cases p with
          | outside => exact hp
          | more n => exact ih _ hp
          | done m =>
            simp only
            cases hm : mark { s' with buf := s'.buf + m } with
            | error e => exact hp
            | ok s2 => simp only; exact ih s2 (by rw [(mark_src hm).1]; exact hp)
    · simp only [hb, if_false]; exact h

/-- **a delivered row has not seen the end of the data** when nothing comes with `Done` -/
theorem nextRaw_none_caf (rl : Nat) : ∀ (fuel : Nat) (s : St), Last0 s.src → s.caf = false →
    (nextRaw rl fuel s).2 = none → (nextRaw rl fuel s).1.caf = false := by
  intro fuel
  induction fuel with
  | zero => intro s _ _ h; simp [nextRaw] at h
  | succ fuel ih =>
    intro s h hc
    unfold nextRaw
    by_cases hb : s.buf < rl
    · simp only [hb, if_true, hc, Bool.false_eq_true, if_false]
      have hp := pull_last0 s h
      cases hpl : pull s with
      | mk s' p =>
        rw [hpl] at hp
        have hcaf' : s'.caf = false := by
          have : (pull s).1.caf = s.caf := by
            unfold pull
            match s.src with
            | none => rfl
            | some ⟨[], m⟩ => rfl
            | some ⟨n :: ns, m⟩ => rfl
          rw [hpl] at this; rw [this]; exact hc
        cases p with
        | outside => intro hn; cases hn
        | more n => exact ih _ hp hcaf'
        | done m =>
          have hm0 := pull_done_zero s s' m h hpl
          subst hm0
          simp only
          cases hm : mark { s' with buf := s'.buf + 0 } with
          | error e => intro hn; cases hn
          | ok s2 =>
            simp only
            obtain ⟨_, hbuf2, hcaf2⟩ := mark_src hm
            -- the frame is closed and the row is still not there: `NoMoreImageData`
            have hbuf' : s'.buf = s.buf := by
              have : (pull s).1.buf = s.buf := by
                unfold pull
                match s.src with
                | none => rfl
                | some ⟨[], m⟩ => rfl
                | some ⟨n :: ns, m⟩ => rfl
              rw [hpl] at this; exact this
            have hlt : s2.buf < rl := by rw [hbuf2]; simp only [Nat.add_zero]; rw [hbuf']; exact hb
            intro hn
            cases fuel with
            | zero => simp [nextRaw] at hn
            | succ fuel => simp [nextRaw, hlt, hcaf2] at hn
    · simp only [hb, if_false]
      intro _; exact hc

theorem rowImpl_last0 (s : St) (i : Nat) (h : Last0 s.src) : Last0 (rowImpl s i).1.src := by
  unfold rowImpl
  have := nextRaw_last0 (s.sub.getD i 0) (fuelOf s) s h
  cases hn : nextRaw (s.sub.getD i 0) (fuelOf s) s with
  | mk s' x =>
    rw [hn] at this
    cases x with
    | some e => exact this
    | none => exact this

theorem rowImpl_none_caf (s : St) (i : Nat) (h : Last0 s.src) (hc : s.caf = false) (hn : (rowImpl s i).2 = none) :
    (rowImpl s i).1.caf = false := by
  unfold rowImpl at hn ⊢
  have := nextRaw_none_caf (s.sub.getD i 0) (fuelOf s) s h hc
  cases hx : nextRaw (s.sub.getD i 0) (fuelOf s) s with
  | mk s' x =>
    rw [hx] at this hn
    cases x with
    | some e => simp at hn
    | none => exact this rfl

theorem discard_last0 : ∀ (fuel : Nat) (s : St), Last0 s.src → Last0 (discard fuel s).1.src := by
  intro fuel
  induction fuel with
  | zero => intro s h; exact h
  | succ fuel ih =>
    intro s h
    unfold discard
    have hp := pull_last0 s h
    cases hpl : pull s with
    | mk s' p =>
      rw [hpl] at hp
      cases p with
      | outside => exact hp
      | done m => exact hp
      | more n => exact ih s' hp

theorem finishDecoding_last0 (s : St) (h : Last0 s.src) : Last0 (finishDecoding s).1.src := by
  unfold finishDecoding
  split
  · exact h
  · split
    · exact h
    · have := discard_last0 (fuelOf s) s h
      cases hd : discard (fuelOf s) s with
      | mk s' x =>
        rw [hd] at this
        cases x with
        | some e => exact this
        | none =>
          simp only
          cases hm : mark s' with
          | error e => exact this
          | ok s2 => simp only; rw [(mark_src hm).1]; exact this

theorem nextRow_last0 (s : St) (h : Last0 s.src) : Last0 (nextRow s).1.src := by
  cases hc : s.cur with
  | none => rw [nextRow_none hc]; exact finishDecoding_last0 s h
  | some i => rw [nextRow_some hc]; exact rowImpl_last0 s i h

theorem frameRows_last0 : ∀ (n j : Nat) (s : St) (w : List Nat), Last0 s.src → Last0 (frameRows n j s w).1.src := by
  intro n
  induction n with
  | zero => intro j s w h; exact h
  | succ n ih =>
    intro j s w h
    unfold frameRows
    have := rowImpl_last0 s j h
    cases hr : rowImpl s j with
    | mk s' x =>
      rw [hr] at this
      cases x with
      | some e => exact this
      | none => exact ih _ s' _ this

theorem frameInterlaced_last0 : ∀ (fuel : Nat) (s : St) (w : List Nat), Last0 s.src →
    Last0 (frameInterlaced fuel s w).1.src := by
  intro fuel
  induction fuel with
  | zero => intro s w h; exact h
  | succ fuel ih =>
    intro s w h
    unfold frameInterlaced
    have := nextRow_last0 s h
    cases hr : nextRow s with
    | mk s' x =>
      rw [hr] at this
      cases x with
      | row k i => exact ih s' _ this
      | none => exact this
      | frame k w' => exact this
      | fctl k => exact this
      | ok => exact this
      | err c => exact this
      | panic p => exact this

theorem frameInto_last0 (e : Env) (s : St) (h : Last0 s.src) : Last0 (frameInto e s).1.src := by
  unfold frameInto
  have hbody : Last0 (if e.interlaced then frameInterlaced (s.sub.length + 2) s []
      else frameRows (s.sub.length - s.cur.getD s.sub.length) (s.cur.getD s.sub.length) s []).1.src := by
    split
    · exact frameInterlaced_last0 _ s _ h
    · exact frameRows_last0 _ _ s _ h
  simp only
  generalize (if e.interlaced then frameInterlaced (s.sub.length + 2) s []
      else frameRows (s.sub.length - s.cur.getD s.sub.length) (s.cur.getD s.sub.length) s []) = body at hbody ⊢
  obtain ⟨s2, w, x⟩ := body
  cases x with
  | some r => exact hbody
  | none =>
    simp only
    have := finishDecoding_last0 s2 hbody
    cases hf : finishDecoding s2 with
    | mk s3 y => rw [hf] at this; cases y <;> exact this

theorem readUntil_last0 (e : Env) (he : EnvLast0 e) (s : St) (h : Last0 s.src) : Last0 (readUntilImageData e s).1.src := by
  unfold readUntilImageData
  split
  · exact h
  · split
    · exact h
    · split
      · rename_i f a hf ha
        intro a' ha'
        simp only [Option.some.injEq] at ha'
        subst ha'
        exact he a (List.mem_of_getElem? ha)
      · exact h

theorem step_last0 (e : Env) (he : EnvLast0 e) (s : St) (h : Last0 s.src) (op : Op) : Last0 (step e s op).1.src := by
  cases op with
  | nextRow => exact nextRow_last0 s h
  | nextFrame =>
    show Last0 (nextFrame e s).1.src
    unfold nextFrame
    by_cases hc : s.cur.isSome = true
    · simp only [hc, if_true]; exact frameInto_last0 e s h
    · simp only [hc, Bool.false_eq_true, if_false]
      by_cases hr : s.rem = 0
      · simp only [hr, if_true]; exact h
      · simp only [hr, if_false]
        by_cases hcaf : s.caf = true
        · simp only [hcaf, if_true]
          have := readUntil_last0 e he s h
          cases hru : readUntilImageData e s with
          | mk s1 x =>
            rw [hru] at this
            cases x with
            | some r => exact this
            | none => exact frameInto_last0 e s1 this
        · simp only [hcaf, Bool.false_eq_true, if_false]; exact frameInto_last0 e s h
  | nextFrameInfo =>
    show Last0 (nextFrameInfo e s).1.src
    unfold nextFrameInfo
    by_cases hr : (if s.caf = true then s.rem else s.rem - 1) = 0
    · simp only [hr, if_true]; exact h
    · simp only [hr, if_false]
      have hfin : Last0 (if (!s.caf) = true then finishDecoding { s with cur := none } else (s, none)).1.src := by
        split
        · exact finishDecoding_last0 _ h
        · exact h
      generalize (if (!s.caf) = true then finishDecoding { s with cur := none } else (s, none)) = fin at hfin ⊢
      obtain ⟨s1, x⟩ := fin
      cases x with
      | some r => exact hfin
      | none =>
        simp only
        have := readUntil_last0 e he s1 hfin
        cases hru : readUntilImageData e s1 with
        | mk s2 y => rw [hru] at this; cases y <;> exact this
  | finish =>
    show Last0 (finish s).1.src
    unfold finish
    split
    · exact h
    · simp only
      split
      · exact h
      · exact last0_none

/-- **the oracle bit of a call is irrelevant** when nothing comes with `Done` -/
theorem step_bit (e : Env) (s : St) (hg : Good e s) (h : Last0 s.src) (op : Op) :
    Spec.step e.frames s.abs op (step e s op).1.caf = Spec.step e.frames s.abs op false := by
  cases op with
  | nextFrame => rfl
  | nextFrameInfo => rfl
  | finish => rfl
  | nextRow =>
    show Spec.nextRow e.frames s.abs (nextRow s).1.caf = Spec.nextRow e.frames s.abs false
    cases hb : (nextRow s).1.caf with
    | false => rfl
    | true =>
      cases hc : s.cur with
      | none =>
        have : s.abs.cur = none := hc
        rw [Spec.nextRow_none this, Spec.nextRow_none this]
      | some i =>
        have hca : s.abs.cur = some i := hc
        rw [Spec.nextRow_some hca, Spec.nextRow_some hca]
        by_cases hcov : covers s.abs.sub (Spec.availOf e.frames s.abs.fi) i = true
        · simp only [hcov, if_true]
          -- the row is delivered: the frame was closed before the call
          have hcaf : s.caf = true := by
            cases hsc : s.caf with
            | true => rfl
            | false =>
              exfalso
              obtain ⟨_, h2, _⟩ := rowImpl_spec e s i hg hc
              obtain ⟨hr, _⟩ := h2 hcov
              have := rowImpl_none_caf s i h hsc hr
              have hnr : (nextRow s).1 = (rowImpl s i).1 := by
                rw [nextRow_some hc]
              rw [hnr, this] at hb; cases hb
          have : Spec.close s.abs = s.abs := close_of_caf hcaf
          rw [this]
          simp
        · simp only [hcov, Bool.false_eq_true, if_false]

/-- all oracle bits `false` -/
theorem run_bits (e : Env) (hv : e.Valid) (he : EnvLast0 e) : ∀ (ops : List Op) (s : St), Good e s → Last0 s.src →
    Spec.run e.frames s.abs ops (cafs e s ops) = Spec.run e.frames s.abs ops [] := by
  intro ops
  induction ops with
  | nil => intro s _ _; rfl
  | cons op ops ih =>
    intro s hg h
    obtain ⟨hg1, hstep⟩ := step_refines e hv s hg op
    have hb := step_bit e s hg h op
    have ih1 := ih (step e s op).1 hg1 (step_last0 e he s h op)
    simp only [Spec.run, cafs, List.headD_cons, List.tail_cons, List.headD_nil, List.tail_nil]
    rw [hb] at hstep ⊢
    rw [← hstep]
    simp only
    rw [ih1]

/-- **the results under arrivals that bring nothing with `Done` are those of the specification with all bits `false`** -/
theorem last0_results (e : Env) (hv : e.Valid) (he : EnvLast0 e) (ops : List Op) (s : St) (hg : Good e s) (h : Last0 s.src) :
    (run e s ops).2 = (Spec.run e.frames s.abs ops []).2 := by
  have := (run_refines e hv ops s hg).2
  rw [run_bits e hv he ops s hg h] at this
  rw [this]

theorem init_last0 (e : Env) (he : EnvLast0 e) (rem0 : Nat) (s : St) (h : init e rem0 = some s) : Last0 s.src := by
  unfold init at h
  cases hf : e.frames[0]? with
  | none => simp [hf] at h
  | some f =>
    cases ha : e.arrs[0]? with
    | none => simp [hf, ha] at h
    | some a =>
      simp only [hf, ha, Option.some.injEq] at h
      subst h
      intro a' ha'
      simp only [Option.some.injEq] at ha'
      subst ha'
      exact he a (List.mem_of_getElem? ha)

/-- **two environments over the same file whose arrivals bring nothing with `Done` answer every call sequence alike** -/
theorem last0_independent (e1 e2 : Env) (hf : e1.frames = e2.frames) (hv1 : e1.Valid) (hv2 : e2.Valid)
    (h1 : EnvLast0 e1) (h2 : EnvLast0 e2) (rem0 : Nat) (hr : 1 ≤ rem0) (s1 s2 : St)
    (hi1 : init e1 rem0 = some s1) (hi2 : init e2 rem0 = some s2) (ops : List Op) :
    (run e1 s1 ops).2 = (run e2 s2 ops).2 := by
  obtain ⟨hg1, ha1⟩ := init_good e1 hv1 rem0 hr s1 hi1
  obtain ⟨hg2, ha2⟩ := init_good e2 hv2 rem0 hr s2 hi2
  rw [last0_results e1 hv1 h1 ops s1 hg1 (init_last0 e1 h1 rem0 s1 hi1),
    last0_results e2 hv2 h2 ops s2 hg2 (init_last0 e2 h2 rem0 s2 hi2)]
  rw [hf] at ha1
  rw [ha1] at ha2
  simp only [Option.some.injEq] at ha2
  rw [ha2, hf]

end Png.Lazy

namespace Png.LazyRefine
open Png Png.Lazy

/-- the environment of the same file under the eager arrival of every frame -/
def eagerEnv (e : Lazy.Env) : Lazy.Env := ⟨e.interlaced, e.frames, eagerArrs e.frames⟩

theorem eagerEnv_valid (e : Lazy.Env) : (eagerEnv e).Valid := by
  refine ⟨by simp [eagerEnv, eagerArrs], ?_⟩
  intro k f a hf ha
  simp only [eagerEnv, eagerArrs, List.getElem?_map] at hf ha
  rw [hf] at ha
  simp only [Option.map_some, Option.some.injEq] at ha
  subst ha
  simp [Lazy.Arrival.eager, Lazy.Arrival.total]

theorem eagerEnv_last0 (e : Lazy.Env) : EnvLast0 (eagerEnv e) := by
  intro a ha
  simp only [eagerEnv, eagerArrs, List.mem_map] at ha
  obtain ⟨f, _, rfl⟩ := ha
  rfl

/-- **under arrivals that bring nothing with `Done`, the `Lazy` model answers as under the EAGER arrival** -/
theorem eager_results (e : Lazy.Env) (hv : e.Valid) (he : EnvLast0 e) (rem0 : Nat) (hr : 1 ≤ rem0) (s0 : Lazy.St)
    (hi : Lazy.init e rem0 = some s0) (ops : List Lazy.Op) :
    ∃ s0', Lazy.init (eagerEnv e) rem0 = some s0' ∧ (Lazy.run e s0 ops).2 = (Lazy.run (eagerEnv e) s0' ops).2 := by
  have hinit : ∃ s0', Lazy.init (eagerEnv e) rem0 = some s0' := by
    unfold Lazy.init at hi ⊢
    cases hf : e.frames[0]? with
    | none => simp [hf] at hi
    | some f =>
      have : (eagerEnv e).frames[0]? = some f := hf
      have ha : (eagerEnv e).arrs[0]? = some (Lazy.Arrival.eager f.avail) := by
        simp [eagerEnv, eagerArrs, List.getElem?_map, hf]
      rw [this, ha]
      exact ⟨_, rfl⟩
  obtain ⟨s0', hi'⟩ := hinit
  exact ⟨s0', hi', last0_independent e (eagerEnv e) rfl hv (eagerEnv_valid e) he (eagerEnv_last0 e) rem0 hr s0 s0' hi hi' ops⟩

end Png.LazyRefine
