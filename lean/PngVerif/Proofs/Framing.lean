import PngVerif.Model.Framing
/-!
# Delivery independence and progress of the framing state machine (`Model/Framing.lean`)

All statements are for an arbitrary `cfg : Cfg` and an arbitrary decoder value `d : Dec` (no
reachability or well-formedness assumption), and for arbitrary input bytes.

* Part 1: what chunk parsers / `parse_u32` / `parse_chunk` do to `state`; the rank; progress of one
  `nextState` call (`nextState_progress`).
* Part 2: the caller-level semantics `run` (iterate `nextState`), fuel independence, `runF`.
* Part 3: bytewise simulation (`run_cons`), split invariance (`run_append`, `runPieces_flatten`).
* Part 4: `updateLoop` / `update` / `feed` (fuel, no spinning, poisoning, `feed_eq_run`).
-/
namespace Png.Framing
open Png

/-! ## Part 1a: chunk parsers never touch `state` and never produce `ImageEnd` -/

/-- what every chunk parser guarantees about a successful result -/
def POk (d : Dec) (r : PRes) : Prop :=
  ∀ d' ev, r = .ok (d', ev) → d'.state = d.state ∧ ev ≠ .imageEnd

theorem reserve_state {d d' : Dec} {n : Nat} (h : reserve d n = .ok d') : d'.state = d.state := by
  unfold reserve at h; split at h <;> cases h; rfl

macro "parser_ok" h:ident : tactic => `(tactic| (
  simp only [bind, Except.bind, eofOr, pure, Except.pure, throw, throwThe, MonadExceptOf.throw, withInfo] at $h:ident
  repeat' split at $h:ident
  all_goals first
    | (cases $h:ident; done)
    | (cases $h:ident; simp [setInfo, addText]; done)
    | (cases $h:ident; simp [setInfo, addText]; exact reserve_state (by assumption))))

theorem parseIhdr_ok (d : Dec) : POk d (parseIhdr d) := by
  intro d' ev h; unfold parseIhdr at h; parser_ok h
theorem parseFctl_ok (d : Dec) : POk d (parseFctl d) := by
  intro d' ev h; unfold parseFctl at h; parser_ok h
theorem parseActl_ok (d : Dec) : POk d (parseActl d) := by
  intro d' ev h; unfold parseActl at h; parser_ok h
theorem parsePlte_ok (d : Dec) : POk d (parsePlte d) := by
  intro d' ev h; unfold parsePlte at h; parser_ok h
theorem parseSbit_ok (d : Dec) : POk d (parseSbit d) := by
  intro d' ev h; unfold parseSbit at h; parser_ok h
theorem parseTrns_ok (d : Dec) : POk d (parseTrns d) := by
  intro d' ev h; unfold parseTrns at h; parser_ok h
theorem parsePhys_ok (d : Dec) : POk d (parsePhys d) := by
  intro d' ev h; unfold parsePhys at h; parser_ok h
theorem parseChrm_ok (d : Dec) : POk d (parseChrm d) := by
  intro d' ev h; unfold parseChrm at h; parser_ok h
theorem parseGama_ok (d : Dec) : POk d (parseGama d) := by
  intro d' ev h; unfold parseGama at h; parser_ok h
theorem parseSrgb_ok (d : Dec) : POk d (parseSrgb d) := by
  intro d' ev h; unfold parseSrgb at h; parser_ok h
theorem parseCicp_ok (d : Dec) : POk d (parseCicp d) := by
  intro d' ev h; unfold parseCicp at h; parser_ok h
theorem parseMdcv_ok (d : Dec) : POk d (parseMdcv d) := by
  intro d' ev h; unfold parseMdcv at h; parser_ok h
theorem parseClli_ok (d : Dec) : POk d (parseClli d) := by
  intro d' ev h; unfold parseClli at h; parser_ok h
theorem parseExif_ok (d : Dec) : POk d (parseExif d) := by
  intro d' ev h; unfold parseExif at h; parser_ok h
theorem parseBkgd_ok (d : Dec) : POk d (parseBkgd d) := by
  intro d' ev h; unfold parseBkgd at h; parser_ok h
theorem parseText_ok (d : Dec) : POk d (parseText d) := by
  intro d' ev h; unfold parseText at h; parser_ok h
theorem parseZtxt_ok (d : Dec) : POk d (parseZtxt d) := by
  intro d' ev h; unfold parseZtxt at h; parser_ok h
theorem parseItxt_ok (cfg : Cfg) (d : Dec) : POk d (parseItxt cfg d) := by
  intro d' ev h; unfold parseItxt at h; parser_ok h

theorem parseIccpRaw_state {cfg : Cfg} {d d' : Dec} (h : parseIccpRaw cfg d = .ok d') : d'.state = d.state := by
  unfold parseIccpRaw at h
  simp only [bind, Except.bind, eofOr, pure, Except.pure, throw, throwThe, MonadExceptOf.throw] at h
  repeat' split at h
  all_goals first
    | (cases h; done)
    | (cases h; simp [setInfo]; exact reserve_state (by assumption))

theorem parseIccp_ok (cfg : Cfg) (d : Dec) : POk d (parseIccp cfg d) := by
  intro d' ev h
  unfold parseIccp at h
  simp only at h
  repeat' split at h
  all_goals first
    | (cases h; done)
    | (cases h; simp; done)
    | (cases h; simp; exact (parseIccpRaw_state (by assumption) : _ = ({ d with haveIccp := true } : Dec).state))

local macro "dcase" h:ident c:term "," l:term : tactic =>
  `(tactic| (by_cases hc : $c; (· rw [if_pos hc] at $h:ident; exact $l $h:ident); rw [if_neg hc] at $h:ident))

theorem dispatch_ok (cfg : Cfg) (d : Dec) (t : ChunkType) : POk d (dispatch cfg d t) := by
  intro d' ev h
  unfold dispatch at h
  dcase h (t = IHDR), parseIhdr_ok _ _ _
  dcase h (t = sBIT), parseSbit_ok _ _ _
  dcase h (t = PLTE), parsePlte_ok _ _ _
  dcase h (t = tRNS), parseTrns_ok _ _ _
  dcase h (t = pHYs), parsePhys_ok _ _ _
  dcase h (t = gAMA), parseGama_ok _ _ _
  dcase h (t = acTL), parseActl_ok _ _ _
  dcase h (t = fcTL), parseFctl_ok _ _ _
  dcase h (t = cHRM), parseChrm_ok _ _ _
  dcase h (t = sRGB), parseSrgb_ok _ _ _
  dcase h (t = cICP), parseCicp_ok _ _ _
  dcase h (t = mDCV), parseMdcv_ok _ _ _
  dcase h (t = cLLI), parseClli_ok _ _ _
  dcase h (t = eXIf), parseExif_ok _ _ _
  dcase h (t = bKGD), parseBkgd_ok _ _ _
  dcase h (t = iCCP ∧ (!d.opts.ignoreIccp) = true), parseIccp_ok _ _ _ _
  dcase h (t = tEXt ∧ (!d.opts.ignoreText) = true), parseText_ok _ _ _
  dcase h (t = zTXt ∧ (!d.opts.ignoreText) = true), parseZtxt_ok _ _ _
  dcase h (t = iTXt ∧ (!d.opts.ignoreText) = true), parseItxt_ok _ _ _ _
  cases h; simp

theorem ite_prop {α} {c : Prop} [Decidable c] {a b : α} (P : α → Prop) (ha : P a) (hb : P b) :
    P (if c then a else b) := by
  split <;> assumption

/-- `parse_chunk` leaves the machine in `U32 Crc(t)` and never reports `ImageEnd` -/
theorem parseChunk_ok {cfg : Cfg} {d d' : Dec} {t : ChunkType} {ev : Ev}
    (h : parseChunk cfg d t = .ok (ev, d')) : d'.state = some (.u32 (.crc t) []) ∧ ev ≠ .imageEnd := by
  unfold parseChunk at h
  simp only at h
  cases hd : dispatch cfg { d with state := some (.u32 (.crc t) []) } t with
  | ok r =>
    rw [hd] at h; obtain ⟨d1, ev1⟩ := r; cases h
    exact dispatch_ok cfg _ t _ _ hd
  | error e =>
    rw [hd] at h; simp only at h
    have key : ∀ d0 : Dec, (if t = sBIT ∨ t = tRNS then
          (match d0.info with
           | some i =>
             if (if t = sBIT then !(i.palette.isSome || d0.haveIdat || i.sbit.isSome) else !(i.trns.isSome || d0.haveIdat)) = true then
               (match reserve d0 d0.raw.length with | .ok d2 => d2 | .error _ => d0) else d0
           | none => d0)
        else d0).state = d0.state := by
      intro d0
      refine ite_prop (fun x : Dec => x.state = d0.state) ?_ rfl
      split
      · refine ite_prop (fun x : Dec => x.state = d0.state) ?_ rfl
        split
        · rename_i hr; exact reserve_state hr
        · rfl
      · rfl
    cases e <;> simp only [Bool.true_and, Bool.false_and, Bool.false_eq_true, if_false] at h
    · split at h
      · cases h; exact ⟨key _, by simp⟩
      · cases h
    · split at h
      · cases h; exact ⟨key _, by simp⟩
      · cases h
    · cases h
    · cases h

theorem reserveCurrentChunk_ok {d d' : Dec} (h : reserveCurrentChunk d = .ok d') :
    d'.state = d.state ∧ d'.remaining = d.remaining ∧ d'.raw = d.raw ∧ d'.cap - d'.raw.length ≠ 0 := by
  unfold reserveCurrentChunk at h
  simp only at h
  split at h
  · cases h
  · split at h
    · cases h
    · rename_i h1 h2
      cases h
      simp only at h2 ⊢
      refine ⟨trivial, trivial, trivial, ?_⟩
      omega

/-! ## Part 1b: rank -/

/-- rank of a pending re-parse (`U32` with four accumulated bytes): one higher when the re-parse of
    a chunk type will take the "end of data-chunk sequence" branch once more -/
def pendingRank (d : Dec) (kind : U32Kind) (acc : Bytes) : Nat :=
  match kind, acc with
  | .type _, b0 :: b1 :: b2 :: b3 :: _ => if be32 b0 b1 b2 b3 = d.curType then 3 else 4
  | _, _ => 3

/-- every `nextState` call that consumes no input strictly decreases the rank -/
def rank (d : Dec) : Nat :=
  match d.state with
  | some (.u32 kind acc) => if acc.length < 4 then 0 else pendingRank d kind acc
  | some (.readChunkData _) => if d.remaining = 0 then 1 else if d.cap - d.raw.length = 0 then 2 else 0
  | some (.parseChunkData _) => 1
  | some (.imageData _) => if d.remaining = 0 then 1 else 0
  | none => 0

theorem pendingRank_le (d : Dec) (kind : U32Kind) (acc : Bytes) : pendingRank d kind acc ≤ 4 := by
  unfold pendingRank; repeat' split
  all_goals omega

theorem pendingRank_ge (d : Dec) (kind : U32Kind) (acc : Bytes) : 3 ≤ pendingRank d kind acc := by
  unfold pendingRank; repeat' split
  all_goals omega

theorem rank_le (d : Dec) : rank d ≤ 4 := by
  unfold rank
  have := pendingRank_le d
  repeat' split
  all_goals first | omega | apply pendingRank_le

@[simp] theorem withState_state (d : Dec) (s : Option St) : (d.withState s).state = s := rfl
@[simp] theorem withState_withState (d : Dec) (s s' : Option St) : (d.withState s).withState s' = d.withState s' := rfl
theorem withState_eq (d : Dec) (s : Option St) : { d with state := s } = d.withState s := rfl

/-! ## Part 1c: `parse_u32` -/

theorem flushData_ok {cfg : Cfg} {d d' : Dec} (h : flushData cfg d = .ok d') : d'.curType = d.curType := by
  unfold flushData at h
  repeat' split at h
  all_goals first | (cases h; done) | (cases h; rfl)

theorem afterType_ok {d d' : Dec} {t : ChunkType} {len : Nat} {st : St} (h : afterType d t len = .ok (st, d')) :
    st = .u32 .seqNo [] ∨ st = .imageData t ∨ st = .readChunkData t ∨ st = .parseChunkData t := by
  unfold afterType at h
  by_cases h1 : t = fdAT
  · rw [if_pos h1] at h
    repeat' split at h
    all_goals first | (cases h; done) | (cases h; simp)
  · rw [if_neg h1] at h
    by_cases h2 : t = IDAT
    · rw [if_pos h2] at h
      repeat' split at h
      all_goals first | (cases h; done) | (cases h; simp)
    · rw [if_neg h2] at h
      split at h <;> (cases h; simp)

theorem parseU32_ok {cfg : Cfg} {d d' : Dec} {kind : U32Kind} {b0 b1 b2 b3 : UInt8} {ev : Ev}
    (h : parseU32 cfg d kind b0 b1 b2 b3 = .ok (ev, d')) :
    (ev = .imageEnd → d' = d) ∧
    (ev ≠ .imageEnd → d'.state ≠ none ∧ rank d' ≤ 3 ∧ (pendingRank d kind [b0, b1, b2, b3] = 3 → rank d' ≤ 2)) := by
  cases kind with
  | sig1 =>
    simp only [parseU32] at h
    repeat' split at h
    all_goals first | (cases h; done) | (cases h; simp [rank]; done)
  | sig2 =>
    simp only [parseU32] at h
    repeat' split at h
    all_goals first | (cases h; done) | (cases h; simp [rank]; done)
  | length => simp only [parseU32] at h; cases h; simp [rank]
  | type len =>
    simp only [parseU32] at h
    split at h
    · cases h
    · split at h
      · rename_i hne
        split at h
        · cases h
        · rename_i d1 hf
          cases h
          have hc := flushData_ok hf
          simp only at hc
          simp [rank, pendingRank, hc, hne.1]
      · split at h
        · cases h
        · rename_i st d1 ha
          cases h
          rcases afterType_ok ha with h1 | h1 | h1 | h1 <;> subst h1 <;> simp [rank] <;> (repeat' split) <;> omega
  | crc t =>
    simp only [parseU32] at h
    repeat' split at h
    all_goals first | (cases h; done) | (cases h; simp [rank]; done)
  | seqNo =>
    simp only [parseU32] at h
    repeat' split at h
    all_goals first | (cases h; done) | (cases h; simp [rank]; done) | (cases h; simp [rank]; split <;> omega)

theorem pendingRank_take4 (d : Dec) (kind : U32Kind) (b0 b1 b2 b3 : UInt8) (rest : Bytes) :
    pendingRank d kind (b0 :: b1 :: b2 :: b3 :: rest) = pendingRank d kind [b0, b1, b2, b3] := by
  cases kind <;> rfl

theorem parse4_ok {cfg : Cfg} {d d' : Dec} {kind : U32Kind} {l : Bytes} {n n' : Nat} {ev : Ev}
    (h : parse4 cfg d kind l n = .ok (n', ev, d')) :
    n' = n ∧ ∃ b0 b1 b2 b3 rest, l = b0 :: b1 :: b2 :: b3 :: rest ∧ parseU32 cfg d kind b0 b1 b2 b3 = .ok (ev, d') := by
  unfold parse4 at h
  split at h
  · rename_i b0 b1 b2 b3 rest
    cases hp : parseU32 cfg d kind b0 b1 b2 b3 with
    | error e => rw [hp] at h; cases h
    | ok r =>
      rw [hp] at h; obtain ⟨ev1, d1⟩ := r
      simp only [Except.map] at h
      cases h
      exact ⟨rfl, b0, b1, b2, b3, rest, rfl, hp⟩
  · cases h

/-! ## Part 1d: progress of one `next_state` call -/

/-- what one successful `nextState` call guarantees (C07 core) -/
structure StepOk (d : Dec) (st : St) (buf : Bytes) (n : Nat) (ev : Ev) (d' : Dec) : Prop where
  le : n ≤ buf.length
  rank : n = 0 → rank d' < rank (d.withState (some st))
  state : ev ≠ .imageEnd → d'.state ≠ none
  fin : ev = .imageEnd → d'.state = none

theorem stepU32_progress {cfg : Cfg} {d d' : Dec} {kind : U32Kind} {acc buf : Bytes} {n : Nat} {ev : Ev}
    (hd : d.state = none) (hbuf : buf ≠ []) (h : stepU32 cfg d kind acc buf = .ok (n, ev, d')) :
    StepOk d (.u32 kind acc) buf n ev d' := by
  have hlen : 0 < buf.length := by cases buf with | nil => exact absurd rfl hbuf | cons _ _ => simp
  unfold stepU32 at h
  split at h
  · rename_i hc
    obtain ⟨hn, b0, b1, b2, b3, rest, hl, hp⟩ := parse4_ok h
    have hk := parseU32_ok hp
    subst hn
    refine ⟨by omega, by omega, fun hne => (hk.2 hne).1, fun he => ?_⟩
    rw [hk.1 he]; exact hd
  · rename_i hc
    simp only at h
    split at h
    · rename_i hlt
      cases h
      simp only [List.length_append, List.length_take] at hlt
      refine ⟨Nat.min_le_right _ _, ?_, by simp, by simp⟩
      intro h0; omega
    · rename_i hge
      obtain ⟨hn, b0, b1, b2, b3, rest, hl, hp⟩ := parse4_ok h
      have hk := parseU32_ok hp
      subst hn
      refine ⟨Nat.min_le_right _ _, ?_, fun hne => (hk.2 hne).1, fun he => ?_⟩
      · intro h0
        have hacc : 4 ≤ acc.length := by omega
        rw [h0, List.take_zero, List.append_nil] at hl
        have hr : Png.Framing.rank (d.withState (some (.u32 kind acc))) = pendingRank d kind [b0, b1, b2, b3] := by
          simp only [Png.Framing.rank, withState_state]
          rw [if_neg (by omega), hl, pendingRank_take4]
          cases kind <;> rfl
        rw [hr]
        have h3 := pendingRank_ge d kind [b0, b1, b2, b3]
        have h4 := pendingRank_le d kind [b0, b1, b2, b3]
        by_cases he : ev = .imageEnd
        · rw [hk.1 he]
          simp only [Png.Framing.rank, hd]; omega
        · have := hk.2 he
          by_cases hp3 : pendingRank d kind [b0, b1, b2, b3] = 3
          · have := this.2.2 hp3; omega
          · have := this.2.1; omega
      · rw [hk.1 he]; exact hd

theorem stepParse_progress {cfg : Cfg} {d d' : Dec} {t : ChunkType} {buf : Bytes} {n : Nat} {ev : Ev}
    (h : stepParse cfg d t = .ok (n, ev, d')) :
    StepOk d (.parseChunkData t) buf n ev d' ∧ n = 0 := by
  unfold stepParse at h
  split at h
  · cases hp : parseChunk cfg d t with
    | error e => rw [hp] at h; cases h
    | ok r =>
      rw [hp] at h; obtain ⟨ev1, d1⟩ := r
      simp only [Except.map] at h
      cases h
      have hk := parseChunk_ok hp
      refine ⟨⟨by omega, fun _ => ?_, fun _ => by simp [hk.1], fun he => absurd he hk.2⟩, rfl⟩
      simp [Png.Framing.rank, hk.1]
  · rename_i hrem
    cases hp : reserveCurrentChunk d with
    | error e => rw [hp] at h; cases h
    | ok d1 =>
      rw [hp] at h
      simp only [Except.map] at h
      cases h
      obtain ⟨_, h2, h3, h4⟩ := reserveCurrentChunk_ok hp
      refine ⟨⟨by omega, fun _ => ?_, fun _ => by simp, fun he => by cases he⟩, rfl⟩
      simp only [Png.Framing.rank, withState_state]
      rw [if_neg (by simpa [h2] using hrem), if_neg (by simpa using h4)]
      omega

theorem stepRead_progress {d d' : Dec} {t : ChunkType} {buf : Bytes} {n : Nat} {ev : Ev}
    (hbuf : buf ≠ []) (h : stepRead d t buf = .ok (n, ev, d')) :
    StepOk d (.readChunkData t) buf n ev d' ∧ ev = .nothing := by
  have hlen : 0 < buf.length := by cases buf with | nil => exact absurd rfl hbuf | cons _ _ => simp
  unfold stepRead at h
  split at h
  · rename_i h0
    cases h
    refine ⟨⟨by omega, fun _ => ?_, fun _ => by simp, fun he => by cases he⟩, rfl⟩
    simp [Png.Framing.rank, Dec.withState, h0]
  · rename_i h0
    simp only at h
    split at h
    · rename_i h1
      cases h
      refine ⟨⟨by omega, fun _ => ?_, fun _ => by simp, fun he => by cases he⟩, rfl⟩
      simp [Png.Framing.rank, Dec.withState, h0, h1]
    · rename_i h1
      cases h
      refine ⟨⟨by omega, fun hn => ?_, fun _ => by simp, fun he => by cases he⟩, rfl⟩
      omega

theorem stepImage_progress {cfg : Cfg} {d d' : Dec} {t : ChunkType} {buf : Bytes} {n : Nat} {ev : Ev}
    (hbuf : buf ≠ []) (h : stepImage cfg d t buf = .ok (n, ev, d')) :
    StepOk d (.imageData t) buf n ev d' ∧ ev = .imageData := by
  have hlen : 0 < buf.length := by cases buf with | nil => exact absurd rfl hbuf | cons _ _ => simp
  unfold stepImage at h
  simp only at h
  split at h
  · cases h
  · cases h
    refine ⟨⟨Nat.min_le_left _ _, fun hn => ?_, fun _ => by simp, fun he => by cases he⟩, rfl⟩
    have h0 : d.remaining = 0 := by omega
    simp [Png.Framing.rank, Dec.withState, Dec.imagePiece, h0]

/-- **Progress (C07)**: a successful `next_state` call on a non-empty buffer consumes at most the
    buffer; if it consumes nothing the rank strictly decreases; the state is `none` afterwards
    exactly when the event is `ImageEnd`. -/
theorem nextState_progress {cfg : Cfg} {d d' : Dec} {st : St} {buf : Bytes} {n : Nat} {ev : Ev}
    (hbuf : buf ≠ []) (h : nextState cfg d st buf = .ok (n, ev, d')) :
    n ≤ buf.length ∧ (n = 0 → rank d' < rank (d.withState (some st))) ∧
    (ev ≠ .imageEnd → d'.state ≠ none) ∧ (ev = .imageEnd → d'.state = none) := by
  unfold nextState at h
  simp only at h
  have key : ∀ {st}, StepOk (d.withState none) st buf n ev d' →
      n ≤ buf.length ∧ (n = 0 → rank d' < rank (d.withState (some st))) ∧
      (ev ≠ .imageEnd → d'.state ≠ none) ∧ (ev = .imageEnd → d'.state = none) :=
    fun s => ⟨s.le, s.rank, s.state, s.fin⟩
  cases st with
  | u32 kind acc => exact key (stepU32_progress rfl hbuf h)
  | parseChunkData t => exact key (stepParse_progress h).1
  | readChunkData t => exact key (stepRead_progress hbuf h).1
  | imageData t => exact key (stepImage_progress hbuf h).1

/-! ## Part 2: caller-level semantics -/

/-- final decoder, events reported (without `Nothing`), error that ended the run -/
abbrev Res := Dec × List Ev × Option Err

/-- prepend an event unless it is `Nothing` -/
def Res.cons (ev : Ev) (r : Res) : Res := (r.1, (if ev = .nothing then r.2.1 else ev :: r.2.1), r.2.2)

/-- Iterate `nextState` until the buffer is empty or an error occurs; collect all events other than
    `Nothing`.  A poisoned decoder (`state = none`) refuses with `Parameter`, as `update` does; an
    error poisons the decoder. -/
def run (cfg : Cfg) : Nat → Dec → Bytes → Res
  | 0, d, _ => (d, [], none)
  | f+1, d, buf =>
    if buf = [] then (d, [], none) else
    match d.state with
    | none => (d, [], some .parameter)
    | some st =>
      match nextState cfg d st buf with
      | .error e => (d.withState none, [], some e)
      | .ok (n, ev, d') => Res.cons ev (run cfg f d' (buf.drop n))

/-- the potential that every `nextState` call decreases -/
def mu (d : Dec) (buf : Bytes) : Nat := 5 * buf.length + rank d

theorem withState_self {d : Dec} {st : St} (hs : d.state = some st) : d.withState (some st) = d := by
  cases d; simp only [Dec.withState] at *; subst hs; rfl

theorem step_mu {cfg : Cfg} {d d' : Dec} {st : St} {buf : Bytes} {n : Nat} {ev : Ev}
    (hs : d.state = some st) (hbuf : buf ≠ []) (h : nextState cfg d st buf = .ok (n, ev, d')) :
    mu d' (buf.drop n) < mu d buf := by
  obtain ⟨h1, h2, _, _⟩ := nextState_progress hbuf h
  rw [withState_self hs] at h2
  have h4 := rank_le d'
  simp only [mu, List.length_drop]
  by_cases hn : n = 0
  · have := h2 hn; subst hn; omega
  · omega

/-- **Fuel independence**: any fuel above `5·|buf| + rank d` gives the same result -/
theorem run_fuel (cfg : Cfg) : ∀ (f1 f2 : Nat) (d : Dec) (buf : Bytes),
    mu d buf + 1 ≤ f1 → mu d buf + 1 ≤ f2 → run cfg f1 d buf = run cfg f2 d buf := by
  intro f1
  induction f1 with
  | zero => intro f2 d buf h1; omega
  | succ f1 ih =>
    intro f2 d buf h1 h2
    cases f2 with
    | zero => omega
    | succ f2 =>
      simp only [run]
      split
      · rfl
      · rename_i hbuf
        split
        · rfl
        · rename_i st hs
          split
          · rfl
          · rename_i n ev d' hn
            have := step_mu hs hbuf hn
            rw [ih f2 d' (buf.drop n) (by omega) (by omega)]

/-- `run` with the canonical (sufficient) fuel -/
def runF (cfg : Cfg) (d : Dec) (buf : Bytes) : Res := run cfg (mu d buf + 1) d buf

theorem run_eq_runF (cfg : Cfg) {f : Nat} {d : Dec} {buf : Bytes} (h : mu d buf + 1 ≤ f) :
    run cfg f d buf = runF cfg d buf := run_fuel cfg _ _ _ _ h (Nat.le_refl _)

theorem runF_nil (cfg : Cfg) (d : Dec) : runF cfg d [] = (d, [], none) := by
  simp [runF, run]

theorem runF_none (cfg : Cfg) {d : Dec} {buf : Bytes} (hs : d.state = none) (hbuf : buf ≠ []) :
    runF cfg d buf = (d, [], some .parameter) := by
  simp [runF, run, hbuf, hs]

theorem runF_error (cfg : Cfg) {d : Dec} {st : St} {buf : Bytes} {e : Err} (hs : d.state = some st) (hbuf : buf ≠ [])
    (h : nextState cfg d st buf = .error e) : runF cfg d buf = (d.withState none, [], some e) := by
  simp [runF, run, hbuf, hs, h]

theorem runF_ok (cfg : Cfg) {d d' : Dec} {st : St} {buf : Bytes} {n : Nat} {ev : Ev} (hs : d.state = some st)
    (hbuf : buf ≠ []) (h : nextState cfg d st buf = .ok (n, ev, d')) :
    runF cfg d buf = Res.cons ev (runF cfg d' (buf.drop n)) := by
  have := step_mu hs hbuf h
  unfold runF
  conv => lhs; rw [run]
  simp only [hbuf, hs, h, if_false]
  rw [run_fuel cfg (mu d buf) (mu d' (buf.drop n) + 1) d' (buf.drop n) (by omega) (Nat.le_refl _)]

/-! ## Part 3a: sequencing of results and the observable projection -/

/-- continue with `k` from the decoder `r` ended in, unless `r` ended in an error -/
def Res.bind (r : Res) (k : Dec → Res) : Res :=
  match r.2.2 with
  | none => let r2 := k r.1; (r2.1, r.2.1 ++ r2.2.1, r2.2.2)
  | some _ => r

/-- events that C04 observes: everything but the per-call `ImageData` notifications -/
def Ev.keep : Ev → Bool
  | .imageData => false
  | _ => true

/-- What is left of a decoder after a fatal error, for the purposes of C04: the progress made inside
    the data chunk in which the failure was detected (how much of it was consumed and decompressed
    before the failure was reported) is exempt from delivery independence; everything else —
    `info`, the poisoned `state`, the flags, `limit`, … — is not. -/
def Dec.afterError (d : Dec) : Dec :=
  { d with out := [], zin := [], zemitted := 0, zstarted := false, crcAcc := [], remaining := 0 }

/-- What C04 observes of a result: the events other than `ImageData`, the error, and the final
    decoder — completely (hence `info`, `out`) if there was no error, up to `Dec.afterError` otherwise -/
def Res.proj (r : Res) : Res :=
  ((match r.2.2 with | none => r.1 | some _ => r.1.afterError), r.2.1.filter Ev.keep, r.2.2)

theorem Res.cons_nothing (r : Res) : Res.cons .nothing r = r := by simp [Res.cons]

theorem Res.cons_bind (ev : Ev) (r : Res) (k : Dec → Res) : (Res.cons ev r).bind k = Res.cons ev (r.bind k) := by
  obtain ⟨d, es, e⟩ := r
  cases e with
  | none => simp only [Res.bind, Res.cons]; split <;> simp
  | some e => simp [Res.bind, Res.cons]

theorem Res.pure_bind (d : Dec) (k : Dec → Res) : Res.bind (d, [], none) k = k d := by
  simp [Res.bind]

theorem Res.error_bind (d : Dec) (es : List Ev) (e : Err) (k : Dec → Res) : Res.bind (d, es, some e) k = (d, es, some e) := by
  simp [Res.bind]

theorem Res.bind_pure (r : Res) : r.bind (fun d => (d, [], none)) = r := by
  obtain ⟨d, es, e⟩ := r
  cases e <;> simp [Res.bind]

theorem Res.bind_assoc (r : Res) (k1 k2 : Dec → Res) : (r.bind k1).bind k2 = r.bind (fun d => (k1 d).bind k2) := by
  obtain ⟨d, es, e⟩ := r
  cases e with
  | some e => simp [Res.bind]
  | none =>
    simp only [Res.bind]
    generalize k1 d = r1
    obtain ⟨d1, es1, e1⟩ := r1
    cases e1 <;> simp

theorem Res.proj_eq_iff (r r' : Res) : r.proj = r'.proj ↔
    r.2.2 = r'.2.2 ∧ r.2.1.filter Ev.keep = r'.2.1.filter Ev.keep ∧
    (match r.2.2 with | none => r.1 = r'.1 | some _ => r.1.afterError = r'.1.afterError) := by
  obtain ⟨d, es, e⟩ := r
  obtain ⟨d', es', e'⟩ := r'
  simp only [Res.proj, Prod.mk.injEq]
  constructor
  · rintro ⟨h1, h2, h3⟩
    subst h3
    refine ⟨rfl, h2, ?_⟩
    cases e <;> exact h1
  · rintro ⟨h1, h2, h3⟩
    subst h1
    refine ⟨?_, h2, rfl⟩
    cases e <;> exact h3

theorem Res.proj_cons_congr (ev : Ev) {r r' : Res} (h : r.proj = r'.proj) : (Res.cons ev r).proj = (Res.cons ev r').proj := by
  rw [Res.proj_eq_iff] at h ⊢
  obtain ⟨h1, h2, h3⟩ := h
  refine ⟨h1, ?_, h3⟩
  simp only [Res.cons]
  split
  · exact h2
  · simp only [List.filter_cons]; rw [h2]

theorem Res.proj_cons_imageData (r : Res) : (Res.cons .imageData r).proj = r.proj := by
  simp [Res.proj, Res.cons, Ev.keep]

theorem Res.proj_bind_congr_left {r r' : Res} (k : Dec → Res) (h : r.proj = r'.proj) : (r.bind k).proj = (r'.bind k).proj := by
  obtain ⟨d, es, e⟩ := r
  obtain ⟨d', es', e'⟩ := r'
  have h' := (Res.proj_eq_iff _ _).1 h
  simp only at h'
  obtain ⟨h1, h2, h3⟩ := h'
  subst h1
  cases e with
  | some e => simpa [Res.bind] using h
  | none =>
    simp only at h3
    subst h3
    simp [Res.bind, Res.proj, h2]

theorem Res.proj_bind_congr_right (r : Res) {k k' : Dec → Res} (h : ∀ d, (k d).proj = (k' d).proj) :
    (r.bind k).proj = (r.bind k').proj := by
  obtain ⟨d, es, e⟩ := r
  cases e with
  | some e => simp [Res.bind]
  | none =>
    have := (Res.proj_eq_iff _ _).1 (h d)
    obtain ⟨h1, h2, h3⟩ := this
    rw [Res.proj_eq_iff]
    simp only [Res.bind, List.filter_append, h2]
    exact ⟨h1, trivial, h3⟩

/-! ## Part 3b: one call on `x :: y :: ys` versus a call on `[x]` followed by a call on `y :: ys` -/

/-- the same step, one more byte consumed before it -/
def shift1 (r : Except Err (Nat × Ev × Dec)) : Except Err (Nat × Ev × Dec) :=
  r.map fun (n, ev, d) => (n + 1, ev, d)

theorem shift1_parse4 (cfg : Cfg) (d : Dec) (kind : U32Kind) (l : Bytes) (n : Nat) :
    shift1 (parse4 cfg d kind l n) = parse4 cfg d kind l (n + 1) := by
  unfold parse4 shift1
  split
  · rename_i b0 b1 b2 b3 rest
    cases parseU32 cfg d kind b0 b1 b2 b3 <;> rfl
  · rfl

theorem parse4_take (cfg : Cfg) (d : Dec) (kind : U32Kind) (b0 b1 b2 b3 : UInt8) (rest : Bytes) (n : Nat) :
    parse4 cfg d kind (b0 :: b1 :: b2 :: b3 :: rest) n = parse4 cfg d kind [b0, b1, b2, b3] n := rfl

/-- accumulating `x` first and then continuing is the same `U32` step (also against the fast path) -/
theorem stepU32_merge (cfg : Cfg) (d : Dec) (kind : U32Kind) (acc : Bytes) (x y : UInt8) (ys : Bytes)
    (hacc : acc.length < 3) :
    stepU32 cfg d kind acc (x :: y :: ys) = shift1 (stepU32 cfg d kind (acc ++ [x]) (y :: ys)) := by
  match acc, hacc with
  | [], _ =>
    match ys with
    | [] => simp [stepU32, shift1, Except.map]
    | [z] => simp [stepU32, shift1, Except.map]
    | z :: w :: rest =>
      have h3 : min 3 (rest.length + 1 + 1 + 1) = 3 := by omega
      simp [stepU32, shift1_parse4, h3, parse4_take]
  | [a], _ =>
    match ys with
    | [] => simp [stepU32, shift1, Except.map]
    | z :: rest =>
      have h3 : min 3 (rest.length + 1 + 1 + 1) = 3 := by omega
      have h2 : min 2 (rest.length + 1 + 1) = 2 := by omega
      simp [stepU32, shift1_parse4, h3, h2]
  | [a, b], _ =>
    have h2 : min 2 (ys.length + 1 + 1) = 2 := by omega
    have h1 : min 1 (ys.length + 1) = 1 := by omega
    simp [stepU32, shift1_parse4, h2, h1]

/-- with at most one byte missing (or a pending re-parse) the `U32` step looks at one byte only -/
theorem stepU32_indep (cfg : Cfg) (d : Dec) (kind : U32Kind) (acc : Bytes) (x y : UInt8) (ys : Bytes)
    (hacc : 3 ≤ acc.length) :
    stepU32 cfg d kind acc (x :: y :: ys) = stepU32 cfg d kind acc [x] := by
  have hne : acc.length ≠ 0 := by omega
  have h1 : min (4 - acc.length) (x :: y :: ys).length = min (4 - acc.length) [x].length := by
    simp only [List.length_cons, List.length_nil]; omega
  have h2 : (x :: y :: ys).take (min (4 - acc.length) [x].length) = [x].take (min (4 - acc.length) [x].length) := by
    have : min (4 - acc.length) [x].length = 0 ∨ min (4 - acc.length) [x].length = 1 := by
      simp only [List.length_cons, List.length_nil]; omega
    rcases this with h | h <;> rw [h] <;> rfl
  simp only [stepU32, hne, false_and, if_false, h1, h2]

theorem stepU32_first (cfg : Cfg) (d : Dec) (kind : U32Kind) (acc : Bytes) (x : UInt8) (hacc : acc.length < 3) :
    stepU32 cfg d kind acc [x] = .ok (1, .nothing, { d with state := some (.u32 kind (acc ++ [x])) }) := by
  have h1 : min (4 - acc.length) [x].length = 1 := by simp only [List.length_cons, List.length_nil]; omega
  have h0 : ¬ (acc.length = 0 ∧ [x].length ≥ 4) := by simp
  simp only [stepU32, h0, if_false, h1, List.take_succ_cons, List.take_zero]
  rw [if_pos (by simp; omega)]

/-! `ReadChunkData` -/

theorem readPiece_readPiece (d : Dec) (x : UInt8) (n : Nat) (p : Bytes) :
    (d.readPiece 1 [x]).readPiece n p = d.readPiece (n + 1) (x :: p) := by
  cases h : d.opts.ignoreCrc <;> simp [Dec.readPiece, h] <;> omega

theorem stepRead_indep (d : Dec) (t : ChunkType) (x y : UInt8) (ys : Bytes)
    (h : min d.remaining (d.cap - d.raw.length) ≤ 1) :
    stepRead d t (x :: y :: ys) = stepRead d t [x] := by
  simp only [stepRead]
  split
  · rfl
  · split
    · rfl
    · have h1 : min d.remaining (min (x :: y :: ys).length (d.cap - d.raw.length)) = 1 := by
        simp only [List.length_cons]; omega
      have h2 : min d.remaining (min [x].length (d.cap - d.raw.length)) = 1 := by
        simp only [List.length_cons, List.length_nil]; omega
      simp only [h1, h2]; rfl

theorem stepRead_first (d : Dec) (t : ChunkType) (x : UInt8)
    (h : 2 ≤ min d.remaining (d.cap - d.raw.length)) :
    stepRead d t [x] = .ok (1, .nothing, { d.readPiece 1 [x] with state := some (.readChunkData t) }) := by
  have h0 : d.remaining ≠ 0 := by omega
  have h1 : d.cap - d.raw.length ≠ 0 := by omega
  have h2 : min d.remaining (min [x].length (d.cap - d.raw.length)) = 1 := by
    simp only [List.length_cons, List.length_nil]; omega
  have h3 : (d.readPiece 1 [x]).remaining ≠ 0 := by simp only [Dec.readPiece]; omega
  simp only [stepRead, h0, h1, if_false, h2, List.take_succ_cons, List.take_zero, h3]

theorem stepRead_merge (d : Dec) (t : ChunkType) (x y : UInt8) (ys : Bytes)
    (h : 2 ≤ min d.remaining (d.cap - d.raw.length)) :
    stepRead d t (x :: y :: ys) = shift1 (stepRead (d.readPiece 1 [x]) t (y :: ys)) := by
  have h0 : d.remaining ≠ 0 := by omega
  have h1 : d.cap - d.raw.length ≠ 0 := by omega
  have h0' : (d.readPiece 1 [x]).remaining ≠ 0 := by simp only [Dec.readPiece]; omega
  have h1' : (d.readPiece 1 [x]).cap - (d.readPiece 1 [x]).raw.length ≠ 0 := by
    simp only [Dec.readPiece, List.length_append, List.length_cons, List.length_nil]; omega
  have hn : min d.remaining (min (x :: y :: ys).length (d.cap - d.raw.length)) =
      min (d.readPiece 1 [x]).remaining (min (y :: ys).length ((d.readPiece 1 [x]).cap - (d.readPiece 1 [x]).raw.length)) + 1 := by
    simp only [Dec.readPiece, List.length_cons, List.length_append, List.length_nil]; omega
  simp only [stepRead, h0, h1, h0', h1', if_false, shift1, Except.map]
  rw [readPiece_readPiece, hn, List.take_succ_cons]

/-! `ImageData` -/

theorem drop_prefix_split (ze : Nat) (o1 s : Bytes) :
    o1.drop ze ++ (o1 ++ s).drop (max ze o1.length) = (o1 ++ s).drop ze := by
  by_cases h : ze ≤ o1.length
  · rw [Nat.max_eq_right h, List.drop_append_of_le_length h, List.drop_left]
  · have h' : o1.length ≤ ze := by omega
    rw [Nat.max_eq_left h', List.drop_of_length_le h', List.nil_append]

theorem imagePiece_imagePiece (d : Dec) (x : UInt8) (n : Nat) (p o1 o2 : Bytes) (h : o1 <+: o2) :
    (d.imagePiece 1 [x] o1).imagePiece n p o2 = d.imagePiece (n + 1) (x :: p) o2 := by
  obtain ⟨s, rfl⟩ := h
  have h1 := drop_prefix_split d.zemitted o1 s
  simp only [Dec.imagePiece, List.append_assoc, List.length_append, h1, List.cons_append, List.nil_append]
  congr 1 <;> omega

theorem stepImage_indep (cfg : Cfg) (d : Dec) (t : ChunkType) (x y : UInt8) (ys : Bytes) (h : d.remaining ≤ 1) :
    stepImage cfg d t (x :: y :: ys) = stepImage cfg d t [x] := by
  have h1 : min (x :: y :: ys).length d.remaining = d.remaining := by simp only [List.length_cons]; omega
  have h2 : min [x].length d.remaining = d.remaining := by simp only [List.length_cons, List.length_nil]; omega
  have h3 : (x :: y :: ys).take d.remaining = [x].take d.remaining := by
    have : d.remaining = 0 ∨ d.remaining = 1 := by omega
    rcases this with h | h <;> rw [h] <;> rfl
  simp only [stepImage, h1, h2, h3]

theorem stepImage_first (cfg : Cfg) (d : Dec) (t : ChunkType) (x : UInt8) (o1 : Bytes) (b1 : Bool)
    (h : 2 ≤ d.remaining) (hi : cfg.inflate (d.zin ++ [x]) = some (o1, b1)) :
    stepImage cfg d t [x] = .ok (1, .imageData, { d.imagePiece 1 [x] o1 with state := some (.imageData t) }) := by
  have h2 : min [x].length d.remaining = 1 := by simp only [List.length_cons, List.length_nil]; omega
  have h3 : (d.imagePiece 1 [x] o1).remaining ≠ 0 := by simp only [Dec.imagePiece]; omega
  simp only [stepImage, h2, List.take_succ_cons, List.take_zero, hi, h3, if_false]

/-- a stream that is corrupt after `x` is corrupt after more bytes too: both calls fail alike -/
theorem stepImage_corrupt (cfg : Cfg) (hI : cfg.InflateOk) (d : Dec) (t : ChunkType) (x y : UInt8) (ys : Bytes)
    (h : 2 ≤ d.remaining) (hi : cfg.inflate (d.zin ++ [x]) = none) :
    stepImage cfg d t (x :: y :: ys) = stepImage cfg d t [x] := by
  have h2 : min [x].length d.remaining = 1 := by simp only [List.length_cons, List.length_nil]; omega
  have hn : min (x :: y :: ys).length d.remaining = min (y :: ys).length (d.remaining - 1) + 1 := by
    simp only [List.length_cons]; omega
  simp only [stepImage, h2, hn, List.take_succ_cons, List.take_zero, hi]
  cases hw : cfg.inflate (d.zin ++ x :: List.take (min (y :: ys).length (d.remaining - 1)) (y :: ys)) with
  | none => rfl
  | some r =>
    obtain ⟨o2, b2⟩ := r
    have : d.zin ++ x :: List.take (min (y :: ys).length (d.remaining - 1)) (y :: ys) =
        (d.zin ++ [x]) ++ List.take (min (y :: ys).length (d.remaining - 1)) (y :: ys) := by simp
    rw [this] at hw
    obtain ⟨o1, b1, h1, _⟩ := hI.mono _ _ _ _ hw
    rw [hi] at h1; cases h1

theorem stepImage_merge (cfg : Cfg) (hI : cfg.InflateOk) (d : Dec) (t : ChunkType) (x y : UInt8) (ys : Bytes)
    (o1 : Bytes) (b1 : Bool) (h : 2 ≤ d.remaining) (hi : cfg.inflate (d.zin ++ [x]) = some (o1, b1)) :
    stepImage cfg d t (x :: y :: ys) = shift1 (stepImage cfg (d.imagePiece 1 [x] o1) t (y :: ys)) := by
  have hn : min (x :: y :: ys).length d.remaining = min (y :: ys).length (d.imagePiece 1 [x] o1).remaining + 1 := by
    simp only [Dec.imagePiece, List.length_cons]; omega
  have hz : ∀ p : Bytes, d.zin ++ x :: p = (d.imagePiece 1 [x] o1).zin ++ p := by
    intro p; simp [Dec.imagePiece]
  simp only [stepImage, hn, List.take_succ_cons, hz]
  cases hw : cfg.inflate ((d.imagePiece 1 [x] o1).zin ++
      List.take (min (y :: ys).length (d.imagePiece 1 [x] o1).remaining) (y :: ys)) with
  | none => rfl
  | some r =>
    obtain ⟨o2, b2⟩ := r
    have hw' := hw
    simp only [Dec.imagePiece] at hw'
    obtain ⟨o1', b1', h1, hp⟩ := hI.mono _ _ _ _ hw'
    rw [hi] at h1; cases h1
    simp only [shift1, Except.map]
    rw [imagePiece_imagePiece _ _ _ _ _ _ hp]

theorem stepRead_ne_error (d : Dec) (t : ChunkType) (buf : Bytes) (e : Err) : stepRead d t buf ≠ .error e := by
  simp only [stepRead]; repeat' split
  all_goals simp

/-- **One call versus two**: a `next_state` call on `x :: y :: ys` either does not look beyond `x`
    (and then consumes at most that byte, or fails as the call on `[x]` does), or it is the merge of
    the call on `[x]` (which consumes `x` and reports `Nothing` or `ImageData`) with the following
    call on `y :: ys`; if that one fails, the two poisoned decoders differ at most in the progress
    inside the failing data chunk. -/
theorem step_split (cfg : Cfg) (hI : cfg.InflateOk) (d : Dec) (st : St) (x y : UInt8) (ys : Bytes) :
    nextState cfg d st (x :: y :: ys) = nextState cfg d st [x] ∨
    ∃ ev1 d1 st1, nextState cfg d st [x] = .ok (1, ev1, d1) ∧ d1.state = some st1 ∧
      (ev1 = .nothing ∨ ev1 = .imageData) ∧
      (∀ e, nextState cfg d1 st1 (y :: ys) = .error e →
        (d1.withState none).afterError = (d.withState none).afterError) ∧
      nextState cfg d st (x :: y :: ys) = shift1 (nextState cfg d1 st1 (y :: ys)) := by
  cases st with
  | u32 kind acc =>
    by_cases hacc : acc.length < 3
    · refine Or.inr ⟨.nothing, { d with state := some (.u32 kind (acc ++ [x])) }, .u32 kind (acc ++ [x]), ?_, rfl, Or.inl rfl, fun _ _ => rfl, ?_⟩
      · exact stepU32_first cfg _ kind acc x hacc
      · exact stepU32_merge cfg _ kind acc x y ys hacc
    · exact Or.inl (stepU32_indep cfg _ kind acc x y ys (by omega))
  | parseChunkData t => exact Or.inl rfl
  | readChunkData t =>
    by_cases h : 2 ≤ min d.remaining (d.cap - d.raw.length)
    · refine Or.inr ⟨.nothing, { d.readPiece 1 [x] with state := some (.readChunkData t) }, .readChunkData t, ?_, rfl, Or.inl rfl, ?_, ?_⟩
      · exact stepRead_first { d with state := none } t x h
      · intro e he; exact absurd he (stepRead_ne_error _ _ _ _)
      · exact stepRead_merge { d with state := none } t x y ys h
    · exact Or.inl (stepRead_indep { d with state := none } t x y ys (by simp only; omega))
  | imageData t =>
    by_cases h : 2 ≤ d.remaining
    · cases hi : cfg.inflate (d.zin ++ [x]) with
      | none => exact Or.inl (stepImage_corrupt cfg hI { d with state := none } t x y ys h hi)
      | some r =>
        obtain ⟨o1, b1⟩ := r
        refine Or.inr ⟨.imageData, { d.imagePiece 1 [x] o1 with state := some (.imageData t) }, .imageData t, ?_, rfl, Or.inr rfl, fun _ _ => rfl, ?_⟩
        · exact stepImage_first cfg { d with state := none } t x o1 b1 h hi
        · exact stepImage_merge cfg hI { d with state := none } t x y ys o1 b1 h hi
    · exact Or.inl (stepImage_indep cfg { d with state := none } t x y ys (by simp only; omega))

/-! ## Part 3c: bytewise simulation and split invariance -/

theorem runF_single_ok (cfg : Cfg) {d d' : Dec} {st : St} {x : UInt8} {ev : Ev} (hs : d.state = some st)
    (h : nextState cfg d st [x] = .ok (1, ev, d')) : runF cfg d [x] = Res.cons ev (d', [], none) := by
  rw [runF_ok cfg hs (by simp) h]; simp [runF_nil]

theorem run_cons_aux (cfg : Cfg) (hI : cfg.InflateOk) : ∀ (m : Nat) (d : Dec), rank d ≤ m → ∀ (x : UInt8) (xs : Bytes),
    (runF cfg d (x :: xs)).proj = ((runF cfg d [x]).bind (fun d1 => runF cfg d1 xs)).proj := by
  intro m
  induction m with
  | zero => ?_
  | succ m ih => ?_
  all_goals
    intro d hm x xs
    cases xs with
    | nil => simp only [runF_nil, Res.bind_pure]
    | cons y ys =>
      cases hs : d.state with
      | none => rw [runF_none cfg hs (by simp), runF_none cfg hs (by simp), Res.error_bind]
      | some st =>
        rcases step_split cfg hI d st x y ys with hA | ⟨ev1, d1, st1, h1, hs1, hev1, hpois, hB⟩
        · -- the call does not look beyond `x`
          cases hr : nextState cfg d st [x] with
          | error e =>
            rw [runF_error cfg hs (by simp) (hA.trans hr), runF_error cfg hs (by simp) hr, Res.error_bind]
          | ok r =>
            obtain ⟨n, ev, d'⟩ := r
            obtain ⟨hn, hrk, _, _⟩ := nextState_progress (by simp) hr
            rw [withState_self hs] at hrk
            rw [runF_ok cfg hs (by simp) (hA.trans hr), runF_ok cfg hs (by simp) hr, Res.cons_bind]
            apply Res.proj_cons_congr
            have hn' : n = 0 ∨ n = 1 := by simp only [List.length_cons, List.length_nil] at hn; omega
            rcases hn' with hn' | hn' <;> subst hn'
            · simp only [List.drop_zero]
              first
                | (have := hrk rfl; omega)
                | exact ih d' (by have := hrk rfl; omega) x (y :: ys)
            · simp only [List.drop_succ_cons, List.drop_zero, runF_nil, Res.pure_bind]
        · -- the call merges the call on `[x]` with the next one
          rw [runF_single_ok cfg hs h1, Res.cons_bind, Res.pure_bind]
          have hc1 : ∀ r : Res, (Res.cons ev1 r).proj = r.proj := by
            intro r; rcases hev1 with h | h <;> subst h
            · rw [Res.cons_nothing]
            · exact Res.proj_cons_imageData r
          rw [hc1]
          cases hr : nextState cfg d1 st1 (y :: ys) with
          | error e =>
            rw [hr] at hB
            rw [runF_error cfg hs (by simp) hB, runF_error cfg hs1 (by simp) hr]
            simp only [Res.proj, hpois e hr]
          | ok r =>
            obtain ⟨n, ev, d'⟩ := r
            rw [hr] at hB
            rw [runF_ok cfg hs (by simp) hB, runF_ok cfg hs1 (by simp) hr]
            rfl

/-- **Bytewise simulation (C04 core)**: feeding `x :: xs` is feeding `[x]` and then `xs`: same error,
    same events up to the per-call `ImageData` notifications, same final decoder (after an error: up
    to `Dec.afterError`). -/
theorem runF_cons (cfg : Cfg) (hI : cfg.InflateOk) (d : Dec) (x : UInt8) (xs : Bytes) :
    (runF cfg d (x :: xs)).proj = ((runF cfg d [x]).bind (fun d1 => runF cfg d1 xs)).proj :=
  run_cons_aux cfg hI (rank d) d (Nat.le_refl _) x xs

/-- **Split invariance** -/
theorem runF_append (cfg : Cfg) (hI : cfg.InflateOk) (d : Dec) (a b : Bytes) :
    (runF cfg d (a ++ b)).proj = ((runF cfg d a).bind (fun d1 => runF cfg d1 b)).proj := by
  induction a generalizing d with
  | nil => simp only [List.nil_append, runF_nil, Res.pure_bind]
  | cons x a ih =>
    rw [List.cons_append, runF_cons cfg hI,
      Res.proj_bind_congr_right _ (fun d1 => ih d1), ← Res.bind_assoc]
    exact Res.proj_bind_congr_left _ (runF_cons cfg hI d x a).symm

/-! ## Part 3d: any partition into pieces -/

/-- run piece after piece (stopping at the first error) -/
def runPieces (cfg : Cfg) (d : Dec) : List Bytes → Res
  | [] => (d, [], none)
  | p :: ps => (runF cfg d p).bind (fun d1 => runPieces cfg d1 ps)

theorem runPieces_flatten (cfg : Cfg) (hI : cfg.InflateOk) (d : Dec) (ps : List Bytes) :
    (runPieces cfg d ps).proj = (runF cfg d ps.flatten).proj := by
  induction ps generalizing d with
  | nil => simp [runPieces, runF_nil]
  | cons p ps ih =>
    simp only [runPieces, List.flatten_cons]
    rw [runF_append cfg hI, Res.proj_bind_congr_right _ (fun d1 => ih d1)]

/-- **C04, split invariance**: two partitions of the same byte string give the same error, the same
    events (up to per-call `ImageData` notifications) and the same final decoder (after an error: up
    to `Dec.afterError`). -/
theorem C04_split_invariant (cfg : Cfg) (hI : cfg.InflateOk) (d : Dec) (ps qs : List Bytes)
    (h : ps.flatten = qs.flatten) : (runPieces cfg d ps).proj = (runPieces cfg d qs).proj := by
  rw [runPieces_flatten cfg hI, runPieces_flatten cfg hI, h]

/-! ## Part 4: `updateLoop`, `update`, `feed` -/

/-- what one `update` call (started with `consumed = c`) returns, in terms of the caller-level semantics -/
def LoopSpec (cfg : Cfg) (d : Dec) (buf : Bytes) (c : Nat) : Dec × Except Err (Nat × Ev) → Prop
  | (d', .error e) => buf ≠ [] ∧ runF cfg d buf = (d', [], some e) ∧ d'.state = none
  | (d', .ok (m, ev)) => ∃ k, m = c + k ∧ k ≤ buf.length ∧
      runF cfg d buf = Res.cons ev (runF cfg d' (buf.drop k)) ∧
      (ev = .nothing → k = buf.length) ∧
      mu d' (buf.drop k) ≤ mu d buf ∧ (buf ≠ [] → mu d' (buf.drop k) < mu d buf) ∧
      (ev ≠ .imageEnd → d'.state ≠ none) ∧ (ev = .imageEnd → d'.state = none)

theorem isEmpty_false {buf : Bytes} (h : buf.isEmpty = false) : buf ≠ [] := by
  intro hc; subst hc; simp at h

theorem updateLoop_spec (cfg : Cfg) : ∀ (fuel : Nat) (d : Dec) (buf : Bytes) (c : Nat),
    mu d buf + 1 ≤ fuel → d.state ≠ none → LoopSpec cfg d buf c (updateLoop cfg fuel d buf c) := by
  intro fuel
  induction fuel with
  | zero => intro d buf c h; omega
  | succ fuel ih =>
    intro d buf c hf hst
    unfold updateLoop
    cases hb : buf.isEmpty with
    | true =>
      have : buf = [] := by simpa using hb
      subst this
      simp only [if_true]
      exact ⟨0, rfl, Nat.le_refl _, by simp [runF_nil, Res.cons_nothing], fun _ => rfl, Nat.le_refl _,
        fun h => absurd rfl h, fun _ => hst, (fun h => by cases h)⟩
    | false =>
      have hbuf := isEmpty_false hb
      simp only [Bool.false_eq_true, if_false]
      cases hs : d.state with
      | none => exact absurd hs hst
      | some st =>
        simp only
        cases hr : nextState cfg d st buf with
        | error e => exact ⟨hbuf, runF_error cfg hs hbuf hr, rfl⟩
        | ok r =>
          obtain ⟨n, ev, d'⟩ := r
          obtain ⟨hn, _, hne, hfin⟩ := nextState_progress hbuf hr
          have hmu := step_mu hs hbuf hr
          have hrun := runF_ok cfg hs hbuf hr
          by_cases hev : ev = .nothing
          · subst hev
            simp only
            have hst' : d'.state ≠ none := hne (by simp)
            have := ih d' (buf.drop n) (c + n) (by omega) hst'
            generalize updateLoop cfg fuel d' (buf.drop n) (c + n) = out at this
            obtain ⟨d'', r⟩ := out
            cases r with
            | error e =>
              obtain ⟨_, h2, h3⟩ := this
              exact ⟨hbuf, by rw [hrun, Res.cons_nothing, h2], h3⟩
            | ok r =>
              obtain ⟨m, ev2⟩ := r
              obtain ⟨k, h1, h2, h3, h4, h5, h6, h7, h8⟩ := this
              simp only [List.length_drop, List.drop_drop] at h2 h3 h4 h5 h6
              refine ⟨n + k, by omega, by omega, ?_, fun h => by have := h4 h; omega, by omega, fun _ => by omega, h7, h8⟩
              rw [hrun, Res.cons_nothing, h3]
          · cases ev <;> first | exact absurd rfl hev | skip
            all_goals
              simp only
              exact ⟨n, rfl, hn, hrun, (fun h => by cases h), Nat.le_of_lt hmu, fun _ => hmu, hne, hfin⟩

/-- **Fuel (C07)**: with fuel above `5·|buf| + rank d` the loop of `update` never runs dry: more fuel
    does not change the result -/
theorem updateLoop_fuel (cfg : Cfg) : ∀ (f1 f2 : Nat) (d : Dec) (buf : Bytes) (c : Nat),
    mu d buf + 1 ≤ f1 → mu d buf + 1 ≤ f2 → updateLoop cfg f1 d buf c = updateLoop cfg f2 d buf c := by
  intro f1
  induction f1 with
  | zero => intro f2 d buf c h; omega
  | succ f1 ih =>
    intro f2 d buf c h1 h2
    cases f2 with
    | zero => omega
    | succ f2 =>
      unfold updateLoop
      cases hb : buf.isEmpty with
      | true => rfl
      | false =>
        have hbuf := isEmpty_false hb
        simp only [Bool.false_eq_true, if_false]
        cases hs : d.state with
        | none => rfl
        | some st =>
          simp only
          cases hr : nextState cfg d st buf with
          | error e => rfl
          | ok r =>
            obtain ⟨n, ev, d'⟩ := r
            have hmu := step_mu hs hbuf hr
            cases ev <;> first | rfl | skip
            simp only
            exact ih f2 d' (buf.drop n) (c + n) (by omega) (by omega)

theorem updateFuel_ge (d : Dec) (buf : Bytes) : mu d buf + 1 ≤ updateFuel buf := by
  have := rank_le d
  simp only [mu, updateFuel]; omega

/-- the fuel constant in the model's `update` suffices -/
theorem update_fuel_suffices (cfg : Cfg) (d : Dec) (buf : Bytes) (f : Nat) (hf : updateFuel buf ≤ f) :
    updateLoop cfg f d buf 0 = updateLoop cfg (updateFuel buf) d buf 0 :=
  updateLoop_fuel cfg _ _ d buf 0 (Nat.le_trans (updateFuel_ge d buf) hf) (updateFuel_ge d buf)

theorem update_spec (cfg : Cfg) (d : Dec) (buf : Bytes) (hst : d.state ≠ none) :
    LoopSpec cfg d buf 0 (update cfg d buf) := by
  unfold update
  cases hs : d.state with
  | none => exact absurd hs hst
  | some st => exact updateLoop_spec cfg _ d buf 0 (updateFuel_ge d buf) hst

/-- a poisoned (or finished) decoder refuses every call and is left unchanged -/
theorem poisoned_refuses (cfg : Cfg) (d : Dec) (buf : Bytes) (h : d.state = none) :
    (update cfg d buf).2 = .error .parameter ∧ (update cfg d buf).1 = d := by
  simp [update, h]

/-- an error poisons the decoder -/
theorem error_poisons (cfg : Cfg) (d d' : Dec) (buf : Bytes) (e : Err) (h : update cfg d buf = (d', .error e)) :
    d'.state = none := by
  cases hs : d.state with
  | none =>
    have := (poisoned_refuses cfg d buf hs).2
    rw [h] at this; simp only at this; rw [this]; exact hs
  | some st =>
    have := update_spec cfg d buf (by simp [hs])
    rw [h] at this
    exact this.2.2

/-- `ImageEnd` finishes the decoder; every other successful call leaves it usable -/
theorem imageEnd_poisons (cfg : Cfg) (d d' : Dec) (buf : Bytes) (n : Nat) (ev : Ev)
    (h : update cfg d buf = (d', .ok (n, ev))) : (ev = .imageEnd ↔ d'.state = none) := by
  cases hs : d.state with
  | none =>
    have := (poisoned_refuses cfg d buf hs).1
    rw [h] at this; cases this
  | some st =>
    have := update_spec cfg d buf (by simp [hs])
    rw [h] at this
    obtain ⟨k, _, _, _, _, _, _, h7, h8⟩ := this
    exact ⟨h8, fun hn => Classical.byContradiction fun hne => h7 hne hn⟩

/-- **No spinning (C07)**: a successful `update` call on a non-empty buffer consumes at most the
    buffer; it reports `Nothing` only when it consumed the whole buffer; in every case the potential
    `5·|remaining input| + rank` strictly decreases — in particular a call that consumes nothing
    strictly decreases the rank, so `(0, Nothing)` with an unchanged decoder is impossible. -/
theorem update_no_spin (cfg : Cfg) (d d' : Dec) (buf : Bytes) (n : Nat) (ev : Ev) (hbuf : buf ≠ [])
    (h : update cfg d buf = (d', .ok (n, ev))) :
    n ≤ buf.length ∧ (ev = .nothing → n = buf.length) ∧ mu d' (buf.drop n) < mu d buf ∧
    (n = 0 → ev ≠ .nothing ∧ rank d' < rank d) := by
  cases hs : d.state with
  | none =>
    have := (poisoned_refuses cfg d buf hs).1
    rw [h] at this; cases this
  | some st =>
    have := update_spec cfg d buf (by simp [hs])
    rw [h] at this
    obtain ⟨k, h1, h2, _, h4, _, h6, _, _⟩ := this
    have hk : n = k := by omega
    subst hk
    have hlen : 0 < buf.length := by cases buf with | nil => exact absurd rfl hbuf | cons _ _ => simp
    refine ⟨h2, h4, h6 hbuf, fun h0 => ?_⟩
    subst h0
    have := h6 hbuf
    simp only [mu, List.drop_zero] at this
    exact ⟨fun he => by have := h4 he; omega, by omega⟩

/-- **`feed` is `run`**: the model's caller loop (which goes through `update` and gets control back
    at every event) computes exactly the caller-level semantics -/
theorem feed_eq_run (cfg : Cfg) : ∀ (fuel : Nat) (d : Dec) (buf : Bytes) (evs : List Ev),
    mu d buf + 1 ≤ fuel →
    feed cfg fuel d buf evs = ((runF cfg d buf).1, evs.reverse ++ (runF cfg d buf).2.1, (runF cfg d buf).2.2) := by
  intro fuel
  induction fuel with
  | zero => intro d buf evs h; omega
  | succ fuel ih =>
    intro d buf evs hf
    unfold feed
    cases hb : buf.isEmpty with
    | true =>
      have : buf = [] := by simpa using hb
      subst this
      simp [runF_nil]
    | false =>
      have hbuf := isEmpty_false hb
      simp only [Bool.false_eq_true, if_false]
      cases hs : d.state with
      | none =>
        have h1 := poisoned_refuses cfg d buf hs
        generalize update cfg d buf = out at h1
        obtain ⟨d', r⟩ := out
        simp only at h1
        obtain ⟨h1, h2⟩ := h1
        subst h1; subst h2
        simp [runF_none cfg hs hbuf]
      | some st =>
        have h1 := update_spec cfg d buf (by simp [hs])
        generalize update cfg d buf = out at h1
        obtain ⟨d', r⟩ := out
        cases r with
        | error e =>
          obtain ⟨_, h2, _⟩ := h1
          simp [h2]
        | ok r =>
          obtain ⟨m, ev⟩ := r
          obtain ⟨k, hk, _, h3, _, _, h6, _, _⟩ := h1
          have hk : m = k := by omega
          subst hk
          simp only
          rw [ih d' (buf.drop m) _ (by have := h6 hbuf; omega), h3]
          by_cases hev : ev = .nothing
          · simp [hev, Res.cons]
          · simp [hev, Res.cons]

/-! ### number of `next_state` calls of one `update` call -/

/-- `updateLoop`, instrumented with the number of `nextState` calls it makes -/
def updateLoopN (cfg : Cfg) : Nat → Dec → Bytes → Nat → (Dec × Except Err (Nat × Ev)) × Nat
  | 0, d, _, consumed => ((d, .ok (consumed, .nothing)), 0)
  | fuel+1, d, buf, consumed =>
    if buf.isEmpty then ((d, .ok (consumed, .nothing)), 0) else
    match d.state with
    | none => ((d, .error (.panic "state.take().unwrap() (stream.rs:685)")), 0)
    | some st =>
      match nextState cfg d st buf with
      | .error e => (({ d with state := none }, .error e), 1)
      | .ok (n, .nothing, d') =>
        let r := updateLoopN cfg fuel d' (buf.drop n) (consumed + n)
        (r.1, r.2 + 1)
      | .ok (n, ev, d') => ((d', .ok (consumed + n, ev)), 1)

theorem updateLoopN_fst (cfg : Cfg) : ∀ (fuel : Nat) (d : Dec) (buf : Bytes) (c : Nat),
    (updateLoopN cfg fuel d buf c).1 = updateLoop cfg fuel d buf c := by
  intro fuel
  induction fuel with
  | zero => intro d buf c; rfl
  | succ fuel ih =>
    intro d buf c
    unfold updateLoopN updateLoop
    cases hb : buf.isEmpty with
    | true => rfl
    | false =>
      simp only [Bool.false_eq_true, if_false]
      cases hs : d.state with
      | none => rfl
      | some st =>
        simp only
        cases hr : nextState cfg d st buf with
        | error e => rfl
        | ok r =>
          obtain ⟨n, ev, d'⟩ := r
          cases ev <;> first | rfl | skip
          simp only
          exact ih d' (buf.drop n) (c + n)

/-- **Linear work (C07)**: one `update` call makes at most `5·|buf| + rank d ≤ 5·|buf| + 4` calls of
    `next_state`, whatever the fuel -/
theorem updateLoopN_le (cfg : Cfg) : ∀ (fuel : Nat) (d : Dec) (buf : Bytes) (c : Nat),
    (updateLoopN cfg fuel d buf c).2 ≤ mu d buf := by
  intro fuel
  induction fuel with
  | zero => intro d buf c; simp [updateLoopN]
  | succ fuel ih =>
    intro d buf c
    unfold updateLoopN
    cases hb : buf.isEmpty with
    | true => simp
    | false =>
      have hbuf := isEmpty_false hb
      have hlen : 0 < buf.length := by cases buf with | nil => exact absurd rfl hbuf | cons _ _ => simp
      simp only [Bool.false_eq_true, if_false]
      cases hs : d.state with
      | none => simp
      | some st =>
        simp only
        cases hr : nextState cfg d st buf with
        | error e => simp only [mu]; omega
        | ok r =>
          obtain ⟨n, ev, d'⟩ := r
          have hmu := step_mu hs hbuf hr
          cases ev <;> first | (simp only [mu]; omega) | skip
          simp only
          have := ih d' (buf.drop n) (c + n)
          omega

/-! ## Part 5: the same statements with explicit fuel, and for the model's `feed` -/

theorem mu_le (d : Dec) (buf : Bytes) : mu d buf + 1 ≤ 5 * buf.length + 5 := by
  have := rank_le d
  simp only [mu]; omega

/-- `run` with any fuel `≥ 5·|buf| + 5` is `runF` -/
theorem run_eq_runF' (cfg : Cfg) {f : Nat} (d : Dec) {buf : Bytes} (h : 5 * buf.length + 5 ≤ f) :
    run cfg f d buf = runF cfg d buf := run_eq_runF cfg (Nat.le_trans (mu_le d buf) h)

/-- **Bytewise simulation**, explicit fuels -/
theorem run_cons (cfg : Cfg) (hI : cfg.InflateOk) (d : Dec) (x : UInt8) (xs : Bytes) (f f1 f2 : Nat)
    (hf : 5 * (x :: xs).length + 5 ≤ f) (h1 : 10 ≤ f1) (h2 : 5 * xs.length + 5 ≤ f2) :
    (run cfg f d (x :: xs)).proj = ((run cfg f1 d [x]).bind (fun d1 => run cfg f2 d1 xs)).proj := by
  rw [run_eq_runF' cfg d hf, run_eq_runF' cfg d (buf := [x]) (by simpa using h1)]
  have : (fun d1 => run cfg f2 d1 xs) = (fun d1 => runF cfg d1 xs) := by
    funext d1; exact run_eq_runF' cfg d1 h2
  rw [this]
  exact runF_cons cfg hI d x xs

/-- **Split invariance**, explicit fuels -/
theorem run_append (cfg : Cfg) (hI : cfg.InflateOk) (d : Dec) (a b : Bytes) (f f1 f2 : Nat)
    (hf : 5 * (a ++ b).length + 5 ≤ f) (h1 : 5 * a.length + 5 ≤ f1) (h2 : 5 * b.length + 5 ≤ f2) :
    (run cfg f d (a ++ b)).proj = ((run cfg f1 d a).bind (fun d1 => run cfg f2 d1 b)).proj := by
  rw [run_eq_runF' cfg d hf, run_eq_runF' cfg d h1]
  have : (fun d1 => run cfg f2 d1 b) = (fun d1 => runF cfg d1 b) := by
    funext d1; exact run_eq_runF' cfg d1 h2
  rw [this]
  exact runF_append cfg hI d a b

/-- what a caller of the model does with a list of pieces: `feed` every piece (fuel `5·|p| + 5`)
    until an error occurs; events are concatenated -/
def feedPieces (cfg : Cfg) (d : Dec) : List Bytes → Res
  | [] => (d, [], none)
  | p :: ps => Res.bind (feed cfg (5 * p.length + 5) d p []) (fun d1 => feedPieces cfg d1 ps)

theorem feed_eq_runF (cfg : Cfg) (d : Dec) (buf : Bytes) (f : Nat) (hf : 5 * buf.length + 5 ≤ f) :
    feed cfg f d buf [] = runF cfg d buf := by
  rw [feed_eq_run cfg f d buf [] (Nat.le_trans (mu_le d buf) hf)]
  simp

theorem feedPieces_eq_runPieces (cfg : Cfg) (d : Dec) (ps : List Bytes) :
    feedPieces cfg d ps = runPieces cfg d ps := by
  induction ps generalizing d with
  | nil => rfl
  | cons p ps ih =>
    simp only [feedPieces, runPieces]
    rw [feed_eq_runF cfg d p _ (Nat.le_refl _)]
    congr 1
    funext d1; exact ih d1

theorem feedPieces_split_invariant (cfg : Cfg) (hI : cfg.InflateOk) (d : Dec) (ps qs : List Bytes)
    (h : ps.flatten = qs.flatten) : (feedPieces cfg d ps).proj = (feedPieces cfg d qs).proj := by
  rw [feedPieces_eq_runPieces, feedPieces_eq_runPieces]
  exact C04_split_invariant cfg hI d ps qs h

end Png.Framing
