import PngVerif.Proofs.RoundTripEnc
import PngVerif.Proofs.Basic
/-!
# C03 end to end for animations, encoder side: what the sink holds after an animated run of the `Writer`

An animation is written as `write_header`, then for every image any number of frame-setter calls
(`set_frame_delay`, `set_frame_dimension`, `set_frame_position`, `reset_frame_dimension`, `reset_frame_position`,
`set_blend_op`, `set_dispose_op` — failing ones included: they leave the frame control as it is) followed by
`write_image_data`, then `finish` (`Frame`, `animOps`).

* `applySetter` / `fcOf`: the frame control in effect after setter calls; `FcIn` (not empty, inside the canvas) and
  `FcFine` (`u16` delays, legal dispose / blend) are kept (`applySetter_in`, `applySetter_fine`); `setter_step`: what
  `writerStep` does for a setter — never a panic.
* `later_run`: the frames after the first image, by induction: `fcTL` with the next sequence number, the zlib stream in
  `fdAT` chunks of at most `2^31 − 5` payload bytes with the following numbers (`laterChunks`); after the declared number of
  frames the frame control is gone.
* `anim_run` (first frame = `fcTL` number 0 + `IDAT`) and `anim_default_run` (`sepDefImg`: the first image is a plain `IDAT`
  image, numbering starts with the next one): every image call returns `Ok`, no call panics, `finish` returns `Ok`, and the
  sink's log is the signature, `headerChunks c`, the chunks of the frames, `IEND`, all complete.
-/
namespace Png.Enc
open Png Png.Val

/-! ## frame setters -/

def Op.isSetter : Op → Bool
  | .setDelay _ _ => true
  | .setDim _ _ => true
  | .setPos _ _ => true
  | .resetDim => true
  | .resetPos => true
  | .setBlend _ => true
  | .setDispose _ => true
  | _ => false

/-- what a setter call leaves in the frame control on a canvas of `W × H` pixels (a refused call leaves it as it is) -/
def applySetter (W H : Nat) (f : FC) : Op → FC
  | .setDelay n d => { f with delayNum := n, delayDen := d }
  | .setDim w h =>
    if gtCheckedSub w W f.x || gtCheckedSub h H f.y then f else if w = 0 then f else if h = 0 then f
    else { f with w := w, h := h }
  | .setPos x y => if gtCheckedSub x W f.w || gtCheckedSub y H f.h then f else { f with x := x, y := y }
  | .resetDim => { f with w := W - f.x, h := H - f.y }
  | .resetPos => { f with x := 0, y := 0 }
  | .setBlend b => { f with blend := b }
  | .setDispose d => { f with dispose := d }
  | _ => f

/-- the frame control after the setter calls `pre` -/
def fcOf (W H : Nat) (f : FC) (pre : List Op) : FC := pre.foldl (applySetter W H) f

/-- not empty, inside the canvas -/
def FcIn (W H : Nat) (f : FC) : Prop := 0 < f.w ∧ 0 < f.h ∧ f.x + f.w ≤ W ∧ f.y + f.h ≤ H

/-- the fields a frame control carries besides its rectangle are in the ranges of their Rust types -/
def FcFine (f : FC) : Prop := f.delayNum < 2 ^ 16 ∧ f.delayDen < 2 ^ 16 ∧ f.dispose ≤ 2 ∧ f.blend ≤ 1

instance (W H : Nat) (f : FC) : Decidable (FcIn W H f) := by unfold FcIn; infer_instance
instance (f : FC) : Decidable (FcFine f) := by unfold FcFine; infer_instance

theorem applySetter_seq (W H : Nat) (f : FC) (o : Op) : (applySetter W H f o).seq = f.seq := by
  cases o <;> simp only [applySetter] <;> (repeat' split) <;> rfl

theorem applySetter_in {W H : Nat} {f : FC} (h : FcIn W H f) (o : Op) : FcIn W H (applySetter W H f o) := by
  obtain ⟨h1, h2, h3, h4⟩ := h
  cases o with
  | setDim w hh =>
    simp only [applySetter]
    cases hg : (gtCheckedSub w W f.x || gtCheckedSub hh H f.y) with
    | true => simp only [if_true]; exact ⟨h1, h2, h3, h4⟩
    | false =>
      simp only [Bool.false_eq_true, if_false]
      simp only [Bool.or_eq_false_iff] at hg
      obtain ⟨a1, a2⟩ := gtCheckedSub_false hg.1
      obtain ⟨b1, b2⟩ := gtCheckedSub_false hg.2
      by_cases hw : w = 0
      · rw [if_pos hw]; exact ⟨h1, h2, h3, h4⟩
      · rw [if_neg hw]
        by_cases hh0 : hh = 0
        · rw [if_pos hh0]; exact ⟨h1, h2, h3, h4⟩
        · rw [if_neg hh0]; exact ⟨by show 0 < w; omega, by show 0 < hh; omega, by show f.x + w ≤ W; omega, by show f.y + hh ≤ H; omega⟩
  | setPos x y =>
    simp only [applySetter]
    cases hg : (gtCheckedSub x W f.w || gtCheckedSub y H f.h) with
    | true => simp only [if_true]; exact ⟨h1, h2, h3, h4⟩
    | false =>
      simp only [Bool.false_eq_true, if_false]
      simp only [Bool.or_eq_false_iff] at hg
      obtain ⟨a1, a2⟩ := gtCheckedSub_false hg.1
      obtain ⟨b1, b2⟩ := gtCheckedSub_false hg.2
      exact ⟨h1, h2, by show x + f.w ≤ W; omega, by show y + f.h ≤ H; omega⟩
  | resetDim =>
    exact ⟨by show 0 < W - f.x; omega, by show 0 < H - f.y; omega, by show f.x + (W - f.x) ≤ W; omega,
      by show f.y + (H - f.y) ≤ H; omega⟩
  | resetPos => exact ⟨h1, h2, by show 0 + f.w ≤ W; omega, by show 0 + f.h ≤ H; omega⟩
  | setDelay n d => exact ⟨h1, h2, h3, h4⟩
  | setBlend b => exact ⟨h1, h2, h3, h4⟩
  | setDispose d => exact ⟨h1, h2, h3, h4⟩
  | image d => exact ⟨h1, h2, h3, h4⟩
  | chunk ty d => exact ⟨h1, h2, h3, h4⟩
  | text b => exact ⟨h1, h2, h3, h4⟩

theorem applySetter_fine {W H : Nat} {f : FC} (h : FcFine f) (o : Op) (ho : o.inRange) : FcFine (applySetter W H f o) := by
  obtain ⟨h1, h2, h3, h4⟩ := h
  cases o with
  | setDim w hh => simp only [applySetter]; (repeat' split) <;> exact ⟨h1, h2, h3, h4⟩
  | setPos x y => simp only [applySetter]; split <;> exact ⟨h1, h2, h3, h4⟩
  | setDelay n d => simp only [Op.inRange] at ho; exact ⟨ho.1, ho.2, h3, h4⟩
  | setBlend b => simp only [Op.inRange] at ho; exact ⟨h1, h2, h3, ho⟩
  | setDispose d => simp only [Op.inRange] at ho; exact ⟨h1, h2, ho, h4⟩
  | resetDim => exact ⟨h1, h2, h3, h4⟩
  | resetPos => exact ⟨h1, h2, h3, h4⟩
  | image d => exact ⟨h1, h2, h3, h4⟩
  | chunk ty d => exact ⟨h1, h2, h3, h4⟩
  | text b => exact ⟨h1, h2, h3, h4⟩

theorem fcOf_facts {W H : Nat} : ∀ (pre : List Op) (f : FC), FcIn W H f → FcFine f → (∀ o ∈ pre, o.inRange) →
    FcIn W H (fcOf W H f pre) ∧ FcFine (fcOf W H f pre) ∧ (fcOf W H f pre).seq = f.seq := by
  intro pre
  induction pre with
  | nil => intro f h1 h2 _; exact ⟨h1, h2, rfl⟩
  | cons o os ih =>
    intro f h1 h2 hr
    obtain ⟨a, b, c⟩ := ih (applySetter W H f o) (applySetter_in h1 o) (applySetter_fine h2 o (hr o (by simp)))
      (fun x hx => hr x (by simp [hx]))
    exact ⟨a, b, c.trans (applySetter_seq W H f o)⟩

theorem not_image_of_setter {o : Op} (h : o.isSetter = true) : o.isImage = false := by
  cases o <;> simp [Op.isSetter, Op.isImage] at h ⊢

/-- **a setter call**: only the frame control changes, as `applySetter` says; the call does not panic -/
theorem setter_step (E : Codec) (s : WState) (f : FC) (hf : s.fctl = some f) (hin : FcIn s.width s.height f) (o : Op)
    (ho : o.isSetter = true) :
    ∃ r, writerStep E s o = ({ s with fctl := some (applySetter s.width s.height f o) }, r) ∧ r.isPanic = false := by
  have hs : s = { s with fctl := some f } := by cases s; simp only at hf; subst hf; rfl
  obtain ⟨h1, h2, h3, h4⟩ := hin
  cases o with
  | setDelay n d => exact ⟨.ok, by simp only [writerStep, setFrameDelay, withFctl, hf, applySetter], rfl⟩
  | setBlend b => exact ⟨.ok, by simp only [writerStep, setBlendOp, withFctl, hf, applySetter], rfl⟩
  | setDispose d => exact ⟨.ok, by simp only [writerStep, setDisposeOp, withFctl, hf, applySetter], rfl⟩
  | resetPos => exact ⟨.ok, by simp only [writerStep, resetFramePosition, withFctl, hf, applySetter], rfl⟩
  | resetDim =>
    refine ⟨.ok, ?_, rfl⟩
    have : ¬ (s.width < f.x ∨ s.height < f.y) := by omega
    simp only [writerStep, resetFrameDimension, withFctl, hf, applySetter, this, if_false]
  | setDim w hh =>
    simp only [writerStep, setFrameDimension, withFctl, hf, applySetter]
    cases hg : (gtCheckedSub w s.width f.x || gtCheckedSub hh s.height f.y) with
    | true => simp only [if_true]; exact ⟨_, by rw [← hs], rfl⟩
    | false =>
      simp only [Bool.false_eq_true, if_false]
      by_cases hw : w = 0
      · simp only [hw, if_true]; exact ⟨_, by rw [← hs], rfl⟩
      · simp only [hw, if_false]
        by_cases hh0 : hh = 0
        · simp only [hh0, if_true]; exact ⟨_, by rw [← hs], rfl⟩
        · simp only [hh0, if_false]; exact ⟨_, rfl, rfl⟩
  | setPos x y =>
    simp only [writerStep, setFramePosition, withFctl, hf, applySetter]
    cases hg : (gtCheckedSub x s.width f.w || gtCheckedSub y s.height f.h) with
    | true => simp only [if_true]; exact ⟨_, by rw [← hs], rfl⟩
    | false => simp only [Bool.false_eq_true, if_false]; exact ⟨_, rfl, rfl⟩
  | image d => cases ho
  | chunk ty d => cases ho
  | text b => cases ho

/-! ## the operations of an animated run and what is expected of their results -/

/-- one image of the run: the setter calls before it and its data -/
structure Frame where
  pre : List Op
  data : Bytes
deriving DecidableEq, Repr

def Frame.ops (fr : Frame) : List Op := fr.pre ++ [.image fr.data]

/-- the calls between `write_header` and `finish` -/
def animOps (frs : List Frame) : List Op := frs.flatMap Frame.ops

/-- no call panicked and every `write_image_data` returned `Ok` -/
inductive ResultsOk : List Op → List Res → Prop
  | nil : ResultsOk [] []
  | cons {o : Op} {r : Res} {os : List Op} {rs : List Res} (h1 : r.isPanic = false) (h2 : o.isImage = true → r = .ok)
      (h : ResultsOk os rs) : ResultsOk (o :: os) (r :: rs)

theorem ResultsOk.anyPanic {os : List Op} {rs : List Res} (h : ResultsOk os rs) : anyPanic rs = false := by
  induction h with
  | nil => rfl
  | cons h1 _ _ ih => simp only [Enc.anyPanic, List.any_cons, h1, Bool.false_or]; exact ih

theorem ResultsOk.append {a b : List Op} {ra rb : List Res} (h1 : ResultsOk a ra) (h2 : ResultsOk b rb) :
    ResultsOk (a ++ b) (ra ++ rb) := by
  induction h1 with
  | nil => exact h2
  | cons x y _ ih => exact .cons x y ih

theorem ResultsOk.length {os : List Op} {rs : List Res} (h : ResultsOk os rs) : rs.length = os.length := by
  induction h with
  | nil => rfl
  | cons _ _ _ ih => simp [ih]

/-- the setter calls in front of an image: the frame control becomes `fcOf …`, nothing else changes -/
theorem setters_run (E : Codec) : ∀ (pre : List Op) (s : WState) (f : FC) (more : List Op), s.fctl = some f →
    FcIn s.width s.height f → (∀ o ∈ pre, o.isSetter = true) →
    ∃ rs, runOps E s (pre ++ more) =
        ((runOps E { s with fctl := some (fcOf s.width s.height f pre) } more).1,
          rs ++ (runOps E { s with fctl := some (fcOf s.width s.height f pre) } more).2) ∧ ResultsOk pre rs := by
  intro pre
  induction pre with
  | nil =>
    intro s f more hf _ _
    have hs : s = { s with fctl := some f } := by cases s; simp only at hf; subst hf; rfl
    exact ⟨[], by simp only [List.nil_append, fcOf, List.foldl_nil]; rw [← hs], .nil⟩
  | cons o os ih =>
    intro s f more hf hin hset
    obtain ⟨r, hstep, hr⟩ := setter_step E s f hf hin o (hset o (by simp))
    obtain ⟨rs, h1, h2⟩ := ih { s with fctl := some (applySetter s.width s.height f o) } (applySetter s.width s.height f o)
      more rfl (applySetter_in hin o) (fun x hx => hset x (by simp [hx]))
    refine ⟨r :: rs, ?_, .cons hr (fun hi => by rw [not_image_of_setter (hset o (by simp))] at hi; cases hi) h2⟩
    simp only [List.cons_append, runOps, hstep]
    cases r with
    | panic p => cases hr
    | ok => simp only; rw [h1]; rfl
    | err e => simp only; rw [h1]; rfl

/-! ## one image of an animation -/

/-- the configuration with the size of the frame `f`: a frame is encoded as a still image of its own size -/
def Cfg.sub (c : Cfg) (f : FC) : Cfg := { c with width := f.w, height := f.h }

theorem rowLen_sub_le {c : Cfg} (hd : depthOk c.depth = true) {f : FC} (hw : f.w ≤ c.width) : (c.sub f).rowLen ≤ c.rowLen := by
  simp only [Cfg.rowLen, Cfg.sub, rowlen_spec _ _ _ hd]
  have : f.w * samplesOf c.color * c.depth ≤ c.width * samplesOf c.color * c.depth :=
    Nat.mul_le_mul_right _ (Nat.mul_le_mul_right _ hw)
  have := Nat.div_le_div_right (c := 8) (Nat.add_le_add_right this 7)
  omega

/-- a frame inside the canvas is not larger than the canvas -/
theorem sub_size_le {c : Cfg} (hd : depthOk c.depth = true) {f : FC} (hin : FcIn c.width c.height f) :
    (c.sub f).rowLen * f.h ≤ c.rowLen * c.height := by
  obtain ⟨_, _, h3, h4⟩ := hin
  exact Nat.mul_le_mul (rowLen_sub_le hd (by omega)) (by omega)

/-- the checks of `write_image_data` pass for the frame `f` in effect (the first image has to cover the canvas) -/
theorem imageChecks_anim (c : Cfg) (hcolor : colorOk c.color = true) (hdepth : depthOk c.depth = true)
    (hpal : c.color = 3 → c.palette.isSome = true) (n plays : Nat) (s : WState)
    (hst : StaticEq (initState c {}) s) (ha : c.actl = some (n, plays)) (f : FC) (hf : s.fctl = some f)
    (hin : FcIn c.width c.height f)
    (hfirst : s.imagesWritten = 0 → f.x = 0 ∧ f.y = 0 ∧ f.w = c.width ∧ f.h = c.height) (data : Bytes)
    (hlen : data.length = (c.sub f).rowLen * f.h) (hsz : c.rowLen * c.height < 2 ^ 64) :
    imageChecks s data = .ok ((c.sub f).rowLen, f.h) := by
  obtain ⟨e1, e2, e3, e4, e5, e6, _, _⟩ := hst
  simp only [initState] at e1 e2 e3 e4 e5 e6
  have hpal' : ¬ (s.color = 3 ∧ s.hasPalette = false) := by
    intro ⟨h1, h2⟩
    have := hpal (by rw [← e3]; exact h1)
    rw [← e6, h2] at this; cases this
  have hv : validateNewImage s = none := by
    unfold validateNewImage
    cases s.validate <;> simp [e5, ha, hf]
  have hr : validateFirstImageRect s = none := by
    simp only [validateFirstImageRect, hf]
    by_cases h0 : s.imagesWritten = 0
    · obtain ⟨a, b, c', d⟩ := hfirst h0
      simp [h0, a, b, c', d, e1, e2]
    · simp [h0]
  have hd : nextDims s = (f.w, f.h) := by simp [nextDims, hf]
  have hil : inLenOf s f.w = (c.sub f).rowLen := by simp [inLenOf, Cfg.rowLen, Cfg.sub, e3, e4]
  have hle := sub_size_le hdepth hin
  have hpos : 0 < (c.sub f).rowLen := inLen_pos hcolor hdepth hin.1
  have hlt : (c.sub f).rowLen * f.h < 2 ^ 64 := by omega
  unfold imageChecks
  rw [if_neg hpal', hv, hr]
  simp only [hd, hil]
  rw [if_pos hlt, if_neg (by rw [hlen]; exact fun h => h rfl), if_neg (by omega)]

/-- `fdAT` chunks numbered consecutively from `q` -/
def fdatList : Nat → List Bytes → List RChunk
  | _, [] => []
  | q, p :: ps => mkFdat q p :: fdatList (q + 1) ps

theorem fdatChunks_eq : ∀ (parts : List Bytes) (q : Nat), q + parts.length ≤ 2 ^ 32 →
    (fdatChunks q parts).1 = fdatList q parts := by
  intro parts
  induction parts with
  | nil => intro q _; rfl
  | cons p ps ih =>
    intro q h
    simp only [fdatChunks, fdatList]
    cases ps with
    | nil => rfl
    | cons p2 ps2 =>
      simp only [List.length_cons] at h
      rw [Nat.mod_eq_of_lt (by omega)]
      rw [ih (q + 1) (by simp only [List.length_cons]; omega)]

theorem fdatList_length (parts : List Bytes) : ∀ q, (fdatList q parts).length = parts.length := by
  induction parts with
  | nil => intro q; rfl
  | cons p ps ih => intro q; simp [fdatList, ih]

/-- the state of the `Writer` between two images of an animation, as far as the next image depends on it -/
structure AnimSt (c : Cfg) (s : WState) : Prop where
  static : StaticEq (initState c {}) s
  good : s.sink.good
  iend : s.iendWritten = false

theorem incr_fields (s : WState) :
    (incrementImagesWritten s).sink = s.sink ∧ (incrementImagesWritten s).iendWritten = s.iendWritten ∧
    (incrementImagesWritten s).animWritten = s.animWritten ∧
    (incrementImagesWritten s).imagesWritten = min (s.imagesWritten + 1) (2 ^ 64 - 1) ∧
    StaticEq s (incrementImagesWritten s) := by
  refine ⟨?_, ?_, incr_anim s, incr_count s, incr_static s⟩
  · unfold incrementImagesWritten; simp only; split
    · split <;> rfl
    · rfl
  · unfold incrementImagesWritten; simp only; split
    · split <;> rfl
    · rfl

theorem incr_fctl_some (s : WState) (n p : Nat) (h : s.actl = some (n, p)) :
    (incrementImagesWritten s).fctl = if n ≤ s.animWritten then none else s.fctl := by
  unfold incrementImagesWritten
  simp only [h]
  split <;> rfl

/-- `fcTL` of a frame on a sink that never fails: the chunk is written, the frame control takes the next number, the frame is
    counted; then the image data as `IDAT` (first image) or `fdAT` chunks -/
theorem emitFrame_good (s : WState) (f : FC) (pi pf : List Bytes) (hg : s.sink.good) (hov : s.animWritten + 1 < 2 ^ 32) :
    emitFrame s f pi pf =
      (if s.imagesWritten = 0 then
        emitIdatImage { s with sink := (s.sink.emitChunks [mkFctl f]).1, fctl := some { f with seq := (f.seq + 1) % 2 ^ 32 }, animWritten := s.animWritten + 1 } pi
      else
        emitFdatImage { s with sink := (s.sink.emitChunks [mkFctl f]).1, fctl := some { f with seq := (f.seq + 1) % 2 ^ 32 }, animWritten := s.animWritten + 1 } f ((f.seq + 1) % 2 ^ 32) pf) := by
  unfold emitFrame
  rw [(WState.emit_good_eq hg [mkFctl f]).1]
  simp only
  rw [if_neg (by omega)]

theorem fcOf_in {W H : Nat} : ∀ (pre : List Op) (f : FC), FcIn W H f → FcIn W H (fcOf W H f pre) := by
  intro pre
  induction pre with
  | nil => intro f h; exact h
  | cons o os ih => intro f h; exact ih _ (applySetter_in h o)

theorem min_succ_ne_zero (k : Nat) : min (k + 1) (2 ^ 64 - 1) ≠ 0 := by
  intro h0
  have h1 : 1 ≤ min (k + 1) (2 ^ 64 - 1) := Nat.le_min.mpr ⟨Nat.succ_le_succ (Nat.zero_le k), by decide⟩
  rw [h0] at h1
  exact absurd h1 (by decide)

/-- **an image after the first**: `fcTL` with the number `f.seq`, the zlib stream in `fdAT` chunks with the following
    numbers; the frame control keeps its fields and takes the next number — or is dropped after the last declared frame -/
theorem image_later (E : Codec) (c : Cfg) (hcolor : colorOk c.color = true) (hdepth : depthOk c.depth = true)
    (hpal : c.color = 3 → c.palette.isSome = true) (n plays : Nat) (ha : c.actl = some (n, plays)) (hn : n < 2 ^ 32)
    (s : WState) (hs : AnimSt c s) (f : FC) (hf : s.fctl = some f) (hin : FcIn c.width c.height f)
    (hk : s.imagesWritten ≠ 0) (han : s.animWritten < n) (data : Bytes)
    (hlen : data.length = (c.sub f).rowLen * f.h) (hsz : c.rowLen * c.height < 2 ^ 64)
    (hseq : f.seq + 1 + (chunksOf maxFdatChunkLen ((c.sub f).zstream E data)).length < 2 ^ 32) :
    ∃ s', writeImageData E s data = (s', .ok) ∧ AnimSt c s' ∧ s'.imagesWritten ≠ 0 ∧ s'.animWritten = s.animWritten + 1 ∧
      s'.fctl = (if n ≤ s.animWritten + 1 then none
        else some { f with seq := f.seq + 1 + (chunksOf maxFdatChunkLen ((c.sub f).zstream E data)).length }) ∧
      s'.sink.log = s.sink.log ++ (mkFctl f :: fdatList (f.seq + 1)
        (chunksOf maxFdatChunkLen ((c.sub f).zstream E data))).map fullEmit := by
  have hck := imageChecks_anim c hcolor hdepth hpal n plays s hs.static ha f hf hin (fun h0 => absurd h0 hk) data hlen hsz
  obtain ⟨e1, e2, e3, e4, e5, _, _, _⟩ := hs.static
  simp only [initState] at e3 e4 e5
  have hz : E.encode (bytesPerPixel s.color s.depth) (c.sub f).rowLen f.h data = (c.sub f).zstream E data := by
    rw [e3, e4]; rfl
  generalize hparts : chunksOf maxFdatChunkLen ((c.sub f).zstream E data) = parts at hseq ⊢
  have hskip : skipFctlOnDefault s = false := by
    simp only [skipFctlOnDefault, Bool.and_eq_false_iff, beq_eq_false_iff_ne]; exact Or.inr hk
  -- fcTL
  obtain ⟨a1, a2⟩ := WState.emit_good_eq hs.good [mkFctl f]
  obtain ⟨l1, _⟩ := Sink.emitChunks_good_log [mkFctl f] hs.good
  generalize hk1 : (s.sink.emitChunks [mkFctl f]).1 = k1 at a1 a2 l1
  have hov : ¬ (s.animWritten + 1 ≥ 2 ^ 32) := by omega
  have hsq1 : (f.seq + 1) % 2 ^ 32 = f.seq + 1 := Nat.mod_eq_of_lt (by omega)
  -- fdAT
  obtain ⟨b1, b2⟩ := WState.emit_good_eq (s := { s with sink := k1, fctl := some { f with seq := f.seq + 1 }, animWritten := s.animWritten + 1 }) a2
    (fdatList (f.seq + 1) parts)
  obtain ⟨l2, _⟩ := Sink.emitChunks_good_log (fdatList (f.seq + 1) parts) a2
  generalize hk2 : (k1.emitChunks (fdatList (f.seq + 1) parts)).1 = k2 at b1 b2 l2
  have hsa : seqAfter (f.seq + 1) parts.length = f.seq + 1 + parts.length := by
    simp only [seqAfter]; exact Nat.mod_eq_of_lt (by omega)
  have himg : writeImageData E s data =
      (incrementImagesWritten { s with sink := k2, fctl := some { f with seq := f.seq + 1 + parts.length }, animWritten := s.animWritten + 1 }, .ok) := by
    unfold writeImageData
    rw [hck]
    simp only [hz, hparts, emitImage, hf, hskip, Bool.false_eq_true, if_false, emitFrame, a1, hov, hsq1, hk, emitFdatImage,
      fdatChunks_eq parts (f.seq + 1) (by omega), b1, hsa]
  generalize hs2 : ({ s with sink := k2, fctl := some { f with seq := f.seq + 1 + parts.length }, animWritten := s.animWritten + 1 } : WState) = s2 at himg
  obtain ⟨i1, i2, i3, i4, i5⟩ := incr_fields s2
  have hactl2 : s2.actl = some (n, plays) := by rw [← hs2]; show s.actl = _; rw [e5]; exact ha
  refine ⟨_, himg, ⟨StaticEq.trans (StaticEq.trans hs.static (by rw [← hs2]; exact ⟨rfl, rfl, rfl, rfl, rfl, rfl, rfl, rfl⟩)) i5,
    by rw [i1, ← hs2]; exact b2, by rw [i2, ← hs2]; exact hs.iend⟩, ?_, by rw [i3, ← hs2], ?_, ?_⟩
  · rw [i4]; exact min_succ_ne_zero _
  · rw [incr_fctl_some s2 n plays hactl2, ← hs2]
  · rw [i1, ← hs2]
    show k2.log = _
    rw [l2, l1]
    simp

/-- **the first image of an animation whose first frame it is**: `fcTL` with the number `f.seq` (0), the zlib stream in
    `IDAT` chunks -/
theorem image_first (E : Codec) (c : Cfg) (hcolor : colorOk c.color = true) (hdepth : depthOk c.depth = true)
    (hpal : c.color = 3 → c.palette.isSome = true) (n plays : Nat) (ha : c.actl = some (n, plays)) (hn : n < 2 ^ 32)
    (hsep : c.sepDefImg = false)
    (s : WState) (hs : AnimSt c s) (f : FC) (hf : s.fctl = some f) (hin : FcIn c.width c.height f)
    (hcov : f.x = 0 ∧ f.y = 0 ∧ f.w = c.width ∧ f.h = c.height)
    (hk : s.imagesWritten = 0) (han : s.animWritten = 0) (data : Bytes)
    (hlen : data.length = (c.sub f).rowLen * f.h) (hsz : c.rowLen * c.height < 2 ^ 64) (hseq : f.seq + 1 < 2 ^ 32) :
    ∃ s', writeImageData E s data = (s', .ok) ∧ AnimSt c s' ∧ s'.imagesWritten ≠ 0 ∧ s'.animWritten = 1 ∧
      s'.fctl = (if n ≤ 1 then none else some { f with seq := f.seq + 1 }) ∧
      s'.sink.log = s.sink.log ++ (mkFctl f :: (chunksOf maxIdatChunkLen ((c.sub f).zstream E data)).map mkIdat).map fullEmit := by
  have hck := imageChecks_anim c hcolor hdepth hpal n plays s hs.static ha f hf hin (fun _ => hcov) data hlen hsz
  obtain ⟨e1, e2, e3, e4, e5, _, e7, _⟩ := hs.static
  simp only [initState] at e3 e4 e5 e7
  have hz : E.encode (bytesPerPixel s.color s.depth) (c.sub f).rowLen f.h data = (c.sub f).zstream E data := by
    rw [e3, e4]; rfl
  generalize hparts : chunksOf maxIdatChunkLen ((c.sub f).zstream E data) = parts
  have hskip : skipFctlOnDefault s = false := by
    simp only [skipFctlOnDefault, e7, hsep, Bool.false_and]
  obtain ⟨a1, a2⟩ := WState.emit_good_eq hs.good [mkFctl f]
  obtain ⟨l1, _⟩ := Sink.emitChunks_good_log [mkFctl f] hs.good
  generalize hk1 : (s.sink.emitChunks [mkFctl f]).1 = k1 at a1 a2 l1
  have hov : ¬ (s.animWritten + 1 ≥ 2 ^ 32) := by rw [han]; decide
  have hsq1 : (f.seq + 1) % 2 ^ 32 = f.seq + 1 := Nat.mod_eq_of_lt hseq
  obtain ⟨b1, b2⟩ := WState.emit_good_eq (s := { s with sink := k1, fctl := some { f with seq := f.seq + 1 }, animWritten := s.animWritten + 1 }) a2
    (parts.map mkIdat)
  obtain ⟨l2, _⟩ := Sink.emitChunks_good_log (parts.map mkIdat) a2
  generalize hk2 : (k1.emitChunks (parts.map mkIdat)).1 = k2 at b1 b2 l2
  have himg : writeImageData E s data =
      (incrementImagesWritten { s with sink := k2, fctl := some { f with seq := f.seq + 1 }, animWritten := s.animWritten + 1 }, .ok) := by
    have he : ∀ pf, emitImage s parts pf = emitFrame s f parts pf := by
      intro pf; simp only [emitImage, hf, hskip, Bool.false_eq_true, if_false]
    unfold writeImageData
    rw [hck]
    simp only [hz, hparts]
    rw [he, emitFrame_good s f _ _ hs.good (by omega), if_pos hk, hk1, hsq1]
    simp only [emitIdatImage, b1]
  generalize hs2 : ({ s with sink := k2, fctl := some { f with seq := f.seq + 1 }, animWritten := s.animWritten + 1 } : WState) = s2 at himg
  obtain ⟨i1, i2, i3, i4, i5⟩ := incr_fields s2
  have hactl2 : s2.actl = some (n, plays) := by rw [← hs2]; show s.actl = _; rw [e5]; exact ha
  refine ⟨_, himg, ⟨StaticEq.trans (StaticEq.trans hs.static (by rw [← hs2]; exact ⟨rfl, rfl, rfl, rfl, rfl, rfl, rfl, rfl⟩)) i5,
    by rw [i1, ← hs2]; exact b2, by rw [i2, ← hs2]; exact hs.iend⟩, ?_, by rw [i3, ← hs2]; show s.animWritten + 1 = 1; rw [han], ?_, ?_⟩
  · rw [i4]; exact min_succ_ne_zero _
  · rw [incr_fctl_some s2 n plays hactl2, ← hs2]
    show (if n ≤ s.animWritten + 1 then none else _) = _
    rw [han]
  · rw [i1, ← hs2]
    show k2.log = _
    rw [l2, l1]
    simp

/-- **the first image of an animation with a separate default image**: a plain `IDAT` image, no `fcTL`; the frame control is
    kept as it is for the first frame of the animation -/
theorem image_default (E : Codec) (c : Cfg) (hcolor : colorOk c.color = true) (hdepth : depthOk c.depth = true)
    (hpal : c.color = 3 → c.palette.isSome = true) (n plays : Nat) (ha : c.actl = some (n, plays)) (hn0 : 0 < n)
    (hsep : c.sepDefImg = true)
    (s : WState) (hs : AnimSt c s) (f : FC) (hf : s.fctl = some f) (hin : FcIn c.width c.height f)
    (hcov : f.x = 0 ∧ f.y = 0 ∧ f.w = c.width ∧ f.h = c.height)
    (hk : s.imagesWritten = 0) (han : s.animWritten = 0) (data : Bytes)
    (hlen : data.length = (c.sub f).rowLen * f.h) (hsz : c.rowLen * c.height < 2 ^ 64) :
    ∃ s', writeImageData E s data = (s', .ok) ∧ AnimSt c s' ∧ s'.imagesWritten ≠ 0 ∧ s'.animWritten = 0 ∧
      s'.fctl = some f ∧
      s'.sink.log = s.sink.log ++ ((chunksOf maxIdatChunkLen ((c.sub f).zstream E data)).map mkIdat).map fullEmit := by
  have hck := imageChecks_anim c hcolor hdepth hpal n plays s hs.static ha f hf hin (fun _ => hcov) data hlen hsz
  obtain ⟨e1, e2, e3, e4, e5, _, e7, _⟩ := hs.static
  simp only [initState] at e3 e4 e5 e7
  have hz : E.encode (bytesPerPixel s.color s.depth) (c.sub f).rowLen f.h data = (c.sub f).zstream E data := by
    rw [e3, e4]; rfl
  generalize hparts : chunksOf maxIdatChunkLen ((c.sub f).zstream E data) = parts
  have hskip : skipFctlOnDefault s = true := by
    simp only [skipFctlOnDefault, e7, hsep, hk, Bool.true_and, beq_self_eq_true]
  obtain ⟨l2, g2⟩ := Sink.emitChunks_good_log (parts.map mkIdat) hs.good
  have himg : writeImageData E s data =
      (incrementImagesWritten { s with sink := (s.sink.emitChunks (parts.map mkIdat)).1 }, .ok) := by
    have he : ∀ pf, emitImage s parts pf = emitIdatImage s parts := by
      intro pf; simp only [emitImage, hf, hskip, if_true]
    unfold writeImageData
    rw [hck]
    simp only [hz, hparts]
    rw [he]
    exact emitIdatImage_good_eq hs.good _
  generalize hs2 : ({ s with sink := (s.sink.emitChunks (parts.map mkIdat)).1 } : WState) = s2 at himg
  obtain ⟨i1, i2, i3, i4, i5⟩ := incr_fields s2
  have hactl2 : s2.actl = some (n, plays) := by rw [← hs2]; show s.actl = _; rw [e5]; exact ha
  refine ⟨_, himg, ⟨StaticEq.trans (StaticEq.trans hs.static (by rw [← hs2]; exact ⟨rfl, rfl, rfl, rfl, rfl, rfl, rfl, rfl⟩)) i5,
    by rw [i1, ← hs2]; exact g2, by rw [i2, ← hs2]; exact hs.iend⟩, ?_, by rw [i3, ← hs2]; exact han, ?_, ?_⟩
  · rw [i4]; exact min_succ_ne_zero _
  · rw [incr_fctl_some s2 n plays hactl2, ← hs2]
    show (if n ≤ s.animWritten then none else s.fctl) = _
    rw [han, if_neg (by omega), hf]
  · rw [i1, ← hs2]
    exact l2

/-! ## the frames after the first image -/

/-- the chunks of the frames `frs` written after the first image; `f`: the frame control (with the next sequence number)
    before the setter calls of the first of them -/
def laterChunks (E : Codec) (c : Cfg) : FC → List Frame → List RChunk
  | _, [] => []
  | f, fr :: rest =>
    mkFctl (fcOf c.width c.height f fr.pre) ::
      fdatList ((fcOf c.width c.height f fr.pre).seq + 1)
        (chunksOf maxFdatChunkLen ((c.sub (fcOf c.width c.height f fr.pre)).zstream E fr.data)) ++
      laterChunks E c { fcOf c.width c.height f fr.pre with
        seq := (fcOf c.width c.height f fr.pre).seq + 1 +
          (chunksOf maxFdatChunkLen ((c.sub (fcOf c.width c.height f fr.pre)).zstream E fr.data)).length } rest

/-- what the run asks of the frames after the first image: setter calls with arguments in their types' ranges, image data of
    the size of the frame in effect, sequence numbers below `2^32` -/
def LaterOk (E : Codec) (c : Cfg) : FC → List Frame → Prop
  | _, [] => True
  | f, fr :: rest =>
    (∀ o ∈ fr.pre, o.isSetter = true ∧ o.inRange) ∧
    fr.data.length = (c.sub (fcOf c.width c.height f fr.pre)).rowLen * (fcOf c.width c.height f fr.pre).h ∧
    (fcOf c.width c.height f fr.pre).seq + 1 +
      (chunksOf maxFdatChunkLen ((c.sub (fcOf c.width c.height f fr.pre)).zstream E fr.data)).length < 2 ^ 32 ∧
    LaterOk E c { fcOf c.width c.height f fr.pre with
        seq := (fcOf c.width c.height f fr.pre).seq + 1 +
          (chunksOf maxFdatChunkLen ((c.sub (fcOf c.width c.height f fr.pre)).zstream E fr.data)).length } rest

instance LaterOk.dec (E : Codec) (c : Cfg) : (f : FC) → (frs : List Frame) → Decidable (LaterOk E c f frs)
  | _, [] => isTrue trivial
  | f, fr :: rest => by
    unfold LaterOk
    have := LaterOk.dec E c { fcOf c.width c.height f fr.pre with
        seq := (fcOf c.width c.height f fr.pre).seq + 1 +
          (chunksOf maxFdatChunkLen ((c.sub (fcOf c.width c.height f fr.pre)).zstream E fr.data)).length } rest
    exact inferInstance

theorem animOps_cons (fr : Frame) (rest : List Frame) :
    animOps (fr :: rest) = fr.pre ++ (Op.image fr.data :: animOps rest) := by
  simp [animOps, Frame.ops]

/-- **the frames after the first image**: every `write_image_data` returns `Ok`, no call panics; the log grows by
    `laterChunks`; after the last declared frame the frame control is gone -/
theorem later_run (E : Codec) (c : Cfg) (hcolor : colorOk c.color = true) (hdepth : depthOk c.depth = true)
    (hpal : c.color = 3 → c.palette.isSome = true) (n plays : Nat) (ha : c.actl = some (n, plays)) (hn : n < 2 ^ 32)
    (hsz : c.rowLen * c.height < 2 ^ 64) :
    ∀ (frs : List Frame) (s : WState) (f : FC), AnimSt c s →
      s.fctl = (if n ≤ s.animWritten then none else some f) → FcIn c.width c.height f → s.imagesWritten ≠ 0 →
      s.animWritten + frs.length = n → LaterOk E c f frs →
      ∃ s' rs, runOps E s (animOps frs) = (s', rs) ∧ ResultsOk (animOps frs) rs ∧ AnimSt c s' ∧ s'.imagesWritten ≠ 0 ∧
        s'.animWritten = n ∧ s'.fctl = none ∧ s'.sink.log = s.sink.log ++ (laterChunks E c f frs).map fullEmit := by
  intro frs
  induction frs with
  | nil =>
    intro s f hs hf _ hk ha' _
    simp only [List.length_nil, Nat.add_zero] at ha'
    refine ⟨s, [], rfl, .nil, hs, hk, ha', ?_, by simp [laterChunks]⟩
    rw [hf, if_pos (by omega)]
  | cons fr rest ih =>
    intro s f hs hf hin hk ha' hok
    simp only [List.length_cons] at ha'
    rw [if_neg (by omega)] at hf
    obtain ⟨hpre, hlen, hseq, hrest⟩ := hok
    obtain ⟨e1, e2, _⟩ := hs.static
    simp only [initState] at e1 e2
    rw [animOps_cons]
    obtain ⟨rs1, hrun1, hres1⟩ := setters_run E fr.pre s f (Op.image fr.data :: animOps rest) hf (by rw [e1, e2]; exact hin)
      (fun o ho => (hpre o ho).1)
    have hfc : fcOf s.width s.height f fr.pre = fcOf c.width c.height f fr.pre := by rw [e1, e2]
    rw [hfc] at hrun1
    have hin' : FcIn c.width c.height (fcOf c.width c.height f fr.pre) := fcOf_in fr.pre f hin
    generalize hf' : fcOf c.width c.height f fr.pre = f' at *
    have hs1 : AnimSt c { s with fctl := some f' } := ⟨hs.static, hs.good, hs.iend⟩
    obtain ⟨s2, himg, hs2, hk2, han2, hf2, hl2⟩ := image_later E c hcolor hdepth hpal n plays ha hn { s with fctl := some f' }
      hs1 f' rfl hin' hk (show s.animWritten < n by omega) fr.data hlen hsz hseq
    generalize hparts : chunksOf maxFdatChunkLen ((c.sub f').zstream E fr.data) = parts at *
    have han2' : s2.animWritten = s.animWritten + 1 := han2
    obtain ⟨s3, rs3, hrun3, hres3, hs3, hk3, han3, hf3, hl3⟩ := ih s2 { f' with seq := f'.seq + 1 + parts.length } hs2
      (by rw [hf2, han2']) hin' hk2 (by rw [han2']; omega) hrest
    refine ⟨s3, rs1 ++ (.ok :: rs3), ?_, hres1.append (.cons rfl (fun _ => rfl) hres3), hs3, hk3, han3, hf3, ?_⟩
    · rw [hrun1]
      simp only [runOps, writerStep, himg, hrun3]
    · rw [hl3, hl2]
      show s.sink.log ++ _ ++ _ = _
      simp only [laterChunks, hf', hparts, List.map_append, List.map_cons, List.append_assoc, List.cons_append]

/-! ## whole runs -/

/-- an animated configuration `write_header` accepts: `acTL` with `n ≥ 1` frames, a frame control with sequence number 0 that
    is not empty and lies inside the canvas (what `Encoder::set_animated` / `with_info` leave: `accepted_spec`), fields in the
    ranges of their Rust types; the rest as for a still image -/
structure Cfg.Anim (c : Cfg) (n plays : Nat) (f0 : FC) : Prop where
  actl : c.actl = some (n, plays)
  fctl : c.fctl = some f0
  npos : 0 < n
  nlt : n < 2 ^ 32
  plt : plays < 2 ^ 32
  seq0 : f0.seq = 0
  rect : FcIn c.width c.height f0
  fine : FcFine f0
  wpos : c.width ≠ 0
  hpos : c.height ≠ 0
  wlt : c.width < 2 ^ 32
  hlt : c.height < 2 ^ 32
  color : colorOk c.color = true
  depth : depthOk c.depth = true
  comb : combinationInvalid c.color c.depth = false
  pal : c.color = 3 → c.palette.isSome = true
  texts : (textPrefix c.texts).2 = true

instance (c : Cfg) (n plays : Nat) (f0 : FC) : Decidable (c.Anim n plays f0) :=
  decidable_of_iff (c.actl = some (n, plays) ∧ c.fctl = some f0 ∧ 0 < n ∧ n < 2 ^ 32 ∧ plays < 2 ^ 32 ∧ f0.seq = 0 ∧
      FcIn c.width c.height f0 ∧ FcFine f0 ∧ c.width ≠ 0 ∧ c.height ≠ 0 ∧ c.width < 2 ^ 32 ∧ c.height < 2 ^ 32 ∧
      colorOk c.color = true ∧ depthOk c.depth = true ∧ combinationInvalid c.color c.depth = false ∧
      (c.color = 3 → c.palette.isSome = true) ∧ (textPrefix c.texts).2 = true)
    ⟨fun ⟨a, b, c, d, e, f, g, h, i, j, k, l, m, n, o, p, q⟩ => ⟨a, b, c, d, e, f, g, h, i, j, k, l, m, n, o, p, q⟩,
     fun ⟨a, b, c, d, e, f, g, h, i, j, k, l, m, n, o, p, q⟩ => ⟨a, b, c, d, e, f, g, h, i, j, k, l, m, n, o, p, q⟩⟩

/-- the C12 domain (`Cfg.WellFormed`: field types in range, accepted by the `Encoder`) with an `acTL`, and a header
    `write_header` does not refuse, is `Anim` -/
theorem anim_of_wellFormed (c : Cfg) (n plays : Nat) (hw : c.WellFormed) (ha : c.actl = some (n, plays))
    (hw0 : c.width ≠ 0) (hh0 : c.height ≠ 0) (hcomb : combinationInvalid c.color c.depth = false)
    (hpal : c.color = 3 → c.palette.isSome = true) (htx : (textPrefix c.texts).2 = true) :
    ∃ f0, c.Anim n plays f0 := by
  obtain ⟨⟨i1, i2, i3, i4, i5, i6⟩, hacc, _, _⟩ := hw
  obtain ⟨hiff, hpos, hfc⟩ := accepted_spec hacc
  cases hf : c.fctl with
  | none => rw [hiff.mpr hf] at ha; cases ha
  | some f0 =>
    obtain ⟨f1, f2⟩ := hfc f0 hf
    obtain ⟨r1, r2⟩ := i5 (n, plays) (by simp [ha])
    obtain ⟨_, _, _, _, _, q1, q2, q3, q4⟩ := i6 f0 (by simp [hf])
    exact ⟨f0, ha, hf, hpos n plays ha, r1, r2, f1, f2 (Nat.pos_of_ne_zero hw0) (Nat.pos_of_ne_zero hh0), ⟨q1, q2, q3, q4⟩,
      hw0, hh0, i1, i2, i3, i4, hcomb, hpal, htx⟩

/-- `write_header` of an animated configuration on a sink that never fails -/
theorem writeHeader_anim (c : Cfg) (n plays : Nat) (f0 : FC) (hc : c.Anim n plays f0) :
    ∃ s, writeHeader c {} = (s, .ok) ∧ AnimSt c s ∧ s.sink.log = sigEmit :: (headerChunks c).map fullEmit ∧
      s.imagesWritten = 0 ∧ s.animWritten = 0 ∧ s.fctl = some f0 := by
  unfold writeHeader
  simp only [hc.wpos, hc.hpos, hc.comb, if_false, Bool.false_eq_true]
  obtain ⟨k1, hk, hg1, hl1⟩ := Sink.emit_sig_good (initState_good c)
  rw [hk]
  simp only
  obtain ⟨e1, _⟩ := WState.emit_good_eq (s := { initState c {} with sink := k1 }) hg1 (headerChunks c)
  obtain ⟨l2, g2⟩ := Sink.emitChunks_good_log (headerChunks c) hg1
  rw [e1]
  simp only [hc.texts, if_true]
  refine ⟨_, rfl, ⟨⟨rfl, rfl, rfl, rfl, rfl, rfl, rfl, rfl⟩, g2, rfl⟩, ?_, rfl, rfl, hc.fctl⟩
  show (k1.emitChunks (headerChunks c)).1.log = _
  rw [l2, hl1]; rfl

/-- `finish` after the declared frames -/
theorem finish_anim (c : Cfg) (s : WState) (hs : AnimSt c s) (hk : s.imagesWritten ≠ 0) (hf : s.fctl = none) :
    ∃ s', finishW s = (s', .ok) ∧ s'.sink.log = s.sink.log ++ [fullEmit iendChunk] := by
  have hv : validateSequenceDone s = none := by
    unfold validateSequenceDone
    cases s.validate <;> simp [hf, hk]
  obtain ⟨wi, _⟩ := writeIend_good hs.good
  have hdrop : dropW s = { s with iendWritten := true, sink := (s.sink.emitChunks [iendChunk]).1 } := by
    simp [dropW, hs.iend, wi]
  obtain ⟨l3, _⟩ := Sink.emitChunks_good_log [iendChunk] hs.good
  refine ⟨flushedW (dropW s), by rw [finishW_good hs.good hs.iend, hv], ?_⟩
  rw [(flushedW_chunks _).2.1, hdrop]
  show (s.sink.emitChunks [iendChunk]).1.log = _
  rw [l3]; rfl

/-- what the run asks of the first image: setter calls in range that leave a frame control covering the canvas (anything else
    `write_image_data` refuses for the first image), data of the size of the canvas -/
structure FirstOk (c : Cfg) (f0 : FC) (fr : Frame) : Prop where
  pre : ∀ o ∈ fr.pre, o.isSetter = true ∧ o.inRange
  cover : (fcOf c.width c.height f0 fr.pre).x = 0 ∧ (fcOf c.width c.height f0 fr.pre).y = 0 ∧
    (fcOf c.width c.height f0 fr.pre).w = c.width ∧ (fcOf c.width c.height f0 fr.pre).h = c.height
  len : fr.data.length = c.rowLen * c.height

instance (c : Cfg) (f0 : FC) (fr : Frame) : Decidable (FirstOk c f0 fr) :=
  decidable_of_iff ((∀ o ∈ fr.pre, o.isSetter = true ∧ o.inRange) ∧
      ((fcOf c.width c.height f0 fr.pre).x = 0 ∧ (fcOf c.width c.height f0 fr.pre).y = 0 ∧
        (fcOf c.width c.height f0 fr.pre).w = c.width ∧ (fcOf c.width c.height f0 fr.pre).h = c.height) ∧
      fr.data.length = c.rowLen * c.height)
    ⟨fun ⟨a, b, c⟩ => ⟨a, b, c⟩, fun ⟨a, b, c⟩ => ⟨a, b, c⟩⟩

theorem sub_cover (c : Cfg) (f : FC) (hw : f.w = c.width) (hh : f.h = c.height) : c.sub f = c := by
  cases c; simp only [Cfg.sub] at *; subst hw hh; rfl

/-- the chunks of an animation whose first frame is the `IDAT` image -/
def animChunks (E : Codec) (c : Cfg) (f0 : FC) (fr0 : Frame) (frs : List Frame) : List RChunk :=
  headerChunks c ++
    (mkFctl (fcOf c.width c.height f0 fr0.pre) :: (chunksOf maxIdatChunkLen (c.zstream E fr0.data)).map mkIdat) ++
    laterChunks E c { fcOf c.width c.height f0 fr0.pre with seq := 1 } frs ++ [iendChunk]

/-- the chunks of an animation with a separate default image -/
def animDefaultChunks (E : Codec) (c : Cfg) (f0 : FC) (fr0 : Frame) (frs : List Frame) : List RChunk :=
  headerChunks c ++ (chunksOf maxIdatChunkLen (c.zstream E fr0.data)).map mkIdat ++
    laterChunks E c (fcOf c.width c.height f0 fr0.pre) frs ++ [iendChunk]

/-- **the whole run of an animation whose first frame is the `IDAT` image**: `write_header`, for every frame setter calls
    and `write_image_data`, `finish`, on a sink that never fails -/
theorem anim_run (E : Codec) (c : Cfg) (n plays : Nat) (f0 : FC) (hc : c.Anim n plays f0) (hsep : c.sepDefImg = false)
    (fr0 : Frame) (frs : List Frame) (hn : n = frs.length + 1) (h0 : FirstOk c f0 fr0)
    (hl : LaterOk E c { fcOf c.width c.height f0 fr0.pre with seq := 1 } frs) (hsz : c.rowLen * c.height < 2 ^ 64) :
    ∃ rs, (runWriter E c {} (animOps (fr0 :: frs)) .finish).header = .ok ∧
      (runWriter E c {} (animOps (fr0 :: frs)) .finish).results = rs ∧ ResultsOk (animOps (fr0 :: frs)) rs ∧
      (runWriter E c {} (animOps (fr0 :: frs)) .finish).final = some .ok ∧
      (runWriter E c {} (animOps (fr0 :: frs)) .finish).state.sink.log =
        sigEmit :: (animChunks E c f0 fr0 frs).map fullEmit := by
  obtain ⟨s, hh, hs, hlog, hi, han, hf⟩ := writeHeader_anim c n plays f0 hc
  obtain ⟨e1, e2, _⟩ := hs.static
  simp only [initState] at e1 e2
  -- the setters of the first frame
  obtain ⟨rs1, hrun1, hres1⟩ := setters_run E fr0.pre s f0 (Op.image fr0.data :: animOps frs) hf
    (by rw [e1, e2]; exact hc.rect) (fun o ho => (h0.pre o ho).1)
  have hfc : fcOf s.width s.height f0 fr0.pre = fcOf c.width c.height f0 fr0.pre := by rw [e1, e2]
  rw [hfc] at hrun1
  obtain ⟨hin', _, hseq'⟩ := fcOf_facts (W := c.width) (H := c.height) fr0.pre f0 hc.rect hc.fine (fun o ho => (h0.pre o ho).2)
  have hcov := h0.cover
  generalize hf' : fcOf c.width c.height f0 fr0.pre = f' at *
  have hsub : c.sub f' = c := sub_cover c f' hcov.2.2.1 hcov.2.2.2
  -- the first image
  obtain ⟨s2, himg, hs2, hk2, han2, hf2, hl2⟩ := image_first E c hc.color hc.depth hc.pal n plays hc.actl hc.nlt hsep
    { s with fctl := some f' } ⟨hs.static, hs.good, hs.iend⟩ f' rfl hin' hcov hi han fr0.data
    (by rw [hsub, hcov.2.2.2]; exact h0.len) hsz (by rw [hseq', hc.seq0]; decide)
  rw [hsub] at hl2
  have hseq1 : ({ f' with seq := f'.seq + 1 } : FC) = { f' with seq := 1 } := by rw [hseq', hc.seq0]
  rw [hseq1] at hf2
  -- the other frames
  obtain ⟨s3, rs3, hrun3, hres3, hs3, hk3, _, hf3, hl3⟩ := later_run E c hc.color hc.depth hc.pal n plays hc.actl hc.nlt hsz
    frs s2 { f' with seq := 1 } hs2 (by rw [hf2, han2]) hin' hk2 (by rw [han2, hn]; omega) hl
  obtain ⟨s4, hfin, hl4⟩ := finish_anim c s3 hs3 hk3 hf3
  have hres : ResultsOk (animOps (fr0 :: frs)) (rs1 ++ (.ok :: rs3)) := by
    rw [animOps_cons]; exact hres1.append (.cons rfl (fun _ => rfl) hres3)
  have hops : runOps E s (animOps (fr0 :: frs)) = (s3, rs1 ++ (.ok :: rs3)) := by
    rw [animOps_cons, hrun1]
    simp only [runOps, writerStep, himg, hrun3]
  have hrw : runWriter E c {} (animOps (fr0 :: frs)) .finish =
      { state := s4, header := .ok, results := rs1 ++ (.ok :: rs3), final := some .ok } := by
    simp only [runWriter, hh, hops, hres.anyPanic, Bool.false_eq_true, if_false, finalStep, hfin]
  rw [hrw]
  refine ⟨_, rfl, rfl, hres, rfl, ?_⟩
  show s4.sink.log = _
  rw [hl4, hl3, hl2]
  show s.sink.log ++ _ ++ _ ++ _ = _
  rw [hlog]
  simp [animChunks, hf']

/-- **the whole run of an animation with a separate default image** (`sepDefImg`): the first image is written as a plain
    `IDAT` image, the `n` frames follow -/
theorem anim_default_run (E : Codec) (c : Cfg) (n plays : Nat) (f0 : FC) (hc : c.Anim n plays f0) (hsep : c.sepDefImg = true)
    (fr0 : Frame) (frs : List Frame) (hn : n = frs.length) (h0 : FirstOk c f0 fr0)
    (hl : LaterOk E c (fcOf c.width c.height f0 fr0.pre) frs) (hsz : c.rowLen * c.height < 2 ^ 64) :
    ∃ rs, (runWriter E c {} (animOps (fr0 :: frs)) .finish).header = .ok ∧
      (runWriter E c {} (animOps (fr0 :: frs)) .finish).results = rs ∧ ResultsOk (animOps (fr0 :: frs)) rs ∧
      (runWriter E c {} (animOps (fr0 :: frs)) .finish).final = some .ok ∧
      (runWriter E c {} (animOps (fr0 :: frs)) .finish).state.sink.log =
        sigEmit :: (animDefaultChunks E c f0 fr0 frs).map fullEmit := by
  obtain ⟨s, hh, hs, hlog, hi, han, hf⟩ := writeHeader_anim c n plays f0 hc
  obtain ⟨e1, e2, _⟩ := hs.static
  simp only [initState] at e1 e2
  obtain ⟨rs1, hrun1, hres1⟩ := setters_run E fr0.pre s f0 (Op.image fr0.data :: animOps frs) hf
    (by rw [e1, e2]; exact hc.rect) (fun o ho => (h0.pre o ho).1)
  have hfc : fcOf s.width s.height f0 fr0.pre = fcOf c.width c.height f0 fr0.pre := by rw [e1, e2]
  rw [hfc] at hrun1
  have hin' := fcOf_in (W := c.width) (H := c.height) fr0.pre f0 hc.rect
  have hcov := h0.cover
  generalize hf' : fcOf c.width c.height f0 fr0.pre = f' at *
  have hsub : c.sub f' = c := sub_cover c f' hcov.2.2.1 hcov.2.2.2
  obtain ⟨s2, himg, hs2, hk2, han2, hf2, hl2⟩ := image_default E c hc.color hc.depth hc.pal n plays hc.actl hc.npos hsep
    { s with fctl := some f' } ⟨hs.static, hs.good, hs.iend⟩ f' rfl hin' hcov hi han fr0.data
    (by rw [hsub, hcov.2.2.2]; exact h0.len) hsz
  rw [hsub] at hl2
  obtain ⟨s3, rs3, hrun3, hres3, hs3, hk3, _, hf3, hl3⟩ := later_run E c hc.color hc.depth hc.pal n plays hc.actl hc.nlt hsz
    frs s2 f' hs2 (by rw [hf2, han2, if_neg (by have := hc.npos; omega)]) hin' hk2 (by rw [han2, hn]; omega) hl
  obtain ⟨s4, hfin, hl4⟩ := finish_anim c s3 hs3 hk3 hf3
  have hres : ResultsOk (animOps (fr0 :: frs)) (rs1 ++ (.ok :: rs3)) := by
    rw [animOps_cons]; exact hres1.append (.cons rfl (fun _ => rfl) hres3)
  have hops : runOps E s (animOps (fr0 :: frs)) = (s3, rs1 ++ (.ok :: rs3)) := by
    rw [animOps_cons, hrun1]
    simp only [runOps, writerStep, himg, hrun3]
  have hrw : runWriter E c {} (animOps (fr0 :: frs)) .finish =
      { state := s4, header := .ok, results := rs1 ++ (.ok :: rs3), final := some .ok } := by
    simp only [runWriter, hh, hops, hres.anyPanic, Bool.false_eq_true, if_false, finalStep, hfin]
  rw [hrw]
  refine ⟨_, rfl, rfl, hres, rfl, ?_⟩
  show s4.sink.log = _
  rw [hl4, hl3, hl2]
  show s.sink.log ++ _ ++ _ ++ _ = _
  rw [hlog]
  simp [animDefaultChunks, hf']

end Png.Enc
