import PngVerif.Proofs.RoundTripMeta
import PngVerif.Props.C16
/-!
# C03 end to end: the chunk kinds `encode_header` writes, each accepted by `parse_chunk`

* `pHYs`, `gAMA`, `cHRM`, `sRGB`: ANY body — the parsers fail with `Format` errors only, which `parse_chunk` swallows
  for these kinds (benign); nothing is charged.
* `eXIf`: any body, the parser cannot fail; nothing is charged.
* `iCCP`: any body — `parse_iccp` swallows every error; the decompressed profile is charged (`P` bounds it).
* `tRNS`: any body of at most `limit` bytes — after the reservation only `Format` errors are possible (benign).
* `PLTE`: any body of at most `limit` bytes when no palette is stored yet (a duplicate is fatal).
* `tEXt`, `zTXt`, `iTXt`: bodies of the shape the text encoders produce (`TextBodyOk`) — a malformed text chunk is
  fatal for the decoder (`C16.text_errors_fatal`) — or any body under `ignore_text_chunk`.
-/
namespace Png.RoundTrip
open Png Png.Val Png.Framing Png.WellFormed

/-! ## the type constants of the two models are the same numbers -/

theorem ty_eqs :
    tyIHDR = IHDR ∧ tyPLTE = PLTE ∧ tyIDAT = IDAT ∧ tyIEND = IEND ∧ tyTRNS = tRNS ∧ tyPHYS = pHYs ∧ tySRGB = sRGB ∧
    tyGAMA = gAMA ∧ tyCHRM = cHRM ∧ tyICCP = iCCP ∧ tyEXIF = eXIf ∧ tyTEXT = tEXt ∧ tyZTXT = zTXt ∧ tyITXT = iTXt := by
  decide +kernel

theorem typeOk_of_mem {t : ChunkType} (h : t ∈ [PLTE, tRNS, pHYs, sRGB, gAMA, cHRM, iCCP, eXIf, tEXt, zTXt, iTXt]) :
    TypeOk t := by
  simp only [List.mem_cons, List.mem_nil_iff, or_false] at h
  rcases h with rfl | rfl | rfl | rfl | rfl | rfl | rfl | rfl | rfl | rfl | rfl <;>
    exact ⟨by decide +kernel, by decide +kernel, by decide +kernel, by decide +kernel, by decide +kernel, by decide +kernel⟩

/-! ## from the parser's outcome to `parse_chunk`'s -/

/-- the outcome of a parser of a benign kind that charges nothing: success with the limit unchanged, or a `Format` error -/
def Total0 (d : Dec) (r : PRes) : Prop :=
  (∃ d' ev, r = .ok (d', ev) ∧ d'.limit = d.limit) ∨ (∃ e, r = .error e ∧ e.isFormat = true)

theorem accepts_of_total0 (cfg : Framing.Cfg) {t : ChunkType} (hb : benign t = true) (h1 : t ≠ sBIT) (h2 : t ≠ tRNS) (D : Dec)
    (h : Total0 (D.atCrc t) (dispatch cfg (D.atCrc t) t)) :
    ∃ ev d2, parseChunk cfg D t = .ok (ev, d2) ∧ D.limit ≤ d2.limit + 0 := by
  rcases h with ⟨d', ev, hd, hl⟩ | ⟨e, he, hf⟩
  · exact ⟨ev, d', parseChunk_of_ok hd, by rw [hl]; exact Nat.le_refl _⟩
  · refine ⟨.nothing, _, parseChunk_of_benign he hf hb, ?_⟩
    rw [benignResidue_of_not_charged (benignCharged_other _ h1 h2)]
    exact Nat.le_refl _

theorem isFormat_of_eofOr {α : Type} {o : Option α} {e : PErr} (h : eofOr o = .error e) : e.isFormat = true := by
  cases o <;> simp only [eofOr] at h <;> cases h; rfl

/-- closes `Total0 d (parser d)` for a parser that only reads fields -/
macro "total0_tac" p:ident hi:ident : tactic => `(tactic| (
  cases h : $p:ident _ with
  | ok r =>
    obtain ⟨d', ev⟩ := r
    refine Or.inl ⟨d', ev, rfl, ?_⟩
    unfold $p:ident at h
    simp only [Framing.withInfo, $hi:ident, bind, Except.bind, pure, Except.pure, throw, throwThe, MonadExceptOf.throw] at h
    repeat' split at h
    all_goals first
      | (cases h; done)
      | (cases h; rfl)
  | error e =>
    refine Or.inr ⟨e, rfl, ?_⟩
    unfold $p:ident at h
    simp only [Framing.withInfo, $hi:ident, bind, Except.bind, pure, Except.pure, throw, throwThe, MonadExceptOf.throw] at h
    repeat' split at h
    all_goals first
      | (cases h; done)
      | (cases h; rfl)
      | (cases h; exact isFormat_of_eofOr (by assumption))))

theorem parsePhys_total (d : Dec) (i : Info) (hi : d.info = some i) : Total0 d (parsePhys d) := by
  total0_tac parsePhys hi
theorem parseGama_total (d : Dec) (i : Info) (hi : d.info = some i) : Total0 d (parseGama d) := by
  total0_tac parseGama hi
theorem parseChrm_total (d : Dec) (i : Info) (hi : d.info = some i) : Total0 d (parseChrm d) := by
  total0_tac parseChrm hi
theorem parseSrgb_total (d : Dec) (i : Info) (hi : d.info = some i) : Total0 d (parseSrgb d) := by
  total0_tac parseSrgb hi

theorem accepts_pHYs (cfg : Framing.Cfg) (o : Options) (body : Bytes) : Accepts cfg o pHYs body 0 (fun _ => True) := by
  intro D i _ _ hi _ _
  exact accepts_of_total0 cfg (by decide +kernel) (by decide +kernel) (by decide +kernel) D
    (by rw [dispatch_pHYs]; exact parsePhys_total _ i hi)

theorem accepts_gAMA (cfg : Framing.Cfg) (o : Options) (body : Bytes) : Accepts cfg o gAMA body 0 (fun _ => True) := by
  intro D i _ _ hi _ _
  exact accepts_of_total0 cfg (by decide +kernel) (by decide +kernel) (by decide +kernel) D
    (by rw [dispatch_gAMA]; exact parseGama_total _ i hi)

theorem accepts_cHRM (cfg : Framing.Cfg) (o : Options) (body : Bytes) : Accepts cfg o cHRM body 0 (fun _ => True) := by
  intro D i _ _ hi _ _
  exact accepts_of_total0 cfg (by decide +kernel) (by decide +kernel) (by decide +kernel) D
    (by rw [dispatch_cHRM]; exact parseChrm_total _ i hi)

theorem accepts_sRGB (cfg : Framing.Cfg) (o : Options) (body : Bytes) : Accepts cfg o sRGB body 0 (fun _ => True) := by
  intro D i _ _ hi _ _
  exact accepts_of_total0 cfg (by decide +kernel) (by decide +kernel) (by decide +kernel) D
    (by rw [dispatch_sRGB]; exact parseSrgb_total _ i hi)

/-! ## eXIf -/

theorem accept_intro {cfg : Framing.Cfg} {D : Dec} {t : ChunkType} {n : Nat} {d' : Dec} {ev : Ev}
    (h : dispatch cfg (D.atCrc t) t = .ok (d', ev)) (hl : D.limit ≤ d'.limit + n) :
    ∃ ev d2, parseChunk cfg D t = .ok (ev, d2) ∧ D.limit ≤ d2.limit + n := ⟨ev, d', parseChunk_of_ok h, hl⟩

theorem accepts_eXIf (cfg : Framing.Cfg) (o : Options) (body : Bytes) : Accepts cfg o eXIf body 0 (fun _ => True) := by
  intro D i _ _ hi _ _
  have hi' : (D.atCrc eXIf).info = some i := hi
  by_cases he : i.exif.isNone = true
  · apply accept_intro
    · rw [dispatch_eXIf]; simp only [parseExif, Framing.withInfo, hi', he, if_true]; rfl
    · exact Nat.le_refl _
  · apply accept_intro
    · rw [dispatch_eXIf]; simp only [parseExif, Framing.withInfo, hi', he]; rfl
    · exact Nat.le_refl _

/-! ## iCCP -/

theorem iccpName_suffix : ∀ (fuel len : Nat) (b r : Bytes), iccpName fuel len b = .ok r → r <:+ b := by
  intro fuel
  induction fuel with
  | zero => intro len b r h; simp only [iccpName] at h; cases h; exact List.nil_suffix
  | succ fuel ih =>
    intro len b r h
    cases b with
    | nil => simp [iccpName] at h
    | cons x rest =>
      simp only [iccpName] at h
      split at h
      · cases h
      · split at h
        · cases h; exact List.suffix_cons _ _
        · split at h
          · cases h; exact List.suffix_cons _ _
          · exact (ih _ _ _ h).trans (List.suffix_cons _ _)

/-- a successful `parse_iccp_raw` charges the length of what the bounded inflater returns for a suffix of the body -/
theorem parseIccpRaw_limit (cfg : Framing.Cfg) (d d' : Dec) (h : parseIccpRaw cfg d = .ok d') :
    ∃ z prof, z <:+ d.raw ∧ cfg.inflateBounded z d.limit = .ok prof ∧ d'.limit = d.limit - prof.length := by
  unfold parseIccpRaw at h
  cases hn : iccpName 82 0 d.raw with
  | error e => rw [hn] at h; cases h
  | ok b =>
    have hsuf := iccpName_suffix _ _ _ _ hn
    rw [hn] at h
    cases b with
    | nil => simp [bind, Except.bind, eofOr, rdU8] at h
    | cons m z =>
      simp only [bind, Except.bind, eofOr, rdU8, pure, Except.pure, throw, throwThe, MonadExceptOf.throw] at h
      split at h
      · cases h
      · refine ⟨z, ?_⟩
        cases hz : cfg.inflateBounded z d.limit with
        | error b => rw [hz] at h; cases b <;> cases h
        | ok prof =>
          rw [hz] at h
          simp only at h
          cases hr : reserve d prof.length with
          | error e => rw [hr] at h; cases h
          | ok d1 =>
            rw [hr] at h
            obtain ⟨rfl, _⟩ := reserve_eq hr
            cases h
            exact ⟨prof, (List.suffix_cons m z).trans hsuf, rfl, rfl⟩

/-- what the bounded inflater returns for any suffix of `body` has at most `P` bytes -/
def ProfileBound (cfg : Framing.Cfg) (body : Bytes) (P : Nat) : Prop :=
  ∀ z n prof, z <:+ body → cfg.inflateBounded z n = .ok prof → prof.length ≤ P

theorem parseIccp_cases (cfg : Framing.Cfg) (d : Dec) :
    parseIccp cfg d = .error (.format "AfterIdat iCCP") ∨ parseIccp cfg d = .ok (d, .nothing) ∨
    parseIccp cfg d = .ok ({ d with haveIccp := true }, .nothing) ∨
    ∃ d', parseIccpRaw cfg { d with haveIccp := true } = .ok d' ∧ parseIccp cfg d = .ok (d', .nothing) := by
  unfold parseIccp
  split
  · exact Or.inl rfl
  · split
    · exact Or.inr (Or.inl rfl)
    · simp only
      split
      · rename_i d' h; exact Or.inr (Or.inr (Or.inr ⟨d', h, rfl⟩))
      · exact Or.inr (Or.inr (Or.inl rfl))

theorem accepts_iCCP (cfg : Framing.Cfg) (o : Options) (body : Bytes) (P : Nat) (hP : ProfileBound cfg body P) :
    Accepts cfg o iCCP body P (fun _ => True) := by
  intro D i _ hraw hi _ _
  by_cases hig : D.opts.ignoreIccp = true
  · exact accept_intro (dispatch_unknown cfg (D.atCrc iCCP) iCCP (Or.inr (Or.inl ⟨rfl, hig⟩))) (Nat.le_add_right _ _)
  · have hig' : (D.atCrc iCCP).opts.ignoreIccp = false := by show D.opts.ignoreIccp = false; simpa using hig
    have hd := dispatch_iCCP cfg (D.atCrc iCCP) hig'
    rcases parseIccp_cases cfg (D.atCrc iCCP) with h | h | h | ⟨d', hr, h⟩
    · refine ⟨.nothing, _, parseChunk_of_benign (hd.trans h) rfl (by decide +kernel), ?_⟩
      rw [benignResidue_of_not_charged (benignCharged_other _ (by decide +kernel) (by decide +kernel))]
      exact Nat.le_add_right _ _
    · exact accept_intro (hd.trans h) (Nat.le_add_right _ _)
    · exact accept_intro (hd.trans h) (Nat.le_add_right _ _)
    · obtain ⟨z, prof, hsuf, hz, hl⟩ := parseIccpRaw_limit cfg _ _ hr
      have hpl : prof.length ≤ P := hP z _ prof (by rw [← hraw]; exact hsuf) hz
      refine accept_intro (hd.trans h) ?_
      rw [hl]
      show D.limit ≤ D.limit - prof.length + P
      omega

/-! ## tRNS -/

/-- the outcome of `parse_trns` when the limit covers the body: success with the body charged, or a `Format` error -/
theorem parseTrns_total (d : Dec) (i : Info) (hi : d.info = some i) (hl : d.raw.length ≤ d.limit) :
    (∃ d' ev, parseTrns d = .ok (d', ev) ∧ d'.limit = d.limit - d.raw.length) ∨
      (∃ e, parseTrns d = .error e ∧ e.isFormat = true) := by
  cases h : parseTrns d with
  | ok r =>
    obtain ⟨d', ev⟩ := r
    refine Or.inl ⟨d', ev, rfl, ?_⟩
    unfold parseTrns at h
    simp only [Framing.withInfo, hi, bind, Except.bind, reserve_ok d _ hl, pure, Except.pure, throw, throwThe, MonadExceptOf.throw] at h
    repeat' split at h
    all_goals first
      | (cases h; done)
      | (cases h; rfl)
  | error e =>
    refine Or.inr ⟨e, rfl, ?_⟩
    unfold parseTrns at h
    simp only [Framing.withInfo, hi, bind, Except.bind, reserve_ok d _ hl, pure, Except.pure, throw, throwThe, MonadExceptOf.throw] at h
    repeat' split at h
    all_goals first
      | (cases h; done)
      | (cases h; rfl)

theorem accepts_tRNS (cfg : Framing.Cfg) (o : Options) (body : Bytes) : Accepts cfg o tRNS body body.length (fun _ => True) := by
  intro D i _ hraw hi _ hl
  have hi' : (D.atCrc tRNS).info = some i := hi
  have hl' : (D.atCrc tRNS).raw.length ≤ (D.atCrc tRNS).limit := by show D.raw.length ≤ D.limit; rw [hraw]; exact hl
  rcases parseTrns_total _ i hi' hl' with ⟨d', ev, hd, hlim⟩ | ⟨e, he, hf⟩
  · refine ⟨ev, d', parseChunk_of_ok (by rw [dispatch_tRNS]; exact hd), ?_⟩
    rw [hlim]; show D.limit ≤ D.limit - D.raw.length + body.length; rw [hraw]; omega
  · have hdis : dispatch cfg (D.atCrc tRNS) tRNS = .error e := by rw [dispatch_tRNS]; exact he
    obtain ⟨hp, _, _, _, hres⟩ := C16.benign_inert cfg D tRNS e (by decide +kernel) hdis hf
    refine ⟨.nothing, _, hp, ?_⟩
    rcases hres with h | ⟨_, h⟩
    · rw [h]; omega
    · rw [h, hraw]; omega

/-! ## PLTE -/

theorem accepts_PLTE (cfg : Framing.Cfg) (o : Options) (body : Bytes) :
    Accepts cfg o PLTE body body.length (fun i => i.palette = none) := by
  intro D i _ hraw hi hpal hl
  have hi' : (D.atCrc PLTE).info = some i := hi
  have hl' : (D.atCrc PLTE).raw.length ≤ (D.atCrc PLTE).limit := by show D.raw.length ≤ D.limit; rw [hraw]; exact hl
  apply accept_intro
  · rw [dispatch_PLTE]
    simp only [parsePlte, Framing.withInfo, hi', hpal, Option.isSome_none, Bool.false_eq_true, if_false, bind, Except.bind,
      reserve_ok _ _ hl', pure, Except.pure]
    rfl
  show D.limit ≤ D.limit - D.raw.length + body.length
  rw [hraw]; omega

/-! ## text chunks -/

/-- the bodies `parse_chunk` accepts as `tEXt` / `zTXt` / `iTXt`: the layouts the text encoders of the crate produce -/
inductive TextBodyOk (cfg : Framing.Cfg) : ChunkType → Bytes → Prop
  | tEXt (kw text : Bytes) (hk : KeywordOk kw) : TextBodyOk cfg tEXt (kw ++ 0 :: text)
  | zTXt (kw z : Bytes) (hk : KeywordOk kw) : TextBodyOk cfg zTXt (kw ++ 0 :: 0 :: z)
  | iTXt (kw lang trans text : Bytes) (flag method : UInt8) (hk : KeywordOk kw) (hflag : flag.toNat ≤ 1)
      (hmethod : flag = 1 → method = 0) (hlang : ∀ b ∈ lang, b ≠ 0 ∧ b.toNat < 128)
      (htrans : (∀ b ∈ trans, b ≠ 0) ∧ cfg.utf8Ok trans = true) (htext : flag = 1 ∨ cfg.utf8Ok text = true) :
      TextBodyOk cfg iTXt (kw ++ 0 :: flag :: method :: (lang ++ 0 :: (trans ++ 0 :: text)))

/-- a text chunk the decoder accepts: one of the three types; its body well-formed unless text chunks are ignored -/
def TextChunkOk (cfg : Framing.Cfg) (ignoreText : Bool) (t : ChunkType) (body : Bytes) : Prop :=
  (t = tEXt ∨ t = zTXt ∨ t = iTXt) ∧ (ignoreText = false → TextBodyOk cfg t body)

theorem accepts_text (cfg : Framing.Cfg) (o : Options) (t : ChunkType) (body : Bytes) (h : TextChunkOk cfg o.ignoreText t body) :
    Accepts cfg o t body body.length (fun _ => True) := by
  intro D i ho hraw hi _ hl
  obtain ⟨ht, hbody⟩ := h
  rw [← ho] at hbody
  by_cases hig : D.opts.ignoreText = true
  · exact accept_intro (dispatch_unknown cfg (D.atCrc t) t (Or.inr (Or.inr ⟨ht, hig⟩))) (Nat.le_add_right _ _)
  · have hig' : (D.atCrc t).opts.ignoreText = false := by show D.opts.ignoreText = false; simpa using hig
    have hi' : (D.atCrc t).info = some i := hi
    have hraw' : (D.atCrc t).raw = body := hraw
    have hl' : (D.atCrc t).raw.length ≤ (D.atCrc t).limit := by rw [hraw']; exact hl
    have hfin : ∀ (X : Dec), X = { D.atCrc t with limit := (D.atCrc t).limit - (D.atCrc t).raw.length } →
        ∀ tc, D.limit ≤ (addText X tc).limit + body.length := by
      intro X hX tc
      rw [hX]
      show D.limit ≤ D.limit - D.raw.length + body.length
      rw [hraw]; omega
    cases hbody (by simpa using hig) with
    | tEXt kw text hk =>
      exact ⟨_, _, parseChunk_of_ok (by
        rw [dispatch_tEXt cfg _ hig']; exact C16.parse_encode_tEXt _ i kw text hk hi' hl' hraw'), hfin _ rfl _⟩
    | zTXt kw z hk =>
      exact ⟨_, _, parseChunk_of_ok (by
        rw [dispatch_zTXt cfg _ hig']; exact C16.parse_encode_zTXt _ i kw z hk hi' hl' hraw'), hfin _ rfl _⟩
    | iTXt kw lang trans text flag method hk hflag hmethod hlang htrans htext =>
      exact ⟨_, _, parseChunk_of_ok (by
        rw [dispatch_iTXt cfg _ hig']
        exact C16.parse_encode_iTXt cfg _ i kw lang trans text flag method hk hi' hl' hflag hmethod hlang htrans htext hraw'),
        hfin _ rfl _⟩

end Png.RoundTrip
