import PngVerif.Proofs.ReaderPathsRun
/-!
# Decoding paths, part 13: the assembling executor and its invariant (C13)

`asmRun` executes any interleaving of the four calls, placing delivered rows into the caller's frame
buffer and recording every completed frame with its index.  `J`: the invariant — the reader stands
`Open` or `Closed` relative to the reference, every recorded frame is the reference frame of its
index, no call failed.  `asmStep_J`: every call keeps it.
-/
namespace Png.Reader
open Png Png.Framing

/-- the calls whose interleavings C13 is about -/
inductive PathOp
  /-- `next_frame` into the caller's frame buffer -/
  | nextFrame
  /-- `next_row` / `next_interlaced_row` (library-owned row) -/
  | nextRow
  /-- `read_row` into a caller-owned buffer of `output_line_size(width) + extra` bytes -/
  | readRow (extra : Nat)
  /-- `next_frame_info`: skip the rest of the current frame -/
  | nextFrameInfo
deriving Repr, DecidableEq

/-- the caller's side of a run (the harness's `assemble`) -/
structure Asm where
  /-- the caller's frame buffer -/
  canvas : Bytes
  /-- index of the frame being assembled, or (when `closed`) of the frame completed last -/
  idx : Nat
  /-- the current frame has been completed and no new frame was begun -/
  closed : Bool
  /-- completed frames with their index (newest first) -/
  frames : List (Nat × Bytes)
  /-- a call failed with something else than a `Parameter` error, a row arrived for a completed frame, or
      the Adam7 helper rejected a row -/
  problem : Bool
deriving Repr

def Asm.init (fresh : Bytes) : Asm := { canvas := fresh, idx := 0, closed := false, frames := [], problem := false }

/-- the result of a row-level call -/
def Asm.onRow (a : Asm) (stride bits : Nat) (res : Res) : Asm :=
  match res with
  | .row ii data =>
    if a.closed then { a with problem := true } else
    match placeRow stride bits a.canvas ii data with
    | some c => { a with canvas := c }
    | none => { a with problem := true }
  | .noRow => if a.closed then a else { a with frames := (a.idx, a.canvas) :: a.frames, closed := true }
  | .err .parameter _ => a
  | _ => { a with problem := true }

/-- the result of `next_frame` (a returned frame carries the frame buffer afterwards) -/
def Asm.onFrame (a : Asm) (res : Res) : Asm :=
  match res with
  | .frame _ B =>
    { a with canvas := B, idx := if a.closed then a.idx + 1 else a.idx, closed := true,
             frames := ((if a.closed then a.idx + 1 else a.idx), B) :: a.frames }
  | .err .parameter _ => a
  | _ => { a with problem := true }

/-- the result of `next_frame_info` -/
def Asm.onInfo (a : Asm) (fresh : Bytes) (res : Res) : Asm :=
  match res with
  | .frameInfo _ => { a with canvas := fresh, idx := a.idx + 1, closed := false }
  | .err .parameter _ => a
  | _ => { a with problem := true }

/-- line size of the current (sub)frame and bits per pixel: what the caller needs to place a row -/
def strideOf (t : TCfg) (r : R) : Nat := match infoOf r with | some i => outLineSize t i r.flags r.sub.width | none => 0
def bitsOf (t : TCfg) (r : R) : Nat := match infoOf r with | some i => outBits t i r.flags | none => 0
/-- `output_line_size(info.width)`: the documented size of a `read_row` buffer -/
def canvasLine (t : TCfg) (r : R) : Nat := match infoOf r with | some i => outLineSize t i r.flags i.width | none => 0

/-- one call: the model's function for it, and what the caller does with the result -/
def asmStep (cfg : Cfg) (t : TCfg) (fresh : Bytes) (x : R × Asm) (op : PathOp) : R × Asm :=
  match op with
  | .nextFrame =>
    let out := nextFrameBuf cfg t x.1 (if x.2.closed then fresh else x.2.canvas)
    (out.1, x.2.onFrame out.2.1)
  | .nextRow =>
    let out := nextInterlacedRow cfg t x.1
    (out.1, x.2.onRow (strideOf t x.1) (bitsOf t x.1) out.2)
  | .readRow extra =>
    let out := readRow cfg t x.1 (canvasLine t x.1 + extra)
    (out.1, x.2.onRow (strideOf t x.1) (bitsOf t x.1) out.2)
  | .nextFrameInfo =>
    let out := nextFrameInfo cfg t x.1
    (out.1, x.2.onInfo fresh out.2)

def asmRun (cfg : Cfg) (t : TCfg) (fresh : Bytes) (x : R × Asm) (ops : List PathOp) : R × Asm :=
  ops.foldl (asmStep cfg t fresh) x

/-- **the invariant of a run** -/
structure J (cfg : Cfg) (t : TCfg) (fresh : Bytes) (ref : List Bytes) (r : R) (a : Asm) : Prop where
  inv : Inv t r
  z : ZInv cfg r.dec
  noProblem : a.problem = false
  frames : ∀ k px, (k, px) ∈ a.frames → ref[k]? = some px
  state : if a.closed then Closed cfg t fresh ref r (a.idx + 1) else Open cfg t fresh ref r a.canvas a.idx

theorem strideOf_eq (t : TCfg) {r : R} {i : Info} (hi : r.dec.info = some i) :
    strideOf t r = outLineSize t i r.flags r.sub.width := by unfold strideOf; simp only [infoOf, hi]
theorem bitsOf_eq (t : TCfg) {r : R} {i : Info} (hi : r.dec.info = some i) : bitsOf t r = outBits t i r.flags := by
  unfold bitsOf; simp only [infoOf, hi]
theorem canvasLine_eq (t : TCfg) {r : R} {i : Info} (hi : r.dec.info = some i) :
    canvasLine t r = outLineSize t i r.flags i.width := by unfold canvasLine; simp only [infoOf, hi]

section
variable {cfg : Cfg} {t : TCfg} (ht : t.Ok) (hs : t.SnapIndep) {fresh : Bytes} {ref : List Bytes}
include ht hs

omit ht hs in
/-- a row-level call on a consumed frame: `None`, nothing changes -/
theorem closed_row {r : R} {k : Nat} (hI : Inv t r) (hc : Closed cfg t fresh ref r k) :
    ∃ r1, nextInterlacedRow cfg t r = (r1, .noRow) ∧ PSim False r r1 := by
  obtain ⟨i, hi, _⟩ := hI.info
  obtain ⟨c1, c2, _⟩ := hc
  have h1 : nextInterlacedRow cfg t r =
      readRow cfg t { r with scratchLen := outLineSize t i r.flags r.sub.width } (outLineSize t i r.flags r.sub.width) := by
    unfold nextInterlacedRow; simp only [infoOf, hi]
  have hfd : finishDecoding cfg r = (r, .ok ()) := by
    unfold finishDecoding; rw [c2, c1]; rfl
  rw [h1, readRow_none cfg t { r with scratchLen := outLineSize t i r.flags r.sub.width } _ c2]
  have hfs : finishDecoding cfg { r with scratchLen := outLineSize t i r.flags r.sub.width } =
      mapFst (fun x => x.setSC (outLineSize t i r.flags r.sub.width) r.cached) (finishDecoding cfg r) :=
    finishDecoding_setSC cfg r _ r.cached
  rw [hfs, hfd]
  exact ⟨_, rfl, ⟨_, _, rfl, Or.inl rfl⟩⟩

omit hs in
/-- **a row-level call keeps the invariant** (`(r1, res)`: what the call returned — `next_row` itself, or
    `read_row`, which returns the same up to the scratch length) -/
theorem row_J {r r1 : R} {a : Asm} {res : Res} (hJ : J cfg t fresh ref r a)
    (hrel : SimRes False (nextInterlacedRow cfg t r) (r1, res)) (hI1 : Inv t r1) (hz1 : ZInv cfg r1.dec) :
    J cfg t fresh ref r1 (a.onRow (strideOf t r) (bitsOf t r) res) := by
  obtain ⟨hI, hz, hnp, hfr, hst⟩ := hJ
  obtain ⟨i, hi, _⟩ := hI.info
  cases hcl : a.closed with
  | true =>
    rw [hcl] at hst; simp only [if_true] at hst
    obtain ⟨rn, hx, hsn⟩ := closed_row hI hst
    rw [hx] at hrel
    obtain ⟨m1, m2⟩ := hrel
    simp only at m1 m2
    subst m2
    have hon : a.onRow (strideOf t r) (bitsOf t r) .noRow = a := by unfold Asm.onRow; simp only [hcl, if_true]
    rw [hon]
    refine ⟨hI1, hz1, hnp, hfr, ?_⟩
    rw [hcl]; simp only [if_true]
    exact hst.sim ht (b := False) False.elim (hsn.trans m1) hI hI1
  | false =>
    rw [hcl] at hst; simp only [Bool.false_eq_true, if_false] at hst
    obtain ⟨o1, o2, rE, oi, B, hW, hB, hC⟩ := hst
    obtain ⟨lI, _, _, _⟩ := frameInto_leaves cfg ht hI o1 hW
    cases hcur : r.sub.cur with
    | some ii =>
      obtain ⟨data, rn, buf1, hx, hp, rE1, hW1, hs1⟩ := frameInto_row cfg ht hI o2 hi hcur hW
      rw [hx] at hrel
      obtain ⟨m1, m2⟩ := hrel
      simp only at m1 m2
      subst m2
      obtain ⟨b1, b2, b3, _, _, _, _⟩ := nextRow_keeps cfg ht hI hi hx
      have hcafn := nextRow_caf cfg ht hI hi hz o1 hx
      have hon : a.onRow (strideOf t r) (bitsOf t r) (.row ii data) = { a with canvas := buf1 } := by
        unfold Asm.onRow
        simp only [hcl, Bool.false_eq_true, if_false]
        rw [strideOf_eq t hi, bitsOf_eq t hi, hp]
      rw [hon]
      refine ⟨hI1, hz1, hnp, hfr, ?_⟩
      simp only [hcl, Bool.false_eq_true, if_false]
      have hOn : Open cfg t fresh ref rn buf1 a.idx :=
        ⟨hcafn, b3, rE1, oi, B, hW1, hB,
          hC.sim ht (b := False) False.elim hs1 lI (frameInto_leaves cfg ht b1 hcafn hW1).1⟩
      exact hOn.sim ht (b := False) False.elim m1 b1 hI1
    | none =>
      obtain ⟨hBc, rn, hx, hsn⟩ := frameInto_end cfg ht hI hi hcur hW
      rw [hx] at hrel
      obtain ⟨m1, m2⟩ := hrel
      simp only at m1 m2
      subst m2
      have hon : a.onRow (strideOf t r) (bitsOf t r) .noRow =
          { a with frames := (a.idx, a.canvas) :: a.frames, closed := true } := by
        unfold Asm.onRow; simp only [hcl, Bool.false_eq_true, if_false]
      rw [hon]
      refine ⟨hI1, hz1, hnp, ?_, ?_⟩
      · intro k px hm
        simp only [List.mem_cons, Prod.mk.injEq] at hm
        rcases hm with ⟨rfl, rfl⟩ | hm
        · rw [← hBc]; exact hB
        · exact hfr k px hm
      · simp only [if_true]
        exact hC.sim ht (b := False) False.elim (hsn.trans m1) lI hI1

omit hs in
/-- `next_frame_info` on a consumed frame with frames remaining: the next frame of the reference begins -/
theorem closed_info {r : R} {k : Nat} (hI : Inv t r) (hc : Closed cfg t fresh ref r k) (hrem : r.remaining ≠ 0) :
    ∃ s fc, nextFrameInfo cfg t r = (s, .frameInfo fc) ∧ Inv t s ∧ Open cfg t fresh ref s fresh k := by
  obtain ⟨s, hy, hIs, hO, i, fc, hi, hf⟩ := hc.next ht hI hrem
  obtain ⟨n, hn⟩ : ∃ n, r.remaining = n + 1 := ⟨r.remaining - 1, by omega⟩
  refine ⟨s, fc, ?_, hIs, hO⟩
  rw [nextFrameInfo_closed cfg t r n hc.1 hn]
  unfold afterSkip
  rw [hy]
  simp only [infoOf, hi, bind, Option.bind, hf]

omit hs in
/-- **`next_frame` keeps the invariant** -/
theorem frame_J {r : R} {a : Asm} (hJ : J cfg t fresh ref r a) :
    J cfg t fresh ref (nextFrameBuf cfg t r (if a.closed then fresh else a.canvas)).1
      (a.onFrame (nextFrameBuf cfg t r (if a.closed then fresh else a.canvas)).2.1) := by
  obtain ⟨hI, hz, hnp, hfr, hst⟩ := hJ
  have hz' := nextFrameBuf_decP (zinv_decPred cfg) t r (if a.closed then fresh else a.canvas) hz
  cases hcl : a.closed with
  | true =>
    rw [hcl] at hst hz'; simp only [if_true] at hst hz' ⊢
    by_cases hrem : r.remaining = 0
    · have hx : nextFrameBuf cfg t r fresh = (r, .err .parameter "PolledAfterEndOfImage", fresh) := by
        exact nextFrameBuf_polled cfg t r fresh hst.2.1 hrem
      rw [hx]
      refine ⟨hI, hz, hnp, hfr, ?_⟩
      show (if (a.onFrame (.err .parameter "PolledAfterEndOfImage")).closed then _ else _)
      have : a.onFrame (.err .parameter "PolledAfterEndOfImage") = a := rfl
      rw [this, hcl]; simp only [if_true]; exact hst
    · obtain ⟨s, hy, hIs, ⟨o1, o2, rE, oi, B, hW, hB, hC⟩, _⟩ := hst.next ht hI hrem
      have hx : nextFrameBuf cfg t r fresh = (rE, .frame oi B, B) := by
        rw [nextFrameBuf_none cfg t r fresh hst.2.1]
        unfold nextFrameBuf0; rw [if_neg hrem, hst.1]; simp only [if_true]; rw [hy]; exact hW
      rw [hx] at hz' ⊢
      obtain ⟨lI, _, _, _⟩ := frameInto_leaves cfg ht hIs o1 hW
      refine ⟨lI, hz', hnp, ?_, ?_⟩
      · intro k px hm
        simp only [Asm.onFrame, hcl, if_true, List.mem_cons, Prod.mk.injEq] at hm
        rcases hm with ⟨rfl, rfl⟩ | hm
        · exact hB
        · exact hfr k px hm
      · simp only [Asm.onFrame, hcl, if_true]; exact hC
  | false =>
    rw [hcl] at hst hz'; simp only [Bool.false_eq_true, if_false] at hst hz' ⊢
    obtain ⟨o1, o2, rE, oi, B, hW, hB, hC⟩ := hst
    have hx : nextFrameBuf cfg t r a.canvas = (rE, .frame oi B, B) := by rw [nextFrameBuf_open cfg _ hI o1]; exact hW
    rw [hx] at hz' ⊢
    obtain ⟨lI, _, _, _⟩ := frameInto_leaves cfg ht hI o1 hW
    refine ⟨lI, hz', hnp, ?_, ?_⟩
    · intro k px hm
      simp only [Asm.onFrame, hcl, Bool.false_eq_true, if_false, List.mem_cons, Prod.mk.injEq] at hm
      rcases hm with ⟨rfl, rfl⟩ | hm
      · exact hB
      · exact hfr k px hm
    · simp only [Asm.onFrame, hcl, Bool.false_eq_true, if_false, if_true]; exact hC

/-- **`next_frame_info` keeps the invariant** -/
theorem info_J {r : R} {a : Asm} (hJ : J cfg t fresh ref r a) :
    J cfg t fresh ref (nextFrameInfo cfg t r).1 (a.onInfo fresh (nextFrameInfo cfg t r).2) := by
  obtain ⟨hI, hz, hnp, hfr, hst⟩ := hJ
  have hz' := nextFrameInfo_decP (zinv_decPred cfg) t r hz
  have hsp := nextFrameInfo_spec cfg r hI
  have hparam : ∀ w, a.onInfo fresh (.err .parameter w) = a := fun _ => rfl
  cases hcl : a.closed with
  | true =>
    rw [hcl] at hst; simp only [if_true] at hst
    by_cases hrem : r.remaining = 0
    · rw [nextFrameInfo_pend cfg t r (by rw [hst.1]; simp only [if_true]; exact hrem), hparam]
      exact ⟨hI, hz, hnp, hfr, by rw [hcl]; simp only [if_true]; exact hst⟩
    · obtain ⟨s, fc, hx, hIs, hO⟩ := closed_info ht hI hst hrem
      rw [hx] at hz' ⊢
      exact ⟨hIs, hz', hnp, hfr, by simp only [Asm.onInfo, Bool.false_eq_true, if_false]; exact hO⟩
  | false =>
    rw [hcl] at hst; simp only [Bool.false_eq_true, if_false] at hst
    obtain ⟨o1, o2, rE, oi, B, hW, hB, hC⟩ := hst
    obtain ⟨i, hi, _⟩ := hI.info
    obtain ⟨lI, l2, l3, l4⟩ := frameInto_leaves cfg ht hI o1 hW
    obtain ⟨k1, k2⟩ := skip_agrees cfg ht hI hi o1 hW
    by_cases hrem : rE.remaining = 0
    · rw [nextFrameInfo_pend cfg t r (by rw [o1]; simp only [Bool.false_eq_true, if_false]; omega), hparam]
      exact ⟨hI, hz, hnp, hfr, by rw [hcl]; simp only [Bool.false_eq_true, if_false]; exact ⟨o1, o2, rE, oi, B, hW, hB, hC⟩⟩
    · obtain ⟨s, fc, hx, hIs, hO⟩ := closed_info ht lI hC hrem
      rw [hx] at k1 k2
      simp only at k1 k2
      have hsim := k2 fc rfl
      cases hy : nextFrameInfo cfg t r with
      | mk s' res =>
        rw [hy] at k1 hsim hz' hsp
        simp only at k1 hsim hz' hsp
        subst k1
        exact ⟨hsp.1, hz', hnp, hfr, by
          simp only [Asm.onInfo, Bool.false_eq_true, if_false]
          exact hO.sim ht (b := True) (fun _ => hs) hsim hIs hsp.1⟩

/-- **every call keeps the invariant** -/
theorem asmStep_J {r : R} {a : Asm} (hJ : J cfg t fresh ref r a) (op : PathOp) :
    J cfg t fresh ref (asmStep cfg t fresh (r, a) op).1 (asmStep cfg t fresh (r, a) op).2 := by
  obtain ⟨i, hi, hg⟩ := hJ.inv.info
  cases op with
  | nextFrame => exact frame_J ht hJ
  | nextFrameInfo => exact info_J ht hs hJ
  | nextRow =>
    have hsp := nextInterlacedRow_spec cfg ht r i hJ.inv hi
    exact row_J ht hJ (SimRes.refl _ _) hsp.1 (nextInterlacedRow_decP (zinv_decPred cfg) t r hJ.z)
  | readRow extra =>
    have hbuf : outLineSize t i r.flags r.sub.width ≤ canvasLine t r + extra := by
      rw [canvasLine_eq t hi]
      have := outLineSize_mono ht (hJ.inv.base.dinv.legal i hi) r.flags hg.wW
      omega
    have hsp := readRow_spec cfg ht r (canvasLine t r + extra) i hJ.inv hi hbuf
    exact row_J ht hJ (readRow_eq_nextRow cfg ht _ hJ.inv hi hbuf) hsp.1
      (readRow_decP (zinv_decPred cfg) t r _ hJ.z)

theorem asmRun_J : ∀ (ops : List PathOp) {r : R} {a : Asm}, J cfg t fresh ref r a →
    J cfg t fresh ref (asmRun cfg t fresh (r, a) ops).1 (asmRun cfg t fresh (r, a) ops).2 := by
  intro ops
  induction ops with
  | nil => intro r a h; exact h
  | cons op ops ih =>
    intro r a h
    have := asmStep_J ht hs h op
    exact ih this

end

end Png.Reader
