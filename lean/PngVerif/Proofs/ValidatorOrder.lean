import PngVerif.Proofs.ValidatorTrace
/-!
# The placement pass of the validator (`orderOk`) accepts the writer model's output

`orderOk` (Model/Validator.lean, rule group 5) looks at the list of chunk types only.
Part 1: `firstDup` / `firstAfter` reduced to `List.Nodup` / `List.Pairwise`, which are inherited by sublists.
Part 2: `orderOk_of_shape` — a type list `H ++ T` with `H` a sublist of the fixed order
        `headerOrder` (IHDR pHYs sRGB gAMA cHRM iCCP eXIf acTL PLTE tRNS) and `T` free of the types the
        placement pass has rules for is accepted.
Part 3: the header chunks of the model have that shape (`headerFixed_sublist`), the chunks after the
        header are free (`BodyChunk` + the domain's conditions on pass-through chunks), hence
        `order_ok_of_run`.
-/
namespace Png.Enc
open Png Png.Val

/-! ## Part 1 -/

theorem firstDup_none_of_nodup : ∀ l : List Ty, l.Nodup → firstDup l = none := by
  intro l
  induction l with
  | nil => intro _; rfl
  | cons t ts ih =>
    intro h
    have h' := List.nodup_cons.mp h
    simp only [firstDup]
    simp [h'.1, ih h'.2]

/-- no `bad` element anywhere after a `mark` element -/
def NoneAfter (mark bad : Ty → Bool) (l : List Ty) : Prop :=
  l.Pairwise (fun a b => ¬ (mark a = true ∧ bad b = true))

theorem firstAfter_none (mark bad : Ty → Bool) : ∀ l : List Ty, NoneAfter mark bad l → firstAfter mark bad l = none := by
  intro l
  induction l with
  | nil => intro _; rfl
  | cons t ts ih =>
    intro h
    have h' := List.pairwise_cons.mp h
    simp only [firstAfter]
    split
    · rename_i hm
      rw [List.find?_eq_none]
      intro x hx hb
      exact h'.1 x hx ⟨hm, hb⟩
    · exact ih h'.2

theorem pairwise_of_right {R : Ty → Ty → Prop} : ∀ l : List Ty, (∀ b ∈ l, ∀ a, R a b) → l.Pairwise R := by
  intro l
  induction l with
  | nil => intro _; exact List.Pairwise.nil
  | cons t ts ih =>
    intro h
    exact List.pairwise_cons.mpr ⟨fun b hb => h b (by simp [hb]) t, ih (fun b hb => h b (by simp [hb]))⟩

theorem NoneAfter.append {mark bad : Ty → Bool} {H T : List Ty} (hH : NoneAfter mark bad H)
    (hT : ∀ t ∈ T, bad t = false) : NoneAfter mark bad (H ++ T) := by
  unfold NoneAfter
  rw [List.pairwise_append]
  refine ⟨hH, pairwise_of_right T (fun b hb a => ?_), fun a _ b hb => ?_⟩
  · rw [hT b hb]; simp
  · rw [hT b hb]; simp

/-! ## Part 2 -/

/-- the order in which `encode_header` writes the chunks whose position the specification constrains -/
def headerOrder : List Ty := [tyIHDR, tyPHYS, tySRGB, tyGAMA, tyCHRM, tyICCP, tyEXIF, tyACTL, tyPLTE, tyTRNS]

/-- the types the placement pass has rules for (IDAT is only a marker) -/
def placedTypes : List Ty := tyPLTE :: tySPLT :: onceTypes

theorem once_placed {t : Ty} (h : onceTypes.contains t = true) : t ∈ placedTypes := by
  simp only [List.contains_eq_mem, decide_eq_true_eq] at h
  simp [placedTypes, h]

theorem prePlte_placed {t : Ty} (h : prePlteTypes.contains t = true) : t ∈ placedTypes := by
  simp only [List.contains_eq_mem, decide_eq_true_eq, prePlteTypes, List.mem_cons, List.not_mem_nil, or_false] at h
  rcases h with h | h | h | h | h | h | h | h <;> subst h <;> decide

theorem postPlte_placed {t : Ty} (h : postPlteTypes.contains t = true) : t ∈ placedTypes := by
  simp only [List.contains_eq_mem, decide_eq_true_eq, postPlteTypes, List.mem_cons, List.not_mem_nil, or_false] at h
  rcases h with h | h | h <;> subst h <;> decide

theorem preIdat_placed {t : Ty} (h : preIdatTypes.contains t = true) : t ∈ placedTypes := by
  simp only [List.contains_eq_mem, decide_eq_true_eq, preIdatTypes, List.mem_cons, List.not_mem_nil, or_false] at h
  rcases h with h | h | h <;> subst h <;> decide

theorem bool_false_of_imp {b : Bool} {p : Prop} (h : b = true → p) (hn : ¬ p) : b = false := by
  cases b with
  | false => rfl
  | true => exact absurd (h rfl) hn

/-- a type list made of a sublist of the header order followed by types without placement rules -/
theorem orderOk_of_shape (H T : List Ty) (hH : H.Sublist headerOrder) (hT : ∀ t ∈ T, t ∉ placedTypes) :
    orderOk (H ++ T) = .ok () := by
  have h1 : firstDup ((H ++ T).filter onceTypes.contains) = none := by
    apply firstDup_none_of_nodup
    have hTn : T.filter onceTypes.contains = [] := by
      rw [List.filter_eq_nil_iff]
      intro t ht hc
      exact hT t ht (once_placed hc)
    rw [List.filter_append, hTn, List.append_nil]
    exact List.Nodup.sublist (hH.filter _) (by decide)
  have h2 : firstAfter (· == tyPLTE) prePlteTypes.contains (H ++ T) = none :=
    firstAfter_none _ _ _ (NoneAfter.append (List.Pairwise.sublist hH (by decide))
      (fun t ht => bool_false_of_imp prePlte_placed (hT t ht)))
  have h3 : firstAfter (· == tyIDAT) (fun t => prePlteTypes.contains t || postPlteTypes.contains t || preIdatTypes.contains t)
      (H ++ T) = none :=
    firstAfter_none _ _ _ (NoneAfter.append (List.Pairwise.sublist hH (by decide))
      (fun t ht => bool_false_of_imp (p := t ∈ placedTypes) (by
        intro h
        simp only [Bool.or_eq_true] at h
        rcases h with (h | h) | h
        · exact prePlte_placed h
        · exact postPlte_placed h
        · exact preIdat_placed h) (hT t ht)))
  have h4 : firstAfter postPlteTypes.contains (· == tyPLTE) (H ++ T) = none :=
    firstAfter_none _ _ _ (NoneAfter.append (List.Pairwise.sublist hH (by decide))
      (fun t ht => bool_false_of_imp (p := t ∈ placedTypes) (by
        intro h
        simp only [beq_iff_eq] at h
        subst h; decide) (hT t ht)))
  simp only [orderOk, h1, h2, h3, h4]

/-! ## Part 3 -/

/-- the header chunks before the text chunks -/
def headerFixed (c : Cfg) : List RChunk :=
  [mkIhdr c] ++ preChunks c.md ++
  (match c.actl with | some (n, p) => [mkActl n p] | none => []) ++
  optChunk tyPLTE c.palette ++ optChunk tyTRNS c.trns

theorem headerChunks_eq (c : Cfg) : headerChunks c = headerFixed c ++ (textPrefix c.texts).1 := rfl

/-- the header chunks before the palette -/
def headerPre (c : Cfg) : List RChunk :=
  [mkIhdr c] ++ preChunks c.md ++ (match c.actl with | some (n, p) => [mkActl n p] | none => [])

theorem headerChunks_eq' (c : Cfg) :
    headerChunks c = headerPre c ++ (optChunk tyPLTE c.palette ++ (optChunk tyTRNS c.trns ++ (textPrefix c.texts).1)) := by
  have : headerChunks c = headerPre c ++ optChunk tyPLTE c.palette ++ optChunk tyTRNS c.trns ++ (textPrefix c.texts).1 := rfl
  rw [this]; simp only [List.append_assoc]

theorem headerPre_mem (c : Cfg) {x : RChunk} (hx : x ∈ headerPre c) :
    x = mkIhdr c ∨ x ∈ preChunks c.md ∨ ∃ n p, c.actl = some (n, p) ∧ x = mkActl n p := by
  simp only [headerPre, List.mem_append, List.mem_singleton] at hx
  rcases hx with (hx | hx) | hx
  · exact Or.inl hx
  · exact Or.inr (Or.inl hx)
  · cases ha : c.actl with
    | none => simp [ha] at hx
    | some a => obtain ⟨n, p⟩ := a; simp only [ha, List.mem_singleton] at hx; exact Or.inr (Or.inr ⟨n, p, rfl, hx⟩)

theorem optChunk_types (ty : Ty) (o : Option Bytes) : ((optChunk ty o).map RChunk.ty).Sublist [ty] := by
  cases o <;> simp [optChunk]

theorem ite_types (p : Prop) [Decidable p] (x : RChunk) :
    ((if p then [x] else []).map RChunk.ty).Sublist [x.ty] := by
  split <;> simp

theorem preChunks_sublist (m : Meta) :
    ((preChunks m).map RChunk.ty).Sublist [tyPHYS, tySRGB, tyGAMA, tyCHRM, tyICCP, tyEXIF] := by
  unfold preChunks
  cases m.srgb with
  | some i =>
    simp only [List.map_append]
    have h1 : ([(⟨tySRGB, [i.toUInt8]⟩ : RChunk)].map RChunk.ty).Sublist [tySRGB] := by simp
    exact (List.Sublist.append (List.Sublist.append (optChunk_types tyPHYS _)
      (List.Sublist.append (List.Sublist.append h1 (ite_types _ ⟨tyGAMA, be32Bytes substGamma⟩))
        (ite_types _ ⟨tyCHRM, substChrm⟩))) (optChunk_types tyEXIF _)).trans (by decide)
  | none =>
    simp only [List.map_append]
    exact (List.Sublist.append (List.Sublist.append (optChunk_types tyPHYS _)
      (List.Sublist.append (List.Sublist.append (optChunk_types tyGAMA _) (optChunk_types tyCHRM _))
        (optChunk_types tyICCP _))) (optChunk_types tyEXIF _)).trans (by decide)

theorem headerFixed_sublist (c : Cfg) : ((headerFixed c).map RChunk.ty).Sublist headerOrder := by
  simp only [headerFixed, List.map_append]
  have ha : ((match c.actl with | some (n, p) => [mkActl n p] | none => []).map RChunk.ty).Sublist [tyACTL] := by
    cases c.actl with
    | none => simp
    | some a => obtain ⟨n, p⟩ := a; simp [mkActl]
  have hi : ([mkIhdr c].map RChunk.ty).Sublist [tyIHDR] := by simp [mkIhdr]
  exact (List.Sublist.append (List.Sublist.append (List.Sublist.append (List.Sublist.append hi (preChunks_sublist c.md)) ha)
      (optChunk_types tyPLTE _)) (optChunk_types tyTRNS _)).trans (by decide)

/-- the types the placement pass and the payload pass of the validator have rules for: a raw chunk
    handed to `Writer::write_chunk` must not be one of them (`tyPrivate_not_ruled`: no private chunk is) -/
def ruledTypes : List Ty := placedTypes ++ [tyTEXT, tyZTXT, tyITXT]

theorem tyPrivate_not_ruled {t : Ty} (h : tyPrivate t = true) : t ∉ ruledTypes := by
  intro hm
  have : tyPrivate t = false := by
    simp only [ruledTypes, placedTypes, onceTypes, List.cons_append, List.nil_append, List.mem_cons, List.not_mem_nil, or_false] at hm
    rcases hm with hm | hm | hm | hm | hm | hm | hm | hm | hm | hm | hm | hm | hm | hm | hm | hm | hm | hm | hm <;> subst hm <;> decide
  rw [this] at h; cases h

/-- what C12 asks of the chunks the caller passes through `Writer::write_chunk`: no type the validator has
    placement or payload rules for -/
def Op.passFree : Op → Prop
  | .chunk ty _ => ty ∉ ruledTypes
  | _ => True

instance (o : Op) : Decidable o.passFree := by
  cases o <;> simp only [Op.passFree] <;> infer_instance

theorem textTypes_not_placed {t : Ty} (h : t ∈ textTypes) : t ∉ placedTypes := by
  simp only [textTypes, List.mem_cons, List.not_mem_nil, or_false] at h
  rcases h with h | h | h <;> subst h <;> decide

theorem BodyChunk.not_placed {ops : List Op} (hr : ∀ op ∈ ops, op.inRange) (hf : ∀ op ∈ ops, op.passFree)
    {b : RChunk} (hb : BodyChunk ops b) : b.ty ∉ placedTypes := by
  cases hb with
  | fctl f => show tyFCTL ∉ placedTypes; decide
  | data ty d h _ =>
    show ty ∉ placedTypes
    rcases h with h | h <;> subst h <;> decide
  | raw ty d hm _ =>
    have := hf _ hm
    simp only [Op.passFree, ruledTypes, List.mem_append, not_or] at this
    exact this.1
  | text _ hm => exact textTypes_not_placed (hr _ hm)
  | iend => show tyIEND ∉ placedTypes; decide

/-- the placement pass accepts `headerChunks c ++ body` -/
theorem order_ok_of_shape (c : Cfg) (ops : List Op) (body : List RChunk)
    (htx : ∀ r, some r ∈ c.texts → r.ty ∈ textTypes)
    (hr : ∀ op ∈ ops, op.inRange) (hf : ∀ op ∈ ops, op.passFree) (hb : ∀ b ∈ body, BodyChunk ops b) :
    orderOk ((headerChunks c ++ body).map (·.ty)) = .ok () := by
  show orderOk ((headerChunks c ++ body).map RChunk.ty) = .ok ()
  rw [headerChunks_eq, List.append_assoc, List.map_append]
  apply orderOk_of_shape _ _ (headerFixed_sublist c)
  intro t ht
  simp only [List.map_append, List.mem_append, List.mem_map] at ht
  rcases ht with ⟨x, hx, rfl⟩ | ⟨x, hx, rfl⟩
  · exact textTypes_not_placed (htx x (textPrefix_mem c.texts x hx))
  · exact (hb x hx).not_placed hr hf

theorem AllAllowed.inRange (E : Codec) : ∀ (ops : List Op) (s : WState), AllAllowed E s ops → ∀ op ∈ ops, op.inRange := by
  intro ops
  induction ops with
  | nil => intro s _ op h; simp at h
  | cons o os ih =>
    intro s h op hm
    simp only [List.mem_cons] at hm
    rcases hm with hm | hm
    · subst hm; exact h.1.1
    · exact ih _ h.2 op hm

end Png.Enc
