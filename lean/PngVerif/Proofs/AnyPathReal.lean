import PngVerif.Proofs.TransformContractRun
import PngVerif.Proofs.ComposeTransformReal
import PngVerif.Proofs.AnyPathStart
/-!
# Whole-frame runs composed with C13, for the executable model's transformation and for any transformation flags

* `anyPath_of_run_real`: `anyPath_of_run` at `Driver.realT` without the contracts `TCfg.Ok` / `TCfg.SnapIndep`
  (`realT.Ok` is false as stated; the `Reader` model cannot tell `realT` from `realTK`, which satisfies both:
  `Proofs/TransformContractRun.lean`);
* `stillT_start`: `still_start` for an arbitrary row transformation (hypotheses of `Png.C08.C08_decode_generic`).
-/
namespace Png.Reader
open Png Png.Framing Png.WellFormed Png.Driver

/-- **`anyPath_of_run` for `Driver.realT`**: no hypothesis about the transformation -/
theorem anyPath_of_run_real (cfg : Cfg) (opts : Options) (limit : Nat) (flags : Flags)
    (input : Bytes) (hlen : input.length < 2 ^ 32) (r0 : R) (p : UInt8) (need : Nat) (rs : List Res) (bs : List Bytes)
    (tailOps : List Op) (tailRes : List Res)
    (h0 : step cfg realT (R.init opts limit flags input input.length) .readInfo = (r0, .header))
    (hpb : r0.pendingBuf = none) (hrem : r0.remaining = rs.length) (hfb : FrameBufs need rs bs)
    (hrun : (run cfg realT r0 (List.replicate rs.length (Op.nextFrame p) ++ tailOps)).2 = rs ++ tailRes)
    (ops : List PathOp) :
    (asmRun cfg realT (List.replicate need p) (r0, Asm.init (List.replicate need p)) ops).2.problem = false ∧
    ∀ k px, (k, px) ∈ (asmRun cfg realT (List.replicate need p) (r0, Asm.init (List.replicate need p)) ops).2.frames →
      bs[k]? = some px := by
  have hk0 := ki_init opts limit flags input input.length
  have hk : KI r0 := ki_of_eq h0 (step_ki cfg realT _ .readInfo hk0)
  have h0' : step cfg realTK (R.init opts limit flags input input.length) .readInfo = (r0, .header) := by
    rw [step_agree realT_agree cfg _ hk0]; exact h0
  have hrun' : (run cfg realTK r0 (List.replicate rs.length (Op.nextFrame p) ++ tailOps)).2 = rs ++ tailRes := by
    rw [run_agree realT_agree cfg r0 hk]; exact hrun
  have := anyPath_of_run cfg realTK_ok realTK_snapIndep opts limit flags input hlen r0 p need rs bs tailOps tailRes h0' hpb
    hrem hfb hrun' ops
  rw [asmRun_agree realT_agree cfg (List.replicate need p) ops (r0, Asm.init (List.replicate need p)) hk] at this
  exact this

/-- the executable model's transformation has the property without any contract hypothesis -/
theorem anyPathOk_real (cfg : Cfg) : AnyPathOk cfg realT :=
  fun opts limit flags input hlen r0 p need rs bs tailOps tailRes h0 hpb hrem hfb hrun ops =>
    anyPath_of_run_real cfg opts limit flags input hlen r0 p need rs bs tailOps tailRes h0 hpb hrem hfb hrun ops

/-- **`read_info` on a well-formed still image, any row transformation** (hypotheses of `Png.C08.C08_decode_generic`
    about the file, and no `acTL` chunk among the chunks before the image data): the reader it returns has no buffer
    pending and exactly one frame remaining -/
theorem stillT_start (cfg : Cfg) (hI : cfg.InflateOk) (hC : cfg.CrcOk) (t : TCfg) (f : Flags)
    (opts : Options) (limit : Nat) (h : Header) (hv : h.Valid) (anc : Bytes) (dA : Dec) (i : Info)
    (hanc : AncTrace cfg (afterIhdr cfg opts limit h) anc dA) (hidle : Idle dA h.info.core) (hiA : dA.info = some i)
    (hstill : i.actl = none)
    (zs : List Bytes) (raw : Bytes) (post : List (ChunkType × Bytes))
    (hzs : zs ≠ []) (hlen : ∀ z ∈ zs, z.length < 2 ^ 32) (hinf : cfg.inflate zs.flatten = some (raw, true))
    (hpost : ∀ c ∈ post, c.1 ≠ IDAT ∧ c.1 < 2 ^ 32 ∧ c.2.length < 2 ^ 32)
    (hod0 : depthOk (t.outColorDepth h.info f).2 = true)
    (hsize : outLineSize t h.info f h.width * h.height < 2 ^ 64)
    (hod1 : depthOk (t.outColorDepth i f).2 = true)
    (hsize2 : outLineSize t i f h.width * h.height < 2 ^ 64)
    (hlimit : outLineSize t i f h.width ≤ dA.limit) :
    ∃ r0,
      step cfg t
        (R.init opts limit f
          (signature ++ chunk cfg IHDR h.body ++ anc ++ idats cfg zs ++ chunks cfg post ++ chunk cfg IEND [])
          (signature ++ chunk cfg IHDR h.body ++ anc ++ idats cfg zs ++ chunks cfg post ++ chunk cfg IEND []).length)
        .readInfo = (r0, .header) ∧
      r0.pendingBuf = none ∧ r0.remaining = 1 := by
  obtain ⟨len', t', rest', htail, h1, h2, h3⟩ := still_tail_shape cfg post hpost
  cases zs with
  | nil => exact absurd rfl hzs
  | cons z zs =>
    have hfile : signature ++ chunk cfg IHDR h.body ++ anc ++ idats cfg (z :: zs) ++ chunks cfg post ++ chunk cfg IEND [] =
        signature ++ (chunk cfg IHDR h.body ++ (anc ++ (idats cfg (z :: zs) ++ (be32Bytes len' ++ typeBytes t' ++ rest')))) := by
      rw [← htail]; simp only [List.append_assoc]
    rw [hfile]
    obtain ⟨j, hj, hcj, hfj⟩ := hidle.info
    have hji : j = i := by rw [hiA] at hj; cases hj; rfl
    subst hji
    have hdimsj : Sub.dims j = (h.width, h.height) := by
      have hc := hcj
      simp only [Info.core, Header.info, Prod.mk.injEq] at hc
      simp [Sub.dims, hfj, hc.1, hc.2.1]
    obtain ⟨r, i, N, dEnd, hri, _, _, _, _, _, hpb, _, _, hiA', hrem, hN, _⟩ :=
      readInfoT_wf cfg hI hC t f opts limit h hv anc dA none hanc hidle z zs raw (hlen z (by simp))
        (fun z' hz' => hlen z' (by simp [hz'])) hinf len' t' rest' h1 h2 h3 hod0 hsize
        (fun i' hi' => by
          have : i' = j := by rw [hiA] at hi'; cases hi'; rfl
          subst this; exact ⟨hod1, hsize2⟩)
        (fun i' hi' => by
          have : i' = j := by rw [hiA] at hi'; cases hi'; rfl
          subst this; rw [hdimsj]; exact hlimit)
    have hij : i = j := by rw [hiA] at hiA'; cases hiA'; rfl
    subst hij
    refine ⟨r, ?_, hpb, ?_⟩
    · rw [step_readInfo_init]; exact hri
    · rw [hrem, hN, hstill]

end Png.Reader
