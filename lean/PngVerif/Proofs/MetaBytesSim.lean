import PngVerif.Proofs.MetaBytesLower
import PngVerif.Proofs.RoundTripMeta
import PngVerif.Proofs.EncodeMeta
/-!
# C17 at the byte level, part 3: the chunk-level decoder model is the `parse_chunk` layer of the byte-level machine

`EncodeMeta.feedChunk cfg d (t, body)` calls `parse_chunk` on `d` with `raw := body`.  The byte-level machine
(`Model/Framing.lean`), fed the serialised chunk `WellFormed.chunk cfg t body` (length, type, body, CRC) in a state
between two chunks, collects the body — growing the chunk buffer if the body is longer, which it charges to the limit
(`growCap`, `Proofs/ComposeAncBig.lean`) — and calls `parse_chunk` on `Dec.atCall`: the same decoder with `curType`,
`crcAcc`, `remaining`, `raw`, `cap` as the collection left them and the limit after the growth.

* `parse_call_eq_feedChunk`: that call and `feedChunk` on the decoder with the limit after the growth have THE SAME
  OUTCOME on the metadata fields (`EncodeMeta.ms`: `info`, `haveIdat`, `haveIccp`, `limit`, `opts`, `seqNo`): the same error,
  or the same values — every chunk type but `fcTL`, every body.
* `ancStepG_iff_feedChunk`: the byte-level step `AncStepG` exists exactly when `feedChunk` (after the growth) succeeds.
* `feedChunk_is_parse_chunk`: from an idle state, reading the serialised chunk takes the byte-level decoder to a state
  whose metadata fields are those `feedChunk` computes (with `anc_step_g`: the trace of `update` calls).
* `sim_step` / `sim_chain`: a run of `feedChunks` (no buffer growth charged) is matched by the byte-level machine
  when the limit left at the end covers three times the chunk bodies: same `info`, the limit lower by the growth
  (`Rel K`), at most twice the bodies.
-/
namespace Png.MetaBytes
open Png Png.Framing Png.EncodeMeta Png.WellFormed Png.RoundTrip

/-- the decoder on which the byte-level machine calls `parse_chunk` for the chunk `(t, body)` that began in the
    between-chunks state `D`, after the chunk buffer grew to `cap'` and the limit fell to `limit'` -/
def atCall (D : Dec) (t : ChunkType) (body : Bytes) (cap' limit' : Nat) : Dec :=
  { D.atParse t body with cap := cap', limit := limit' }

/-- the decoder `feedChunk` calls `parse_chunk` on -/
def fed (d : Dec) (body : Bytes) : Dec := { d with raw := body }

theorem feedChunk_eq (cfg : Framing.Cfg) (d : Dec) (t : ChunkType) (body : Bytes) (hs : skipped body = false) :
    feedChunk cfg d (t, body) = (parseChunk cfg (fed d body) t).map (·.2) := by
  unfold feedChunk
  unfold skipped at hs
  simp only [hs, Bool.false_eq_true, if_false, fed]
  cases parseChunk cfg { d with raw := body } t <;> rfl

/-- every chunk is handed to `parse_chunk` once empty chunks are parsed (`Framing.afterType` does so) -/
theorem not_skipped (body : Bytes) (h : body ≠ [] ∨ parseEmptyChunks = true) : skipped body = false := by
  rcases h with h | h
  · exact skipped_of_ne body h
  · simp [skipped, h]

theorem atCall_eq_graft (D : Dec) (t : ChunkType) (body : Bytes) (cap' limit' : Nat) :
    atCall D t body cap' limit' = (fed { D with limit := limit' } body).graft (atCall D t body cap' limit') :=
  eq_graft rfl rfl rfl rfl rfl rfl rfl

/-- **the byte-level call of `parse_chunk` in terms of the chunk-level one**, every chunk type but `fcTL` -/
theorem parse_call_eq (cfg : Framing.Cfg) (D : Dec) (t : ChunkType) (body : Bytes) (cap' limit' : Nat) (ht : t ≠ fcTL) :
    parseChunk cfg (atCall D t body cap' limit') t =
      (parseChunk cfg (fed { D with limit := limit' } body) t).map
        fun p => (p.1, p.2.graft ((atCall D t body cap' limit').atCrc t)) := by
  rw [atCall_eq_graft, parseChunk_graft cfg _ _ t ht, ← atCall_eq_graft]

theorem ms_graft (d x : Dec) : ms (d.graft x) = ms d := rfl

/-- **`feedChunk` is the `parse_chunk` call of the byte-level machine**: same error, or the same metadata fields -/
theorem parse_call_eq_feedChunk (cfg : Framing.Cfg) (D : Dec) (t : ChunkType) (body : Bytes) (cap' limit' : Nat)
    (ht : t ≠ fcTL) (hs : skipped body = false) :
    (parseChunk cfg (atCall D t body cap' limit') t).map (fun p => ms p.2) =
      (feedChunk cfg { D with limit := limit' } (t, body)).map ms := by
  rw [parse_call_eq cfg D t body cap' limit' ht, feedChunk_eq cfg _ t body hs]
  cases parseChunk cfg (fed { D with limit := limit' } body) t <;> rfl

/-- the byte-level decoder after the chunk, from the chunk-level one: what the collection of the body and the CRC
    leave in the fields `feedChunk` does not model -/
def byteView (D : Dec) (t : ChunkType) (body : Bytes) (cap' : Nat) (dF : Dec) : Dec :=
  (dF.graft ((atCall D t body cap' 0).atCrc t)).withState (some (.u32 .length []))

theorem ms_byteView (D : Dec) (t : ChunkType) (body : Bytes) (cap' : Nat) (dF : Dec) :
    ms (byteView D t body cap' dF) = ms dF := rfl

theorem byteView_cap (D : Dec) (t : ChunkType) (body : Bytes) (cap' : Nat) (dF : Dec) :
    (byteView D t body cap' dF).cap = cap' := rfl

/-- **the byte-level step exists exactly when `feedChunk`, after the growth of the chunk buffer, succeeds**, and then the
    decoder afterwards is `feedChunk`'s with the framing fields filled in -/
theorem ancStepG_iff_feedChunk (cfg : Framing.Cfg) (D D' : Dec) (t : ChunkType) (body : Bytes) (ht : TypeOk t)
    (hlen : body.length < 2 ^ 32) (hs : skipped body = false) :
    AncStepG cfg D t body D' ↔
      ∃ cap' limit' dF, growCap body.length (body.length + 1) D.cap D.limit = some (cap', limit') ∧
        feedChunk cfg { D with limit := limit' } (t, body) = .ok dF ∧ D' = byteView D t body cap' dF := by
  constructor
  · intro h
    obtain ⟨cap', limit', hg, ev, d2, hp, hd'⟩ := h.parse
    have hp' : parseChunk cfg (atCall D t body cap' limit') t = .ok (ev, d2) := hp
    rw [parse_call_eq cfg D t body cap' limit' ht.tfcTL] at hp'
    cases hq : parseChunk cfg (fed { D with limit := limit' } body) t with
    | error e => rw [hq] at hp'; cases hp'
    | ok p =>
      rw [hq] at hp'
      simp only [Except.map, Except.ok.injEq, Prod.mk.injEq] at hp'
      refine ⟨cap', limit', p.2, hg, ?_, ?_⟩
      · rw [feedChunk_eq cfg _ t body hs, hq]; rfl
      · rw [hd', ← hp'.2]; rfl
  · rintro ⟨cap', limit', dF, hg, hf, rfl⟩
    rw [feedChunk_eq cfg _ t body hs] at hf
    cases hq : parseChunk cfg (fed { D with limit := limit' } body) t with
    | error e => rw [hq] at hf; cases hf
    | ok p =>
      rw [hq] at hf
      simp only [Except.map, Except.ok.injEq] at hf
      subst hf
      refine ⟨ht.tIHDR, ht.tIDAT, ht.tfdAT, ht.tIEND, ht.tfcTL, ht.tlt, hlen, cap', limit', hg, p.1,
        p.2.graft ((atCall D t body cap' limit').atCrc t), ?_, rfl⟩
      show parseChunk cfg (atCall D t body cap' limit') t = _
      rw [parse_call_eq cfg D t body cap' limit' ht.tfcTL, hq]; rfl

/-- **`feedChunk` agrees with the byte-level machine on a whole serialised chunk.**  In a between-chunks state `D` that has
    seen `IHDR` (`IdleF`: state `U32 Length`, `info = some i` with header fields `c` and frame control `fo`, no data-chunk
    sequence begun) with a non-empty chunk buffer, for a chunk of any type but `IHDR`, `IDAT`, `fdAT`, `IEND`, `fcTL`
    with a body shorter than `2^32`: if the limit lets the chunk buffer grow to the body (`growCap … = some (cap', limit')`;
    `(D.cap, D.limit)` itself when the body fits) and `feedChunk`, run with what the growth left of the limit, accepts
    `(t, body)` and gives `dF`, then successive `update` calls on `chunk cfg t body` (length, type, body, CRC) followed by
    anything report no image data and end in a between-chunks state `D'` whose `info`, `haveIdat`, `haveIccp`, `limit`,
    `opts`, `seqNo` are those of `dF` (`ms D' = ms dF`); the chunk buffer has the capacity `cap'`. -/
theorem feedChunk_is_parse_chunk (cfg : Framing.Cfg) (hC : cfg.CrcOk) {D dF : Dec} {c : Nat × Nat × Nat × Nat × Bool}
    {fo : Option FrameControl} {t : ChunkType} {body : Bytes} {cap' limit' : Nat}
    (hd : IdleF D c fo) (hcap0 : 0 < D.cap) (ht : TypeOk t) (hlen : body.length < 2 ^ 32) (hs : skipped body = false)
    (hg : growCap body.length (body.length + 1) D.cap D.limit = some (cap', limit'))
    (hf : feedChunk cfg { D with limit := limit' } (t, body) = .ok dF) :
    ∃ D', AncTrace cfg D (chunk cfg t body) D' ∧ IdleF D' c fo ∧ ms D' = ms dF ∧ D'.cap = cap' := by
  have hstep := (ancStepG_iff_feedChunk cfg D (byteView D t body cap' dF) t body ht hlen hs).mpr
    ⟨cap', limit', dF, hg, hf, rfl⟩
  obtain ⟨a1, a2, _⟩ := anc_step_g cfg hC hd hcap0 hstep
  exact ⟨_, a1, a2, rfl, rfl⟩

/-! ## a run of the chunk-level model, matched by the byte-level machine -/

/-- the chunk-level decoder `d` and the byte-level decoder `D` hold the same metadata; the byte-level limit is lower by
    `K` (what the growth of the chunk buffer has cost so far) -/
structure Rel (K : Nat) (d D : Dec) : Prop where
  info : D.info = d.info
  haveIdat : D.haveIdat = d.haveIdat
  haveIccp : D.haveIccp = d.haveIccp
  opts : D.opts = d.opts
  seqNo : D.seqNo = d.seqNo
  limit : D.limit + K = d.limit

theorem feedChunk_limit_le {cfg : Framing.Cfg} {d d' : Dec} {c : Chunk} (h : feedChunk cfg d c = .ok d') :
    d'.limit ≤ d.limit := by
  obtain ⟨t, body⟩ := c
  cases hs : skipped body with
  | true => rw [feedChunk_skipped cfg d t body hs] at h; cases h; exact Nat.le_refl _
  | false =>
    rw [feedChunk_eq cfg d t body hs] at h
    cases hq : parseChunk cfg (fed d body) t with
    | error e => rw [hq] at h; cases h
    | ok p =>
      rw [hq] at h
      simp only [Except.map, Except.ok.injEq] at h
      subst h
      exact (parseChunk_frame (ev := p.1) (d' := p.2) hq).limit

theorem feedChunks_limit_le {cfg : Framing.Cfg} {cs : List Chunk} : ∀ {d d' : Dec}, feedChunks cfg d cs = .ok d' →
    d'.limit ≤ d.limit := by
  induction cs with
  | nil => intro d d' h; cases h; exact Nat.le_refl _
  | cons c cs ih =>
    intro d d' h
    simp only [feedChunks] at h
    cases h1 : feedChunk cfg d c with
    | error e => rw [h1] at h; cases h
    | ok d1 =>
      rw [h1] at h
      exact Nat.le_trans (ih h) (feedChunk_limit_le h1)

/-- **one chunk**: accepted by the chunk-level model, leaving at least `K` plus three times the body of the limit →
    accepted by the byte-level machine, same metadata, at most twice the body charged for the chunk buffer -/
theorem sim_step (cfg : Framing.Cfg) (hB : cfg.BoundedOk) {d D d' : Dec} {K : Nat} {t : ChunkType} {body : Bytes}
    (hrel : Rel K d D) (hcap : 0 < D.cap) (ht : TypeOk t) (hlen : body.length < 2 ^ 32) (hs : skipped body = false)
    (hf : feedChunk cfg d (t, body) = .ok d') (hK : K + 3 * body.length ≤ d'.limit) :
    ∃ D' K', AncStepG cfg D t body D' ∧ Rel K' d' D' ∧ K ≤ K' ∧ K' ≤ K + 2 * body.length ∧ 0 < D'.cap := by
  have hle := feedChunk_limit_le hf
  rw [feedChunk_eq cfg d t body hs] at hf
  cases hq : parseChunk cfg (fed d body) t with
  | error e => rw [hq] at hf; cases hf
  | ok p =>
    rw [hq] at hf
    simp only [Except.map, Except.ok.injEq] at hf
    obtain ⟨ev, d2⟩ := p
    have hf' : d' = d2 := hf.symm
    subst hf'
    have hlimD := hrel.limit
    obtain ⟨cap', limit', hg, hcle, hlim, hle'⟩ := growCap_ok body.length D.cap D.limit hcap (by omega)
    -- what the byte-level decoder has been charged more, this chunk's growth included
    generalize hK' : d.limit - limit' = K'
    have hX : atCall D t body cap' limit' = ((fed d body).lower K').graft (atCall D t body cap' limit') := by
      refine eq_graft rfl hrel.info hrel.haveIdat hrel.haveIccp ?_ hrel.opts hrel.seqNo
      show limit' = d.limit - K'
      omega
    have hl : (fed d body).raw.length + K' ≤ (fed d body).limit := by
      show body.length + K' ≤ d.limit
      omega
    have hp := parseChunk_lower hB K' hl hq (by omega)
    have hp2 : parseChunk cfg (atCall D t body cap' limit') t =
        .ok (ev, (d'.lower K').graft ((atCall D t body cap' limit').atCrc t)) := by
      rw [hX, parseChunk_graft cfg _ _ t ht.tfcTL, hp, ← hX]; rfl
    refine ⟨((d'.lower K').graft ((atCall D t body cap' limit').atCrc t)).withState (some (.u32 .length [])), K', ?_,
      ⟨rfl, rfl, rfl, rfl, rfl, ?_⟩, by omega, by omega, ?_⟩
    · exact ⟨ht.tIHDR, ht.tIDAT, ht.tfdAT, ht.tIEND, ht.tfcTL, ht.tlt, hlen, cap', limit', hg, ev, _, hp2, rfl⟩
    · show d'.limit - K' + K' = d'.limit
      omega
    · show 0 < cap'
      omega

/-- the bytes of the chunk bodies -/
def bodyBytes (cs : List Chunk) : Nat := (cs.map fun c => c.2.length).sum

theorem bodyBytes_cons (c : Chunk) (cs : List Chunk) : bodyBytes (c :: cs) = c.2.length + bodyBytes cs := by
  simp [bodyBytes]

/-- **a run of `feedChunks`** over chunks of types that may stand between `IHDR` and the image data (not `fcTL`), bodies
    shorter than `2^32`: if what it leaves of the limit covers `K` and three times the bodies, the byte-level machine reads
    the same chunks (`AncChunksG`) and ends with the same metadata, at most twice the bodies charged on top -/
theorem sim_chain (cfg : Framing.Cfg) (hB : cfg.BoundedOk) (cs : List Chunk)
    (hcs : ∀ c ∈ cs, TypeOk c.1 ∧ c.2.length < 2 ^ 32 ∧ skipped c.2 = false) :
    ∀ (d D d' : Dec) (K : Nat), Rel K d D → 0 < D.cap → feedChunks cfg d cs = .ok d' →
      K + 3 * bodyBytes cs ≤ d'.limit →
      ∃ D' K', AncChunksG cfg D cs D' ∧ Rel K' d' D' ∧ K ≤ K' ∧ K' ≤ K + 2 * bodyBytes cs ∧ 0 < D'.cap := by
  induction cs with
  | nil =>
    intro d D d' K hrel hcap h _
    cases h
    exact ⟨D, K, .nil D, hrel, Nat.le_refl _, by simp [bodyBytes], hcap⟩
  | cons c cs ih =>
    intro d D d' K hrel hcap h hK
    obtain ⟨t, body⟩ := c
    simp only [feedChunks] at h
    rw [bodyBytes_cons] at hK ⊢
    cases h1 : feedChunk cfg d (t, body) with
    | error e => rw [h1] at h; cases h
    | ok d1 =>
      rw [h1] at h
      simp only at h hK ⊢
      obtain ⟨ht, hlen, hs⟩ : TypeOk t ∧ body.length < 2 ^ 32 ∧ skipped body = false := hcs (t, body) (by simp)
      have hle := feedChunks_limit_le h
      obtain ⟨D1, K1, s1, r1, k1, k2, c1⟩ := sim_step cfg hB hrel hcap ht hlen hs h1 (by omega)
      obtain ⟨D', K', s2, r2, k3, k4, c2⟩ := ih (fun c hc => hcs c (by simp [hc])) d1 D1 d' K1 r1 c1 h (by omega)
      exact ⟨D', K', .cons s1 s2, r2, by omega, by omega, c2⟩

end Png.MetaBytes
