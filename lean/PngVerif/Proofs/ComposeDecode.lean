import PngVerif.Proofs.ComposeFrame
/-!
# Layer L2 of the C01 composition, part 3: `next_frame` and `read_info`; the composition

* `frameInto_trace`: from a reader that stands at the begin of a (sub)frame's image data, `next_frame` returns the
  frame the specification defines (`specFrame`).
* `readInfo_wf`: `read_info` on a well-formed stream.
* `decode_wf`: `[read_info, next_frame]` on a well-formed still image.
-/
namespace Png.Reader
open Png Png.Framing Png.WellFormed

/-- the header of the current (sub)frame: the size of the `fcTL` if there is one, else of `IHDR` -/
def hdrOf (i : Info) : Header :=
  { width := (Sub.dims i).1, height := (Sub.dims i).2, color := i.color, depth := i.depth, interlaced := i.interlaced }

theorem rowBytes_eq (h : Header) (hd : depthOk h.depth = true) (w : Nat) :
    h.rowBytes w = rawRowLengthFromWidth h.color h.depth w - 1 := by
  rw [rowlen_spec _ _ _ hd]
  simp [Header.rowBytes, Header.bitsPerPixel, Nat.mul_assoc]

theorem rowBytes_fun (h : Header) (hd : depthOk h.depth = true) :
    h.rowBytes = fun w => rawRowLengthFromWidth h.color h.depth w - 1 := by
  funext w; exact rowBytes_eq h hd w

/-- a reader that stands at the begin of the image data of a (sub)frame with `Info` `i`, whose data-chunk
    sequence will deliver the inflated stream `raw` -/
structure Ready (cfg : Cfg) (f : Flags) (i : Info) (N : Nat) (r : R) (raw : Bytes) (dEnd : Dec) (bEnd : Bytes) : Prop where
  pend : ∃ pend, Pending cfg i N r pend dEnd bEnd ∧ dataOf pend = raw
  flags : r.flags = f
  sub : r.sub = Sub.new i
  bpp : r.bpp = bytesPerPixel i.color i.depth
  ub : r.ub = UB.new
  cached : CachedLegal r

theorem desc_line (W : Nat) (c : IInfo) : (c.desc W).2.1 = c.line := by cases c <;> rfl

/-- **`next_frame` on one (sub)frame**: with the identity transformation, into any buffer that holds the image, the
    call succeeds, reports the (sub)frame's geometry and leaves `specFrame` in the buffer; afterwards the frame is
    consumed and flushed and the reader stands where the data-chunk sequence ended -/
theorem frameInto_trace (cfg : Cfg) {t : TCfg} {f : Flags} (ht : t.IsIdentity f) (i : Info)
    (hleg : (i.color, i.depth) ∈ legalPairs) (hW : 1 ≤ (Sub.dims i).1) (hH : 1 ≤ (Sub.dims i).2)
    (N : Nat) (raw : Bytes) (dEnd : Dec) (bEnd : Bytes) (r : R) (buf : Bytes)
    (hR : Ready cfg f i N r raw dEnd bEnd) (hraw : RawOk (hdrOf i) raw)
    (hneed : outLineSize t i f i.width * i.height ≤ buf.length) (hfit : (hdrOf i).bufferSize ≤ buf.length) :
    ∃ r' buf', frameInto cfg t r buf =
        (r', .frame { width := (Sub.dims i).1, height := (Sub.dims i).2, color := i.color, depth := i.depth,
                      lineSize := (hdrOf i).lineSize } buf', buf') ∧
      specFrame (hdrOf i) raw buf = some buf' ∧ buf'.length = buf.length ∧
      Pending cfg i N r' [] dEnd bEnd ∧ r'.sub.caf = true ∧ r'.dec = dEnd ∧ avail r' = bEnd ∧ r'.remaining + 1 = N ∧
      SameEnv r r' ∧ CachedLegal r' ∧ r'.sub.cur = none := by
  obtain ⟨pend, hP, hdata⟩ := hR.pend
  obtain ⟨hsw, hsh, hsrl, hscaf⟩ := subNew_dims i
  obtain ⟨hrows, hswf⟩ := rows_new i
  have hd := (legal_pos hleg).2.2
  have hinfo : infoOf r = some i := hP.info
  generalize hWd : (Sub.dims i).1 = W at *
  generalize hHd : (Sub.dims i).2 = H at *
  have hrb : (hdrOf i).rowBytes = fun w => rawRowLengthFromWidth i.color i.depth w - 1 := rowBytes_fun (hdrOf i) hd
  have hLS : (hdrOf i).lineSize = rawRowLengthFromWidth i.color i.depth W - 1 := by
    show (hdrOf i).rowBytes (hdrOf i).width = _
    rw [hrb]; show rawRowLengthFromWidth i.color i.depth (Sub.dims i).1 - 1 = _; rw [hWd]
  have hrl2 := rowlen_ge2 hleg hW
  have hols : outLineSize t i r.flags r.sub.width = rawRowLengthFromWidth i.color i.depth W - 1 := by
    rw [hR.flags, hR.sub, hsw, outLineSize_id ht]
  have hub : r.ub.abs.pending ++ dataOf pend = raw := by
    rw [hR.ub, UB.abs_new]; simpa using hdata
  have hubinv : r.ub.Inv := by rw [hR.ub]; exact UB.inv_new
  have hprev0 : r.ub.prevRow = [] := by rw [hR.ub]; exact prevRow_new
  have hbs : (hdrOf i).bufferSize = H * (rawRowLengthFromWidth i.color i.depth W - 1) := by
    show (hdrOf i).lineSize * (hdrOf i).height = _
    rw [hLS, Nat.mul_comm]; show (Sub.dims i).2 * _ = _; rw [hHd]
  have hscan : (hdrOf i).scanlines = (if i.interlaced then Adam7.specRows W H else (List.range H).map fun l => (0, l, W)) := by
    show (if i.interlaced then Adam7.specRows (Sub.dims i).1 (Sub.dims i).2 else
      (List.range (Sub.dims i).2).map fun l => (0, l, (Sub.dims i).1)) = _
    rw [hWd, hHd]
  have hrawOk : ScanlinesOk (fun w => rawRowLengthFromWidth i.color i.depth w - 1)
      (if i.interlaced then Adam7.specRows W H else (List.range H).map fun l => (0, l, W)) raw := by
    have := hraw; unfold RawOk at this; rw [hrb, hscan] at this; exact this
  have hspecS : specScanlines (hdrOf i) raw = unfilterScanlines (bytesPerPixel i.color i.depth)
      (fun w => rawRowLengthFromWidth i.color i.depth w - 1)
      (if i.interlaced then Adam7.specRows W H else (List.range H).map fun l => (0, l, W)) [] raw := by
    unfold specScanlines; rw [hrb, hscan]; rfl
  -- the body
  have hbody : ∃ r2 buf' pend2, frameBody cfg t r i.interlaced (rawRowLengthFromWidth i.color i.depth W - 1)
        (samplesOf i.color * i.depth) buf = (r2, buf', none) ∧ specFrame (hdrOf i) raw buf = some buf' ∧
      buf'.length = buf.length ∧
      Pending cfg i N r2 pend2 dEnd bEnd ∧ r2.sub.cur = none ∧ SameEnv r r2 ∧ CachedLegal r2 := by
    cases hil : i.interlaced with
    | false =>
      rw [hil] at hrows hrawOk hspecS
      simp only [Bool.false_eq_true, if_false] at hrows hrawOk hspecS
      rw [List.range_eq_range'] at hrows hrawOk hspecS
      -- the first row
      have hH' : H = (H - 1) + 1 := by omega
      have hline : ∃ c, r.sub.cur = some c ∧ c.line = 0 := by
        rw [hR.sub]
        rcases hrows with ⟨c, h1, h2⟩ | ⟨_, h2⟩
        · refine ⟨c, h1, ?_⟩
          rw [hH', List.range'_succ, List.map_cons] at h2
          have := (List.cons.inj h2).1
          rw [← desc_line (Sub.new i).width c, ← this]
        · rw [hH', List.range'_succ] at h2; cases h2
      obtain ⟨c, hcur, hcl⟩ := hline
      obtain ⟨r2, pend2, hrun, hP2, hcur2, hse2, _, _, hca2⟩ :=
        frameRows_trace cfg ht i hleg N dEnd bEnd (fun w => rawRowLengthFromWidth i.color i.depth w - 1)
          (bytesPerPixel i.color i.depth) W H (rawRowLengthFromWidth i.color i.depth W - 1) (by omega) rfl
          (bpp_total _ _ hleg).2 (rowlen_multiple _ _ _ hleg) H 0 r buf raw pend (by omega) hP hub hubinv hR.bpp hR.flags
          hR.cached (by rw [hR.sub, hsrl]; omega) (by rw [hR.sub, hsw]) (by rw [hR.sub]; exact hswf)
          (by rw [hR.sub]; exact hrows) hrawOk (fun _ => hprev0) (fun h => absurd rfl h) (by rw [← hbs]; exact hfit)
      refine ⟨r2, (specScanlines (hdrOf i) raw).flatten ++ buf.drop (hdrOf i).bufferSize, pend2, ?_, ?_, ?_, hP2, hcur2, hse2, hca2⟩
      · unfold frameBody
        simp only [Bool.false_eq_true, if_false, hcur, hcl]
        rw [if_neg (by omega), hR.sub, hsh, Nat.sub_zero]
        rw [hrun, hspecS, hbs, hprev0, Nat.zero_mul, List.take_zero, List.nil_append]
      · unfold specFrame
        have : (hdrOf i).interlaced = false := hil
        simp only [this, Bool.false_eq_true, if_false]
      · rw [hspecS, List.length_append, unfilterScanlines_uniform_length _ _ _ _ _ _ _ hrawOk, List.length_drop, hbs]
        rw [hbs] at hfit
        omega
    | true =>
      rw [hil] at hrows hrawOk hspecS
      simp only [if_true] at hrows hrawOk hspecS
      have hiw0 : IterWf true (Sub.start i) := by
        unfold IterWf
        simp only [Sub.start, IIter.new, hil, if_true]
        exact Adam7.new_wf _ _
      have hadv := advance_ok hiw0
      rw [← subNew_eq] at hadv
      have hpo : PrevOk i.color i.depth r.sub r.ub.prevRow := by
        rw [hprev0]; unfold PrevOk
        split
        · exact Or.inl rfl
        · intro _; exact Or.inl rfl
        · trivial
      obtain ⟨r2, buf2, hrun, hde, hbl2, hP2, hcur2, _, _, _, _, hse2, _, _, hca2⟩ :=
        frameInterlaced_trace cfg ht i hleg N dEnd bEnd W H hH (Adam7.specRows W H) r buf raw pend (7 * H + 8)
          (by have := Adam7.specRows_length_le W H; omega) hP hub hubinv hR.bpp hR.flags hR.cached
          (by rw [hR.sub, hsw]) (by rw [hR.sub, hsh]) (by rw [hR.sub]; exact hadv.1) (by rw [hR.sub]; exact hadv.2) hpo
          (by rw [hR.sub]; exact hrows) hrawOk (by rw [← hbs]; exact hfit)
      refine ⟨r2, buf2, [], ?_, ?_, hbl2, hP2, hcur2, hse2, hca2⟩
      · unfold frameBody
        simp only [if_true]
        rw [hR.sub, hsh]
        exact hrun
      · unfold specFrame
        have : (hdrOf i).interlaced = true := hil
        simp only [this, if_true]
        rw [hLS]
        have hpr : specPassRows (hdrOf i) raw = passRows (Adam7.specRows W H)
            (unfilterScanlines (bytesPerPixel i.color i.depth) (fun w => rawRowLengthFromWidth i.color i.depth w - 1)
              (Adam7.specRows W H) [] raw) := by
          unfold specPassRows passRows
          rw [hspecS, hscan, hil]; rfl
        rw [hpr]
        rw [hprev0] at hde
        exact hde
  obtain ⟨r2, buf', pend2, hrun2, hspec, hblen, hP2, hcur2, hse2, hca2⟩ := hbody
  obtain ⟨r3, hrun3, hP3, hsub3, hdec3, hav3, hrem3, hse3, _, hca3, _⟩ := finishDecoding_trace hP2 hcur2
  refine ⟨r3, buf', ?_, hspec, hblen, hP3, by rw [hsub3], hdec3, hav3, hrem3, hse2.trans hse3,
    fun s0 hs0 => hca2 s0 (hca3 ▸ hs0), by rw [hsub3]; exact hcur2⟩
  unfold frameInto
  simp only [hinfo]
  rw [hR.flags, ht.out]
  rw [if_neg (by omega)]
  simp only
  rw [← hR.flags, hols, hrun2]
  simp only [hrun3]
  rw [hR.sub, hsw, hsh, hLS]


/-! ## `next_frame` as an operation -/

theorem pendingBuf_none_eq {r : R} (h : r.pendingBuf = none) : ({ r with pendingBuf := none } : R) = r := by
  cases r; simp only at h; subst h; rfl

theorem hdrOf_lineSize {t : TCfg} {f : Flags} (ht : t.IsIdentity f) (i : Info) (hd : depthOk i.depth = true) :
    outLineSize t i f (Sub.dims i).1 = (hdrOf i).lineSize := by
  rw [outLineSize_id ht]
  exact (rowBytes_eq (hdrOf i) hd (Sub.dims i).1).symm

/-- **`next_frame`** (the operation of the model: a buffer of the documented size pre-filled with `p`) on a reader
    that stands at the begin of a frame's image data -/
theorem nextFrameOp_ready (cfg : Cfg) {t : TCfg} {f : Flags} (ht : t.IsIdentity f) (i : Info)
    (hleg : (i.color, i.depth) ∈ legalPairs) (hW : 1 ≤ (Sub.dims i).1) (hH : 1 ≤ (Sub.dims i).2)
    (N : Nat) (raw : Bytes) (dEnd : Dec) (bEnd : Bytes) (r : R) (p : UInt8)
    (hR : Ready cfg f i N r raw dEnd bEnd) (hpb : r.pendingBuf = none) (hrd : r.isReader = true)
    (hraw : RawOk (hdrOf i) raw) (hfit : (hdrOf i).bufferSize ≤ outLineSize t i f i.width * i.height) :
    ∃ r' buf', step cfg t r (.nextFrame p) =
        (r', .frame { width := (Sub.dims i).1, height := (Sub.dims i).2, color := i.color, depth := i.depth,
                      lineSize := (hdrOf i).lineSize } buf') ∧
      specFrame (hdrOf i) raw (List.replicate (outLineSize t i f i.width * i.height) p) = some buf' ∧
      buf'.length = outLineSize t i f i.width * i.height ∧
      Pending cfg i N r' [] dEnd bEnd ∧ r'.sub.caf = true ∧ r'.dec = dEnd ∧ avail r' = bEnd ∧ r'.remaining + 1 = N ∧
      SameEnv r r' ∧ CachedLegal r' ∧ r'.sub.cur = none := by
  obtain ⟨pend, hP, hdata⟩ := hR.pend
  have hinfo : infoOf r = some i := hP.info
  have hcaf : r.sub.caf = false := by rw [hR.sub]; exact (subNew_dims i).2.2.2
  have hrem : r.remaining ≠ 0 := by
    rcases hP.caf with ⟨_, _, h⟩ | ⟨h, _, _⟩
    · have := hP.hN; omega
    · rw [hcaf] at h; cases h
  obtain ⟨r', buf', hrun, hspec, hbl, h3, h4, h5, h6, h7, h8, h9, h10⟩ :=
    frameInto_trace cfg ht i hleg hW hH N raw dEnd bEnd r (List.replicate (outLineSize t i f i.width * i.height) p) hR hraw
      (by simp) (by simpa using hfit)
  refine ⟨r', buf', ?_, hspec, by simpa using hbl, h3, h4, h5, h6, h7, h8, h9, h10⟩
  show (if !r.isReader then _ else nextFrameOp cfg t r p) = _
  simp only [hrd, Bool.not_true, Bool.false_eq_true, if_false]
  unfold nextFrameOp
  simp only [hinfo, callerBuf, hpb]
  rw [pendingBuf_none_eq hpb]
  rw [nextFrameBuf_inside cfg t r _ hrem hcaf]
  simp only [hR.flags, hrun]

/-! ## `read_until_image_data` and `read_info` -/

/-- **`Reader::read_until_image_data`** along a trace that ends with the begin of an `IDAT` chunk: the (sub)frame
    is set up from the `Info` the decoder holds then; the line buffer is charged to the limits -/
theorem readUntilImageData_trace (cfg : Cfg) {t : TCfg} {f : Flags} (ht : t.IsIdentity f) {P : Dec → Prop} {r : R}
    {pre : List (Ev × Bytes)} {len : Nat} {tD : ChunkType} {dM : Dec} {bM : Bytes} {i : Info}
    (htD : tD = IDAT ∨ tD = fdAT) (ho : r.dec.out = []) (hpre : ∀ e ∈ pre, PreEv e)
    (htr : Trace cfg P r.dec (avail r) (pre ++ [(.chunkBegin len tD, [])]) dM bM)
    (hi : dM.info = some i) (hleg : (i.color, i.depth) ∈ legalPairs) (hfl : r.flags = f)
    (hlim : (hdrOf i).lineSize ≤ dM.limit) :
    ∃ r', readUntilImageData cfg t r = (r', .ok ()) ∧
      r'.dec = { dM with limit := dM.limit - (hdrOf i).lineSize } ∧ avail r' = bM ∧ r'.sub = Sub.new i ∧
      r'.bpp = bytesPerPixel i.color i.depth ∧ r'.ub = UB.new ∧ SameEnv r r' ∧ r'.cached = r.cached ∧
      r'.remaining = r.remaining := by
  have hlt : pre.length < fuelOf r := by
    have h1 := htr.length_le
    have h2 := fuelOf_ge r
    simp only [M, List.length_append, List.length_cons, List.length_nil] at h1 h2
    omega
  obtain ⟨r1, hrun, ha, ho1⟩ := rdReadUntilImageData_trace htD pre r (fuelOf r) hlt ho hpre htr
  have hfr := ha.frame
  have hse := hfr.sameEnv
  unfold Frame at hfr
  have hd := (legal_pos hleg).2.2
  have hi1 : infoOf r1 = some i := by show r1.dec.info = some i; rw [ha.dec]; exact hi
  have hbpp := (bpp_total _ _ hleg).1
  have hfl1 : r1.flags = f := by rw [hse.flags]; exact hfl
  have hw : (Sub.new i).width = (Sub.dims i).1 := (subNew_dims i).1
  have hols : outLineSize t i f (Sub.new i).width = (hdrOf i).lineSize := by rw [hw]; exact hdrOf_lineSize ht i hd
  refine ⟨{ ({ r1 with sub := Sub.new i, bpp := bytesPerPixel i.color i.depth, ub := UB.new } : R) with
    dec := { r1.dec with limit := r1.dec.limit - (hdrOf i).lineSize } }, ?_, ?_, ?_, rfl, rfl, rfl,
    ⟨hse.input, hse.visible, hse.flags, hse.isReader, hse.finished, hse.dead, hse.pendingBuf⟩, ?_, ?_⟩
  · unfold readUntilImageData
    rw [hrun]
    simp only [hi1, hbpp]
    unfold reserveBytes
    simp only [hfl1, hols]
    rw [if_pos (by rw [ha.dec]; exact hlim)]
  · show ({ r1.dec with limit := r1.dec.limit - (hdrOf i).lineSize } : Dec) = _
    rw [ha.dec]
  · rw [← ha.avail]; rfl
  · show r1.cached = r.cached; rw [hfr]
  · show r1.remaining = r.remaining; rw [hfr]


theorem hdrOf_eq {i : Info} {h : Header} (hc : i.core = h.info.core) (hf : i.fctl = none) : hdrOf i = h := by
  simp only [Info.core, Header.info, Prod.mk.injEq] at hc
  obtain ⟨h1, h2, h3, h4, h5⟩ := hc
  cases h
  simp only [hdrOf, Sub.dims, hf] at *
  simp [h1, h2, h3, h4, h5]

theorem avail_init (opts : Options) (limit : Nat) (f : Flags) (file : Bytes) :
    avail (R.init opts limit f file file.length) = file := by
  simp [avail, R.init]

/-- **`read_info` on a well-formed stream** (any chunks `anc` between `IHDR` and the first `IDAT` that are read as
    `AncTrace` says, leaving the decoder idle with the header's fields and the frame control `fo`): it succeeds; the
    reader then stands at the begin of the image data, whose chunks will deliver the inflated stream `raw`; `N` frames
    remain (`acTL`'s count, plus one if the `IDAT` image is not part of the animation) -/
theorem readInfo_wf (cfg : Cfg) (hI : cfg.InflateOk) (hC : cfg.CrcOk) {t : TCfg} {f : Flags} (ht : t.IsIdentity f)
    (opts : Options) (limit : Nat) (h : Header) (hv : h.Valid) (anc : Bytes) (dA : Dec) (fo : Option FrameControl)
    (hanc : AncTrace cfg (afterIhdr cfg opts limit h) anc dA) (hidle : IdleF dA h.info.core fo)
    (z : Bytes) (zs : List Bytes) (raw : Bytes) (hz : z.length < 2 ^ 32) (hzs : ∀ z' ∈ zs, z'.length < 2 ^ 32)
    (hinf : cfg.inflate (z :: zs).flatten = some (raw, true))
    (len' t' : Nat) (rest' : Bytes) (hlen' : len' < 2 ^ 32) (ht' : t' < 2 ^ 32) (hne' : t' ≠ IDAT)
    (hsize : h.lineSize * h.height < 2 ^ 64)
    (hlimit : ∀ i, i.core = h.info.core → i.fctl = fo → (hdrOf i).lineSize ≤ dA.limit) :
    ∃ r i N dEnd,
      readInfo cfg t (R.init opts limit f
        (signature ++ (chunk cfg IHDR h.body ++ (anc ++ (idats cfg (z :: zs) ++ (be32Bytes len' ++ typeBytes t' ++ rest')))))
        (signature ++ (chunk cfg IHDR h.body ++ (anc ++ (idats cfg (z :: zs) ++ (be32Bytes len' ++ typeBytes t' ++ rest'))))).length)
        = (r, .header) ∧
      Ready cfg f i N r raw dEnd rest' ∧ i.core = h.info.core ∧ i.fctl = fo ∧ Flushed dEnd i len' t' ∧
      r.isReader = true ∧ r.pendingBuf = none ∧ r.dead = false ∧ r.finished = false ∧
      dA.info = some i ∧ r.remaining = N ∧
      N = (match i.actl with
        | none => 1
        | some (nf, _) => max 1 (if i.fctl.isNone then nf + 1 else nf)) ∧
      dEnd.seqNo = dA.seqNo ∧ dEnd.cap = dA.cap ∧ dEnd.opts = dA.opts ∧ dEnd.limit = dA.limit - (hdrOf i).lineSize := by
  generalize hfile : (signature ++ (chunk cfg IHDR h.body ++ (anc ++ (idats cfg (z :: zs) ++
    (be32Bytes len' ++ typeBytes t' ++ rest'))))) = file
  generalize hr0 : R.init opts limit f file file.length = r0
  have hav0 : avail r0 = file := by rw [← hr0]; exact avail_init _ _ _ _
  have hd0 : r0.dec = dec0 opts limit := by rw [← hr0]; rfl
  obtain ⟨hw1, hw2, hh1, hh2, hleg⟩ := hv
  have hd := (legal_pos hleg).2.2
  -- the bytes behind `IHDR`
  generalize htbZ : z ++ (be32Bytes (cfg.crc (typeBytes IDAT ++ z)) ++ (idats cfg zs ++ (be32Bytes len' ++ typeBytes t' ++ rest'))) = restZ
  have htb : anc ++ (idats cfg (z :: zs) ++ (be32Bytes len' ++ typeBytes t' ++ rest')) =
      anc ++ (be32Bytes z.length ++ typeBytes IDAT ++ restZ) := by
    rw [idats_cons, List.append_assoc, chunk_append, htbZ]
  obtain ⟨d1, d2, T1, ho1, T2, ho2, T3⟩ := ihdr_trace cfg hC opts limit h ⟨hw1, hw2, hh1, hh2, hleg⟩
    (anc ++ (idats cfg (z :: zs) ++ (be32Bytes len' ++ typeBytes t' ++ rest')))
  rw [hfile] at T1
  -- `read_header_info`
  have hF : fuelOf r0 = (fuelOf r0 - 3) + 3 := by simp only [fuelOf]; omega
  obtain ⟨r1, hrh, ha1, hi1, hor1⟩ := readHeaderInfo_trace (cfg := cfg) (r := r0) (fuelOf r0 - 3)
    (by rw [hd0]; rfl) (by rw [hd0]; rfl) (e1 := .chunkBegin 13 IHDR) (by simp)
    (e2 := .header h.width h.height h.depth h.color h.interlaced) (by simp)
    (by rw [hd0, hav0]; exact T1) ho1 T2
  rw [← hF] at hrh
  have hse1 := ha1.frame.sameEnv
  have hfr1 := ha1.frame
  unfold Frame at hfr1
  -- the size checks
  have hfl1 : r1.flags = f := by rw [hse1.flags, ← hr0]; rfl
  have hck : checkedRawRowLength h.color h.depth h.width = some (rawRowLengthFromWidth h.color h.depth h.width) := by
    obtain ⟨n, hn⟩ := rowlen_checked_some h.color h.depth h.width hw2 hd
    rw [hn, rowlen_checked _ _ _ hd n hn]
  have hls : rawRowLengthFromWidth h.color h.depth h.width - 1 = h.lineSize := (rowBytes_eq h hd h.width).symm
  -- `read_until_image_data`
  obtain ⟨evA, TA, hpA⟩ := hanc (be32Bytes z.length ++ typeBytes IDAT ++ restZ) (head8_ne_nil _ _ _)
  obtain ⟨dM, i, TB, hmid, hcore, hfctl, hlimM, hinfM, hseqM, hkM⟩ := first_idat_begin cfg (rest := restZ) hidle hz
  have hcore' := hcore
  simp only [Info.core, Header.info, Prod.mk.injEq] at hcore'
  obtain ⟨c1, c2, c3, c4, c5⟩ := hcore'
  have hlegi : (i.color, i.depth) ∈ legalPairs := by rw [c3, c4]; exact hleg
  rw [htb] at T3
  have Tpre : Trace cfg (fun _ => True) d2
      (be32Bytes (cfg.crc (typeBytes IHDR ++ h.body)) ++ (anc ++ (be32Bytes z.length ++ typeBytes IDAT ++ restZ)))
      (([(.chunkComplete (cfg.crc (typeBytes IHDR ++ h.body)) IHDR, [])] ++ evA) ++ [(.chunkBegin z.length IDAT, [])]) dM restZ :=
    (T3.append TA).append TB
  have hpre : ∀ e ∈ [(Ev.chunkComplete (cfg.crc (typeBytes IHDR ++ h.body)) IHDR, ([] : Bytes))] ++ evA, PreEv e := by
    intro e he
    rcases List.mem_append.mp he with h1 | h1
    · simp only [List.mem_cons, List.mem_nil_iff, or_false] at h1
      subst h1
      exact ⟨rfl, by simp, fun _ _ hx => by cases hx⟩
    · exact hpA e h1
  obtain ⟨r1', hr1'⟩ : ∃ x : R, x = { r1 with isReader := true } := ⟨_, rfl⟩
  have hdec1' : r1'.dec = d2 := by rw [hr1']; exact ha1.dec
  have hav1' : avail r1' = be32Bytes (cfg.crc (typeBytes IHDR ++ h.body)) ++
      (anc ++ (idats cfg (z :: zs) ++ (be32Bytes len' ++ typeBytes t' ++ rest'))) := by rw [hr1']; exact ha1.avail
  rw [htb] at hav1'
  have hfl1' : r1'.flags = f := by rw [hr1']; exact hfl1
  obtain ⟨r2, hru, hdec2, hav2, hsub2, hbpp2, hub2, hse2, hca2, hrem2⟩ :=
    readUntilImageData_trace cfg ht (P := fun _ => True) (r := r1') (i := i) (Or.inl rfl)
      (by rw [hr1']; exact hor1) hpre (by rw [hdec1', hav1']; exact Tpre) hmid.info hlegi hfl1'
      (by rw [hlimM]; exact hlimit i hcore hfctl)
  -- the image data
  obtain ⟨evs, dEnd, TD, hev, hdata, hflu, hkeep, hseq⟩ := idat_sequence_trace cfg hI hC i raw rest' len' t' hlen' ht' hne' z zs
    { dM with limit := dM.limit - (hdrOf i).lineSize } (hmid.setLimit _) hzs hinf
  rw [htbZ] at TD
  -- remaining frames
  generalize hN : (match i.actl with
    | none => 1
    | some (nf, _) => max 1 (if i.fctl.isNone then nf + 1 else nf)) = N
  have hN1 : 1 ≤ N := by
    rw [← hN]; split
    · exact Nat.le_refl _
    · exact Nat.le_max_left _ _
  have hi2 : infoOf r2 = some i := by show r2.dec.info = some i; rw [hdec2]; exact hmid.info
  refine ⟨{ r2 with remaining := N }, i, N, dEnd, ?_, ?_, hcore, hfctl, hflu, ?_, ?_, ?_, ?_, ?_, rfl, ?_, ?_, ?_, ?_, ?_⟩
  · -- the call
    unfold readInfo readInfo'
    have hnr : r0.isReader = false := by rw [← hr0]; rfl
    simp only [hnr, Bool.false_eq_true, if_false, hrh]
    have hinfo1 : infoOf r1 = some h.info := hi1
    have hocd : t.outColorDepth h.info r1.flags = (h.color, h.depth) := by rw [hfl1, ht.out]; rfl
    simp only [hinfo1, hocd]
    have hw' : h.info.width = h.width := rfl
    have hc' : h.info.color = h.color := rfl
    have hdp' : h.info.depth = h.depth := rfl
    have hh' : h.info.height = h.height := rfl
    simp only [hw', hc', hdp', hh', hck, hls]
    rw [if_neg (by omega), ← hr1', hru]
    simp only [hi2]
    have hfit : sizeFits (t.outColorDepth i r2.flags) h.width h.height = true := by
      rw [hse2.flags, hfl1', ht.out, c3, c4]
      unfold sizeFits
      simp only [hck, hls, decide_eq_true_eq]
      omega
    rw [if_pos hfit]
    subst hN
    rfl
  · refine ⟨⟨evs, ⟨?_, hi2, ?_, Or.inl ⟨?_, hev, rfl⟩, hN1⟩, hdata⟩, ?_, hsub2, hbpp2, hub2, ?_⟩
    · show r2.dec.out = []; rw [hdec2]; exact hmid.out
    · show Trace cfg _ r2.dec (avail r2) evs dEnd rest'
      rw [hdec2, hav2]; exact TD
    · show r2.sub.caf = false; rw [hsub2]; exact (subNew_dims i).2.2.2
    · show r2.flags = f; rw [hse2.flags]; exact hfl1'
    · intro s0 hs0
      have : r2.cached = none := by rw [hca2, hr1']; show r1.cached = none; rw [hfr1, ← hr0]; rfl
      have hs0' : r2.cached = some s0 := hs0
      rw [this] at hs0'; cases hs0'
  · show r2.isReader = true; rw [hse2.isReader, hr1']
  · show r2.pendingBuf = none; rw [hse2.pendingBuf, hr1']; show r1.pendingBuf = none; rw [hse1.pendingBuf, ← hr0]; rfl
  · show r2.dead = false; rw [hse2.dead, hr1']; show r1.dead = false; rw [hse1.dead, ← hr0]; rfl
  · show r2.finished = false; rw [hse2.finished, hr1']; show r1.finished = false; rw [hse1.finished, ← hr0]; rfl
  · rw [← hinfM]; exact hmid.info
  · exact hN.symm
  · rw [hseq]; exact hseqM
  · rw [hkeep.cap]; exact hkM.cap
  · rw [hkeep.opts]; exact hkM.opts
  · rw [hkeep.limit]; show dM.limit - _ = _; rw [hlimM]

theorem run_two (cfg : Cfg) (t : TCfg) (r : R) (a b : Op) :
    run cfg t r [a, b] = ((step cfg t (step cfg t r a).1 b).1, [(step cfg t r a).2, (step cfg t (step cfg t r a).1 b).2]) := by
  simp [run]

theorem specFrame_eq_specPixels (h : Header) (raw bg : Bytes) (hl : bg.length = h.bufferSize) :
    specFrame h raw bg = specPixels h raw bg := by
  unfold specFrame specPixels
  cases h.interlaced with
  | true => rfl
  | false => simp only [Bool.false_eq_true, if_false]; rw [List.drop_of_length_le (by omega), List.append_nil]

/-- **`[read_info, next_frame]` on a well-formed still image** with the identity transformation -/
theorem decode_wf (cfg : Cfg) (hI : cfg.InflateOk) (hC : cfg.CrcOk) {t : TCfg} {f : Flags} (ht : t.IsIdentity f)
    (opts : Options) (limit : Nat) (h : Header) (hv : h.Valid) (anc : Bytes) (dA : Dec)
    (hanc : AncTrace cfg (afterIhdr cfg opts limit h) anc dA) (hidle : Idle dA h.info.core)
    (z : Bytes) (zs : List Bytes) (raw : Bytes) (hz : z.length < 2 ^ 32) (hzs : ∀ z' ∈ zs, z'.length < 2 ^ 32)
    (hinf : cfg.inflate (z :: zs).flatten = some (raw, true)) (hraw : RawOk h raw)
    (len' t' : Nat) (rest' : Bytes) (hlen' : len' < 2 ^ 32) (ht' : t' < 2 ^ 32) (hne' : t' ≠ IDAT)
    (hsize : h.lineSize * h.height < 2 ^ 64) (hlimit : h.lineSize ≤ dA.limit) (p : UInt8) :
    ∃ buf,
      (run cfg t (R.init opts limit f
        (signature ++ (chunk cfg IHDR h.body ++ (anc ++ (idats cfg (z :: zs) ++ (be32Bytes len' ++ typeBytes t' ++ rest')))))
        (signature ++ (chunk cfg IHDR h.body ++ (anc ++ (idats cfg (z :: zs) ++ (be32Bytes len' ++ typeBytes t' ++ rest'))))).length)
        [.readInfo, .nextFrame p]).2 =
        [.header, .frame { width := h.width, height := h.height, color := h.color, depth := h.depth,
                           lineSize := h.lineSize } buf] ∧
      specPixels h raw (List.replicate h.bufferSize p) = some buf ∧ buf.length = h.bufferSize := by
  obtain ⟨r, i, N, dEnd, hri, hR, hcore, hfctl, _, hrd, hpb, _⟩ :=
    readInfo_wf cfg hI hC ht opts limit h hv anc dA none hanc hidle z zs raw hz hzs hinf len' t' rest' hlen' ht' hne' hsize
      (fun j hc hf => by rw [hdrOf_eq hc hf]; exact hlimit)
  have hhdr : hdrOf i = h := hdrOf_eq hcore hfctl
  have hcore' := hcore
  simp only [Info.core, Header.info, Prod.mk.injEq] at hcore'
  obtain ⟨c1, c2, c3, c4, c5⟩ := hcore'
  obtain ⟨hw1, hw2, hh1, hh2, hleg⟩ := hv
  have hlegi : (i.color, i.depth) ∈ legalPairs := by rw [c3, c4]; exact hleg
  have hd := (legal_pos hlegi).2.2
  have hdims : Sub.dims i = (h.width, h.height) := by simp [Sub.dims, hfctl, c1, c2]
  have hsz : outLineSize t i f i.width * i.height = h.bufferSize := by
    have := hdrOf_lineSize ht i hd
    rw [hdims, hhdr] at this
    simp only at this
    rw [c1, c2, this]; rfl
  obtain ⟨r', buf', hstep, hspec, hblen, _⟩ := nextFrameOp_ready cfg ht i hlegi (by rw [hdims]; exact hw1) (by rw [hdims]; exact hh1)
    N raw dEnd rest' r p hR hpb hrd (by rw [hhdr]; exact hraw) (by rw [hhdr, hsz]; exact Nat.le_refl _)
  refine ⟨buf', ?_, ?_, by rw [hblen, hsz]⟩
  · generalize (signature ++ (chunk cfg IHDR h.body ++ (anc ++ (idats cfg (z :: zs) ++
      (be32Bytes len' ++ typeBytes t' ++ rest'))))) = file at hri ⊢
    have hdead : (R.init opts limit f file file.length).dead = false := rfl
    generalize R.init opts limit f file file.length = r0 at hri hdead ⊢
    have hs1 : step cfg t r0 .readInfo = (r, .header) := by
      show (if r0.dead then _ else readInfo cfg t r0) = _
      rw [hdead]; exact hri
    rw [run_two, hs1]
    simp only
    rw [hstep, hdims, hhdr, c3, c4]
  · rw [hhdr, hsz] at hspec
    rw [← specFrame_eq_specPixels h raw _ (by simp)]
    exact hspec

end Png.Reader
