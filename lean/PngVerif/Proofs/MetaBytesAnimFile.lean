import PngVerif.Proofs.MetaBytesAnim
import PngVerif.Proofs.RoundTripAnimSpec
/-!
# C17 at the byte level, part 8: `read_info` on the file the writer model leaves for an ANIMATION

`Enc.anim_run` (`Proofs/RoundTripAnimEnc.lean`): the run `write_header`, per frame setter calls and `write_image_data`, `finish`
of an animated configuration leaves the chunks `Enc.animChunks`: the header chunks (`acTL` among them), the `fcTL` of the
first frame (the configured frame control after the setter calls of that frame; sequence number 0), its `IDAT` chunks, the
later frames, `IEND`.  `animChunks_layout`: these bytes are of the layout `animated_read_info` is about;
`anim_file_read_info`: for the writer configuration `encCfg z m (some f0) false validate` of an animated metadata configuration
`m`, `read_info` on the sink's bytes leaves `expectedInfo m` — `acTL` values included — with the first frame control.
-/
namespace Png.MetaBytes
open Png Png.Framing Png.EncodeMeta Png.WellFormed Png.RoundTrip Png.Val Png.Enc Png.Reader

/-- what follows the first frame's image data begins like a chunk that is not `IDAT`: the next `fcTL`, or `IEND` -/
theorem later_head (cfg : Framing.Cfg) (hcrc : ∀ b, cfg.crc b = crcOfList b) (E : Codec) (c : Enc.Cfg) (f : FC)
    (frs : List Enc.Frame) :
    ∃ len' t' rest', ((laterChunks E c f frs ++ [iendChunk]).map chunkBytes).flatten =
        be32Bytes len' ++ typeBytes t' ++ rest' ∧ len' < 2 ^ 32 ∧ t' < 2 ^ 32 ∧ t' ≠ IDAT := by
  cases frs with
  | nil =>
    refine ⟨0, IEND, [] ++ (be32Bytes (cfg.crc (typeBytes IEND ++ [])) ++ []), ?_, by decide, IEND_lt,
      fun h => IDAT_ne_IEND' h.symm⟩
    simp only [laterChunks, List.nil_append, List.map_cons, List.map_nil, List.flatten_cons, List.flatten_nil,
      chunkBytes_eq cfg hcrc]
    have : iendChunk.ty = IEND := by decide +kernel
    rw [this, chunk_append]
    rfl
  | cons fr rest =>
    simp only [laterChunks, List.cons_append, List.map_cons, List.flatten_cons, chunkBytes_eq cfg hcrc, mkFctl_eq,
      ty_eqs_anim.2.1]
    exact ⟨_, fcTL, _, chunk_append cfg fcTL _ _, by rw [fctlBody_length]; decide, fcTL_lt, by decide +kernel⟩

/-- **the bytes of an animation's chunks, laid out**: signature, the header chunks, the first `fcTL`, the `IDAT` chunks, then
    something that begins like another chunk -/
theorem animChunks_layout (cfg : Framing.Cfg) (hcrc : ∀ b, cfg.crc b = crcOfList b) (E : Codec) (c : Enc.Cfg) (f0 : FC)
    (fr0 : Enc.Frame) (frs : List Enc.Frame) :
    ∃ len' t' rest', fileBytes (animChunks E c f0 fr0 frs) =
        signature ++ (chunks cfg (pairs (headerChunks c)) ++
          (chunk cfg fcTL (fctlBody (fcDec (fcOf c.width c.height f0 fr0.pre))) ++
            (idats cfg (chunksOf maxIdatChunkLen (c.zstream E fr0.data)) ++ (be32Bytes len' ++ typeBytes t' ++ rest')))) ∧
      len' < 2 ^ 32 ∧ t' < 2 ^ 32 ∧ t' ≠ IDAT := by
  obtain ⟨len', t', rest', hl, h1, h2, h3⟩ := later_head cfg hcrc E c { fcOf c.width c.height f0 fr0.pre with seq := 1 } frs
  refine ⟨len', t', rest', ?_, h1, h2, h3⟩
  rw [← hl]
  simp only [fileBytes, animChunks, List.map_append, List.map_cons, List.flatten_append, List.flatten_cons,
    chunks_eq cfg hcrc, idats_eq, chunkBytes_eq cfg hcrc, RoundTrip.signature_eq, mkFctl_eq, ty_eqs_anim.2.1, List.append_assoc,
    List.map_nil, List.flatten_nil, List.append_nil]

/-- the decoder-side frame control of a writer-side one that `write_image_data` can emit first -/
theorem fcDec_ok {W H : Nat} {f : FC} (hin : FcIn W H f) (hfine : FcFine f) (hseq : f.seq = 0) (hW : W < 2 ^ 32)
    (hH : H < 2 ^ 32) : FcInRange (fcDec f) ∧ FcInv W H (fcDec f) ∧ (fcDec f).seq = 0 := by
  obtain ⟨a, b, c, d⟩ := hin
  obtain ⟨e, g, h, i⟩ := hfine
  refine ⟨⟨?_, ?_, ?_, ?_, ?_, e, g, h, i⟩, ⟨?_, ?_, c, d⟩, hseq⟩
  · show (fcDec f).seq < 4294967296; rw [show (fcDec f).seq = f.seq from rfl, hseq]; decide
  · show f.w < 4294967296; omega
  · show f.h < 4294967296; omega
  · show f.x < 4294967296; omega
  · show f.y < 4294967296; omega
  · show f.w ≠ 0; omega
  · show f.h ≠ 0; omega

/-- **`read_info` on the file the writer model leaves for an animation**: see `C17.C17_anim_file_roundtrip` -/
theorem anim_file_read_info (cfg : Framing.Cfg) (t : TCfg) (f : Flags) (opts : Options) (limit : Nat) (z : ZCodec)
    (compress : Bytes → Bytes) (choose : Bytes → Bytes → FilterType) (m : MetaConfig) (validate : Bool) (n plays : Nat)
    (f0 : FC) (fr0 : Enc.Frame) (frs : List Enc.Frame)
    (hI : cfg.InflateOk) (hcrc : ∀ b, cfg.crc b = crcOfList b) (ht : t.IsIdentity f)
    (hz : z.Ok) (hc : CfgAgrees cfg z) (hpe : parseEmptyChunks = true)
    (hr : m.InRange) (cs : List Chunk) (h : encodeHeaderChunks z m = .ok cs) (hlen32 : ∀ c ∈ cs, c.2.length < 2 ^ 32)
    (hanim : (encCfg z m (some f0) false validate).Anim n plays f0) (hn : n = frs.length + 1)
    (h0 : FirstOk (encCfg z m (some f0) false validate) f0 fr0)
    (hl : LaterOk (scanCodec compress choose) (encCfg z m (some f0) false validate)
      { fcOf m.width m.height f0 fr0.pre with seq := 1 } frs)
    (ho1 : opts.ignoreText = false) (ho2 : opts.ignoreIccp = false)
    (hsz : (encCfg z m (some f0) false validate).rowLen * m.height < 2 ^ 64)
    (hnil : ∀ o, cfg.inflate [] ≠ some (o, true))
    (hinf : cfg.inflate (compress (rawOf choose (encCfg z m (some f0) false validate) fr0.data)) =
      some (rawOf choose (encCfg z m (some f0) false validate) fr0.data, true))
    (hlimit : (encCfg z m (some f0) false validate).rowLen + m.budget z + 3 * bodyBytes cs.tail ≤ limit) :
    ∃ rs r tcs,
      (runWriter (scanCodec compress choose) (encCfg z m (some f0) false validate) {} (animOps (fr0 :: frs)) .finish).header =
        .ok ∧
      (runWriter (scanCodec compress choose) (encCfg z m (some f0) false validate) {} (animOps (fr0 :: frs)) .finish).results =
        rs ∧ ResultsOk (animOps (fr0 :: frs)) rs ∧
      (runWriter (scanCodec compress choose) (encCfg z m (some f0) false validate) {} (animOps (fr0 :: frs)) .finish).final =
        some .ok ∧
      Reader.run cfg t
        (R.init opts limit f
          (runWriter (scanCodec compress choose) (encCfg z m (some f0) false validate) {} (animOps (fr0 :: frs))
            .finish).state.sink.bytes
          (runWriter (scanCodec compress choose) (encCfg z m (some f0) false validate) {} (animOps (fr0 :: frs))
            .finish).state.sink.bytes.length)
        [.readInfo] = (r, [.header]) ∧
      r.dec.info = some { expectedInfo m with text := tcs, fctl := some (fcDec (fcOf m.width m.height f0 fr0.pre)) } ∧
      tcs.map viewText = expectedViews z m := by
  generalize hcdef : encCfg z m (some f0) false validate = c at *
  have hcw : c.width = m.width := by rw [← hcdef]; rfl
  have hch : c.height = m.height := by rw [← hcdef]; rfl
  have hC := crcOk_of_eq cfg hcrc
  -- the writer's run
  obtain ⟨rs, r1, r2, r3, r4, hlog⟩ := anim_run (scanCodec compress choose) c n plays f0 hanim (by rw [← hcdef]; rfl) fr0 frs
    hn h0 (by rw [hcw, hch]; exact hl) (by rw [hch]; exact hsz)
  obtain ⟨hb, _⟩ := bytes_of_fullLog _ _ hlog
  -- the layout of the file
  obtain ⟨len', t', rest', hlay, hl1, hl2, hl3⟩ := animChunks_layout cfg hcrc (scanCodec compress choose) c f0 fr0 frs
  have hcs : pairs (headerChunks c) = cs := by rw [← hcdef]; exact (encCfg_headerChunks z m (some f0) false validate hr cs h).1
  rw [hcs, zstream_scanCodec, hcw, hch, ← encodeFctl_eq] at hlay
  -- the first frame control
  obtain ⟨hin', hfine', hseq'⟩ := fcOf_facts (W := m.width) (H := m.height) fr0.pre f0
    (by rw [← hcw, ← hch]; exact hanim.rect) hanim.fine (fun o ho => (h0.pre o ho).2)
  obtain ⟨g1, g2, g3⟩ := fcDec_ok hin' hfine' (hseq'.trans hanim.seq0) hr.1 hr.2.1
  -- the image data of the first frame
  have hzne : compress (rawOf choose c fr0.data) ≠ [] := by
    intro h0'; rw [h0'] at hinf; exact hnil _ hinf
  obtain ⟨z1, z2, z3⟩ := idat_cut _ hzne
  have hls : (hdrOf m).lineSize = c.rowLen := by
    have := headerOf_lineSize (c := c) hanim.depth
    rw [← this, ← hcdef]; rfl
  obtain ⟨r, tcs, hrun, hinfo, hviews⟩ := animated_read_info cfg t f opts limit z m
    (fcDec (fcOf m.width m.height f0 fr0.pre)) _ (rawOf choose c fr0.data) len' t' rest' hI hC ht hz hc hpe hr cs h hlen32
    g1 g2 g3 ho1 ho2 z1 z2 (by rw [z3]; exact hinf) hl1 hl2 hl3 (by rw [hls]; exact hsz) (by rw [hls]; exact hlimit)
  refine ⟨rs, r, tcs, r1, r2, r3, r4, ?_, hinfo, hviews⟩
  rw [hb, hlay]
  exact hrun

end Png.MetaBytes
