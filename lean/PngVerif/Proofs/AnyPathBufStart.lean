import PngVerif.Proofs.AnyPathBufWhole
/-!
# `read_info` on the three well-formed layouts, with all frames still to come (`WholeFrames`)

`still_first` (a still image without `acTL`), `apng_first` (an animation whose first frame is the `IDAT` image),
`apng_default_first` (an animation whose `IDAT` image is not part of it): `read_info` on the complete file succeeds and
returns a reader with `frames.length + 1` frames remaining from which whole-frame calls into ANY sufficient buffers
deliver the specification's frames (`WholeFrames`).  The proofs follow `Reader.decode_wf`, `Reader.apng_wf`,
`Reader.apng_default_wf` with the caller's buffer general and the reader kept.
-/
namespace Png.Reader
open Png Png.Framing Png.WellFormed

/-- the reader `read_info` returns (`Ready`), as a reader on which `next_frame` can be called -/
theorem ready_callOk {cfg : Cfg} {t : TCfg} {f : Flags} (ht : t.IsIdentity f) {h : Header} (hv : h.Valid) {i : Info} {N : Nat}
    {r : R} {raw : Bytes} {dEnd : Dec} {bEnd : Bytes} (hR : Ready cfg f i N r raw dEnd bEnd) (hcore : i.core = h.info.core)
    (hrd : r.isReader = true) (hpb : r.pendingBuf = none) : CallOk t h.bufferSize r := by
  obtain ⟨hw1, hw2, hh1, hh2, hleg⟩ := hv
  have hd := (legal_pos hleg).2.2
  simp only [Info.core, Header.info, Prod.mk.injEq] at hcore
  obtain ⟨c1, c2, c3, c4, c5⟩ := hcore
  obtain ⟨pend, hP, _⟩ := hR.pend
  refine ⟨hrd, hpb, i, hP.info, ?_⟩
  unfold needOf
  rw [hR.flags, outLineSize_id ht, c1, c2, c3, c4, ← rowBytes_eq h hd]; rfl

/-- **`read_info` on a well-formed still image** (hypotheses of `Png.C01.C01_decode`, no `acTL` chunk): one frame
    remains; a whole-frame call into any buffer that holds the image returns the header's geometry and leaves
    `specFrame h raw` computed on that buffer; then no frame remains -/
theorem still_first (cfg : Cfg) (hI : cfg.InflateOk) (hC : cfg.CrcOk) {t : TCfg} {f : Flags} (ht : t.IsIdentity f)
    (opts : Options) (limit : Nat) (h : Header) (hv : h.Valid) (anc : Bytes) (dA : Dec)
    (hanc : AncTrace cfg (afterIhdr cfg opts limit h) anc dA) (hidle : Idle dA h.info.core)
    (hstill : ∀ i, dA.info = some i → i.actl = none)
    (zs : List Bytes) (raw : Bytes) (post : List (ChunkType × Bytes))
    (hzs : zs ≠ []) (hlen : ∀ z ∈ zs, z.length < 2 ^ 32) (hinf : cfg.inflate zs.flatten = some (raw, true))
    (hraw : RawOk h raw)
    (hpost : ∀ c ∈ post, c.1 ≠ IDAT ∧ c.1 < 2 ^ 32 ∧ c.2.length < 2 ^ 32)
    (hsize : h.lineSize * h.height < 2 ^ 64) (hlimit : h.lineSize ≤ dA.limit) :
    ∃ r0,
      step cfg t
        (R.init opts limit f
          (signature ++ chunk cfg IHDR h.body ++ anc ++ idats cfg zs ++ chunks cfg post ++ chunk cfg IEND [])
          (signature ++ chunk cfg IHDR h.body ++ anc ++ idats cfg zs ++ chunks cfg post ++ chunk cfg IEND []).length)
        .readInfo = (r0, .header) ∧
      r0.remaining = 1 ∧
      WholeFrames cfg t h.bufferSize r0
        [({ width := h.width, height := h.height, color := h.color, depth := h.depth, lineSize := h.lineSize }, h, raw)] := by
  obtain ⟨len', t', rest', htail, h1, h2, h3⟩ := still_tail_shape cfg post hpost
  cases zs with
  | nil => exact absurd rfl hzs
  | cons z zs =>
    have hfile : signature ++ chunk cfg IHDR h.body ++ anc ++ idats cfg (z :: zs) ++ chunks cfg post ++ chunk cfg IEND [] =
        signature ++ (chunk cfg IHDR h.body ++ (anc ++ (idats cfg (z :: zs) ++ (be32Bytes len' ++ typeBytes t' ++ rest')))) := by
      rw [← htail]; simp only [List.append_assoc]
    rw [hfile]
    obtain ⟨r, i, N, dEnd, hri, hR, hcore, hfctl, _, hrd, hpb, _, _, hiA, hrem, hN, _⟩ :=
      readInfo_wf cfg hI hC ht opts limit h hv anc dA none hanc hidle z zs raw (hlen z (by simp))
        (fun z' hz' => hlen z' (by simp [hz'])) hinf len' t' rest' h1 h2 h3 hsize
        (fun j hc hf => by rw [hdrOf_eq hc hf]; exact hlimit)
    have hN1 : N = 1 := by rw [hN, hstill i hiA]
    have hcall := ready_callOk ht hv hR hcore hrd hpb
    have hhdr : hdrOf i = h := hdrOf_eq hcore hfctl
    have hcore' := hcore
    simp only [Info.core, Header.info, Prod.mk.injEq] at hcore'
    obtain ⟨c1, c2, c3, c4, c5⟩ := hcore'
    obtain ⟨hw1, hw2, hh1, hh2, hleg⟩ := hv
    have hlegi : (i.color, i.depth) ∈ legalPairs := by rw [c3, c4]; exact hleg
    have hd := (legal_pos hlegi).2.2
    have hdims : Sub.dims i = (h.width, h.height) := by simp [Sub.dims, hfctl, c1, c2]
    have hsz : outLineSize t i f i.width * i.height = h.bufferSize := by
      have := hdrOf_lineSize ht i hd
      rw [hdims, hhdr] at this
      simp only at this
      rw [c1, c2, this]; rfl
    refine ⟨r, ?_, by rw [hrem, hN1], hcall, fun buf hbuf => ?_⟩
    · rw [step_readInfo_init]; exact hri
    · obtain ⟨r', B, hstep, hspec, hbl, hP', _, _, _, hrem', hse', _, hcur'⟩ :=
        first_frame_step cfg ht i hlegi (by rw [hdims]; exact hw1) (by rw [hdims]; exact hh1) N raw dEnd rest' r buf hR
          (by rw [hhdr]; exact hraw) (by rw [hsz]; exact hbuf) (by rw [hhdr]; exact hbuf)
      refine ⟨r', B, ?_, by rw [hhdr] at hspec; exact hspec, hbl, ?_, by omega, hcur'⟩
      · rw [hstep, hdims, hhdr, c3, c4]
      · obtain ⟨_, _, j, hj, hnj⟩ := hcall
        refine ⟨hse'.isReader.trans hrd, hse'.pendingBuf.trans hpb, i, hP'.info, ?_⟩
        have hij : j = i := by
          obtain ⟨pend, hP, _⟩ := hR.pend
          have := hP.info; rw [hj] at this; cases this; rfl
        subst hij
        unfold needOf at hnj ⊢
        rw [hse'.flags]; exact hnj

/-- **`read_info` on a well-formed animation whose first frame is the `IDAT` image** (hypotheses of
    `Png.C09.C09_frames`): `frames.length + 1` frames remain, and whole-frame calls into any sufficient buffers deliver
    frame 0 (`fc0`, `raw0`) and then the frames in file order -/
theorem apng_first (cfg : Cfg) (hI : cfg.InflateOk) (hC : cfg.CrcOk) {t : TCfg} {f : Flags} (ht : t.IsIdentity f)
    (opts : Options) (limit : Nat) (h : Header) (hv : h.Valid) (plays : Nat) (hplays : plays < 2 ^ 32)
    (anc : List (ChunkType × Bytes)) (dAnc : Dec)
    (frames : List (FrameControl × List Bytes × Bytes)) (hnf : frames.length + 1 < 2 ^ 32)
    (hanc : AncChunksG cfg (actlAfter (afterIhdr cfg opts limit h) (frames.length + 1) plays) anc dAnc) (hna : NoActl anc)
    (fc0 : FrameControl) (zs0 : List Bytes) (raw0 : Bytes) (hfc0 : FcOk h fc0)
    (hzs0 : zs0 ≠ []) (hlen0 : ∀ z ∈ zs0, z.length < 2 ^ 32) (hinf0 : cfg.inflate zs0.flatten = some (raw0, true))
    (hraw0 : RawOk (h.frame fc0) raw0)
    (hframes : ∀ fr ∈ frames, FrameOk cfg h fr)
    (hseq : 1 + (frames.map fun x => 1 + x.2.1.length).sum < 2 ^ 32)
    (hsize : h.lineSize * h.height < 2 ^ 64)
    (hlimit : (h.frame fc0).lineSize + (frames.map fun x => (h.frame x.1).lineSize).sum ≤ dAnc.limit) :
    ∃ r0,
      step cfg t (R.init opts limit f (wellFormedApng cfg h plays anc fc0 zs0 (framesOf frames))
          (wellFormedApng cfg h plays anc fc0 zs0 (framesOf frames)).length) .readInfo = (r0, .header) ∧
      r0.remaining = frames.length + 1 ∧
      WholeFrames cfg t h.bufferSize r0 (descOf h (fc0, zs0, raw0) :: frames.map (descOf h)) := by
  have hv' := hv
  obtain ⟨hw1, hw2, hh1, hh2, hleg⟩ := hv
  have hd := (legal_pos hleg).2.2
  have hidle0 := idle_afterIhdr cfg opts limit h
  obtain ⟨hsA, hiA⟩ := ancStep_acTL cfg (afterIhdr cfg opts limit h) h.info (frames.length + 1) plays hnf hplays rfl rfl
    (by show 8 ≤ Params.chunkBufferSize; decide)
  obtain ⟨TA, hidleA, _, _, _, hsqA⟩ := anc_step cfg hC hidle0 hsA
  generalize hdA : actlAfter (afterIhdr cfg opts limit h) (frames.length + 1) plays = dA1 at *
  have hcapA0 : dA1.cap = Params.chunkBufferSize := by rw [← hdA]; rfl
  obtain ⟨TB, hidleB, _, hsqB, hcapB⟩ := anc_chunks_g cfg hC hidleA (by rw [hcapA0]; decide) hanc
  have hactlB := ancChunksG_actl hanc hna
  generalize hfc0' : ({ fc0 with seq := 0 } : FrameControl) = fc0'
  have hframe0 : h.frame fc0' = h.frame fc0 := by rw [← hfc0']; rfl
  have hcapA : dA1.cap = Params.chunkBufferSize := by
    have := hsA; rw [← hdA]; rfl
  have hsq0 : dAnc.seqNo = none := by rw [hsqB, hsqA]; rfl
  obtain ⟨dF, TC, hidleC, hsqC, hlimC, hcapC, _, hactlC⟩ := fctl0_step cfg hC fc0' hidleB
    (by rw [hcapA] at hcapB; have : (26 : Nat) ≤ Params.chunkBufferSize := by decide
        omega)
    (by
      rw [← hfc0']
      refine ⟨by show (0 : Nat) < 2 ^ 32; decide, ?_, ?_, ?_, ?_, hfc0.dn, hfc0.dd, ?_, ?_⟩
      · show fc0.width < 2 ^ 32; have := hfc0.xw; omega
      · show fc0.height < 2 ^ 32; have := hfc0.yh; omega
      · show fc0.x < 2 ^ 32; have := hfc0.xw; omega
      · show fc0.y < 2 ^ 32; have := hfc0.yh; omega
      · show fc0.dispose < 256; have := hfc0.dis; omega
      · show fc0.blend < 256; have := hfc0.bl; omega)
    (by rw [hsq0, ← hfc0']; rfl) (by rw [← hfc0']; exact hfc0.dis) (by rw [← hfc0']; exact hfc0.bl)
    (by
      intro i hi
      obtain ⟨j, hj, hcj, _⟩ := hidleB.info
      rw [hi] at hj; cases hj
      simp only [Info.core, Header.info, Prod.mk.injEq] at hcj
      rw [fctlInBounds_iff, ← hfc0']
      exact ⟨hfc0.w1, hfc0.h1, by rw [hcj.1]; exact hfc0.xw, by rw [hcj.2.1]; exact hfc0.yh⟩)
  have hancAll : AncTrace cfg (afterIhdr cfg opts limit h)
      (chunk cfg acTL (actlBody (frames.length + 1) plays) ++ (chunks cfg anc ++ chunk cfg fcTL (fctlBody fc0'))) dF :=
    TA.append (TB.append TC)
  cases zs0 with
  | nil => exact absurd rfl hzs0
  | cons z0 zs0 =>
    obtain ⟨hl1, hl2, hl3, hl4⟩ := nextHead_facts cfg 1 (framesOf frames)
    have htail := nextHead_eq cfg 1 (framesOf frames)
    generalize hLn : (nextHead cfg 1 (framesOf frames)).1 = lenN at *
    generalize hTn : (nextHead cfg 1 (framesOf frames)).2.1 = tN at *
    generalize hRn : (nextHead cfg 1 (framesOf frames)).2.2 = restN at *
    have hfile : wellFormedApng cfg h plays anc fc0 (z0 :: zs0) (framesOf frames) =
        signature ++ (chunk cfg IHDR h.body ++ ((chunk cfg acTL (actlBody (frames.length + 1) plays) ++
          (chunks cfg anc ++ chunk cfg fcTL (fctlBody fc0'))) ++ (idats cfg (z0 :: zs0) ++
            (be32Bytes lenN ++ typeBytes tN ++ restN)))) := by
      unfold wellFormedApng
      rw [← htail, hfc0']
      have : (framesOf frames).length = frames.length := by simp [framesOf]
      rw [this]
      simp only [List.append_assoc]
    rw [hfile]
    have hLS0 : (h.frame fc0).lineSize ≤ dF.limit := by rw [hlimC]; omega
    obtain ⟨r, i, N, dEnd, hri, hR, hcore, hfctl, hflu, hrd, hpb, _, _, hiF, hremN, hN, hseqE, hcapE, _, hlimE⟩ :=
      readInfo_wf cfg hI hC ht opts limit h ⟨hw1, hw2, hh1, hh2, hleg⟩ _ dF (some fc0') hancAll hidleC z0 zs0 raw0
        (hlen0 z0 (by simp)) (fun z' hz' => hlen0 z' (by simp [hz'])) hinf0 lenN tN restN hl1 hl2 hl3 hsize
        (fun j hc hf => by
          have : hdrOf j = h.frame fc0' := by
            have := hdrOf_frame (i := j) fc0' hc
            have hj : ({ j with fctl := some fc0' } : Info) = j := by cases j; simp only at hf; subst hf; rfl
            rw [hj] at this; exact this
          rw [this, hframe0]; exact hLS0)
    have hcall := ready_callOk ht hv' hR hcore hrd hpb
    have hcore' := hcore
    simp only [Info.core, Header.info, Prod.mk.injEq] at hcore'
    obtain ⟨c1, c2, c3, c4, c5⟩ := hcore'
    have hlegi : (i.color, i.depth) ∈ legalPairs := by rw [c3, c4]; exact hleg
    have hij : ({ i with fctl := some fc0' } : Info) = i := by cases i; simp only at hfctl; subst hfctl; rfl
    have hhdr : hdrOf i = h.frame fc0 := by
      have := hdrOf_frame (i := i) fc0' hcore
      rw [hij] at this; rw [this, hframe0]
    have hdims : Sub.dims i = (fc0.width, fc0.height) := by
      simp only [Sub.dims, hfctl]; rw [← hfc0']
    have hactl : i.actl = some (frames.length + 1, plays) := by
      have h1 : dF.info.map (·.actl) = some (some (frames.length + 1, plays)) := by
        rw [hactlC, hactlB, hiA]; rfl
      rw [hiF] at h1
      simpa using h1
    have hNv : N = frames.length + 1 := by
      rw [hN, hactl, hfctl]; simp
    obtain ⟨hfit1, hfit2⟩ := frame_fits h hd fc0 (by have := hfc0.xw; omega) (by have := hfc0.yh; omega)
    have hszI : outLineSize t i f i.width * i.height = h.bufferSize := by
      rw [outLineSize_id ht, c1, c2, c3, c4, ← rowBytes_eq h hd]; rfl
    refine ⟨r, ?_, by rw [hremN, hNv], hcall, fun buf hbuf => ?_⟩
    · rw [step_readInfo_init]; exact hri
    · obtain ⟨r', buf0, hstep, hspec, hblen, hP', hcaf', hdec', hav', hrem', hse', hca', hcur'⟩ :=
        first_frame_step cfg ht i hlegi (by rw [hdims]; exact hfc0.w1) (by rw [hdims]; exact hfc0.h1) N raw0 dEnd restN r buf
          hR (by rw [hhdr]; exact hraw0) (by rw [hszI]; exact hbuf) (by rw [hhdr]; exact Nat.le_trans hfit2 hbuf)
      have hB : Between cfg f h r' i 1 frames := by
        refine ⟨hcore, ?_, ?_, ?_, ?_, ?_, hcaf', hcur', by omega, hse'.flags.trans hR.flags, hse'.isReader.trans hrd,
          hse'.pendingBuf.trans hpb, hca'⟩
        · rw [hdec', hLn, hTn]; exact hflu
        · rw [hav', hRn]
        · rw [hdec', hseqE, hsqC, ← hfc0']; exact ⟨rfl, by show (0 : Nat) + 1 < 2 ^ 32; decide⟩
        · rw [hdec', hcapE, hcapC]; rw [hcapA] at hcapB; have : (26 : Nat) ≤ Params.chunkBufferSize := by decide
          omega
        · rw [hdec', hlimE, hhdr, hlimC]; omega
      refine ⟨r', buf0, ?_, by rw [hhdr] at hspec; exact hspec, hblen,
        between_wholeFrames cfg hI hC ht h hv' frames r' i 1 hframes hseq hB⟩
      rw [hstep, hdims, hhdr, c3, c4]
      rfl

/-- **`read_info` on a well-formed animation whose `IDAT` image is not part of the animation** (hypotheses of
    `Png.C09.C09_default_image`): `frames.length + 1` frames remain: the `IDAT` image with the header's geometry, then the
    frames in file order -/
theorem apng_default_first (cfg : Cfg) (hI : cfg.InflateOk) (hC : cfg.CrcOk) {t : TCfg} {f : Flags} (ht : t.IsIdentity f)
    (opts : Options) (limit : Nat) (h : Header) (hv : h.Valid) (plays : Nat) (hplays : plays < 2 ^ 32)
    (anc : List (ChunkType × Bytes)) (dAnc : Dec)
    (frames : List (FrameControl × List Bytes × Bytes)) (hnf : frames.length < 2 ^ 32)
    (hanc : AncChunksG cfg (actlAfter (afterIhdr cfg opts limit h) frames.length plays) anc dAnc) (hna : NoActl anc)
    (zs0 : List Bytes) (raw0 : Bytes)
    (hzs0 : zs0 ≠ []) (hlen0 : ∀ z ∈ zs0, z.length < 2 ^ 32) (hinf0 : cfg.inflate zs0.flatten = some (raw0, true))
    (hraw0 : RawOk h raw0)
    (hframes : ∀ fr ∈ frames, FrameOk cfg h fr)
    (hseq : (frames.map fun x => 1 + x.2.1.length).sum < 2 ^ 32)
    (hsize : h.lineSize * h.height < 2 ^ 64)
    (hlimit : h.lineSize + (frames.map fun x => (h.frame x.1).lineSize).sum ≤ dAnc.limit) :
    ∃ r0,
      step cfg t (R.init opts limit f (wellFormedApngDefault cfg h plays anc zs0 (framesOf frames))
          (wellFormedApngDefault cfg h plays anc zs0 (framesOf frames)).length) .readInfo = (r0, .header) ∧
      r0.remaining = frames.length + 1 ∧
      WholeFrames cfg t h.bufferSize r0
        (({ width := h.width, height := h.height, color := h.color, depth := h.depth, lineSize := h.lineSize }, h, raw0) ::
          frames.map (descOf h)) := by
  have hv' := hv
  obtain ⟨hw1, hw2, hh1, hh2, hleg⟩ := hv
  have hd := (legal_pos hleg).2.2
  have hidle0 := idle_afterIhdr cfg opts limit h
  obtain ⟨hsA, hiA⟩ := ancStep_acTL cfg (afterIhdr cfg opts limit h) h.info frames.length plays hnf hplays rfl rfl
    (by show 8 ≤ Params.chunkBufferSize; decide)
  obtain ⟨TA, hidleA, _, _, _, hsqA⟩ := anc_step cfg hC hidle0 hsA
  generalize hdA : actlAfter (afterIhdr cfg opts limit h) frames.length plays = dA1 at *
  have hcapA : dA1.cap = Params.chunkBufferSize := by rw [← hdA]; rfl
  obtain ⟨TB, hidleB, _, hsqB, hcapB⟩ := anc_chunks_g cfg hC hidleA (by rw [hcapA]; decide) hanc
  have hactlB := ancChunksG_actl hanc hna
  have hsq0 : dAnc.seqNo = none := by rw [hsqB, hsqA]; rfl
  have hancAll : AncTrace cfg (afterIhdr cfg opts limit h)
      (chunk cfg acTL (actlBody frames.length plays) ++ chunks cfg anc) dAnc := TA.append TB
  cases zs0 with
  | nil => exact absurd rfl hzs0
  | cons z0 zs0 =>
    obtain ⟨hl1, hl2, hl3, hl4⟩ := nextHead_facts cfg 0 (framesOf frames)
    have htail := nextHead_eq cfg 0 (framesOf frames)
    generalize hLn : (nextHead cfg 0 (framesOf frames)).1 = lenN at *
    generalize hTn : (nextHead cfg 0 (framesOf frames)).2.1 = tN at *
    generalize hRn : (nextHead cfg 0 (framesOf frames)).2.2 = restN at *
    have hfile : wellFormedApngDefault cfg h plays anc (z0 :: zs0) (framesOf frames) =
        signature ++ (chunk cfg IHDR h.body ++ ((chunk cfg acTL (actlBody frames.length plays) ++ chunks cfg anc) ++
          (idats cfg (z0 :: zs0) ++ (be32Bytes lenN ++ typeBytes tN ++ restN)))) := by
      unfold wellFormedApngDefault
      rw [← htail]
      have : (framesOf frames).length = frames.length := by simp [framesOf]
      rw [this]
      simp only [List.append_assoc]
    rw [hfile]
    obtain ⟨r, i, N, dEnd, hri, hR, hcore, hfctl, hflu, hrd, hpb, _, _, hiF, hremN, hN, hseqE, hcapE, _, hlimE⟩ :=
      readInfo_wf cfg hI hC ht opts limit h ⟨hw1, hw2, hh1, hh2, hleg⟩ _ dAnc none hancAll hidleB z0 zs0 raw0
        (hlen0 z0 (by simp)) (fun z' hz' => hlen0 z' (by simp [hz'])) hinf0 lenN tN restN hl1 hl2 hl3 hsize
        (fun j hc hf => by rw [hdrOf_eq hc hf]; omega)
    have hcall := ready_callOk ht hv' hR hcore hrd hpb
    have hhdr : hdrOf i = h := hdrOf_eq hcore hfctl
    have hcore' := hcore
    simp only [Info.core, Header.info, Prod.mk.injEq] at hcore'
    obtain ⟨c1, c2, c3, c4, c5⟩ := hcore'
    have hlegi : (i.color, i.depth) ∈ legalPairs := by rw [c3, c4]; exact hleg
    have hdims : Sub.dims i = (h.width, h.height) := by simp [Sub.dims, hfctl, c1, c2]
    have hactl : i.actl = some (frames.length, plays) := by
      have h1 : dAnc.info.map (·.actl) = some (some (frames.length, plays)) := by rw [hactlB, hiA]; rfl
      rw [hiF] at h1
      simpa using h1
    have hNv : N = frames.length + 1 := by
      rw [hN, hactl, hfctl]; simp
    have hszI : outLineSize t i f i.width * i.height = h.bufferSize := by
      rw [outLineSize_id ht, c1, c2, c3, c4, ← rowBytes_eq h hd]; rfl
    refine ⟨r, ?_, by rw [hremN, hNv], hcall, fun buf hbuf => ?_⟩
    · rw [step_readInfo_init]; exact hri
    · obtain ⟨r', buf0, hstep, hspec, hblen, hP', hcaf', hdec', hav', hrem', hse', hca', hcur'⟩ :=
        first_frame_step cfg ht i hlegi (by rw [hdims]; exact hw1) (by rw [hdims]; exact hh1) N raw0 dEnd restN r buf
          hR (by rw [hhdr]; exact hraw0) (by rw [hszI]; exact hbuf) (by rw [hhdr]; exact hbuf)
      have hB : Between cfg f h r' i 0 frames := by
        refine ⟨hcore, ?_, ?_, ?_, ?_, ?_, hcaf', hcur', by omega, hse'.flags.trans hR.flags, hse'.isReader.trans hrd,
          hse'.pendingBuf.trans hpb, hca'⟩
        · rw [hdec', hLn, hTn]; exact hflu
        · rw [hav', hRn]
        · rw [hdec', hseqE, hsq0]; rfl
        · rw [hdec', hcapE]; rw [hcapA] at hcapB; have : (26 : Nat) ≤ Params.chunkBufferSize := by decide
          omega
        · rw [hdec', hlimE, hhdr]; omega
      refine ⟨r', buf0, ?_, by rw [hhdr] at hspec; exact hspec, hblen,
        between_wholeFrames cfg hI hC ht h hv' frames r' i 0 hframes (by omega) hB⟩
      rw [hstep, hdims, hhdr, c3, c4]

end Png.Reader
