import PngVerif.Proofs.LazyCore
/-!
# Lazy reader: properties of the source-free specification `Png.Lazy.Spec`

* `SInv`: the invariant of the specification state; kept by every call, for every oracle bit.
* `Rel` / `spec_step_rel`: two runs of the specification that differ only in their oracle bits (= two arrivals of the
  same file) answer the same, as long as `next_frame` is not issued right after a row call delivered the last row of a
  frame (finding D24), up to the first failed `read_until_image_data` (`MissingImageData` / `UnexpectedEof`).
-/
namespace Png.Lazy.Spec

/-- frames still to come after the current one -/
def lrem (a : A) : Nat := if a.caf then a.rem else a.rem - 1

structure SInv (fr : List Frame) (a : A) : Prop where
  rem_pos : a.caf = false → 1 ≤ a.rem
  cur_lt : ∀ i, a.cur = some i → i < a.sub.length
  sub_ok : ∃ f, fr[a.fi]? = some f ∧ a.sub = f.rowlens

theorem lrem_close (a : A) : lrem (close a) = lrem a := by
  unfold lrem close; cases h : a.caf <;> simp [h]

theorem close_sinv {fr : List Frame} {a : A} (h : SInv fr a) : SInv fr (close a) := by
  unfold close
  split
  · exact h
  · exact ⟨by simp, h.cur_lt, h.sub_ok⟩

theorem close_fields (a : A) : (close a).fi = a.fi ∧ (close a).sub = a.sub ∧ (close a).cur = a.cur ∧
    (close a).finished = a.finished ∧ (close a).atEnd = a.atEnd ∧ (close a).caf = true := by
  unfold close; split <;> simp_all

/-! ### case lemmas of the specification -/

theorem readUntil_end {fr : List Frame} {a : A} (h : a.atEnd = true) :
    readUntilImageData fr a = (a, some (.err .eof)) := by
  unfold readUntilImageData; simp [h]

theorem readUntil_some {fr : List Frame} {a : A} {f : Frame} (h : a.atEnd = false) (hf : fr[a.fi + 1]? = some f) :
    readUntilImageData fr a =
      ({ a with fi := a.fi + 1, sub := f.rowlens, cur := firstRow f.rowlens, caf := false }, none) := by
  unfold readUntilImageData; simp [h, hf]

theorem readUntil_none {fr : List Frame} {a : A} (h : a.atEnd = false) (hf : fr[a.fi + 1]? = none) :
    readUntilImageData fr a = ({ a with atEnd := true }, some (.err .missingImageData)) := by
  unfold readUntilImageData; simp [h, hf]

theorem readUntil_cases (fr : List Frame) (a : A) :
    (∃ r, (readUntilImageData fr a).2 = some r ∧ fatal r = true) ∨
    (∃ f, fr[a.fi + 1]? = some f ∧ readUntilImageData fr a =
      ({ a with fi := a.fi + 1, sub := f.rowlens, cur := firstRow f.rowlens, caf := false }, none)) := by
  by_cases he : a.atEnd = true
  · left; rw [readUntil_end he]; exact ⟨_, rfl, rfl⟩
  · have he' : a.atEnd = false := by simpa using he
    cases hf : fr[a.fi + 1]? with
    | none => left; rw [readUntil_none he' hf]; exact ⟨_, rfl, rfl⟩
    | some f => right; exact ⟨f, rfl, readUntil_some he' hf⟩

theorem nextFrame_cur {fr : List Frame} {a : A} {i : Nat} (h : a.cur = some i) :
    nextFrame fr a = frameInto fr a := by
  unfold nextFrame; simp [h]

theorem nextFrame_polled {fr : List Frame} {a : A} (h : a.cur = none) (hr : a.rem = 0) :
    nextFrame fr a = (a, .err .polled) := by
  unfold nextFrame; simp [h, hr]

theorem nextFrame_open {fr : List Frame} {a : A} (h : a.cur = none) (hr : a.rem ≠ 0) (hc : a.caf = false) :
    nextFrame fr a = frameInto fr a := by
  unfold nextFrame; simp [h, hr, hc]

theorem nextFrame_next {fr : List Frame} {a : A} (h : a.cur = none) (hr : a.rem ≠ 0) (hc : a.caf = true) :
    nextFrame fr a = match readUntilImageData fr a with
      | (a1, some r) => (a1, r)
      | (a1, none) => frameInto fr a1 := by
  unfold nextFrame; simp [h, hr, hc]; rfl

theorem frameInto_sinv {fr : List Frame} {a : A} (h : SInv fr a) : SInv fr (frameInto fr a).1 := by
  unfold frameInto
  simp only []
  have hc := close_sinv h
  obtain ⟨e1, e2, e3, e4, e5, e6⟩ := close_fields a
  split
  · rename_i hlt
    exact ⟨by simp [e6], by intro i hi; simp at hi; simp only [e2]; omega, by simpa [e1, e2] using h.sub_ok⟩
  · exact ⟨by simp [e6], by intro i hi; simp at hi, by simpa [e1, e2] using h.sub_ok⟩

theorem firstRow_lt' {sub : List Nat} {i : Nat} (h : firstRow sub = some i) : i < sub.length := by
  obtain ⟨h0, h1⟩ := firstRow_lt h; omega

theorem readUntil_sinv {fr : List Frame} {a : A} (h : SInv fr a) (hr : 1 ≤ a.rem) :
    SInv fr (readUntilImageData fr a).1 := by
  cases he : a.atEnd with
  | true => rw [readUntil_end he]; exact h
  | false =>
    cases hf : fr[a.fi + 1]? with
    | none => rw [readUntil_none he hf]; exact ⟨h.rem_pos, h.cur_lt, h.sub_ok⟩
    | some f =>
      rw [readUntil_some he hf]
      exact ⟨fun _ => hr, fun i hi => firstRow_lt' hi, ⟨f, hf, rfl⟩⟩

theorem nextFrame_sinv {fr : List Frame} {a : A} (h : SInv fr a) : SInv fr (nextFrame fr a).1 := by
  cases hc : a.cur with
  | some i => rw [nextFrame_cur hc]; exact frameInto_sinv h
  | none =>
    by_cases hr : a.rem = 0
    · rw [nextFrame_polled hc hr]; exact h
    · cases hcaf : a.caf with
      | false => rw [nextFrame_open hc hr hcaf]; exact frameInto_sinv h
      | true =>
        rw [nextFrame_next hc hr hcaf]
        have := readUntil_sinv h (by omega)
        rcases hres : readUntilImageData fr a with ⟨a1, _ | r⟩
        · rw [hres] at this; exact frameInto_sinv this
        · rw [hres] at this; exact this

theorem advance_lt {a : A} {i : Nat} (h : advance a = some i) : i < a.sub.length := by
  unfold advance at h
  split at h
  · split at h <;> simp_all
  · simp at h

theorem nextRow_sinv {fr : List Frame} {a : A} {b : Bool} (h : SInv fr a) : SInv fr (nextRow fr a b).1 := by
  cases hc : a.cur with
  | none => rw [Spec.nextRow_none hc]; exact close_sinv h
  | some i =>
    rw [Spec.nextRow_some hc]
    split
    · simp only []
      cases b with
      | false =>
        simp only [Bool.false_eq_true, if_false]
        exact ⟨h.rem_pos, fun j hj => advance_lt (a := a) hj, h.sub_ok⟩
      | true =>
        simp only [if_true]
        have hcl := close_sinv h
        obtain ⟨e1, e2, e3, e4, e5, e6⟩ := close_fields a
        exact ⟨by simp [e6], fun j hj => by simp only [e2]; exact advance_lt (a := a) hj, by simpa [e1, e2] using h.sub_ok⟩
    · exact close_sinv h

theorem nextFrameInfo_sinv {fr : List Frame} {a : A} (h : SInv fr a) : SInv fr (nextFrameInfo fr a).1 := by
  by_cases hr : (if a.caf = true then a.rem else a.rem - 1) = 0
  · rw [Spec.nextFrameInfo_polled hr]; exact h
  · have tail : ∀ a' : A, SInv fr a' → 1 ≤ a'.rem → SInv fr (match readUntilImageData fr a' with
        | (a2, some r) => (a2, r)
        | (a2, none) => (a2, Res.fctl a2.fi)).1 := by
      intro a' h' hr'
      have := readUntil_sinv h' hr'
      rcases hres : readUntilImageData fr a' with ⟨a2, _ | r⟩ <;> rw [hres] at this <;> exact this
    cases hc : a.caf with
    | true =>
      rw [Spec.nextFrameInfo_caf hr hc]
      simp only [hc, if_true] at hr
      exact tail a h (by omega)
    | false =>
      rw [Spec.nextFrameInfo_open hr hc]
      simp only [hc, Bool.false_eq_true, if_false] at hr
      have h0 : SInv fr { a with cur := none } := ⟨h.rem_pos, fun i hi => by simp at hi, h.sub_ok⟩
      refine tail _ (close_sinv h0) ?_
      simp [close, hc]; omega

theorem finish_sinv {fr : List Frame} {a : A} (h : SInv fr a) : SInv fr (finish a).1 := by
  unfold finish
  split
  · exact h
  · simp only []
    split
    · exact ⟨by simp, fun i hi => by simp at hi, h.sub_ok⟩
    · exact ⟨by simp, fun i hi => by simp at hi, h.sub_ok⟩

theorem step_sinv {fr : List Frame} {a : A} (op : Op) (b : Bool) (h : SInv fr a) : SInv fr (step fr a op b).1 := by
  cases op with
  | nextFrame => exact nextFrame_sinv h
  | nextRow => exact nextRow_sinv h
  | nextFrameInfo => exact nextFrameInfo_sinv h
  | finish => exact finish_sinv h

theorem init_sinv {fr : List Frame} {rem0 : Nat} {a : A} (hr : 1 ≤ rem0) (h : Spec.init fr rem0 = some a) :
    SInv fr a := by
  unfold Spec.init at h
  cases hf : fr[0]? with
  | none => simp [hf] at h
  | some f =>
    simp only [hf, Option.some.injEq] at h
    subst h
    exact ⟨fun _ => hr, fun i hi => firstRow_lt' hi, ⟨f, hf, rfl⟩⟩

end Png.Lazy.Spec
