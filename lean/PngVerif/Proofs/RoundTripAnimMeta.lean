import PngVerif.Proofs.RoundTripAnimDecode
import PngVerif.Proofs.RoundTripAnimGen
/-!
# C03 end to end for animations with ALL the metadata `encode_header` writes

`encode_header` writes `pHYs`, `sRGB`, `gAMA`, `cHRM`, `iCCP`, `eXIf` in front of `acTL` and `PLTE`, `tRNS`, text chunks
behind it.  `meta_accepted_anim`: the decoder reads all of them (`MetaOk`, `metaCost` of `Proofs/RoundTripHeader.lean`,
unchanged).  `animBytesMeta_eq` / `animDefaultBytesMeta_eq`: the file is `Reader.apngFile` / `apngDefaultFile` of
`Proofs/RoundTripAnimGen.lean`.  `anim_meta_encode_decode_core` / `anim_default_meta_encode_decode_core`: the
composition through `Reader.apng_wf_gen` / `apng_default_wf_gen`.
-/
namespace Png.RoundTrip
open Png Png.Val Png.Enc Png.Framing Png.Reader Png.WellFormed

theorem metaChunks_split (c : Enc.Cfg) : metaChunks c = preChunks c.md ++ postChunks c := by
  simp only [metaChunks, postChunks, List.append_assoc]

theorem headerChunks_animMeta {c : Enc.Cfg} {n plays : Nat} (ha : c.actl = some (n, plays)) :
    headerChunks c = mkIhdr c :: (preChunks c.md ++ mkActl n plays :: postChunks c) := by
  simp [headerChunks, postChunks, ha]

/-- the bytes between `IHDR` and the first frame -/
def ancBytes (cfg : Framing.Cfg) (c : Enc.Cfg) (n plays : Nat) : Bytes :=
  chunks cfg (pairs (preChunks c.md)) ++ (chunk cfg acTL (actlBody n plays) ++ chunks cfg (pairs (postChunks c)))

/-- **the decoder reads every chunk `encode_header` writes for an animation**: the chunks in front of `acTL`, `acTL`, the chunks
    behind it; `need` bytes of the limit are left -/
theorem meta_accepted_anim (cfg : Framing.Cfg) (hC : cfg.CrcOk) (opts : Options) (limit P : Nat) (c : Enc.Cfg) (n plays : Nat)
    (hn : n < 2 ^ 32) (hp : plays < 2 ^ 32) (need : Nat) (hm : MetaOk cfg opts.ignoreText P c)
    (hlimit : need + metaCost P c ≤ limit) :
    ∃ dB, AncTrace cfg (afterIhdr cfg opts limit (headerOf c)) (ancBytes cfg c n plays) dB ∧
      Idle dB (headerOf c).info.core ∧ dB.seqNo = none ∧ 26 ≤ dB.cap ∧ dB.info.map (·.actl) = some (some (n, plays)) ∧
      need ≤ dB.limit := by
  have hr0 : Ready (afterIhdr cfg opts limit (headerOf c)) (headerOf c).info opts :=
    ⟨rfl, by show 0 < Params.chunkBufferSize; decide, rfl⟩
  have hl0 : (afterIhdr cfg opts limit (headerOf c)).limit = limit := rfl
  have hcost : metaCost P c = listCost (iccpExtra P) (preChunks c.md) + listCost (iccpExtra P) (postChunks c) := by
    simp only [metaCost, metaChunks_split, listCost_append]
  rw [hcost] at hlimit
  have hmemPre : ∀ ch ∈ preChunks c.md, ch ∈ metaChunks c := fun ch h => by rw [metaChunks_split]; simp [h]
  have hmemPost : ∀ ch ∈ postChunks c, ch ∈ metaChunks c := fun ch h => by rw [metaChunks_split]; simp [h]
  -- in front of `acTL`
  obtain ⟨dPre, i1, hc1, hr1, hl1, hp1⟩ := chain_of_accepts cfg opts (iccpExtra P) (preChunks c.md)
    (fun ch hch => inert_pre cfg opts P ch (preChunks_kinds c.md ch hch) (hm.len ch (hmemPre ch hch))
      (hm.profile ch (hmemPre ch hch))) _ _ hr0 (by rw [hl0]; omega)
  rw [hl0] at hl1
  -- `acTL`
  have hidle0 := idle_afterIhdr cfg opts limit (headerOf c)
  obtain ⟨_, _, _, _, hcap1⟩ := anc_chunks_g cfg hC hidle0 (by show 0 < Params.chunkBufferSize; decide) hc1
  have hcap1' : Params.chunkBufferSize ≤ dPre.cap := hcap1
  have hh1 : dPre.haveIdat = false := (ancChunksG_haveIdat hc1).trans rfl
  have hc8 : 8 ≤ dPre.cap := by
    have : (8 : Nat) ≤ Params.chunkBufferSize := by decide
    omega
  obtain ⟨_, hiA⟩ := ancStep_acTL cfg dPre i1 n plays hn hp hr1.info hh1 hc8
  have hrA : Ready (actlAfter dPre n plays) { i1 with actl := some (n, plays) } opts :=
    ⟨hiA, by show 0 < dPre.cap; omega, hr1.opts⟩
  have hlA : (actlAfter dPre n plays).limit = dPre.limit := rfl
  -- behind `acTL`
  obtain ⟨dB, hcB, hlB⟩ := post_accepted cfg opts P c need ⟨hm.texts, fun ch h => hm.len ch (hmemPost ch h)⟩ _ _ hrA
    (by show i1.palette = none; rw [hp1]; rfl) (by rw [hlA]; omega)
  obtain ⟨a1, a2, a3, a4, a5⟩ := anc_with_actl cfg hC opts limit (headerOf c) n plays hn hp _ _ dPre dB hc1 hcB
    (noActl_post cfg opts.ignoreText c ⟨hm.texts, fun ch h => hm.len ch (hmemPost ch h)⟩)
  exact ⟨dB, a1, a2, a3, a4, a5, hlB⟩

/-- **the file of an animation (first frame = `IDAT` image) with all its metadata** -/
theorem animBytesMeta_eq (cfg : Framing.Cfg) (hcrc : ∀ b, cfg.crc b = crcOfList b) (compress : Bytes → Bytes)
    (choose : Bytes → Bytes → FilterType) (c : Enc.Cfg) (n plays : Nat) (ha : c.actl = some (n, plays))
    (f0 : FC) (fr0 : Frame) (frs : List Frame) (hseq0 : (fcOf c.width c.height f0 fr0.pre).seq = 0) :
    fileBytes (animChunks (scanCodec compress choose) c f0 fr0 frs) =
      apngFile cfg (headerOf c) (ancBytes cfg c n plays) (fcDec (fcOf c.width c.height f0 fr0.pre))
        (chunksOf maxIdatChunkLen (compress (rawOf choose c fr0.data)))
        (Reader.framesOf (decFrames compress choose c { fcOf c.width c.height f0 fr0.pre with seq := 1 } frs)) := by
  have hfc : ({ fcDec (fcOf c.width c.height f0 fr0.pre) with seq := 0 } : FrameControl) =
      fcDec (fcOf c.width c.height f0 fr0.pre) := by rw [← hseq0]; rfl
  simp only [fileBytes, animChunks, apngFile, ancBytes, headerChunks_animMeta ha, List.map_append, List.map_cons, List.map_nil,
    List.flatten_append, List.flatten_cons, List.flatten_nil, List.append_nil, hfc,
    laterChunks_bytes cfg hcrc compress choose c frs, chunks_eq cfg hcrc, idats_eq, chunkBytes_eq cfg hcrc, signature_eq,
    zstream_scanCodec, mkFctl_eq, mkActl_eq, ty_eqs_anim.1, ty_eqs_anim.2.1, List.append_assoc, List.cons_append]
  rfl

/-- **the file of an animation with a separate default image, with all its metadata** -/
theorem animDefaultBytesMeta_eq (cfg : Framing.Cfg) (hcrc : ∀ b, cfg.crc b = crcOfList b) (compress : Bytes → Bytes)
    (choose : Bytes → Bytes → FilterType) (c : Enc.Cfg) (n plays : Nat) (ha : c.actl = some (n, plays))
    (f0 : FC) (fr0 : Frame) (frs : List Frame) (hseq0 : (fcOf c.width c.height f0 fr0.pre).seq = 0) :
    fileBytes (animDefaultChunks (scanCodec compress choose) c f0 fr0 frs) =
      apngDefaultFile cfg (headerOf c) (ancBytes cfg c n plays)
        (chunksOf maxIdatChunkLen (compress (rawOf choose c fr0.data)))
        (Reader.framesOf (decFrames compress choose c (fcOf c.width c.height f0 fr0.pre) frs)) := by
  simp only [fileBytes, animDefaultChunks, apngDefaultFile, ancBytes, headerChunks_animMeta ha, List.map_append, List.map_cons,
    List.map_nil, List.flatten_append, List.flatten_cons, List.flatten_nil, List.append_nil,
    laterChunks_bytes cfg hcrc compress choose c frs, chunks_eq cfg hcrc, idats_eq, chunkBytes_eq cfg hcrc, signature_eq,
    zstream_scanCodec, mkActl_eq, ty_eqs_anim.1, hseq0, List.append_assoc, List.cons_append]
  rfl

/-- **the composition for an animation whose first frame is the `IDAT` image, any metadata** -/
theorem anim_meta_encode_decode_core (cfg : Framing.Cfg) (t : TCfg) (f : Flags) (opts : Options) (limit P : Nat)
    (compress : Bytes → Bytes) (choose : Bytes → Bytes → FilterType) (c : Enc.Cfg) (n plays : Nat) (f0 : FC)
    (fr0 : Frame) (frs : List Frame) (p0 : UInt8) (ps : List UInt8) (q : UInt8)
    (hI : cfg.InflateOk) (hcrc : ∀ b, cfg.crc b = crcOfList b) (ht : t.IsIdentity f)
    (hc : c.Anim n plays f0) (hsep : c.sepDefImg = false) (hm : MetaOk cfg opts.ignoreText P c)
    (hn : n = frs.length + 1) (h0 : FirstOk c f0 fr0)
    (hl : LaterOk (scanCodec compress choose) c { fcOf c.width c.height f0 fr0.pre with seq := 1 } frs)
    (hsz : c.rowLen * c.height < 2 ^ 64)
    (hnil : ∀ o, cfg.inflate [] ≠ some (o, true))
    (hinf0 : cfg.inflate (compress (rawOf choose c fr0.data)) = some (rawOf choose c fr0.data, true))
    (hinf : ∀ x ∈ decFrames compress choose c { fcOf c.width c.height f0 fr0.pre with seq := 1 } frs,
      cfg.inflate (compress x.2.2) = some (x.2.2, true))
    (hlimit : c.rowLen + lineSum c (fcOf c.width c.height f0 fr0.pre) frs + metaCost P c ≤ limit)
    (hps : ps.length = frs.length) :
    (Reader.run cfg t
      (R.init opts limit f (encodedAnim compress choose c (fr0 :: frs)) (encodedAnim compress choose c (fr0 :: frs)).length)
      (.readInfo :: .nextFrame p0 :: (ps.map Op.nextFrame ++ [.nextFrame q]))).2 =
      .header :: .frame { width := c.width, height := c.height, color := c.color, depth := c.depth,
                          lineSize := c.rowLen } fr0.data ::
        (frameResults c (fcOf c.width c.height f0 fr0.pre) frs ps ++ [.err .parameter "PolledAfterEndOfImage"]) := by
  have hC := crcOk_of_eq cfg hcrc
  obtain ⟨rs, _, _, _, _, hlog⟩ := anim_run (scanCodec compress choose) c n plays f0 hc hsep fr0 frs hn h0 hl hsz
  obtain ⟨hin', hfine', hseq'⟩ := fcOf_facts (W := c.width) (H := c.height) fr0.pre f0 hc.rect hc.fine (fun o ho => (h0.pre o ho).2)
  have hseq0 : (fcOf c.width c.height f0 fr0.pre).seq = 0 := by rw [hseq', hc.seq0]
  have hfile : encodedAnim compress choose c (fr0 :: frs) = _ :=
    ((bytes_of_fullLog _ _ hlog).1).trans (animBytesMeta_eq cfg hcrc compress choose c n plays hc.actl f0 fr0 frs hseq0)
  rw [hfile]
  have hcov := h0.cover
  generalize hf' : fcOf c.width c.height f0 fr0.pre = f' at *
  have hsub : c.sub f' = c := sub_cover c f' hcov.2.2.1 hcov.2.2.2
  have hlen0 : fr0.data.length = (c.sub f').rowLen * f'.h := by rw [hsub, hcov.2.2.2]; exact h0.len
  have hzne : compress (rawOf choose c fr0.data) ≠ [] := by
    intro z0; rw [z0] at hinf0; exact hnil _ hinf0
  obtain ⟨z1, z2, z3⟩ := idat_cut _ hzne
  have hdl := decFrames_length compress choose c frs { f' with seq := 1 }
  obtain ⟨dB, b1, b2, b3, b4, b5, hlim⟩ := meta_accepted_anim cfg hC opts limit P c n plays hc.nlt hc.plt
    (c.rowLen + lineSum c f' frs) hm hlimit
  have hframe0 : (headerOf c).frame (fcDec f') = headerOf c := by rw [frame_dec, hsub]
  have hls := headerOf_lineSize (c := c) hc.depth
  obtain ⟨buf0, rs', hrun, hspec, _, hfo⟩ :=
    apng_wf_gen cfg hI hC ht opts limit (headerOf c) (valid_of_anim hc) plays (ancBytes cfg c n plays) dB
      (decFrames compress choose c { f' with seq := 1 } frs) b1 b2 b3 b4 (by rw [hdl, ← hn]; exact b5) (fcDec f')
      (chunksOf maxIdatChunkLen (compress (rawOf choose c fr0.data))) (rawOf choose c fr0.data)
      (fcOk_dec hin' hfine') z1 z2 (by rw [z3]; exact hinf0)
      (by rw [hframe0]; exact rawOk_encode choose c hc.depth fr0.data h0.len)
      (frameOk_dec cfg compress choose c hc.depth hnil frs _ hin' hfine' hl hinf)
      (seq_sum_lt compress choose c frs { f' with seq := 1 } (by show (1 : Nat) < 2 ^ 32; decide) hl)
      (by rw [hls]; exact hsz)
      (by
        rw [hframe0, hls, lineSum_dec compress choose c hc.depth, lineSum_setSeq]
        exact hlim)
      p0 ps (by rw [hdl]; exact hps) q
  have hrs := framesOk_results compress choose c hc.depth frs _ ps rs' hl hfo
  rw [frameResults_setSeq] at hrs
  have hspec' := specFrame_encode choose c hc.depth f' fr0.data hlen0 (headerOf c).bufferSize p0
  rw [hsub] at hspec'
  rw [hspec'] at hspec
  have hB : (headerOf c).bufferSize = c.rowLen * c.height := by
    show (headerOf c).lineSize * c.height = _
    rw [hls]
  cases hspec
  rw [hrun, hrs, hframe0, hls, hB, h0.len, Nat.sub_self]
  simp only [List.replicate_zero, List.append_nil]
  rw [show (fcDec f').width = c.width from hcov.2.2.1, show (fcDec f').height = c.height from hcov.2.2.2]
  rfl

/-- **the composition for an animation with a separate default image, any metadata** -/
theorem anim_default_meta_encode_decode_core (cfg : Framing.Cfg) (t : TCfg) (f : Flags) (opts : Options) (limit P : Nat)
    (compress : Bytes → Bytes) (choose : Bytes → Bytes → FilterType) (c : Enc.Cfg) (n plays : Nat) (f0 : FC)
    (fr0 : Frame) (frs : List Frame) (p0 : UInt8) (ps : List UInt8) (q : UInt8)
    (hI : cfg.InflateOk) (hcrc : ∀ b, cfg.crc b = crcOfList b) (ht : t.IsIdentity f)
    (hc : c.Anim n plays f0) (hsep : c.sepDefImg = true) (hm : MetaOk cfg opts.ignoreText P c)
    (hn : n = frs.length) (h0 : FirstOk c f0 fr0)
    (hl : LaterOk (scanCodec compress choose) c (fcOf c.width c.height f0 fr0.pre) frs)
    (hsz : c.rowLen * c.height < 2 ^ 64)
    (hnil : ∀ o, cfg.inflate [] ≠ some (o, true))
    (hinf0 : cfg.inflate (compress (rawOf choose c fr0.data)) = some (rawOf choose c fr0.data, true))
    (hinf : ∀ x ∈ decFrames compress choose c (fcOf c.width c.height f0 fr0.pre) frs,
      cfg.inflate (compress x.2.2) = some (x.2.2, true))
    (hlimit : c.rowLen + lineSum c (fcOf c.width c.height f0 fr0.pre) frs + metaCost P c ≤ limit)
    (hps : ps.length = frs.length) :
    (Reader.run cfg t
      (R.init opts limit f (encodedAnim compress choose c (fr0 :: frs)) (encodedAnim compress choose c (fr0 :: frs)).length)
      (.readInfo :: .nextFrame p0 :: (ps.map Op.nextFrame ++ [.nextFrame q]))).2 =
      .header :: .frame { width := c.width, height := c.height, color := c.color, depth := c.depth,
                          lineSize := c.rowLen } fr0.data ::
        (frameResults c (fcOf c.width c.height f0 fr0.pre) frs ps ++ [.err .parameter "PolledAfterEndOfImage"]) := by
  have hC := crcOk_of_eq cfg hcrc
  obtain ⟨rs, _, _, _, _, hlog⟩ := anim_default_run (scanCodec compress choose) c n plays f0 hc hsep fr0 frs hn h0 hl hsz
  obtain ⟨hin', hfine', hseq'⟩ := fcOf_facts (W := c.width) (H := c.height) fr0.pre f0 hc.rect hc.fine (fun o ho => (h0.pre o ho).2)
  have hseq0 : (fcOf c.width c.height f0 fr0.pre).seq = 0 := by rw [hseq', hc.seq0]
  have hfile : encodedAnim compress choose c (fr0 :: frs) = _ :=
    ((bytes_of_fullLog _ _ hlog).1).trans (animDefaultBytesMeta_eq cfg hcrc compress choose c n plays hc.actl f0 fr0 frs hseq0)
  rw [hfile]
  generalize hf' : fcOf c.width c.height f0 fr0.pre = f' at *
  have hzne : compress (rawOf choose c fr0.data) ≠ [] := by
    intro z0; rw [z0] at hinf0; exact hnil _ hinf0
  obtain ⟨z1, z2, z3⟩ := idat_cut _ hzne
  have hdl := decFrames_length compress choose c frs f'
  obtain ⟨dB, b1, b2, b3, b4, b5, hlim⟩ := meta_accepted_anim cfg hC opts limit P c n plays hc.nlt hc.plt
    (c.rowLen + lineSum c f' frs) hm hlimit
  have hls := headerOf_lineSize (c := c) hc.depth
  obtain ⟨buf0, rs', hrun, hspec, _, hfo⟩ :=
    apng_default_wf_gen cfg hI hC ht opts limit (headerOf c) (valid_of_anim hc) plays (ancBytes cfg c n plays) dB
      (decFrames compress choose c f' frs) b1 b2 b3 b4 (by rw [hdl, ← hn]; exact b5)
      (chunksOf maxIdatChunkLen (compress (rawOf choose c fr0.data))) (rawOf choose c fr0.data)
      z1 z2 (by rw [z3]; exact hinf0) (rawOk_encode choose c hc.depth fr0.data h0.len)
      (frameOk_dec cfg compress choose c hc.depth hnil frs _ hin' hfine' hl hinf)
      (by
        have := seq_sum_lt compress choose c frs f' (by rw [hseq0]; decide) hl
        rw [hseq0] at this
        omega)
      (by rw [hls]; exact hsz)
      (by rw [hls, lineSum_dec compress choose c hc.depth]; exact hlim)
      p0 ps (by rw [hdl]; exact hps) q
  have hrs := framesOk_results compress choose c hc.depth frs _ ps rs' hl hfo
  rw [specPixels_encode choose c hc.depth fr0.data h0.len] at hspec
  cases hspec
  rw [hrun, hrs, hls]
  rfl

end Png.RoundTrip
