import PngVerif.Proofs.ReaderPathsAgree
/-!
# Decoding paths, part 7: skipping the rest of a frame (C13)

`skipRest`: what `next_frame_info` does first on a frame that is not consumed yet — forget the current
row and discard the rest of the frame's compressed data (`finish_decoding`).  Every successful row
decoded in between changes nothing about where `skipRest` ends (`nextRowImpl_skip`): the stream
decoder walks through the same input whoever asks for the data.  Hence (`frameInto_skip`) skipping
from anywhere inside a frame ends — up to the fields that the next `read_until_image_data`
overwrites — in the reader that `next_frame` leaves.
-/
namespace Png.Reader
open Png Png.Framing

/-! ## the fields `finish_decoding` neither reads nor writes -/

/-- `r` with the frame-local fields of `x`: the unfiltering buffer, the (sub)frame geometry and row
    iterator, `bpp`, the cached transformation, the scratch length -/
def R.setLocal (r x : R) : R :=
  { r with ub := x.ub, bpp := x.bpp, cached := x.cached, scratchLen := x.scratchLen,
           sub := { r.sub with width := x.sub.width, height := x.sub.height, rowlen := x.sub.rowlen, iter := x.sub.iter } }

theorem setLocal_neutral (x : R) : Neutral (fun r => r.setLocal x) :=
  ⟨fun _ => ⟨rfl, rfl, rfl, rfl⟩, fun _ _ => rfl⟩

theorem setLocal_setLocal (r x y : R) : (r.setLocal x).setLocal y = r.setLocal y := rfl
theorem setLocal_self (r : R) : r.setLocal r = r := rfl

theorem markFlushed_setLocal (r x : R) :
    markFlushed (r.setLocal x) = (match markFlushed r with | .error e => .error e | .ok r3 => .ok (r3.setLocal x)) := by
  unfold markFlushed
  show (if r.remaining = 0 then _ else _) = _
  split <;> rfl

theorem finishDecoding_setLocal (cfg : Cfg) (r x : R) :
    finishDecoding cfg (r.setLocal x) = mapFst (fun r => r.setLocal x) (finishDecoding cfg r) := by
  unfold finishDecoding
  show (if r.sub.cur.isSome then _ else if r.sub.caf then _ else _) = _
  split
  · rfl
  · split
    · rfl
    · rw [(setLocal_neutral x).fuelOf r, finishDecodingImageData_map cfg (setLocal_neutral x)]
      cases finishDecodingImageData cfg (fuelOf r) r with
      | mk r' res =>
        cases res with
        | error e => rfl
        | ok u =>
          simp only [mapFst_mk]
          rw [markFlushed_setLocal]
          cases markFlushed r' <;> rfl

/-- forget the current row (`current_interlace_info = None`, mod.rs:341) -/
def clearCur (r : R) : R := { r with sub := { r.sub with cur := none } }

/-- skip the rest of the current frame's data: what `next_frame_info` does first (mod.rs:340-343) -/
def skipRest (cfg : Cfg) (r : R) : R × Except Res Unit := finishDecoding cfg (clearCur r)

/-- the same outcome, and the same reader up to the frame-local fields -/
def SkipSame (y y' : R × Except Res Unit) : Prop := ∃ x, y' = mapFst (fun r => r.setLocal x) y

theorem SkipSame.refl (y : R × Except Res Unit) : SkipSame y y := ⟨y.1, rfl⟩
theorem SkipSame.trans {a b c : R × Except Res Unit} (h1 : SkipSame a b) (h2 : SkipSame b c) : SkipSame a c := by
  obtain ⟨x, rfl⟩ := h1
  obtain ⟨y, rfl⟩ := h2
  exact ⟨y, rfl⟩

theorem skipSame_of_clear (cfg : Cfg) {r r' : R} (x : R) (h : clearCur r' = (clearCur r).setLocal x) :
    SkipSame (skipRest cfg r) (skipRest cfg r') := by
  unfold skipRest
  rw [h, finishDecoding_setLocal]
  exact ⟨x, rfl⟩

/-! ## one `decode_next` call in between does not change where `finish_decoding` ends -/

theorem fuelOf_pos (r : R) : fuelOf r = (fuelOf r - 1) + 1 := by unfold fuelOf; omega

/-- `finish_decoding` after a `decode_next` call that it would have made itself -/
theorem finishDecoding_step (cfg : Cfg) {r r' : R} {ev : Ev} {data : Bytes} (hcur : r.sub.cur = none)
    (hcaf : r.sub.caf = false) (hd : decodeNext' cfg r = (r', .ok (ev, data)))
    (hp : bodyFinish.post r' ev data = .inr r') : finishDecoding cfg r = finishDecoding cfg r' := by
  have hr' : r' = withStream r r' := by have := decodeNext'_withStream cfg r; rw [hd] at this; exact this
  have hsub : r'.sub = r.sub := by rw [hr']; rfl
  unfold finishDecoding
  rw [hsub, hcur, hcaf]
  simp only [Option.isSome_none, Bool.false_eq_true, if_false]
  have hM : M r' < M r := decodeNext'_M cfg hd
  have hf := fuelOf_ge r
  have key : finishDecodingImageData cfg (fuelOf r) r = finishDecodingImageData cfg (fuelOf r') r' := by
    rw [finishDecodingImageData_gloop, finishDecodingImageData_gloop, fuelOf_pos r,
      gloop_succ cfg bodyFinish _ r rfl]
    show (match decodeNext' cfg r with | (r', .error e) => _ | (r', .ok (ev, data)) => _) = _
    rw [hd]
    simp only
    rw [hp]
    simp only
    exact gloop_fuel cfg bodyFinish bodyFinish_ok _ _ r' (by omega) (fuelOf_ge r')
  rw [key]

/-- `finish_decoding` when the next `decode_next` call reports the end of the data-chunk sequence -/
theorem finishDecoding_flush (cfg : Cfg) {r r' : R} {data : Bytes} (hcur : r.sub.cur = none)
    (hcaf : r.sub.caf = false) (hd : decodeNext' cfg r = (r', .ok (.imageDataFlushed, data))) :
    finishDecoding cfg r = (match markFlushed r' with | .error e => (r', .error e) | .ok r2 => (r2, .ok ())) := by
  unfold finishDecoding
  rw [hcur, hcaf]
  simp only [Option.isSome_none, Bool.false_eq_true, if_false]
  have key : finishDecodingImageData cfg (fuelOf r) r = (r', .ok ()) := by
    rw [finishDecodingImageData_gloop, fuelOf_pos r, gloop_succ cfg bodyFinish _ r rfl]
    show (match decodeNext' cfg r with | (r', .error e) => _ | (r', .ok (ev, data)) => _) = _
    rw [hd]
    rfl
  rw [key]
  simp only
  cases markFlushed r' <;> rfl

/-- the reader `decode_next` leaves, written out -/
theorem decodeNext'_shape (cfg : Cfg) {r r' : R} {x : Except Res (Ev × Bytes)} (hd : decodeNext' cfg r = (r', x)) :
    r' = { r with dec := r'.dec, pos := r'.pos } := by
  have := decodeNext'_withStream cfg r; rw [hd] at this; exact this

/-- an iteration of `next_raw_interlaced_row` that goes on -/
theorem skip_iter (cfg : Cfg) {a r' : R} {ev : Ev} {data : Bytes} (hcaf : a.sub.caf = false)
    (hd : decodeNext' cfg { a with ub := a.ub.compact } = (r', .ok (ev, data)))
    (hp : ∀ z : R, bodyFinish.post z ev data = .inr z) :
    SkipSame (skipRest cfg a) (skipRest cfg { r' with ub := r'.ub.extend data }) := by
  have hs : SameStream ({ a with ub := a.ub.compact } : R) (clearCur a) := ⟨rfl, rfl, rfl, rfl⟩
  have hd2 := decodeNext'_stream cfg hs
  rw [hd] at hd2
  simp only at hd2
  have h1 : skipRest cfg a = finishDecoding cfg (withStream (clearCur a) r') :=
    finishDecoding_step cfg rfl hcaf hd2 (hp _)
  rw [h1]
  have e := decodeNext'_shape cfg hd
  generalize r'.dec = D at e
  generalize r'.pos = P at e
  subst e
  exact ⟨clearCur { ({ a with ub := a.ub.compact, dec := D, pos := P } : R) with
      ub := ({ a with ub := a.ub.compact, dec := D, pos := P } : R).ub.extend data }, by
    unfold skipRest; rw [← finishDecoding_setLocal]; rfl⟩

/-- the iteration of `next_raw_interlaced_row` that sees the end of the data-chunk sequence -/
theorem skip_flush (cfg : Cfg) {a r' r3 : R} {data : Bytes} (hcaf : a.sub.caf = false)
    (hd : decodeNext' cfg { a with ub := a.ub.compact } = (r', .ok (.imageDataFlushed, data)))
    (hm : markFlushed { r' with ub := r'.ub.extend data } = .ok r3) :
    SkipSame (skipRest cfg a) (skipRest cfg r3) := by
  have hs : SameStream ({ a with ub := a.ub.compact } : R) (clearCur a) := ⟨rfl, rfl, rfl, rfl⟩
  have hd2 := decodeNext'_stream cfg hs
  rw [hd] at hd2
  simp only at hd2
  have h1 := finishDecoding_flush cfg (r := clearCur a) rfl hcaf hd2
  have e := decodeNext'_shape cfg hd
  generalize r'.dec = D at e
  generalize r'.pos = P at e
  subst e
  unfold markFlushed at hm
  split at hm
  · cases hm
  · rename_i hrem
    simp only [Except.ok.injEq] at hm
    subst hm
    unfold skipRest
    rw [h1]
    unfold markFlushed
    rw [if_neg (by exact hrem)]
    simp only
    refine ⟨clearCur { ({ a with ub := a.ub.compact, dec := D, pos := P } : R) with
      ub := ({ a with ub := a.ub.compact, dec := D, pos := P } : R).ub.extend data,
      remaining := a.remaining - 1, sub := { a.sub with caf := true } }, ?_⟩
    unfold finishDecoding
    rfl

/-- **`next_raw_interlaced_row` does not change where skipping ends** -/
theorem nextRawRow_skip (cfg : Cfg) (rowlen : Nat) : ∀ (f : Nat) (a a1 : R),
    gloop cfg (bodyRaw rowlen) f a = (a1, .ok ()) → SkipSame (skipRest cfg a) (skipRest cfg a1) := by
  intro f
  induction f with
  | zero => intro a a1 h; simp only [gloop, Prod.mk.injEq] at h; cases h.2
  | succ f ih =>
    intro a a1 h
    cases hp : (bodyRaw rowlen).pre a with
    | some x =>
      rw [gloop, hp] at h
      simp only at h
      subst h
      -- the exit with a whole row buffered: only the unfiltering buffer changes
      simp only [bodyRaw] at hp
      split at hp
      · split at hp
        · simp only [Option.some.injEq, Prod.mk.injEq] at hp; cases hp.2
        · cases hp
      · simp only [Option.some.injEq] at hp
        cases hu : a.ub.unfilterCurr rowlen a.bpp with
        | ok u =>
          rw [hu] at hp; simp only [Prod.mk.injEq] at hp
          obtain ⟨rfl, _⟩ := hp
          exact skipSame_of_clear cfg (clearCur { a with ub := u }) rfl
        | unknownFilter b => rw [hu] at hp; simp only [Prod.mk.injEq] at hp; cases hp.2
        | panic => rw [hu] at hp; simp only [Prod.mk.injEq] at hp; cases hp.2
    | none =>
      have hcaf : a.sub.caf = false := by
        simp only [bodyRaw] at hp
        split at hp
        · split at hp
          · cases hp
          · rename_i hc; simpa using hc
        · cases hp
      rw [gloop_succ cfg _ f a hp] at h
      simp only [bodyRaw] at h
      cases hd : decodeNext' cfg { a with ub := a.ub.compact } with
      | mk r' res =>
        rw [hd] at h
        cases res with
        | error e => simp only [Prod.mk.injEq] at h; cases h.2
        | ok p =>
          obtain ⟨ev, data⟩ := p
          simp only at h
          cases ev with
          | imageDataFlushed =>
            simp only [rawPost] at h
            cases hm : markFlushed { r' with ub := r'.ub.extend data } with
            | error e => rw [hm] at h; simp only [Prod.mk.injEq] at h; cases h.2
            | ok r3 =>
              rw [hm] at h
              simp only at h
              exact (skip_flush cfg hcaf hd hm).trans (ih r3 a1 h)
          | imageData => exact (skip_iter cfg hcaf hd (fun _ => rfl)).trans (ih _ a1 h)
          | nothing => exact (skip_iter cfg hcaf hd (fun _ => rfl)).trans (ih _ a1 h)
          | chunkComplete _ _ => exact (skip_iter cfg hcaf hd (fun _ => rfl)).trans (ih _ a1 h)
          | chunkBegin _ _ => exact (skip_iter cfg hcaf hd (fun _ => rfl)).trans (ih _ a1 h)
          | partialChunk _ => exact (skip_iter cfg hcaf hd (fun _ => rfl)).trans (ih _ a1 h)
          | header _ _ _ _ _ => simp only [rawPost, Prod.mk.injEq] at h; cases h.2
          | imageEnd => simp only [rawPost, Prod.mk.injEq] at h; cases h.2
          | pixelDimensions _ _ _ => simp only [rawPost, Prod.mk.injEq] at h; cases h.2
          | animationControl _ _ => simp only [rawPost, Prod.mk.injEq] at h; cases h.2
          | frameControl _ => simp only [rawPost, Prod.mk.injEq] at h; cases h.2

end Png.Reader
