import PngVerif.Proofs.RoundTripStream
import PngVerif.Proofs.RoundTripDecode
/-!
# C03 end to end, the `StreamWriter` path: the composition with the decoder model

The file a complete stream-writer session leaves (`Enc.session_done`, `Enc.stream_owned_log`, `Enc.stream_borrowed_log`) is,
for the streaming back-end `scanZ compress chooseZ` (every row filtered with the type `chooseZ` picks against the previous
row — the first against a zero row —, the compressor free to hold everything back until it is finished),
`fileBytes (stillChunks c zs)` with `zs.flatten = compress (rawOf (chooseFirst chooseZ) c data)`; `decode_stillChunks`
applies (`decode_of_streamLog`).
-/
namespace Png.RoundTrip
open Png Png.Val Png.Enc Png.Framing Png.Reader Png.WellFormed

theorem rowsOf_unique (L : Nat) : ∀ curs : List Bytes, (∀ r ∈ curs, r.length = L) → rowsOf L curs.length curs.flatten = curs := by
  intro curs
  induction curs with
  | nil => intro _; rfl
  | cons c cs ih =>
    intro h
    have hc : c.length = L := h c (by simp)
    simp only [List.length_cons, List.flatten_cons, rowsOf]
    rw [List.take_left' hc, List.drop_left' hc, ih (fun r hr => h r (by simp [hr]))]

/-- the `IDAT` payloads of a complete session with the back-end `scanZ compress chooseZ` concatenate to the compressed
    scanline stream of `data` under the filter choice `chooseFirst chooseZ` -/
theorem sessionDone_stream_scanZ {compress : Bytes → Bytes} {chooseZ : Bytes → Bytes → FilterType} {c : Enc.Cfg} {data : Bytes}
    {owned : Bool} {size : Nat} {ds : List Bytes} {w : WState} {s1 : SW} {w1 : WState} {zs : List Bytes}
    (h : SessionDone (scanZ compress chooseZ) c data owned size ds w s1 w1 zs) :
    zs.flatten = compress (rawOf (chooseFirst chooseZ) c data) := by
  obtain ⟨hist, curs, hz2, hnf, hwo, hcl, hcc, hfl⟩ := h.stream
  have hout : outs (scanZ compress chooseZ) (hist ++ [ZOp.finish]) = compress (writtenOf hist) := by
    rw [outs_snoc, outs, scanZ_quiet compress chooseZ hist [] hnf]; rfl
  rw [hz2, hout, hwo, fedRows_scanZ_first compress chooseZ _ _ curs hcc]
  have : curs = rowsOfCfg c data := by
    unfold rowsOfCfg
    rw [← hfl, ← hcl]
    exact (rowsOf_unique c.rowLen curs hcc).symm
  rw [this]
  rfl

/-- **decoding what a sink holds whose log is the signature, the header chunks, `IDAT` chunks `zs`, `IEND`** -/
theorem decode_of_streamLog (cfg : Framing.Cfg) (t : TCfg) (f : Flags) (opts : Options) (limit : Nat)
    (choose : Bytes → Bytes → FilterType) (c : Enc.Cfg) (data : Bytes) (zs : List Bytes) (k : Sink) (p : UInt8) (dA : Dec)
    (hI : cfg.InflateOk) (hcrc : ∀ b, cfg.crc b = crcOfList b) (ht : t.IsIdentity f) (hs : c.Still)
    (hlen : data.length = c.rowLen * c.height) (hsz : c.rowLen * c.height < 2 ^ 64)
    (hlog : k.log = sigEmit :: (headerChunks c ++ zs.map mkIdat ++ [iendChunk]).map fullEmit)
    (hzl : ∀ z ∈ zs, z.length < 2 ^ 32) (hflat : zs.flatten = compress)
    (hnil : ∀ o, cfg.inflate [] ≠ some (o, true))
    (hinf : cfg.inflate compress = some (rawOf choose c data, true))
    (hanc : AncChunksG cfg (afterIhdr cfg opts limit (headerOf c)) (pairs (metaChunks c)) dA)
    (hlimit : c.rowLen ≤ dA.limit) :
    k.chunks = stillChunks c zs ∧
    (Reader.run cfg t (R.init opts limit f k.bytes k.bytes.length) [.readInfo, .nextFrame p]).2 =
      [.header, .frame { width := c.width, height := c.height, color := c.color, depth := c.depth,
                         lineSize := c.rowLen } data] := by
  have hchunks : headerChunks c ++ zs.map mkIdat ++ [iendChunk] = stillChunks c zs := by
    rw [headerChunks_still hs.actl]; rfl
  rw [hchunks] at hlog
  obtain ⟨hb, hc⟩ := bytes_of_fullLog k _ hlog
  refine ⟨hc, ?_⟩
  have hzne : compress ≠ [] := by
    intro h0; rw [h0] at hinf; exact hnil _ hinf
  have hzs : zs ≠ [] := by
    intro h0; rw [h0] at hflat; exact hzne hflat.symm
  rw [hb]
  exact decode_stillChunks cfg t f opts limit choose c data zs p dA hI hcrc ht hs hlen hsz hzs hzl
    (by rw [hflat]; exact hinf) hanc hlimit

end Png.RoundTrip
