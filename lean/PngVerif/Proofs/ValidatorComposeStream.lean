import PngVerif.Proofs.ValidatorCompose
import PngVerif.Proofs.ValidatorTraceStream
/-!
# C12 composition for programs over both writer APIs (stream writer included)

`prog_validChunks` / `prog_validPng`: the analogue of `writer_validChunks` / `writer_validPng` for `runProg`,
on the domain of `C12_stream_partial` (`Cfg.WellFormed`, `Cfg.Small`, `StreamDomain`, the declared number of
images written) extended by `Cfg.PayloadsOk`, `Cfg.SizesOk` and `Op.passOk` / `Op.wireOk` for the whole-image
operations among the steps.  The two back-end contracts are asked for the images that fit the canvas only.
-/
namespace Png.Enc
open Png Png.Val Png.Spec

/-- the contract of the streaming back-end for the images that fit a `cw × ch` canvas (cf. `Codec.OkWithin`) -/
def ZCodec.OkWithin (imgOk : ImgRule) (Z : ZCodec) (color depth cw ch : Nat) : Prop :=
  ∀ (w h : Nat) (hist : List ZOp) (curs : List Bytes),
    hist.contains ZOp.finish = false → curs.length = h →
    (∀ c ∈ curs, c.length = rawRowLengthFromWidth color depth w - 1) →
    writtenOf hist = (fedRows Z (bytesPerPixel color depth)
      (List.replicate (rawRowLengthFromWidth color depth w - 1) 0) curs).flatten →
    outs Z (hist ++ [ZOp.finish]) ≠ [] ∧ (w ≤ cw → h ≤ ch → imgOk w h (outs Z (hist ++ [ZOp.finish])) = .ok ())

theorem ZCodec.Ok.okWithin {imgOk : ImgRule} {Z : ZCodec} {color depth : Nat} (h : ZCodec.Ok imgOk Z color depth)
    (cw ch : Nat) : ZCodec.OkWithin imgOk Z color depth cw ch :=
  fun w hh hist curs a b c d => ⟨(h w hh hist curs a b c d).1, fun _ _ => (h w hh hist curs a b c d).2⟩

theorem ZCodec.OkWithin.ok {imgOk : ImgRule} {Z : ZCodec} {color depth cw ch : Nat}
    (h : ZCodec.OkWithin imgOk Z color depth cw ch) : ZCodec.Ok (within cw ch imgOk) Z color depth := by
  intro w hh hist curs a b c d
  obtain ⟨h1, h2⟩ := h w hh hist curs a b c d
  refine ⟨h1, ?_⟩
  unfold within
  split
  · rename_i hle; exact h2 hle.1 hle.2
  · rfl

/-- **rules 2–6 of the validator accept the chunk list a program over both APIs leaves in the sink** -/
theorem prog_validChunks (imgOkOf : Ihdr → ImgRule) (E : Codec) (Z : ZCodec) (c : Cfg) (hw : c.WellFormed)
    (hsm : c.Small) (hp : c.PayloadsOk)
    (hE : Codec.OkWithin (imgOkOf (ihdrOfCfg c)) E c.color c.depth c.width c.height)
    (hZ : ZCodec.OkWithin (imgOkOf (ihdrOfCfg c)) Z c.color c.depth c.width c.height)
    (steps : List Step) (fin : PFinal) (hdom : StreamDomain E Z c steps fin)
    (hcount : (runProg E Z c {} steps fin).declaredWritten) (hpass : ∀ op ∈ progOps steps, op.passOk) :
    validChunks imgOkOf (runProg E Z c {} steps fin).state.sink.chunks = .ok () ∧
    ∃ body, (∀ b ∈ body, BodyChunk (progOps steps) b) ∧ IendOnlyLast (headerChunks c ++ body) ∧
      (runProg E Z c {} steps fin).state.sink.chunks = headerChunks c ++ body ∧
      (runProg E Z c {} steps fin).state.sink.bytes = fileBytes (headerChunks c ++ body) := by
  obtain ⟨_, _, _, rest, hch, hsk⟩ :=
    stream_skeleton_valid (within c.width c.height (imgOkOf (ihdrOfCfg c))) E Z c hw hsm hE.ok hZ.ok steps fin hdom hcount
  rw [skeleton_congr (within_agree c.width c.height _)] at hsk
  obtain ⟨body, hb, hcs, hby⟩ := runProg_chunks_bytes E Z c steps fin hdom.1
  have hil : IendOnlyLast (headerChunks c ++ body) := by
    rw [← hcs, hch]
    exact iend_last_cons (by show tyIHDR ≠ tyIEND; decide) (skeleton_iend_last hsk)
  refine ⟨?_, body, hb, hil, hcs, hby⟩
  obtain ⟨w0, h0, hci⟩ := writeHeader_ok_dims c {} hdom.1
  obtain ⟨⟨i1, i2, i3, i4, _, _⟩, _, _, htx⟩ := hw
  have hr := StepsOk.inRange E Z steps _ hdom.2.1
  have hf : ∀ op ∈ progOps steps, op.passFree := fun op h => (hpass op h).1
  have ht : ∀ op ∈ progOps steps, op.textOk := fun op h => (hpass op h).2
  have hih := parseIhdr_mkIhdr c ⟨by omega, i1⟩ ⟨by omega, i2⟩ i3 i4 hci
  have hord := order_ok_of_shape c (progOps steps) body htx hr hf hb
  have hcon := content_ok_of_shape c (progOps steps) body htx hp hr hf ht hb
  rw [← hcs] at hord hcon
  rw [hch] at hord hcon ⊢
  simp only [validChunks]
  have hty : (mkIhdr c).ty = tyIHDR := rfl
  simp only [hty, ne_eq, not_true_eq_false, if_false, hih]
  have hsk' : skeletonOfChunks (imgOkOf (ihdrOfCfg c)) (ihdrOfCfg c).width (ihdrOfCfg c).height (ihdrOfCfg c).color rest = .ok () := hsk
  simp only [hsk', hord, hcon]

/-- **the whole validator accepts the BYTES a program over both APIs leaves in the sink** -/
theorem prog_validPng (E : Codec) (Z : ZCodec) (c : Cfg) (hw : c.WellFormed) (hsm : c.Small) (hp : c.PayloadsOk)
    (hs : c.SizesOk)
    (hE : Codec.OkWithin (realImgOk (ihdrOfCfg c)) E c.color c.depth c.width c.height)
    (hZ : ZCodec.OkWithin (realImgOk (ihdrOfCfg c)) Z c.color c.depth c.width c.height)
    (steps : List Step) (fin : PFinal) (hdom : StreamDomain E Z c steps fin)
    (hcount : (runProg E Z c {} steps fin).declaredWritten)
    (hpass : ∀ op ∈ progOps steps, op.passOk) (hwire : ∀ op ∈ progOps steps, op.wireOk) :
    validPng (ofList (runProg E Z c {} steps fin).state.sink.bytes) = .ok () := by
  obtain ⟨hv, body, hb, hil, hcs, hby⟩ := prog_validChunks realImgOk E Z c hw hsm hp hE hZ steps fin hdom hcount hpass
  have hr := StepsOk.inRange E Z steps _ hdom.2.1
  have hwireAll : ∀ x ∈ headerChunks c ++ body, x.data.length < 2 ^ 31 ∧ tyLetters x.ty = true := by
    intro x hx
    simp only [List.mem_append] at hx
    rcases hx with hx | hx
    · exact header_wire c hw hp hs x hx
    · exact body_wire hr hwire (hb x hx)
  unfold validPng
  rw [hby, parse_fileBytes _ (fun x hx => (hwireAll x hx).1) (fun x hx => (hwireAll x hx).2) hil]
  simp only
  rw [← hcs]; exact hv

/-- the streaming back-end "filter each row against its predecessor, compress when finished" meets the contract
    under `realImgOk`, for every compressor as in `scanCodec_okWithin` -/
theorem scanZ_okWithin (compress : Bytes → Bytes) (choose : Bytes → Bytes → FilterType) (ih : Ihdr)
    (hi : ih.interlace = 0) (hd : depthOk ih.depth = true) (cw ch : Nat) (hne : ∀ x, compress x ≠ [])
    (hic : ∀ w h x, w ≤ cw → h ≤ ch → x.length = h * (1 + (rawRowLengthFromWidth ih.color ih.depth w - 1)) →
      realInflate (compress x) = some x) :
    ZCodec.OkWithin (realImgOk ih) (scanZ compress choose) ih.color ih.depth cw ch := by
  intro w h hist curs hnf hcl hrows hwr
  have hout : outs (scanZ compress choose) (hist ++ [ZOp.finish]) = compress (writtenOf hist) := by
    rw [outs_snoc, outs, scanZ_quiet compress choose hist [] hnf]; rfl
  rw [hout, hwr, fedRows_scanZ_first compress choose _ _ curs hrows]
  refine ⟨hne _, fun hw hh => ?_⟩
  rw [← specImgOk_iff_realImgOk ih hi hd]
  have hl := encodeScanlines_length (chooseFirst choose) (bytesPerPixel ih.color ih.depth) _ _ hrows []
  rw [hcl] at hl
  simp only [specImgOk, hic w h _ hw hh hl]
  simp only [hl, ne_eq, not_true_eq_false, if_false]
  have hdec := decode_encode_scanlines (chooseFirst choose) (bytesPerPixel ih.color ih.depth) _ _ hrows [] []
  rw [hcl, List.append_nil] at hdec
  rw [hdec]

/-- `prog_validPng` for the two scanline back-ends with one compressor -/
theorem scan_prog_validPng (compress : Bytes → Bytes) (choose chooseZ : Bytes → Bytes → FilterType)
    (c : Cfg) (hw : c.WellFormed) (hsm : c.Small) (hp : c.PayloadsOk) (hs : c.SizesOk) (hne : ∀ x, compress x ≠ [])
    (hic : ∀ w h x, w ≤ c.width → h ≤ c.height → x.length = h * (1 + (rawRowLengthFromWidth c.color c.depth w - 1)) →
      realInflate (compress x) = some x)
    (steps : List Step) (fin : PFinal)
    (hdom : StreamDomain (scanCodec compress choose) (scanZ compress chooseZ) c steps fin)
    (hcount : (runProg (scanCodec compress choose) (scanZ compress chooseZ) c {} steps fin).declaredWritten)
    (hpass : ∀ op ∈ progOps steps, op.passOk) (hwire : ∀ op ∈ progOps steps, op.wireOk) :
    validPng (ofList (runProg (scanCodec compress choose) (scanZ compress chooseZ) c {} steps fin).state.sink.bytes) = .ok () :=
  prog_validPng _ _ c hw hsm hp hs
    (scanCodec_okWithin compress choose (ihdrOfCfg c) rfl hw.1.2.2.2.1 c.width c.height hne hic)
    (scanZ_okWithin compress chooseZ (ihdrOfCfg c) rfl hw.1.2.2.2.1 c.width c.height hne hic)
    steps fin hdom hcount hpass hwire

end Png.Enc
