import PngVerif.Proofs.LazyRefineZ
/-!
# `Reader` refines `Lazy`, part 8: the frames of an animation as a `Tail`

From the byte layout of the `fcTL` / `fdAT` frames of a well-formed animation (`WellFormed.apngFrames`, `nextHead`) to
the abstract description `Tail` the simulation works with.  The frames are given as in `Proofs/ComposeFrames.lean`:
`(frame control, pieces of the zlib stream, inflated stream)`; here the inflated stream may have ANY length (`FrameD`:
`FrameOk` without `RawOk`).
-/
namespace Png.LazyRefine
open Png Png.Framing Png.WellFormed Png.Reader

/-- a frame after the first: a legal frame control, at least one `fdAT` chunk, the pieces inflate to the third component
    (of any length) -/
structure FrameD (cfg : Cfg) (h : Header) (fr : FrameControl × List Bytes × Bytes) : Prop where
  fc : FcOk h fr.1
  ne : fr.2.1 ≠ []
  len : ∀ z ∈ fr.2.1, 4 + z.length < 2 ^ 32
  inf : cfg.inflate fr.2.1.flatten = some (fr.2.2, true)

/-- the stream decoder between two frames: right behind length and type of the next chunk; `frames` are still to come,
    the next sequence number is `s` -/
structure BetweenD (cfg : Cfg) (h : Header) (d : Dec) (b : Bytes) (i : Info) (s : Nat)
    (frames : List (FrameControl × List Bytes × Bytes)) : Prop where
  core : i.core = h.info.core
  flushed : Flushed d i (nextHead cfg s (framesOf frames)).1 (nextHead cfg s (framesOf frames)).2.1
  avail : b = (nextHead cfg s (framesOf frames)).2.2
  seqNo : SeqOk d.seqNo s
  cap : 26 ≤ d.cap

theorem preEv_fctl (cfg : Cfg) (fc' : FrameControl) :
    ∀ e ∈ [((Ev.chunkBegin 26 fcTL, []) : Ev × Bytes), (.frameControl fc', []),
      (.chunkComplete (cfg.crc (typeBytes fcTL ++ fctlBody fc')) fcTL, [])], PreEv e := by
  intro e he
  simp only [List.mem_cons, List.mem_nil_iff, or_false] at he
  rcases he with rfl | rfl | rfl
  · exact ⟨rfl, by simp, fun _ _ hx => by cases hx; exact ⟨by decide +kernel, by decide +kernel⟩⟩
  · exact ⟨rfl, by simp, fun _ _ hx => by cases hx⟩
  · exact ⟨rfl, by simp, fun _ _ hx => by cases hx⟩

/-- **one frame**: from behind the previous frame's flush, the `fcTL` events and the begin of the first `fdAT` chunk;
    then — whatever the `Limits` budget is set to — the frame's data-chunk sequence, behind which the rest follows -/
theorem between_step (cfg : Cfg) (hI : cfg.InflateOk) (hC : cfg.CrcOk) (h : Header) (hv : h.Valid)
    (fc : FrameControl) (zs : List Bytes) (raw : Bytes) (rest : List (FrameControl × List Bytes × Bytes))
    (d : Dec) (b : Bytes) (i : Info) (s : Nat) (hB : BetweenD cfg h d b i s ((fc, zs, raw) :: rest))
    (hfo : FrameD cfg h (fc, zs, raw)) (hseq : s + (1 + zs.length) < 2 ^ 32) :
    ∃ fc' len dM bM i', fc'.width = fc.width ∧ fc'.height = fc.height ∧ i' = { i with fctl := some fc' } ∧
      Trace cfg (fun _ => True) d b
        ([(.chunkBegin 26 fcTL, []), (.frameControl fc', []),
          (.chunkComplete (cfg.crc (typeBytes fcTL ++ fctlBody fc')) fcTL, [])] ++ [(.chunkBegin len fdAT, [])]) dM bM ∧
      dM.info = some i' ∧ dM.out = [] ∧ dM.limit = d.limit ∧
      ∀ l : Nat, ∃ pend dEnd bEnd, DataEvs pend ∧
        Trace cfg (fun d => d.info = some i') { dM with limit := l } bM pend dEnd bEnd ∧ dataOf pend = raw ∧
        BetweenD cfg h dEnd bEnd i' (s + 1 + zs.length) rest ∧ dEnd.limit = l := by
  obtain ⟨hw1, hw2, hh1, hh2, hleg⟩ := hv
  obtain ⟨hfc, hne, hlen, hinf⟩ := hfo
  simp only at hfc hne hlen hinf
  cases zs with
  | nil => exact absurd rfl hne
  | cons z zs =>
    have hcore' := hB.core
    simp only [Info.core, Header.info, Prod.mk.injEq] at hcore'
    obtain ⟨c1, c2, c3, c4, c5⟩ := hcore'
    generalize hfc' : ({ fc with seq := s } : FrameControl) = fc'
    have hfw : fc'.width = fc.width := by rw [← hfc']
    have hfh : fc'.height = fc.height := by rw [← hfc']
    have hfits : fc'.Fits := by
      rw [← hfc']
      refine ⟨by show s < 2 ^ 32; omega, ?_, ?_, ?_, ?_, hfc.dn, hfc.dd, ?_, ?_⟩
      · show fc.width < 2 ^ 32; have := hfc.xw; omega
      · show fc.height < 2 ^ 32; have := hfc.yh; omega
      · show fc.x < 2 ^ 32; have := hfc.xw; omega
      · show fc.y < 2 ^ 32; have := hfc.yh; omega
      · show fc.dispose < 256; have := hfc.dis; omega
      · show fc.blend < 256; have := hfc.bl; omega
    have hinb : fctlInBounds i fc' = true := by
      rw [fctlInBounds_iff, ← hfc']
      exact ⟨hfc.w1, hfc.h1, by rw [c1]; exact hfc.xw, by rw [c2]; exact hfc.yh⟩
    have hnh : nextHead cfg s (framesOf ((fc, z :: zs, raw) :: rest)) =
        (26, fcTL, fctlBody fc' ++ (be32Bytes (cfg.crc (typeBytes fcTL ++ fctlBody fc')) ++
          (fdats cfg s (z :: zs) ++ (apngFrames cfg (s + 1 + (z :: zs).length) (framesOf rest) ++ chunk cfg IEND [])))) := by
      rw [← hfc']; rfl
    have hfl := hB.flushed
    have hav := hB.avail
    rw [hnh] at hfl hav
    simp only at hfl hav
    generalize hs' : s + 1 + (z :: zs).length = s' at hav ⊢
    obtain ⟨hl1, hl2, hl3, hl4⟩ := nextHead_facts cfg s' (framesOf rest)
    have htail := nextHead_eq cfg s' (framesOf rest)
    generalize hLn : (nextHead cfg s' (framesOf rest)).1 = lenN at *
    generalize hTn : (nextHead cfg s' (framesOf rest)).2.1 = tN at *
    generalize hRn : (nextHead cfg s' (framesOf rest)).2.2 = restN at *
    rw [htail, fdats_cons, List.append_assoc, chunk_append] at hav
    have hl4z : (be32Bytes (s + 1) ++ z).length = 4 + z.length := by simp [be32Bytes_length]
    rw [hl4z] at hav
    have hzl := hlen z (by simp)
    obtain ⟨dM, Thead, hatM, hlimM, hcapM, _⟩ := frame_head_trace cfg hC fc' (4 + z.length)
      (be32Bytes (s + 1) ++ z ++ (be32Bytes (cfg.crc (typeBytes fdAT ++ (be32Bytes (s + 1) ++ z))) ++
        (fdats cfg (s + 1) zs ++ (be32Bytes lenN ++ typeBytes tN ++ restN))))
      hfl hB.cap hfits (by rw [← hfc']; exact hB.seqNo) (by rw [← hfc']; exact hfc.dis)
      (by rw [← hfc']; exact hfc.bl) hinb hzl (by omega)
    have hseqM : fc'.seq = s := by rw [← hfc']
    rw [hseqM] at hatM
    generalize hi' : ({ i with fctl := some fc' } : Info) = i' at hatM
    have hcorei : i'.core = i.core := by rw [← hi']; rfl
    refine ⟨fc', 4 + z.length, dM, _, i', hfw, hfh, hi'.symm, by rw [hav]; exact Thead, hatM.info, hatM.out, hlimM, ?_⟩
    intro l
    simp only [List.length_cons] at hseq hs'
    obtain ⟨pend, dEnd, Tdata, hev, hdata, hfluE, hkE, hsqE⟩ := fdat_sequence_trace cfg hI hC i' raw restN lenN tN hl1 hl2 hl4
      z zs { dM with limit := l } s (hatM.setLimit _)
      (fun z' hz' => hlen z' (by simp [hz'])) (by omega) hinf
    refine ⟨pend, dEnd, restN, hev, Tdata, hdata, ⟨hcorei.trans hB.core, ?_, ?_, ?_, ?_⟩, hkE.limit⟩
    · rw [hLn, hTn]; exact hfluE
    · rw [hRn]
    · rw [hsqE, ← hs']; exact ⟨by omega, by omega⟩
    · rw [hkE.cap]; show dM.cap ≥ 26; rw [hcapM]; exact hB.cap

theorem dec_limit_self (d : Dec) : ({ d with limit := d.limit } : Dec) = d := by cases d; rfl

/-- behind the data of a frame, a well-formed animation goes on to `IEND` and ends there -/
theorem toEnd_between (cfg : Cfg) (hI : cfg.InflateOk) (hC : cfg.CrcOk) (h : Header) (hv : h.Valid) :
    ∀ (frames : List (FrameControl × List Bytes × Bytes)) (d : Dec) (b : Bytes) (i : Info) (s : Nat),
      (∀ fr ∈ frames, FrameD cfg h fr) → s + (frames.map fun x => 1 + x.2.1.length).sum < 2 ^ 32 →
      BetweenD cfg h d b i s frames → ToEnd cfg d b := by
  intro frames
  induction frames with
  | nil =>
    intro d b i s _ _ hB
    have hfl := hB.flushed
    have hav := hB.avail
    simp only [framesOf, List.map_nil, nextHead] at hfl hav
    obtain ⟨d', htr, _, _, _⟩ := iend_trace cfg hC hfl []
    refine ⟨[(.chunkBegin 0 IEND, []), (.partialChunk IEND, [])], d', ?_, ?_⟩
    · intro e he
      simp only [List.mem_cons, List.mem_nil_iff, or_false] at he
      rcases he with rfl | rfl <;> simp
    · rw [hav]
      simpa using htr.mono (fun _ _ => trivial)
  | cons fr rest ih =>
    intro d b i s hok hseq hB
    obtain ⟨fc, zs, raw⟩ := fr
    simp only [List.map_cons, List.sum_cons] at hseq
    obtain ⟨fc', len, dM, bM, i', _, _, _, Thead, hiM, hoM, _, hdata⟩ :=
      between_step cfg hI hC h hv fc zs raw rest d b i s hB (hok _ (by simp)) (by omega)
    obtain ⟨pend, dEnd, bEnd, hev, Tdata, _, hB', _⟩ := hdata dM.limit
    rw [dec_limit_self dM] at Tdata
    obtain ⟨evs, dE, hevs, htrE⟩ := ih dEnd bEnd i' (s + 1 + zs.length) (fun fr hfr => hok fr (by simp [hfr]))
      (by omega) hB'
    refine ⟨([(.chunkBegin 26 fcTL, []), (.frameControl fc', []),
      (.chunkComplete (cfg.crc (typeBytes fcTL ++ fctlBody fc')) fcTL, [])] ++ [(.chunkBegin len fdAT, [])]) ++
      (pend ++ evs), dE, ?_, ?_⟩
    · intro e he
      simp only [List.mem_append, List.mem_cons, List.mem_nil_iff, or_false] at he
      rcases he with ((rfl | rfl | rfl) | rfl) | he | he
      · simp
      · simp
      · simp
      · simp
      · exact dataEvs_not_end hev e he
      · exact hevs e he
    · have h1 := Thead.append ((Tdata.mono (fun _ _ => trivial)).append htrE)
      simpa [List.append_assoc] using h1

/-- `1 + rowBytes w` is the `rowlen` of the decoder -/
theorem one_add_rowBytes (h : Header) (hd : depthOk h.depth = true) (w : Nat) :
    1 + h.rowBytes w = rawRowLengthFromWidth h.color h.depth w := by
  rw [rowBytes_eq h hd]
  simp only [rawRowLengthFromWidth]
  omega

/-- the row-unit lengths of a (sub)frame as the `Reader` model computes them -/
theorem rowlensOf_eq (g : Header) (hd : depthOk g.depth = true) (i' : Info) (hc : i'.color = g.color) (hdp : i'.depth = g.depth) :
    rowlensOf g = (scan g.interlaced g.width g.height).map (rlOf i') := by
  unfold rowlensOf
  rw [scanlines_eq_scan]
  apply List.map_congr_left
  intro x _
  simp only [rlOf, hc, hdp]
  exact one_add_rowBytes g hd x.2.2

/-- the frames after the first as the simulation sees them: geometry, `Lazy` frame, arrival -/
def tl3 (h : Header) (frames : List (FrameControl × List Bytes × Bytes)) (arrs : List Lazy.Arrival) :
    List (Header × Lazy.Frame × Lazy.Arrival) :=
  (frames.map fun fr => h.frame fr.1).zip ((frames.map fun fr => absFrame (h.frame fr.1) fr.2.2).zip arrs)

/-- **the frames of a well-formed animation form a `Tail`**, for arrivals that hand out exactly each frame's data -/
theorem tail_between (cfg : Cfg) (hI : cfg.InflateOk) (hC : cfg.CrcOk) (h : Header) (hv : h.Valid) (L : Info → Nat) :
    ∀ (frames : List (FrameControl × List Bytes × Bytes)) (d : Dec) (b : Bytes) (i : Info) (s : Nat),
      (∀ fr ∈ frames, FrameD cfg h fr) → s + (frames.map fun x => 1 + x.2.1.length).sum < 2 ^ 32 →
      BetweenD cfg h d b i s frames → ZInv cfg d →
      ∃ arrs : List Lazy.Arrival, arrs.length = frames.length ∧
        (∀ (k : Nat) (fr : FrameControl × List Bytes × Bytes) (a : Lazy.Arrival), frames[k]? = some fr →
          arrs[k]? = some a → a.total = fr.2.2.length) ∧
        (∀ a ∈ arrs, a.last = 0) ∧
        Tail cfg h.interlaced L (tl3 h frames arrs) d b := by
  obtain ⟨hw1, hw2, hh1, hh2, hleg⟩ := hv
  have hd := (legal_pos hleg).2.2
  intro frames
  induction frames with
  | nil =>
    intro d b i s _ _ hB _
    refine ⟨[], rfl, (fun k fr a hk => by simp at hk), (fun a ha => by cases ha), ?_⟩
    have hfl := hB.flushed
    have hav := hB.avail
    simp only [framesOf, List.map_nil, nextHead] at hfl hav
    obtain ⟨d', htr, _, _, _⟩ := iend_trace cfg hC hfl []
    refine ⟨[(.chunkBegin 0 IEND, []), (.partialChunk IEND, [])], d', ?_, ?_⟩
    · intro e he
      simp only [List.mem_cons, List.mem_nil_iff, or_false] at he
      rcases he with rfl | rfl
      · exact ⟨rfl, by simp, fun _ _ hx => by
          cases hx; exact ⟨fun h => IDAT_ne_IEND' h.symm, fun h => fdAT_ne_IEND' h.symm⟩⟩
      · exact ⟨rfl, by simp, fun _ _ hx => by cases hx⟩
    · rw [hav]
      simpa using htr.mono (fun _ _ => trivial)
  | cons fr rest ih =>
    intro d b i s hok hseq hB hz
    obtain ⟨fc, zs, raw⟩ := fr
    simp only [List.map_cons, List.sum_cons] at hseq
    have hto : ToEnd cfg d b :=
      toEnd_between cfg hI hC h ⟨hw1, hw2, hh1, hh2, hleg⟩ _ d b i s hok (by simpa using hseq) hB
    obtain ⟨fc', len, dM, bM, i', hfw, hfh, hi', Thead, hiM, hoM, _, hdata⟩ :=
      between_step cfg hI hC h ⟨hw1, hw2, hh1, hh2, hleg⟩ fc zs raw rest d b i s hB (hok _ (by simp)) (by omega)
    obtain ⟨pend, dEnd, bEnd, hev, Tdata, hdat, hB', _⟩ := hdata (dM.limit - L i')
    have hok' : ∀ fr ∈ rest, FrameD cfg h fr := fun fr hfr => hok fr (by simp [hfr])
    have hzM : ZInv cfg dM := (trace_zinv Thead hB.flushed.out hz).1
    obtain ⟨hzE, hflush⟩ := trace_zinv Tdata hoM (zinv_limit hzM _)
    obtain ⟨arrs, hal, hat, hl0, htl⟩ := ih dEnd bEnd i' (s + 1 + zs.length) hok' (by omega) hB' hzE
    have hto' : ToEnd cfg dEnd bEnd := toEnd_between cfg hI hC h ⟨hw1, hw2, hh1, hh2, hleg⟩ _ dEnd bEnd i' _ hok' (by omega) hB'
    have hcore' := hB.core
    simp only [Info.core, Header.info, Prod.mk.injEq] at hcore'
    obtain ⟨c1, c2, c3, c4, c5⟩ := hcore'
    have hdims : Sub.dims i' = (fc.width, fc.height) := by rw [hi']; simp [Sub.dims, hfw, hfh]
    have hil : i'.interlaced = h.interlaced := by rw [hi']; exact c5
    refine ⟨arrOf pend :: arrs, by simp [hal], ?_, ?_, ?_⟩
    · intro k fr a hk ha
      cases k with
      | zero =>
        simp only [List.getElem?_cons_zero, Option.some.injEq] at hk ha
        subst hk ha
        rw [arrOf_total hev, hdat]
      | succ k =>
        simp only [List.getElem?_cons_succ] at hk ha
        exact hat k fr a hk ha
    · intro a ha
      simp only [List.mem_cons] at ha
      rcases ha with rfl | ha
      · exact arrOf_last_zero hev hflush
      · exact hl0 a ha
    · show Tail cfg h.interlaced L ((h.frame fc, absFrame (h.frame fc) raw, arrOf pend) :: tl3 h rest arrs) d b
      refine ⟨_, len, fdAT, dM, bM, i', Or.inr rfl, preEv_fctl cfg fc', Thead, hiM, hoM, hil, ?_, ?_, rfl, ?_, hto, ?_⟩
      · rw [hdims]; rfl
      · rw [hdims]; rfl
      · show rowlensOf (h.frame fc) = _
        rw [hdims]
        exact rowlensOf_eq (h.frame fc) hd i' (by rw [hi']; exact c4) (by rw [hi']; exact c3)
      · intro _
        exact ⟨pend, dEnd, bEnd, hev, Tdata, rfl, hto', htl⟩

end Png.LazyRefine
