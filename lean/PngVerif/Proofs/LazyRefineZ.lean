import PngVerif.Proofs.LazyRefineRun
/-!
# `Reader` refines `Lazy`, part 11: the arrival the byte-level model induces brings nothing with `Done`

`ZInv` (`Proofs/ReaderPathsZ.lean`: what the inflater produced has been handed out) is kept along every trace, and under
it `ImageDataFlushed` carries no data.  So every arrival `arrOf pend` of the simulation has `last = 0`: the byte-level
model only exhibits arrivals of the eager kind — everything arrives before the end of the data sequence is seen.
-/
namespace Png.LazyRefine
open Png Png.Framing Png.WellFormed Png.Reader

/-- a reader whose stream decoder is `d` and whose visible, unread input is `b` -/
def probe (d : Dec) (b : Bytes) : R := { dec := d, input := b, visible := b.length }

theorem probe_avail (d : Dec) (b : Bytes) : avail (probe d b) = b := by
  simp [avail, probe]

/-- `ZInv` along a trace; a flush carries no data -/
theorem trace_zinv {cfg : Cfg} {P : Dec → Prop} {d d' : Dec} {b b' : Bytes} {evs : List (Ev × Bytes)}
    (h : Trace cfg P d b evs d' b') : d.out = [] → ZInv cfg d →
    ZInv cfg d' ∧ ∀ x ∈ evs, x.1 = .imageDataFlushed → x.2 = [] := by
  induction h with
  | nil d b => intro _ hz; exact ⟨hz, fun x hx => by cases hx⟩
  | @cons d d1 d' b b' n ev rest hne hu hp _ ih =>
    intro ho hz
    have hdn : decodeNext' cfg (probe d b) =
        ({ probe d b with dec := d1.clearOut, pos := (probe d b).pos + n }, .ok (ev, d1.out)) :=
      decodeNext'_ok (r := probe d b) ho (by rw [probe_avail]; exact hne) (by rw [probe_avail]; exact hu)
    have hz1 : ZInv cfg d1.clearOut := by
      have := (zinv_decPred cfg).dn (probe d b) hz
      rw [hdn] at this; exact this
    obtain ⟨hz', hrest⟩ := ih rfl hz1
    refine ⟨hz', fun x hx => ?_⟩
    simp only [List.mem_cons] at hx
    rcases hx with rfl | hx
    · intro hev
      simp only at hev
      subst hev
      exact decodeNext'_flush cfg (r := probe d b) hz hdn
    · exact hrest x hx

theorem arrOf_last_zero : ∀ {pend : List (Ev × Bytes)}, DataEvs pend →
    (∀ x ∈ pend, x.1 = .imageDataFlushed → x.2 = []) → (arrOf pend).last = 0 := by
  intro pend h
  induction h with
  | last dl =>
    intro hf
    have := hf (.imageDataFlushed, dl) (by simp) rfl
    simp only at this
    subst this
    rfl
  | more ev data rest hm hr ih =>
    intro hf
    rw [arrOf_more hr]
    exact ih (fun x hx => hf x (by simp [hx]))

theorem zinv_limit {cfg : Cfg} {d : Dec} (h : ZInv cfg d) (l : Nat) : ZInv cfg { d with limit := l } :=
  (zinv_decPred cfg).limit d l h

end Png.LazyRefine
