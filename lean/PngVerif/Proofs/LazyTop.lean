import PngVerif.Proofs.LazyRel
import PngVerif.Proofs.LazyHist
import PngVerif.Proofs.LazyComplete
/-!
# Lazy reader: the statements about runs of the model from its initial state
-/
namespace Png.Lazy

theorem run_length (e : Env) : ∀ (ops : List Op) (s : St), (run e s ops).2.length = ops.length := by
  intro ops
  induction ops with
  | nil => intro s; rfl
  | cons op ops ih => intro s; simp [run, ih]

theorem run_append (e : Env) : ∀ (ops1 ops2 : List Op) (s : St),
    run e s (ops1 ++ ops2) =
      ((run e (run e s ops1).1 ops2).1, (run e s ops1).2 ++ (run e (run e s ops1).1 ops2).2) := by
  intro ops1
  induction ops1 with
  | nil => intro ops2 s; simp [run]
  | cons op ops ih => intro ops2 s; simp [run, ih]

theorem run_good (e : Env) (hv : e.Valid) (ops : List Op) (s : St) (hg : Good e s) : Good e (run e s ops).1 :=
  (run_refines e hv ops s hg).1

theorem run_no_panic (e : Env) (hv : e.Valid) : ∀ (ops : List Op) (s : St), Good e s →
    ∀ r ∈ (run e s ops).2, ∀ site, r ≠ .panic site := by
  intro ops
  induction ops with
  | nil => intro s _ r hr; simp [run] at hr
  | cons op ops ih =>
    intro s hg r hr site
    simp only [run, List.mem_cons] at hr
    rcases hr with hr | hr
    · rw [hr]; exact step_no_panic e hv s hg op site
    · exact ih _ (step_refines e hv s hg op).1 r hr site

/-- a run of the model from its initial state is a run of the specification (oracle bits: `cafs`) -/
theorem run_is_spec_run (e : Env) (hv : e.Valid) (rem0 : Nat) (hr : 1 ≤ rem0) (s0 : St)
    (hinit : init e rem0 = some s0) (ops : List Op) :
    Spec.init e.frames rem0 = some s0.abs ∧
    Spec.run e.frames s0.abs ops (cafs e s0 ops) = ((run e s0 ops).1.abs, (run e s0 ops).2) := by
  obtain ⟨hg, hs⟩ := init_good e hv rem0 hr s0 hinit
  exact ⟨hs, (run_refines e hv ops s0 hg).2⟩

theorem cutFatal_of_none : ∀ (rs : List Res), (∀ r ∈ rs, fatal r = false) → cutFatal rs = rs := by
  intro rs
  induction rs with
  | nil => intro _; rfl
  | cons r rs ih =>
    intro h
    have h1 := h r (by simp)
    simp only [cutFatal, h1, Bool.false_eq_true, if_false]
    rw [ih (fun r' hr' => h r' (by simp [hr']))]

theorem cutFatal_length_le : ∀ (rs : List Res), (cutFatal rs).length ≤ rs.length := by
  intro rs
  induction rs with
  | nil => simp [cutFatal]
  | cons r rs ih => simp only [cutFatal]; split <;> simp; exact ih

/-- if the cut list is as long as the list, nothing was cut -/
theorem cutFatal_full : ∀ (rs : List Res), (cutFatal rs).length = rs.length → cutFatal rs = rs := by
  intro rs
  induction rs with
  | nil => intro _; rfl
  | cons r rs ih =>
    intro h
    cases hf : fatal r with
    | true =>
      simp only [cutFatal, hf, if_true, List.length_cons, List.length_nil] at h ⊢
      cases rs with
      | nil => rfl
      | cons _ _ => simp at h
    | false =>
      simp only [cutFatal, hf, Bool.false_eq_true, if_false, List.length_cons, Nat.add_right_cancel_iff] at h ⊢
      rw [ih h]

theorem arrival_independent_cut (e1 e2 : Env) (hf : e1.frames = e2.frames) (hv1 : e1.Valid) (hv2 : e2.Valid)
    (rem0 : Nat) (hr : 1 ≤ rem0) (s1 s2 : St) (h1 : init e1 rem0 = some s1) (h2 : init e2 rem0 = some s2)
    (ops : List Op) (hp : polledRes e1.frames false ops (run e1 s1 ops).2 = true) :
    cutFatal (run e1 s1 ops).2 = cutFatal (run e2 s2 ops).2 := by
  obtain ⟨i1, r1⟩ := run_is_spec_run e1 hv1 rem0 hr s1 h1 ops
  obtain ⟨i2, r2⟩ := run_is_spec_run e2 hv2 rem0 hr s2 h2 ops
  rw [← hf] at i2 r2
  have habs : s1.abs = s2.abs := by rw [i1] at i2; exact Option.some.inj i2
  have hsi := Spec.init_sinv hr i1
  have hrel : Spec.Rel e1.frames false s1.abs s2.abs := by
    rw [← habs]; exact Spec.rel_refl hsi (fun h => by simp at h)
  have := Spec.spec_run_rel e1.frames ops false s1.abs s2.abs (cafs e1 s1 ops) (cafs e2 s2 ops) hrel
    (by rw [r1]; exact hp)
  rw [r1, r2] at this
  exact this

theorem arrival_independent_nofatal (e1 e2 : Env) (hf : e1.frames = e2.frames) (hv1 : e1.Valid) (hv2 : e2.Valid)
    (rem0 : Nat) (hr : 1 ≤ rem0) (s1 s2 : St) (h1 : init e1 rem0 = some s1) (h2 : init e2 rem0 = some s2)
    (ops : List Op) (hp : polledRes e1.frames false ops (run e1 s1 ops).2 = true)
    (hnf : ∀ r ∈ (run e1 s1 ops).2, fatal r = false) :
    (run e1 s1 ops).2 = (run e2 s2 ops).2 := by
  have hc := arrival_independent_cut e1 e2 hf hv1 hv2 rem0 hr s1 s2 h1 h2 ops hp
  rw [cutFatal_of_none _ hnf] at hc
  have hl : (cutFatal (run e2 s2 ops).2).length = (run e2 s2 ops).2.length := by
    rw [← hc, run_length, run_length]
  rw [cutFatal_full _ hl] at hc
  exact hc

theorem complete_nofatal (e : Env) (hv : e.Valid) (rem0 : Nat) (hr : 1 ≤ rem0) (hc : rem0 ≤ e.frames.length)
    (s0 : St) (h0 : init e rem0 = some s0) (ops : List Op) : ∀ r ∈ (run e s0 ops).2, fatal r = false := by
  obtain ⟨i1, r1⟩ := run_is_spec_run e hv rem0 hr s0 h0 ops
  have := Spec.compl_run e.frames ops s0.abs (cafs e s0 ops) (Spec.compl_init i1 hr hc)
  rw [r1] at this
  exact this

/-- the row accounting of a run from the initial state -/
theorem run_hist (e : Env) (hv : e.Valid) (rem0 : Nat) (hr : 1 ≤ rem0) (s0 : St) (h0 : init e rem0 = some s0)
    (ops : List Op) : Spec.Hist e.frames (run e s0 ops).1.abs (run e s0 ops).2 ∧
      Spec.SInv e.frames (run e s0 ops).1.abs := by
  obtain ⟨i1, r1⟩ := run_is_spec_run e hv rem0 hr s0 h0 ops
  have hsi := Spec.init_sinv hr i1
  have := Spec.hist_run e.frames ops s0.abs (cafs e s0 ops) [] (Spec.hist_init i1) hsi
  rw [r1] at this
  simp only [List.nil_append] at this
  refine ⟨this, ?_⟩
  have hrun : ∀ (ops : List Op) (a : Spec.A) (bs : List Bool), Spec.SInv e.frames a →
      Spec.SInv e.frames (Spec.run e.frames a ops bs).1 := by
    intro ops
    induction ops with
    | nil => intro a bs h; exact h
    | cons op ops ih => intro a bs h; exact ih _ _ (Spec.step_sinv op _ h)
  have := hrun ops s0.abs (cafs e s0 ops) hsi
  rw [r1] at this
  exact this


theorem valid_of_validB (e : Env) (h : e.validB = true) : e.Valid := by
  simp only [Env.validB, Bool.and_eq_true, beq_iff_eq, List.all_eq_true] at h
  refine ⟨h.1, ?_⟩
  intro k f a hf ha
  have : (f, a) ∈ e.frames.zip e.arrs := by
    rw [List.mem_iff_getElem?]
    exact ⟨k, by rw [List.getElem?_zip_eq_some]; exact ⟨hf, ha⟩⟩
  exact h.2 _ this

end Png.Lazy
