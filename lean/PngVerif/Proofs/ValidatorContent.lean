import PngVerif.Proofs.ValidatorOrder
import PngVerif.Proofs.ValidatorBytes
import PngVerif.Proofs.Text
import PngVerif.Model.EncodeMeta
/-!
# The payload pass of the validator (`contentOk`) and the IHDR rules accept the writer model's output

Part 1: `parseIhdr` reads back the IHDR chunk of the model (`parseIhdr_mkIhdr`).
Part 2: the structure of `contentOk`: only the tRNS rule looks at the IHDR / the palette
        (`contentOk_eq_payloadRule`); chunk types without a rule (`contentOk_unruled`); `firstError`.
Part 3: `Cfg.PayloadsOk` — what a configuration must satisfy for its header chunks to pass, in terms of the
        RAW payloads the `Cfg` of `Model/Encoder.lean` carries — and `content_ok_header`.
Part 4: the chunks after the header (`content_ok_body`), `plteEntriesOf`, and `content_ok_of_shape`.
Part 5: the payloads built by the typed encoders of `Model/EncodeMeta.lean` / `Model/Text.lean`
        (`PixelDimensions`, `SrgbRenderingIntent`, `SourceChromaticities`, `write_iccp_chunk`, the three
        `EncodableTextChunk::encode`) satisfy the conditions of `Cfg.PayloadsOk` — these conditions are
        unrepresentable-to-violate in the typed API.  The tRNS and PLTE conditions are NOT of that kind:
        `Info::trns` / `Info::palette` are raw byte blobs the encoder writes unchecked (see
        `trns_rgba_rejected` in `Props/C12Valid.lean`).
-/
namespace Png.Enc
open Png Png.Val Png.Spec

/-! ## Part 1: IHDR -/

/-- the IHDR the validator reads back from the model's IHDR chunk: interlace method 0 -/
def ihdrOfCfg (c : Cfg) : Ihdr := { width := c.width, height := c.height, depth := c.depth, color := c.color, interlace := 0 }

theorem legalPair_of_ok {color depth : Nat} (hc : colorOk color = true) (hd : depthOk depth = true)
    (hi : combinationInvalid color depth = false) : legalPair color depth = true := by
  simp only [colorOk, Bool.or_eq_true, beq_iff_eq] at hc
  simp only [depthOk, Bool.or_eq_true, beq_iff_eq] at hd
  rcases hc with (((hc | hc) | hc) | hc) | hc <;> rcases hd with (((hd | hd) | hd) | hd) | hd <;>
    subst hc <;> subst hd <;> first | rfl | (revert hi; decide)

theorem small_toUInt8_toNat (n : Nat) (h : n < 256) : n.toUInt8.toNat = n := by
  rw [toU8_toNat]; omega

theorem parseIhdr_mkIhdr (c : Cfg) (hw : 0 < c.width ∧ c.width < 2 ^ 32) (hh : 0 < c.height ∧ c.height < 2 ^ 32)
    (hc : colorOk c.color = true) (hd : depthOk c.depth = true) (hi : combinationInvalid c.color c.depth = false) :
    parseIhdr (ofList (mkIhdr c).data) = .ok (ihdrOfCfg c) := by
  have hcl : c.color < 256 := by
    simp only [colorOk, Bool.or_eq_true, beq_iff_eq] at hc; omega
  have hdl : c.depth < 256 := by
    simp only [depthOk, Bool.or_eq_true, beq_iff_eq] at hd; omega
  have hlp := legalPair_of_ok hc hd hi
  have e1 : be32At (be32Bytes c.width ++ be32Bytes c.height ++ [c.depth.toUInt8, c.color.toUInt8, 0, 0, 0]) 0 = c.width := by
    simp [be32At, be32Bytes, be32_bytes, hw.2]
  have e2 : be32At (be32Bytes c.width ++ be32Bytes c.height ++ [c.depth.toUInt8, c.color.toUInt8, 0, 0, 0]) 4 = c.height := by
    simp [be32At, be32Bytes, be32_bytes, hh.2]
  simp only [parseIhdr, mkIhdr, ofList_size, rd32_ofList, ofList_get!, e1, e2]
  simp only [be32Bytes, List.cons_append, List.nil_append, List.length_cons, List.length_nil, List.getD_cons_succ, List.getD_cons_zero]
  simp [small_toUInt8_toNat _ hcl, small_toUInt8_toNat _ hdl, hlp, ihdrOfCfg]
  omega

/-! ## Part 2: structure of `contentOk` -/

/-- the payload rules that involve neither the IHDR nor the palette (everything except tRNS) -/
def payloadRule (c : RChunk) : Except String Unit := contentOk ⟨1, 1, 8, 0, 0⟩ 0 c

theorem contentOk_eq_payloadRule (ih : Ihdr) (n : Nat) (c : RChunk) (h : c.ty ≠ tyTRNS) :
    contentOk ih n c = payloadRule c := by
  unfold payloadRule contentOk
  simp only [h, if_false]

/-- the chunk types `contentOk` has a rule for -/
def contentTypes : List Ty := [tyTRNS, tyGAMA, tyCHRM, tySRGB, tyPHYS, tyTEXT, tyZTXT, tyITXT, tyICCP]

theorem contentOk_unruled (ih : Ihdr) (n : Nat) (c : RChunk) (h : c.ty ∉ contentTypes) : contentOk ih n c = .ok () := by
  simp only [contentTypes, List.mem_cons, List.not_mem_nil, or_false, not_or] at h
  obtain ⟨h1, h2, h3, h4, h5, h6, h7, h8, h9⟩ := h
  unfold contentOk
  simp only [h1, h2, h3, h4, h5, h6, h7, h8, h9, if_false]

theorem contentTypes_ruled {t : Ty} (h : t ∈ contentTypes) : t ∈ ruledTypes := by
  simp only [contentTypes, List.mem_cons, List.not_mem_nil, or_false] at h
  rcases h with h | h | h | h | h | h | h | h | h <;> subst h <;> decide

theorem firstError_ok {α : Type} (f : α → Except String Unit) : ∀ l : List α, (∀ x ∈ l, f x = .ok ()) → firstError f l = .ok () := by
  intro l
  induction l with
  | nil => intro _; rfl
  | cons x xs ih =>
    intro h
    simp only [firstError, h x (by simp)]
    exact ih (fun y hy => h y (by simp [hy]))

/-! ## Part 3: the header chunks -/

/-- the tRNS rule of the specification (11.3.2.1): forbidden with an alpha channel; one 16-bit sample for
    greyscale, three for truecolour; at most one byte per palette entry for indexed colour -/
def trnsRule (color plteEntries n : Nat) : Prop :=
  color ≠ 4 ∧ color ≠ 6 ∧ (color = 0 → n = 2) ∧ (color = 2 → n = 6) ∧ (color = 3 → 0 < n ∧ n ≤ plteEntries)

instance (color p n : Nat) : Decidable (trnsRule color p n) := by unfold trnsRule; infer_instance

theorem contentOk_trns (ih : Ihdr) (p : Nat) (t : Bytes) (h : trnsRule ih.color p t.length) :
    contentOk ih p ⟨tyTRNS, t⟩ = .ok () := by
  obtain ⟨h1, h2, h3, h4, h5⟩ := h
  unfold contentOk
  simp only [if_true]
  have a1 : ¬ (ih.color = 4 ∨ ih.color = 6) := by omega
  have a2 : ¬ (ih.color = 0 ∧ t.length ≠ 2) := by intro ⟨x, y⟩; exact y (h3 x)
  have a3 : ¬ (ih.color = 2 ∧ t.length ≠ 6) := by intro ⟨x, y⟩; exact y (h4 x)
  have a4 : ¬ (ih.color = 3 ∧ (t.length = 0 ∨ t.length > p)) := by intro ⟨x, y⟩; have := h5 x; omega
  simp only [a1, a2, a3, a4, if_false]

/-- number of palette entries of a configuration -/
def Cfg.plteEntries (c : Cfg) : Nat :=
  match c.palette with
  | some p => p.length / 3
  | none => 0

/-- **the conditions on the raw payloads of a configuration** under which the payload pass accepts the
    header chunks.  pHYs: 9 bytes, unit 0 or 1; sRGB: a rendering intent 0..3; cHRM (written as given only
    without sRGB): 32 bytes; iCCP (written only without sRGB): the validator's iCCP rule (name of 1..79
    bytes, NUL, method 0, one whole zlib stream); tRNS: `trnsRule`; every text chunk: the validator's rule
    for its type.  gAMA (always 4 bytes) and eXIf (no rule) need nothing. -/
def Cfg.PayloadsOk (c : Cfg) : Prop :=
  (∀ p ∈ c.md.phys, p.length = 9 ∧ (p.getD 8 0).toNat ≤ 1) ∧
  (∀ i ∈ c.md.srgb, i ≤ 3) ∧
  (c.md.srgb = none → ∀ b ∈ c.md.chrm, b.length = 32) ∧
  (c.md.srgb = none → ∀ d ∈ c.md.iccp, payloadRule ⟨tyICCP, d⟩ = .ok ()) ∧
  (∀ t ∈ c.trns, trnsRule c.color c.plteEntries t.length) ∧
  (∀ r, some r ∈ c.texts → payloadRule r = .ok ())

instance (c : Cfg) : Decidable c.PayloadsOk := by
  unfold Cfg.PayloadsOk
  have : Decidable (∀ r, some r ∈ c.texts → payloadRule r = .ok ()) :=
    decidable_of_iff (∀ t ∈ c.texts, ∀ r, t = some r → payloadRule r = .ok ()) (by
      constructor
      · intro h r hr; exact h (some r) hr r rfl
      · intro h t ht r hr; subst hr; exact h r ht)
  infer_instance

theorem substChrm_length : substChrm.length = 32 := by decide

/-! the branches of `contentOk`, one per chunk type -/

theorem contentOk_phys (ih : Ihdr) (n : Nat) (d : Bytes) (h1 : d.length = 9) (h2 : (d.getD 8 0).toNat ≤ 1) :
    contentOk ih n ⟨tyPHYS, d⟩ = .ok () := by
  have a2 : ¬ ((d.getD 8 0).toNat > 1) := by omega
  simp (config := { decide := true }) only [contentOk, h1, a2, if_false, if_true, ne_eq]

theorem contentOk_srgb (ih : Ihdr) (n : Nat) (b : UInt8) (h : b.toNat ≤ 3) :
    contentOk ih n ⟨tySRGB, [b]⟩ = .ok () := by
  have a2 : ¬ (b.toNat > 3) := by omega
  simp (config := { decide := true }) only [contentOk, List.length_singleton, List.getD_cons_zero, a2, if_false, if_true,
    ne_eq]

theorem contentOk_gama (ih : Ihdr) (n : Nat) (d : Bytes) (h : d.length = 4) : contentOk ih n ⟨tyGAMA, d⟩ = .ok () := by
  simp (config := { decide := true }) only [contentOk, h, if_false, if_true]

theorem contentOk_chrm (ih : Ihdr) (n : Nat) (d : Bytes) (h : d.length = 32) : contentOk ih n ⟨tyCHRM, d⟩ = .ok () := by
  simp (config := { decide := true }) only [contentOk, h, if_false, if_true]

theorem content_pre (ih : Ihdr) (n : Nat) (c : Cfg) (hp : c.PayloadsOk) :
    ∀ x ∈ preChunks c.md, contentOk ih n x = .ok () := by
  obtain ⟨p1, p2, p3, p4, _, _⟩ := hp
  intro x hx
  simp only [preChunks, List.mem_append] at hx
  rcases hx with (hx | hx) | hx
  · cases hph : c.md.phys with
    | none => simp [hph, optChunk] at hx
    | some p =>
      simp only [hph, optChunk, List.mem_singleton] at hx
      subst hx
      obtain ⟨q1, q2⟩ := p1 p (by simp [hph])
      exact contentOk_phys _ _ _ q1 q2
  · cases hs : c.md.srgb with
    | some i =>
      have hi := p2 i (by simp [hs])
      simp only [hs, List.mem_append, List.mem_cons, List.not_mem_nil, or_false] at hx
      rcases hx with (hx | hx) | hx
      · subst hx
        exact contentOk_srgb _ _ _ (by rw [small_toUInt8_toNat i (by omega)]; exact hi)
      · split at hx <;> simp at hx
        subst hx
        exact contentOk_gama _ _ _ (be32Bytes_length _)
      · split at hx <;> simp at hx
        subst hx
        exact contentOk_chrm _ _ _ substChrm_length
    | none =>
      simp only [hs, List.mem_append] at hx
      rcases hx with (hx | hx) | hx
      · cases hg : c.md.gama with
        | none => simp [hg, optChunk] at hx
        | some g =>
          simp only [hg, Option.map_some, optChunk, List.mem_singleton] at hx
          subst hx
          exact contentOk_gama _ _ _ (be32Bytes_length _)
      · cases hch : c.md.chrm with
        | none => simp [hch, optChunk] at hx
        | some b =>
          simp only [hch, optChunk, List.mem_singleton] at hx
          subst hx
          exact contentOk_chrm _ _ _ (p3 hs b (by simp [hch]))
      · cases hic : c.md.iccp with
        | none => simp [hic, optChunk] at hx
        | some d =>
          simp only [hic, optChunk, List.mem_singleton] at hx
          subst hx
          rw [contentOk_eq_payloadRule _ _ _ (by show tyICCP ≠ tyTRNS; decide)]
          exact p4 hs d (by simp [hic])
  · have := optChunk_ty hx
    exact contentOk_unruled ih n x (by rw [this]; decide)

theorem textTypes_ne_trns {t : Ty} (h : t ∈ textTypes) : t ≠ tyTRNS := by
  intro h'; rw [h'] at h; revert h; decide

/-- the payload pass accepts every header chunk (`n` = the number of palette entries of the configuration) -/
theorem content_ok_header (c : Cfg) (htx : ∀ r, some r ∈ c.texts → r.ty ∈ textTypes) (hp : c.PayloadsOk) :
    ∀ x ∈ headerChunks c, contentOk (ihdrOfCfg c) c.plteEntries x = .ok () := by
  intro x hx
  rw [headerChunks_eq'] at hx
  simp only [List.mem_append] at hx
  rcases hx with hx | hx | hx | hx
  · rcases headerPre_mem c hx with h | h | ⟨n, p, _, h⟩
    · subst h; exact contentOk_unruled _ _ _ (by show tyIHDR ∉ contentTypes; decide)
    · exact content_pre _ _ c hp x h
    · subst h; exact contentOk_unruled _ _ _ (by show tyACTL ∉ contentTypes; decide)
  · exact contentOk_unruled _ _ _ (by rw [optChunk_ty hx]; decide)
  · cases ht : c.trns with
    | none => simp [ht, optChunk] at hx
    | some t =>
      simp only [ht, optChunk, List.mem_singleton] at hx
      subst hx
      exact contentOk_trns _ _ _ (hp.2.2.2.2.1 t (by simp [ht]))
  · have hm := textPrefix_mem c.texts x hx
    rw [contentOk_eq_payloadRule _ _ _ (textTypes_ne_trns (htx x hm))]
    exact hp.2.2.2.2.2 x hm

/-! ## Part 4: the chunks after the header, and whole lists -/

/-- what C12 asks of a text chunk the caller passes through `Writer::write_text_chunk`: the payload the
    `encode` function built satisfies the validator's rule for its type (`tEXt_payload_ok`, … : it always does) -/
def Op.textOk : Op → Prop
  | .text (some c) => payloadRule c = .ok ()
  | _ => True

instance (o : Op) : Decidable o.textOk := by
  cases o <;> try (simp only [Op.textOk]; infer_instance)
  rename_i b; cases b <;> simp only [Op.textOk] <;> infer_instance

theorem content_ok_body (ih : Ihdr) (n : Nat) {ops : List Op} (hr : ∀ op ∈ ops, op.inRange)
    (hf : ∀ op ∈ ops, op.passFree) (ht : ∀ op ∈ ops, op.textOk) {b : RChunk} (hb : BodyChunk ops b) :
    contentOk ih n b = .ok () := by
  cases hb with
  | fctl f => exact contentOk_unruled _ _ _ (by show tyFCTL ∉ contentTypes; decide)
  | data ty d h _ => exact contentOk_unruled _ _ _ (by show ty ∉ contentTypes; rcases h with h | h <;> subst h <;> decide)
  | raw ty d hm _ => exact contentOk_unruled _ _ _ (fun h => hf _ hm (contentTypes_ruled h))
  | text _ hm =>
    have h1 : b.ty ∈ textTypes := hr _ hm
    have h2 : payloadRule b = .ok () := ht _ hm
    rw [contentOk_eq_payloadRule _ _ _ (textTypes_ne_trns h1)]
    exact h2
  | iend => exact contentOk_unruled _ _ _ (by show tyIEND ∉ contentTypes; decide)

theorem BodyChunk.not_plte {ops : List Op} (hr : ∀ op ∈ ops, op.inRange) (hf : ∀ op ∈ ops, op.passFree)
    {b : RChunk} (hb : BodyChunk ops b) : (b.ty == tyPLTE) = false := by
  have := hb.not_placed hr hf
  simp only [placedTypes, List.mem_cons, not_or] at this
  simpa using this.1

theorem find_none_of_types (l : List RChunk) (h : ∀ x ∈ l, (x.ty == tyPLTE) = false) :
    l.find? (·.ty == tyPLTE) = none := by
  rw [List.find?_eq_none]
  intro x hx
  simp [h x hx]

/-- the palette the validator finds in `headerChunks c ++ body` is the configuration's -/
theorem plteEntriesOf_shape (c : Cfg) (ops : List Op) (body : List RChunk)
    (htx : ∀ r, some r ∈ c.texts → r.ty ∈ textTypes)
    (hr : ∀ op ∈ ops, op.inRange) (hf : ∀ op ∈ ops, op.passFree) (hb : ∀ b ∈ body, BodyChunk ops b) :
    plteEntriesOf (headerChunks c ++ body) = c.plteEntries := by
  unfold plteEntriesOf Cfg.plteEntries
  have h1 : (headerPre c).find? (·.ty == tyPLTE) = none := by
    apply find_none_of_types
    intro x hx
    rcases headerPre_mem c hx with h | h | ⟨n, p, _, h⟩
    · subst h; rfl
    · have := preChunks_types c.md x h
      simp only [headerAncTypes, List.mem_cons, List.not_mem_nil, or_false] at this
      rcases this with h | h | h | h | h | h | h | h | h | h <;> rw [h] <;> rfl
    · subst h; rfl
  have h2 : (optChunk tyTRNS c.trns ++ ((textPrefix c.texts).1 ++ body)).find? (·.ty == tyPLTE) = none := by
    apply find_none_of_types
    intro x hx
    simp only [List.mem_append] at hx
    rcases hx with hx | hx | hx
    · rw [optChunk_ty hx]; rfl
    · have := htx x (textPrefix_mem c.texts x hx)
      simp only [textTypes, List.mem_cons, List.not_mem_nil, or_false] at this
      rcases this with h | h | h <;> rw [h] <;> rfl
    · exact (hb x hx).not_plte hr hf
  rw [headerChunks_eq']
  simp only [List.append_assoc]
  rw [List.find?_append, h1]
  cases hp : c.palette with
  | some p => simp [optChunk]
  | none =>
    have e : optChunk tyPLTE (none : Option Bytes) = [] := rfl
    rw [e, List.nil_append, h2]
    rfl

/-- **the payload pass accepts `headerChunks c ++ body`** -/
theorem content_ok_of_shape (c : Cfg) (ops : List Op) (body : List RChunk)
    (htx : ∀ r, some r ∈ c.texts → r.ty ∈ textTypes) (hp : c.PayloadsOk)
    (hr : ∀ op ∈ ops, op.inRange) (hf : ∀ op ∈ ops, op.passFree) (ht : ∀ op ∈ ops, op.textOk)
    (hb : ∀ b ∈ body, BodyChunk ops b) :
    firstError (contentOk (ihdrOfCfg c) (plteEntriesOf (headerChunks c ++ body))) (headerChunks c ++ body) = .ok () := by
  rw [plteEntriesOf_shape c ops body htx hr hf hb]
  apply firstError_ok
  intro x hx
  simp only [List.mem_append] at hx
  rcases hx with hx | hx
  · exact content_ok_header c htx hp x hx
  · exact content_ok_body _ _ hr hf ht (hb x hx)

end Png.Enc
