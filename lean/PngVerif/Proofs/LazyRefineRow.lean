import PngVerif.Proofs.LazyRefineDefs
/-!
# `Reader` refines `Lazy`, part 2: the data source and `next_raw_interlaced_row`

The `Reader` model gets its image data through `decode_image_data` calls along a `Trace` (`Proofs/ComposeTrace.lean`) of
the data-chunk sequence; the `Lazy` model through `pull` along an `Arrival`.  `arrOf pend` is the arrival a trace
induces (one pull per call, the bytes of the `ImageDataFlushed` call come with `Done`).

The simulation lemmas of these files are *result-conditional*: they say what the `Lazy` function answers GIVEN that
the `Reader` function's answer is one the `Lazy` model speaks about (`okRes`: no panic, no `Limits` error, no `Format`
error other than `NoMoreImageData` / `MissingImageData` — the `Lazy` model abstracts valid filter bytes, sufficient
limits and a succeeding transformation, `Model/LazyReader.lean` header).
-/
namespace Png.LazyRefine
open Png Png.Framing Png.WellFormed Png.Reader

/-- the results of the `Reader` model the `Lazy` model speaks about -/
def okRes : Reader.Res → Bool
  | .row _ _ => true
  | .noRow => true
  | .frame _ _ => true
  | .frameInfo _ => true
  | .done => true
  | .err .parameter w => w == "PolledAfterEndOfImage"
  | .err .format w => w == "NoMoreImageData" || w == "MissingImageData"
  | .err .eof _ => true
  | _ => false

/-- the arrival a trace of `decode_image_data` calls induces -/
def arrOf : List (Ev × Bytes) → Lazy.Arrival
  | [] => ⟨[], 0⟩
  | [(_, dl)] => ⟨[], dl.length⟩
  | (_, d) :: x :: rest => ⟨d.length :: (arrOf (x :: rest)).pulls, (arrOf (x :: rest)).last⟩

theorem arrOf_last (ev : Ev) (dl : Bytes) : arrOf [(ev, dl)] = ⟨[], dl.length⟩ := rfl

theorem arrOf_more {ev : Ev} {d : Bytes} {rest : List (Ev × Bytes)} (h : DataEvs rest) :
    arrOf ((ev, d) :: rest) = ⟨d.length :: (arrOf rest).pulls, (arrOf rest).last⟩ := by
  cases rest with
  | nil => cases h
  | cons x rest => rfl

theorem arrOf_total : ∀ {pend : List (Ev × Bytes)}, DataEvs pend → (arrOf pend).total = (dataOf pend).length := by
  intro pend h
  induction h with
  | last dl => simp [arrOf, Lazy.Arrival.total, dataOf]
  | more ev data rest hm hr ih =>
    rw [arrOf_more hr, dataOf_cons]
    simp only [Lazy.Arrival.total, List.sum_cons, List.length_append] at ih ⊢
    omega

theorem srcLen_arrOf : ∀ {pend : List (Ev × Bytes)}, DataEvs pend → Lazy.srcLen (some (arrOf pend)) = pend.length := by
  intro pend h
  induction h with
  | last dl => rfl
  | more ev data rest hm hr ih =>
    rw [arrOf_more hr]
    simp only [Lazy.srcLen, List.length_cons] at ih ⊢
    omega

/-- where the reader stands relative to the data sequence of the current frame: `src` is the `Lazy` model's source;
    `(dEnd, bEnd)` = the decoder and the input behind the sequence's `ImageDataFlushed` -/
inductive Pos (cfg : Cfg) (i : Info) (r : R) (src : Option Lazy.Arrival) (dEnd : Dec) (bEnd : Bytes) : Prop
  | inData (pend : List (Ev × Bytes)) (hev : DataEvs pend)
      (htr : Trace cfg (fun d => d.info = some i) r.dec (avail r) pend dEnd bEnd) (hs : src = some (arrOf pend))
  | after (hd : r.dec = dEnd) (hb : avail r = bEnd) (hs : src = none)

/-- the counters both models keep -/
structure Cnt (i : Info) (r : R) (s : Lazy.St) : Prop where
  info : r.dec.info = some i
  rem : s.rem = r.remaining
  caf : s.caf = r.sub.caf
  buf : s.buf = r.ub.currLen
  ubInv : r.ub.Inv
  out : r.dec.out = []
  /-- the frame is marked as consumed exactly when its data sequence is behind the reader -/
  closed : s.src = none ↔ r.sub.caf = true

/-- the fields of the `Lazy` state the row functions leave alone -/
structure LFrame (s s' : Lazy.St) : Prop where
  fi : s'.fi = s.fi
  sub : s'.sub = s.sub
  cur : s'.cur = s.cur
  finished : s'.finished = s.finished
  atEnd : s'.atEnd = s.atEnd

theorem LFrame.refl (s : Lazy.St) : LFrame s s := ⟨rfl, rfl, rfl, rfl, rfl⟩
theorem LFrame.trans {a b c : Lazy.St} (h1 : LFrame a b) (h2 : LFrame b c) : LFrame a c :=
  ⟨h2.fi.trans h1.fi, h2.sub.trans h1.sub, h2.cur.trans h1.cur, h2.finished.trans h1.finished, h2.atEnd.trans h1.atEnd⟩

theorem currLen_compact_extend (u : UB) (bs : Bytes) (h : u.Inv) :
    (u.compact.extend bs).currLen = u.currLen + bs.length ∧ (u.compact.extend bs).Inv := by
  obtain ⟨hinv, habs⟩ := abs_compact_extend u bs h
  refine ⟨?_, hinv⟩
  rw [← UB.abs_currLen, habs, ← UB.abs_currLen]
  simp [UBAbs.currLen]

theorem currLen_unfilterCurr (u u' : UB) (rowlen bpp : Nat) (h : u.Inv) (hok : u.unfilterCurr rowlen bpp = .ok u') :
    u'.currLen = u.currLen - rowlen ∧ u'.Inv := by
  refine ⟨?_, UB.inv_unfilterCurr u u' rowlen bpp h hok⟩
  have hc := UB.abs_unfilterCurr u rowlen bpp h
  rw [hok] at hc
  simp only [UnfOutcome.map] at hc
  unfold UBAbs.unfilterCurr at hc
  have key : ∀ a : UBAbs, UnfOutcome.ok u'.abs = UnfOutcome.ok a → u'.currLen = a.pending.length := by
    intro a ha
    simp only [UnfOutcome.ok.injEq] at ha
    rw [← UB.abs_currLen, ha]; rfl
  have hlen : u.currLen = u.abs.pending.length := by rw [← UB.abs_currLen]; rfl
  by_cases h1 : rowlen < 2
  · rw [if_pos h1] at hc; cases hc
  rw [if_neg h1] at hc
  by_cases h2 : ¬ (u.abs.prev.isEmpty ∨ u.abs.prev.length = rowlen - 1)
  · rw [if_pos h2] at hc; cases hc
  rw [if_neg h2] at hc
  by_cases h3 : u.abs.pending.length = 0
  · rw [if_pos h3] at hc; cases hc
  rw [if_neg h3] at hc
  simp only at hc
  cases hft : FilterType.ofNat? (u.abs.pending.headD 0).toNat with
  | none => rw [hft] at hc; cases hc
  | some ft =>
    rw [hft] at hc
    simp only at hc
    by_cases h4 : u.abs.pending.length < rowlen
    · rw [if_pos h4] at hc; cases hc
    rw [if_neg h4] at hc
    rw [key _ hc, hlen]; simp

/-- what `next_raw_interlaced_row` answers, as the `Lazy` model says it -/
def rawRes : Except Reader.Res Unit → Option Lazy.Res
  | .ok () => none
  | .error _ => some (.err .noMoreImageData)

/-- **`next_raw_interlaced_row`**: the loop that pulls image data until a row is buffered -/
theorem nextRawRow_sim (cfg : Cfg) (i : Info) (rowlen : Nat) (dEnd : Dec) (bEnd : Bytes) :
    ∀ (fuel : Nat) (r : R) (s : Lazy.St) (lf : Nat), Lazy.srcLen s.src + 1 ≤ lf → Pos cfg i r s.src dEnd bEnd → Cnt i r s →
      ∀ r' x, nextRawRow cfg rowlen fuel r = (r', x) → (∀ e, x = .error e → okRes e = true) →
        ∃ s', Lazy.nextRaw rowlen lf s = (s', rawRes x) ∧ Pos cfg i r' s'.src dEnd bEnd ∧ Cnt i r' s' ∧ RowFrame r r' ∧
          LFrame s s' ∧ (∀ e, x = .error e → e = .err .format "NoMoreImageData") := by
  intro fuel
  induction fuel with
  | zero =>
    intro r s lf _ _ _ r' x hx hok
    simp only [nextRawRow, Prod.mk.injEq] at hx
    have := hok _ hx.2.symm
    simp [okRes] at this
  | succ fuel ih =>
    intro r s lf hlf hpos hc r' x hx hok
    cases lf with
    | zero => omega
    | succ lf =>
      rw [nextRawRow] at hx
      rw [Lazy.nextRaw]
      by_cases hlt : r.ub.currLen < rowlen
      · have hlt' : s.buf < rowlen := by rw [hc.buf]; exact hlt
        rw [if_pos hlt] at hx
        rw [if_pos hlt']
        cases hcaf : r.sub.caf with
        | true =>
          have hcaf' : s.caf = true := by rw [hc.caf]; exact hcaf
          simp only [hcaf, if_true, Prod.mk.injEq] at hx
          obtain ⟨rfl, rfl⟩ := hx
          simp only [hcaf', if_true]
          exact ⟨s, rfl, hpos, hc, RowFrame.refl _, LFrame.refl _, fun e he => by cases he; rfl⟩
        | false =>
          have hcaf' : s.caf = false := by rw [hc.caf]; exact hcaf
          simp only [hcaf, Bool.false_eq_true, if_false] at hx
          simp only [hcaf', Bool.false_eq_true, if_false]
          cases hpos with
          | after hd hb hs => rw [hc.closed.1 hs] at hcaf; cases hcaf
          | inData pend hev htr hs =>
            cases hev with
            | last dl =>
              obtain ⟨r1, hrun, hr1, ho1, hi1, htr1⟩ := decodeImageData_done true rfl rfl hc.out htr
              obtain ⟨hd1, hb1⟩ := trace_nil htr1
              obtain ⟨hcl1, hinv1⟩ := currLen_compact_extend r.ub dl hc.ubInv
              have hub1 : r1.ub = r.ub.compact.extend dl := by rw [hr1]; rfl
              have hrem1 : r1.remaining = r.remaining := by rw [hr1]
              rw [hrun] at hx
              simp only at hx
              have hpull : Lazy.pull s = ({ s with src := none }, .done dl.length) := by
                unfold Lazy.pull; rw [hs, arrOf_last]
              rw [hpull]
              simp only
              by_cases hrem0 : r.remaining = 0
              · have hmf : markFlushed r1 = .error (.panic "assert!(self.remaining_frames > 0) (mod.rs:452)") := by
                  unfold markFlushed; rw [if_pos (by omega)]
                rw [hmf] at hx
                simp only [Prod.mk.injEq] at hx
                have := hok _ hx.2.symm
                simp [okRes] at this
              · have hmf : markFlushed r1 = .ok { r1 with remaining := r1.remaining - 1, sub := { r1.sub with caf := true } } := by
                  unfold markFlushed; rw [if_neg (by omega)]
                rw [hmf] at hx
                simp only at hx
                have hmk : Lazy.mark { ({ s with src := none } : Lazy.St) with buf := s.buf + dl.length } =
                    .ok { ({ ({ s with src := none } : Lazy.St) with buf := s.buf + dl.length } : Lazy.St) with
                      rem := s.rem - 1, caf := true } := by
                  unfold Lazy.mark
                  have : s.rem ≠ 0 := by rw [hc.rem]; exact hrem0
                  simp [this]
                simp only [hmk]
                obtain ⟨s', hrun', hpos', hc', hfr', hlf', herr'⟩ :=
                  ih { r1 with remaining := r1.remaining - 1, sub := { r1.sub with caf := true } }
                    { ({ ({ s with src := none } : Lazy.St) with buf := s.buf + dl.length } : Lazy.St) with
                      rem := s.rem - 1, caf := true } lf
                    (by rw [hs, arrOf_last] at hlf; simp only [Lazy.srcLen, List.length_nil] at hlf ⊢; omega)
                    (.after hd1.symm hb1.symm rfl)
                    ⟨hi1, by show s.rem - 1 = r1.remaining - 1; rw [hrem1, hc.rem], rfl,
                     by show s.buf + dl.length = r1.ub.currLen; rw [hub1, hcl1, hc.buf],
                     by show r1.ub.Inv; rw [hub1]; exact hinv1, ho1, ⟨fun _ => rfl, fun _ => rfl⟩⟩ r' x hx hok
                refine ⟨s', hrun', hpos', hc', ?_, ⟨hlf'.fi, hlf'.sub, hlf'.cur, hlf'.finished, hlf'.atEnd⟩, herr'⟩
                refine RowFrame.trans (b := { r1 with remaining := r1.remaining - 1, sub := { r1.sub with caf := true } }) ?_ hfr'
                unfold RowFrame; rw [hr1]
            | more ev' data' rest' hmore hrest =>
              obtain ⟨r1, hrun, hr1, ho1, hi1, htr1⟩ := decodeImageData_more true rfl rfl hc.out htr hmore
              obtain ⟨hcl1, hinv1⟩ := currLen_compact_extend r.ub data' hc.ubInv
              have hub1 : r1.ub = r.ub.compact.extend data' := by rw [hr1]; rfl
              rw [hrun] at hx
              simp only at hx
              have hpull : Lazy.pull s = ({ s with src := some (arrOf rest') }, .more data'.length) := by
                unfold Lazy.pull; rw [hs, arrOf_more hrest]
              rw [hpull]
              simp only
              have hsl : Lazy.srcLen (some (arrOf rest')) + 1 ≤ lf := by
                rw [hs, arrOf_more hrest] at hlf
                simp only [Lazy.srcLen, List.length_cons] at hlf ⊢
                omega
              obtain ⟨s', hrun', hpos', hc', hfr', hlf', herr'⟩ :=
                ih r1 { ({ s with src := some (arrOf rest') } : Lazy.St) with buf := s.buf + data'.length } lf hsl
                  (.inData rest' hrest htr1 rfl)
                  ⟨hi1, by show s.rem = r1.remaining; rw [hr1]; exact hc.rem,
                   by show s.caf = r1.sub.caf; rw [hr1]; exact hc.caf,
                   by show s.buf + data'.length = r1.ub.currLen; rw [hub1, hcl1, hc.buf],
                   by rw [hub1]; exact hinv1, ho1,
                   ⟨(fun h => by cases h), (fun h => by
                      have e : r1.sub.caf = r.sub.caf := by rw [hr1]
                      rw [e, hcaf] at h; cases h)⟩⟩ r' x hx hok
              refine ⟨s', hrun', hpos', hc', ?_, ⟨hlf'.fi, hlf'.sub, hlf'.cur, hlf'.finished, hlf'.atEnd⟩, herr'⟩
              refine RowFrame.trans (b := r1) ?_ hfr'
              unfold RowFrame; rw [hr1]
      · have hlt' : ¬ s.buf < rowlen := by rw [hc.buf]; exact hlt
        rw [if_neg hlt] at hx
        rw [if_neg hlt']
        cases hu : r.ub.unfilterCurr rowlen r.bpp with
        | ok u =>
          rw [hu] at hx
          simp only [Prod.mk.injEq] at hx
          obtain ⟨rfl, rfl⟩ := hx
          obtain ⟨hcl, hinv⟩ := currLen_unfilterCurr r.ub u rowlen r.bpp hc.ubInv hu
          refine ⟨_, rfl, ?_, ⟨hc.info, hc.rem, hc.caf, by show s.buf - rowlen = u.currLen; rw [hcl, hc.buf], hinv, hc.out, hc.closed⟩,
            rfl, ⟨rfl, rfl, rfl, rfl, rfl⟩, fun e he => by cases he⟩
          cases hpos with
          | inData pend hev htr hs => exact .inData pend hev htr hs
          | after hd hb hs => exact .after hd hb hs
        | unknownFilter b =>
          rw [hu] at hx
          simp only [Prod.mk.injEq] at hx
          have := hok _ hx.2.symm
          simp [okRes] at this
        | panic =>
          rw [hu] at hx
          simp only [Prod.mk.injEq] at hx
          have := hok _ hx.2.symm
          simp [okRes] at this

end Png.LazyRefine
