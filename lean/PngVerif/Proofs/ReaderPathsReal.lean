import PngVerif.Driver.Reader
import PngVerif.Proofs.ReaderPathsSim
/-!
# Decoding paths, part 16: the transformation of `Model/Transform.lean` satisfies `TCfg.SnapIndep` (C13)

`Driver.realT` is the `TCfg` the executable `pngmodel` runs the `Reader` model with: selection of the row
function (and the memo palette) from the `Info` the function was created from, everything else from
the current `Info`.  Two `Info`s of one stream from which creation succeeded select the same function
and the same memo palette: the selection reads the colour type, the bit depth, whether `tRNS` is
present, and — only for indexed images under EXPAND, where creation fails without a palette — whether
a palette is present; the palette cannot change once present (`Evolves`).
-/
namespace Png.Driver
open Png Png.Framing Png.Reader

/-- the selection does not look at the palette, except for its presence on indexed images under EXPAND -/
theorem selectTransform_congr (a b : Transform.Info) (f : Transform.Flags) (hc : b.colorType = a.colorType)
    (hd : b.bitDepth = a.bitDepth) (ht : b.trns = a.trns)
    (hp : a.colorType = .indexed ∧ (f.expand || f.alpha) = true → b.palette.isNone = a.palette.isNone) :
    Transform.selectTransform b f = Transform.selectTransform a f := by
  unfold Transform.selectTransform
  simp only [hc, hd, ht]
  by_cases h1 : a.colorType = .indexed ∧ (f.expand || f.alpha) = true
  · rw [if_pos h1, if_pos h1, hp h1]
  · rw [if_neg h1, if_neg h1]

/-- outside the indexed-under-EXPAND arm no palette function is selected -/
theorem selectTransform_not_palette {a : Transform.Info} {f : Transform.Flags} {k : Transform.Kind}
    (h1 : ¬ (a.colorType = .indexed ∧ (f.expand || f.alpha) = true)) (h : Transform.selectTransform a f = .ok k) :
    isPaletteKind k = false := by
  unfold Transform.selectTransform at h
  simp only at h
  rw [if_neg h1] at h
  repeat' split at h
  all_goals first | (cases h; done) | (cases h; rfl)

/-- in the indexed-under-EXPAND arm selection succeeds only with a palette -/
theorem selectTransform_palette_some {a : Transform.Info} {f : Transform.Flags} {k : Transform.Kind}
    (h1 : a.colorType = .indexed ∧ (f.expand || f.alpha) = true) (h : Transform.selectTransform a f = .ok k) :
    a.palette.isSome = true := by
  unfold Transform.selectTransform at h
  simp only at h
  rw [if_pos h1] at h
  cases hp : a.palette with
  | some p => rfl
  | none => rw [hp] at h; simp at h

theorem tInfo_some {i : Info} {ti : Transform.Info} (h : tInfo i = some ti) :
    ∃ ct bd, Transform.ColorType.ofNat? i.color = some ct ∧ Transform.BitDepth.ofNat? i.depth = some bd ∧
      ti = { colorType := ct, bitDepth := bd, palette := i.palette, trns := i.trns } := by
  unfold tInfo at h
  cases hc : Transform.ColorType.ofNat? i.color with
  | none => rw [hc] at h; cases h
  | some ct =>
    cases hb : Transform.BitDepth.ofNat? i.depth with
    | none => rw [hc, hb] at h; cases h
    | some bd =>
      rw [hc, hb] at h
      simp only [bind, Option.bind, Option.some.injEq] at h
      exact ⟨ct, bd, rfl, rfl, h.symm⟩

/-- the transformation view of a later `Info` of the stream: the same, except possibly the palette -/
theorem tInfo_evolves {snap cur : Info} {ts : Transform.Info} (he : Evolves snap cur) (h : tInfo snap = some ts) :
    tInfo cur = some { ts with palette := cur.palette } ∧ (ts.palette.isSome = true → cur.palette = ts.palette) := by
  obtain ⟨ct, bd, h1, h2, rfl⟩ := tInfo_some h
  have hcore := he.core
  simp only [Info.core, Prod.mk.injEq] at hcore
  obtain ⟨_, _, hd, hc, _⟩ := hcore
  refine ⟨?_, fun hp => he.plte hp⟩
  unfold tInfo
  rw [hc, hd, h1, h2, he.trns]
  rfl

/-- creation succeeded: the selection, and the palette if one is needed -/
theorem create_ok {i : Info} {f : Flags} (h : realT.create i f = .ok ()) :
    ∃ ti k, tInfo i = some ti ∧ Transform.selectTransform ti (tFlags f) = .ok k ∧
      (isPaletteKind k = true → ∃ pal memo, ti.palette = some pal ∧ Transform.createRgbaPalette pal ti.trns = .ok memo) := by
  simp only [realT] at h
  cases hti : tInfo i with
  | none => rw [hti] at h; cases h
  | some ti =>
    rw [hti] at h; simp only at h
    cases hk : Transform.selectTransform ti (tFlags f) with
    | error e => rw [hk] at h; cases e <;> cases h
    | ok k =>
      rw [hk] at h; simp only at h
      refine ⟨ti, k, rfl, hk, fun hpk => ?_⟩
      rw [if_pos hpk] at h
      cases hp : ti.palette with
      | none => rw [hp] at h; cases h
      | some pal =>
        rw [hp] at h; simp only at h
        cases hm : Transform.createRgbaPalette pal ti.trns with
        | error e => rw [hm] at h; cases h
        | ok memo => exact ⟨pal, memo, rfl, hm⟩

/-- two `Info`s from which creation succeeded and which evolve into the same `Info`: the same
    selection, and the same view wherever a palette function is selected -/
theorem select_same {snap snap' cur : Info} {f : Flags} {ts ts' : Transform.Info} (he : Evolves snap cur)
    (he' : Evolves snap' cur) (h : tInfo snap = some ts) (h' : tInfo snap' = some ts')
    {k : Transform.Kind} (hk : Transform.selectTransform ts (tFlags f) = .ok k)
    {k' : Transform.Kind} (hk' : Transform.selectTransform ts' (tFlags f) = .ok k') :
    k' = k ∧ (isPaletteKind k = true → ts' = ts) := by
  obtain ⟨e1, p1⟩ := tInfo_evolves he h
  obtain ⟨e2, p2⟩ := tInfo_evolves he' h'
  rw [e1] at e2
  simp only [Option.some.injEq] at e2
  have hc : ts'.colorType = ts.colorType := (congrArg Transform.Info.colorType e2).symm
  have hd : ts'.bitDepth = ts.bitDepth := (congrArg Transform.Info.bitDepth e2).symm
  have ht : ts'.trns = ts.trns := (congrArg Transform.Info.trns e2).symm
  by_cases h1 : ts.colorType = .indexed ∧ ((tFlags f).expand || (tFlags f).alpha) = true
  · have s1 := selectTransform_palette_some h1 hk
    have s2 := selectTransform_palette_some (a := ts') (by rw [hc]; exact h1) hk'
    have hpal : ts'.palette = ts.palette := (p2 s2).symm.trans (p1 s1)
    have hts : ts' = ts := by
      cases ts; cases ts'
      simp only at hc hd ht hpal
      subst hc; subst hd; subst ht; subst hpal; rfl
    subst hts
    rw [hk] at hk'
    exact ⟨by cases hk'; rfl, fun _ => rfl⟩
  · have hsel := selectTransform_congr ts ts' (tFlags f) hc hd ht (fun h => absurd h h1)
    rw [hsel, hk] at hk'
    have hnp := selectTransform_not_palette h1 hk
    exact ⟨by cases hk'; rfl, fun hp => by rw [hnp] at hp; cases hp⟩

/-- **the transformation of `Model/Transform.lean` does not depend on which `Info` of the stream it was
    created from** -/
theorem realT_snapIndep : realT.SnapIndep where
  create := by
    intro snap i f he hcr
    obtain ⟨ts, k, hts, hk, hpal⟩ := create_ok hcr
    obtain ⟨e1, p1⟩ := tInfo_evolves he hts
    simp only [realT]
    rw [e1]
    simp only
    by_cases h1 : ts.colorType = .indexed ∧ ((tFlags f).expand || (tFlags f).alpha) = true
    · have s1 := selectTransform_palette_some h1 hk
      have : ({ ts with palette := i.palette } : Transform.Info) = ts := by rw [p1 s1]
      rw [this, hk]
      simp only
      by_cases hpk : isPaletteKind k = true
      · obtain ⟨pal, memo, hp, hm⟩ := hpal hpk
        rw [if_pos hpk, p1 s1, hp]; simp only; rw [hm]
      · rw [if_neg hpk]
    · have hsel := selectTransform_congr ts { ts with palette := i.palette } (tFlags f) rfl rfl rfl
        (fun h => absurd h h1)
      rw [hsel, hk]
      simp only
      rw [if_neg (by rw [selectTransform_not_palette h1 hk]; simp)]
  apply := by
    intro snap snap' cur f row n he he' hcr hcr'
    obtain ⟨ts, k, hts, hk, _⟩ := create_ok hcr
    obtain ⟨ts', k', hts', hk', _⟩ := create_ok hcr'
    obtain ⟨rfl, hsame⟩ := select_same he he' hts hts' hk hk'
    obtain ⟨e1, _⟩ := tInfo_evolves he hts
    simp only [realT]
    rw [hts, hts', e1]
    simp only
    rw [hk, hk']
    simp only
    by_cases hpk : isPaletteKind k' = true
    · rw [hsame hpk]
    · rw [if_neg hpk, if_neg hpk]

end Png.Driver
