import PngVerif.Props.C09AnyPath
import PngVerif.Props.C04Delivery
import PngVerif.Props.C03RoundTrip
/-!
# C03 ∘ C13 / C05, still images: the encoder's file under any call path and any delivery

`Props/C03RoundTrip.lean` decodes the encoder's file by `read_info` + `next_frame` on the complete file.  The file is
`WellFormed.wellFormedStill` (`RoundTrip.fileBytes_stillChunks`), its inflated stream is legal for the header
(`rawOk_encode`) and the specification's pixels of it are the image given (`specPixels_encode`); so
`AnyPath.C01_any_path_of` (every list of path operations) and `Reader.delivery_from_start'` (every truncation point and
growth schedule) apply.

* `noActl_meta`: `encode_header` of a still configuration writes no `acTL` chunk (the hypothesis `hstill` of
  `C01_any_path` discharged from the encoder model);
* `anyPath_stillChunks_of`, `anyPath_encoded_of`, `anyPath_streamLog_of`: any path, for `write_image_data` and for a sink
  whose log is that of a complete stream-writer session;
* `delivery_of_run` (+ `_prefix`): the retrying caller's results from the results on the complete file;
* `delivery_stillChunks`, … : any delivery.
-/
namespace Png.RoundTrip
open Png Png.Val Png.Enc Png.Framing Png.Reader Png.WellFormed Png.AnyPath

/-! ## no `acTL` among the chunks a still configuration writes -/

theorem acTL_not_pre : acTL ∉ [pHYs, sRGB, gAMA, cHRM, iCCP, eXIf] := by decide +kernel

/-- **the chunks `encode_header` writes between `IHDR` and `IDAT` for a configuration without animation contain no `acTL`**
    (`pHYs`, `sRGB`, `gAMA`, `cHRM`, `iCCP`, `eXIf`, `PLTE`, `tRNS`, text chunks of type `tEXt` / `zTXt` / `iTXt`) -/
theorem noActl_meta (cfg : Framing.Cfg) (ig : Bool) (P : Nat) (c : Enc.Cfg) (hm : MetaOk cfg ig P c) :
    NoActl (pairs (metaChunks c)) := by
  intro x hx
  simp only [pairs, List.mem_map] at hx
  obtain ⟨ch, hch, rfl⟩ := hx
  simp only [metaChunks, List.mem_append] at hch
  show ch.ty ≠ acTL
  rcases hch with ((h | h) | h) | h
  · intro he
    have := preChunks_kinds c.md ch h
    rw [he] at this
    exact acTL_not_pre this
  · rw [Enc.optChunk_ty h]; decide +kernel
  · rw [Enc.optChunk_ty h]; decide +kernel
  · rcases (hm.texts ch h).1 with h1 | h1 | h1 <;> rw [h1] <;> decide +kernel

theorem bufferSize_headerOf {c : Enc.Cfg} (hd : depthOk c.depth = true) : (headerOf c).bufferSize = c.rowLen * c.height := by
  show (headerOf c).lineSize * c.height = _
  rw [headerOf_lineSize hd]

/-! ## any call path -/

/-- **any call path on a still image of the encoder's shape, any cut of the zlib stream into `IDAT` chunks** -/
theorem anyPath_stillChunks_of (cfg : Framing.Cfg) (t : TCfg) (hap : AnyPathOk cfg t) (f : Flags) (opts : Options) (limit : Nat)
    (choose : Bytes → Bytes → FilterType) (c : Enc.Cfg) (data : Bytes) (zs : List Bytes) (p : UInt8) (dA : Dec)
    (hI : cfg.InflateOk) (hcrc : ∀ b, cfg.crc b = crcOfList b) (ht : t.IsIdentity f) (hs : c.Still)
    (hlen : data.length = c.rowLen * c.height) (hsz : c.rowLen * c.height < 2 ^ 64)
    (hzs : zs ≠ []) (hzl : ∀ z ∈ zs, z.length < 2 ^ 32)
    (hinf : cfg.inflate zs.flatten = some (rawOf choose c data, true))
    (hanc : AncChunksG cfg (afterIhdr cfg opts limit (headerOf c)) (pairs (metaChunks c)) dA)
    (hna : NoActl (pairs (metaChunks c)))
    (hlimit : c.rowLen ≤ dA.limit)
    (h32 : (fileBytes (stillChunks c zs)).length < 2 ^ 32) (ops : List PathOp) :
    (asmRun cfg t (List.replicate (c.rowLen * c.height) p)
      (readerOf cfg t opts limit f (fileBytes (stillChunks c zs)),
       Asm.init (List.replicate (c.rowLen * c.height) p)) ops).2.problem = false ∧
    ∀ k px, (k, px) ∈ (asmRun cfg t (List.replicate (c.rowLen * c.height) p)
      (readerOf cfg t opts limit f (fileBytes (stillChunks c zs)),
       Asm.init (List.replicate (c.rowLen * c.height) p)) ops).2.frames → k = 0 ∧ px = data := by
  have hC := crcOk_of_eq cfg hcrc
  rw [fileBytes_stillChunks cfg hcrc] at h32 ⊢
  have hls := headerOf_lineSize (c := c) hs.depth
  obtain ⟨a1, a2, _⟩ := C01.ancillary_chunks_ok_any_length cfg hC opts limit (headerOf c) _ dA hanc
  have := C01_any_path_of cfg t hap f opts limit (headerOf c) (chunks cfg (pairs (metaChunks c))) dA zs (rawOf choose c data) [] p
    hI hC ht (headerOf_valid hs) a1 a2 (no_actl_of_chunks cfg opts limit (headerOf c) _ dA hanc hna) hzs hzl hinf
    (rawOk_encode choose c hs.depth data hlen) (fun _ hc => by cases hc) (by rw [hls]; exact hsz) (by rw [hls]; exact hlimit)
    h32 ops
  rw [bufferSize_headerOf hs.depth] at this
  refine ⟨this.1, fun k px hk => ?_⟩
  obtain ⟨h0, hspec⟩ := this.2 k px hk
  rw [specPixels_encode choose c hs.depth data hlen] at hspec
  cases hspec
  exact ⟨h0, rfl⟩

/-- **any call path on the file `write_header`, `write_image_data(data)`, `finish` leave** -/
theorem anyPath_encoded_of (cfg : Framing.Cfg) (t : TCfg) (hap : AnyPathOk cfg t) (f : Flags) (opts : Options) (limit : Nat)
    (compress : Bytes → Bytes) (choose : Bytes → Bytes → FilterType) (c : Enc.Cfg) (data : Bytes) (p : UInt8) (dA : Dec)
    (hI : cfg.InflateOk) (hcrc : ∀ b, cfg.crc b = crcOfList b) (ht : t.IsIdentity f) (hs : c.Still)
    (hlen : data.length = c.rowLen * c.height) (hsz : c.rowLen * c.height < 2 ^ 64)
    (hnil : ∀ o, cfg.inflate [] ≠ some (o, true))
    (hinf : cfg.inflate (compress (rawOf choose c data)) = some (rawOf choose c data, true))
    (hanc : AncChunksG cfg (afterIhdr cfg opts limit (headerOf c)) (pairs (metaChunks c)) dA)
    (hna : NoActl (pairs (metaChunks c))) (hlimit : c.rowLen ≤ dA.limit)
    (h32 : (encoded compress choose c data).length < 2 ^ 32) (ops : List PathOp) :
    (asmRun cfg t (List.replicate (c.rowLen * c.height) p)
      (readerOf cfg t opts limit f (encoded compress choose c data),
       Asm.init (List.replicate (c.rowLen * c.height) p)) ops).2.problem = false ∧
    ∀ k px, (k, px) ∈ (asmRun cfg t (List.replicate (c.rowLen * c.height) p)
      (readerOf cfg t opts limit f (encoded compress choose c data),
       Asm.init (List.replicate (c.rowLen * c.height) p)) ops).2.frames → k = 0 ∧ px = data := by
  have hzne : compress (rawOf choose c data) ≠ [] := by
    intro h0; rw [h0] at hinf; exact hnil _ hinf
  obtain ⟨h1, h2, h3⟩ := idat_cut _ hzne
  rw [encoded_eq compress choose c data hs hlen hsz] at h32 ⊢
  exact anyPath_stillChunks_of cfg t hap f opts limit choose c data _ p dA hI hcrc ht hs hlen hsz h1 h2
    (by rw [h3]; exact hinf) hanc hna hlimit h32 ops

/-- what a sink holds whose log is the signature, the header chunks, `IDAT` chunks `zs`, `IEND` (a complete stream-writer
    session) -/
theorem bytes_of_streamLog (c : Enc.Cfg) (hs : c.Still) (zs : List Bytes) (k : Sink)
    (hlog : k.log = sigEmit :: (headerChunks c ++ zs.map mkIdat ++ [iendChunk]).map fullEmit) :
    k.bytes = fileBytes (stillChunks c zs) := by
  have hchunks : headerChunks c ++ zs.map mkIdat ++ [iendChunk] = stillChunks c zs := by
    rw [headerChunks_still hs.actl]; rfl
  rw [hchunks] at hlog
  exact (bytes_of_fullLog k _ hlog).1

/-- **any call path on such a sink's bytes** -/
theorem anyPath_streamLog_of (cfg : Framing.Cfg) (t : TCfg) (hap : AnyPathOk cfg t) (f : Flags) (opts : Options) (limit : Nat)
    (choose : Bytes → Bytes → FilterType) (c : Enc.Cfg) (data : Bytes) (zs : List Bytes) (k : Sink) (z : Bytes) (p : UInt8)
    (dA : Dec)
    (hI : cfg.InflateOk) (hcrc : ∀ b, cfg.crc b = crcOfList b) (ht : t.IsIdentity f) (hs : c.Still)
    (hlen : data.length = c.rowLen * c.height) (hsz : c.rowLen * c.height < 2 ^ 64)
    (hlog : k.log = sigEmit :: (headerChunks c ++ zs.map mkIdat ++ [iendChunk]).map fullEmit)
    (hzl : ∀ z ∈ zs, z.length < 2 ^ 32) (hflat : zs.flatten = z)
    (hnil : ∀ o, cfg.inflate [] ≠ some (o, true))
    (hinf : cfg.inflate z = some (rawOf choose c data, true))
    (hanc : AncChunksG cfg (afterIhdr cfg opts limit (headerOf c)) (pairs (metaChunks c)) dA)
    (hna : NoActl (pairs (metaChunks c))) (hlimit : c.rowLen ≤ dA.limit)
    (h32 : k.bytes.length < 2 ^ 32) (ops : List PathOp) :
    (asmRun cfg t (List.replicate (c.rowLen * c.height) p)
      (readerOf cfg t opts limit f k.bytes, Asm.init (List.replicate (c.rowLen * c.height) p)) ops).2.problem = false ∧
    ∀ i px, (i, px) ∈ (asmRun cfg t (List.replicate (c.rowLen * c.height) p)
      (readerOf cfg t opts limit f k.bytes, Asm.init (List.replicate (c.rowLen * c.height) p)) ops).2.frames →
      i = 0 ∧ px = data := by
  have hzne : z ≠ [] := by
    intro h0; rw [h0] at hinf; exact hnil _ hinf
  have hzs : zs ≠ [] := by
    intro h0; rw [h0] at hflat; exact hzne hflat.symm
  rw [bytes_of_streamLog c hs zs k hlog] at h32 ⊢
  exact anyPath_stillChunks_of cfg t hap f opts limit choose c data zs p dA hI hcrc ht hs hlen hsz hzs hzl
    (by rw [hflat]; exact hinf) hanc hna hlimit h32 ops

/-! ## any delivery -/

/-- **from the results on the complete file to the retrying caller's results**: `read_info` succeeds on the first `v` bytes
    of a file shorter than 4 GiB; on the complete file the calls `ops` return the successful results `res`.  Then under
    EVERY growth schedule the caller who repeats each call that ran out of input obtains a prefix of `res`, and all of
    `res` if the schedule delivers the file. -/
theorem delivery_of_run (cfg : Framing.Cfg) (hI : cfg.InflateOk) {t : TCfg} (hT : t.ResumeOk) (opts : Options)
    (limit : Nat) (f : Flags) (file : Bytes) (hlen : file.length < 2 ^ 32) (v : Nat) (hv : v ≤ file.length) (r0 : R)
    (hri : step cfg t (R.init opts limit f file v) .readInfo = (r0, .header)) (ops : List Reader.Op)
    (hc : ∀ op ∈ ops, op.isCall = true) (sched : List Nat) (res : List Reader.Res)
    (hrun : (run cfg t (R.init opts limit f file file.length) (.readInfo :: ops)).2 = .header :: res)
    (hg : ∀ x ∈ res, x.isGood = true) :
    resumeRun cfg t file.length sched ops r0 <+: res ∧
    (file.length ≤ v + sched.sum → resumeRun cfg t file.length sched ops r0 = res) := by
  obtain ⟨ys, h1, h2⟩ := delivery_from_start' cfg hI hT opts limit f file hlen v hv r0 hri ops hc sched res hrun hg
  refine ⟨⟨ys, h1.symm⟩, fun hs => ?_⟩
  rw [h2 hs, List.append_nil] at h1
  exact h1.symm

/-- … for one call: nothing yet, or the result on the complete file — never anything else -/
theorem delivery_one_of_run (cfg : Framing.Cfg) (hI : cfg.InflateOk) {t : TCfg} (hT : t.ResumeOk) (opts : Options)
    (limit : Nat) (f : Flags) (file : Bytes) (hlen : file.length < 2 ^ 32) (v : Nat) (hv : v ≤ file.length) (r0 : R)
    (hri : step cfg t (R.init opts limit f file v) .readInfo = (r0, .header)) (op : Reader.Op)
    (hc : op.isCall = true) (sched : List Nat) (x : Reader.Res)
    (hrun : (run cfg t (R.init opts limit f file file.length) [.readInfo, op]).2 = [.header, x])
    (hg : x.isGood = true) :
    (resumeRun cfg t file.length sched [op] r0 = [] ∨ resumeRun cfg t file.length sched [op] r0 = [x]) ∧
    (file.length ≤ v + sched.sum → resumeRun cfg t file.length sched [op] r0 = [x]) := by
  obtain ⟨⟨ys, h1⟩, h2⟩ := delivery_of_run cfg hI hT opts limit f file hlen v hv r0 hri [op]
    (fun o ho => by simp only [List.mem_singleton] at ho; rw [ho]; exact hc) sched [x] hrun
    (fun y hy => by simp only [List.mem_singleton] at hy; rw [hy]; exact hg)
  exact ⟨prefix_singleton h1.symm, h2⟩

/-- rows and the final `None` are successful results -/
theorem rowResults_good : ∀ (rows : List Bytes) (l : Nat), ∀ x ∈ rowResults l rows ++ [Reader.Res.noRow], x.isGood = true := by
  intro rows
  induction rows with
  | nil => intro l x hx; simp only [rowResults, List.nil_append, List.mem_singleton] at hx; rw [hx]; rfl
  | cons r rs ih =>
    intro l x hx
    simp only [rowResults, List.cons_append, List.mem_cons] at hx
    rcases hx with rfl | hx
    · rfl
    · exact ih (l + 1) x hx

/-- **`read_info` on the complete file succeeds** whenever a run on the complete file begins with the header: `v = file.length`
    is always an admissible truncation point of the delivery theorems -/
theorem readInfo_of_run {cfg : Framing.Cfg} {t : TCfg} {r : R} {ops : List Reader.Op} {res : List Reader.Res}
    (h : (run cfg t r (.readInfo :: ops)).2 = .header :: res) :
    step cfg t r .readInfo = ((step cfg t r .readInfo).1, .header) := by
  rw [Reader.run_cons] at h
  simp only [List.cons.injEq] at h
  exact step_eq_of_snd h.1

end Png.RoundTrip
