import PngVerif.Proofs.Framing
import PngVerif.Proofs.Basic
/-!
# What the `Reader` may assume about the stream decoder (`Model/Framing.lean`)

The `Reader` (`decoder/mod.rs`, `read_decoder.rs`) calls `update` in two modes and relies on what can
come back in each of them:

* **inside a data-chunk sequence** (`InSeq`): `decode_image_data` accepts `ImageData`,
  `ImageDataFlushed`, `ChunkComplete`, `ChunkBegin`, `PartialChunk`, `Nothing` and reaches
  `unreachable!()` for everything else (read_decoder.rs:138);
* **between sequences** (`OutSeq`): `decode_next_without_image_data` asserts that no image data was
  produced (read_decoder.rs:79).

This file defines the two modes as predicates on the decoder state, shows that `update` respects them
(`update_inSeq`, `update_outSeq`), that a header is never followed by `ImageEnd` in the same call
(`update_noInfo`), and the facts about `info` that the `Reader` relies on: once present it stays,
its IHDR fields never change, `tRNS` is frozen once image data began, a palette never changes, an
`fcTL` was parsed whenever an `fdAT` sequence may begin (`DInv`, `InfoStep`).

Part 1: chunk parsers (what they leave alone).  Part 2: one `nextState` call.  Part 3: `update`.
-/
namespace Png.Framing
open Png

/-! ## Part 0: chunk types -/

/-- a chunk type that carries image data -/
def DataType (t : ChunkType) : Prop := t = IDAT ∨ t = fdAT

instance (t : ChunkType) : Decidable (DataType t) := by unfold DataType; exact inferInstance

theorem IDAT_ne_IEND : IDAT ≠ IEND := by decide
theorem fdAT_ne_IEND : fdAT ≠ IEND := by decide
theorem IDAT_ne_fdAT : IDAT ≠ fdAT := by decide
theorem IDAT_ne_IHDR : IDAT ≠ IHDR := by decide
theorem fdAT_ne_IHDR : fdAT ≠ IHDR := by decide
theorem IEND_ne_IHDR : IEND ≠ IHDR := by decide

theorem DataType.ne_IEND {t : ChunkType} (h : DataType t) : t ≠ IEND := by
  rcases h with h | h <;> subst h
  · exact IDAT_ne_IEND
  · exact fdAT_ne_IEND

theorem DataType.ne_IHDR {t : ChunkType} (h : DataType t) : t ≠ IHDR := by
  rcases h with h | h <;> subst h
  · exact IDAT_ne_IHDR
  · exact fdAT_ne_IHDR

/-! ## Part 1: chunk parsers -/

/-- the IHDR fields of `Info` -/
def Info.core (i : Info) : Nat × Nat × Nat × Nat × Bool := (i.width, i.height, i.depth, i.color, i.interlaced)

/-- what every chunk parser other than `parse_ihdr` and `parse_fctl` leaves alone -/
structure Gen (d d' : Dec) : Prop where
  state : d'.state = d.state
  curType : d'.curType = d.curType
  out : d'.out = d.out
  readyIdat : d'.readyIdat = d.readyIdat
  readyFdat : d'.readyFdat = d.readyFdat
  haveIdat : d'.haveIdat = d.haveIdat
  seqNo : d'.seqNo = d.seqNo
  isSome : d'.info.isSome = d.info.isSome
  core : d'.info.map Info.core = d.info.map Info.core
  fctl : d'.info.map (·.fctl) = d.info.map (·.fctl)
  trns : d.haveIdat = true → d'.info.map (·.trns) = d.info.map (·.trns)
  plte : (d.info.bind (·.palette)).isSome → d'.info.map (·.palette) = d.info.map (·.palette)

theorem Gen.refl (d : Dec) : Gen d d := ⟨rfl, rfl, rfl, rfl, rfl, rfl, rfl, rfl, rfl, rfl, fun _ => rfl, fun _ => rfl⟩

/-- events a chunk parser other than `parse_ihdr` / `parse_fctl` can report -/
def Ev.isAux : Ev → Bool
  | .nothing | .pixelDimensions _ _ _ | .animationControl _ _ | .partialChunk _ => true
  | _ => false

def PGen (d : Dec) (r : PRes) : Prop := ∀ d' ev, r = .ok (d', ev) → Gen d d' ∧ ev.isAux = true

theorem reserve_eq_limit {d d' : Dec} {n : Nat} (h : reserve d n = .ok d') : d' = { d with limit := d.limit - n } := by
  unfold reserve at h; split at h <;> cases h; rfl

theorem gen_limit (d : Dec) (l : Nat) : Gen d { d with limit := l } :=
  ⟨rfl, rfl, rfl, rfl, rfl, rfl, rfl, rfl, rfl, rfl, fun _ => rfl, fun _ => rfl⟩

macro "parser_gen" h:ident : tactic => `(tactic| (
  simp only [bind, Except.bind, eofOr, pure, Except.pure, throw, throwThe, MonadExceptOf.throw, withInfo] at $h:ident
  repeat' split at $h:ident
  all_goals first
    | (cases $h:ident; done)
    | (cases $h:ident
       try (have hr := reserve_eq_limit (by assumption); subst hr)
       refine ⟨⟨?_, ?_, ?_, ?_, ?_, ?_, ?_, ?_, ?_, ?_, ?_, ?_⟩, ?_⟩ <;>
         simp_all [setInfo, addText, Info.core, Option.map_map, Function.comp_def, Ev.isAux])))

theorem parseActl_gen (d : Dec) : PGen d (parseActl d) := by
  intro d' ev h; unfold parseActl at h; parser_gen h
theorem parsePlte_gen (d : Dec) : PGen d (parsePlte d) := by
  intro d' ev h; unfold parsePlte at h; parser_gen h
theorem parseSbit_gen (d : Dec) : PGen d (parseSbit d) := by
  intro d' ev h; unfold parseSbit at h; parser_gen h
theorem parseTrns_gen (d : Dec) : PGen d (parseTrns d) := by
  intro d' ev h; unfold parseTrns at h; parser_gen h
theorem parsePhys_gen (d : Dec) : PGen d (parsePhys d) := by
  intro d' ev h; unfold parsePhys at h; parser_gen h
theorem parseChrm_gen (d : Dec) : PGen d (parseChrm d) := by
  intro d' ev h; unfold parseChrm at h; parser_gen h
theorem parseGama_gen (d : Dec) : PGen d (parseGama d) := by
  intro d' ev h; unfold parseGama at h; parser_gen h
theorem parseSrgb_gen (d : Dec) : PGen d (parseSrgb d) := by
  intro d' ev h; unfold parseSrgb at h; parser_gen h
theorem parseCicp_gen (d : Dec) : PGen d (parseCicp d) := by
  intro d' ev h; unfold parseCicp at h; parser_gen h
theorem parseMdcv_gen (d : Dec) : PGen d (parseMdcv d) := by
  intro d' ev h; unfold parseMdcv at h; parser_gen h
theorem parseClli_gen (d : Dec) : PGen d (parseClli d) := by
  intro d' ev h; unfold parseClli at h; parser_gen h
theorem parseExif_gen (d : Dec) : PGen d (parseExif d) := by
  intro d' ev h; unfold parseExif at h; parser_gen h
theorem parseBkgd_gen (d : Dec) : PGen d (parseBkgd d) := by
  intro d' ev h; unfold parseBkgd at h; parser_gen h
theorem parseText_gen (d : Dec) : PGen d (parseText d) := by
  intro d' ev h; unfold parseText at h; parser_gen h
theorem parseZtxt_gen (d : Dec) : PGen d (parseZtxt d) := by
  intro d' ev h; unfold parseZtxt at h; parser_gen h
theorem parseItxt_gen (cfg : Cfg) (d : Dec) : PGen d (parseItxt cfg d) := by
  intro d' ev h; unfold parseItxt at h; parser_gen h

theorem parseIccpRaw_gen {cfg : Cfg} {d d' : Dec} (h : parseIccpRaw cfg d = .ok d') : Gen d d' := by
  unfold parseIccpRaw at h
  simp only [bind, Except.bind, eofOr, pure, Except.pure, throw, throwThe, MonadExceptOf.throw] at h
  repeat' split at h
  all_goals first
    | (cases h; done)
    | (cases h
       have hr := reserve_eq_limit (by assumption); subst hr
       refine ⟨?_, ?_, ?_, ?_, ?_, ?_, ?_, ?_, ?_, ?_, ?_, ?_⟩ <;>
         (try simp_all [setInfo, Info.core, Option.map_map, Function.comp_def]) <;> rfl)

theorem gen_haveIccp (d : Dec) (b : Bool) : Gen d { d with haveIccp := b } :=
  ⟨rfl, rfl, rfl, rfl, rfl, rfl, rfl, rfl, rfl, rfl, fun _ => rfl, fun _ => rfl⟩

theorem Gen.trans {a b c : Dec} (h1 : Gen a b) (h2 : Gen b c) : Gen a c where
  state := h2.state.trans h1.state
  curType := h2.curType.trans h1.curType
  out := h2.out.trans h1.out
  readyIdat := h2.readyIdat.trans h1.readyIdat
  readyFdat := h2.readyFdat.trans h1.readyFdat
  haveIdat := h2.haveIdat.trans h1.haveIdat
  seqNo := h2.seqNo.trans h1.seqNo
  isSome := h2.isSome.trans h1.isSome
  core := h2.core.trans h1.core
  fctl := h2.fctl.trans h1.fctl
  trns := fun h => (h2.trns (h1.haveIdat.trans h)).trans (h1.trns h)
  plte := fun h => by
    have e1 := h1.plte h
    have hb : (b.info.bind (·.palette)).isSome := by
      cases ha : a.info with
      | none => simp [ha] at h
      | some i =>
        rw [ha] at e1 h
        cases hb : b.info with
        | none => simp [hb] at e1
        | some j =>
          simp only [hb, Option.map_some, Option.some.injEq] at e1
          simpa [e1] using h
    exact (h2.plte hb).trans e1

theorem parseIccp_gen (cfg : Cfg) (d : Dec) : PGen d (parseIccp cfg d) := by
  intro d' ev h
  unfold parseIccp at h
  simp only at h
  repeat' split at h
  all_goals first
    | (cases h; done)
    | (cases h; exact ⟨Gen.refl _, rfl⟩)
    | (cases h; exact ⟨gen_haveIccp _ _, rfl⟩)
    | (cases h; exact ⟨(gen_haveIccp d true).trans (parseIccpRaw_gen (by assumption)), rfl⟩)

/-- what `parse_ihdr` validated (stream.rs:1592-1686) -/
structure InfoLegal (i : Info) : Prop where
  pair : (i.color, i.depth) ∈ legalPairs
  width : 1 ≤ i.width
  height : 1 ≤ i.height

theorem InfoLegal.of_core {i j : Info} (h : i.core = j.core) (hl : InfoLegal i) : InfoLegal j := by
  simp only [Info.core, Prod.mk.injEq] at h
  obtain ⟨h1, h2, h3, h4, _⟩ := h
  exact ⟨h4 ▸ h3 ▸ hl.pair, h1 ▸ hl.width, h2 ▸ hl.height⟩

theorem parseIhdr_spec {d d' : Dec} {ev : Ev} (h : parseIhdr d = .ok (d', ev)) :
    d.info = none ∧ ∃ i, d' = { d with info := some i } ∧ InfoLegal i ∧ i.fctl = none ∧ i.palette = none ∧ i.trns = none ∧
      ev = .header i.width i.height i.depth i.color i.interlaced := by
  unfold parseIhdr at h
  simp only [bind, Except.bind, eofOr, pure, Except.pure, throw, throwThe, MonadExceptOf.throw] at h
  repeat' split at h
  all_goals first
    | (cases h; done)
    | (cases h
       refine ⟨by simp_all, _, rfl, ⟨?_, ?_, ?_⟩, rfl, rfl, rfl, rfl⟩
       · rw [legal_iff]; simp_all
       · simp only; omega
       · simp only; omega)

theorem parseFctl_spec {d d' : Dec} {ev : Ev} (h : parseFctl d = .ok (d', ev)) :
    ∃ i fc, d.info = some i ∧ fctlInBounds i fc = true ∧ d'.info = some { i with fctl := some fc } ∧
      d'.state = d.state ∧ d'.curType = d.curType ∧ d'.out = d.out ∧ d'.readyIdat = d.readyIdat ∧
      d'.haveIdat = d.haveIdat ∧ d'.readyFdat = true ∧ ev = .frameControl fc ∧
      4 ≤ d.raw.length ∧ d'.seqNo = some (match d.seqNo with | some s => s + 1 | none => 0) := by
  unfold parseFctl at h
  simp only [bind, Except.bind, eofOr, pure, Except.pure, throw, throwThe, MonadExceptOf.throw, withInfo] at h
  repeat' split at h
  all_goals first
    | (cases h; done)
    | (cases h
       rename_i i hi _ _
       have h4 : 4 ≤ d.raw.length := by
         have : ∀ (b : Bytes) v, rdU32 b = some v → 4 ≤ b.length := by
           intro b v hb; unfold rdU32 at hb; split at hb
           · simp
           · cases hb
         cases hr : rdU32 d.raw with
         | none => simp_all
         | some v => exact this _ _ hr
       refine ⟨i, _, ?_, ?_, ?_, ?_, ?_, ?_, ?_, ?_, ?_, rfl, h4, ?_⟩ <;> simp_all [setInfo])

/-- outcome of one parsed chunk -/
inductive Parsed (d d' : Dec) (ev : Ev) : Prop
  | gen (h : Gen d d') (e : ev.isAux = true)
  | ihdr (hn : d.info = none) (i : Info) (hd : d' = { d with info := some i }) (hl : InfoLegal i)
      (hf : i.fctl = none) (he : ev = .header i.width i.height i.depth i.color i.interlaced)
  | fctl (i : Info) (fc : FrameControl) (hi : d.info = some i) (hb : fctlInBounds i fc = true)
      (hi' : d'.info = some { i with fctl := some fc })
      (hs : d'.state = d.state) (hc : d'.curType = d.curType) (ho : d'.out = d.out) (hri : d'.readyIdat = d.readyIdat)
      (hh : d'.haveIdat = d.haveIdat) (hrf : d'.readyFdat = true) (he : ev = .frameControl fc)
      (hraw : 4 ≤ d.raw.length) (hseq : d'.seqNo = some (match d.seqNo with | some s => s + 1 | none => 0))

local macro "dcase" h:ident c:term "," l:term : tactic =>
  `(tactic| (by_cases hc : $c; (· rw [if_pos hc] at $h:ident; exact $l); rw [if_neg hc] at $h:ident))

theorem dispatch_parsed {cfg : Cfg} {d d' : Dec} {t : ChunkType} {ev : Ev} (h : dispatch cfg d t = .ok (d', ev)) :
    Parsed d d' ev := by
  have gen : ∀ {r : PRes}, PGen d r → r = .ok (d', ev) → Parsed d d' ev :=
    fun hp hr => .gen (hp _ _ hr).1 (hp _ _ hr).2
  unfold dispatch at h
  dcase h (t = IHDR), (by
    obtain ⟨hn, i, hd, hl, hf, _, _, he⟩ := parseIhdr_spec h
    exact .ihdr hn i hd hl hf he)
  dcase h (t = sBIT), gen (parseSbit_gen _) h
  dcase h (t = PLTE), gen (parsePlte_gen _) h
  dcase h (t = tRNS), gen (parseTrns_gen _) h
  dcase h (t = pHYs), gen (parsePhys_gen _) h
  dcase h (t = gAMA), gen (parseGama_gen _) h
  dcase h (t = acTL), gen (parseActl_gen _) h
  dcase h (t = fcTL), (by
    obtain ⟨i, fc, h1, h2, h3, h4, h5, h6, h7, h8, h9, h10, h11, h12⟩ := parseFctl_spec h
    exact .fctl i fc h1 h2 h3 h4 h5 h6 h7 h8 h9 h10 h11 h12)
  dcase h (t = cHRM), gen (parseChrm_gen _) h
  dcase h (t = sRGB), gen (parseSrgb_gen _) h
  dcase h (t = cICP), gen (parseCicp_gen _) h
  dcase h (t = mDCV), gen (parseMdcv_gen _) h
  dcase h (t = cLLI), gen (parseClli_gen _) h
  dcase h (t = eXIf), gen (parseExif_gen _) h
  dcase h (t = bKGD), gen (parseBkgd_gen _) h
  dcase h (t = iCCP ∧ (!d.opts.ignoreIccp) = true), gen (parseIccp_gen _ _) h
  dcase h (t = tEXt ∧ (!d.opts.ignoreText) = true), gen (parseText_gen _) h
  dcase h (t = zTXt ∧ (!d.opts.ignoreText) = true), gen (parseZtxt_gen _) h
  dcase h (t = iTXt ∧ (!d.opts.ignoreText) = true), gen (parseItxt_gen _ _) h
  cases h; exact .gen (Gen.refl _) rfl

/-- `parse_chunk`: the chunk took effect as `Parsed` says, from the decoder whose state is already `U32 Crc(t)` -/
theorem parseChunk_parsed {cfg : Cfg} {d d' : Dec} {t : ChunkType} {ev : Ev}
    (h : parseChunk cfg d t = .ok (ev, d')) : Parsed { d with state := some (.u32 (.crc t) []) } d' ev := by
  unfold parseChunk at h
  simp only at h
  cases hd : dispatch cfg { d with state := some (.u32 (.crc t) []) } t with
  | ok r =>
    rw [hd] at h; obtain ⟨d1, ev1⟩ := r; cases h
    exact dispatch_parsed hd
  | error e =>
    rw [hd] at h; simp only at h
    have key : ∀ d0 : Dec, Gen d0 (if t = sBIT ∨ t = tRNS then
          (match d0.info with
           | some i =>
             if (if t = sBIT then !(i.palette.isSome || d0.haveIdat || i.sbit.isSome) else !(i.trns.isSome || d0.haveIdat)) = true then
               (match reserve d0 d0.raw.length with | .ok d2 => d2 | .error _ => d0) else d0
           | none => d0)
        else d0) := by
      intro d0
      refine ite_prop (fun x : Dec => Gen d0 x) ?_ (Gen.refl _)
      split
      · refine ite_prop (fun x : Dec => Gen d0 x) ?_ (Gen.refl _)
        split
        · rename_i hr; rw [reserve_eq_limit hr]; exact gen_limit _ _
        · exact Gen.refl _
      · exact Gen.refl _
    cases e <;> simp only [Bool.true_and, Bool.false_and, Bool.false_eq_true, if_false] at h
    · split at h
      · cases h; exact .gen (key _) rfl
      · cases h
    · split at h
      · cases h; exact .gen (key _) rfl
      · cases h
    · cases h
    · cases h

/-! ## Part 2: one `next_state` call -/

/-- a step that runs no chunk parser and crosses no chunk boundary -/
structure Quiet (d d' : Dec) : Prop where
  info : d'.info = d.info
  readyIdat : d'.readyIdat = d.readyIdat
  readyFdat : d'.readyFdat = d.readyFdat
  haveIdat : d'.haveIdat = d.haveIdat
  curType : d'.curType = d.curType

theorem stepRead_eq {d d' : Dec} {t : ChunkType} {buf : Bytes} {n : Nat} {ev : Ev}
    (h : stepRead d t buf = .ok (n, ev, d')) :
    ev = .nothing ∧ Quiet d d' ∧ d'.out = d.out ∧
      (d'.state = some (.u32 (.crc t) []) ∨ d'.state = some (.parseChunkData t) ∨ d'.state = some (.readChunkData t)) := by
  unfold stepRead at h
  split at h
  · cases h; exact ⟨rfl, ⟨rfl, rfl, rfl, rfl, rfl⟩, rfl, Or.inl rfl⟩
  · simp only at h
    split at h
    · cases h; exact ⟨rfl, ⟨rfl, rfl, rfl, rfl, rfl⟩, rfl, Or.inr (Or.inl rfl)⟩
    · cases h
      refine ⟨rfl, ⟨rfl, rfl, rfl, rfl, rfl⟩, rfl, ?_⟩
      simp only; split
      · exact Or.inr (Or.inl rfl)
      · exact Or.inr (Or.inr rfl)

theorem stepImage_eq {cfg : Cfg} {d d' : Dec} {t : ChunkType} {buf : Bytes} {n : Nat} {ev : Ev}
    (h : stepImage cfg d t buf = .ok (n, ev, d')) :
    ev = .imageData ∧ Quiet d d' ∧
      (d'.state = some (.u32 (.crc t) []) ∨ d'.state = some (.imageData t)) := by
  unfold stepImage at h
  simp only at h
  split at h
  · cases h
  · cases h
    refine ⟨rfl, ⟨rfl, rfl, rfl, rfl, rfl⟩, ?_⟩
    simp only; split
    · exact Or.inl rfl
    · exact Or.inr rfl

theorem reserveCurrentChunk_quiet {d d' : Dec} (h : reserveCurrentChunk d = .ok d') :
    Quiet d d' ∧ d'.out = d.out := by
  unfold reserveCurrentChunk at h
  simp only at h
  repeat' split at h
  all_goals first | (cases h; done) | (cases h; exact ⟨⟨rfl, rfl, rfl, rfl, rfl⟩, rfl⟩)

theorem stepParse_eq {cfg : Cfg} {d d' : Dec} {t : ChunkType} {n : Nat} {ev : Ev}
    (h : stepParse cfg d t = .ok (n, ev, d')) :
    Parsed { d with state := some (.u32 (.crc t) []) } d' ev ∨
    (ev = .partialChunk t ∧ Quiet d d' ∧ d'.out = d.out ∧ d'.state = some (.readChunkData t)) := by
  unfold stepParse at h
  split at h
  · cases hp : parseChunk cfg d t with
    | error e => rw [hp] at h; cases h
    | ok r =>
      rw [hp] at h; obtain ⟨ev1, d1⟩ := r
      simp only [Except.map] at h
      cases h
      exact Or.inl (parseChunk_parsed hp)
  · cases hp : reserveCurrentChunk d with
    | error e => rw [hp] at h; cases h
    | ok d1 =>
      rw [hp] at h
      simp only [Except.map] at h
      cases h
      obtain ⟨⟨q1, q2, q3, q4, q5⟩, ho⟩ := reserveCurrentChunk_quiet hp
      exact Or.inr ⟨rfl, ⟨q1, q2, q3, q4, q5⟩, ho, rfl⟩

/-- the `U32` arm either only accumulates, or hands four bytes to `parse_u32`; with four bytes already
    accumulated (a pending re-parse) these are the four bytes -/
theorem stepU32_eq {cfg : Cfg} {d d' : Dec} {kind : U32Kind} {acc buf : Bytes} {n : Nat} {ev : Ev}
    (h : stepU32 cfg d kind acc buf = .ok (n, ev, d')) :
    (ev = .nothing ∧ acc.length < 4 ∧ ∃ acc', acc'.length < 4 ∧ d' = { d with state := some (.u32 kind acc') }) ∨
    (∃ b0 b1 b2 b3, parseU32 cfg d kind b0 b1 b2 b3 = .ok (ev, d') ∧
      (4 ≤ acc.length → ∃ rest, acc = b0 :: b1 :: b2 :: b3 :: rest)) := by
  unfold stepU32 at h
  split at h
  · rename_i hc
    obtain ⟨_, b0, b1, b2, b3, rest, _, hp⟩ := parse4_ok h
    exact Or.inr ⟨b0, b1, b2, b3, hp, fun h4 => by omega⟩
  · simp only at h
    split at h
    · rename_i hlt
      cases h
      refine Or.inl ⟨rfl, ?_, _, hlt, rfl⟩
      simp only [List.length_append] at hlt; omega
    · obtain ⟨_, b0, b1, b2, b3, rest, hl, hp⟩ := parse4_ok h
      refine Or.inr ⟨b0, b1, b2, b3, hp, fun h4 => ?_⟩
      have : min (4 - acc.length) buf.length = 0 := by omega
      rw [this, List.take_zero, List.append_nil] at hl
      exact ⟨rest, hl⟩

theorem flushData_quiet {cfg : Cfg} {d d' : Dec} (h : flushData cfg d = .ok d') :
    Quiet d d' ∧ d'.state = d.state ∧ d'.seqNo = d.seqNo := by
  unfold flushData at h
  repeat' split at h
  all_goals first | (cases h; done) | (cases h; exact ⟨⟨rfl, rfl, rfl, rfl, rfl⟩, rfl, rfl⟩)

theorem afterType_eq {d d' : Dec} {t : ChunkType} {len : Nat} {st : St} (h : afterType d t len = .ok (st, d')) :
    d'.info = d.info ∧ d'.readyIdat = d.readyIdat ∧ d'.readyFdat = d.readyFdat ∧ d'.curType = d.curType ∧ d'.out = d.out ∧
    (d.haveIdat = true → d'.haveIdat = true) ∧ d'.seqNo = d.seqNo ∧ d'.raw = d.raw ∧
    ((t = fdAT ∧ st = .u32 .seqNo [] ∧ d.readyFdat = true ∧ d'.haveIdat = true) ∨
     (t = IDAT ∧ st = .imageData t ∧ d.readyIdat = true ∧ d'.haveIdat = true) ∨
     (¬ DataType t ∧ (st = .readChunkData t ∨ st = .parseChunkData t) ∧ d' = d)) := by
  unfold afterType at h
  by_cases h1 : t = fdAT
  · rw [if_pos h1] at h
    repeat' split at h
    all_goals first
      | (cases h; done)
      | (cases h; exact ⟨rfl, rfl, rfl, rfl, rfl, fun _ => rfl, rfl, rfl, Or.inl ⟨h1, rfl, by simp_all, rfl⟩⟩)
  · rw [if_neg h1] at h
    by_cases h2 : t = IDAT
    · rw [if_pos h2] at h
      repeat' split at h
      all_goals first
        | (cases h; done)
        | (cases h; exact ⟨rfl, rfl, rfl, rfl, rfl, fun _ => rfl, rfl, rfl, Or.inr (Or.inl ⟨h2, rfl, by simp_all, rfl⟩)⟩)
    · rw [if_neg h2] at h
      split at h
      · cases h
        exact ⟨rfl, rfl, rfl, rfl, rfl, id, rfl, rfl, Or.inr (Or.inr ⟨fun hd => hd.elim h2 h1, Or.inr rfl, rfl⟩)⟩
      · cases h
        exact ⟨rfl, rfl, rfl, rfl, rfl, id, rfl, rfl, Or.inr (Or.inr ⟨fun hd => hd.elim h2 h1, Or.inl rfl, rfl⟩)⟩

/-- the chunk-type field: end of a data-chunk sequence, or beginning of a chunk -/
inductive TypeStep (d : Dec) (len : Nat) (b0 b1 b2 b3 : UInt8) (ev : Ev) (d' : Dec) : Prop
  | flush (hne : be32 b0 b1 b2 b3 ≠ d.curType) (hdt : DataType d.curType) (he : ev = .imageDataFlushed)
      (hi : d'.info = d.info) (hh : d'.haveIdat = d.haveIdat)
      (hs : d'.state = some (.u32 (.type len) [b0, b1, b2, b3])) (hc : d'.curType = be32 b0 b1 b2 b3)
      (hri : d'.readyIdat = false) (hrf : d'.readyFdat = false) (hsq : d'.seqNo = d.seqNo)
  | begin (hno : ¬ (be32 b0 b1 b2 b3 ≠ d.curType ∧ DataType d.curType)) (he : ev = .chunkBegin len (be32 b0 b1 b2 b3))
      (hi : d'.info = d.info) (hri : d'.readyIdat = d.readyIdat) (hrf : d'.readyFdat = d.readyFdat)
      (ho : d'.out = d.out) (hh : d.haveIdat = true → d'.haveIdat = true)
      (hc : d'.curType = be32 b0 b1 b2 b3) (hinfo : d.info.isNone → be32 b0 b1 b2 b3 = IHDR)
      (hst : (be32 b0 b1 b2 b3 = fdAT ∧ d'.state = some (.u32 .seqNo []) ∧ d.readyFdat = true ∧ d'.haveIdat = true) ∨
             (be32 b0 b1 b2 b3 = IDAT ∧ d'.state = some (.imageData IDAT) ∧ d.readyIdat = true ∧ d'.haveIdat = true) ∨
             (¬ DataType (be32 b0 b1 b2 b3) ∧ (d'.state = some (.readChunkData (be32 b0 b1 b2 b3)) ∨
                d'.state = some (.parseChunkData (be32 b0 b1 b2 b3))) ∧ d'.haveIdat = d.haveIdat))
      (hsq : d'.seqNo = d.seqNo) (hraw : d'.raw = [])

theorem parseU32_typeStep {cfg : Cfg} {d d' : Dec} {len : Nat} {b0 b1 b2 b3 : UInt8} {ev : Ev}
    (h : parseU32 cfg d (.type len) b0 b1 b2 b3 = .ok (ev, d')) : TypeStep d len b0 b1 b2 b3 ev d' := by
  simp only [parseU32] at h
  split at h
  · cases h
  · rename_i hinfo
    split at h
    · rename_i hne
      split at h
      · cases h
      · rename_i d1 hf
        cases h
        obtain ⟨⟨q1, q2, q3, q4, q5⟩, _, q6⟩ := flushData_quiet hf
        exact .flush hne.1 hne.2 rfl q1 q4 rfl q5 rfl rfl q6
    · rename_i hno
      split at h
      · cases h
      · rename_i st d1 ha
        cases h
        obtain ⟨a1, a2, a3, a4, a5, a6, a8, a9, a7⟩ := afterType_eq ha
        refine .begin hno rfl a1 a2 a3 a5 a6 rfl (fun hn => ?_) ?_ a8 rfl
        · exact Classical.byContradiction fun hc => hinfo ⟨hn, hc⟩
        · rcases a7 with ⟨e1, e2, e3, e4⟩ | ⟨e1, e2, e3, e4⟩ | ⟨e1, e2, e3⟩
          · exact Or.inl ⟨e1, by rw [e2], e3, e4⟩
          · exact Or.inr (Or.inl ⟨e1, by rw [e2, e1], e3, e4⟩)
          · exact Or.inr (Or.inr ⟨e1, by rcases e2 with e2 | e2 <;> rw [e2] <;> simp, by rw [e3]⟩)

theorem parseU32_crcStep {cfg : Cfg} {d d' : Dec} {t : ChunkType} {b0 b1 b2 b3 : UInt8} {ev : Ev}
    (h : parseU32 cfg d (.crc t) b0 b1 b2 b3 = .ok (ev, d')) :
    (t = IEND ∧ ev = .imageEnd ∧ d' = d) ∨
    (t ≠ IEND ∧ ev = .chunkComplete (be32 b0 b1 b2 b3) t ∧ d' = { d with state := some (.u32 .length []) }) ∨
    (ev = .nothing ∧ d' = { d with state := some (.u32 .length []) }) := by
  simp only [parseU32] at h
  repeat' split at h
  all_goals first
    | (cases h; done)
    | (cases h; exact Or.inl ⟨by assumption, rfl, rfl⟩)
    | (cases h; exact Or.inr (Or.inl ⟨by assumption, rfl, rfl⟩))
    | (cases h; exact Or.inr (Or.inr ⟨rfl, rfl⟩))

theorem parseU32_seqNoStep {cfg : Cfg} {d d' : Dec} {b0 b1 b2 b3 : UInt8} {ev : Ev}
    (h : parseU32 cfg d .seqNo b0 b1 b2 b3 = .ok (ev, d')) :
    ev = .partialChunk fdAT ∧ Quiet d d' ∧ d'.out = d.out ∧ d'.state = some (.imageData fdAT) := by
  simp only [parseU32] at h
  repeat' split at h
  all_goals first
    | (cases h; done)
    | (cases h; exact ⟨rfl, ⟨rfl, rfl, rfl, rfl, rfl⟩, rfl, rfl⟩)

theorem parseU32_simple {cfg : Cfg} {d d' : Dec} {kind : U32Kind} {b0 b1 b2 b3 : UInt8} {ev : Ev}
    (hk : kind = .sig1 ∨ kind = .sig2 ∨ kind = .length)
    (h : parseU32 cfg d kind b0 b1 b2 b3 = .ok (ev, d')) :
    ev = .nothing ∧ ∃ k', (k' = .sig2 ∨ k' = .length ∨ ∃ l, k' = .type l) ∧ d' = { d with state := some (.u32 k' []) } := by
  rcases hk with rfl | rfl | rfl <;> simp only [parseU32] at h
  · split at h
    · cases h; exact ⟨rfl, _, Or.inl rfl, rfl⟩
    · cases h
  · split at h
    · cases h; exact ⟨rfl, _, Or.inr (Or.inl rfl), rfl⟩
    · cases h
  · cases h; exact ⟨rfl, _, Or.inr (Or.inr ⟨_, rfl⟩), rfl⟩

/-! ### invariants of the decoder -/

/-- the state is inside chunk `t` (after its `ChunkBegin`) -/
def ChunkState (s : Option St) (t : ChunkType) : Prop :=
  match s with
  | some (.readChunkData t') => t' = t
  | some (.parseChunkData t') => t' = t
  | some (.imageData t') => t' = t
  | some (.u32 (.crc t') _) => t' = t
  | some (.u32 .seqNo _) => t = fdAT
  | _ => False

/-- invariant of every decoder reachable from `Dec.new` -/
structure DInv (d : Dec) : Prop where
  /-- `info` passed the IHDR validation -/
  legal : ∀ i, d.info = some i → InfoLegal i
  /-- a frame control passed `Info::validate` -/
  fctlOk : ∀ i fc, d.info = some i → i.fctl = some fc → fctlInBounds i fc = true
  /-- `fdAT` chunks are only accepted after an `fcTL` was stored -/
  ready : d.readyFdat = true → ∃ i fc, d.info = some i ∧ i.fctl = some fc
  /-- image data has begun whenever the current chunk is a data chunk -/
  idat : DataType d.curType → d.haveIdat = true
  /-- only `IHDR` can be entered without `info` -/
  endOk : ∀ t, ChunkState d.state t → t ≠ IHDR → d.info.isSome

/-- how the `info`-related parts of the decoder evolve (reflexive, transitive) -/
structure InfoStep (d d' : Dec) : Prop where
  idat : d.haveIdat = true → d'.haveIdat = true
  rIdat : d.readyIdat = false → d'.readyIdat = false
  evo : ∀ i, d.info = some i → ∃ i', d'.info = some i' ∧ i'.core = i.core ∧
    (d.haveIdat = true → i'.trns = i.trns) ∧ (i.palette.isSome → i'.palette = i.palette)

theorem InfoStep.refl (d : Dec) : InfoStep d d := ⟨id, id, fun i h => ⟨i, h, rfl, fun _ => rfl, fun _ => rfl⟩⟩

theorem InfoStep.trans {a b c : Dec} (h1 : InfoStep a b) (h2 : InfoStep b c) : InfoStep a c where
  idat := fun h => h2.idat (h1.idat h)
  rIdat := fun h => h2.rIdat (h1.rIdat h)
  evo := fun i hi => by
    obtain ⟨j, hj, c1, t1, p1⟩ := h1.evo i hi
    obtain ⟨k, hk, c2, t2, p2⟩ := h2.evo j hj
    refine ⟨k, hk, c2.trans c1, fun h => (t2 (h1.idat h)).trans (t1 h), fun h => ?_⟩
    have := p1 h
    exact (p2 (by rw [this]; exact h)).trans this

theorem InfoStep.isSome {d d' : Dec} (h : InfoStep d d') (hs : d.info.isSome) : d'.info.isSome := by
  cases hi : d.info with
  | none => simp [hi] at hs
  | some i => obtain ⟨j, hj, _⟩ := h.evo i hi; simp [hj]

theorem InfoStep.of_quiet {d d' : Dec} (q : Quiet d d') : InfoStep d d' :=
  ⟨fun h => q.haveIdat.trans h, fun h => q.readyIdat.trans h,
    fun i hi => ⟨i, q.info.trans hi, rfl, fun _ => rfl, fun _ => rfl⟩⟩

theorem DInv.of_quiet {d d' : Dec} (hD : DInv d) (q : Quiet d d')
    (he : ∀ t, ChunkState d'.state t → t ≠ IHDR → d.info.isSome) : DInv d' where
  legal := fun i hi => hD.legal i (q.info ▸ hi)
  fctlOk := fun i fc hi => hD.fctlOk i fc (q.info ▸ hi)
  ready := fun h => by
    obtain ⟨i, fc, h1, h2⟩ := hD.ready (q.readyFdat ▸ h)
    exact ⟨i, fc, q.info.trans h1, h2⟩
  idat := fun h => q.haveIdat.trans (hD.idat (q.curType ▸ h))
  endOk := fun t ht hne => by rw [q.info]; exact he t ht hne

theorem map_eq_some {α β : Type} {f : α → β} {a b : Option α} {x : α} (h : a.map f = b.map f) (hx : a = some x) :
    ∃ y, b = some y ∧ f y = f x := by
  subst hx
  cases b with
  | none => simp at h
  | some y => exact ⟨y, rfl, by simpa using h.symm⟩

theorem fctlInBounds_core {i j : Info} (h : i.core = j.core) (fc : FrameControl) : fctlInBounds i fc = fctlInBounds j fc := by
  simp only [Info.core, Prod.mk.injEq] at h
  obtain ⟨h1, h2, _⟩ := h
  simp only [fctlInBounds, h1, h2]

/-- a parsed chunk keeps the invariant -/
theorem DInv.parsed {d d' : Dec} {ev : Ev} (hD : DInv d) (hp : Parsed d d' ev) : DInv d' ∧ InfoStep d d' := by
  cases hp with
  | gen g e =>
    refine ⟨⟨?_, ?_, ?_, ?_, ?_⟩, ⟨?_, ?_, ?_⟩⟩
    · intro i' hi'
      obtain ⟨i, hi, hc⟩ := map_eq_some g.core hi'
      exact (hD.legal i hi).of_core hc
    · intro i' fc hi' hf
      obtain ⟨i, hi, hc⟩ := map_eq_some g.core hi'
      obtain ⟨i2, hi2, hf2⟩ := map_eq_some g.fctl hi'
      rw [hi] at hi2; cases hi2
      rw [← fctlInBounds_core hc]
      exact hD.fctlOk i fc hi (hf2.trans hf)
    · intro h
      obtain ⟨i, fc, hi, hf⟩ := hD.ready (g.readyFdat ▸ h)
      obtain ⟨i', hi', hf'⟩ := map_eq_some g.fctl.symm hi
      exact ⟨i', fc, hi', hf'.trans hf⟩
    · intro h; rw [g.haveIdat]; exact hD.idat (g.curType ▸ h)
    · intro t ht hne; rw [g.isSome]; exact hD.endOk t (g.state ▸ ht) hne
    · intro h; exact g.haveIdat.trans h
    · intro h; exact g.readyIdat.trans h
    · intro i hi
      obtain ⟨i', hi', hc⟩ := map_eq_some g.core.symm hi
      refine ⟨i', hi', hc, fun hh => ?_, fun hp => ?_⟩
      · have := g.trns hh; rw [hi, hi'] at this; simpa using this
      · have := g.plte (by simp [hi, hp]); rw [hi, hi'] at this; simpa using this
  | ihdr hn i hd hl hf he =>
    subst hd
    refine ⟨⟨?_, ?_, ?_, ?_, ?_⟩, ⟨id, id, ?_⟩⟩
    · intro j hj; cases hj; exact hl
    · intro j fc hj hfc; cases hj; rw [hf] at hfc; cases hfc
    · intro h
      obtain ⟨j, _, hj, _⟩ := hD.ready h
      rw [hn] at hj; cases hj
    · exact hD.idat
    · intro _ _ _; rfl
    · intro j hj; rw [hn] at hj; cases hj
  | fctl i fc hi hb hi' hs hc ho hri hh hrf he hraw hseq =>
    refine ⟨⟨?_, ?_, ?_, ?_, ?_⟩, ⟨?_, ?_, ?_⟩⟩
    · intro j hj; rw [hi'] at hj; cases hj
      exact InfoLegal.of_core (i := i) rfl (hD.legal i hi)
    · intro j fc' hj hfc; rw [hi'] at hj; cases hj
      simp only [Option.some.injEq] at hfc; subst hfc
      exact hb
    · intro _; exact ⟨_, fc, hi', rfl⟩
    · intro h; rw [hh]; exact hD.idat (hc ▸ h)
    · intro _ _ _; simp [hi']
    · intro h; exact hh.trans h
    · intro h; exact hri.trans h
    · intro j hj; rw [hi] at hj; cases hj
      exact ⟨_, hi', rfl, fun _ => rfl, fun _ => rfl⟩

theorem InfoStep.of_state {d d' : Dec} (s : Option St) (h : InfoStep { d with state := s } d') : InfoStep d d' :=
  ⟨h.idat, h.rIdat, h.evo⟩

theorem DInv.with_state {d : Dec} (hD : DInv d) (s : Option St)
    (he : ∀ t, ChunkState s t → t ≠ IHDR → d.info.isSome) : DInv { d with state := s } :=
  hD.of_quiet ⟨rfl, rfl, rfl, rfl, rfl⟩ he

/-- **every `next_state` call keeps the decoder invariant** and lets `info` evolve only as `InfoStep` says -/
theorem nextState_dinv {cfg : Cfg} {d d' : Dec} {st : St} {buf : Bytes} {n : Nat} {ev : Ev} (hD : DInv d)
    (hs : d.state = some st) (h : nextState cfg d st buf = .ok (n, ev, d')) : DInv d' ∧ InfoStep d d' := by
  unfold nextState at h
  simp only at h
  have q0 : Quiet d { d with state := none } := ⟨rfl, rfl, rfl, rfl, rfl⟩
  cases st with
  | u32 kind acc =>
    simp only at h
    rcases stepU32_eq h with ⟨_, _, acc', _, hd'⟩ | ⟨b0, b1, b2, b3, hp, _⟩
    · subst hd'
      refine ⟨hD.with_state _ fun t ht hne => ?_, InfoStep.of_quiet ⟨rfl, rfl, rfl, rfl, rfl⟩⟩
      exact hD.endOk t (by rw [hs]; cases kind <;> exact ht) hne
    · cases kind with
      | sig1 =>
        obtain ⟨_, k', hk', rfl⟩ := parseU32_simple (Or.inl rfl) hp
        refine ⟨hD.with_state _ fun t ht hne => ?_, InfoStep.of_quiet ⟨rfl, rfl, rfl, rfl, rfl⟩⟩
        rcases hk' with rfl | rfl | ⟨l, rfl⟩ <;> exact ht.elim
      | sig2 =>
        obtain ⟨_, k', hk', rfl⟩ := parseU32_simple (Or.inr (Or.inl rfl)) hp
        refine ⟨hD.with_state _ fun t ht hne => ?_, InfoStep.of_quiet ⟨rfl, rfl, rfl, rfl, rfl⟩⟩
        rcases hk' with rfl | rfl | ⟨l, rfl⟩ <;> exact ht.elim
      | length =>
        obtain ⟨_, k', hk', rfl⟩ := parseU32_simple (Or.inr (Or.inr rfl)) hp
        refine ⟨hD.with_state _ fun t ht hne => ?_, InfoStep.of_quiet ⟨rfl, rfl, rfl, rfl, rfl⟩⟩
        rcases hk' with rfl | rfl | ⟨l, rfl⟩ <;> exact ht.elim
      | type len =>
        cases parseU32_typeStep hp with
        | flush hne hdt he hi hh hst hc hri hrf hsq =>
          refine ⟨⟨?_, ?_, ?_, ?_, ?_⟩, ⟨fun h => hh.trans h, fun _ => hri, fun i hi0 => ⟨i, hi.trans hi0, rfl, fun _ => rfl, fun _ => rfl⟩⟩⟩
          · intro i h1; exact hD.legal i (hi ▸ h1)
          · intro i fc h1; exact hD.fctlOk i fc (hi ▸ h1)
          · intro h1; rw [hrf] at h1; cases h1
          · intro _; rw [hh]; exact hD.idat hdt
          · intro t ht; rw [hst] at ht; exact ht.elim
        | begin hno he hi hri hrf ho hh hc hinfo hst hsq hraw =>
          refine ⟨⟨?_, ?_, ?_, ?_, ?_⟩, ⟨hh, fun h => hri.trans h, fun i hi0 => ⟨i, hi.trans hi0, rfl, fun _ => rfl, fun _ => rfl⟩⟩⟩
          · intro i h1; exact hD.legal i (hi ▸ h1)
          · intro i fc h1; exact hD.fctlOk i fc (hi ▸ h1)
          · intro h1
            obtain ⟨i, fc, h2, h3⟩ := hD.ready (hrf ▸ h1)
            exact ⟨i, fc, hi.trans h2, h3⟩
          · intro hdt
            rcases hst with ⟨_, _, _, h4⟩ | ⟨_, _, _, h4⟩ | ⟨h1, _, _⟩
            · exact h4
            · exact h4
            · exact absurd (hc ▸ hdt) h1
          · intro t ht hne
            have key : be32 b0 b1 b2 b3 ≠ IHDR → d'.info.isSome := by
              intro hne'
              rw [hi]
              cases hdi : d.info with
              | none => exact absurd (hinfo (by simp [hdi])) hne'
              | some _ => rfl
            rcases hst with ⟨h1, h2, _, _⟩ | ⟨h1, h2, _, _⟩ | ⟨_, h2 | h2, _⟩
            · rw [h2] at ht; simp only [ChunkState] at ht; subst ht; exact key (h1 ▸ hne)
            · rw [h2] at ht; simp only [ChunkState] at ht; subst ht; exact key (h1 ▸ IDAT_ne_IHDR)
            · rw [h2] at ht; simp only [ChunkState] at ht; subst ht; exact key hne
            · rw [h2] at ht; simp only [ChunkState] at ht; subst ht; exact key hne
      | crc t =>
        rcases parseU32_crcStep hp with ⟨_, _, rfl⟩ | ⟨_, _, rfl⟩ | ⟨_, rfl⟩
        · exact ⟨hD.with_state _ fun t ht _ => ht.elim, InfoStep.of_quiet ⟨rfl, rfl, rfl, rfl, rfl⟩⟩
        · exact ⟨hD.with_state _ fun t ht _ => ht.elim, InfoStep.of_quiet ⟨rfl, rfl, rfl, rfl, rfl⟩⟩
        · exact ⟨hD.with_state _ fun t ht _ => ht.elim, InfoStep.of_quiet ⟨rfl, rfl, rfl, rfl, rfl⟩⟩
      | seqNo =>
        obtain ⟨_, q, _, hst⟩ := parseU32_seqNoStep hp
        refine ⟨hD.of_quiet ⟨q.info, q.readyIdat, q.readyFdat, q.haveIdat, q.curType⟩ fun t ht hne => ?_,
          InfoStep.of_quiet ⟨q.info, q.readyIdat, q.readyFdat, q.haveIdat, q.curType⟩⟩
        rw [hst] at ht; simp only [ChunkState] at ht
        exact hD.endOk t (by rw [hs]; exact ht.symm) hne
  | parseChunkData t =>
    simp only at h
    rcases stepParse_eq h with hp | ⟨_, q, _, hst⟩
    · have hD1 : DInv { ({ d with state := none } : Dec) with state := some (.u32 (.crc t) []) } :=
        hD.with_state _ fun t' ht hne => hD.endOk t' (by rw [hs]; exact ht) hne
      obtain ⟨h1, h2⟩ := hD1.parsed hp
      exact ⟨h1, ⟨h2.idat, h2.rIdat, h2.evo⟩⟩
    · refine ⟨hD.of_quiet ⟨q.info, q.readyIdat, q.readyFdat, q.haveIdat, q.curType⟩ fun t' ht hne => ?_,
        InfoStep.of_quiet ⟨q.info, q.readyIdat, q.readyFdat, q.haveIdat, q.curType⟩⟩
      rw [hst] at ht
      exact hD.endOk t' (by rw [hs]; exact ht) hne
  | readChunkData t =>
    simp only at h
    obtain ⟨_, q, _, hst⟩ := stepRead_eq h
    refine ⟨hD.of_quiet ⟨q.info, q.readyIdat, q.readyFdat, q.haveIdat, q.curType⟩ fun t' ht hne => ?_,
      InfoStep.of_quiet ⟨q.info, q.readyIdat, q.readyFdat, q.haveIdat, q.curType⟩⟩
    have : t = t' := by rcases hst with h1 | h1 | h1 <;> (rw [h1] at ht; exact ht)
    exact hD.endOk t' (by rw [hs]; exact this) hne
  | imageData t =>
    simp only at h
    obtain ⟨_, q, hst⟩ := stepImage_eq h
    refine ⟨hD.of_quiet ⟨q.info, q.readyIdat, q.readyFdat, q.haveIdat, q.curType⟩ fun t' ht hne => ?_,
      InfoStep.of_quiet ⟨q.info, q.readyIdat, q.readyFdat, q.haveIdat, q.curType⟩⟩
    have : t = t' := by rcases hst with h1 | h1 <;> (rw [h1] at ht; exact ht)
    exact hD.endOk t' (by rw [hs]; exact this) hne

/-! ### the two modes -/

/-- states a data-chunk sequence of type `c` can be in (between its `ChunkBegin` and its flush) -/
def SeqState (c : ChunkType) : Option St → Prop
  | some (.imageData t) => t = c
  | some (.u32 (.crc t) _) => t = c
  | some (.u32 .length _) => True
  | some (.u32 (.type _) _) => True
  | some (.u32 .seqNo _) => c = fdAT
  | _ => False

/-- **inside a data-chunk sequence**: the current chunk type is `IDAT`/`fdAT` and the state is one the
    sequence can be in: image data, the CRC of a data chunk, the length and type fields that follow it,
    the sequence number of an `fdAT` — never `ReadChunkData` / `ParseChunkData`, never poisoned -/
def InSeq (d : Dec) : Prop := DataType d.curType ∧ SeqState d.curType d.state

/-- a chunk-type field that is re-parsed after the flush of a data-chunk sequence -/
def Pending (d : Dec) (acc : Bytes) : Prop :=
  ∃ b0 b1 b2 b3 rest, acc = b0 :: b1 :: b2 :: b3 :: rest ∧ be32 b0 b1 b2 b3 = d.curType ∧
    d.readyIdat = false ∧ d.readyFdat = false

/-- **between data-chunk sequences**: the current chunk is not a data chunk (or its type field is
    being re-parsed right after a flush), the state is neither image data nor a sequence number, and
    the decoder is not poisoned -/
def OutSeq (d : Dec) : Prop :=
  match d.state with
  | some (.u32 (.type _) acc) => ¬ DataType d.curType ∨ Pending d acc
  | some (.u32 .seqNo _) => False
  | some (.imageData _) => False
  | some _ => ¬ DataType d.curType
  | none => False

theorem InSeq.state_ne_none {d : Dec} (h : InSeq d) : d.state ≠ none := by
  intro hn; have := h.2; rw [hn] at this; exact this

theorem OutSeq.state_ne_none {d : Dec} (h : OutSeq d) : d.state ≠ none := by
  intro hn; unfold OutSeq at h; rw [hn] at h; exact h

/-- events `decode_image_data` accepts besides `ImageDataFlushed` (read_decoder.rs:129-135) -/
def Ev.inSeqOk : Ev → Bool
  | .imageData | .nothing | .chunkComplete _ _ | .chunkBegin _ _ | .partialChunk _ => true
  | _ => false

/-- events between sequences other than the beginning of a data chunk and `ImageEnd` -/
def Ev.outSeqOk : Ev → Bool
  | .imageData | .imageDataFlushed | .imageEnd => false
  | .chunkBegin _ t => !decide (DataType t)
  | _ => true

theorem Ev.isAux_outSeqOk {ev : Ev} (h : ev.isAux = true) : ev.outSeqOk = true := by
  cases ev <;> simp_all [Ev.isAux, Ev.outSeqOk]

/-- **inside a sequence**: a `next_state` call leaves `info` alone; it either ends the sequence
    (`ImageDataFlushed`: now between sequences, no further `IDAT`/`fdAT` until the next `fcTL`) or stays
    inside with one of the events `decode_image_data` accepts -/
theorem nextState_inSeq {cfg : Cfg} {d d' : Dec} {st : St} {buf : Bytes} {n : Nat} {ev : Ev} (hI : InSeq d)
    (hs : d.state = some st) (h : nextState cfg d st buf = .ok (n, ev, d')) :
    d'.info = d.info ∧
    ((ev = .imageDataFlushed ∧ OutSeq d' ∧ d'.readyIdat = false) ∨ (InSeq d' ∧ ev.inSeqOk = true)) := by
  obtain ⟨hdt, hss⟩ := hI
  rw [hs] at hss
  unfold nextState at h
  simp only at h
  cases st with
  | u32 kind acc =>
    simp only at h
    rcases stepU32_eq h with ⟨he, _, acc', _, hd'⟩ | ⟨b0, b1, b2, b3, hp, _⟩
    · subst hd'; subst he
      refine ⟨rfl, Or.inr ⟨⟨hdt, ?_⟩, rfl⟩⟩
      cases kind <;> exact hss
    · cases kind with
      | sig1 => exact hss.elim
      | sig2 => exact hss.elim
      | length =>
        obtain ⟨he, k', hk', rfl⟩ := parseU32_simple (Or.inr (Or.inr rfl)) hp
        subst he
        simp only [parseU32] at hp
        cases hp
        exact ⟨rfl, Or.inr ⟨⟨hdt, trivial⟩, rfl⟩⟩
      | type len =>
        cases parseU32_typeStep hp with
        | flush hne hdt' he hi hh hst hc hri hrf hsq =>
          refine ⟨hi, Or.inl ⟨he, ?_, hri⟩⟩
          unfold OutSeq; rw [hst]
          exact Or.inr ⟨b0, b1, b2, b3, [], rfl, hc.symm, hri, hrf⟩
        | begin hno he hi hri hrf ho hh hc hinfo hst hsq hraw =>
          have ht : be32 b0 b1 b2 b3 = d.curType :=
            Classical.byContradiction fun hne => hno ⟨hne, hdt⟩
          refine ⟨hi, Or.inr ⟨?_, by rw [he]; rfl⟩⟩
          rcases hst with ⟨h1, h2, _, _⟩ | ⟨h1, h2, _, _⟩ | ⟨h1, _, _⟩
          · exact ⟨hc ▸ Or.inr h1, by rw [h2, hc]; exact h1⟩
          · exact ⟨hc ▸ Or.inl h1, by rw [h2, hc]; exact h1.symm⟩
          · exact absurd (ht ▸ hdt) h1
      | crc t =>
        have htc : t = d.curType := hss
        rcases parseU32_crcStep hp with ⟨h1, _, _⟩ | ⟨_, he, rfl⟩ | ⟨he, rfl⟩
        · exact absurd h1 (htc ▸ hdt.ne_IEND)
        · exact ⟨rfl, Or.inr ⟨⟨hdt, trivial⟩, by rw [he]; rfl⟩⟩
        · exact ⟨rfl, Or.inr ⟨⟨hdt, trivial⟩, by rw [he]; rfl⟩⟩
      | seqNo =>
        have hcf : d.curType = fdAT := hss
        obtain ⟨he, q, _, hst⟩ := parseU32_seqNoStep hp
        refine ⟨q.info, Or.inr ⟨⟨q.curType ▸ hdt, ?_⟩, by rw [he]; rfl⟩⟩
        rw [hst, q.curType]; exact hcf.symm
  | parseChunkData t => exact hss.elim
  | readChunkData t => exact hss.elim
  | imageData t =>
    simp only at h
    have htc : t = d.curType := hss
    obtain ⟨he, q, hst⟩ := stepImage_eq h
    refine ⟨q.info, Or.inr ⟨⟨q.curType ▸ hdt, ?_⟩, by rw [he]; rfl⟩⟩
    rcases hst with h1 | h1 <;> (rw [h1, q.curType]; exact htc)

/-- **between sequences**: a `next_state` call produces no image data and keeps `ready_for_idat_chunks`;
    it either begins a data chunk (now inside a sequence; `info` is present; `IDAT` needs
    `ready_for_idat_chunks`, `fdAT` needs `ready_for_fdat_chunks`), or reports `ImageEnd` (decoder
    finished), or stays between sequences with another event -/
theorem nextState_outSeq {cfg : Cfg} {d d' : Dec} {st : St} {buf : Bytes} {n : Nat} {ev : Ev} (hO : OutSeq d)
    (hs : d.state = some st) (h : nextState cfg d st buf = .ok (n, ev, d')) :
    d'.out = d.out ∧ d'.readyIdat = d.readyIdat ∧
    ((∃ len t, ev = .chunkBegin len t ∧ DataType t ∧ InSeq d' ∧ d'.info = d.info ∧ d.info.isSome ∧
        (t = IDAT → d.readyIdat = true) ∧ (t = fdAT → d.readyFdat = true)) ∨
     (ev = .imageEnd ∧ d'.state = none) ∨
     (OutSeq d' ∧ ev.outSeqOk = true)) := by
  unfold OutSeq at hO
  rw [hs] at hO
  unfold nextState at h
  simp only at h
  cases st with
  | u32 kind acc =>
    simp only at h
    rcases stepU32_eq h with ⟨he, hacc, acc', _, hd'⟩ | ⟨b0, b1, b2, b3, hp, hpend⟩
    · subst hd'; subst he
      refine ⟨rfl, rfl, Or.inr (Or.inr ⟨?_, rfl⟩)⟩
      unfold OutSeq
      cases kind with
      | type len =>
        simp only at hO ⊢
        rcases hO with hO | ⟨_, _, _, _, _, hacc', _⟩
        · exact Or.inl hO
        · subst hacc'; simp at hacc; omega
      | seqNo => exact hO.elim
      | sig1 => exact hO
      | sig2 => exact hO
      | length => exact hO
      | crc t => exact hO
    · cases kind with
      | sig1 =>
        obtain ⟨he, k', hk', rfl⟩ := parseU32_simple (Or.inl rfl) hp
        refine ⟨rfl, rfl, Or.inr (Or.inr ⟨?_, by rw [he]; rfl⟩)⟩
        unfold OutSeq
        rcases hk' with rfl | rfl | ⟨l, rfl⟩
        · exact hO
        · exact hO
        · exact Or.inl hO
      | sig2 =>
        obtain ⟨he, k', hk', rfl⟩ := parseU32_simple (Or.inr (Or.inl rfl)) hp
        refine ⟨rfl, rfl, Or.inr (Or.inr ⟨?_, by rw [he]; rfl⟩)⟩
        unfold OutSeq
        rcases hk' with rfl | rfl | ⟨l, rfl⟩
        · exact hO
        · exact hO
        · exact Or.inl hO
      | length =>
        obtain ⟨he, k', hk', rfl⟩ := parseU32_simple (Or.inr (Or.inr rfl)) hp
        refine ⟨rfl, rfl, Or.inr (Or.inr ⟨?_, by rw [he]; rfl⟩)⟩
        unfold OutSeq
        rcases hk' with rfl | rfl | ⟨l, rfl⟩
        · exact hO
        · exact hO
        · exact Or.inl hO
      | type len =>
        simp only at hO
        cases parseU32_typeStep hp with
        | flush hne hdt' he hi hh hst hc hri hrf hsq =>
          exfalso
          rcases hO with hO | ⟨c0, c1, c2, c3, rest, hacc', hbe, _, _⟩
          · exact hO hdt'
          · obtain ⟨rest', hr'⟩ := hpend (by rw [hacc']; simp)
            rw [hacc'] at hr'
            simp only [List.cons.injEq] at hr'
            obtain ⟨rfl, rfl, rfl, rfl, _⟩ := hr'
            exact hne hbe
        | begin hno he hi hri hrf ho hh hc hinfo hst hsq hraw =>
          have hsome : be32 b0 b1 b2 b3 ≠ IHDR → d.info.isSome := by
            intro hne'
            cases hdi : d.info with
            | none => exact absurd (hinfo (by simp [hdi])) hne'
            | some _ => rfl
          refine ⟨ho, hri, ?_⟩
          rcases hst with ⟨h1, h2, h3, _⟩ | ⟨h1, h2, h3, _⟩ | ⟨h1, h2 | h2, _⟩
          · refine Or.inl ⟨len, _, he, Or.inr h1, ⟨hc ▸ Or.inr h1, ?_⟩, hi, hsome (h1 ▸ fdAT_ne_IHDR), ?_, fun _ => h3⟩
            · rw [h2, hc]; exact h1
            · intro h4; exact absurd (h1.symm.trans h4) (Ne.symm IDAT_ne_fdAT)
          · refine Or.inl ⟨len, _, he, Or.inl h1, ⟨hc ▸ Or.inl h1, ?_⟩, hi, hsome (h1 ▸ IDAT_ne_IHDR), fun _ => h3, ?_⟩
            · rw [h2, hc]; exact h1.symm
            · intro h4; exact absurd (h1.symm.trans h4) IDAT_ne_fdAT
          · refine Or.inr (Or.inr ⟨?_, ?_⟩)
            · unfold OutSeq; rw [h2]; simp only; rw [hc]; exact h1
            · rw [he]; simp [Ev.outSeqOk, h1]
          · refine Or.inr (Or.inr ⟨?_, ?_⟩)
            · unfold OutSeq; rw [h2]; simp only; rw [hc]; exact h1
            · rw [he]; simp [Ev.outSeqOk, h1]
      | crc t =>
        rcases parseU32_crcStep hp with ⟨_, he, rfl⟩ | ⟨_, he, rfl⟩ | ⟨he, rfl⟩
        · exact ⟨rfl, rfl, Or.inr (Or.inl ⟨he, rfl⟩)⟩
        · exact ⟨rfl, rfl, Or.inr (Or.inr ⟨hO, by rw [he]; rfl⟩)⟩
        · exact ⟨rfl, rfl, Or.inr (Or.inr ⟨hO, by rw [he]; rfl⟩)⟩
      | seqNo => exact hO.elim
  | parseChunkData t =>
    simp only at h hO
    rcases stepParse_eq h with hp | ⟨he, q, ho, hst⟩
    · cases hp with
      | gen g e =>
        refine ⟨g.out, g.readyIdat, Or.inr (Or.inr ⟨?_, Ev.isAux_outSeqOk e⟩)⟩
        unfold OutSeq; rw [g.state]; simp only; rw [g.curType]; exact hO
      | ihdr hn i hd hl hf he =>
        subst hd
        exact ⟨rfl, rfl, Or.inr (Or.inr ⟨hO, by rw [he]; rfl⟩)⟩
      | fctl i fc hi hb hi' hs' hc ho hri hh hrf he hraw hseq =>
        refine ⟨ho, hri, Or.inr (Or.inr ⟨?_, by rw [he]; rfl⟩)⟩
        unfold OutSeq; rw [hs']; simp only; rw [hc]; exact hO
    · refine ⟨ho, q.readyIdat, Or.inr (Or.inr ⟨?_, by rw [he]; rfl⟩)⟩
      unfold OutSeq; rw [hst]; simp only; rw [q.curType]; exact hO
  | readChunkData t =>
    simp only at h hO
    obtain ⟨he, q, ho, hst⟩ := stepRead_eq h
    refine ⟨ho, q.readyIdat, Or.inr (Or.inr ⟨?_, by rw [he]; rfl⟩)⟩
    unfold OutSeq
    rcases hst with h1 | h1 | h1 <;> (rw [h1]; simp only; rw [q.curType]; exact hO)
  | imageData t => exact hO.elim

/-- **before the header**: while `info` is absent a `next_state` call cannot report `ImageEnd`, and
    `info` stays absent unless an event is reported -/
theorem nextState_noInfo {cfg : Cfg} {d d' : Dec} {st : St} {buf : Bytes} {n : Nat} {ev : Ev} (hD : DInv d)
    (hn : d.info = none) (hs : d.state = some st) (h : nextState cfg d st buf = .ok (n, ev, d')) :
    ev ≠ .imageEnd ∧ (ev = .nothing → d'.info = none) ∧ (∀ len t, ev = .chunkBegin len t → d'.info = none) := by
  have key : ∀ {P Q : Prop}, P ∧ Q → (∀ len t, ev = .chunkBegin len t → d'.info = none) →
      P ∧ Q ∧ (∀ len t, ev = .chunkBegin len t → d'.info = none) := fun h1 h2 => ⟨h1.1, h1.2, h2⟩
  have nb : ∀ {e : Ev}, ev = e → (∀ len t, e ≠ .chunkBegin len t) → ∀ len t, ev = .chunkBegin len t → d'.info = none :=
    fun h1 h2 len t h3 => absurd (h1.symm.trans h3) (h2 len t)
  unfold nextState at h
  simp only at h
  cases st with
  | u32 kind acc =>
    simp only at h
    rcases stepU32_eq h with ⟨he, _, acc', _, hd'⟩ | ⟨b0, b1, b2, b3, hp, _⟩
    · subst hd'; subst he; exact key ⟨by simp, fun _ => hn⟩ (fun _ _ h0 => by cases h0)
    · cases kind with
      | sig1 =>
        obtain ⟨he, k', hk', rfl⟩ := parseU32_simple (Or.inl rfl) hp
        exact key ⟨by rw [he]; simp, fun _ => hn⟩ (nb he (by simp))
      | sig2 =>
        obtain ⟨he, k', hk', rfl⟩ := parseU32_simple (Or.inr (Or.inl rfl)) hp
        exact key ⟨by rw [he]; simp, fun _ => hn⟩ (nb he (by simp))
      | length =>
        obtain ⟨he, k', hk', rfl⟩ := parseU32_simple (Or.inr (Or.inr rfl)) hp
        exact key ⟨by rw [he]; simp, fun _ => hn⟩ (nb he (by simp))
      | type len =>
        cases parseU32_typeStep hp with
        | flush hne hdt' he hi hh hst hc hri hrf hsq => exact key ⟨by rw [he]; simp, fun h0 => by rw [he] at h0; cases h0⟩ (nb he (by simp))
        | begin hno he hi hri hrf ho hh hc hinfo hst hsq hraw => exact key ⟨by rw [he]; simp, fun h0 => by rw [he] at h0; cases h0⟩ (fun _ _ _ => hi.trans hn)
      | crc t =>
        rcases parseU32_crcStep hp with ⟨h1, _, _⟩ | ⟨_, he, rfl⟩ | ⟨he, rfl⟩
        · exfalso
          have := hD.endOk t (by rw [hs]; exact rfl) (h1 ▸ IEND_ne_IHDR)
          rw [hn] at this; cases this
        · exact key ⟨by rw [he]; simp, fun _ => hn⟩ (nb he (by simp))
        · exact key ⟨by rw [he]; simp, fun _ => hn⟩ (nb he (by simp))
      | seqNo =>
        obtain ⟨he, q, _, hst⟩ := parseU32_seqNoStep hp
        exact key ⟨by rw [he]; simp, fun h0 => by rw [he] at h0; cases h0⟩ (nb he (by simp))
  | parseChunkData t =>
    simp only at h
    rcases stepParse_eq h with hp | ⟨he, q, ho, hst⟩
    · cases hp with
      | gen g e =>
        refine key ⟨fun h0 => (by rw [h0] at e; cases e), fun _ => ?_⟩ (fun _ _ h0 => by rw [h0] at e; cases e)
        have := g.isSome
        simp only [hn] at this
        cases hd' : d'.info with
        | none => rfl
        | some _ => rw [hd'] at this; cases this
      | ihdr hn' i hd hl hf he => exact key ⟨by rw [he]; simp, fun h0 => by rw [he] at h0; cases h0⟩ (nb he (by simp))
      | fctl i fc hi hb hi' hs' hc ho hri hh hrf he hraw hseq => exact key ⟨by rw [he]; simp, fun h0 => by rw [he] at h0; cases h0⟩ (nb he (by simp))
    · exact key ⟨by rw [he]; simp, fun h0 => by rw [he] at h0; cases h0⟩ (nb he (by simp))
  | readChunkData t =>
    simp only at h
    obtain ⟨he, q, ho, hst⟩ := stepRead_eq h
    exact key ⟨by rw [he]; simp, fun _ => q.info.trans hn⟩ (nb he (by simp))
  | imageData t =>
    simp only at h
    obtain ⟨he, q, hst⟩ := stepImage_eq h
    exact key ⟨by rw [he]; simp, fun h0 => by rw [he] at h0; cases h0⟩ (nb he (by simp))

/-! ## Part 3: `update` -/

/-- how an `update` call ended, in terms of a property `I` that every `Nothing` step preserves -/
def LoopEnd (cfg : Cfg) (I : Dec → Prop) : Dec × Except Err (Nat × Ev) → Prop
  | (dF, .ok (_, ev)) =>
    (ev = .nothing ∧ I dF) ∨ (∃ dk st b n, I dk ∧ dk.state = some st ∧ nextState cfg dk st b = .ok (n, ev, dF))
  | (dF, .error _) => ∃ dk, I dk ∧ dF = { dk with state := none }

theorem with_state_none {d : Dec} (h : d.state = none) : d = { d with state := none } := by
  cases d; simp only at h; subst h; rfl

theorem updateLoop_inv (cfg : Cfg) (I : Dec → Prop)
    (hstep : ∀ d st buf n d', I d → d.state = some st → nextState cfg d st buf = .ok (n, .nothing, d') → I d') :
    ∀ (fuel : Nat) (d : Dec) (buf : Bytes) (c : Nat), I d → LoopEnd cfg I (updateLoop cfg fuel d buf c) := by
  intro fuel
  induction fuel with
  | zero => intro d buf c hI; exact Or.inl ⟨rfl, hI⟩
  | succ fuel ih =>
    intro d buf c hI
    unfold updateLoop
    cases hb : buf.isEmpty with
    | true => exact Or.inl ⟨rfl, hI⟩
    | false =>
      simp only [Bool.false_eq_true, if_false]
      cases hs : d.state with
      | none => exact ⟨d, hI, with_state_none hs⟩
      | some st =>
        simp only
        cases hr : nextState cfg d st buf with
        | error e => exact ⟨d, hI, rfl⟩
        | ok r =>
          obtain ⟨n, ev, d'⟩ := r
          by_cases hev : ev = .nothing
          · subst hev
            exact ih d' (buf.drop n) (c + n) (hstep d st buf n d' hI hs hr)
          · cases ev <;> first | exact absurd rfl hev | skip
            all_goals exact Or.inr ⟨d, st, buf, n, hI, hs, hr⟩

theorem update_inv (cfg : Cfg) (I : Dec → Prop)
    (hstep : ∀ d st buf n d', I d → d.state = some st → nextState cfg d st buf = .ok (n, .nothing, d') → I d')
    (d : Dec) (buf : Bytes) (hI : I d) (hs : d.state ≠ none) : LoopEnd cfg I (update cfg d buf) := by
  unfold update
  cases h : d.state with
  | none => exact absurd h hs
  | some st => exact updateLoop_inv cfg I hstep _ d buf 0 hI

/-- **every `update` call keeps the decoder invariant** and lets `info` evolve only as `InfoStep` says -/
theorem update_dinv {cfg : Cfg} {d d' : Dec} {buf : Bytes} {res : Except Err (Nat × Ev)} (hD : DInv d)
    (hu : update cfg d buf = (d', res)) : DInv d' ∧ InfoStep d d' := by
  cases hs : d.state with
  | none =>
    have := (poisoned_refuses cfg d buf hs).2
    rw [hu] at this; simp only at this; subst this
    exact ⟨hD, InfoStep.refl _⟩
  | some st0 =>
    have := update_inv cfg (fun x => DInv x ∧ InfoStep d x)
      (fun x st b n x' hx hst hn => by
        obtain ⟨h1, h2⟩ := nextState_dinv hx.1 hst hn
        exact ⟨h1, hx.2.trans h2⟩)
      d buf ⟨hD, InfoStep.refl _⟩ (by simp [hs])
    rw [hu] at this
    cases res with
    | ok r =>
      obtain ⟨m, ev⟩ := r
      rcases this with ⟨_, h⟩ | ⟨dk, st, b, n, hk, hst, hn⟩
      · exact h
      · obtain ⟨h1, h2⟩ := nextState_dinv hk.1 hst hn
        exact ⟨h1, hk.2.trans h2⟩
    | error e =>
      obtain ⟨dk, hk, rfl⟩ := this
      exact ⟨hk.1.with_state _ fun _ ht _ => ht.elim, ⟨hk.2.idat, hk.2.rIdat, hk.2.evo⟩⟩

/-- **`inSeq_events`**: from a decoder inside a data-chunk sequence, `update` leaves `info` alone and
    returns an error (poisoned), or `ImageDataFlushed` (now between sequences, `ready_for_idat_chunks`
    cleared), or one of `ImageData`, `ChunkComplete`, `ChunkBegin`, `PartialChunk`, `Nothing` with the
    decoder still inside the sequence — never `Header`, `PixelDimensions`, `AnimationControl`,
    `FrameControl`, `ImageEnd` -/
theorem update_inSeq {cfg : Cfg} {d d' : Dec} {buf : Bytes} {res : Except Err (Nat × Ev)} (hI : InSeq d)
    (hu : update cfg d buf = (d', res)) :
    d'.info = d.info ∧
    match res with
    | .error _ => d'.state = none
    | .ok (_, ev) => (ev = .imageDataFlushed ∧ OutSeq d' ∧ d'.readyIdat = false) ∨ (InSeq d' ∧ ev.inSeqOk = true) := by
  have := update_inv cfg (fun x => InSeq x ∧ x.info = d.info)
    (fun x st b n x' hx hst hn => by
      obtain ⟨h1, h2⟩ := nextState_inSeq hx.1 hst hn
      rcases h2 with ⟨h3, _⟩ | ⟨h3, _⟩
      · cases h3
      · exact ⟨h3, h1.trans hx.2⟩)
    d buf ⟨hI, rfl⟩ hI.state_ne_none
  rw [hu] at this
  cases res with
  | ok r =>
    obtain ⟨m, ev⟩ := r
    rcases this with ⟨he, h⟩ | ⟨dk, st, b, n, hk, hst, hn⟩
    · exact ⟨h.2, Or.inr ⟨h.1, by rw [he]; rfl⟩⟩
    · obtain ⟨h1, h2⟩ := nextState_inSeq hk.1 hst hn
      exact ⟨h1.trans hk.2, h2⟩
  | error e =>
    obtain ⟨dk, hk, rfl⟩ := this
    exact ⟨hk.2, rfl⟩

/-- **between sequences**: `update` produces no image data and keeps `ready_for_idat_chunks`; it returns
    an error (poisoned), or the `ChunkBegin` of a data chunk (now inside a sequence; `info` present;
    `IDAT` only if `ready_for_idat_chunks`; `fdAT` only with a stored frame control), or `ImageEnd`
    (finished), or another event with the decoder still between sequences -/
theorem update_outSeq {cfg : Cfg} {d d' : Dec} {buf : Bytes} {res : Except Err (Nat × Ev)} (hD : DInv d) (hO : OutSeq d)
    (hu : update cfg d buf = (d', res)) :
    d'.out = d.out ∧ d'.readyIdat = d.readyIdat ∧
    match res with
    | .error _ => d'.state = none
    | .ok (_, ev) =>
      (∃ len t, ev = .chunkBegin len t ∧ DataType t ∧ InSeq d' ∧ d'.info.isSome ∧
          (t = IDAT → d.readyIdat = true) ∧ (t = fdAT → ∃ i fc, d'.info = some i ∧ i.fctl = some fc)) ∨
      (ev = .imageEnd ∧ d'.state = none) ∨
      (OutSeq d' ∧ ev.outSeqOk = true) := by
  have := update_inv cfg (fun x => OutSeq x ∧ DInv x ∧ x.out = d.out ∧ x.readyIdat = d.readyIdat)
    (fun x st b n x' hx hst hn => by
      obtain ⟨h1, h2, h3⟩ := nextState_outSeq hx.1 hst hn
      refine ⟨?_, (nextState_dinv hx.2.1 hst hn).1, h1.trans hx.2.2.1, h2.trans hx.2.2.2⟩
      rcases h3 with ⟨_, _, h4, _⟩ | ⟨h4, _⟩ | ⟨h4, _⟩
      · cases h4
      · cases h4
      · exact h4)
    d buf ⟨hO, hD, rfl, rfl⟩ hO.state_ne_none
  rw [hu] at this
  cases res with
  | ok r =>
    obtain ⟨m, ev⟩ := r
    rcases this with ⟨he, h⟩ | ⟨dk, st, b, n, hk, hst, hn⟩
    · exact ⟨h.2.2.1, h.2.2.2, Or.inr (Or.inr ⟨h.1, by rw [he]; rfl⟩)⟩
    · obtain ⟨h1, h2, h3⟩ := nextState_outSeq hk.1 hst hn
      refine ⟨h1.trans hk.2.2.1, h2.trans hk.2.2.2, ?_⟩
      rcases h3 with ⟨len, t, e1, e2, e3, e4, e5, e6, e7⟩ | h3 | h3
      · refine Or.inl ⟨len, t, e1, e2, e3, e4 ▸ e5, fun ht => hk.2.2.2 ▸ e6 ht, fun ht => ?_⟩
        obtain ⟨i, fc, g1, g2⟩ := hk.2.1.ready (e7 ht)
        exact ⟨i, fc, e4.trans g1, g2⟩
      · exact Or.inr (Or.inl h3)
      · exact Or.inr (Or.inr h3)
  | error e =>
    obtain ⟨dk, hk, rfl⟩ := this
    exact ⟨hk.2.2.1, hk.2.2.2, rfl⟩

/-- **before the header** `update` cannot report `ImageEnd` (the `unreachable!()` of
    `read_header_info`, read_decoder.rs:94) -/
theorem update_noInfo {cfg : Cfg} {d d' : Dec} {buf : Bytes} {n : Nat} {ev : Ev} (hD : DInv d) (hn : d.info = none)
    (hu : update cfg d buf = (d', .ok (n, ev))) :
    ev ≠ .imageEnd ∧ (∀ len t, ev = .chunkBegin len t → d'.info = none) := by
  cases hs : d.state with
  | none =>
    have := (poisoned_refuses cfg d buf hs).1
    rw [hu] at this; cases this
  | some st0 =>
    have := update_inv cfg (fun x => DInv x ∧ x.info = none)
      (fun x st b n x' hx hst hn' =>
        ⟨(nextState_dinv hx.1 hst hn').1, (nextState_noInfo hx.1 hx.2 hst hn').2.1 rfl⟩)
      d buf ⟨hD, hn⟩ (by simp [hs])
    rw [hu] at this
    rcases this with ⟨he, _⟩ | ⟨dk, st, b, n', hk, hst, hn'⟩
    · rw [he]; exact ⟨by simp, fun _ _ h0 => by cases h0⟩
    · exact ⟨(nextState_noInfo hk.1 hk.2 hst hn').1, (nextState_noInfo hk.1 hk.2 hst hn').2.2⟩

/-- **`info_some_after_header`**: once present, `info` stays present through `update` -/
theorem info_some_after_header {cfg : Cfg} {d d' : Dec} {buf : Bytes} {res : Except Err (Nat × Ev)} (hD : DInv d)
    (hi : d.info.isSome) (hu : update cfg d buf = (d', res)) : d'.info.isSome :=
  (update_dinv hD hu).2.isSome hi

/-- the decoder `StreamingDecoder::new` creates -/
theorem dinv_new (opts : Options) (limit : Nat) : DInv ({ opts := opts, limit := limit } : Dec) where
  legal := fun i h => by cases h
  fctlOk := fun i fc h => by cases h
  ready := fun h => by cases h
  idat := fun h => by
    have : ¬ DataType (0 : ChunkType) := by decide
    exact absurd h this
  endOk := fun t h => h.elim

theorem outSeq_new (opts : Options) (limit : Nat) : OutSeq ({ opts := opts, limit := limit } : Dec) := by
  have : ¬ DataType (0 : ChunkType) := by decide
  exact this

/-! ## Part 4: the stream decoder's own panic sites

`state.take().unwrap()` (stream.rs:685), `info.as_mut().unwrap()` in the chunk parsers and the
`seq_no + 1` of `fcTL`/`fdAT` (stream.rs:935, 1053).  The last one needs an input of at least 2^32
sequence numbers: `Acct` charges every sequence number to four consumed input bytes. -/

/-- the next expected sequence number -/
def seqVal (d : Dec) : Nat := match d.seqNo with | some s => s + 1 | none => 0

/-- consumed bytes that are still held in the state -/
def fresh (d : Dec) : Nat :=
  match d.state with
  | some (.u32 _ acc) => acc.length
  | some (.readChunkData _) => d.raw.length
  | some (.parseChunkData _) => d.raw.length
  | _ => 0

/-- after `c` consumed bytes: sequence numbers seen plus bytes held do not exceed `c` -/
def Acct (c : Nat) (d : Dec) : Prop := seqVal d + fresh d ≤ c

theorem stepU32_acct {cfg : Cfg} {d d' : Dec} {kind : U32Kind} {acc buf : Bytes} {n : Nat} {ev : Ev}
    (h : stepU32 cfg d kind acc buf = .ok (n, ev, d')) :
    (∃ acc', acc'.length = acc.length + n ∧ d' = { d with state := some (.u32 kind acc') }) ∨
    (4 ≤ acc.length + n ∧ ∃ b0 b1 b2 b3, parseU32 cfg d kind b0 b1 b2 b3 = .ok (ev, d')) := by
  unfold stepU32 at h
  split at h
  · rename_i hc
    obtain ⟨hn, b0, b1, b2, b3, rest, _, hp⟩ := parse4_ok h
    exact Or.inr ⟨by omega, b0, b1, b2, b3, hp⟩
  · simp only at h
    split at h
    · cases h
      refine Or.inl ⟨_, ?_, rfl⟩
      simp only [List.length_append, List.length_take]; omega
    · rename_i hge
      obtain ⟨hn, b0, b1, b2, b3, rest, hl, hp⟩ := parse4_ok h
      refine Or.inr ⟨?_, b0, b1, b2, b3, hp⟩
      simp only [List.length_append, List.length_take] at hge
      omega

theorem parseU32_seqNo_val {cfg : Cfg} {d d' : Dec} {b0 b1 b2 b3 : UInt8} {ev : Ev}
    (h : parseU32 cfg d .seqNo b0 b1 b2 b3 = .ok (ev, d')) : seqVal d' = seqVal d + 1 := by
  simp only [parseU32] at h
  repeat' split at h
  all_goals first
    | (cases h; done)
    | (cases h; simp_all [seqVal])

theorem stepRead_acct {d d' : Dec} {t : ChunkType} {buf : Bytes} {n : Nat} {ev : Ev}
    (h : stepRead d t buf = .ok (n, ev, d')) :
    d'.seqNo = d.seqNo ∧
    (d'.state = some (.u32 (.crc t) []) ∨
     ((d'.state = some (.parseChunkData t) ∨ d'.state = some (.readChunkData t)) ∧ d'.raw.length = d.raw.length + n)) := by
  unfold stepRead at h
  split at h
  · cases h; exact ⟨rfl, Or.inl rfl⟩
  · simp only at h
    split at h
    · cases h; exact ⟨rfl, Or.inr ⟨Or.inl rfl, rfl⟩⟩
    · cases h
      refine ⟨rfl, Or.inr ⟨?_, ?_⟩⟩
      · simp only; split
        · exact Or.inl rfl
        · exact Or.inr rfl
      · simp only [Dec.readPiece, List.length_append, List.length_take]; omega

/-- **accounting**: a `next_state` call that consumes `n` bytes keeps `Acct` -/
theorem nextState_acct {cfg : Cfg} {d d' : Dec} {st : St} {buf : Bytes} {n c : Nat} {ev : Ev} (hA : Acct c d)
    (hs : d.state = some st) (h : nextState cfg d st buf = .ok (n, ev, d')) : Acct (c + n) d' := by
  unfold Acct fresh at hA
  rw [hs] at hA
  unfold nextState at h
  simp only at h
  unfold Acct
  cases st with
  | u32 kind acc =>
    simp only at h hA
    rcases stepU32_acct h with ⟨acc', hl, rfl⟩ | ⟨h4, b0, b1, b2, b3, hp⟩
    · simp only [fresh, seqVal] at hA ⊢; omega
    · cases kind with
      | sig1 =>
        obtain ⟨_, k', _, rfl⟩ := parseU32_simple (Or.inl rfl) hp
        simp only [fresh, seqVal, List.length_nil] at hA ⊢; omega
      | sig2 =>
        obtain ⟨_, k', _, rfl⟩ := parseU32_simple (Or.inr (Or.inl rfl)) hp
        simp only [fresh, seqVal, List.length_nil] at hA ⊢; omega
      | length =>
        obtain ⟨_, k', _, rfl⟩ := parseU32_simple (Or.inr (Or.inr rfl)) hp
        simp only [fresh, seqVal, List.length_nil] at hA ⊢; omega
      | type len =>
        have hsv : d'.seqNo = d.seqNo ∧ fresh d' ≤ 4 := by
          cases parseU32_typeStep hp with
          | flush hne hdt he hi hh hst hc hri hrf hsq => exact ⟨hsq, by simp [fresh, hst]⟩
          | begin hno he hi hri hrf ho hh hc hinfo hst hsq hraw =>
            refine ⟨hsq, ?_⟩
            rcases hst with ⟨_, h2, _, _⟩ | ⟨_, h2, _, _⟩ | ⟨_, h2 | h2, _⟩ <;> simp [fresh, h2, hraw]
        obtain ⟨hsv, hfr⟩ := hsv
        simp only [seqVal, hsv] at hA ⊢
        omega
      | crc t =>
        rcases parseU32_crcStep hp with ⟨_, _, rfl⟩ | ⟨_, _, rfl⟩ | ⟨_, rfl⟩ <;>
          (simp only [fresh, seqVal, List.length_nil] at hA ⊢; omega)
      | seqNo =>
        have h1 := parseU32_seqNo_val hp
        obtain ⟨_, _, _, hst⟩ := parseU32_seqNoStep hp
        simp only [fresh, hst] at hA ⊢
        simp only [seqVal] at hA h1 ⊢
        omega
  | parseChunkData t =>
    simp only at h hA
    have hn : n = 0 := (stepParse_progress (buf := buf) h).2
    subst hn
    rcases stepParse_eq h with hp | ⟨_, q, _, hst⟩
    · cases hp with
      | gen g e =>
        have : d'.state = some (.u32 (.crc t) []) := g.state
        simp only [fresh, this, seqVal, g.seqNo, List.length_nil] at hA ⊢; omega
      | ihdr hn i hd hl hf he =>
        subst hd
        simp only [fresh, seqVal, List.length_nil] at hA ⊢; omega
      | fctl i fc hi hb hi' hs' hc ho hri hh hrf he hraw hseq =>
        have : d'.state = some (.u32 (.crc t) []) := hs'
        simp only [fresh, this, seqVal, hseq, List.length_nil] at hA hraw ⊢
        split at hA <;> (rename_i hsq; simp only [hsq] at hseq ⊢; omega)
    · have hraw : d'.raw = d.raw := by
        unfold stepParse at h
        split at h
        · rename_i h0
          cases hp : parseChunk cfg { d with state := none } t with
          | error e => rw [hp] at h; cases h
          | ok r =>
            rw [hp] at h; obtain ⟨ev1, d1⟩ := r
            simp only [Except.map] at h; cases h
            have := (parseChunk_ok hp).1
            rw [hst] at this; cases this
        · cases hp : reserveCurrentChunk { d with state := none } with
          | error e => rw [hp] at h; cases h
          | ok d1 =>
            rw [hp] at h; simp only [Except.map] at h; cases h
            exact (reserveCurrentChunk_ok hp).2.2.1
      have hsq : d'.seqNo = d.seqNo := by
        unfold stepParse at h
        split at h
        · cases hp : parseChunk cfg { d with state := none } t with
          | error e => rw [hp] at h; cases h
          | ok r =>
            rw [hp] at h; obtain ⟨ev1, d1⟩ := r
            simp only [Except.map] at h; cases h
            have := (parseChunk_ok hp).1
            rw [hst] at this; cases this
        · cases hp : reserveCurrentChunk { d with state := none } with
          | error e => rw [hp] at h; cases h
          | ok d1 =>
            rw [hp] at h; simp only [Except.map] at h; cases h
            unfold reserveCurrentChunk at hp
            simp only at hp
            repeat' split at hp
            all_goals first | (cases hp; done) | (cases hp; rfl)
      simp only [fresh, hst, hraw, seqVal, hsq] at hA ⊢; omega
  | readChunkData t =>
    simp only at h hA
    obtain ⟨hsq, hst⟩ := stepRead_acct h
    rcases hst with hst | ⟨hst, hraw⟩
    · simp only [fresh, hst, seqVal, hsq, List.length_nil] at hA ⊢; omega
    · rcases hst with hst | hst <;> (simp only [fresh, hst, seqVal, hsq, hraw] at hA ⊢; omega)
  | imageData t =>
    simp only at h hA
    have hsq : d'.seqNo = d.seqNo := by
      unfold stepImage at h
      simp only at h
      split at h
      · cases h
      · cases h; rfl
    obtain ⟨_, _, hst⟩ := stepImage_eq h
    rcases hst with hst | hst <;> (simp only [fresh, hst, seqVal, hsq, List.length_nil] at hA ⊢; omega)

/-! ### no panic inside `next_state` -/

/-- a parser result that is not a panic -/
def PNoPanic (r : PRes) : Prop := ∀ s, r ≠ .error (.panic s)

theorem eofOr_np {α : Type} (o : Option α) (s : String) : eofOr o ≠ .error (.panic s) := by
  cases o <;> simp [eofOr]

theorem reserve_np (d : Dec) (n : Nat) (s : String) : reserve d n ≠ .error (.panic s) := by
  unfold reserve; split <;> simp

macro "parser_np" h:ident : tactic => `(tactic| (
  simp only [bind, Except.bind, pure, Except.pure, throw, throwThe, MonadExceptOf.throw, withInfo] at $h:ident
  repeat' split at $h:ident
  all_goals first
    | (cases $h:ident; done)
    | (cases $h:ident; exact eofOr_np _ _ (by assumption))
    | (cases $h:ident; exact reserve_np _ _ _ (by assumption))
    | (simp_all; done)))

theorem parseIhdr_np (d : Dec) : PNoPanic (parseIhdr d) := by
  intro s h; unfold parseIhdr at h; parser_np h
theorem parseActl_np (d : Dec) (hi : d.info.isSome) : PNoPanic (parseActl d) := by
  intro s h; unfold parseActl at h; parser_np h
theorem parsePlte_np (d : Dec) (hi : d.info.isSome) : PNoPanic (parsePlte d) := by
  intro s h; unfold parsePlte at h; parser_np h
theorem parseSbit_np (d : Dec) (hi : d.info.isSome) : PNoPanic (parseSbit d) := by
  intro s h; unfold parseSbit at h; parser_np h
theorem parseTrns_np (d : Dec) (hi : d.info.isSome) : PNoPanic (parseTrns d) := by
  intro s h; unfold parseTrns at h; parser_np h
theorem parsePhys_np (d : Dec) (hi : d.info.isSome) : PNoPanic (parsePhys d) := by
  intro s h; unfold parsePhys at h; parser_np h
theorem parseChrm_np (d : Dec) (hi : d.info.isSome) : PNoPanic (parseChrm d) := by
  intro s h; unfold parseChrm at h; parser_np h
theorem parseGama_np (d : Dec) (hi : d.info.isSome) : PNoPanic (parseGama d) := by
  intro s h; unfold parseGama at h; parser_np h
theorem parseSrgb_np (d : Dec) (hi : d.info.isSome) : PNoPanic (parseSrgb d) := by
  intro s h; unfold parseSrgb at h; parser_np h
theorem parseCicp_np (d : Dec) (hi : d.info.isSome) : PNoPanic (parseCicp d) := by
  intro s h; unfold parseCicp at h; parser_np h
theorem parseMdcv_np (d : Dec) (hi : d.info.isSome) : PNoPanic (parseMdcv d) := by
  intro s h; unfold parseMdcv at h; parser_np h
theorem parseClli_np (d : Dec) (hi : d.info.isSome) : PNoPanic (parseClli d) := by
  intro s h; unfold parseClli at h; parser_np h
theorem parseExif_np (d : Dec) (hi : d.info.isSome) : PNoPanic (parseExif d) := by
  intro s h; unfold parseExif at h; parser_np h
theorem parseBkgd_np (d : Dec) (hi : d.info.isSome) : PNoPanic (parseBkgd d) := by
  intro s h; unfold parseBkgd at h; parser_np h

theorem reserve_info {d d' : Dec} {n : Nat} (h : reserve d n = .ok d') : d'.info = d.info := by
  rw [reserve_eq_limit h]

theorem splitKeyword_np (b : Bytes) (s : String) : splitKeyword b ≠ .error (.panic s) := by
  unfold splitKeyword; repeat' split
  all_goals simp

theorem parseText_np (d : Dec) (hi : d.info.isSome) : PNoPanic (parseText d) := by
  intro s h; unfold parseText at h
  simp only [bind, Except.bind, withInfo] at h
  repeat' split at h
  all_goals first
    | (cases h; done)
    | (cases h; exact splitKeyword_np _ _ (by assumption))
    | (cases h; exact reserve_np _ _ _ (by assumption))
    | (have := reserve_info (by assumption); simp_all; done)
theorem parseZtxt_np (d : Dec) (hi : d.info.isSome) : PNoPanic (parseZtxt d) := by
  intro s h; unfold parseZtxt at h
  simp only [bind, Except.bind, withInfo, throw, throwThe, MonadExceptOf.throw] at h
  repeat' split at h
  all_goals first
    | (cases h; done)
    | (cases h; exact splitKeyword_np _ _ (by assumption))
    | (cases h; exact reserve_np _ _ _ (by assumption))
    | (have := reserve_info (by assumption); simp_all; done)
theorem parseItxt_np (cfg : Cfg) (d : Dec) (hi : d.info.isSome) : PNoPanic (parseItxt cfg d) := by
  intro s h; unfold parseItxt at h
  simp only [bind, Except.bind, withInfo, throw, throwThe, MonadExceptOf.throw] at h
  repeat' split at h
  all_goals first
    | (cases h; done)
    | (cases h; exact splitKeyword_np _ _ (by assumption))
    | (cases h; exact reserve_np _ _ _ (by assumption))
    | (have := reserve_info (by assumption); simp_all; done)

theorem parseIccp_np (cfg : Cfg) (d : Dec) : PNoPanic (parseIccp cfg d) := by
  intro s h; unfold parseIccp at h
  simp only at h
  repeat' split at h
  all_goals cases h

theorem parseFctl_np (d : Dec) (hi : d.info.isSome) (hq : ∀ s, d.seqNo = some s → s + 1 < 2 ^ 32) :
    PNoPanic (parseFctl d) := by
  intro s h; unfold parseFctl at h
  simp only [bind, Except.bind, pure, Except.pure, throw, throwThe, MonadExceptOf.throw, withInfo] at h
  repeat' split at h
  all_goals first
    | (cases h; done)
    | (cases h; exact eofOr_np _ _ (by assumption))
    | (simp_all; done)
    | (have := hq _ (by assumption); omega)

local macro "dnp" h:ident c:term "," l:term : tactic =>
  `(tactic| (by_cases hc : $c; (· rw [if_pos hc] at $h:ident; exact $l _ $h:ident); rw [if_neg hc] at $h:ident))

theorem dispatch_np (cfg : Cfg) (d : Dec) (t : ChunkType) (hi : t ≠ IHDR → d.info.isSome)
    (hq : ∀ s, d.seqNo = some s → s + 1 < 2 ^ 32) : PNoPanic (dispatch cfg d t) := by
  intro s h
  unfold dispatch at h
  by_cases hI : t = IHDR
  · rw [if_pos hI] at h; exact parseIhdr_np _ _ h
  rw [if_neg hI] at h
  have hi := hi hI
  dnp h (t = sBIT), parseSbit_np _ hi
  dnp h (t = PLTE), parsePlte_np _ hi
  dnp h (t = tRNS), parseTrns_np _ hi
  dnp h (t = pHYs), parsePhys_np _ hi
  dnp h (t = gAMA), parseGama_np _ hi
  dnp h (t = acTL), parseActl_np _ hi
  dnp h (t = fcTL), parseFctl_np _ hi hq
  dnp h (t = cHRM), parseChrm_np _ hi
  dnp h (t = sRGB), parseSrgb_np _ hi
  dnp h (t = cICP), parseCicp_np _ hi
  dnp h (t = mDCV), parseMdcv_np _ hi
  dnp h (t = cLLI), parseClli_np _ hi
  dnp h (t = eXIf), parseExif_np _ hi
  dnp h (t = bKGD), parseBkgd_np _ hi
  dnp h (t = iCCP ∧ (!d.opts.ignoreIccp) = true), parseIccp_np _ _
  dnp h (t = tEXt ∧ (!d.opts.ignoreText) = true), parseText_np _ hi
  dnp h (t = zTXt ∧ (!d.opts.ignoreText) = true), parseZtxt_np _ hi
  dnp h (t = iTXt ∧ (!d.opts.ignoreText) = true), parseItxt_np _ _ hi
  cases h

theorem parseChunk_np (cfg : Cfg) (d : Dec) (t : ChunkType) (hi : t ≠ IHDR → d.info.isSome)
    (hq : ∀ s, d.seqNo = some s → s + 1 < 2 ^ 32) (s : String) : parseChunk cfg d t ≠ .error (.panic s) := by
  intro h
  unfold parseChunk at h
  simp only at h
  cases hd : dispatch cfg { d with state := some (.u32 (.crc t) []) } t with
  | ok r => rw [hd] at h; obtain ⟨d1, ev1⟩ := r; cases h
  | error e =>
    rw [hd] at h; simp only at h
    cases e <;> simp only [Bool.true_and, Bool.false_and, Bool.false_eq_true, if_false] at h
    · split at h <;> cases h
    · split at h <;> cases h
    · cases h
    · rename_i s'
      exact dispatch_np cfg { d with state := some (.u32 (.crc t) []) } t hi hq s' hd

theorem parseU32_np (cfg : Cfg) (d : Dec) (kind : U32Kind) (b0 b1 b2 b3 : UInt8)
    (hq : ∀ s, d.seqNo = some s → s + 1 < 2 ^ 32) (s : String) :
    parseU32 cfg d kind b0 b1 b2 b3 ≠ .error (.panic s) := by
  intro h
  cases kind with
  | sig1 => simp only [parseU32] at h; split at h <;> cases h
  | sig2 => simp only [parseU32] at h; split at h <;> cases h
  | length => simp only [parseU32] at h; cases h
  | type len =>
    simp only [parseU32] at h
    repeat' split at h
    all_goals first
      | (cases h; done)
      | (cases h
         rename_i hf
         unfold flushData at hf
         repeat' split at hf
         all_goals cases hf)
      | (cases h
         rename_i ha
         unfold afterType at ha
         repeat' split at ha
         all_goals cases ha)
  | crc t =>
    simp only [parseU32] at h
    repeat' split at h
    all_goals cases h
  | seqNo =>
    simp only [parseU32] at h
    repeat' split at h
    all_goals first
      | (cases h; done)
      | (have := hq _ (by assumption); omega)

theorem parse4_np (cfg : Cfg) (d : Dec) (kind : U32Kind) (l : Bytes) (n : Nat) (hl : 4 ≤ l.length)
    (hq : ∀ s, d.seqNo = some s → s + 1 < 2 ^ 32) (s : String) : parse4 cfg d kind l n ≠ .error (.panic s) := by
  intro h
  match l, hl with
  | b0 :: b1 :: b2 :: b3 :: rest, _ =>
    simp only [parse4] at h
    cases hp : parseU32 cfg d kind b0 b1 b2 b3 with
    | ok r => rw [hp] at h; cases h
    | error e =>
      rw [hp] at h; simp only [Except.map] at h
      cases h
      exact parseU32_np cfg d kind b0 b1 b2 b3 hq s hp

/-- **no panic inside `next_state`**: with the decoder invariant and fewer than 2^32 bytes consumed -/
theorem nextState_np {cfg : Cfg} {d : Dec} {st : St} {buf : Bytes} {c : Nat} (hD : DInv d) (hA : Acct c d)
    (hc : c < 2 ^ 32) (hs : d.state = some st) (s : String) : nextState cfg d st buf ≠ .error (.panic s) := by
  have hq : ∀ s0, ({ d with state := none } : Dec).seqNo = some s0 → s0 + 1 < 2 ^ 32 := by
    intro s0 h0
    simp only at h0
    unfold Acct seqVal at hA
    rw [h0] at hA
    simp only at hA
    omega
  intro h
  unfold nextState at h
  simp only at h
  cases st with
  | u32 kind acc =>
    simp only at h
    unfold stepU32 at h
    split at h
    · rename_i hcnd
      exact parse4_np cfg _ kind buf 4 hcnd.2 hq s h
    · simp only at h
      split at h
      · cases h
      · rename_i hge
        exact parse4_np cfg _ kind _ _ (by omega) hq s h
  | parseChunkData t =>
    simp only at h
    unfold stepParse at h
    split at h
    · cases hp : parseChunk cfg { d with state := none } t with
      | ok r => rw [hp] at h; cases h
      | error e =>
        rw [hp] at h; simp only [Except.map] at h; cases h
        exact parseChunk_np cfg _ t (fun hne => hD.endOk t (by rw [hs]; exact rfl) hne) hq s hp
    · cases hp : reserveCurrentChunk { d with state := none } with
      | ok r => rw [hp] at h; cases h
      | error e =>
        rw [hp] at h; simp only [Except.map] at h; cases h
        unfold reserveCurrentChunk at hp
        simp only at hp
        repeat' split at hp
        all_goals cases hp
  | readChunkData t => exact stepRead_ne_error _ _ _ _ h
  | imageData t =>
    simp only at h
    unfold stepImage at h
    simp only at h
    split at h <;> cases h

/-- **no panic inside `update`, and the accounting**: for a live decoder with the invariant, `c` bytes
    consumed so far and fewer than 2^32 bytes in total -/
theorem updateLoop_acct (cfg : Cfg) : ∀ (fuel : Nat) (d : Dec) (buf : Bytes) (k c : Nat),
    DInv d → Acct c d → c + buf.length < 2 ^ 32 → d.state ≠ none →
    match updateLoop cfg fuel d buf k with
    | (d', .ok (m, _)) => k ≤ m ∧ m - k ≤ buf.length ∧ Acct (c + (m - k)) d'
    | (_, .error e) => ∀ s, e ≠ .panic s := by
  intro fuel
  induction fuel with
  | zero => intro d buf k c _ hA _ _; simp only [updateLoop]; exact ⟨Nat.le_refl _, by omega, by simpa using hA⟩
  | succ fuel ih =>
    intro d buf k c hD hA hc hst
    unfold updateLoop
    cases hb : buf.isEmpty with
    | true => simp only [if_true]; exact ⟨Nat.le_refl _, by omega, by simpa using hA⟩
    | false =>
      have hbuf := isEmpty_false hb
      simp only [Bool.false_eq_true, if_false]
      cases hs : d.state with
      | none => exact absurd hs hst
      | some st =>
        simp only
        cases hr : nextState cfg d st buf with
        | error e =>
          simp only
          intro s he; subst he
          exact nextState_np hD hA (by omega) hs s hr
        | ok r =>
          obtain ⟨n, ev, d'⟩ := r
          obtain ⟨hn, _, hne, _⟩ := nextState_progress hbuf hr
          have hA' := nextState_acct hA hs hr
          by_cases hev : ev = .nothing
          · subst hev
            simp only
            have := ih d' (buf.drop n) (k + n) (c + n) (nextState_dinv hD hs hr).1 hA'
              (by simp only [List.length_drop]; omega) (hne (by simp))
            generalize updateLoop cfg fuel d' (buf.drop n) (k + n) = out at this
            obtain ⟨d'', r⟩ := out
            cases r with
            | error e => exact this
            | ok r =>
              obtain ⟨m, ev2⟩ := r
              simp only [List.length_drop] at this ⊢
              obtain ⟨h1, h2, h3⟩ := this
              refine ⟨by omega, by omega, ?_⟩
              have : c + n + (m - (k + n)) = c + (m - k) := by omega
              rw [← this]; exact h3
          · cases ev <;> first | exact absurd rfl hev | skip
            all_goals
              simp only
              refine ⟨by omega, by omega, ?_⟩
              have : c + (k + n - k) = c + n := by omega
              rw [this]; exact hA'

theorem update_acct {cfg : Cfg} {d d' : Dec} {buf : Bytes} {c : Nat} {res : Except Err (Nat × Ev)} (hD : DInv d)
    (hA : Acct c d) (hc : c + buf.length < 2 ^ 32) (hu : update cfg d buf = (d', res)) :
    match res with
    | .ok (m, _) => m ≤ buf.length ∧ Acct (c + m) d'
    | .error e => ∀ s, e ≠ .panic s := by
  unfold update at hu
  cases hs : d.state with
  | none => rw [hs] at hu; simp only at hu; cases hu; intro s h; cases h
  | some st =>
    rw [hs] at hu; simp only at hu
    have := updateLoop_acct cfg (updateFuel buf) d buf 0 c hD hA hc (by simp [hs])
    rw [hu] at this
    cases res with
    | error e => exact this
    | ok r => obtain ⟨m, ev⟩ := r; simpa using this.2

end Png.Framing
