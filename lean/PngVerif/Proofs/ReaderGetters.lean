import PngVerif.Proofs.ReaderPathsZ2
import PngVerif.Proofs.ReaderRetry
/-!
# The size getters of the `Reader` do not overflow (C02; defect D25, repair f60364d)

`Reader::output_buffer_size()` is `output_line_size(width) * height` in unchecked `usize` arithmetic
(`Model/Reader.lean`: `outputBufferSizeGetter`).  `read_info` checks that product twice: with the output type known
after `IHDR` alone, and — since the repair — again with the output type that is final once the chunks before the
image data (`tRNS`) were read (`sizeFits`).  This file shows that the second check makes the getter safe for the whole
life of the reader:

* `readInfo'_spec` (`Proofs/ReaderInv.lean`) hands out `sizeFits` for the reader `read_info` returns;
* the `Info` of a live reader keeps its IHDR fields and its `tRNS` through every call (`HdrPred`, a `DecPred` of
  `Proofs/ReaderPathsZ2.lean`: `tRNS` is frozen once image data began, `InfoStep`), no call changes the transformation
  flags (`step_reader_stable`), and the output type depends on those only (`TCfg.Stable`): `GetInv` is an invariant of
  `step` (`step_getInv`, `run_getInv`);
* `sizeFits` implies that neither getter panics (`getters_of_fits`).

`readInfoPinned'` is `read_info` as it was before the repair (one check); `Props/C02Getters.lean` evaluates it on the
file of D25.  `rawBytesPinned` is `Info::raw_bytes` as it was before repair 4faadfc (unchecked product).
-/
namespace Png.Reader
open Png Png.Framing

/-! ## `read_info` before the repair -/

/-- `Decoder::read_info` at 429476f (mod.rs:190-236): the size of the output buffer is checked with the output type as
    known after `IHDR` only -/
def readInfoPinned' (cfg : Cfg) (t : TCfg) (r : R) : R × Res :=
  if r.isReader then (r, .panic "model: read_info called twice") else
  match readHeaderInfo cfg (fuelOf r) r with
  | (r', .error e) => (r', e)
  | (r', .ok ()) =>
    match infoOf r' with
    | none => (r', .panic "info().unwrap()")
    | some i =>
      let (c, d) := t.outColorDepth i r'.flags
      match checkedRawRowLength i.color i.depth i.width, checkedRawRowLength c d i.width with
      | some _, some rl =>
        if (rl - 1) * i.height ≥ 2 ^ 64 then (r', .err .limits "LimitsExceeded") else
        let r1 := { r' with isReader := true }
        match readUntilImageData cfg t r1 with
        | (r2, .error e) => (r2, e)
        | (r2, .ok ()) =>
          match infoOf r2 with
          | none => (r2, .panic "info().unwrap()")
          | some i2 =>
            let rem := match i2.actl with
              | none => 1
              | some (nf, _) => max 1 (if i2.fctl.isNone then nf + 1 else nf)
            ({ r2 with remaining := rem }, .header)
      | _, _ => (r', .err .limits "LimitsExceeded")

def readInfoPinned (cfg : Cfg) (t : TCfg) (r : R) : R × Res :=
  match readInfoPinned' cfg t r with
  | (r', .header) => (r', .header)
  | (r', e) => ({ r' with isReader := false, dead := true }, e)

/-- `Info::raw_bytes()` before repair 4faadfc (common.rs:787-789): `self.height as usize * self.raw_row_length()`,
    unchecked -/
def rawBytesPinned (i : Info) : GRes :=
  if i.height * rawRowLengthFromWidth i.color i.depth i.width ≥ 2 ^ 64 then
    .panic "attempt to multiply with overflow: height * raw_row_length (common.rs:788)"
  else .value (i.height * rawRowLengthFromWidth i.color i.depth i.width)

/-- `reader.info().raw_bytes()` before repair 4faadfc -/
def rawBytesPinnedGetter (r : R) : GRes :=
  match infoOf r with
  | none => .panic "info().unwrap()"
  | some i => rawBytesPinned i

/-! ## `sizeFits` and the getters -/

/-- what `sizeFits` says in terms of the unchecked row length, for an output depth that is a PNG depth -/
theorem sizeFits_spec {cd : Nat × Nat} {w h : Nat} (hd : depthOk cd.2 = true) (hf : sizeFits cd w h = true) :
    rawRowLengthFromWidth cd.1 cd.2 w < 2 ^ 64 ∧ (rawRowLengthFromWidth cd.1 cd.2 w - 1) * h < 2 ^ 64 := by
  unfold sizeFits at hf
  cases hc : checkedRawRowLength cd.1 cd.2 w with
  | none => rw [hc] at hf; cases hf
  | some rl =>
    rw [hc] at hf
    simp only [decide_eq_true_eq] at hf
    have hrl := rowlen_checked cd.1 cd.2 w hd rl hc
    rw [hrl]
    refine ⟨?_, hf⟩
    unfold checkedRawRowLength at hc
    simp only at hc
    split at hc
    · cases hc; assumption
    · cases hc

/-- the output buffer of the reader's image fits `usize` -/
def Fits (t : TCfg) (r : R) : Prop :=
  ∃ i, r.dec.info = some i ∧ sizeFits (t.outColorDepth i r.flags) i.width i.height = true

/-- **with `Fits`, no size getter panics**: `output_buffer_size()` returns `output_line_size(width) · height`, and
    `output_line_size(w)` returns a value for every `u32` argument -/
theorem getters_of_fits {t : TCfg} (ht : t.Ok) {r : R} (hD : DInv r.dec) (hF : Fits t r) :
    (∃ i, r.dec.info = some i ∧
      outputBufferSizeGetter t r = .value (outLineSize t i r.flags i.width * i.height) ∧
      outLineSize t i r.flags i.width * i.height < 2 ^ 64) ∧
    ∀ w, w < 2 ^ 32 → ∃ n, outputLineSizeGetter t r w = .value n ∧ n < 2 ^ 64 := by
  obtain ⟨i, hi, hf⟩ := hF
  have hleg := ht.outLegal i r.flags (hD.legal i hi)
  have hd : depthOk (t.outColorDepth i r.flags).2 = true := (legal_pos hleg).2.2
  obtain ⟨h1, h2⟩ := sizeFits_spec hd hf
  refine ⟨⟨i, hi, ?_, ?_⟩, fun w hw => ?_⟩
  · unfold outputBufferSizeGetter outputLineSizeGetter
    simp only [infoOf, hi]
    rw [if_neg (by omega)]
    simp only
    rw [if_neg (by omega)]
    rfl
  · rw [outLineSize_eq]; exact h2
  · unfold outputLineSizeGetter
    simp only [infoOf, hi]
    obtain ⟨n, hn⟩ := rowlen_checked_some (t.outColorDepth i r.flags).1 (t.outColorDepth i r.flags).2 w hw hd
    have hrl := rowlen_checked _ _ w hd n hn
    have hn64 : n < 2 ^ 64 := by
      unfold checkedRawRowLength at hn
      simp only at hn
      split at hn
      · cases hn; assumption
      · cases hn
    rw [hrl, if_neg (by omega)]
    exact ⟨n - 1, rfl, by omega⟩

/-! ## The header of a live reader is fixed -/

/-- the stream decoder is past the begin of the image data and its `Info` has the IHDR fields and the `tRNS` of `i0` -/
def HdrPred (i0 : Info) (d : Dec) : Prop :=
  DInv d ∧ d.haveIdat = true ∧ ∃ j, d.info = some j ∧ j.core = i0.core ∧ j.trns = i0.trns

theorem dinv_of_info {d d' : Dec} (h : DInv d) (hi : d'.info = d.info) (hr : d'.readyFdat = d.readyFdat)
    (hc : d'.curType = d.curType) (hh : d'.haveIdat = d.haveIdat) (hs : d'.state = d.state) : DInv d' :=
  ⟨fun i x => h.legal i (hi ▸ x), fun i fc x y => h.fctlOk i fc (hi ▸ x) y, fun x => by rw [hi]; exact h.ready (hr ▸ x),
    fun x => by rw [hh]; exact h.idat (hc ▸ x), fun t x y => by rw [hi]; exact h.endOk t (hs ▸ x) y⟩

theorem HdrPred.of_info {i0 : Info} {d d' : Dec} (h : HdrPred i0 d) (hi : d'.info = d.info)
    (hr : d'.readyFdat = d.readyFdat) (hc : d'.curType = d.curType) (hh : d'.haveIdat = d.haveIdat)
    (hs : d'.state = d.state) : HdrPred i0 d' :=
  ⟨dinv_of_info h.1 hi hr hc hh hs, hh.trans h.2.1, by rw [hi]; exact h.2.2⟩

theorem hdrPred_decPred (cfg : Cfg) (i0 : Info) : DecPred cfg (HdrPred i0) where
  dn := by
    intro r h
    rw [decodeNext'_eq]
    split
    · exact h
    · have h0 : HdrPred i0 { r.dec with out := [] } := h.of_info rfl rfl rfl rfl rfl
      have key : ∀ d' res, update cfg { r.dec with out := [] } (avail r) = (d', res) → HdrPred i0 { d' with out := [] } := by
        intro d' res hu
        obtain ⟨hD', hS⟩ := update_dinv h0.1 hu
        obtain ⟨j, hj, hc, htr⟩ := h0.2.2
        obtain ⟨j', hj', hc', htr', _⟩ := hS.evo j hj
        have : HdrPred i0 d' := ⟨hD', hS.idat h0.2.1, j', hj', hc'.trans hc, (htr' h0.2.1).trans htr⟩
        exact this.of_info rfl rfl rfl rfl rfl
      cases hu : update cfg { r.dec with out := [] } (avail r) with
      | mk d' res =>
        cases res with
        | error e => exact key d' _ hu
        | ok p => exact key d' _ hu
  limit := fun d l h => h.of_info rfl rfl rfl rfl rfl

/-! ## No call of a live reader changes the flags -/

/-- every call on a live reader other than `read_info` keeps the invariant and the fields of `Stable` -/
theorem step_reader_stable (cfg : Cfg) {t : TCfg} (ht : t.Ok) (r : R) (op : Op) (hI : Inv t r) (hr : r.isReader = true)
    (hop : op ≠ .readInfo) : Stable r (step cfg t r op).1 := by
  have hnr : (!r.isReader) = false := by rw [hr]; rfl
  cases op with
  | grow n => exact ⟨rfl, rfl, rfl, rfl⟩
  | readInfo => exact absurd rfl hop
  | readHeader =>
    simp only [step]
    rw [if_pos (Or.inl hr)]
    exact Stable.refl r
  | nextFrame p =>
    simp only [step, hnr, Bool.false_eq_true, if_false]
    exact (nextFrameOp_spec cfg ht r p hI).2.1
  | nextRow =>
    simp only [step, hnr, Bool.false_eq_true, if_false]
    obtain ⟨i, hi, _⟩ := hI.info
    have hsp := nextInterlacedRow_spec cfg ht { r with pendingBuf := none } i (hI.setPending none) hi
    exact (⟨rfl, rfl, rfl, rfl⟩ : Stable r { r with pendingBuf := none }).trans hsp.2.1.stable
  | readRow =>
    simp only [step, hnr, Bool.false_eq_true, if_false]
    obtain ⟨i, hi, hg⟩ := hI.info
    simp only [infoOf, hi]
    have hsp := readRow_spec cfg ht { r with pendingBuf := none } (outLineSize t i r.flags i.width) i
      (hI.setPending none) hi (outLineSize_mono ht (hI.base.dinv.legal i hi) r.flags hg.wW)
    exact (⟨rfl, rfl, rfl, rfl⟩ : Stable r { r with pendingBuf := none }).trans hsp.2.1.stable
  | nextFrameInfo =>
    simp only [step, hnr, Bool.false_eq_true, if_false]
    have hsp := nextFrameInfo_spec cfg { r with pendingBuf := none } (hI.setPending none)
    exact (⟨rfl, rfl, rfl, rfl⟩ : Stable r { r with pendingBuf := none }).trans hsp.2.1
  | finish =>
    simp only [step, hnr, Bool.false_eq_true, if_false]
    have hsp := finish_spec cfg { r with pendingBuf := none } (hI.setPending none)
    exact (⟨rfl, rfl, rfl, rfl⟩ : Stable r { r with pendingBuf := none }).trans hsp.2.1

/-! ## The invariant -/

/-- the state of the model between calls (`RInv`), and — when a `Reader` exists — its output buffer fits `usize` -/
def GetInv (t : TCfg) (r : R) : Prop := RInv t r ∧ (r.isReader = true → Fits t r)

theorem getInv_init (t : TCfg) (opts : Options) (limit : Nat) (flags : Flags) (input : Bytes) (visible : Nat)
    (hlen : input.length < 2 ^ 32) : GetInv t (R.init opts limit flags input visible) :=
  ⟨rinv_init t opts limit flags input visible hlen, fun h => by cases h⟩

/-- **every public call keeps `GetInv`** -/
theorem step_getInv (cfg : Cfg) {t : TCfg} (ht : t.Ok) (hst : t.Stable) (r : R) (op : Op) (hG : GetInv t r)
    (hop : op = .readInfo → r.isReader = false) : GetInv t (step cfg t r op).1 := by
  obtain ⟨hR, hF⟩ := hG
  have hsp := step_spec cfg ht r op hR hop
  refine ⟨hsp.1, fun hrd' => ?_⟩
  cases hrd : r.isReader with
  | true =>
    -- a live reader: the header is fixed, the flags are fixed
    have hne : op ≠ .readInfo := fun h => by have := hop h; rw [hrd] at this; cases this
    have hI : Inv t r := by
      rcases hR with ⟨_, k⟩ | ⟨_, _, k⟩ | ⟨_, k, _⟩
      · rw [hrd] at k; cases k
      · exact k
      · rw [hrd] at k; cases k
    obtain ⟨i, hi, hf⟩ := hF hrd
    have hP : HdrPred i r.dec := ⟨hI.base.dinv, hI.idat, i, hi, rfl, rfl⟩
    obtain ⟨_, _, j, hj, hc, htr⟩ := step_decP (hdrPred_decPred cfg i) t r op hP
    have hS := step_reader_stable cfg ht r op hI hrd hne
    refine ⟨j, hj, ?_⟩
    rw [hS.flags, hst i j r.flags hc htr]
    simp only [Info.core, Prod.mk.injEq] at hc
    rw [hc.1, hc.2.1]
    exact hf
  | false =>
    by_cases hri : op = .readInfo
    · subst hri
      rcases hR with ⟨h1, _⟩ | ⟨_, h2, _⟩ | ⟨h1, _, h3⟩
      · -- the `Decoder` is gone: nothing changes
        simp only [step, h1, if_true] at hrd'
        rw [hrd] at hrd'; cases hrd'
      · rw [hrd] at h2; cases h2
      · have hstep : step cfg t r .readInfo = readInfo cfg t r := by
          simp only [step, h1, Bool.false_eq_true, if_false]
        rw [hstep] at hrd' ⊢
        have hs := readInfo'_spec cfg t r h3 hrd
        unfold readInfo at hrd' ⊢
        generalize readInfo' cfg t r = out at hs hrd'
        obtain ⟨r1, res⟩ := out
        rcases hs with ⟨rfl, _, _, _, _, hfit⟩ | hs
        · exact hfit
        · cases res <;> first | (cases hs; done) | (cases hrd'; done)
    · rw [hsp.2.2 hri, hrd] at hrd'; cases hrd'

/-- **every call sequence with at most one `read_info` keeps `GetInv`** -/
theorem run_getInv (cfg : Cfg) {t : TCfg} (ht : t.Ok) (hst : t.Stable) : ∀ (ops : List Op) (r : R), GetInv t r →
    OpsOk r.isReader ops → GetInv t (run cfg t r ops).1 := by
  intro ops
  induction ops with
  | nil => intro r hG _; exact hG
  | cons op ops ih =>
    intro r hG hops
    have hop : op = .readInfo → r.isReader = false := fun h => by
      cases hr : r.isReader with
      | false => rfl
      | true => exact absurd (by rw [h]; exact List.mem_cons_self) (hops.1 hr)
    have hstep := step_spec cfg ht r op hG.1 hop
    have hops' : OpsOk (step cfg t r op).1.isReader ops := by
      refine ⟨fun hr => ?_, ?_⟩
      · by_cases hop : op = .readInfo
        · subst hop
          have := hops.2
          rw [List.count_cons_self] at this
          exact fun hm => by have := List.count_pos_iff.mpr hm; omega
        · rw [hstep.2.2 hop] at hr
          exact fun hm => hops.1 hr (List.mem_cons_of_mem _ hm)
      · have := hops.2
        rw [List.count_cons] at this
        omega
    rw [run_cons]
    exact ih _ (step_getInv cfg ht hst r op hG hop) hops'

/-- the stream decoder's invariant, from `RInv`, when a `Reader` exists -/
theorem RInv.dinv_of_reader {t : TCfg} {r : R} (hR : RInv t r) (hr : r.isReader = true) : DInv r.dec := by
  rcases hR with ⟨_, k⟩ | ⟨_, _, k⟩ | ⟨_, k, _⟩
  · rw [hr] at k; cases k
  · exact k.base.dinv
  · rw [hr] at k; cases k

end Png.Reader
