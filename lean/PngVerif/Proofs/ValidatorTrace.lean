import PngVerif.Proofs.Encoder
/-!
# What the writer model leaves in the sink, chunk by chunk (for C12: `orderOk`, `contentOk`, byte framing)

`Proofs/Encoder.lean` proves that the chunk list in the sink passes the sequencing automaton.  The
placement pass, the payload pass and the byte-level round trip of the validator need to know more about
the list itself.  This file proves, for EVERY sink, what a call of the whole-image API can add to the
log (`Adds`: emission attempts of chunks from a given class, all complete when the sink never fails) and,
for the sink that never fails, the shape of the final log:

  signature, the chunks of `headerChunks c` in that order, then chunks of the class `BodyChunk ops`
  (fcTL, IDAT / fdAT of at most 2^31-1 bytes, the raw chunks and text chunks the
  caller passed in, IEND)

(`runWriter_shape`), hence `sink.chunks = headerChunks c ++ body` and `sink.bytes = fileBytes sink.chunks`.
-/
namespace Png.Enc
open Png Png.Val

/-- what a sink that never fails logs for a chunk -/
def emitFull (c : RChunk) : Emit := ⟨.chunk c, 12 + c.data.length⟩

/-- how a call may change the sink, whatever the sink does: the failure schedule stays, the log grows by
    emission attempts of chunks that satisfy `P`; on a sink that never fails every attempt is complete -/
structure Adds (P : RChunk → Prop) (s s' : WState) : Prop where
  beh : s'.sink.beh = s.sink.beh
  log : ∃ ext, s'.sink.log = s.sink.log ++ ext ∧ (∀ e ∈ ext, ∃ c, e.piece = .chunk c ∧ P c) ∧
    (s.sink.good → ∀ e ∈ ext, e.complete = true)

theorem Adds.refl (P : RChunk → Prop) (s : WState) : Adds P s s :=
  ⟨rfl, [], by simp, by simp, by simp⟩

theorem Adds.of_sink {P : RChunk → Prop} {s s' : WState} (h : s'.sink = s.sink) : Adds P s s' :=
  ⟨by rw [h], [], by simp [h], by simp, by simp⟩

theorem Adds.good {P : RChunk → Prop} {s s' : WState} (h : Adds P s s') (hg : s.sink.good) : s'.sink.good := by
  unfold Sink.good at hg ⊢; rw [h.beh]; exact hg

theorem Adds.trans {P : RChunk → Prop} {a b c : WState} (h1 : Adds P a b) (h2 : Adds P b c) : Adds P a c := by
  obtain ⟨e1, l1, m1, c1⟩ := h1.log
  obtain ⟨e2, l2, m2, c2⟩ := h2.log
  refine ⟨h2.beh.trans h1.beh, e1 ++ e2, by rw [l2, l1]; simp, ?_, ?_⟩
  · intro e he
    simp only [List.mem_append] at he
    rcases he with he | he
    · exact m1 e he
    · exact m2 e he
  · intro hg e he
    simp only [List.mem_append] at he
    rcases he with he | he
    · exact c1 hg e he
    · exact c2 (h1.good hg) e he

theorem Adds.mono {P Q : RChunk → Prop} {s s' : WState} (h : Adds P s s') (hpq : ∀ c, P c → Q c) : Adds Q s s' := by
  obtain ⟨e, l, m, c⟩ := h.log
  exact ⟨h.beh, e, l, fun x hx => by obtain ⟨c', h1, h2⟩ := m x hx; exact ⟨c', h1, hpq c' h2⟩, c⟩

/-- emitting chunks of the class -/
theorem Adds.emit {P : RChunk → Prop} (s : WState) (cs : List RChunk) (hc : ∀ c ∈ cs, P c) :
    Adds P s (s.emit cs).1 := by
  obtain ⟨ext, g1, g2, g3, g4, _⟩ := Sink.emitChunks_log cs s.sink
  refine ⟨by simp only [WState.emit]; exact g4, ext, by simp only [WState.emit]; exact g1, ?_, ?_⟩
  · intro e he; obtain ⟨c, hcm, hp⟩ := g2 e he; exact ⟨c, hp, hc c hcm⟩
  · intro hg; exact g3 (Sink.emitChunks_good cs hg).1

theorem Adds.incr {P : RChunk → Prop} (s : WState) : Adds P s (incrementImagesWritten s) := by
  apply Adds.of_sink
  unfold incrementImagesWritten
  cases s.actl with
  | none => rfl
  | some a => obtain ⟨n, p⟩ := a; simp only; split <;> rfl

theorem Adds.idatImage {P : RChunk → Prop} (s : WState) (z : List Bytes) (hI : ∀ p ∈ z, P (mkIdat p)) :
    Adds P s (emitIdatImage s z).1 := by
  unfold emitIdatImage
  have h : Adds P s (s.emit (z.map mkIdat)).1 := Adds.emit s _ (by
    intro c hc; simp only [List.mem_map] at hc; obtain ⟨p, hp, rfl⟩ := hc; exact hI p hp)
  cases hh : s.emit (z.map mkIdat) with
  | mk s' ok =>
    rw [hh] at h
    cases ok with
    | false => exact h
    | true => exact h.trans (Adds.incr s')

theorem fdatChunks_mem (parts : List Bytes) : ∀ q, ∀ c ∈ (fdatChunks q parts).1, ∃ q' p, p ∈ parts ∧ c = mkFdat q' p := by
  induction parts with
  | nil => intro q c hc; simp [fdatChunks] at hc
  | cons p ps ih =>
    intro q c hc
    simp only [fdatChunks, List.mem_cons] at hc
    rcases hc with hc | hc
    · exact ⟨q, p, by simp, hc⟩
    · obtain ⟨q', p', h1, h2⟩ := ih _ c hc
      exact ⟨q', p', by simp [h1], h2⟩

theorem Adds.fdatImage {P : RChunk → Prop} (s : WState) (f : FC) (q : Nat) (z : List Bytes)
    (hD : ∀ q', ∀ p ∈ z, P (mkFdat q' p)) : Adds P s (emitFdatImage s f q z).1 := by
  simp only [emitFdatImage]
  have h : Adds P s (s.emit (fdatChunks q z).1).1 := Adds.emit s _ (by
    intro c hc; obtain ⟨q', p, hp, rfl⟩ := fdatChunks_mem z q c hc; exact hD q' p hp)
  cases hh : s.emit (fdatChunks q z).1 with
  | mk s' ok =>
    rw [hh] at h
    cases ok with
    | false => exact h.trans (Adds.of_sink rfl)
    | true =>
      dsimp only
      exact (h.trans (Adds.of_sink (s' := { s' with fctl := some { f with seq := seqAfter q z.length } }) rfl)).trans (Adds.incr _)

theorem Adds.frame {P : RChunk → Prop} (s : WState) (f : FC) (pi pf : List Bytes) (hF : P (mkFctl f))
    (hI : ∀ p ∈ pi, P (mkIdat p)) (hD : ∀ q', ∀ p ∈ pf, P (mkFdat q' p)) : Adds P s (emitFrame s f pi pf).1 := by
  simp only [emitFrame]
  have h : Adds P s (s.emit [mkFctl f]).1 := Adds.emit s _ (by
    intro c hc; simp only [List.mem_singleton] at hc; subst hc; exact hF)
  cases hh : s.emit [mkFctl f] with
  | mk s' ok =>
    rw [hh] at h
    cases ok with
    | false => exact h
    | true =>
      simp only
      split
      · exact h
      · have h2 : Adds P s' { s' with fctl := some { f with seq := (f.seq + 1) % 2 ^ 32 }, animWritten := s'.animWritten + 1 } :=
          Adds.of_sink rfl
        split
        · exact (h.trans h2).trans (Adds.idatImage _ pi hI)
        · exact (h.trans h2).trans (Adds.fdatImage _ _ _ pf hD)

theorem Adds.image {P : RChunk → Prop} (s : WState) (pi pf : List Bytes) (hF : ∀ f, P (mkFctl f))
    (hI : ∀ p ∈ pi, P (mkIdat p)) (hD : ∀ q', ∀ p ∈ pf, P (mkFdat q' p)) : Adds P s (emitImage s pi pf).1 := by
  unfold emitImage
  cases hf : s.fctl with
  | none => exact Adds.idatImage s pi hI
  | some f => simp only; split; exact Adds.idatImage s pi hI; exact Adds.frame s f pi pf (hF f) hI hD

theorem chunksOfAux_len_le (n : Nat) : ∀ fuel (l : Bytes), ∀ p ∈ chunksOfAux n fuel l, p.length ≤ n := by
  intro fuel
  induction fuel with
  | zero => intro l p hp; simp [chunksOfAux] at hp
  | succ k ih =>
    intro l p hp
    simp only [chunksOfAux] at hp
    split at hp
    · simp at hp
    · simp only [List.mem_cons] at hp
      rcases hp with hp | hp
      · subst hp; simp only [List.length_take]; omega
      · exact ih _ p hp

theorem chunksOf_len_le (n : Nat) (l : Bytes) : ∀ p ∈ chunksOf n l, p.length ≤ n := chunksOfAux_len_le n _ l

/-- the chunks that can follow the header in the sink of a run of the operations `ops` -/
inductive BodyChunk (ops : List Op) : RChunk → Prop
  | fctl (f : FC) : BodyChunk ops (mkFctl f)
  | data (ty : Ty) (d : Bytes) : ty = tyIDAT ∨ ty = tyFDAT → d.length ≤ 2 ^ 31 - 1 → BodyChunk ops ⟨ty, d⟩
  | raw (ty : Ty) (d : Bytes) : Op.chunk ty d ∈ ops → d.length ≤ 2 ^ 31 - 1 → BodyChunk ops ⟨ty, d⟩
  | text (c : RChunk) : Op.text (some c) ∈ ops → BodyChunk ops c
  | iend : BodyChunk ops iendChunk

theorem Adds.writeImageData (ops : List Op) (E : Codec) (s : WState) (d : Bytes) :
    Adds (BodyChunk ops) s (writeImageData E s d).1 := by
  unfold Enc.writeImageData
  cases imageChecks s d with
  | error r => exact Adds.refl _ s
  | ok a =>
    exact Adds.image s _ _ (fun f => .fctl f)
      (fun p hp => .data tyIDAT p (Or.inl rfl) (by have := chunksOf_len_le _ _ p hp; unfold maxIdatChunkLen at this; omega))
      (fun q p hp => .data tyFDAT _ (Or.inr rfl) (by
        have := chunksOf_len_le _ _ p hp; unfold maxFdatChunkLen at this
        simp only [List.length_append, be32Bytes_length]; omega))

theorem withFctl_sink_eq (s : WState) (k : FC → WState × Res) (hk : ∀ f, (k f).1.sink = s.sink) :
    (withFctl s k).1.sink = s.sink := by
  unfold withFctl
  cases s.fctl with
  | none => rfl
  | some f => exact hk f

/-- every operation of the whole-image API, whatever the sink does -/
theorem Adds.step (ops : List Op) (E : Codec) (s : WState) (op : Op) (hm : op ∈ ops) :
    Adds (BodyChunk ops) s (writerStep E s op).1 := by
  cases op with
  | image d => exact Adds.writeImageData ops E s d
  | chunk t d =>
    simp only [writerStep, writeChunk]
    split
    · exact Adds.refl _ s
    · rename_i hl
      have h : Adds (BodyChunk ops) s (s.emit [⟨t, d⟩]).1 := Adds.emit s _ (by
        intro c hc; simp only [List.mem_singleton] at hc; subst hc; exact .raw t d hm (by omega))
      cases hh : s.emit [⟨t, d⟩] with
      | mk s' ok => rw [hh] at h; cases ok <;> exact h
  | text b =>
    cases b with
    | none => exact Adds.refl _ s
    | some c =>
      simp only [writerStep, writeTextChunk]
      have h : Adds (BodyChunk ops) s (s.emit [c]).1 := Adds.emit s _ (by
        intro c' hc; simp only [List.mem_singleton] at hc; subst hc; exact .text _ hm)
      cases hh : s.emit [c] with
      | mk s' ok => rw [hh] at h; cases ok <;> exact h
  | setDelay n d => exact Adds.of_sink (withFctl_sink_eq s _ (fun _ => rfl))
  | setBlend b => exact Adds.of_sink (withFctl_sink_eq s _ (fun _ => rfl))
  | setDispose d => exact Adds.of_sink (withFctl_sink_eq s _ (fun _ => rfl))
  | resetPos => exact Adds.of_sink (withFctl_sink_eq s _ (fun _ => rfl))
  | setDim w h =>
    refine Adds.of_sink (withFctl_sink_eq s _ (fun f => ?_))
    split
    · rfl
    · split
      · rfl
      · split <;> rfl
  | setPos x y =>
    refine Adds.of_sink (withFctl_sink_eq s _ (fun f => ?_))
    split <;> rfl
  | resetDim =>
    refine Adds.of_sink (withFctl_sink_eq s _ (fun f => ?_))
    split <;> rfl

theorem Adds.runOps (all : List Op) (E : Codec) (ops : List Op) :
    ∀ s : WState, (∀ op ∈ ops, op ∈ all) → Adds (BodyChunk all) s (Enc.runOps E s ops).1 := by
  induction ops with
  | nil => intro s _; exact Adds.refl _ s
  | cons op ops ih =>
    intro s hm
    have h1 := Adds.step all E s op (hm op (by simp))
    simp only [Enc.runOps]
    cases hws : writerStep E s op with
    | mk s' r =>
      rw [hws] at h1
      have h2 := ih s' (fun o ho => hm o (by simp [ho]))
      cases r with
      | panic p => exact h1
      | ok => exact h1.trans h2
      | err e => exact h1.trans h2

theorem Adds.writeIend (ops : List Op) (s : WState) : Adds (BodyChunk ops) s (writeIend s).1 := by
  unfold Enc.writeIend
  have h1 : Adds (BodyChunk ops) s { s with iendWritten := true } := Adds.of_sink rfl
  have h2 : Adds (BodyChunk ops) { s with iendWritten := true } (({ s with iendWritten := true } : WState).emit [iendChunk]).1 :=
    Adds.emit _ [iendChunk] (by intro c hc; simp only [List.mem_singleton] at hc; subst hc; exact .iend)
  exact h1.trans h2

theorem Adds.dropW (ops : List Op) (s : WState) : Adds (BodyChunk ops) s (dropW s) := by
  unfold Enc.dropW
  split
  · exact Adds.refl _ s
  · exact Adds.writeIend ops s

theorem Adds.finishW (ops : List Op) (s : WState) : Adds (BodyChunk ops) s (finishW s).1 := by
  unfold Enc.finishW
  split
  · exact Adds.dropW ops s
  · have h := Adds.writeIend ops s
    cases hw : Enc.writeIend s with
    | mk s' ok =>
      rw [hw] at h
      cases ok with
      | false => exact h.trans (Adds.dropW ops s')
      | true =>
        simp only
        have hf : Adds (BodyChunk ops) s' { s' with sink := (s'.sink.flush).1 } :=
          ⟨rfl, [], by simp [Sink.flush], by simp, by simp⟩
        cases hfl : s'.sink.flush with
        | mk k okf =>
          rw [hfl] at hf
          cases okf <;> exact (h.trans hf).trans (Adds.dropW ops _)

theorem Adds.finalStep (ops : List Op) (s : WState) (fin : Final) : Adds (BodyChunk ops) s (finalStep s fin).1 := by
  cases fin with
  | finish => exact Adds.finishW ops s
  | drop => exact Adds.dropW ops s

/-! ## The sink that never fails: the final log -/

theorem Sink.emitChunks_log_good (cs : List RChunk) :
    ∀ {k : Sink}, k.good → (k.emitChunks cs).1.log = k.log ++ cs.map emitFull := by
  induction cs with
  | nil => intro k _; simp [Sink.emitChunks]
  | cons c cs ih =>
    intro k h
    simp only [Sink.emitChunks, Sink.emit_good h]
    have hg : ({ k with log := k.log ++ [⟨.chunk c, (Piece.chunk c).size⟩], count := k.count + (Piece.chunk c).size } : Sink).good := h
    rw [ih hg]
    simp [emitFull, Piece.size]

/-- complete emissions of chunks are `emitFull`s -/
theorem complete_ext {P : RChunk → Prop} : ∀ (ext : List Emit), (∀ e ∈ ext, ∃ c, e.piece = .chunk c ∧ P c) →
    (∀ e ∈ ext, e.complete = true) → ∃ cs : List RChunk, ext = cs.map emitFull ∧ ∀ c ∈ cs, P c := by
  intro ext
  induction ext with
  | nil => intro _ _; exact ⟨[], rfl, by simp⟩
  | cons e es ih =>
    intro h1 h2
    obtain ⟨cs, hcs, hp⟩ := ih (fun x hx => h1 x (by simp [hx])) (fun x hx => h2 x (by simp [hx]))
    obtain ⟨c, hc, hpc⟩ := h1 e (by simp)
    have hcomp := h2 e (by simp)
    refine ⟨c :: cs, ?_, ?_⟩
    · obtain ⟨piece, acc⟩ := e
      simp only at hc
      subst hc
      simp only [Emit.complete, Piece.size, beq_iff_eq] at hcomp
      simp [emitFull, hcomp, hcs]
    · intro x hx
      simp only [List.mem_cons] at hx
      rcases hx with hx | hx
      · subst hx; exact hpc
      · exact hp x hx

/-- the log after a successful `write_header` on the sink that never fails -/
theorem header_log (c : Cfg) {s : WState} (h : writeHeader c {} = (s, .ok)) :
    s.sink.good ∧ s.sink.log = ⟨.sig, 8⟩ :: (headerChunks c).map emitFull := by
  unfold writeHeader at h
  by_cases hw0 : c.width = 0
  · simp [hw0] at h
  · by_cases hh0 : c.height = 0
    · simp [hw0, hh0] at h
    · cases hci : combinationInvalid c.color c.depth with
      | true => simp [hw0, hh0, hci] at h
      | false =>
        simp only [hw0, hh0, hci, if_false, Bool.false_eq_true] at h
        rw [Sink.emit_good (initState_good c)] at h
        simp only [WState.emit] at h
        have hg : ({ (initState c {}).sink with log := (initState c {}).sink.log ++ [⟨.sig, Piece.sig.size⟩], count := (initState c {}).sink.count + Piece.sig.size } : Sink).good := initState_good c
        have hok := (Sink.emitChunks_good (headerChunks c) hg).1
        have hgood := (Sink.emitChunks_good (headerChunks c) hg).2.1
        have hlog := Sink.emitChunks_log_good (headerChunks c) hg
        cases hem : Sink.emitChunks { (initState c {}).sink with log := (initState c {}).sink.log ++ [⟨.sig, Piece.sig.size⟩], count := (initState c {}).sink.count + Piece.sig.size } (headerChunks c) with
        | mk k ok =>
          rw [hem] at h hok hgood hlog
          simp only at h hok hgood hlog
          subst hok
          simp only at h
          cases htp : (textPrefix c.texts).2 with
          | false => simp [htp] at h
          | true =>
            simp only [htp, if_true, Prod.mk.injEq, and_true] at h
            subst h
            exact ⟨hgood, by rw [hlog]; simp [initState, Piece.size]⟩

/-- chunk list and bytes of a log of complete emissions -/
theorem chunks_of_full (k : Sink) (cs : List RChunk) (h : k.log = ⟨.sig, 8⟩ :: cs.map emitFull) : k.chunks = cs := by
  unfold Sink.chunks
  rw [h]
  simp only [List.filterMap_cons]
  clear h
  induction cs with
  | nil => rfl
  | cons c cs ih => simp [emitFull, Emit.complete, Piece.size] at ih ⊢; exact ih

theorem chunkBytes_length12 (c : RChunk) : (chunkBytes c).length = 12 + c.data.length := by
  simp [chunkBytes, tyBytes, be32Bytes]; omega

theorem bytes_of_full (k : Sink) (cs : List RChunk) (h : k.log = ⟨.sig, 8⟩ :: cs.map emitFull) :
    k.bytes = fileBytes cs := by
  unfold Sink.bytes fileBytes
  rw [h]
  simp only [List.map_cons, List.flatten_cons, Emit.bytes]
  congr 1
  clear h
  induction cs with
  | nil => rfl
  | cons c cs ih =>
    simp only [List.map_cons, List.flatten_cons, emitFull, Emit.bytes]
    rw [List.take_of_length_le (by rw [chunkBytes_length12]; exact Nat.le_refl _)]
    congr 1

/-- **shape of the output of a run on the sink that never fails** (`write_header` succeeded; the
    operations and the end are arbitrary): the log is the signature, the header chunks in the order of
    `headerChunks`, then complete chunks of the class `BodyChunk ops` -/
theorem runWriter_shape (E : Codec) (c : Cfg) (ops : List Op) (fin : Final)
    (hh : (writeHeader c {}).2 = .ok) :
    ∃ body, (∀ b ∈ body, BodyChunk ops b) ∧
      (runWriter E c {} ops fin).state.sink.log = ⟨.sig, 8⟩ :: (headerChunks c ++ body).map emitFull := by
  cases hwh : writeHeader c {} with
  | mk s0 r0 =>
    rw [hwh] at hh
    simp only at hh
    subst hh
    obtain ⟨hg0, hl0⟩ := header_log c hwh
    have key : ∀ s', Adds (BodyChunk ops) s0 s' →
        ∃ body, (∀ b ∈ body, BodyChunk ops b) ∧ s'.sink.log = ⟨.sig, 8⟩ :: (headerChunks c ++ body).map emitFull := by
      intro s' ha
      obtain ⟨ext, l, m, cpl⟩ := ha.log
      obtain ⟨cs, hcs, hp⟩ := complete_ext ext m (cpl hg0)
      exact ⟨cs, hp, by rw [l, hl0, hcs]; simp⟩
    unfold runWriter
    rw [hwh]
    simp only
    have h1 := Adds.runOps ops E ops s0 (fun _ h => h)
    cases hro : Enc.runOps E s0 ops with
    | mk s1 rs =>
      rw [hro] at h1
      simp only at h1 ⊢
      split
      · exact key _ (h1.trans (Adds.dropW ops s1))
      · exact key _ (h1.trans (Adds.finalStep ops s1 fin))

theorem runWriter_chunks_bytes (E : Codec) (c : Cfg) (ops : List Op) (fin : Final)
    (hh : (writeHeader c {}).2 = .ok) :
    ∃ body, (∀ b ∈ body, BodyChunk ops b) ∧
      (runWriter E c {} ops fin).state.sink.chunks = headerChunks c ++ body ∧
      (runWriter E c {} ops fin).state.sink.bytes = fileBytes (headerChunks c ++ body) := by
  obtain ⟨body, hb, hl⟩ := runWriter_shape E c ops fin hh
  exact ⟨body, hb, chunks_of_full _ _ hl, bytes_of_full _ _ hl⟩

end Png.Enc
