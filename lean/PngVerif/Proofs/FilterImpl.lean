import PngVerif.Proofs.Filter
/-!
# Implementation-shaped scanline filters = specification (C14; used by C01/C03)

`unfilterImpl` (chunk loops of `unfilter`, filter.rs:405-897) against `reconRow`, `filterImpl`
(`filter_internal`, :899-1036) against `filtRow`, and the adaptive heuristic (`filter`, :1038-1072,
`sum_buffer`, :1075).  Everything is proved for all lengths by induction.

Route for the decoder: a *windowed* byte-wise reconstruction `reconW` carries a queue of the last
`bpp` reconstructed bytes and a queue of the last `bpp` prior-row bytes (initially zeros).
`reconW = recon` relates the queues to `back`/`nbrs`; one iteration of the chunk loop is `bpp` steps
of `reconW`; induction over the chunks does the rest.
-/
namespace Png

/-! ### small list facts -/

theorem getD_zeros_append (n : Nat) (l : Bytes) (i : Nat) :
    (List.replicate n (0:UInt8) ++ l).getD i 0 = if n ≤ i then l.getD (i - n) 0 else 0 := by
  simp only [List.getD_eq_getElem?_getD, List.getElem?_append, List.length_replicate,
    List.getElem?_replicate]
  by_cases h : i < n
  · simp [h, Nat.not_le.mpr h]
  · simp [h, Nat.not_lt.mp h]

theorem headD_drop (l : Bytes) (i : Nat) : (l.drop i).headD 0 = l.getD i 0 := by
  simp [List.headD_eq_head?_getD, List.head?_drop, List.getD_eq_getElem?_getD]

theorem drop_eq_getD_cons (l : Bytes) (i : Nat) (h : i < l.length) :
    l.drop i = l.getD i 0 :: l.drop (i + 1) := by
  rw [List.drop_eq_getElem_cons h]; simp [List.getD_eq_getElem?_getD, h]

theorem back_eq_getD (bpp : Nat) (hb : 0 < bpp) (done : Bytes) :
    back done bpp = (List.replicate bpp (0:UInt8) ++ done).getD done.length 0 := by
  rw [getD_zeros_append]; simp [back, hb]

theorem nbrs_eq_getD (bpp : Nat) (hb : 0 < bpp) (prior done : Bytes) :
    nbrs bpp prior done =
      ((List.replicate bpp (0:UInt8) ++ done).getD done.length 0, prior.getD done.length 0,
       (List.replicate bpp (0:UInt8) ++ prior).getD done.length 0) := by
  simp only [nbrs, back_eq_getD bpp hb, getD_zeros_append, hb, and_true]

/-! ### `zipWith4` -/

theorem zipWith4_length (f) : ∀ (a b c x : Bytes),
    (zipWith4 f a b c x).length = min (min a.length b.length) (min c.length x.length) := by
  intro a
  induction a with
  | nil => intro b c x; simp [zipWith4]
  | cons a0 a ih =>
    intro b c x
    cases b with
    | nil => simp [zipWith4]
    | cons b0 b =>
      cases c with
      | nil => simp [zipWith4]
      | cons c0 c =>
        cases x with
        | nil => simp [zipWith4]
        | cons x0 x => simp only [zipWith4, List.length_cons, ih]; omega

/-! ### Windowed reconstruction -/

/-- byte-wise reconstruction carrying the last `bpp` reconstructed bytes (`qa`), the last `bpp`
    prior-row bytes (`qc`) and the rest of the prior row (`prest`); proof device only -/
def reconW (p : UInt8 → UInt8 → UInt8 → UInt8) : Bytes → Bytes → Bytes → Bytes → Bytes
  | _, _, _, [] => []
  | qa, qc, prest, x :: xs =>
    let b := prest.headD 0
    let v := x + p (qa.headD 0) b (qc.headD 0)
    v :: reconW p (qa.tail ++ [v]) (qc.tail ++ [b]) prest.tail xs

/-- one iteration of the chunk loop (`zipWith4` over the carried arrays) is `xs.length` steps of
    the windowed reconstruction -/
theorem reconW_chunk (p) (f : UInt8 → UInt8 → UInt8 → UInt8 → UInt8)
    (hf : ∀ a b c x, f a b c x = x + p a b c) :
    ∀ (xs a b c q1 q2 prest rest : Bytes),
      a.length = xs.length → b.length = xs.length → c.length = xs.length →
      reconW p (a ++ q1) (c ++ q2) (b ++ prest) (xs ++ rest) =
        zipWith4 f a b c xs ++ reconW p (q1 ++ zipWith4 f a b c xs) (q2 ++ b) prest rest := by
  intro xs
  induction xs with
  | nil =>
    intro a b c q1 q2 prest rest ha hb hc
    simp only [List.length_nil, List.length_eq_zero_iff] at ha hb hc
    subst ha hb hc
    simp [zipWith4]
  | cons x xs ih =>
    intro a b c q1 q2 prest rest ha hb hc
    cases a with
    | nil => simp at ha
    | cons a0 a =>
      cases b with
      | nil => simp at hb
      | cons b0 b =>
        cases c with
        | nil => simp at hc
        | cons c0 c =>
          simp only [List.length_cons, Nat.add_right_cancel_iff] at ha hb hc
          simp only [List.cons_append, reconW, List.headD_cons, List.tail_cons, zipWith4, hf,
            List.append_assoc]
          rw [ih a b c (q1 ++ [x + p a0 b0 c0]) (q2 ++ [b0]) prest rest ha hb hc]
          simp [List.append_assoc]

/-- the windowed reconstruction is the specification's reconstruction when the queues hold the
    last `bpp` bytes of the zero-padded reconstructed prefix / prior row -/
theorem reconW_eq_recon (p) (bpp : Nat) (hb : 0 < bpp) (prior : Bytes) :
    ∀ (fs done qa qc prest : Bytes),
      qa = (List.replicate bpp (0:UInt8) ++ done).drop done.length →
      qc ++ prest = (List.replicate bpp (0:UInt8) ++ prior).drop done.length →
      qc.length = bpp → fs.length ≤ prest.length →
      reconW p qa qc prest fs = recon p bpp prior done fs := by
  intro fs
  induction fs with
  | nil => intros; simp [reconW, recon]
  | cons x xs ih =>
    intro done qa qc prest hqa hqc hlen hfs
    cases prest with
    | nil => simp at hfs
    | cons b0 prest =>
      cases qc with
      | nil => simp at hlen; omega
      | cons c0 qc =>
        have ea : qa.headD 0 = (List.replicate bpp (0:UInt8) ++ done).getD done.length 0 := by
          rw [hqa, headD_drop]
        have ec : c0 = (List.replicate bpp (0:UInt8) ++ prior).getD done.length 0 := by
          rw [← headD_drop, ← hqc]; rfl
        have eb : b0 = prior.getD done.length 0 := by
          have h1 : ((c0 :: qc) ++ b0 :: prest).getD bpp 0 = b0 := by
            simp [List.getD_eq_getElem?_getD, ← hlen]
          rw [hqc] at h1
          rw [← h1, List.getD_eq_getElem?_getD, List.getElem?_drop, ← List.getD_eq_getElem?_getD,
            getD_zeros_append]
          simp
        simp only [reconW, recon, nbrs_eq_getD bpp hb, List.headD_cons, List.tail_cons, ea, ← ec, ← eb]
        congr 1
        apply ih
        · generalize x + p _ b0 c0 = v
          have hle : done.length + 1 ≤ (List.replicate bpp (0:UInt8) ++ done).length := by
            simp; omega
          rw [hqa, List.tail_drop, List.length_append, List.length_singleton, ← List.append_assoc,
            List.drop_append_of_le_length hle]
        · have : qc ++ [b0] ++ prest = ((c0 :: qc) ++ b0 :: prest).tail := by simp
          rw [this, hqc, List.tail_drop]; simp
        · simp at hlen ⊢; omega
        · simpa using hfs

/-! ### The chunk loops -/

theorem zipWith4_len_n (f) (n : Nat) (a b c x : Bytes) (ha : a.length = n) (hb : n ≤ b.length)
    (hc : c.length = n) (hx : n ≤ x.length) :
    (zipWith4 f a (b.take n) c (x.take n)).length = n := by
  rw [zipWith4_length]; simp [ha, hc]; omega

/-- `chunkLoop2` with carried arrays `qa`, `qc` = windowed reconstruction of the whole chunks,
    followed by the untouched remainder.  `cur.length = k * n + r` with `r < n`. -/
theorem chunkLoop2_eq_reconW (p) (f : UInt8 → UInt8 → UInt8 → UInt8 → UInt8)
    (hf : ∀ a b c x, f a b c x = x + p a b c) (n : Nat) (hn : 0 < n) :
    ∀ (fuel k r : Nat) (qa qc cur prev : Bytes),
      qa.length = n → qc.length = n → cur.length < fuel → prev.length = cur.length →
      cur.length = k * n + r → r < n →
      chunkLoop2 n f fuel qa qc cur prev
        = reconW p qa qc prev (cur.take (k * n)) ++ cur.drop (k * n) := by
  intro fuel
  induction fuel with
  | zero => intro k r qa qc cur prev _ _ h; omega
  | succ fuel ih =>
    intro k r qa qc cur prev hqa hqc hfuel hprev hlen hr
    cases k with
    | zero =>
      have : cur.length < n := by omega
      simp [chunkLoop2, this, reconW]
    | succ k =>
      rw [Nat.succ_mul] at hlen
      generalize hm : k * n = m at hlen
      have hge : ¬ (cur.length < n ∨ prev.length < n ∨ n = 0) := by omega
      simp only [chunkLoop2, hge, if_false]
      have hnew := zipWith4_len_n f n qa prev qc cur hqa (by omega) hqc (by omega)
      rw [ih k r _ (prev.take n) (cur.drop n) (prev.drop n) hnew (by simp; omega) (by simp; omega)
        (by simp; omega) (by simp; omega) hr]
      rw [Nat.succ_mul, hm, Nat.add_comm m n, List.take_add, ← List.drop_drop]
      conv => rhs; arg 1; rw [← List.take_append_drop n prev]
      have h := reconW_chunk p f hf (cur.take n) qa (prev.take n) qc [] [] (prev.drop n)
        ((cur.drop n).take m) (by simp; omega) (by simp; omega) (by simp; omega)
      simp only [List.append_nil, List.nil_append] at h
      rw [h, List.append_assoc]

theorem chunkLoop2_eq_recon (p) (f : UInt8 → UInt8 → UInt8 → UInt8 → UInt8)
    (hf : ∀ a b c x, f a b c x = x + p a b c) (n : Nat) (hn : 0 < n)
    (fuel k r : Nat) (cur prev : Bytes) (hfuel : cur.length < fuel) (hprev : prev.length = cur.length)
    (hlen : cur.length = k * n + r) (hr : r < n) :
    chunkLoop2 n f fuel (List.replicate n 0) (List.replicate n 0) cur prev
      = recon p n prev [] (cur.take (k * n)) ++ cur.drop (k * n) := by
  rw [chunkLoop2_eq_reconW p f hf n hn fuel k r _ _ cur prev (by simp) (by simp) hfuel hprev hlen hr]
  congr 1
  apply reconW_eq_recon p n hn prev
  · simp
  · simp
  · simp
  · simp; omega

/-- a loop that ignores `previous` is the two-slice loop over any `previous` of the same length -/
theorem zipWith4_ignore (g : UInt8 → UInt8 → UInt8) : ∀ (a b c x : Bytes),
    a.length ≤ b.length → a.length ≤ c.length →
    zipWith4 (fun a _ _ x => g a x) a b c x = List.zipWith g a x := by
  intro a
  induction a with
  | nil => intros; simp [zipWith4]
  | cons a0 a ih =>
    intro b c x hb hc
    cases b with
    | nil => simp at hb
    | cons b0 b =>
      cases c with
      | nil => simp at hc
      | cons c0 c =>
        cases x with
        | nil => simp [zipWith4]
        | cons x0 x =>
          simp only [zipWith4, List.zipWith_cons_cons]
          rw [ih b c x (by simpa using hb) (by simpa using hc)]

theorem chunkLoop1_eq_chunkLoop2 (g : UInt8 → UInt8 → UInt8) (n : Nat) :
    ∀ (fuel : Nat) (a c cur prev : Bytes), a.length = n → c.length = n → prev.length = cur.length →
      chunkLoop1 n g fuel a cur = chunkLoop2 n (fun a _ _ x => g a x) fuel a c cur prev := by
  intro fuel
  induction fuel with
  | zero => intros; rfl
  | succ fuel ih =>
    intro a c cur prev ha hc hprev
    simp only [chunkLoop1, chunkLoop2]
    by_cases h : cur.length < n ∨ n = 0
    · rw [if_pos h, if_pos (by omega)]
    · rw [if_neg h, if_neg (by omega)]
      have hz : zipWith4 (fun a _ _ x => g a x) a (prev.take n) c (cur.take n)
          = List.zipWith g a (cur.take n) :=
        zipWith4_ignore g _ _ _ _ (by simp; omega) (by omega)
      rw [hz]
      congr 1
      apply ih
      · simp; omega
      · simp; omega
      · simp; omega

/-! ### `reduceLoop` (bpp = 1, filters that only look left) -/

theorem back_one_snoc (done : Bytes) (v : UInt8) : back (done ++ [v]) 1 = v := by
  simp [back, List.getD_eq_getElem?_getD]

theorem reduceLoop_go_eq (p) (g : UInt8 → UInt8 → UInt8) (prior : Bytes)
    (hg : ∀ y a b c, g y a = y + p a b c) :
    ∀ (ys done : Bytes) (v : UInt8),
      reduceLoop.go g v ys = recon p 1 prior (done ++ [v]) ys := by
  intro ys
  induction ys with
  | nil => intros; simp [reduceLoop.go, recon]
  | cons y ys ih =>
    intro done v
    simp only [reduceLoop.go, recon, nbrs, back_one_snoc]
    rw [← hg y v]
    congr 1
    exact ih _ _

theorem reduceLoop_eq (p) (g : UInt8 → UInt8 → UInt8) (prior : Bytes)
    (hg : ∀ y a b c, g y a = y + p a b c) (h0 : ∀ b c, p 0 b c = 0) (cur : Bytes) :
    reduceLoop g cur = recon p 1 prior [] cur := by
  cases cur with
  | nil => simp [reduceLoop, recon]
  | cons x xs =>
    simp only [reduceLoop, recon, nbrs, back, List.length_nil]
    have : ¬ (1 ≤ 0 ∧ 0 < 1) := by omega
    simp only [this, if_false, h0, UInt8.add_zero]
    congr 1
    exact reduceLoop_go_eq p g prior hg xs [] x

/-! ### Filters with a pointwise specification -/

theorem recon_none (bpp : Nat) (prior : Bytes) : ∀ (fs done : Bytes),
    recon (pred .none) bpp prior done fs = fs := by
  intro fs
  induction fs with
  | nil => intros; simp [recon]
  | cons x xs ih => intro done; simp [recon, pred, ih]

theorem recon_up (bpp : Nat) (prior : Bytes) : ∀ (fs done : Bytes),
    done.length + fs.length ≤ prior.length →
    recon (pred .up) bpp prior done fs = List.zipWith (fun cur above => cur + above) fs (prior.drop done.length) := by
  intro fs
  induction fs with
  | nil => intros; simp [recon]
  | cons x xs ih =>
    intro done h
    simp only [List.length_cons] at h
    rw [drop_eq_getD_cons prior done.length (by omega)]
    simp only [recon, nbrs, pred, List.zipWith_cons_cons]
    congr 1
    rw [ih _ (by simp; omega)]
    simp

/-- with no prior row the neighbours `b`, `c` are 0, so predictors that agree there give the same
    reconstruction (first-row substitution Paeth→Sub, Up→None, Avg→`left/2`) -/
theorem recon_nil_congr (p q : UInt8 → UInt8 → UInt8 → UInt8) (bpp : Nat) (h : ∀ a, p a 0 0 = q a 0 0) :
    ∀ (fs done : Bytes), recon p bpp [] done fs = recon q bpp [] done fs := by
  intro fs
  induction fs with
  | nil => intros; simp [recon]
  | cons x xs ih =>
    intro done
    simp only [recon, nbrs, List.getD_eq_getElem?_getD, List.getElem?_nil, Option.getD_none, ite_self, h]
    congr 1
    exact ih _

theorem paethSpec_left (a : UInt8) : paethSpec a 0 0 = a := by
  have h : paethSpecInt a.toNat 0 0 = a.toNat := by
    unfold paethSpecInt; simp
  unfold paethSpec
  simp only [UInt8.toNat_zero, Int.natCast_zero] at *
  rw [h]
  simp

theorem avg_left (a : UInt8) : pred .avg a 0 0 = a / 2 := by
  simp only [pred, UInt8.toNat_zero, Nat.add_zero]
  apply UInt8.toNat_inj.mp
  simp
  have := a.toNat_lt
  omega

/-! ### `unfilterImpl` against the specification -/

theorem chunkLoop1_eq_recon (p) (g : UInt8 → UInt8 → UInt8) (hg : ∀ a b c x, g a x = x + p a b c)
    (n : Nat) (hn : 0 < n) (fuel k r : Nat) (cur prior : Bytes) (hfuel : cur.length < fuel)
    (hprior : prior.length = cur.length) (hlen : cur.length = k * n + r) (hr : r < n) :
    chunkLoop1 n g fuel (List.replicate n 0) cur
      = recon p n prior [] (cur.take (k * n)) ++ cur.drop (k * n) := by
  rw [chunkLoop1_eq_chunkLoop2 g n fuel _ (List.replicate n 0) cur prior (by simp) (by simp) hprior]
  exact chunkLoop2_eq_recon p _ (fun a b c x => hg a b c x) n hn fuel k r cur prior hfuel hprior hlen hr

/-- the two shapes of a filter that only looks left (`reduce` for bpp = 1, chunk loop otherwise) -/
theorem leftOnly_eq (p) (g : UInt8 → UInt8 → UInt8) (hg : ∀ a b c x, g a x = x + p a b c)
    (h0 : ∀ b c, p 0 b c = 0) (bpp : Nat) (hb : 0 < bpp) (k r : Nat) (cur prior : Bytes)
    (hprior : prior.length = cur.length) (hlen : cur.length = k * bpp + r) (hr : r < bpp) :
    (if bpp = 1 then reduceLoop (fun x a => g a x) cur
      else chunkLoop1 bpp g (cur.length + 1) (List.replicate bpp 0) cur)
      = recon p bpp prior [] (cur.take (k * bpp)) ++ cur.drop (k * bpp) := by
  split
  · rename_i h1
    subst h1
    have hk : k * 1 = cur.length := by omega
    rw [hk, List.take_length, List.drop_length, List.append_nil]
    exact reduceLoop_eq p _ prior (fun y a b c => hg a b c y) h0 cur
  · exact chunkLoop1_eq_recon p g hg bpp hb _ k r cur prior (by omega) hprior hlen hr

/-- first row: reconstruct against an explicit all-zero prior row with a predictor that agrees
    with `pred ft` on `(a, 0, 0)` -/
theorem recon_first_row (ft : FilterType) (q : UInt8 → UInt8 → UInt8 → UInt8) (bpp n : Nat)
    (h : ∀ a, pred ft a 0 0 = q a 0 0) (fs : Bytes) (hn : fs.length ≤ n) :
    reconRow ft bpp [] fs = recon q bpp (List.replicate n 0) [] fs := by
  unfold reconRow
  rw [recon_nil_congr _ q bpp h, recon_nil_eq_zeros q bpp n fs [] (by simpa using hn)]

theorem unfilterImpl_nil_prev (ft : FilterType) (bpp : Nat) (cur : Bytes) :
    unfilterImpl ft bpp [] cur =
      match ft with
      | .none | .up => cur
      | .sub | .paeth =>
        if bpp = 1 then reduceLoop (fun cur prev => cur + prev) cur
        else chunkLoop1 bpp (fun p x => x + p) (cur.length + 1) (List.replicate bpp 0) cur
      | .avg =>
        if bpp = 1 then reduceLoop (fun cur prev => cur + prev / 2) cur
        else chunkLoop1 bpp (fun p x => x + p / 2) (cur.length + 1) (List.replicate bpp 0) cur := by
  cases ft <;> simp [unfilterImpl]

theorem unfilterImpl_cons_prev (ft : FilterType) (bpp : Nat) (p0 : UInt8) (ps cur : Bytes) :
    unfilterImpl ft bpp (p0 :: ps) cur =
      match ft with
      | .none => cur
      | .sub =>
        if bpp = 1 then reduceLoop (fun cur prev => cur + prev) cur
        else chunkLoop1 bpp (fun p x => x + p) (cur.length + 1) (List.replicate bpp 0) cur
      | .up => List.zipWith (fun cur above => cur + above) cur (p0 :: ps)
          ++ cur.drop (min cur.length (p0 :: ps).length)
      | .avg => chunkLoop2 bpp (fun a b _ x => x + avgWide b a) (cur.length + 1)
          (List.replicate bpp 0) (List.replicate bpp 0) cur (p0 :: ps)
      | .paeth => chunkLoop2 bpp (fun a b c x => x + paethDecode a b c) (cur.length + 1)
          (List.replicate bpp 0) (List.replicate bpp 0) cur (p0 :: ps) := by
  cases ft <;> simp [unfilterImpl]

/-- Up: byte-wise over the common length (no chunking), every length -/
theorem unfilterImpl_up (bpp : Nat) (prev cur : Bytes) (hprev : prev = [] ∨ prev.length = cur.length) :
    unfilterImpl .up bpp prev cur = reconRow .up bpp prev cur := by
  rcases hprev with h | h
  · subst h
    rw [unfilterImpl_nil_prev]
    simp only [reconRow]
    rw [recon_nil_congr (pred .up) (pred .none) bpp (fun a => rfl), recon_none]
  · cases prev with
    | nil =>
      have : cur = [] := by simpa using h.symm
      subst this; simp [unfilterImpl, reconRow, recon]
    | cons p0 ps =>
      rw [unfilterImpl_cons_prev]
      simp only [reconRow]
      rw [recon_up bpp _ cur [] (by simp at h ⊢; omega)]
      simp [h]

/-- General form (all lengths): the whole `bpp`-chunks are reconstructed as the specification says
    and the trailing `cur.length % bpp` bytes are left untouched.  (`Up` has no chunking, see
    `unfilterImpl_up`.) -/
theorem unfilterImpl_chunks (ft : FilterType) (hft : ft ≠ .up) (bpp : Nat) (hb : 0 < bpp)
    (prev cur : Bytes) (hprev : prev = [] ∨ prev.length = cur.length)
    (k r : Nat) (hlen : cur.length = k * bpp + r) (hr : r < bpp) :
    unfilterImpl ft bpp prev cur
      = reconRow ft bpp prev (cur.take (k * bpp)) ++ cur.drop (k * bpp) := by
  have hz : (List.replicate cur.length (0:UInt8)).length = cur.length := by simp
  have htk : (cur.take (k * bpp)).length ≤ cur.length := by simp; omega
  cases prev with
  | nil =>
    rw [unfilterImpl_nil_prev]
    cases ft with
    | none => simp [reconRow, recon_none]
    | up => exact absurd rfl hft
    | sub =>
      rw [recon_first_row .sub (pred .sub) bpp cur.length (fun _ => rfl) _ htk]
      exact leftOnly_eq (pred .sub) (fun p x => x + p) (fun _ _ _ _ => rfl) (fun _ _ => rfl)
        bpp hb k r cur _ hz hlen hr
    | paeth =>
      rw [recon_first_row .paeth (pred .sub) bpp cur.length (fun a => paethSpec_left a) _ htk]
      exact leftOnly_eq (pred .sub) (fun p x => x + p) (fun _ _ _ _ => rfl) (fun _ _ => rfl)
        bpp hb k r cur _ hz hlen hr
    | avg =>
      rw [recon_first_row .avg (fun a _ _ => a / 2) bpp cur.length (fun a => avg_left a) _ htk]
      exact leftOnly_eq (fun a _ _ => a / 2) (fun p x => x + p / 2) (fun _ _ _ _ => rfl)
        (fun _ _ => by decide) bpp hb k r cur _ hz hlen hr
  | cons p0 ps =>
    have hp : (p0 :: ps).length = cur.length := by
      rcases hprev with h | h
      · exact absurd h (by simp)
      · exact h
    rw [unfilterImpl_cons_prev]
    cases ft with
    | none => simp [reconRow, recon_none]
    | up => exact absurd rfl hft
    | sub =>
      exact leftOnly_eq (pred .sub) (fun p x => x + p) (fun _ _ _ _ => rfl) (fun _ _ => rfl)
        bpp hb k r cur _ hp hlen hr
    | avg =>
      exact chunkLoop2_eq_recon (pred .avg) _
        (fun a b c x => by simp [pred, avgWide, Nat.add_comm]) bpp hb _ k r cur _ (by omega) hp hlen hr
    | paeth =>
      exact chunkLoop2_eq_recon (pred .paeth) _
        (fun a b c x => by simp [pred, paethDecode, paethStbi_eq_spec]) bpp hb _ k r cur _ (by omega)
        hp hlen hr

/-- **`unfilter` = specification**: every filter type, every `bpp ≥ 1`, every row whose length is a
    multiple of `bpp`, previous row absent (first row) or of the same length. -/
theorem unfilterImpl_eq_spec (ft : FilterType) (bpp : Nat) (hb : 0 < bpp) (prev cur : Bytes)
    (hdvd : bpp ∣ cur.length) (hprev : prev = [] ∨ prev.length = cur.length) :
    unfilterImpl ft bpp prev cur = reconRow ft bpp prev cur := by
  by_cases hft : ft = .up
  · subst hft; exact unfilterImpl_up bpp prev cur hprev
  · obtain ⟨k, hk⟩ := hdvd
    have hlen : cur.length = k * bpp + 0 := by rw [hk, Nat.mul_comm]; rfl
    have h := unfilterImpl_chunks ft hft bpp hb prev cur hprev k 0 hlen hb
    have hk' : k * bpp = cur.length := by omega
    rw [hk', List.take_length, List.drop_length, List.append_nil] at h
    exact h

/-- **what the code does with a length that is not a multiple of `bpp`** (the decoder never
    produces such rows): for every type except `Up` the whole pixels are reconstructed as specified
    and the trailing `cur.length % bpp` bytes are returned untouched. -/
theorem unfilterImpl_remainder (ft : FilterType) (hft : ft ≠ .up) (bpp : Nat) (hb : 0 < bpp)
    (prev cur : Bytes) (hprev : prev = [] ∨ prev.length = cur.length) :
    unfilterImpl ft bpp prev cur
      = reconRow ft bpp prev (cur.take (cur.length / bpp * bpp))
        ++ cur.drop (cur.length - cur.length % bpp) := by
  have hdm := Nat.div_add_mod cur.length bpp
  have hlen : cur.length = cur.length / bpp * bpp + cur.length % bpp := by
    rw [Nat.mul_comm]; exact hdm.symm
  have h := unfilterImpl_chunks ft hft bpp hb prev cur hprev _ _ hlen (Nat.mod_lt _ hb)
  have e : cur.length - cur.length % bpp = cur.length / bpp * bpp := by omega
  rw [e]; exact h

/-! ### `unfilterImpl` preserves the row length (all inputs) -/

theorem chunkLoop2_length (f) (n : Nat) : ∀ (fuel : Nat) (a c cur prev : Bytes),
    a.length = n → c.length = n → (chunkLoop2 n f fuel a c cur prev).length = cur.length := by
  intro fuel
  induction fuel with
  | zero => intros; rfl
  | succ fuel ih =>
    intro a c cur prev ha hc
    simp only [chunkLoop2]
    split
    · rfl
    · rename_i h
      have hnew := zipWith4_len_n f n a prev c cur ha (by omega) hc (by omega)
      rw [List.length_append, ih _ _ _ _ hnew (by simp; omega), hnew]
      simp; omega

theorem chunkLoop1_length (g) (n : Nat) (fuel : Nat) (a cur : Bytes) (ha : a.length = n) :
    (chunkLoop1 n g fuel a cur).length = cur.length := by
  rw [chunkLoop1_eq_chunkLoop2 g n fuel a (List.replicate n 0) cur cur ha (by simp) rfl]
  exact chunkLoop2_length _ n fuel _ _ _ _ ha (by simp)

theorem reduceLoop_go_length (g) : ∀ (ys : Bytes) (v : UInt8), (reduceLoop.go g v ys).length = ys.length := by
  intro ys
  induction ys with
  | nil => intro v; rfl
  | cons y ys ih => intro v; simp [reduceLoop.go, ih]

theorem reduceLoop_length (g) (cur : Bytes) : (reduceLoop g cur).length = cur.length := by
  cases cur with
  | nil => rfl
  | cons x xs => simp [reduceLoop, reduceLoop_go_length]

/-- `unfilter` works in place: the row length never changes (any `bpp`, any lengths) -/
theorem unfilterImpl_length (ft : FilterType) (bpp : Nat) (prev cur : Bytes) :
    (unfilterImpl ft bpp prev cur).length = cur.length := by
  have hz : (List.replicate bpp (0:UInt8)).length = bpp := by simp
  cases prev with
  | nil =>
    rw [unfilterImpl_nil_prev]
    cases ft <;> simp only [] <;> (try split) <;>
      first | rfl | exact reduceLoop_length _ _ | exact chunkLoop1_length _ _ _ _ _ hz
  | cons p0 ps =>
    rw [unfilterImpl_cons_prev]
    cases ft <;> simp only [] <;> (try split) <;>
      first
        | rfl
        | exact reduceLoop_length _ _
        | exact chunkLoop1_length _ _ _ _ _ hz
        | exact chunkLoop2_length _ _ _ _ _ _ _ hz hz
        | (simp only [List.length_append, List.length_zipWith, List.length_drop]; omega)

/-! ### The encoder: `filterImpl` against `filtRow` -/

theorem filt_append (p) (bpp : Nat) (prior : Bytes) : ∀ (xs ys done : Bytes),
    filt p bpp prior done (xs ++ ys) = filt p bpp prior done xs ++ filt p bpp prior (done ++ xs) ys := by
  intro xs
  induction xs with
  | nil => intros; simp [filt]
  | cons x xs ih => intro ys done; simp [filt, ih]

theorem filt_none (bpp : Nat) (prior : Bytes) : ∀ (xs done : Bytes),
    filt (pred .none) bpp prior done xs = xs := by
  intro xs
  induction xs with
  | nil => intros; simp [filt]
  | cons x xs ih => intro done; simp [filt, pred, ih]

theorem filt_up (bpp : Nat) (prior : Bytes) : ∀ (xs done : Bytes),
    done.length + xs.length ≤ prior.length →
    filt (pred .up) bpp prior done xs = List.zipWith (fun cur p => cur - p) xs (prior.drop done.length) := by
  intro xs
  induction xs with
  | nil => intros; simp [filt]
  | cons x xs ih =>
    intro done h
    simp only [List.length_cons] at h
    rw [drop_eq_getD_cons prior done.length (by omega)]
    simp only [filt, nbrs, pred, List.zipWith_cons_cons]
    congr 1
    rw [ih _ (by simp; omega)]
    simp

/-- the first `bpp` bytes of a row: left and upper-left neighbours are 0 -/
theorem filt_head (p) (bpp : Nat) (prior : Bytes) : ∀ (xs done : Bytes),
    done.length + xs.length ≤ bpp → done.length + xs.length ≤ prior.length →
    filt p bpp prior done xs = List.zipWith (fun x b => x - p 0 b 0) xs (prior.drop done.length) := by
  intro xs
  induction xs with
  | nil => intros; simp [filt]
  | cons x xs ih =>
    intro done h1 h2
    simp only [List.length_cons] at h1 h2
    rw [drop_eq_getD_cons prior done.length (by omega)]
    have hn : ¬ (bpp ≤ done.length ∧ 0 < bpp) := by omega
    simp only [filt, nbrs, back, hn, if_false, List.zipWith_cons_cons]
    congr 1
    rw [ih _ (by simp; omega) (by simp; omega)]
    simp

/-- the bytes from `bpp` on: neighbours come from the slices shifted by `bpp` -/
theorem filt_body (p) (bpp : Nat) (hb : 0 < bpp) (prior : Bytes) : ∀ (xs done : Bytes),
    bpp ≤ done.length → done.length + xs.length ≤ prior.length →
    filt p bpp prior done xs =
      zipWith4 (fun a b c x => x - p a b c) ((done ++ xs).drop (done.length - bpp))
        (prior.drop done.length) (prior.drop (done.length - bpp)) xs := by
  intro xs
  induction xs with
  | nil => intros; simp [filt, zipWith4]
  | cons x xs ih =>
    intro done h1 h2
    simp only [List.length_cons] at h2
    rw [drop_eq_getD_cons prior done.length (by omega),
      drop_eq_getD_cons prior (done.length - bpp) (by omega),
      drop_eq_getD_cons (done ++ x :: xs) (done.length - bpp) (by simp; omega)]
    have hy : bpp ≤ done.length ∧ 0 < bpp := ⟨h1, hb⟩
    have ha : (done ++ x :: xs).getD (done.length - bpp) 0 = done.getD (done.length - bpp) 0 := by
      simp only [List.getD_eq_getElem?_getD]
      rw [List.getElem?_append_left (by omega)]
    simp only [filt, nbrs, back, hy, zipWith4, ha]
    congr 1
    rw [ih _ (by simp; omega) (by simp; omega)]
    have e : (done ++ [x]).length - bpp = done.length - bpp + 1 := by simp; omega
    rw [e]
    simp

theorem zipWith4_take (f) : ∀ (x a b c : Bytes),
    zipWith4 f a b c x = zipWith4 f (a.take x.length) b (c.take x.length) x := by
  intro x
  induction x with
  | nil => intro a b c; cases a <;> cases b <;> cases c <;> simp [zipWith4]
  | cons x0 x ih =>
    intro a b c
    cases a with
    | nil => simp [zipWith4]
    | cons a0 a =>
      cases b with
      | nil => simp [zipWith4]
      | cons b0 b =>
        cases c with
        | nil => simp [zipWith4]
        | cons c0 c =>
          simp only [zipWith4, List.length_cons, List.take_succ_cons]
          rw [← ih]

theorem zipWith4_congr_c (f f' : UInt8 → UInt8 → UInt8 → UInt8 → UInt8)
    (h : ∀ a b c c' x, f a b c x = f' a b c' x) : ∀ (c c' a b x : Bytes), c.length = c'.length →
    zipWith4 f a b c x = zipWith4 f' a b c' x := by
  intro c
  induction c with
  | nil =>
    intro c' a b x hc
    have : c' = [] := by simpa using hc.symm
    subst this
    cases a <;> cases b <;> cases x <;> simp [zipWith4]
  | cons c0 c ih =>
    intro c' a b x hc
    cases c' with
    | nil => simp at hc
    | cons c0' c' =>
      cases a with
      | nil => simp [zipWith4]
      | cons a0 a =>
        cases b with
        | nil => simp [zipWith4]
        | cons b0 b =>
          cases x with
          | nil => simp [zipWith4]
          | cons x0 x =>
            simp only [zipWith4]
            rw [h a0 b0 c0 c0' x0, ih c' a b x (by simpa using hc)]

/-- `filtRow` in the shape of `filter_internal`: leading `bpp` bytes, then the body over the
    slices `current[..len-bpp]`, `previous[bpp..]`, `previous[..len-bpp]`, `current[bpp..]` -/
theorem filtRow_split (p) (bpp : Nat) (hb : 0 < bpp) (prev cur : Bytes) (hle : bpp ≤ cur.length)
    (hprev : prev.length = cur.length) :
    filt p bpp prev [] cur =
      List.zipWith (fun x b => x - p 0 b 0) (cur.take bpp) prev ++
      zipWith4 (fun a b c x => x - p a b c) (cur.take (cur.length - bpp)) (prev.drop bpp)
        (prev.take (cur.length - bpp)) (cur.drop bpp) := by
  have hsplit : filt p bpp prev [] cur = filt p bpp prev [] (cur.take bpp ++ cur.drop bpp) := by
    rw [List.take_append_drop]
  have hl : (cur.take bpp).length = bpp := by simp; omega
  rw [hsplit, filt_append, List.nil_append,
    filt_head p bpp prev (cur.take bpp) [] (by simp; omega) (by simp; omega),
    filt_body p bpp hb prev (cur.drop bpp) (cur.take bpp) (by omega) (by simp; omega)]
  simp only [List.length_nil, List.drop_zero, List.take_append_drop, hl, Nat.sub_self]
  rw [zipWith4_take]
  simp

theorem zipWith_fst (xs ys : Bytes) (h : xs.length ≤ ys.length) :
    List.zipWith (fun (x _b : UInt8) => x) xs ys = xs := by
  induction xs generalizing ys with
  | nil => simp
  | cons x xs ih =>
    cases ys with
    | nil => simp at h
    | cons y ys => simp [ih ys (by simpa using h)]

theorem avg_above (b : UInt8) : pred .avg 0 b 0 = b / 2 := by
  simp only [pred, UInt8.toNat_zero, Nat.zero_add]
  apply UInt8.toNat_inj.mp
  simp
  have := b.toNat_lt
  omega

/-- **`filter_internal` = specification**: all five types, `1 ≤ bpp ≤ len`, previous row of the
    same length (as at every call site). -/
theorem filterImpl_eq_spec (ft : FilterType) (bpp : Nat) (hb : 0 < bpp) (prev cur : Bytes)
    (hle : bpp ≤ cur.length) (hprev : prev.length = cur.length) :
    filterImpl ft bpp prev cur = filtRow ft bpp prev cur := by
  unfold filtRow
  cases ft with
  | none => simp [filterImpl, filt_none]
  | up =>
    rw [filt_up bpp prev cur [] (by simp; omega)]
    simp [filterImpl]
  | sub =>
    rw [filtRow_split _ bpp hb prev cur hle hprev]
    simp only [filterImpl, pred, UInt8.sub_zero]
    rw [zipWith_fst _ _ (by simp; omega)]
    congr 1
    rw [zipWith4_ignore (fun a x => x - a) _ _ _ _ (by simp; omega) (by simp; omega),
      List.zipWith_comm]
  | avg =>
    rw [filtRow_split _ bpp hb prev cur hle hprev]
    simp only [filterImpl, avg_above]
    congr 1
    apply zipWith4_congr_c
    · intro a b c c' x
      simp [pred, avgBitwise_eq, avgWide]
    · simp; omega
  | paeth =>
    rw [filtRow_split _ bpp hb prev cur hle hprev]
    simp only [filterImpl, pred, paethFpnge_eq_spec]

/-! ### The adaptive heuristic (`filter` with `Filter::Adaptive`, filter.rs:1050-1066) -/

/-- the adaptive choice as a function of the four sums (Sub, Up, Avg, Paeth): running minimum
    with `<=`, so a later candidate wins ties -/
def adaptivePick (s1 s2 s3 s4 : Nat) : FilterType :=
  let (m, best) := (s1, FilterType.sub)
  let (m, best) := if s2 ≤ m then (s2, FilterType.up) else (m, best)
  let (m, best) := if s3 ≤ m then (s3, FilterType.avg) else (m, best)
  let (_, best) := if s4 ≤ m then (s4, FilterType.paeth) else (m, best)
  best

theorem adaptive_eq_pick (bpp : Nat) (prev cur : Bytes) :
    adaptive bpp prev cur =
      (let ft := adaptivePick (sumBuffer (filterImpl .sub bpp prev cur))
        (sumBuffer (filterImpl .up bpp prev cur)) (sumBuffer (filterImpl .avg bpp prev cur))
        (sumBuffer (filterImpl .paeth bpp prev cur))
       (ft, filterImpl ft bpp prev cur)) := by
  simp only [adaptive, List.foldl, adaptivePick]
  generalize sumBuffer (filterImpl .sub bpp prev cur) = s1
  generalize sumBuffer (filterImpl .up bpp prev cur) = s2
  generalize sumBuffer (filterImpl .avg bpp prev cur) = s3
  generalize sumBuffer (filterImpl .paeth bpp prev cur) = s4
  by_cases h2 : s2 ≤ s1 <;> simp only [h2, if_true, if_false] <;>
  by_cases h3 : s3 ≤ s2 <;> by_cases h3' : s3 ≤ s1 <;> simp only [h3, h3', if_true, if_false] <;>
  by_cases h4 : s4 ≤ s3 <;> by_cases h4' : s4 ≤ s2 <;> by_cases h4'' : s4 ≤ s1 <;>
    simp only [h4, h4', h4'', if_true, if_false]

/-- sum attached to each candidate -/
def pickSum (s1 s2 s3 s4 : Nat) : FilterType → Nat
  | .sub => s1 | .up => s2 | .avg => s3 | .paeth => s4 | .none => 0

theorem adaptivePick_spec (s1 s2 s3 s4 : Nat) :
    adaptivePick s1 s2 s3 s4 ≠ .none ∧
    ∀ ft, ft ≠ .none →
      pickSum s1 s2 s3 s4 (adaptivePick s1 s2 s3 s4) ≤ pickSum s1 s2 s3 s4 ft ∧
      (pickSum s1 s2 s3 s4 ft = pickSum s1 s2 s3 s4 (adaptivePick s1 s2 s3 s4) →
        ft.toNat ≤ (adaptivePick s1 s2 s3 s4).toNat) := by
  simp only [adaptivePick]
  by_cases h2 : s2 ≤ s1 <;> simp only [h2, if_true, if_false] <;>
  by_cases h3 : s3 ≤ s2 <;> by_cases h3' : s3 ≤ s1 <;> simp only [h3, h3', if_true, if_false] <;>
  by_cases h4 : s4 ≤ s3 <;> by_cases h4' : s4 ≤ s2 <;> by_cases h4'' : s4 ≤ s1 <;>
    simp only [h4, h4', h4'', if_true, if_false] <;>
  (refine ⟨by decide, ?_⟩; intro ft hft; cases ft <;> simp only [pickSum, FilterType.toNat] <;>
    first | exact absurd rfl hft | omega)

/-- the adaptive filter never returns `NoFilter`, and its output is `filter_internal` of the
    returned type -/
theorem adaptive_legal (bpp : Nat) (prev cur : Bytes) :
    ((adaptive bpp prev cur).1 = .sub ∨ (adaptive bpp prev cur).1 = .up ∨
      (adaptive bpp prev cur).1 = .avg ∨ (adaptive bpp prev cur).1 = .paeth) ∧
    (adaptive bpp prev cur).2 = filterImpl (adaptive bpp prev cur).1 bpp prev cur := by
  rw [adaptive_eq_pick]
  refine ⟨?_, rfl⟩
  have h := (adaptivePick_spec (sumBuffer (filterImpl .sub bpp prev cur))
    (sumBuffer (filterImpl .up bpp prev cur)) (sumBuffer (filterImpl .avg bpp prev cur))
    (sumBuffer (filterImpl .paeth bpp prev cur))).1
  simp only []
  generalize adaptivePick _ _ _ _ = c at h ⊢
  cases c <;> simp at h ⊢

/-- what the adaptive filter emits reconstructs to the raw row -/
theorem adaptive_reversible (bpp : Nat) (hb : 0 < bpp) (prev cur : Bytes) (hle : bpp ≤ cur.length)
    (hprev : prev.length = cur.length) :
    reconRow (adaptive bpp prev cur).1 bpp prev (adaptive bpp prev cur).2 = cur := by
  rw [(adaptive_legal bpp prev cur).2, filterImpl_eq_spec _ bpp hb prev cur hle hprev]
  exact reconRow_filtRow _ _ _ _

/-- the chosen type minimises `sum_buffer(filter_internal(ft))` over Sub, Up, Avg, Paeth and is the
    last minimiser in that order -/
theorem adaptive_choice (bpp : Nat) (prev cur : Bytes) (ft : FilterType) (hft : ft ≠ .none) :
    sumBuffer (filterImpl (adaptive bpp prev cur).1 bpp prev cur) ≤ sumBuffer (filterImpl ft bpp prev cur) ∧
    (sumBuffer (filterImpl ft bpp prev cur) = sumBuffer (filterImpl (adaptive bpp prev cur).1 bpp prev cur) →
      ft.toNat ≤ (adaptive bpp prev cur).1.toNat) := by
  rw [adaptive_eq_pick]
  have hs : ∀ f, f ≠ FilterType.none → sumBuffer (filterImpl f bpp prev cur) =
      pickSum (sumBuffer (filterImpl .sub bpp prev cur)) (sumBuffer (filterImpl .up bpp prev cur))
        (sumBuffer (filterImpl .avg bpp prev cur)) (sumBuffer (filterImpl .paeth bpp prev cur)) f := by
    intro f hf; cases f <;> first | exact absurd rfl hf | rfl
  obtain ⟨hne, hall⟩ := adaptivePick_spec (sumBuffer (filterImpl .sub bpp prev cur))
    (sumBuffer (filterImpl .up bpp prev cur)) (sumBuffer (filterImpl .avg bpp prev cur))
    (sumBuffer (filterImpl .paeth bpp prev cur))
  simp only []
  rw [hs _ hne, hs _ hft]
  exact hall ft hft

/-! ### `sum_buffer` -/

/-- `(b as i8).unsigned_abs()` -/
def absI8 (b : UInt8) : Nat := b.toInt8.toInt.natAbs

/-- Σ |b as i8| -/
def sumAbsSpec : Bytes → Nat
  | [] => 0
  | b :: bs => absI8 b + sumAbsSpec bs

def absTableOk : Bool := (List.range 256).all fun n =>
  absI8 n.toUInt8 == (if n < 128 then n else 256 - n)
theorem absTableOk_true : absTableOk = true := by decide +kernel

theorem absI8_eq (b : UInt8) : absI8 b = if b.toNat < 128 then b.toNat else 256 - b.toNat := by
  have h := absTableOk_true
  simp only [absTableOk, List.all_eq_true, List.mem_range, beq_iff_eq] at h
  have := h b.toNat b.toNat_lt
  simpa using this

theorem absI8_le (b : UInt8) : absI8 b ≤ 128 := by
  rw [absI8_eq]; have := b.toNat_lt; split <;> omega

theorem sumBuffer_foldl (buf : Bytes) : ∀ acc : Nat,
    buf.foldl (fun acc b => acc + (if b.toNat < 128 then b.toNat else 256 - b.toNat)) acc
      = acc + sumAbsSpec buf := by
  induction buf with
  | nil => intro acc; simp [sumAbsSpec]
  | cons b bs ih => intro acc; simp only [List.foldl_cons, ih, sumAbsSpec, absI8_eq]; omega

/-- `sum_buffer` is Σ |b as i8|.  (In the Rust code the per-32-byte partial sums are plain `u64`
    additions of terms ≤ 128 and the running total uses `saturating_add`; by `sumBuffer_le` the
    total is ≤ 128·len < 2^64 for every slice that can exist, so nothing saturates or wraps and the
    chunking is invisible.) -/
theorem sumBuffer_spec (buf : Bytes) : sumBuffer buf = sumAbsSpec buf := by
  unfold sumBuffer; rw [sumBuffer_foldl]; simp

theorem sumAbsSpec_le (buf : Bytes) : sumAbsSpec buf ≤ 128 * buf.length := by
  induction buf with
  | nil => simp [sumAbsSpec]
  | cons b bs ih => have := absI8_le b; simp only [sumAbsSpec, List.length_cons]; omega

theorem sumBuffer_le (buf : Bytes) : sumBuffer buf ≤ 128 * buf.length := by
  rw [sumBuffer_spec]; exact sumAbsSpec_le buf

end Png
