import PngVerif.Proofs.ComposeTrace
import PngVerif.Proofs.ReaderInv
/-!
# Layer L2 of the C01 composition, part 1: the loops of `ReadDecoder` along a trace

The `Reader` only ever calls `decode_next` on everything that is visible beyond its read position; with the
whole file visible these are exactly the calls of a `Trace` (`Proofs/ComposeTrace.lean`).  This file walks the
loops of `read_decoder.rs` along a given trace: `read_header_info`, `read_until_image_data`,
`decode_image_data` / `next_raw_interlaced_row` (feeding the unfiltering buffer) and
`finish_decoding_image_data`.
-/
namespace Png.Reader
open Png Png.Framing Png.WellFormed

/-! ## one `decode_next` call -/

theorem decodeNext'_ok {cfg : Cfg} {r : R} {d1 : Dec} {n : Nat} {ev : Ev} (ho : r.dec.out = []) (hne : avail r ≠ [])
    (hu : update cfg r.dec (avail r) = (d1, .ok (n, ev))) :
    decodeNext' cfg r = ({ r with dec := d1.clearOut, pos := r.pos + n }, .ok (ev, d1.out)) := by
  unfold decodeNext'
  simp only
  have hav : (r.input.take r.visible).drop r.pos = avail r := rfl
  rw [hav, clearOut_eq ho]
  have : (avail r).isEmpty = false := by cases h : avail r with | nil => exact absurd h hne | cons _ _ => rfl
  simp only [this, Bool.false_eq_true, if_false, hu]
  rfl

/-- the reader after a trace: only the stream decoder and the read position differ, and they are where the
    trace ended -/
structure After (r : R) (d' : Dec) (b' : Bytes) (r' : R) : Prop where
  frame : Frame r r'
  dec : r'.dec = d'
  avail : avail r' = b'

theorem trace_nil {cfg : Cfg} {P : Dec → Prop} {d d' : Dec} {b b' : Bytes} (h : Trace cfg P d b [] d' b') :
    d' = d ∧ b' = b := by
  cases h; exact ⟨rfl, rfl⟩

/-- the first call of a trace -/
theorem trace_head {cfg : Cfg} {P : Dec → Prop} {r : R} {d d' : Dec} {b b' : Bytes} {ev : Ev} {data : Bytes}
    {rest : List (Ev × Bytes)} (hd : r.dec = d) (hb : avail r = b) (ho : d.out = [])
    (ht : Trace cfg P d b ((ev, data) :: rest) d' b') :
    ∃ r1, decodeNext' cfg r = (r1, .ok (ev, data)) ∧ Frame r r1 ∧ r1.dec.out = [] ∧ P r1.dec ∧
      Trace cfg P r1.dec (avail r1) rest d' b' := by
  cases ht with
  | cons hne hu hp ht' =>
    subst hd hb
    refine ⟨_, decodeNext'_ok ho hne hu, rfl, rfl, hp, ?_⟩
    rw [avail_drop]; exact ht'

theorem decodeNextNoData_head {cfg : Cfg} {P : Dec → Prop} {r : R} {d d' : Dec} {b b' : Bytes} {ev : Ev}
    {rest : List (Ev × Bytes)} (hd : r.dec = d) (hb : avail r = b) (ho : d.out = [])
    (ht : Trace cfg P d b ((ev, []) :: rest) d' b') :
    ∃ r1, decodeNextNoData cfg r = (r1, .ok ev) ∧ Frame r r1 ∧ r1.dec.out = [] ∧ P r1.dec ∧
      Trace cfg P r1.dec (avail r1) rest d' b' := by
  obtain ⟨r1, h1, h2, h3, h4, h5⟩ := trace_head hd hb ho ht
  refine ⟨r1, ?_, h2, h3, h4, h5⟩
  unfold decodeNextNoData
  rw [h1]; rfl

/-! ## `read_header_info` -/

/-- two calls: the first leaves `info` absent, the second sets it -/
theorem readHeaderInfo_trace {cfg : Cfg} {r : R} {d1 d2 : Dec} {b1 b2 : Bytes} {e1 e2 : Ev} {i : Info} (fuel : Nat)
    (ho : r.dec.out = []) (hi : r.dec.info = none) (he1 : e1 ≠ .imageEnd) (he2 : e2 ≠ .imageEnd)
    (ht1 : Trace cfg (fun d => d.info = none) r.dec (avail r) [(e1, [])] d1 b1) (ho1 : d1.out = [])
    (ht2 : Trace cfg (fun d => d.info = some i) d1 b1 [(e2, [])] d2 b2) :
    ∃ r', readHeaderInfo cfg (fuel + 3) r = (r', .ok ()) ∧ After r d2 b2 r' ∧ r'.dec.info = some i ∧ r'.dec.out = [] := by
  obtain ⟨r1, hn1, hf1, ho1', hp1, hr1⟩ := decodeNextNoData_head rfl rfl ho ht1
  obtain ⟨hd1, hb1⟩ := trace_nil hr1
  obtain ⟨r2, hn2, hf2, ho2', hp2, hr2⟩ := decodeNextNoData_head hd1.symm hb1.symm ho1 ht2
  obtain ⟨hd2, hb2⟩ := trace_nil hr2
  refine ⟨r2, ?_, ⟨hf1.trans hf2, hd2.symm, hb2.symm⟩, hp2, ho2'⟩
  have step1 : readHeaderInfo cfg (fuel + 3) r = readHeaderInfo cfg (fuel + 2) r1 := by
    rw [readHeaderInfo]
    simp only [hi, Option.isSome_none, Bool.false_eq_true, if_false, hn1]
    all_goals (cases e1 <;> first | exact absurd rfl he1 | rfl)
  have step2 : readHeaderInfo cfg (fuel + 2) r1 = readHeaderInfo cfg (fuel + 1) r2 := by
    rw [readHeaderInfo]
    have : r1.dec.info = none := hp1
    simp only [this, Option.isSome_none, Bool.false_eq_true, if_false, hn2]
    all_goals (cases e2 <;> first | exact absurd rfl he2 | rfl)
  rw [step1, step2, readHeaderInfo]
  have : r2.dec.info = some i := hp2
  simp [this]

/-! ## `read_until_image_data` -/

theorem rdReadUntilImageData_trace {cfg : Cfg} {P : Dec → Prop} {d' : Dec} {b' : Bytes} {len : Nat} {tD : ChunkType}
    (htD : tD = IDAT ∨ tD = fdAT) :
    ∀ (pre : List (Ev × Bytes)) (r : R) (fuel : Nat), pre.length < fuel → r.dec.out = [] → (∀ e ∈ pre, PreEv e) →
      Trace cfg P r.dec (avail r) (pre ++ [(.chunkBegin len tD, [])]) d' b' →
      ∃ r', rdReadUntilImageData cfg fuel r = (r', .ok ()) ∧ After r d' b' r' ∧ r'.dec.out = [] := by
  intro pre
  induction pre with
  | nil =>
    intro r fuel hf ho _ ht
    obtain ⟨r1, hn1, hf1, ho1, _, hr1⟩ := decodeNextNoData_head rfl rfl ho ht
    obtain ⟨hd1, hb1⟩ := trace_nil hr1
    refine ⟨r1, ?_, ⟨hf1, hd1.symm, hb1.symm⟩, ho1⟩
    cases fuel with
    | zero => omega
    | succ fuel => rw [rdReadUntilImageData, hn1]; simp [htD]
  | cons x pre ih =>
    intro r fuel hf ho hpre ht
    obtain ⟨ev, data⟩ := x
    obtain ⟨hdat, hne, hcb⟩ := hpre (ev, data) (by simp)
    simp only at hdat hne hcb
    subst hdat
    obtain ⟨r1, hn1, hf1, ho1, _, hr1⟩ := decodeNextNoData_head rfl rfl ho ht
    cases fuel with
    | zero => omega
    | succ fuel =>
      obtain ⟨r', hr', ha', ho'⟩ := ih r1 fuel (by simp at hf; omega) ho1 (fun e he => hpre e (by simp [he])) hr1
      refine ⟨r', ?_, ⟨hf1.trans ha'.frame, ha'.dec, ha'.avail⟩, ho'⟩
      rw [rdReadUntilImageData, hn1]
      cases ev with
      | chunkBegin l t =>
        obtain ⟨h1, h2⟩ := hcb l t rfl
        simp only [h1, h2, or_self, if_false]; exact hr'
      | imageEnd => exact absurd rfl hne
      | _ => exact hr'


/-! ## `decode_image_data` -/

theorem decodeImageData_more {cfg : Cfg} {P : Dec → Prop} {r : R} {d d' : Dec} {b b' : Bytes} {ev : Ev} {data : Bytes}
    {rest : List (Ev × Bytes)} (intoUb : Bool) (hd : r.dec = d) (hb : avail r = b) (ho : d.out = [])
    (ht : Trace cfg P d b ((ev, data) :: rest) d' b') (hev : ev.isMore = true) :
    ∃ r1, decodeImageData cfg r intoUb = (r1, .ok .more) ∧
      r1 = { r with dec := r1.dec, pos := r1.pos, ub := if intoUb then r.ub.compact.extend data else r.ub } ∧
      r1.dec.out = [] ∧ P r1.dec ∧ Trace cfg P r1.dec (avail r1) rest d' b' := by
  cases intoUb with
  | false =>
    obtain ⟨r1, h1, h2, h3, h4, h5⟩ := trace_head hd hb ho ht
    refine ⟨r1, ?_, h2, h3, h4, h5⟩
    unfold decodeImageData
    simp only [Bool.false_eq_true, if_false, h1]
    cases ev <;> first | rfl | cases hev
  | true =>
    obtain ⟨r1, h1, h2, h3, h4, h5⟩ := trace_head (r := { r with ub := r.ub.compact }) hd hb ho ht
    refine ⟨{ r1 with ub := r1.ub.extend data }, ?_, ?_, h3, h4, h5⟩
    · unfold decodeImageData
      simp only [if_true, h1]
      cases ev <;> first | rfl | cases hev
    · have e := h2
      unfold Frame at e
      simp only [if_true]
      generalize r1.dec = D at *
      generalize r1.pos = p at *
      subst e; rfl

theorem decodeImageData_done {cfg : Cfg} {P : Dec → Prop} {r : R} {d d' : Dec} {b b' : Bytes} {data : Bytes}
    {rest : List (Ev × Bytes)} (intoUb : Bool) (hd : r.dec = d) (hb : avail r = b) (ho : d.out = [])
    (ht : Trace cfg P d b ((.imageDataFlushed, data) :: rest) d' b') :
    ∃ r1, decodeImageData cfg r intoUb = (r1, .ok .done) ∧
      r1 = { r with dec := r1.dec, pos := r1.pos, ub := if intoUb then r.ub.compact.extend data else r.ub } ∧
      r1.dec.out = [] ∧ P r1.dec ∧ Trace cfg P r1.dec (avail r1) rest d' b' := by
  cases intoUb with
  | false =>
    obtain ⟨r1, h1, h2, h3, h4, h5⟩ := trace_head hd hb ho ht
    refine ⟨r1, ?_, h2, h3, h4, h5⟩
    unfold decodeImageData
    simp only [Bool.false_eq_true, if_false, h1]
  | true =>
    obtain ⟨r1, h1, h2, h3, h4, h5⟩ := trace_head (r := { r with ub := r.ub.compact }) hd hb ho ht
    refine ⟨{ r1 with ub := r1.ub.extend data }, ?_, ?_, h3, h4, h5⟩
    · unfold decodeImageData
      simp only [if_true, h1]
    · have e := h2
      unfold Frame at e
      simp only [if_true]
      generalize r1.dec = D at *
      generalize r1.pos = p at *
      subst e; rfl

/-! ## `next_raw_interlaced_row` -/

/-- where a reader stands in the image data of the current frame: `pend` are the calls still to come, `N` the
    number of frames remaining including the current one -/
structure Pending (cfg : Cfg) (i : Info) (N : Nat) (r : R) (pend : List (Ev × Bytes)) (dEnd : Dec) (bEnd : Bytes) : Prop where
  out : r.dec.out = []
  info : r.dec.info = some i
  trace : Trace cfg (fun d => d.info = some i) r.dec (avail r) pend dEnd bEnd
  caf : (r.sub.caf = false ∧ DataEvs pend ∧ r.remaining = N) ∨ (r.sub.caf = true ∧ pend = [] ∧ r.remaining + 1 = N)
  hN : 1 ≤ N

/-- what `next_raw_interlaced_row` may change -/
def RowFrame (r r' : R) : Prop :=
  r' = { r with dec := r'.dec, pos := r'.pos, ub := r'.ub, sub := { r.sub with caf := r'.sub.caf }, remaining := r'.remaining }

theorem RowFrame.refl (r : R) : RowFrame r r := rfl
theorem RowFrame.trans {a b c : R} (h1 : RowFrame a b) (h2 : RowFrame b c) : RowFrame a c := by
  unfold RowFrame at *; rw [h2, h1]

/-- a whole row is buffered: `unfilter_curr_row` -/
theorem nextRawRow_unfilter (cfg : Cfg) (rowlen fuel : Nat) (r : R) (ft : FilterType) (h2 : 2 ≤ rowlen) (hinv : r.ub.Inv)
    (hprev : r.ub.prevRow = [] ∨ r.ub.prevRow.length = rowlen - 1) (hc : ¬ r.ub.currLen < rowlen)
    (hft : FilterType.ofNat? (r.ub.abs.pending.headD 0).toNat = some ft) :
    ∃ u', nextRawRow cfg rowlen (fuel + 1) r = ({ r with ub := u' }, .ok ()) ∧ u'.Inv ∧
      u'.abs = ⟨unfilterImpl ft r.bpp r.ub.prevRow ((r.ub.abs.pending.drop 1).take (rowlen - 1)),
                r.ub.abs.pending.drop rowlen⟩ := by
  have hcomm := UB.abs_unfilterCurr r.ub rowlen r.bpp hinv
  have hplen : r.ub.abs.pending.length = r.ub.currLen := by simp [UB.abs, UB.currLen]
  have habs : r.ub.abs.unfilterCurr rowlen r.bpp =
      .ok ⟨unfilterImpl ft r.bpp r.ub.abs.prev ((r.ub.abs.pending.drop 1).take (rowlen - 1)),
        r.ub.abs.pending.drop rowlen⟩ := by
    unfold UBAbs.unfilterCurr
    have c1 : ¬ rowlen < 2 := by omega
    have c2 : ¬¬ (r.ub.abs.prev.isEmpty ∨ r.ub.abs.prev.length = rowlen - 1) := by
      rw [UB.abs_prev]
      rcases hprev with h | h
      · simp [h]
      · simp [h]
    have c3 : ¬ r.ub.abs.pending.length = 0 := by omega
    have c4 : ¬ r.ub.abs.pending.length < rowlen := by omega
    simp only [c1, c2, c3, c4, if_false, hft]
  rw [habs] at hcomm
  rw [nextRawRow, if_neg hc]
  cases hu : r.ub.unfilterCurr rowlen r.bpp with
  | unknownFilter b => rw [hu] at hcomm; simp [UnfOutcome.map] at hcomm
  | panic => rw [hu] at hcomm; simp [UnfOutcome.map] at hcomm
  | ok u' =>
    rw [hu] at hcomm
    simp only [UnfOutcome.map, UnfOutcome.ok.injEq] at hcomm
    exact ⟨u', rfl, UB.inv_unfilterCurr _ _ _ _ hinv hu, by rw [hcomm, UB.abs_prev]⟩

theorem abs_compact_extend (u : UB) (bs : Bytes) (h : u.Inv) :
    (u.compact.extend bs).Inv ∧ (u.compact.extend bs).abs = ⟨u.abs.prev, u.abs.pending ++ bs⟩ := by
  refine ⟨UB.inv_extend _ _ (UB.inv_compact u h), ?_⟩
  rw [UB.abs_extend _ _ (UB.inv_compact u h), UB.abs_compact u h]; rfl

/-- **`next_raw_interlaced_row` along the trace of the image data**: it pulls calls from the trace until a whole
    row is buffered (marking the frame as flushed when `ImageDataFlushed` comes by) and unfilters the row with the
    filter type found in its first byte.  `S = buffered ++ still to come` is what is left of the inflated stream. -/
theorem nextRawRow_trace (cfg : Cfg) (i : Info) (N rowlen : Nat) (ft : FilterType) (dEnd : Dec) (bEnd : Bytes)
    (h2 : 2 ≤ rowlen) :
    ∀ (pend : List (Ev × Bytes)) (r : R) (fuel : Nat), pend.length < fuel →
      Pending cfg i N r pend dEnd bEnd → r.ub.Inv →
      (r.ub.prevRow = [] ∨ r.ub.prevRow.length = rowlen - 1) →
      rowlen ≤ (r.ub.abs.pending ++ dataOf pend).length →
      FilterType.ofNat? ((r.ub.abs.pending ++ dataOf pend).headD 0).toNat = some ft →
      ∃ r' pend', nextRawRow cfg rowlen fuel r = (r', .ok ()) ∧ Pending cfg i N r' pend' dEnd bEnd ∧ r'.ub.Inv ∧
        r'.ub.prevRow = unfilterImpl ft r.bpp r.ub.prevRow
          (((r.ub.abs.pending ++ dataOf pend).drop 1).take (rowlen - 1)) ∧
        r'.ub.abs.pending ++ dataOf pend' = (r.ub.abs.pending ++ dataOf pend).drop rowlen ∧
        RowFrame r r' := by
  -- the case where the row is there already
  have direct : ∀ (pend : List (Ev × Bytes)) (r : R) (fuel : Nat), pend.length < fuel →
      Pending cfg i N r pend dEnd bEnd → r.ub.Inv →
      (r.ub.prevRow = [] ∨ r.ub.prevRow.length = rowlen - 1) →
      ¬ r.ub.currLen < rowlen →
      FilterType.ofNat? ((r.ub.abs.pending ++ dataOf pend).headD 0).toNat = some ft →
      ∃ r' pend', nextRawRow cfg rowlen fuel r = (r', .ok ()) ∧ Pending cfg i N r' pend' dEnd bEnd ∧ r'.ub.Inv ∧
        r'.ub.prevRow = unfilterImpl ft r.bpp r.ub.prevRow
          (((r.ub.abs.pending ++ dataOf pend).drop 1).take (rowlen - 1)) ∧
        r'.ub.abs.pending ++ dataOf pend' = (r.ub.abs.pending ++ dataOf pend).drop rowlen ∧
        RowFrame r r' := by
    intro pend r fuel hf hP hinv hprev hc hft
    have hplen : r.ub.abs.pending.length = r.ub.currLen := by simp [UB.abs, UB.currLen]
    have hpl : rowlen ≤ r.ub.abs.pending.length := by omega
    have hhead : (r.ub.abs.pending ++ dataOf pend).headD 0 = r.ub.abs.pending.headD 0 := by
      cases hq : r.ub.abs.pending with
      | nil => rw [hq] at hpl; simp at hpl; omega
      | cons a as => rfl
    rw [hhead] at hft
    cases fuel with
    | zero => omega
    | succ fuel =>
      obtain ⟨u', hrun, hinv', habs⟩ := nextRawRow_unfilter cfg rowlen fuel r ft h2 hinv hprev hc hft
      refine ⟨{ r with ub := u' }, pend, hrun, ⟨hP.out, hP.info, hP.trace, hP.caf, hP.hN⟩, hinv', ?_, ?_, rfl⟩
      · show u'.abs.prev = _
        rw [habs]
        simp only
        rw [List.drop_append_of_le_length (by omega), List.take_append_of_le_length (by simp; omega)]
      · show u'.abs.pending ++ _ = _
        rw [habs]
        simp only
        rw [List.drop_append_of_le_length hpl]
  intro pend
  induction pend with
  | nil =>
    intro r fuel hf hP hinv hprev hlen hft
    have hplen : r.ub.abs.pending.length = r.ub.currLen := by simp [UB.abs, UB.currLen]
    have hc : ¬ r.ub.currLen < rowlen := by simp [dataOf] at hlen; omega
    exact direct [] r fuel hf hP hinv hprev hc hft
  | cons x rest ih =>
    intro r fuel hf hP hinv hprev hlen hft
    by_cases hc : r.ub.currLen < rowlen
    · obtain ⟨ev, data⟩ := x
      have hcafE : r.sub.caf = false ∧ DataEvs ((ev, data) :: rest) ∧ r.remaining = N := by
        rcases hP.caf with h | ⟨_, hnil, _⟩
        · exact h
        · cases hnil
      obtain ⟨hcaf, hev, hrem⟩ := hcafE
      cases fuel with
      | zero => omega
      | succ fuel =>
        have hf' : rest.length < fuel := by simp at hf; omega
        have hS : ∀ (u1 : UB), u1.abs = ⟨r.ub.abs.prev, r.ub.abs.pending ++ data⟩ →
            u1.abs.pending ++ dataOf rest = r.ub.abs.pending ++ dataOf ((ev, data) :: rest) := by
          intro u1 h; rw [h, dataOf_cons]; simp
        cases hev with
        | last dl =>
          -- `ImageDataFlushed`: the data goes to the buffer, the frame is marked as flushed
          obtain ⟨r1, hrun, hr1, ho1, hi1, htr1⟩ := decodeImageData_done true rfl rfl hP.out hP.trace
          obtain ⟨hinv1, habs1⟩ := abs_compact_extend r.ub data hinv
          have hub1 : r1.ub = r.ub.compact.extend data := by rw [hr1]; rfl
          have hrem1 : r1.remaining = N := by rw [hr1]; exact hrem
          have hN := hP.hN
          have hmf : markFlushed r1 = .ok { r1 with remaining := r1.remaining - 1, sub := { r1.sub with caf := true } } := by
            unfold markFlushed; rw [if_neg (by omega)]
          have hP2 : Pending cfg i N { r1 with remaining := r1.remaining - 1, sub := { r1.sub with caf := true } } [] dEnd bEnd :=
            ⟨ho1, hi1, htr1, Or.inr ⟨rfl, rfl, by show r1.remaining - 1 + 1 = N; omega⟩, hN⟩
          have hS1 := hS r1.ub (by rw [hub1]; exact habs1)
          obtain ⟨r', pend', hrun', hP', hinv', hrow', hpend', hfr'⟩ :=
            ih { r1 with remaining := r1.remaining - 1, sub := { r1.sub with caf := true } } fuel hf' hP2
              (by show r1.ub.Inv; rw [hub1]; exact hinv1)
              (by show r1.ub.prevRow = [] ∨ _; rw [hub1, ← UB.abs_prev, habs1]; exact hprev)
              (by show rowlen ≤ (r1.ub.abs.pending ++ dataOf []).length; rw [hS1]; exact hlen)
              (by show FilterType.ofNat? ((r1.ub.abs.pending ++ dataOf []).headD 0).toNat = some ft; rw [hS1]; exact hft)
          refine ⟨r', pend', ?_, hP', hinv', ?_, ?_, ?_⟩
          · rw [nextRawRow, if_pos hc, if_neg (by simp [hcaf]), hrun]
            simp only [hmf]
            exact hrun'
          · rw [hrow']
            show unfilterImpl ft r1.bpp r1.ub.prevRow (((r1.ub.abs.pending ++ dataOf []).drop 1).take (rowlen - 1)) = _
            rw [hS1, hub1, ← UB.abs_prev, habs1]
            have : r1.bpp = r.bpp := by rw [hr1]
            rw [this]; rfl
          · rw [hpend']
            show (r1.ub.abs.pending ++ dataOf []).drop rowlen = _
            rw [hS1]
          · refine RowFrame.trans (b := { r1 with remaining := r1.remaining - 1, sub := { r1.sub with caf := true } }) ?_ hfr'
            unfold RowFrame; rw [hr1]
        | more ev' data' rest' hmore hrest =>
          obtain ⟨r1, hrun, hr1, ho1, hi1, htr1⟩ := decodeImageData_more true rfl rfl hP.out hP.trace hmore
          obtain ⟨hinv1, habs1⟩ := abs_compact_extend r.ub data hinv
          have hub1 : r1.ub = r.ub.compact.extend data := by rw [hr1]; rfl
          have hP1 : Pending cfg i N r1 rest dEnd bEnd :=
            ⟨ho1, hi1, htr1, Or.inl ⟨by rw [hr1]; exact hcaf, hrest, by rw [hr1]; exact hrem⟩, hP.hN⟩
          have hS1 := hS r1.ub (by rw [hub1]; exact habs1)
          obtain ⟨r', pend', hrun', hP', hinv', hrow', hpend', hfr'⟩ :=
            ih r1 fuel hf' hP1 (by rw [hub1]; exact hinv1)
              (by rw [hub1, ← UB.abs_prev, habs1]; exact hprev)
              (by rw [hS1]; exact hlen) (by rw [hS1]; exact hft)
          refine ⟨r', pend', ?_, hP', hinv', ?_, ?_, ?_⟩
          · rw [nextRawRow, if_pos hc, if_neg (by simp [hcaf]), hrun]
            exact hrun'
          · rw [hrow', hS1, hub1, ← UB.abs_prev, habs1]
            have : r1.bpp = r.bpp := by rw [hr1]
            rw [this]; rfl
          · rw [hpend', hS1]
          · refine RowFrame.trans (b := r1) ?_ hfr'
            unfold RowFrame; rw [hr1]
    · exact direct _ r fuel hf hP hinv hprev hc hft


/-! ## `next_interlaced_row_impl` with the identity transformation -/

/-- **the row transformation is the identity** for the flags `f` (no `EXPAND`, `STRIP_16`, `ALPHA`): the output
    type is the image's type, creating the transform function succeeds, and applying it copies the row -/
structure TCfg.IsIdentity (t : TCfg) (f : Flags) : Prop where
  out : ∀ i, t.outColorDepth i f = (i.color, i.depth)
  create : ∀ i, (i.color, i.depth) ∈ legalPairs → t.create i f = .ok ()
  apply : ∀ snap cur row, (snap.color, snap.depth) ∈ legalPairs → (cur.color, cur.depth) ∈ legalPairs →
    t.apply snap f cur row row.length = some row

/-- the `Info` a cached transform function was created from (if any) has a legal colour type / bit depth pair -/
def CachedLegal (r : R) : Prop := ∀ snap, r.cached = some snap → (snap.color, snap.depth) ∈ legalPairs

theorem cachedLegal_after {i : Info} {r r' : R} (hleg : (i.color, i.depth) ∈ legalPairs) (hca : CachedLegal r)
    (h : r'.cached = some (r.cached.getD i)) : CachedLegal r' := by
  intro snap hs
  rw [h] at hs
  cases hc : r.cached with
  | none => rw [hc] at hs; simp only [Option.getD_none, Option.some.injEq] at hs; subst hs; exact hleg
  | some s0 => rw [hc] at hs; simp only [Option.getD_some, Option.some.injEq] at hs; subst hs; exact hca _ hc

theorem Pending.length_lt {cfg : Cfg} {i : Info} {N : Nat} {r : R} {pend : List (Ev × Bytes)} {dEnd : Dec} {bEnd : Bytes}
    (h : Pending cfg i N r pend dEnd bEnd) : pend.length < fuelOf r := by
  have h1 := h.trace.length_le
  have h2 := fuelOf_ge r
  simp only [M] at h2
  omega

theorem advance_caf (s : Sub) (c : Bool) : ({ s with caf := c } : Sub).advance = { s.advance with caf := c } := by
  unfold Sub.advance
  simp only
  cases s.iter.next with
  | none => rfl
  | some x => rfl

/-- what `next_interlaced_row_impl` may change -/
def RowImplFrame (i : Info) (r r' : R) : Prop :=
  r' = { r with dec := r'.dec, pos := r'.pos, ub := r'.ub, sub := { r.sub.advance with caf := r'.sub.caf },
                remaining := r'.remaining, cached := some (r.cached.getD i) }

/-- **one row**: `next_interlaced_row_impl` hands out the row the specification reconstructs from the next
    `rowlen` bytes `S[..rowlen]` of the inflated stream (filter type `S[0]`, filtered bytes `S[1..rowlen]`) against
    the previous row held by the unfiltering buffer; that row becomes the previous row; the iterator advances -/
theorem nextRowImpl_trace (cfg : Cfg) {t : TCfg} {f : Flags} (ht : t.IsIdentity f) (i : Info)
    (hleg : (i.color, i.depth) ∈ legalPairs) (N rowlen : Nat) (ft : FilterType) (dEnd : Dec) (bEnd : Bytes)
    (h2 : 2 ≤ rowlen) (pend : List (Ev × Bytes)) (r : R) (hfl : r.flags = f)
    (hca : CachedLegal r)
    (hP : Pending cfg i N r pend dEnd bEnd) (hinv : r.ub.Inv)
    (hprev : r.ub.prevRow = [] ∨ r.ub.prevRow.length = rowlen - 1)
    (hlen : rowlen ≤ (r.ub.abs.pending ++ dataOf pend).length)
    (hft : FilterType.ofNat? ((r.ub.abs.pending ++ dataOf pend).headD 0).toNat = some ft) :
    ∃ r' pend', nextRowImpl cfg t r rowlen (rowlen - 1) =
        (r', .ok (unfilterImpl ft r.bpp r.ub.prevRow (((r.ub.abs.pending ++ dataOf pend).drop 1).take (rowlen - 1)))) ∧
      Pending cfg i N r' pend' dEnd bEnd ∧ r'.ub.Inv ∧
      r'.ub.prevRow = unfilterImpl ft r.bpp r.ub.prevRow (((r.ub.abs.pending ++ dataOf pend).drop 1).take (rowlen - 1)) ∧
      r'.ub.abs.pending ++ dataOf pend' = (r.ub.abs.pending ++ dataOf pend).drop rowlen ∧
      RowImplFrame i r r' := by
  obtain ⟨r1, pend', hrun, hP1, hinv1, hrow1, hpend1, hfr1⟩ :=
    nextRawRow_trace cfg i N rowlen ft dEnd bEnd h2 pend r (fuelOf r) hP.length_lt hP hinv hprev hlen hft
  have hrl : r1.ub.prevRow.length = rowlen - 1 := by
    rw [hrow1, unfilterImpl_length]
    simp only [List.length_take, List.length_drop]
    omega
  have hfl1 : r1.flags = f := by rw [hfr1]; exact hfl
  have hca1 : r1.cached = r.cached := by rw [hfr1]
  have hi1 : infoOf r1 = some i := hP1.info
  -- the transform function
  have hgt : ∃ r2 snap, getTransform t r1 i = .ok (r2, snap) ∧ snap = r.cached.getD i ∧
      (snap.color, snap.depth) ∈ legalPairs ∧ r2 = { r1 with cached := some snap } := by
    unfold getTransform
    cases h : r.cached with
    | none =>
      rw [hca1, h]
      simp only [hfl1, ht.create i hleg]
      exact ⟨_, _, rfl, rfl, hleg, rfl⟩
    | some s0 =>
      rw [hca1, h]
      refine ⟨r1, s0, rfl, rfl, hca s0 h, ?_⟩
      have : r1.cached = some s0 := by rw [hca1, h]
      cases r1; simp only at this; subst this; rfl
  obtain ⟨r2, snap, hg, hsnap, hsleg, hr2⟩ := hgt
  have hap : t.apply snap r2.flags i r1.ub.prevRow (rowlen - 1) = some r1.ub.prevRow := by
    have : r2.flags = f := by rw [hr2]; exact hfl1
    rw [this, ← hrl]
    exact ht.apply snap i _ hsleg hleg
  refine ⟨{ r2 with sub := r2.sub.advance }, pend', ?_, ?_, ?_, ?_, ?_, ?_⟩
  · unfold nextRowImpl
    rw [hrun]
    simp only [hi1, hg]
    rw [if_neg (by rw [hrl]; simp), hap]
    simp only [hrow1]
  · rw [hr2]
    refine ⟨hP1.out, hP1.info, hP1.trace, ?_, hP1.hN⟩
    have : ({ r1 with cached := some snap } : R).sub.advance.caf = r1.sub.caf := (advance_dims _).2.2.2
    rcases hP1.caf with ⟨a, b, c⟩ | ⟨a, b, c⟩
    · exact Or.inl ⟨by show ({ r1 with cached := some snap } : R).sub.advance.caf = false; rw [this]; exact a, b, c⟩
    · exact Or.inr ⟨by show ({ r1 with cached := some snap } : R).sub.advance.caf = true; rw [this]; exact a, b, c⟩
  · rw [hr2]; exact hinv1
  · rw [hr2]; exact hrow1
  · rw [hr2]; exact hpend1
  · unfold RowImplFrame
    rw [hr2, hsnap]
    unfold RowFrame at hfr1
    have hsub : r1.sub = { r.sub with caf := r1.sub.caf } := by rw [hfr1]
    show ({ ({ r1 with cached := some (r.cached.getD i) } : R) with sub := r1.sub.advance } : R) = _
    have hadv : r1.sub.advance = { r.sub.advance with caf := r1.sub.advance.caf } := by
      rw [hsub, advance_caf]
    rw [hadv]
    generalize r1.sub.advance.caf = c
    rw [hfr1]

end Png.Reader
