import PngVerif.Proofs.StreamSinkZ
/-!
# The stream writer under EVERY sink behaviour, part 3: the invariant of `StreamWriter` and its `write`

`SWInv o s w`: the stream writer `s` (owning its `Writer` iff `o`) is in a state from which no operation panics,
`w` being the `Writer` it holds (or has released).  It follows every partial state a sink failure can leave:

* output pending in the zlib encoder, a chunk buffer left full by a failed `flush_inner` — nothing is assumed about
  them (`CWOk`);
* a row recorded as complete whose compression failed: `index = line_len` (and possibly `to_write = 0`) with the
  wrapper still `Zlib` (`zlibTw`); the slice `curr_buf[..line_len][index..]` is then empty, `written = 0`;
* `Wrapper::Unrecoverable` after a failed `ZlibEncoder::finish`: the `Writer` has been released (dropped, if owned);
* the geometry (`Geo`): both row buffers are `line_len` long, `index ≤ line_len`, and `to_write + index` is a whole
  number of rows — so `to_write -= written` cannot underflow;
* `Wrapper::Chunk` only between two images (`to_write = 0`), `Wrapper::None` never before the final drop.
-/
namespace Png.Enc
open Png Png.Val

/-- the row geometry of a stream writer -/
structure Geo (s : SW) : Prop where
  pos : 0 < s.lineLen
  idx : s.index ≤ s.lineLen
  cur : s.curBuf.length = s.lineLen
  prev : s.prevBuf.length = s.lineLen
  rows : ∃ m, s.toWrite + s.index = m * s.lineLen

/-- the stream writer's own copy of the canvas size and frame control fits the `Writer` -/
structure CopyR (s : SW) (w : WState) : Prop where
  width : s.width = w.width
  height : s.height = w.height
  fc : ∀ f, s.fctl = some f → RectOk w f

theorem CopyR.static {s : SW} {a b : WState} (h : CopyR s a) (hst : StaticEq a b) : CopyR s b :=
  ⟨by rw [hst.1]; exact h.width, by rw [hst.2.1]; exact h.height,
    fun f hf => by have := h.fc f hf; simpa [RectOk, hst.1, hst.2.1] using this⟩

/-- the wrapper, the released `Writer` (if any) and the `Writer` the stream writer currently stands for -/
inductive WrOk (owned : Bool) : Wrap → Option WState → WState → Prop
  | chunk {c : CW} : CWOk c → WrOk owned (.chunk c) none c.w
  | zlib {z : ZEnc} : CWOk z.cw → WrOk owned (.zlib z) none z.cw.w
  | unrec {w : WState} : Rel owned w → WrOk owned .unrecoverable (some w) w

/-- the invariant of a stream-writer session under any sink -/
structure SWInv (o : Bool) (s : SW) (w : WState) : Prop where
  owned : s.owned = o
  geo : Geo s
  copy : CopyR s w
  wr : WrOk o s.wr s.released w
  chunkTw : ∀ c, s.wr = .chunk c → s.toWrite = 0
  zlibTw : ∀ z, s.wr = .zlib z → s.toWrite = 0 → s.index = s.lineLen

theorem SWInv.writerState {o : Bool} {s : SW} {w : WState} (h : SWInv o s w) (fb : WState) : s.writerState fb = w := by
  have := h.wr
  unfold SW.writerState
  generalize s.wr = x at this
  generalize s.released = y at this
  cases this <;> rfl

/-- `increment_images_written` -/
theorem Tr.incr (s : WState) : Tr 0 True s (incrementImagesWritten s) := by
  have hst := incr_static s
  have han := incr_anim s
  have hshape : (incrementImagesWritten s).sink = s.sink ∧ (incrementImagesWritten s).iendWritten = s.iendWritten ∧
      ((incrementImagesWritten s).fctl = s.fctl ∨ (incrementImagesWritten s).fctl = none) := by
    unfold incrementImagesWritten
    cases s.actl with
    | none => exact ⟨rfl, rfl, Or.inl rfl⟩
    | some a =>
      obtain ⟨n, p⟩ := a
      simp only
      split
      · exact ⟨rfl, rfl, Or.inr rfl⟩
      · exact ⟨rfl, rfl, Or.inl rfl⟩
  obtain ⟨h1, h2, h3⟩ := hshape
  exact {
    static := hst, beh := by rw [h1], log := ⟨[], by rw [h1]; simp, by simp⟩
    closed := fun h => ⟨by rw [h2]; exact h, by rw [h1]⟩
    open_ := fun _ _ => by rw [h1]
    closing := fun h h' => by rw [h2, h] at h'; cases h'
    rect := fun h f hf => by
      rcases h3 with h3 | h3
      · rw [h3] at hf
        have := h f hf
        simpa [RectOk, hst.1, hst.2.1] using this
      · rw [h3] at hf; cases hf
    fcNone := fun h => by
      rcases h3 with h3 | h3
      · rw [h3]; exact h
      · exact h3
    animLo := by rw [han]; exact Nat.le_refl _
    animHi := by rw [han]; exact Nat.le_refl _ }

theorem incr_iend (s : WState) : (incrementImagesWritten s).iendWritten = s.iendWritten := by
  unfold incrementImagesWritten
  cases s.actl with
  | none => rfl
  | some a => obtain ⟨n, p⟩ := a; simp only; split <;> rfl

/-! ## The end of an image -/

/-- the shape of the results of `endZlib` / `finishImage` from a `Zlib` wrapper: only the wrapper and the released
    `Writer` change; the wrapper is not `Zlib` afterwards, and it is `Chunk` if the call succeeded -/
def EndShape (o : Bool) (s : SW) (w : WState) (s' : SW) (r : Res) : Prop :=
  r.isPanic = false ∧ ∃ wr' rel' w', s' = { s with wr := wr', released := rel' } ∧ WrOk o wr' rel' w' ∧
    Tr 0 (r = .ok) w w' ∧ (∀ z', wr' ≠ .zlib z') ∧ (∀ c, wr' = .chunk c → rel' = none) ∧ (r = .ok → ∃ c, wr' = .chunk c)

theorem endZlib_zlib (Z : ZCodec) {o : Bool} {s : SW} {z : ZEnc} (ho : s.owned = o) (hz : s.wr = .zlib z)
    (hrel : s.released = none) (hc : CWOk z.cw) : ∀ s' r, s.endZlib Z = (s', r) → EndShape o s z.cw.w s' r := by
  intro s' r hf
  unfold SW.endZlib at hf
  rw [hz] at hf
  simp only at hf
  cases hfi : z.finish Z with
  | mk z1 r1 =>
    obtain ⟨a1, a2, a3⟩ := ZEnc.finish_ok Z hc z1 r1 hfi
    rw [hfi] at hf
    cases r1 with
    | panic p => cases a1
    | ok =>
      simp only [Prod.mk.injEq] at hf; obtain ⟨rfl, rfl⟩ := hf
      refine ⟨rfl, .chunk z1.cw, none, z1.cw.w, ?_, WrOk.chunk a2, a3, (fun z' h => by cases h), (fun _ _ => rfl),
        fun _ => ⟨_, rfl⟩⟩
      rw [← hrel]
    | err e =>
      simp only at hf
      cases hd : z1.drop Z s.owned with
      | mk w1 r2 =>
        obtain ⟨b1, b2, b3⟩ := ZEnc.drop_ok Z a2 s.owned w1 r2 hd
        rw [hd] at hf
        have hs' : (({ s with wr := .unrecoverable, released := some w1 } : SW), Res.err e) = (s', r) := by
          cases r2 with
          | panic p => cases b1
          | ok => exact hf
          | err e2 => exact hf
        simp only [Prod.mk.injEq] at hs'; obtain ⟨rfl, rfl⟩ := hs'
        refine ⟨rfl, .unrecoverable, some w1, w1, rfl, WrOk.unrec (by rw [← ho]; exact b3),
          a3.comp b2 (Nat.le_refl _) (fun h => by cases h), (fun z' h => by cases h), (fun c h => by cases h),
          fun h => by cases h⟩

theorem endZlib_other (Z : ZCodec) {s : SW} (hz : ∀ z, s.wr ≠ .zlib z) : s.endZlib Z = (s, .ok) := by
  unfold SW.endZlib
  cases hw : s.wr with
  | zlib z => exact absurd hw (hz z)
  | chunk c => rfl
  | unrecoverable => rfl
  | none => rfl

/-- `finish_image` from a `Zlib` wrapper, any sink -/
theorem finishImage_zlib (Z : ZCodec) {o : Bool} {s : SW} {z : ZEnc} (ho : s.owned = o) (hz : s.wr = .zlib z)
    (hrel : s.released = none) (hc : CWOk z.cw) : ∀ s' r, s.finishImage Z = (s', r) → EndShape o s z.cw.w s' r := by
  intro s' r hf
  unfold SW.finishImage at hf
  cases he : s.endZlib Z with
  | mk s1 r1 =>
    obtain ⟨a1, wr1, rel1, w1, rfl, a3, a4, a5, a5', a6⟩ := endZlib_zlib Z ho hz hrel hc s1 r1 he
    rw [he] at hf
    cases r1 with
    | panic p => cases a1
    | err e =>
      simp only [Prod.mk.injEq] at hf; obtain ⟨rfl, rfl⟩ := hf
      exact ⟨rfl, wr1, rel1, w1, rfl, a3, a4, a5, a5', a6⟩
    | ok =>
      obtain ⟨c, rfl⟩ := a6 rfl
      have hr1 := a5' c rfl
      subst hr1
      simp only at hf
      cases a3 with
      | chunk hcw =>
        cases hfi : c.flushInner with
        | mk c1 r2 =>
          obtain ⟨b1, b2, b3, _⟩ := hcw.flushInner c1 r2 hfi
          rw [hfi] at hf
          cases r2 with
          | panic p => cases b1
          | err e =>
            simp only [Prod.mk.injEq] at hf; obtain ⟨rfl, rfl⟩ := hf
            exact ⟨rfl, .chunk c1, none, c1.w, rfl, WrOk.chunk b2, a4.comp b3 (Nat.le_refl _) (fun h => by cases h),
              (fun z' h => by cases h), (fun _ _ => rfl), fun h => by cases h⟩
          | ok =>
            simp only [Prod.mk.injEq] at hf; obtain ⟨rfl, rfl⟩ := hf
            have t := (a4.comp b3 (Nat.le_refl _) (fun h : Res.ok = Res.ok => ⟨rfl, rfl⟩)).comp
              (Tr.incr c1.w) (Nat.le_refl _) (fun h : Res.ok = Res.ok => ⟨h, trivial⟩)
            have hl : Live (incrementImagesWritten c1.w) :=
              b2.live.tr (Tr.incr c1.w) (by rw [incr_iend]; exact b2.live.iend)
            exact ⟨rfl, .chunk { c1 with w := incrementImagesWritten c1.w }, none, incrementImagesWritten c1.w, rfl,
              WrOk.chunk (c := { c1 with w := incrementImagesWritten c1.w }) ⟨hl, b2.curr⟩, t,
              (fun z' h => by cases h), (fun _ _ => rfl), fun _ => ⟨_, rfl⟩⟩

/-! ## Inversion of `WrOk` -/

theorem WrOk.chunk_inv {o : Bool} {c : CW} {rel : Option WState} {w : WState} (h : WrOk o (.chunk c) rel w) :
    rel = none ∧ w = c.w ∧ CWOk c := by
  cases h with | chunk hc => exact ⟨rfl, rfl, hc⟩

theorem WrOk.zlib_inv {o : Bool} {z : ZEnc} {rel : Option WState} {w : WState} (h : WrOk o (.zlib z) rel w) :
    rel = none ∧ w = z.cw.w ∧ CWOk z.cw := by
  cases h with | zlib hc => exact ⟨rfl, rfl, hc⟩

theorem WrOk.unrec_inv {o : Bool} {rel : Option WState} {w : WState} (h : WrOk o .unrecoverable rel w) :
    rel = some w ∧ Rel o w := by
  cases h with | unrec hr => exact ⟨rfl, hr⟩

theorem WrOk.none_inv {o : Bool} {rel : Option WState} {w : WState} (h : WrOk o .none rel w) : False := by
  cases h

/-- the invariant after only the wrapper (and the released `Writer`) changed, between two images -/
theorem SWInv.ofEnd {o : Bool} {s : SW} {wr' : Wrap} {rel' : Option WState} {w w' : WState} (ho : s.owned = o)
    (hg : Geo s) (hcp : CopyR s w) (hst : StaticEq w w') (hw : WrOk o wr' rel' w') (hnz : ∀ z', wr' ≠ .zlib z')
    (htw : s.toWrite = 0) : SWInv o { s with wr := wr', released := rel' } w' :=
  { owned := ho, geo := ⟨hg.pos, hg.idx, hg.cur, hg.prev, hg.rows⟩, copy := ⟨(hcp.static hst).width, (hcp.static hst).height, (hcp.static hst).fc⟩
    wr := hw, chunkTw := fun _ _ => htw, zlibTw := fun z hz => absurd hz (hnz z) }

theorem CWOk.setFctlOpt {c : CW} (h : CWOk c) (fo : Option FC) (hr : ∀ f, fo = some f → RectOk c.w f) :
    CWOk (c.setFctlOpt fo) ∧ Tr 0 True c.w (c.setFctlOpt fo).w ∧ (c.setFctlOpt fo).buf = c.buf ∧
    (c.setFctlOpt fo).w.animWritten = c.w.animWritten := by
  cases fo with
  | none => exact ⟨h, Tr.refl _, rfl, rfl⟩
  | some f => exact h.setFctl f (hr f rfl)

theorem CWOk.frameInfo {c : CW} (h : CWOk c) :
    0 < c.nextFrameInfo.1 ∧ ∃ fh, 0 < fh ∧ c.nextFrameInfo.2 = c.nextFrameInfo.1 * fh :=
  Live.frameInfo h.live c.cap c.buf c.curr

/-! ## The start of the next image -/

/-- `new_frame` from a `Chunk` wrapper between two images (whatever is left in the chunk buffer, whatever the row
    index: a failed row leaves `index = line_len`), with room in the `u32` frame counter -/
theorem newFrame_ok {o : Bool} {s : SW} {c : CW} (ho : s.owned = o) (hz : s.wr = .chunk c) (hrel : s.released = none)
    (hc : CWOk c) (htw : s.toWrite = 0) (hg : Geo s) (hcp : CopyR s c.w) (hb : Room c.w 1) :
    ∀ s' r, s.newFrame = (s', r) → r.isPanic = false ∧ ∃ w', SWInv o s' w' ∧ Tr 1 (r = .ok) c.w w' ∧
      (r = .ok → 0 < s'.toWrite ∧ ∃ z, s'.wr = .zlib z) := by
  intro s' r hf
  unfold SW.newFrame at hf
  rw [hz] at hf
  simp only at hf
  have mk : ∀ (c1 : CW), CWOk c1 → StaticEq c.w c1.w → SWInv o { s with wr := .chunk c1 } c1.w := by
    intro c1 hc1 hst
    have := SWInv.ofEnd (wr' := .chunk c1) (rel' := none) ho hg hcp hst (WrOk.chunk hc1) (fun z' h => by cases h) htw
    rw [← hrel] at this; exact this
  cases hfi : c.flushInner with
  | mk c1 r1 =>
    obtain ⟨a1, a2, a3, _, _, a6, _, a8⟩ := hc.flushInner c1 r1 hfi
    rw [hfi] at hf
    cases r1 with
    | panic p => cases a1
    | err e =>
      simp only [Prod.mk.injEq] at hf; obtain ⟨rfl, rfl⟩ := hf
      exact ⟨rfl, c1.w, mk c1 a2 a3.static, a3.weaken (by omega) (fun h => by cases h), fun h => by cases h⟩
    | ok =>
      simp only at hf
      have hbuf := a6 rfl
      cases hv : validateNewImage c1.w with
      | some e =>
        rw [hv] at hf
        simp only [Prod.mk.injEq] at hf; obtain ⟨rfl, rfl⟩ := hf
        exact ⟨rfl, c1.w, mk c1 a2 a3.static, a3.weaken (by omega) (fun h => by cases h), fun h => by cases h⟩
      | none =>
        rw [hv] at hf
        simp only at hf
        have hcp1 := hcp.static a3.static
        obtain ⟨b1, b2, b3, b4⟩ := a2.setFctlOpt s.fctl hcp1.fc
        obtain ⟨i1, fh, i2, i3⟩ := b1.frameInfo
        cases hwh : (c1.setFctlOpt s.fctl).writeHeader with
        | mk c3 r3 =>
          obtain ⟨d1, d2, d3, d4⟩ := b1.writeHeader (by rw [b3]; exact hbuf) ((hb.tr a3 (Nat.le_refl _)).tr b2 (Nat.le_refl _)) c3 r3 hwh
          rw [hwh] at hf
          have t13 : Tr 1 (r3 = .ok) c.w c3.w :=
            (a3.comp b2 (Nat.le_refl _) (fun _ : True => ⟨rfl, trivial⟩)).comp d3 (by omega) (fun h => ⟨trivial, h⟩)
          cases r3 with
          | panic p => cases d1
          | err e =>
            simp only [Prod.mk.injEq] at hf; obtain ⟨rfl, rfl⟩ := hf
            exact ⟨rfl, c3.w, mk c3 d2 t13.static, t13, fun h => by cases h⟩
          | ok =>
            simp only [Prod.mk.injEq] at hf; obtain ⟨rfl, rfl⟩ := hf
            have hcp3 := hcp.static t13.static
            have htwpos : 0 < (c1.setFctlOpt s.fctl).nextFrameInfo.2 := by rw [i3]; exact Nat.mul_pos i1 i2
            refine ⟨rfl, c3.w, ?_, t13, fun _ => ⟨htwpos, _, rfl⟩⟩
            exact {
              owned := ho
              geo := ⟨i1, Nat.zero_le _, by simp only [List.length_take, List.length_append, List.length_replicate]; omega,
                by simp, ⟨fh, by simp only [Nat.add_zero]; rw [i3, Nat.mul_comm]⟩⟩
              copy := ⟨hcp3.width, hcp3.height, hcp3.fc⟩
              wr := by
                show WrOk o (.zlib { cw := c3 }) s.released c3.w
                rw [hrel]; exact WrOk.zlib (z := { cw := c3 }) d2
              chunkTw := fun c' h => by cases h
              zlibTw := fun z _ h0 => by
                have : (c1.setFctlOpt s.fctl).nextFrameInfo.2 = 0 := h0
                omega }

/-- the part of `write` that starts the next image: from any state of the invariant that is not `Unrecoverable` -/
theorem SWInv.beginIfDone (Z : ZCodec) {o : Bool} {s : SW} {w : WState} (h : SWInv o s w)
    (hu : s.wr ≠ .unrecoverable) (hb : Room w 1) :
    ∀ s' r, s.beginIfDone Z = (s', r) → r.isPanic = false ∧ ∃ w', SWInv o s' w' ∧ Tr 1 (r = .ok) w w' ∧
      (r = .ok → 0 < s'.toWrite ∧ ∃ z, s'.wr = .zlib z) := by
  intro s' r hf
  unfold SW.beginIfDone at hf
  have hwr := h.wr
  by_cases htw : s.toWrite = 0
  · rw [if_pos htw] at hf
    cases hw : s.wr with
    | unrecoverable => exact absurd hw hu
    | none => rw [hw] at hwr; exact hwr.none_inv.elim
    | chunk c =>
      rw [hw] at hwr hf
      obtain ⟨hrel, rfl, hc⟩ := hwr.chunk_inv
      simp only at hf
      rw [endZlib_other Z (fun z hz => by rw [hw] at hz; cases hz)] at hf
      simp only at hf
      exact newFrame_ok h.owned hw hrel hc htw h.geo h.copy hb s' r hf
    | zlib z =>
      rw [hw] at hwr hf
      obtain ⟨hrel, rfl, hc⟩ := hwr.zlib_inv
      simp only at hf
      cases he : s.endZlib Z with
      | mk s1 r1 =>
        obtain ⟨a1, wr1, rel1, w1, rfl, a3, a4, a5, a5', a6⟩ := endZlib_zlib Z h.owned hw hrel hc s1 r1 he
        rw [he] at hf
        have hinv1 : SWInv o { s with wr := wr1, released := rel1 } w1 :=
          SWInv.ofEnd h.owned h.geo h.copy a4.static a3 a5 htw
        cases r1 with
        | panic p => cases a1
        | err e =>
          simp only [Prod.mk.injEq] at hf; obtain ⟨rfl, rfl⟩ := hf
          exact ⟨rfl, w1, hinv1, a4.weaken (by omega) (fun h => by cases h), fun h => by cases h⟩
        | ok =>
          simp only at hf
          obtain ⟨c, rfl⟩ := a6 rfl
          have hr1 := a5' c rfl
          subst hr1
          obtain ⟨_, rfl, hc1⟩ := a3.chunk_inv
          obtain ⟨n1, w2, n2, n3, n4⟩ := newFrame_ok (s := { s with wr := .chunk c, released := none }) h.owned rfl rfl hc1 htw
            hinv1.geo hinv1.copy (hb.tr a4 (Nat.le_refl _)) s' r hf
          exact ⟨n1, w2, n2, a4.comp n3 (by omega) (fun h => ⟨rfl, h⟩), n4⟩
  · rw [if_neg htw] at hf
    simp only [Prod.mk.injEq] at hf; obtain ⟨rfl, rfl⟩ := hf
    refine ⟨rfl, w, h, Tr.refl' _, fun _ => ⟨by omega, ?_⟩⟩
    cases hw : s.wr with
    | unrecoverable => exact absurd hw hu
    | none => rw [hw] at hwr; exact hwr.none_inv.elim
    | chunk c => exact absurd (h.chunkTw c hw) htw
    | zlib z => exact ⟨z, rfl⟩

end Png.Enc
