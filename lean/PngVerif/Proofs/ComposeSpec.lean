import PngVerif.Proofs.ComposeDecode
/-!
# The specification side of C01, pixel by pixel

`specPixels` of an interlaced image is `Adam7.deinterlace` of the reconstructed scanlines.  With the theorems of
`Proofs/Adam7.lean` this says, pixel by pixel: pixel `(x, y)` of the result is pixel number `specSrc(x, y).index` of the
reconstructed scanline `(specSrc(x, y).pass, specSrc(x, y).line)` (the placement of section 8.2 of the
specification); bits outside pixel fields (row padding) are those of the buffer before; the pixel bits do not depend
on the buffer before.
-/
namespace Png.Reader
open Png Png.Framing Png.WellFormed

/-! ## the reconstructed scanlines: how many, how long -/

theorem unfilterScanlines_length (unit : Nat) (rb : Nat → Nat) :
    ∀ (ls : List (Nat × Nat × Nat)) (prev S : Bytes), ScanlinesOk rb ls S →
      (unfilterScanlines unit rb ls prev S).length = ls.length := by
  intro ls
  induction ls with
  | nil => intro prev S _; rfl
  | cons x rest ih =>
    intro prev S hok
    obtain ⟨p, l, w⟩ := x
    obtain ⟨_, hhead, hrest⟩ := hok
    obtain ⟨ft, hft⟩ := ofNat?_of_le hhead
    simp only [unfilterScanlines, hft, List.length_cons]
    rw [ih _ _ hrest]

theorem unfilterScanlines_rowlen (unit : Nat) (rb : Nat → Nat) :
    ∀ (ls : List (Nat × Nat × Nat)) (prev S : Bytes), ScanlinesOk rb ls S →
      ∀ x ∈ ls.zip (unfilterScanlines unit rb ls prev S), x.2.length = rb x.1.2.2 := by
  intro ls
  induction ls with
  | nil => intro prev S _ x hx; simp [unfilterScanlines] at hx
  | cons y rest ih =>
    intro prev S hok x hx
    obtain ⟨p, l, w⟩ := y
    obtain ⟨hlen, hhead, hrest⟩ := hok
    obtain ⟨ft, hft⟩ := ofNat?_of_le hhead
    simp only [unfilterScanlines, hft, List.zip_cons_cons, List.mem_cons] at hx
    rcases hx with rfl | hx
    · simp only
      unfold reconRow
      rw [recon_length]
      simp only [List.length_take, List.length_drop]
      omega
    · exact ih _ _ hrest x hx

/-! ## without interlacing: `Png.specRows` of `Model/Unfiltering.lean` -/

/-- a block of `n` scanlines of the same width, lines `k, k+1, …` of one (reduced) image, is reconstructed as
    `specRowsFrom` (the specification `unfiltering_refines` is about) reconstructs the stream -/
theorem unfilterScanlines_uniform (unit : Nat) (rb : Nat → Nat) (p W : Nat) :
    ∀ (n k : Nat) (prev S : Bytes), ScanlinesOk rb ((List.range' k n).map fun l => (p, l, W)) S → (k = 0 → prev = []) →
      unfilterScanlines unit rb ((List.range' k n).map fun l => (p, l, W)) prev S =
        specRowsFrom unit (1 + rb W) prev S := by
  intro n
  induction n with
  | zero =>
    intro k prev S hok _
    simp only [List.range'_zero, List.map_nil, ScanlinesOk] at hok
    subst hok
    simp only [List.range'_zero, List.map_nil, unfilterScanlines]
    rw [specRowsFrom_short]
    simp only [List.length_nil]; omega
  | succ n ih =>
    intro k prev S hok hk
    rw [List.range'_succ, List.map_cons] at hok ⊢
    obtain ⟨hlen, hhead, hrest⟩ := hok
    obtain ⟨ft, hft⟩ := ofNat?_of_le hhead
    rw [specRowsFrom_eq]
    have c : ¬ (1 + rb W = 0 ∨ S.length < 1 + rb W) := by omega
    simp only [unfilterScanlines, hft, c, if_false]
    have hsub : 1 + rb W - 1 = rb W := by omega
    have hp : (if k = 0 then [] else prev) = prev := by
      by_cases h0 : k = 0
      · rw [if_pos h0, hk h0]
      · rw [if_neg h0]
    rw [hsub, hp, ih (k + 1) _ _ hrest (by omega)]

/-- **without interlacing `specScanlines` is `Png.specRows`** of the inflated stream with the filter unit and the raw row
    length of the header: the specification `C01.unfiltering_refines` is stated with -/
theorem specScanlines_eq_specRows (h : Header) (hil : h.interlaced = false) (raw : Bytes) (hraw : RawOk h raw) :
    specScanlines h raw = specRows h.filterUnit (1 + h.rowBytes h.width) raw := by
  have hsc : h.scanlines = (List.range' 0 h.height).map fun l => (0, l, h.width) := by
    simp [Header.scanlines, hil, List.range_eq_range']
  unfold specScanlines RawOk at *
  rw [hsc] at hraw ⊢
  exact unfilterScanlines_uniform h.filterUnit h.rowBytes 0 h.width h.height 0 [] raw hraw (fun _ => rfl)

/-! ## with Adam7: every pass is an image of its own -/

/-- the bytes a list of scanlines takes in the inflated stream -/
def streamSize (rb : Nat → Nat) (ls : List (Nat × Nat × Nat)) : Nat := (ls.map fun x => 1 + rb x.2.2).sum

theorem streamSize_cons (rb : Nat → Nat) (p l w : Nat) (ls : List (Nat × Nat × Nat)) :
    streamSize rb ((p, l, w) :: ls) = 1 + rb w + streamSize rb ls := by simp [streamSize]

theorem streamSize_append (rb : Nat → Nat) (a b : List (Nat × Nat × Nat)) :
    streamSize rb (a ++ b) = streamSize rb a + streamSize rb b := by simp [streamSize]

theorem headD_take (S : Bytes) (n : Nat) (hn : 1 ≤ n) : (S.take n).headD 0 = S.headD 0 := by
  cases S with
  | nil => simp
  | cons a S' =>
    cases n with
    | zero => omega
    | succ n => rfl

/-- a stream of the scanlines `A ++ B` is a stream of `A` followed by a stream of `B` -/
theorem scanlinesOk_append (rb : Nat → Nat) : ∀ (A B : List (Nat × Nat × Nat)) (S : Bytes), ScanlinesOk rb (A ++ B) S →
    streamSize rb A ≤ S.length ∧ ScanlinesOk rb A (S.take (streamSize rb A)) ∧ ScanlinesOk rb B (S.drop (streamSize rb A)) := by
  intro A
  induction A with
  | nil => intro B S h; exact ⟨by simp [streamSize], by simp [streamSize, ScanlinesOk], by simpa [streamSize] using h⟩
  | cons x A ih =>
    intro B S h
    obtain ⟨p, l, w⟩ := x
    obtain ⟨hlen, hhead, hrest⟩ := h
    obtain ⟨i1, i2, i3⟩ := ih B _ hrest
    rw [streamSize_cons]
    simp only [List.length_drop] at i1
    refine ⟨by omega, ⟨?_, ?_, ?_⟩, ?_⟩
    · simp only [List.length_take]; omega
    · rw [headD_take _ _ (by omega)]; exact hhead
    · have : (S.take (1 + rb w + streamSize rb A)).drop (1 + rb w) = (S.drop (1 + rb w)).take (streamSize rb A) := by
        rw [List.drop_take]; congr 1; omega
      rw [this]; exact i2
    · rw [← List.drop_drop]
      exact i3

/-- the reconstruction of the scanlines `A` only looks at their own bytes -/
theorem unfilterScanlines_take (unit : Nat) (rb : Nat → Nat) : ∀ (A : List (Nat × Nat × Nat)) (prev S : Bytes),
    streamSize rb A ≤ S.length →
    unfilterScanlines unit rb A prev (S.take (streamSize rb A)) = unfilterScanlines unit rb A prev S := by
  intro A
  induction A with
  | nil => intro prev S _; rfl
  | cons x A ih =>
    intro prev S hle
    obtain ⟨p, l, w⟩ := x
    rw [streamSize_cons] at hle ⊢
    have hh : (S.take (1 + rb w + streamSize rb A)).headD 0 = S.headD 0 := headD_take _ _ (by omega)
    have hd1 : ((S.take (1 + rb w + streamSize rb A)).drop 1).take (rb w) = (S.drop 1).take (rb w) := by
      rw [List.drop_take, List.take_take]; congr 1; omega
    have hd2 : (S.take (1 + rb w + streamSize rb A)).drop (1 + rb w) = (S.drop (1 + rb w)).take (streamSize rb A) := by
      rw [List.drop_take]; congr 1; omega
    simp only [unfilterScanlines, hh, hd1, hd2]
    cases FilterType.ofNat? (S.headD 0).toNat with
    | none => rfl
    | some ft =>
      dsimp only
      rw [ih _ _ (by simp only [List.length_drop]; omega)]

/-- the first scanline of a pass has no predecessor: the previous scanline does not matter -/
theorem unfilterScanlines_first (unit : Nat) (rb : Nat → Nat) (B : List (Nat × Nat × Nat)) (prev prev' S : Bytes)
    (hB : ∀ x, B.head? = some x → x.2.1 = 0) :
    unfilterScanlines unit rb B prev S = unfilterScanlines unit rb B prev' S := by
  cases B with
  | nil => rfl
  | cons x B =>
    obtain ⟨p, l, w⟩ := x
    have : l = 0 := hB (p, l, w) rfl
    subst this
    simp only [unfilterScanlines, if_true]

theorem unfilterScanlines_append (unit : Nat) (rb : Nat → Nat) : ∀ (A B : List (Nat × Nat × Nat)) (prev prev' S : Bytes),
    ScanlinesOk rb (A ++ B) S → (∀ x, B.head? = some x → x.2.1 = 0) →
    unfilterScanlines unit rb (A ++ B) prev S =
      unfilterScanlines unit rb A prev S ++ unfilterScanlines unit rb B prev' (S.drop (streamSize rb A)) := by
  intro A
  induction A with
  | nil =>
    intro B prev prev' S _ hB
    simp only [List.nil_append, unfilterScanlines, streamSize, List.map_nil, List.sum_nil, List.drop_zero]
    exact unfilterScanlines_first unit rb B prev prev' S hB
  | cons x A ih =>
    intro B prev prev' S hok hB
    obtain ⟨p, l, w⟩ := x
    obtain ⟨_, hhead, hrest⟩ := hok
    obtain ⟨ft, hft⟩ := ofNat?_of_le hhead
    simp only [List.cons_append, unfilterScanlines, hft, streamSize_cons]
    rw [ih B _ prev' _ hrest hB, List.drop_drop]

/-- the bytes of pass `p` in the inflated stream of an interlaced image -/
def passSize (h : Header) (p : Nat) : Nat := streamSize h.rowBytes (Adam7.specPassRows h.width h.height p)

theorem passSize_eq (h : Header) (p : Nat) :
    passSize h p = if Adam7.specPassW h.width p = 0 then 0
      else Adam7.specPassH h.height p * (1 + h.rowBytes (Adam7.specPassW h.width p)) := by
  unfold passSize Adam7.specPassRows
  split
  · rfl
  · simp only [streamSize, List.map_map]
    generalize Adam7.specPassH h.height p = n
    induction n with
    | zero => simp
    | succ n ih => rw [List.range_succ, List.map_append, List.sum_append, ih]; simp [Nat.succ_mul]

/-- the reduced images one after the other: the first `passSize` bytes are the first pass's stream, reconstructed as
    an image of its own with `Png.specRows`; the following passes find theirs in the rest -/
def passScanlines (h : Header) : List Nat → Bytes → List Bytes
  | [], _ => []
  | p :: ps, S =>
    specRows h.filterUnit (1 + h.rowBytes (Adam7.specPassW h.width p)) (S.take (passSize h p)) ++
      passScanlines h ps (S.drop (passSize h p))

theorem specPassRows_head (w hh p : Nat) : ∀ x, (Adam7.specPassRows w hh p).head? = some x → x.2.1 = 0 := by
  intro x hx
  unfold Adam7.specPassRows at hx
  split at hx
  · cases hx
  · cases hH : Adam7.specPassH hh p with
    | zero => rw [hH] at hx; simp at hx
    | succ n =>
      rw [hH, List.range_eq_range', List.range'_succ] at hx
      simp only [List.map_cons, List.head?_cons, Option.some.injEq] at hx
      rw [← hx]

theorem flatMap_passes_head (w hh : Nat) : ∀ (ps : List Nat) x,
    (ps.flatMap (Adam7.specPassRows w hh)).head? = some x → x.2.1 = 0 := by
  intro ps
  induction ps with
  | nil => intro x hx; simp at hx
  | cons p ps ih =>
    intro x hx
    rw [List.flatMap_cons] at hx
    cases hr : Adam7.specPassRows w hh p with
    | nil => rw [hr, List.nil_append] at hx; exact ih x hx
    | cons y ys =>
      rw [hr] at hx
      simp only [List.cons_append, List.head?_cons, Option.some.injEq] at hx
      exact specPassRows_head w hh p x (by rw [hr, ← hx]; rfl)

theorem unfilterScanlines_passes (h : Header) : ∀ (ps : List Nat) (prev S : Bytes),
    ScanlinesOk h.rowBytes (ps.flatMap (Adam7.specPassRows h.width h.height)) S →
    unfilterScanlines h.filterUnit h.rowBytes (ps.flatMap (Adam7.specPassRows h.width h.height)) prev S =
      passScanlines h ps S := by
  intro ps
  induction ps with
  | nil => intro prev S _; rfl
  | cons p ps ih =>
    intro prev S hok
    rw [List.flatMap_cons] at hok ⊢
    obtain ⟨hle, hA, hB⟩ := scanlinesOk_append h.rowBytes _ _ S hok
    rw [unfilterScanlines_append h.filterUnit h.rowBytes _ _ prev [] S hok (flatMap_passes_head _ _ ps)]
    show _ = specRows h.filterUnit (1 + h.rowBytes (Adam7.specPassW h.width p)) (S.take (passSize h p)) ++
      passScanlines h ps (S.drop (passSize h p))
    have hps : streamSize h.rowBytes (Adam7.specPassRows h.width h.height p) = passSize h p := rfl
    rw [hps] at hle hA hB ⊢
    rw [ih [] _ hB]
    congr 1
    -- this pass
    rw [← unfilterScanlines_take h.filterUnit h.rowBytes _ prev S (by rw [hps]; exact hle), hps]
    unfold Adam7.specPassRows at hA ⊢
    split
    · rename_i hw0
      rw [if_pos hw0] at hA
      simp only [ScanlinesOk] at hA
      rw [hA]
      simp only [unfilterScanlines]
      unfold specRows
      rw [specRowsFrom_short]
      simp only [List.length_nil]; omega
    · rename_i hw0
      rw [if_neg hw0] at hA
      rw [List.range_eq_range'] at hA ⊢
      rw [unfilterScanlines_first _ _ _ prev [] _ (by
        intro x hx
        cases hH : Adam7.specPassH h.height p with
        | zero => rw [hH] at hx; simp at hx
        | succ n =>
          rw [hH, List.range'_succ] at hx
          simp only [List.map_cons, List.head?_cons, Option.some.injEq] at hx
          rw [← hx])]
      exact unfilterScanlines_uniform h.filterUnit h.rowBytes p _ _ 0 [] _ hA (fun _ => rfl)

/-- **with Adam7 `specScanlines` reconstructs every pass as an image of its own**: the inflated stream is the streams
    of the seven reduced images one after the other (`passSize` bytes each; nothing for an empty pass), and the
    scanlines of pass `p` are `Png.specRows` of that pass's stream with that pass's row length -/
theorem specScanlines_passes (h : Header) (hil : h.interlaced = true) (raw : Bytes) (hraw : RawOk h raw) :
    specScanlines h raw = passScanlines h [1, 2, 3, 4, 5, 6, 7] raw := by
  have hsc : h.scanlines = [1, 2, 3, 4, 5, 6, 7].flatMap (Adam7.specPassRows h.width h.height) := by
    simp only [Header.scanlines, hil, if_true, Adam7.specRows]
    rfl
  unfold specScanlines RawOk at *
  rw [hsc] at hraw ⊢
  exact unfilterScanlines_passes h [1, 2, 3, 4, 5, 6, 7] [] raw hraw

/-! ## from the list of scanlines to `Adam7.imageRows` -/

/-- the contents of scanline `(pass, line)` in a list of scanlines with contents -/
def rowOf (ls : List (Nat × Nat × Nat)) (rows : List Bytes) (p l : Nat) : Bytes :=
  match (ls.zip rows).find? (fun x => x.1.1 == p && x.1.2.1 == l) with
  | some x => x.2
  | none => []

theorem rowOf_cons_self (a : Nat × Nat × Nat) (ls : List (Nat × Nat × Nat)) (x : Bytes) (rows : List Bytes) :
    rowOf (a :: ls) (x :: rows) a.1 a.2.1 = x := by
  simp [rowOf]

theorem rowOf_cons_ne (a : Nat × Nat × Nat) (ls : List (Nat × Nat × Nat)) (x : Bytes) (rows : List Bytes) (p l : Nat)
    (h : a.1 ≠ p ∨ a.2.1 ≠ l) : rowOf (a :: ls) (x :: rows) p l = rowOf ls rows p l := by
  have : ((a.1 == p) && (a.2.1 == l)) = false := by
    rcases h with h | h
    · simp [h]
    · simp [h]
  simp [rowOf, this]

theorem passRows_eq_map : ∀ (ls : List (Nat × Nat × Nat)) (rows : List Bytes),
    ls.Pairwise (fun a b => a.1 ≠ b.1 ∨ a.2.1 ≠ b.2.1) → rows.length = ls.length →
    passRows ls rows = ls.map fun r => ({ pass := r.1, line := r.2.1, width := r.2.2 }, rowOf ls rows r.1 r.2.1) := by
  intro ls
  induction ls with
  | nil => intro rows _ _; rfl
  | cons a ls ih =>
    intro rows hp hlen
    cases rows with
    | nil => simp at hlen
    | cons x rows =>
      obtain ⟨ha, hp'⟩ := List.pairwise_cons.mp hp
      simp only [passRows, List.zip_cons_cons, List.map_cons, rowOf_cons_self]
      congr 1
      have := ih rows hp' (by simpa using hlen)
      unfold passRows at this
      rw [this]
      apply List.map_congr_left
      intro r hr
      rw [rowOf_cons_ne a ls x rows r.1 r.2.1 (ha r hr)]

/-- the length of the scanline found for a key of the list -/
theorem rowOf_length (rb : Nat → Nat) : ∀ (ls : List (Nat × Nat × Nat)) (rows : List Bytes),
    ls.Pairwise (fun a b => a.1 ≠ b.1 ∨ a.2.1 ≠ b.2.1) → rows.length = ls.length →
    (∀ x ∈ ls.zip rows, x.2.length = rb x.1.2.2) →
    ∀ r ∈ ls, (rowOf ls rows r.1 r.2.1).length = rb r.2.2 := by
  intro ls
  induction ls with
  | nil => intro rows _ _ _ r hr; cases hr
  | cons a ls ih =>
    intro rows hp hlen hz r hr
    cases rows with
    | nil => simp at hlen
    | cons x rows =>
      obtain ⟨ha, hp'⟩ := List.pairwise_cons.mp hp
      rcases List.mem_cons.mp hr with rfl | hr'
      · rw [rowOf_cons_self]
        exact hz (r, x) (by simp)
      · rw [rowOf_cons_ne a ls x rows r.1 r.2.1 (ha r hr')]
        exact ih rows hp' (by simpa using hlen) (fun y hy => hz y (by simp [hy])) r hr'

/-! ## `specPixels` of an interlaced image -/

/-- the reconstructed scanline `line` of pass `pass` -/
def specPassRow (h : Header) (raw : Bytes) (p l : Nat) : Bytes := rowOf h.scanlines (specScanlines h raw) p l

theorem specPassRows_eq_imageRows (h : Header) (hil : h.interlaced = true) (raw : Bytes) (hraw : RawOk h raw) :
    specPassRows h raw = Adam7.imageRows h.width h.height (specPassRow h raw) := by
  have hsc : h.scanlines = Adam7.specRows h.width h.height := by simp [Header.scanlines, hil]
  have hlen := unfilterScanlines_length h.filterUnit h.rowBytes h.scanlines [] raw hraw
  have := passRows_eq_map h.scanlines (specScanlines h raw) (by rw [hsc]; exact Adam7.specRows_pairwise _ _) hlen
  unfold passRows at this
  unfold specPassRows Adam7.imageRows specPassRow
  rw [this, hsc]

/-- **`specPixels` of an interlaced image, pixel by pixel**: for a buffer `bg` of the image's size the
    de-interlacing succeeds and keeps the length; the field of pixel `(x, y)` holds pixel number
    `specSrc(x, y).index` of the reconstructed scanline `specSrc(x, y).(pass, line)`; every bit outside the pixel
    fields (padding at the end of a row) is the bit of `bg` -/
theorem specPixels_interlaced (h : Header) (hv : h.Valid) (hil : h.interlaced = true) (raw : Bytes) (hraw : RawOk h raw)
    (bg : Bytes) (hbg : bg.length = h.bufferSize) :
    ∃ buf, specPixels h raw bg = some buf ∧ buf.length = bg.length ∧
      (∀ x y t, x < h.width → y < h.height → t < h.bitsPerPixel →
        Adam7.bitAt buf (Adam7.pixelBit h.lineSize h.bitsPerPixel x y + t) =
          Adam7.bitAt (specPassRow h raw (Adam7.specSrc x y).1 (Adam7.specSrc x y).2.1)
            ((Adam7.specSrc x y).2.2 * h.bitsPerPixel + t)) ∧
      (∀ k, (∀ x y, x < h.width → y < h.height →
          ¬ (Adam7.pixelBit h.lineSize h.bitsPerPixel x y ≤ k ∧ k < Adam7.pixelBit h.lineSize h.bitsPerPixel x y + h.bitsPerPixel)) →
        Adam7.bitAt buf k = Adam7.bitAt bg k) := by
  obtain ⟨hw1, _, hh1, _, hleg⟩ := hv
  have hd := (legal_pos hleg).2.2
  have hsc : h.scanlines = Adam7.specRows h.width h.height := by simp [Header.scanlines, hil]
  have hstride : h.width * h.bitsPerPixel ≤ h.lineSize * 8 := by
    show _ ≤ h.rowBytes h.width * 8
    rw [rowBytes_eq h hd]; exact rowlen_bits hd
  have hlenrows := unfilterScanlines_length h.filterUnit h.rowBytes h.scanlines [] raw hraw
  have hrl := unfilterScanlines_rowlen h.filterUnit h.rowBytes h.scanlines [] raw hraw
  have hdata : ∀ p l wd, (p, l, wd) ∈ Adam7.specRows h.width h.height →
      wd * h.bitsPerPixel ≤ (specPassRow h raw p l).length * 8 := by
    intro p l wd hm
    have := rowOf_length h.rowBytes h.scanlines (specScanlines h raw)
      (by rw [hsc]; exact Adam7.specRows_pairwise _ _) hlenrows hrl (p, l, wd) (by rw [hsc]; exact hm)
    simp only at this
    unfold specPassRow
    rw [this, rowBytes_eq h hd]
    exact rowlen_bits hd
  have himg : ∀ x y, x < h.width → y < h.height →
      Adam7.pixelBit h.lineSize h.bitsPerPixel x y + h.bitsPerPixel ≤ bg.length * 8 := by
    intro x y hx hy
    apply Adam7.fits_of_length _ x y hx hy
    rw [hbg]
    show _ ≤ h.lineSize * h.height * 8
    have : (h.height - 1) * h.lineSize * 8 + h.lineSize * 8 = h.lineSize * h.height * 8 := by
      rw [← Nat.add_mul, ← Nat.succ_mul, Nat.succ_eq_add_one, Nat.sub_add_cancel hh1, Nat.mul_comm h.height]
    omega
  obtain ⟨img', h1, h2, h3, h4⟩ := Adam7.deinterlace_spec (legal_validBits hleg) h.width h.height h.lineSize bg
    (specPassRow h raw) hstride himg hdata
  refine ⟨img', ?_, h2, h3, h4⟩
  unfold specPixels
  rw [hil, specPassRows_eq_imageRows h hil raw hraw]
  exact h1

/-- **the pixels do not depend on the buffer's previous contents**: `specPixels` into two buffers of the image's size
    agree on every pixel field; they are equal when the rows have no padding bits (`width · bitsPerPixel` a multiple
    of 8), and always for a non-interlaced image -/
theorem specPixels_indep (h : Header) (hv : h.Valid) (raw : Bytes) (hraw : RawOk h raw) (bg1 bg2 : Bytes)
    (h1 : bg1.length = h.bufferSize) (h2 : bg2.length = h.bufferSize) :
    ∃ b1 b2, specPixels h raw bg1 = some b1 ∧ specPixels h raw bg2 = some b2 ∧ b1.length = b2.length ∧
      (∀ x y t, x < h.width → y < h.height → t < h.bitsPerPixel →
        Adam7.bitAt b1 (Adam7.pixelBit h.lineSize h.bitsPerPixel x y + t) =
          Adam7.bitAt b2 (Adam7.pixelBit h.lineSize h.bitsPerPixel x y + t)) ∧
      ((h.interlaced = false ∨ h.width * h.bitsPerPixel = h.lineSize * 8) → b1 = b2) := by
  cases hil : h.interlaced with
  | false =>
    refine ⟨(specScanlines h raw).flatten, (specScanlines h raw).flatten, by simp [specPixels, hil],
      by simp [specPixels, hil], rfl, fun _ _ _ _ _ _ => rfl, fun _ => rfl⟩
  | true =>
    obtain ⟨b1, e1, l1, p1, q1⟩ := specPixels_interlaced h hv hil raw hraw bg1 h1
    obtain ⟨b2, e2, l2, p2, q2⟩ := specPixels_interlaced h hv hil raw hraw bg2 h2
    refine ⟨b1, b2, e1, e2, by omega, fun x y t hx hy ht => by rw [p1 x y t hx hy ht, p2 x y t hx hy ht], ?_⟩
    intro hpk
    rcases hpk with hpk | hpk
    · cases hpk
    · obtain ⟨_, _, _, _, hleg⟩ := hv
      apply Adam7.eq_of_bitAt _ _ (by omega)
      intro k hk
      have hkb : k < h.height * h.lineSize * 8 := by
        rw [l1, h1] at hk
        show k < h.height * h.lineSize * 8
        have : h.bufferSize = h.height * h.lineSize := Nat.mul_comm _ _
        rw [this] at hk; exact hk
      have hvb : Adam7.validBits h.bitsPerPixel := legal_validBits hleg
      obtain ⟨x, y, hx, hy, a, b⟩ := Adam7.packed_cover (Adam7.validBits_pos hvb) hpk hkb
      have e : k = Adam7.pixelBit h.lineSize h.bitsPerPixel x y + (k - Adam7.pixelBit h.lineSize h.bitsPerPixel x y) := by omega
      rw [e, p1 x y _ hx hy (by omega), p2 x y _ hx hy (by omega)]

end Png.Reader
