import PngVerif.Proofs.ReaderRetry
/-!
# Whole runs under truncation and growth (C05)

`resumeRun`: a caller that makes a list of calls on a reader whose input arrives piecewise — when a
call runs out of input the caller waits for more input (the next entry of a growth schedule) and makes
the same call again (`next_frame` with the same buffer).  `resumeRun_spec`: the results other than
`UnexpectedEof` are those of the same calls on a reader that sees the whole input from the start,
provided none of those fails.
-/
namespace Png.Reader
open Png Png.Framing

/-! ## The buffer kept for a retry, continued -/

theorem nextFrameInfo_pending (cfg : Cfg) (t : TCfg) (r : R) : (nextFrameInfo cfg t r).1.pendingBuf = r.pendingBuf := by
  have htail : ∀ x : R, (nfiTail cfg t x).1.pendingBuf = x.pendingBuf := by
    intro x
    unfold nfiTail
    have h := readUntilImageData_pending cfg t x
    generalize readUntilImageData cfg t x = o at h
    obtain ⟨r2, res⟩ := o
    cases res with
    | error e => exact h
    | ok u => simp only; split <;> exact h
  by_cases h0 : rfOf r = 0
  · rw [nextFrameInfo_end cfg t r h0]
  · cases hcaf : r.sub.caf with
    | true =>
      have hrem : r.remaining ≠ 0 := by unfold rfOf at h0; rw [hcaf] at h0; exact h0
      rw [nextFrameInfo_caf cfg t r hcaf hrem]; exact htail r
    | false =>
      have hrem : r.remaining - 1 ≠ 0 := by unfold rfOf at h0; rw [hcaf] at h0; simpa using h0
      rw [nextFrameInfo_ncaf cfg t r hcaf hrem]
      have h := finishDecoding_pending cfg { r with sub := { r.sub with cur := none } }
      generalize finishDecoding cfg { r with sub := { r.sub with cur := none } } = o at h
      obtain ⟨r1, res⟩ := o
      cases res with
      | error e => exact h
      | ok u => cases u; simp only; exact (htail r1).trans h

theorem finish_pending (cfg : Cfg) (r : R) : (finish cfg r).1.pendingBuf = r.pendingBuf := by
  unfold finish
  split
  · rfl
  · simp only
    rw [readUntilEndOfInput_gloop]
    have h := gloop_preserve cfg bodyEnd (fun r => r.pendingBuf) (fun _ _ h => by cases h) (fun _ => rfl)
      (decodeNext'_pending cfg) (fun r ev data => by cases ev <;> rfl)
      (fuelOf ({ r with remaining := 0, ub := UB.new, sub := { r.sub with cur := none, caf := true } } : R))
      ({ r with remaining := 0, ub := UB.new, sub := { r.sub with cur := none, caf := true } } : R)
    generalize gloop cfg bodyEnd (fuelOf ({ r with remaining := 0, ub := UB.new, sub := { r.sub with cur := none, caf := true } } : R))
      ({ r with remaining := 0, ub := UB.new, sub := { r.sub with cur := none, caf := true } } : R) = o at h
    obtain ⟨r1, res⟩ := o
    cases res <;> exact h

/-! ## Every call of a `Reader` is resumable, up to `Sim` -/

theorem outSim_of_opResumeEq {x y : R × Res} (h : OpResumeEq x y) (hy : y.2.isFatal = false) : OutSim x y := by
  rcases h with rfl | ⟨ra, rb, e, rfl, rfl, h3, h4⟩
  · exact ⟨rfl, Sim.refl _⟩
  · simp only at hy
    rw [isFatal_of_isErr h3 h4] at hy; cases hy

/-- **every call of a `Reader` is resumable**: a call that ran out of input, made again after the input
    grew (`next_frame`: with the same buffer), returns what the same call returns on the grown input from
    the state before the failed call, and leaves a `Sim`-related reader — provided that call does not
    fail fatally -/
theorem step_resumable (cfg : Cfg) (hI : cfg.InflateOk) {t : TCfg} (ht : t.Ok) (hst : t.Stable) (r r1 : R) (op : Op)
    (w : String) (v' : Nat) (hInv : Inv t r) (hr : r.isReader = true) (hd : r.dead = false) (hop : op.isCall = true)
    (hv : r.visible ≤ v') (h : step cfg t r op = (r1, .err .eof w))
    (hy : (step cfg t (growTo r v') op).2.isFatal = false) :
    OutSim (step cfg t (growTo r1 v') op) (step cfg t (growTo r v') op) := by
  have hR : RInv t r := Or.inr (Or.inl ⟨hd, hr, hInv⟩)
  have hsp := step_spec cfg ht r op hR (fun hc => by rw [hc] at hop; cases hop)
  have hr1 : r1.isReader = true := by
    have := hsp.2.2 (fun hc => by rw [hc] at hop; cases hop)
    rw [h] at this; exact this.trans hr
  obtain ⟨e1, e2, e3, e4, e5⟩ := step_reader cfg t r hr
  obtain ⟨g1, g2, g3, g4, g5⟩ := step_reader cfg t (growTo r v') hr
  obtain ⟨k1, k2, k3, k4, k5⟩ := step_reader cfg t (growTo r1 v') hr1
  have hIp : Inv t ({ r with pendingBuf := none } : R) := hInv.setPending none
  have hgp : ({ growTo r v' with pendingBuf := none } : R) = growTo { r with pendingBuf := none } v' := rfl
  have hnone : ∀ x : R, x.pendingBuf = none → ({ growTo x v' with pendingBuf := none } : R) = growTo x v' := by
    intro x hx
    show growTo ({ x with pendingBuf := none } : R) v' = _
    rw [setPending_id x hx]
  cases op with
  | nextFrame p =>
    rw [e1] at h
    rw [g1] at hy ⊢
    rw [k1]
    obtain ⟨a, b⟩ := nextFrameOp_resumable cfg hI ht hst r r1 p w v' hInv hv h hy
    exact ⟨a, b⟩
  | nextRow =>
    rw [e2] at h
    rw [g2, hgp] at hy ⊢
    obtain ⟨i, hi, _⟩ := hIp.info
    have hp : r1.pendingBuf = none := by
      have := nextInterlacedRow_pending cfg t { r with pendingBuf := none }
      rw [h] at this; exact this
    rw [k2, hnone r1 hp]
    exact outSim_of_opResumeEq (nextInterlacedRow_resumable cfg hI ht _ r1 i w v' hIp hi hv h) hy
  | readRow =>
    obtain ⟨i, hi, hg⟩ := hInv.info
    have hleg := hInv.base.dinv.legal i hi
    rw [e3, show infoOf r = some i from hi] at h
    simp only at h
    have hig : infoOf (growTo r v') = some i := hi
    rw [g3, hig] at hy ⊢
    simp only at hy ⊢
    rw [hgp] at hy ⊢
    have hbuf : outLineSize t i ({ r with pendingBuf := none } : R).flags ({ r with pendingBuf := none } : R).sub.width ≤
        outLineSize t i r.flags i.width := outLineSize_mono ht hleg r.flags hg.wW
    have hspr := readRow_spec cfg ht { r with pendingBuf := none } (outLineSize t i r.flags i.width) i hIp hi hbuf
    rw [h] at hspr
    obtain ⟨_, hK, _, _⟩ := hspr
    have hi1 : infoOf (growTo r1 v') = some i := hK.info.trans hi
    have hf1 : (growTo r1 v').flags = r.flags := hK.flags
    have hp : r1.pendingBuf = none := by
      have := readRow_pending cfg t { r with pendingBuf := none } (outLineSize t i r.flags i.width)
      rw [h] at this; exact this
    rw [k3, hi1]
    simp only
    rw [hnone r1 hp, hf1]
    exact outSim_of_opResumeEq (readRow_resumable cfg hI ht _ r1 _ i w v' hIp hi hbuf hv h) hy
  | nextFrameInfo =>
    rw [e4] at h
    rw [g4, hgp] at hy ⊢
    have hp : r1.pendingBuf = none := by
      have := nextFrameInfo_pending cfg t { r with pendingBuf := none }
      rw [h] at this; exact this
    rw [k4, hnone r1 hp]
    exact outSim_of_opResumeEq (nextFrameInfo_resumable cfg hI _ r1 w v' hIp hv h) hy
  | finish =>
    rw [e5] at h
    rw [g5, hgp] at hy ⊢
    have hp : r1.pendingBuf = none := by
      have := finish_pending cfg { r with pendingBuf := none }
      rw [h] at this; exact this
    have hfin : ({ r with pendingBuf := none } : R).finished = false := by
      cases hf : r.finished with
      | false => rfl
      | true =>
        unfold finish at h
        have hf' : ({ r with pendingBuf := none } : R).finished = true := hf
        rw [hf'] at h
        simp at h
    rw [k5, hnone r1 hp]
    exact outSim_of_opResumeEq (finish_resumable cfg hI _ r1 w v' hIp hfin hv h) hy
  | _ => cases hop

/-! ## No call changes how much of the input is visible -/

theorem decodeNext'_vis (cfg : Cfg) (r : R) : (decodeNext' cfg r).1.visible = r.visible := by
  rw [decodeNext'_withStream]; rfl

theorem markFlushed_vis {r r3 : R} (h : markFlushed r = .ok r3) : r3.visible = r.visible := by
  unfold markFlushed at h
  split at h
  · cases h
  · cases h; rfl

theorem nextRawRow_vis (cfg : Cfg) (rowlen fuel : Nat) (r : R) :
    (nextRawRow cfg rowlen fuel r).1.visible = r.visible := by
  rw [nextRawRow_gloop]
  apply gloop_preserve cfg (bodyRaw rowlen) (fun r => r.visible)
  · intro r x h
    simp only [bodyRaw] at h
    split at h
    · split at h
      · simp only [Option.some.injEq] at h; subst h; rfl
      · cases h
    · simp only [Option.some.injEq] at h; subst h
      cases r.ub.unfilterCurr rowlen r.bpp <;> rfl
  · intro r; rfl
  · exact decodeNext'_vis cfg
  · intro r ev data
    simp only [bodyRaw, rawPost]
    cases ev <;> simp only <;> first
      | rfl
      | (cases hm : markFlushed { r with ub := r.ub.extend data } with
         | error e => rfl
         | ok r3 => exact (markFlushed_vis hm).trans rfl)

theorem finishDecodingImageData_vis (cfg : Cfg) (fuel : Nat) (r : R) :
    (finishDecodingImageData cfg fuel r).1.visible = r.visible := by
  rw [finishDecodingImageData_gloop]
  apply gloop_preserve cfg bodyFinish (fun r => r.visible)
  · intro r x h; cases h
  · intro r; rfl
  · exact decodeNext'_vis cfg
  · intro r ev data
    simp only [bodyFinish]
    cases ev <;> rfl

theorem nextRowImpl_vis (cfg : Cfg) (t : TCfg) (r : R) (rowlen outLen : Nat) :
    (nextRowImpl cfg t r rowlen outLen).1.visible = r.visible := by
  rw [nextRowImpl_post]
  have h := nextRawRow_vis cfg rowlen (fuelOf r) r
  generalize nextRawRow cfg rowlen (fuelOf r) r = out at h
  obtain ⟨r', res⟩ := out
  simp only at h
  unfold rowImplPost
  cases res with
  | error e => exact h
  | ok u =>
    simp only
    split
    · exact h
    · cases infoOf r' with
      | none => exact h
      | some i =>
        simp only
        cases hg : getTransform t r' i with
        | error e => exact h
        | ok p =>
          obtain ⟨r2, snap⟩ := p
          obtain ⟨c, hc⟩ := getTransform_cached t r' i r2 snap hg
          subst hc
          simp only
          split <;> exact h

theorem finishDecoding_vis (cfg : Cfg) (r : R) : (finishDecoding cfg r).1.visible = r.visible := by
  unfold finishDecoding
  split
  · rfl
  · split
    · rfl
    · have h := finishDecodingImageData_vis cfg (fuelOf r) r
      generalize finishDecodingImageData cfg (fuelOf r) r = out at h
      obtain ⟨r', res⟩ := out
      cases res with
      | error e => exact h
      | ok u =>
        simp only at h ⊢
        cases hm : markFlushed r' with
        | error e => exact h
        | ok r2 => simp only; rw [markFlushed_vis hm]; exact h

theorem readRow_vis (cfg : Cfg) (t : TCfg) (r : R) (bufLen : Nat) :
    (readRow cfg t r bufLen).1.visible = r.visible := by
  cases hcur : r.sub.cur with
  | none =>
    unfold readRow
    rw [hcur]
    simp only
    have h := finishDecoding_vis cfg r
    generalize finishDecoding cfg r = out at h
    obtain ⟨r', res⟩ := out
    cases res <;> exact h
  | some ii =>
    rw [readRow_some cfg t r bufLen ii hcur]
    generalize hr0 : (if ii.line = 0 then { r with ub := r.ub.resetPrev } else r) = r0
    have h0 : r0.visible = r.visible := by subst hr0; split <;> rfl
    cases infoOf r0 with
    | none => exact h0
    | some i =>
      simp only
      split
      · exact h0
      · have h := nextRowImpl_vis cfg t r0 (rowlenOf i.color i.depth r0.sub ii) (lineSizeFor t r0 i ii)
        generalize nextRowImpl cfg t r0 (rowlenOf i.color i.depth r0.sub ii) (lineSizeFor t r0 i ii) = out at h
        obtain ⟨r', res⟩ := out
        cases res <;> exact h.trans h0

theorem nextInterlacedRow_vis (cfg : Cfg) (t : TCfg) (r : R) :
    (nextInterlacedRow cfg t r).1.visible = r.visible := by
  unfold nextInterlacedRow
  cases infoOf r with
  | none => rfl
  | some i =>
    simp only
    exact (readRow_vis cfg t _ _).trans rfl

theorem frameRows_vis (cfg : Cfg) (t : TCfg) (lineSize : Nat) : ∀ (n k : Nat) (r : R) (buf : Bytes),
    (frameRows cfg t lineSize n k r buf).1.visible = r.visible := by
  intro n
  induction n with
  | zero => intro k r buf; rfl
  | succ n ih =>
    intro k r buf
    by_cases hfit : (k + 1) * lineSize > buf.length
    · rw [frameRows, if_pos hfit]
    · rw [frameRows_succ cfg t lineSize n k r buf hfit]
      have h := nextRowImpl_vis cfg t r r.sub.rowlen lineSize
      generalize nextRowImpl cfg t r r.sub.rowlen lineSize = o at h
      obtain ⟨r1, res⟩ := o
      cases res with
      | error e => exact h
      | ok out => simp only [rowsK]; exact (ih _ _ _).trans h

theorem frameInterlaced_vis (cfg : Cfg) (t : TCfg) (stride bitsPP : Nat) : ∀ (fuel : Nat) (r : R) (buf : Bytes),
    (frameInterlaced cfg t stride bitsPP fuel r buf).1.visible = r.visible := by
  intro fuel
  induction fuel with
  | zero => intro r buf; rfl
  | succ fuel ih =>
    intro r buf
    rw [frameInterlaced_succ]
    have h := nextInterlacedRow_vis cfg t r
    generalize nextInterlacedRow cfg t r = o at h
    obtain ⟨r1, res⟩ := o
    cases res with
    | row ii data =>
      cases ii with
      | null l => exact h
      | adam7 p l w =>
        simp only [intK]
        cases Adam7.expandPass buf stride data { pass := p, line := l, width := w } bitsPP with
        | none => exact h
        | some buf' => exact (ih _ _).trans h
    | _ => exact h

theorem frameInto_vis (cfg : Cfg) (t : TCfg) (r : R) (buf : Bytes) :
    (frameInto cfg t r buf).1.visible = r.visible := by
  cases hio : infoOf r with
  | none => unfold frameInto; rw [hio]
  | some i =>
    by_cases hneed : buf.length < outLineSize t i r.flags i.width * i.height
    · rw [frameInto_short cfg t r buf i hio hneed]
    · rw [frameInto_eq cfg t r buf i hio hneed]
      have hb : (frameBody cfg t r i.interlaced (outLineSize t i r.flags r.sub.width)
          (samplesOf (t.outColorDepth i r.flags).1 * (t.outColorDepth i r.flags).2) buf).1.visible = r.visible := by
        unfold frameBody
        split
        · exact frameInterlaced_vis cfg t _ _ _ _ _
        · simp only
          split
          · rfl
          · exact frameRows_vis cfg t _ _ _ _ _
      generalize frameBody cfg t r i.interlaced (outLineSize t i r.flags r.sub.width)
        (samplesOf (t.outColorDepth i r.flags).1 * (t.outColorDepth i r.flags).2) buf = o at hb
      obtain ⟨r2, buf2, res2⟩ := o
      cases res2 with
      | some e => exact hb
      | none =>
        simp only [intoK]
        have h2 := finishDecoding_vis cfg r2
        generalize finishDecoding cfg r2 = o2 at h2
        obtain ⟨r3, res3⟩ := o2
        cases res3 <;> exact h2.trans hb

theorem readUntilImageData_vis (cfg : Cfg) (t : TCfg) (r : R) :
    (readUntilImageData cfg t r).1.visible = r.visible := by
  rw [readUntilImageData_post]
  have h : (rdReadUntilImageData cfg (fuelOf r) r).1.visible = r.visible := by
    rw [rdReadUntilImageData_gloop]
    exact gloop_preserve cfg bodyUntil (fun r => r.visible) (fun _ _ h => by cases h) (fun _ => rfl)
      (decodeNext'_vis cfg) (fun r ev data => by
        simp only [bodyUntil]
        cases data.isEmpty with
        | false => rfl
        | true =>
          simp only [if_true]
          cases ev with
          | chunkBegin l ty =>
            simp only
            by_cases ht : ty = IDAT ∨ ty = fdAT
            · simp only [ht, if_true]
            · simp only [ht, if_false]
          | _ => rfl) _ _
  generalize rdReadUntilImageData cfg (fuelOf r) r = o at h
  obtain ⟨r1, res⟩ := o
  cases res with
  | error e => exact h
  | ok u =>
    unfold untilPost
    simp only
    cases infoOf r1 with
    | none => exact h
    | some i =>
      simp only
      rcases reserveBytes_cases r1 (outLineSize t i r1.flags (Sub.new i).width) with hr | hr
      · rw [hr]; exact h
      · rw [hr]
        simp only
        cases bppFromUsize (bytesPerPixel i.color i.depth) <;> exact h

theorem nextFrameBuf_vis (cfg : Cfg) (t : TCfg) (r : R) (buf : Bytes) :
    (nextFrameBuf cfg t r buf).1.visible = r.visible := by
  rcases inside_cases r with hin | ⟨hcur, hrem⟩ | ⟨hcur, hrem, hcaf⟩
  · rw [nextFrameBuf_of_inside cfg t r buf hin]; exact frameInto_vis cfg t r buf
  · rw [nextFrameBuf_polled cfg t r buf hcur hrem]
  · cases hcaf' : r.sub.caf with
    | false => rw [hcaf] at hcaf'; cases hcaf'
    | true =>
      rw [nextFrameBuf_caf cfg t r buf hcur hrem hcaf]
      have h := readUntilImageData_vis cfg t r
      generalize readUntilImageData cfg t r = o at h
      obtain ⟨r1, res⟩ := o
      cases res with
      | error e => exact h
      | ok u => cases u; simp only [advK]; exact (frameInto_vis cfg t r1 buf).trans h

theorem nextFrameInfo_vis (cfg : Cfg) (t : TCfg) (r : R) : (nextFrameInfo cfg t r).1.visible = r.visible := by
  have htail : ∀ x : R, (nfiTail cfg t x).1.visible = x.visible := by
    intro x
    unfold nfiTail
    have h := readUntilImageData_vis cfg t x
    generalize readUntilImageData cfg t x = o at h
    obtain ⟨r2, res⟩ := o
    cases res with
    | error e => exact h
    | ok u => simp only; split <;> exact h
  by_cases h0 : rfOf r = 0
  · rw [nextFrameInfo_end cfg t r h0]
  · cases hcaf : r.sub.caf with
    | true =>
      have hrem : r.remaining ≠ 0 := by unfold rfOf at h0; rw [hcaf] at h0; exact h0
      rw [nextFrameInfo_caf cfg t r hcaf hrem]; exact htail r
    | false =>
      have hrem : r.remaining - 1 ≠ 0 := by unfold rfOf at h0; rw [hcaf] at h0; simpa using h0
      rw [nextFrameInfo_ncaf cfg t r hcaf hrem]
      have h := finishDecoding_vis cfg { r with sub := { r.sub with cur := none } }
      generalize finishDecoding cfg { r with sub := { r.sub with cur := none } } = o at h
      obtain ⟨r1, res⟩ := o
      cases res with
      | error e => exact h
      | ok u => cases u; simp only; exact (htail r1).trans h

theorem finish_vis (cfg : Cfg) (r : R) : (finish cfg r).1.visible = r.visible := by
  unfold finish
  split
  · rfl
  · simp only
    rw [readUntilEndOfInput_gloop]
    have h := gloop_preserve cfg bodyEnd (fun r => r.visible) (fun _ _ h => by cases h) (fun _ => rfl)
      (decodeNext'_vis cfg) (fun r ev data => by cases ev <;> rfl)
      (fuelOf ({ r with remaining := 0, ub := UB.new, sub := { r.sub with cur := none, caf := true } } : R))
      ({ r with remaining := 0, ub := UB.new, sub := { r.sub with cur := none, caf := true } } : R)
    generalize gloop cfg bodyEnd (fuelOf ({ r with remaining := 0, ub := UB.new, sub := { r.sub with cur := none, caf := true } } : R))
      ({ r with remaining := 0, ub := UB.new, sub := { r.sub with cur := none, caf := true } } : R) = o at h
    obtain ⟨r1, res⟩ := o
    cases res <;> exact h


theorem step_vis (cfg : Cfg) (t : TCfg) (r : R) (op : Op) (hr : r.isReader = true) (hop : op.isCall = true) :
    (step cfg t r op).1.visible = r.visible := by
  obtain ⟨e1, e2, e3, e4, e5⟩ := step_reader cfg t r hr
  cases op with
  | nextFrame p =>
    rw [e1]
    cases hio : infoOf r with
    | none => unfold nextFrameOp; rw [hio]
    | some i =>
      obtain ⟨E, x, b, hout⟩ : ∃ E x b, nextFrameBuf cfg t { r with pendingBuf := none }
          (callerBuf r (outLineSize t i r.flags i.width * i.height) p) = (E, x, b) := ⟨_, _, _, rfl⟩
      have hv := nextFrameBuf_vis cfg t { r with pendingBuf := none } (callerBuf r (outLineSize t i r.flags i.width * i.height) p)
      rw [hout] at hv
      rw [nextFrameOp_of cfg t r p i hio E x b hout]
      simp only
      split <;> exact hv
  | nextRow => rw [e2]; exact nextInterlacedRow_vis cfg t _
  | readRow =>
    rw [e3]
    cases infoOf r with
    | none => rfl
    | some i => exact readRow_vis cfg t _ _
  | nextFrameInfo => rw [e4]; exact nextFrameInfo_vis cfg t _
  | finish => rw [e5]; exact finish_vis cfg _
  | _ => cases hop

/-! ## Lagging readers, for whole runs -/

/-- `B` sees `L` bytes and is `A` (which sees `v ≤ L` bytes) after some more pulls -/
def LagSome (cfg : Cfg) (v L : Nat) (A B : R) : Prop := ∃ n, Lag cfg v L n A B

theorem LagLe.some {cfg : Cfg} {v L m : Nat} {A B : R} (h : LagLe cfg v L m A B) : LagSome cfg v L A B := by
  obtain ⟨n0, h1, _⟩ := h; exact ⟨n0, h1⟩

theorem LagSome.le {cfg : Cfg} {v L : Nat} {A B : R} (h : LagSome cfg v L A B) : ∃ m, LagLe cfg v L m A B := by
  obtain ⟨n, h1⟩ := h; exact ⟨n, n, h1, fun _ => Nat.le_refl _⟩

theorem LagSome.grow {cfg : Cfg} {v L : Nat} {A B : R} (h : LagSome cfg v L A B) (v' : Nat) (hv' : v' ≤ L) :
    LagSome cfg v' L (growTo A v') B := by
  obtain ⟨n, _, _, hb⟩ := h
  exact ⟨n, rfl, hv', hb⟩

theorem LagSome.simLeft {cfg : Cfg} {v L : Nat} {A A' B : R} (h : LagSome cfg v L A B) (hs : Sim A' A) :
    LagSome cfg v L A' B := by
  obtain ⟨n, hv, hL, hb⟩ := h
  exact ⟨n, hs.fields.2.2.2.1.symm.trans hv, hL, hb.simLeft ((hs.growTo L).symm)⟩

/-- a successful result -/
def Res.isGood (x : Res) : Bool := !x.isEof && !x.isFatal

/-- **monotonicity of a call in the visible prefix**: if the call on the reader that sees everything
    succeeds, the call on the reader that sees less runs out of input or returns the same -/
theorem step_mono (cfg : Cfg) (hI : cfg.InflateOk) {t : TCfg} (ht : t.Ok) {v L : Nat} {A B : R}
    (hl : LagSome cfg v L A B) (hInv : Inv t A) (hr : A.isReader = true) (hd : A.dead = false) (op : Op)
    (hop : op.isCall = true) (hy : (step cfg t B op).2.isGood = true) :
    (step cfg t A op).2.isFatal = false ∧
    ((step cfg t A op).2.isEof = false → (step cfg t A op).2 = (step cfg t B op).2 ∧
      LagSome cfg v L (step cfg t A op).1 (step cfg t B op).1) ∧
    (v = L → (step cfg t A op).2.isEof = false) := by
  obtain ⟨m, hle⟩ := hl.le
  have hopg : ∀ n, op ≠ .grow n := fun n hc => by rw [hc] at hop; cases hop
  simp only [Res.isGood, Bool.and_eq_true, Bool.not_eq_true'] at hy
  have hlag := step_lag cfg hI ht hle hInv hr hd op hopg
  have h2 : (step cfg t A op).2.isEof = false → (step cfg t A op).2 = (step cfg t B op).2 ∧
      LagSome cfg v L (step cfg t A op).1 (step cfg t B op).1 := by
    intro hne
    obtain ⟨g1, g2⟩ := hlag (Or.inr ⟨hne, hy.2⟩)
    exact ⟨g1, g2.some⟩
  refine ⟨?_, h2, ?_⟩
  · cases he : (step cfg t A op).2.isEof with
    | false => rw [(h2 he).1]; exact hy.2
    | true =>
      generalize (step cfg t A op).2 = x at he
      cases x with
      | err c w => cases c <;> first | rfl | cases he
      | _ => cases he
  · intro hvL
    obtain ⟨g1, _⟩ := hlag (Or.inl hvL)
    rw [g1]; exact hy.1

/-! ## The caller that retries -/

/-- make the calls `ops` until one runs out of input: the reader then, the results so far, the calls that
    remain (beginning with the one that ran out of input) -/
def runUntilEof (cfg : Cfg) (t : TCfg) : List Op → R → R × List Res × List Op
  | [], r => (r, [], [])
  | op :: ops, r =>
    if (step cfg t r op).2.isEof = true then ((step cfg t r op).1, [], op :: ops)
    else ((runUntilEof cfg t ops (step cfg t r op).1).1, (step cfg t r op).2 :: (runUntilEof cfg t ops (step cfg t r op).1).2.1,
      (runUntilEof cfg t ops (step cfg t r op).1).2.2)

/-- **the caller that retries**: make the calls `ops`; whenever a call runs out of input, wait until the
    next `g` bytes of the schedule arrived (never more than `L` bytes in all) and make the same call
    again.  The results other than `UnexpectedEof`, until the schedule is used up. -/
def resumeRun (cfg : Cfg) (t : TCfg) (L : Nat) : List Nat → List Op → R → List Res
  | [], ops, r => (runUntilEof cfg t ops r).2.1
  | g :: sched, ops, r =>
    (runUntilEof cfg t ops r).2.1 ++
      resumeRun cfg t L sched (runUntilEof cfg t ops r).2.2
        (growTo (runUntilEof cfg t ops r).1 (min L ((runUntilEof cfg t ops r).1.visible + g)))

/-- the state of the retrying caller before the call `op`: `A0` is the reader before the first attempt
    (lagging behind `B`, the reader that sees everything), `A` the reader now — what the call returns
    from `A` with any more input visible, it returns from `A0` -/
structure Mid (cfg : Cfg) (t : TCfg) (L : Nat) (A B : R) (op : Op) : Prop where
  inv : Inv t A
  reader : A.isReader = true
  alive : A.dead = false
  le : A.visible ≤ L
  first : ∃ A0, Inv t A0 ∧ A0.isReader = true ∧ A0.dead = false ∧ A0.visible ≤ A.visible ∧
    LagSome cfg A0.visible L A0 B ∧
    ∀ v', A.visible ≤ v' → v' ≤ L → (step cfg t (growTo A0 v') op).2.isFatal = false →
      OutSim (step cfg t (growTo A v') op) (step cfg t (growTo A0 v') op)

/-- before the first attempt -/
theorem Mid.start {cfg : Cfg} {t : TCfg} {L : Nat} {A B : R} (hI : Inv t A) (hr : A.isReader = true) (hd : A.dead = false)
    (hl : LagSome cfg A.visible L A B) (op : Op) : Mid cfg t L A B op := by
  obtain ⟨n, _, hL, _⟩ := hl
  exact ⟨hI, hr, hd, hL, A, hI, hr, hd, Nat.le_refl _, ⟨n, rfl, hL, by assumption⟩, fun _ _ _ _ => ⟨rfl, Sim.refl _⟩⟩

/-- more input arrived -/
theorem Mid.grow {cfg : Cfg} {t : TCfg} {L : Nat} {A B : R} {op : Op} (h : Mid cfg t L A B op) (v1 : Nat)
    (h1 : A.visible ≤ v1) (h2 : v1 ≤ L) : Mid cfg t L (growTo A v1) B op := by
  obtain ⟨A0, a1, a2, a3, a4, a5, a6⟩ := h.first
  refine ⟨h.inv.growTo h1, h.reader, h.alive, h2, A0, a1, a2, a3, Nat.le_trans a4 h1, a5, ?_⟩
  intro v' hv' hL hf
  exact a6 v' (Nat.le_trans h1 hv') hL hf

def JSt (cfg : Cfg) (t : TCfg) (L : Nat) (A B : R) : List Op → Prop
  | [] => A.visible ≤ L
  | op :: _ => Mid cfg t L A B op

theorem JSt.le {cfg : Cfg} {t : TCfg} {L : Nat} {A B : R} {ops : List Op} (h : JSt cfg t L A B ops) : A.visible ≤ L := by
  cases ops with
  | nil => exact h
  | cons op ops => exact Mid.le h

theorem JSt.grow {cfg : Cfg} {t : TCfg} {L : Nat} {A B : R} {ops : List Op} (h : JSt cfg t L A B ops) (v1 : Nat)
    (h1 : A.visible ≤ v1) (h2 : v1 ≤ L) : JSt cfg t L (growTo A v1) B ops := by
  cases ops with
  | nil => exact h2
  | cons op ops => exact Mid.grow h v1 h1 h2

theorem isEof_eq {x : Res} (h : x.isEof = true) : ∃ w, x = .err .eof w := by
  cases x with
  | err c w => cases c <;> first | exact ⟨w, rfl⟩ | cases h
  | _ => cases h

/-- **the calls until one runs out of input** against the calls on the reader that sees everything -/
theorem runUntilEof_spec (cfg : Cfg) (hI : cfg.InflateOk) {t : TCfg} (ht : t.Ok) (hst : t.Stable) (L : Nat) :
    ∀ (ops : List Op) (A B : R), JSt cfg t L A B ops → (∀ op ∈ ops, op.isCall = true) →
    (∀ x ∈ (run cfg t B ops).2, x.isGood = true) →
    ∃ B', (run cfg t B ops).2 = (runUntilEof cfg t ops A).2.1 ++ (run cfg t B' (runUntilEof cfg t ops A).2.2).2 ∧
      JSt cfg t L (runUntilEof cfg t ops A).1 B' (runUntilEof cfg t ops A).2.2 ∧
      (∀ op ∈ (runUntilEof cfg t ops A).2.2, op.isCall = true) ∧
      (∀ x ∈ (run cfg t B' (runUntilEof cfg t ops A).2.2).2, x.isGood = true) ∧
      (runUntilEof cfg t ops A).1.visible = A.visible ∧
      (A.visible = L → (runUntilEof cfg t ops A).2.2 = []) := by
  intro ops
  induction ops with
  | nil =>
    intro A B hJ hc hg
    exact ⟨B, rfl, hJ, hc, hg, rfl, fun _ => rfl⟩
  | cons op rest ih =>
    intro A B hJ hc hg
    have hJ' : Mid cfg t L A B op := hJ
    obtain ⟨A0, a1, a2, a3, a4, a5, a6⟩ := hJ'.first
    have hop : op.isCall = true := hc op List.mem_cons_self
    rw [run_cons] at hg ⊢
    have hy : (step cfg t B op).2.isGood = true := hg _ List.mem_cons_self
    -- the first attempt, with as much visible as now
    have hl0 : LagSome cfg A.visible L (growTo A0 A.visible) B := a5.grow A.visible hJ'.le
    have hI0 : Inv t (growTo A0 A.visible) := a1.growTo a4
    obtain ⟨m1, m2, m3⟩ := step_mono cfg hI ht hl0 hI0 a2 a3 op hop hy
    have hP := a6 A.visible (Nat.le_refl _) hJ'.le m1
    rw [growTo_visible A rfl] at hP
    obtain ⟨p1, p2⟩ := hP
    have hR : RInv t A := Or.inr (Or.inl ⟨hJ'.alive, hJ'.reader, hJ'.inv⟩)
    have hsp := step_spec cfg ht A op hR (fun hc => by rw [hc] at hop; cases hop)
    have hr1 : (step cfg t A op).1.isReader = true :=
      (hsp.2.2 (fun hc => by rw [hc] at hop; cases hop)).trans hJ'.reader
    have hI1 : Inv t (step cfg t A op).1 ∧ (step cfg t A op).1.dead = false := by
      rcases hsp.1 with ⟨_, h2⟩ | ⟨h1, _, h3⟩ | ⟨_, h2, _⟩
      · rw [hr1] at h2; cases h2
      · exact ⟨h3, h1⟩
      · rw [hr1] at h2; cases h2
    have hv1 : (step cfg t A op).1.visible = A.visible := step_vis cfg t A op hJ'.reader hop
    cases he : (step cfg t A op).2.isEof with
    | true =>
      -- the call ran out of input
      have hru : runUntilEof cfg t (op :: rest) A = ((step cfg t A op).1, [], op :: rest) := by
        rw [runUntilEof, if_pos he]
      rw [hru]
      obtain ⟨w, hw⟩ := isEof_eq he
      refine ⟨B, by simp only [List.nil_append]; rw [run_cons], ?_, hc, by rw [run_cons]; exact hg, hv1, ?_⟩
      · show Mid cfg t L (step cfg t A op).1 B op
        refine ⟨hI1.1, hr1, hI1.2, by rw [hv1]; exact hJ'.le, A0, a1, a2, a3, by rw [hv1]; exact a4, a5, ?_⟩
        intro v' hv' hL hf
        rw [hv1] at hv'
        obtain ⟨q1, q2⟩ := a6 v' hv' hL hf
        have hres := step_resumable cfg hI ht hst A (step cfg t A op).1 op w v' hJ'.inv hJ'.reader hJ'.alive hop hv'
          (by rw [← hw]) (by rw [q1]; exact hf)
        exact ⟨hres.1.trans q1, hres.2.trans q2⟩
      · intro hvL
        exfalso
        have := m3 hvL
        rw [← p1, he] at this; cases this
    | false =>
      -- the call returned
      have hru : runUntilEof cfg t (op :: rest) A = ((runUntilEof cfg t rest (step cfg t A op).1).1,
          (step cfg t A op).2 :: (runUntilEof cfg t rest (step cfg t A op).1).2.1,
          (runUntilEof cfg t rest (step cfg t A op).1).2.2) := by
        rw [runUntilEof, if_neg (by rw [he]; simp)]
      rw [hru]
      obtain ⟨n1, n2⟩ := m2 (by rw [← p1]; exact he)
      have hlag1 : LagSome cfg A.visible L (step cfg t A op).1 (step cfg t B op).1 := n2.simLeft p2
      have hJ1 : JSt cfg t L (step cfg t A op).1 (step cfg t B op).1 rest := by
        cases rest with
        | nil => show (step cfg t A op).1.visible ≤ L; rw [hv1]; exact hJ'.le
        | cons op' rest' => exact Mid.start hI1.1 hr1 hI1.2 (by rw [hv1]; exact hlag1) op'
      obtain ⟨B', b1, b2, b3, b4, b5, b6⟩ := ih (step cfg t A op).1 (step cfg t B op).1 hJ1
        (fun o ho => hc o (List.mem_cons_of_mem _ ho)) (fun x hx => hg x (List.mem_cons_of_mem _ hx))
      refine ⟨B', ?_, b2, b3, b4, b5.trans hv1, fun hvL => b6 (hv1.trans hvL)⟩
      simp only [List.cons_append]
      rw [b1, p1, n1]

/-- **the caller that retries** against the calls on the reader that sees everything: its results are
    the first results of that run, and all of them if the schedule delivers all `L` bytes -/
theorem resumeRun_spec (cfg : Cfg) (hI : cfg.InflateOk) {t : TCfg} (ht : t.Ok) (hst : t.Stable) (L : Nat) :
    ∀ (sched : List Nat) (ops : List Op) (A B : R), JSt cfg t L A B ops → (∀ op ∈ ops, op.isCall = true) →
    (∀ x ∈ (run cfg t B ops).2, x.isGood = true) →
    ∃ zs, (run cfg t B ops).2 = resumeRun cfg t L sched ops A ++ zs ∧ (L ≤ A.visible + sched.sum → zs = []) := by
  intro sched
  induction sched with
  | nil =>
    intro ops A B hJ hc hg
    obtain ⟨B', b1, b2, _, _, _, b6⟩ := runUntilEof_spec cfg hI ht hst L ops A B hJ hc hg
    refine ⟨(run cfg t B' (runUntilEof cfg t ops A).2.2).2, b1, fun h => ?_⟩
    have hle := hJ.le
    have hv : A.visible = L := by simp only [List.sum_nil, Nat.add_zero] at h; omega
    rw [b6 hv]; rfl
  | cons g sched ih =>
    intro ops A B hJ hc hg
    obtain ⟨B', b1, b2, b3, b4, b5, _⟩ := runUntilEof_spec cfg hI ht hst L ops A B hJ hc hg
    have hle := b2.le
    have hJ2 := b2.grow (min L ((runUntilEof cfg t ops A).1.visible + g)) (by omega) (Nat.min_le_left _ _)
    obtain ⟨zs, z1, z2⟩ := ih (runUntilEof cfg t ops A).2.2 _ B' hJ2 b3 b4
    refine ⟨zs, ?_, fun h => z2 ?_⟩
    · rw [resumeRun, List.append_assoc, ← z1, b1]
    · show L ≤ min L ((runUntilEof cfg t ops A).1.visible + g) + sched.sum
      simp only [List.sum_cons] at h
      rw [b5]
      omega

end Png.Reader
