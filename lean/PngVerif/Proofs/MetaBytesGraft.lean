import PngVerif.Proofs.FramingLogic
/-!
# C17 at the byte level, part 1: what `parse_chunk` reads and writes

The chunk parsers of `Model/Framing.lean` read `raw`, `info`, `haveIdat`, `haveIccp`, `limit`, `opts` (and `parse_fctl`:
`seqNo`) and nothing else, and — `parse_fctl` apart, which also resets the inflater — write nothing else.  Stated as an
equation: replacing every OTHER field of the decoder (`Dec.graft`: `state`, `curType`, `crcAcc`, `remaining`, `cap`, the
inflater fields, `readyIdat`, `readyFdat`, `out`) by arbitrary values commutes with every parser, with `dispatch` and with
`parse_chunk` (`parseChunk_graft`), for every chunk type but `fcTL`, errors included.

This is what makes the chunk-level decoder model `EncodeMeta.feedChunk` (which calls `parse_chunk` on the decoder it is
given, with only `raw` replaced) and the byte-level machine (which calls it with `curType`, `crcAcc`, `remaining`, `cap`
as the collection of the body left them) agree.
-/
namespace Png.Framing
open Png

/-- the fields of `d` that no chunk parser reads, taken from `x` -/
def Dec.graft (d x : Dec) : Dec :=
  { d with state := x.state, curType := x.curType, crcAcc := x.crcAcc, remaining := x.remaining, cap := x.cap,
           zin := x.zin, zstarted := x.zstarted, zemitted := x.zemitted, readyIdat := x.readyIdat,
           readyFdat := x.readyFdat, out := x.out }

/-- the same on a parser's outcome -/
def graftRes (x : Dec) (r : PRes) : PRes := r.map fun p => (p.1.graft x, p.2)

theorem graft_raw (d x : Dec) : (d.graft x).raw = d.raw := rfl
theorem graft_info (d x : Dec) : (d.graft x).info = d.info := rfl
theorem graft_haveIdat (d x : Dec) : (d.graft x).haveIdat = d.haveIdat := rfl
theorem graft_haveIccp (d x : Dec) : (d.graft x).haveIccp = d.haveIccp := rfl
theorem graft_limit (d x : Dec) : (d.graft x).limit = d.limit := rfl
theorem graft_opts (d x : Dec) : (d.graft x).opts = d.opts := rfl
theorem graft_seqNo (d x : Dec) : (d.graft x).seqNo = d.seqNo := rfl

/-- a decoder is its metadata fields grafted onto itself -/
theorem graft_self (d : Dec) : d.graft d = d := rfl

/-- two decoders that agree on what the parsers read differ by a graft -/
theorem eq_graft {d D : Dec} (h1 : D.raw = d.raw) (h2 : D.info = d.info) (h3 : D.haveIdat = d.haveIdat)
    (h4 : D.haveIccp = d.haveIccp) (h5 : D.limit = d.limit) (h6 : D.opts = d.opts) (h7 : D.seqNo = d.seqNo) :
    D = d.graft D := by
  cases d; cases D; simp only [Dec.graft] at *; subst_vars; rfl

theorem graftRes_bind {α : Type} (x : Dec) (a : Except PErr α) (k : α → PRes) :
    graftRes x (a >>= k) = a >>= fun v => graftRes x (k v) := by cases a <;> rfl
theorem graftRes_ite (x : Dec) (c : Prop) [Decidable c] (a b : PRes) :
    graftRes x (if c then a else b) = if c then graftRes x a else graftRes x b := by split <;> rfl
theorem graftRes_throw (x : Dec) (e : PErr) : graftRes x (throw e) = throw e := rfl
theorem graftRes_error (x : Dec) (e : PErr) : graftRes x (.error e) = .error e := rfl
theorem graftRes_pure (x : Dec) (p : Dec × Ev) : graftRes x (pure p) = pure (p.1.graft x, p.2) := rfl
theorem graftRes_ok (x : Dec) (p : Dec × Ev) : graftRes x (.ok p) = .ok (p.1.graft x, p.2) := rfl
theorem setInfo_graft (d x : Dec) (f : Info → Info) : setInfo (d.graft x) f = (setInfo d f).graft x := rfl
theorem addText_graft (d x : Dec) (t : TextChunk) : addText (d.graft x) t = (addText d t).graft x := rfl
theorem reserve_graft (d x : Dec) (n : Nat) : reserve (d.graft x) n = (reserve d n).map (·.graft x) := by
  by_cases h : d.limit ≥ n
  · simp only [reserve, graft_limit, h, if_true]; rfl
  · simp only [reserve, graft_limit, h, if_false]; rfl
theorem withInfo_graft (d x : Dec) (k : Info → PRes) : withInfo (d.graft x) k = withInfo d k := rfl
theorem graftRes_withInfo (d x : Dec) (k : Info → PRes) :
    graftRes x (withInfo d k) = withInfo d (fun i => graftRes x (k i)) := by
  unfold withInfo; cases d.info <;> rfl
theorem setHaveIccp_graft (d x : Dec) :
    ({ d.graft x with haveIccp := true } : Dec) = ({ d with haveIccp := true } : Dec).graft x := rfl
theorem setInfoSome_graft (d x : Dec) (i : Info) :
    ({ d.graft x with info := some i } : Dec) = ({ d with info := some i } : Dec).graft x := rfl

theorem except_map_bind {α β : Type} (a : Except PErr α) (f : α → β) (k : β → PRes) :
    (a.map f) >>= k = a >>= fun v => k (f v) := by cases a <;> rfl

theorem bind_congr' {α : Type} (a : Except PErr α) (f g : α → PRes) (h : ∀ v, f v = g v) : (a >>= f) = (a >>= g) := by
  have : f = g := funext h
  rw [this]
theorem withInfo_congr (d : Dec) (f g : Info → PRes) (h : ∀ i, f i = g i) : withInfo d f = withInfo d g := by
  have : f = g := funext h
  rw [this]
theorem ite_congr' (c : Prop) [Decidable c] (a b a' b' : PRes) (h1 : a = a') (h2 : b = b') :
    (if c then a else b) = (if c then a' else b') := by rw [h1, h2]

/-- normal form: `graftRes` pushed to the leaves, reads of a grafted decoder resolved -/
macro "graft_simp" : tactic => `(tactic| (
  simp only [graftRes_bind, graftRes_ite, graftRes_throw, graftRes_pure, graftRes_ok, graftRes_error, graft_info, graft_raw,
    graft_haveIdat, graft_haveIccp, graft_limit, graft_opts, graft_seqNo, withInfo_graft, graftRes_withInfo,
    setInfo_graft, addText_graft, reserve_graft, except_map_bind, setHaveIccp_graft, setInfoSome_graft]))

/-- closes `parser (d.graft x) = graftRes x (parser d)` once the parser is unfolded -/
macro "graft_tac" : tactic => `(tactic| (
  graft_simp
  repeat' (first
    | rfl
    | contradiction
    | (apply withInfo_congr; intro _)
    | (apply bind_congr'; intro _)
    | (apply ite_congr')
    | (split <;> (try graft_simp)))))

theorem parseIhdr_graft (d x : Dec) : parseIhdr (d.graft x) = graftRes x (parseIhdr d) := by
  unfold parseIhdr; graft_tac
theorem parseActl_graft (d x : Dec) : parseActl (d.graft x) = graftRes x (parseActl d) := by
  unfold parseActl; graft_tac
theorem parsePlte_graft (d x : Dec) : parsePlte (d.graft x) = graftRes x (parsePlte d) := by
  unfold parsePlte; graft_tac
theorem parseSbit_graft (d x : Dec) : parseSbit (d.graft x) = graftRes x (parseSbit d) := by
  unfold parseSbit; graft_tac
theorem parseTrns_graft (d x : Dec) : parseTrns (d.graft x) = graftRes x (parseTrns d) := by
  unfold parseTrns; graft_tac
theorem parsePhys_graft (d x : Dec) : parsePhys (d.graft x) = graftRes x (parsePhys d) := by
  unfold parsePhys; graft_tac
theorem parseChrm_graft (d x : Dec) : parseChrm (d.graft x) = graftRes x (parseChrm d) := by
  unfold parseChrm; graft_tac
theorem parseGama_graft (d x : Dec) : parseGama (d.graft x) = graftRes x (parseGama d) := by
  unfold parseGama; graft_tac
theorem parseSrgb_graft (d x : Dec) : parseSrgb (d.graft x) = graftRes x (parseSrgb d) := by
  unfold parseSrgb; graft_tac
theorem parseCicp_graft (d x : Dec) : parseCicp (d.graft x) = graftRes x (parseCicp d) := by
  unfold parseCicp; graft_tac
theorem parseMdcv_graft (d x : Dec) : parseMdcv (d.graft x) = graftRes x (parseMdcv d) := by
  unfold parseMdcv; graft_tac
theorem parseClli_graft (d x : Dec) : parseClli (d.graft x) = graftRes x (parseClli d) := by
  unfold parseClli; graft_tac
theorem parseExif_graft (d x : Dec) : parseExif (d.graft x) = graftRes x (parseExif d) := by
  unfold parseExif; graft_tac
theorem parseBkgd_graft (d x : Dec) : parseBkgd (d.graft x) = graftRes x (parseBkgd d) := by
  unfold parseBkgd; graft_tac
theorem parseText_graft (d x : Dec) : parseText (d.graft x) = graftRes x (parseText d) := by
  unfold parseText; graft_tac
theorem parseZtxt_graft (d x : Dec) : parseZtxt (d.graft x) = graftRes x (parseZtxt d) := by
  unfold parseZtxt; graft_tac
theorem parseItxt_graft (cfg : Cfg) (d x : Dec) : parseItxt cfg (d.graft x) = graftRes x (parseItxt cfg d) := by
  unfold parseItxt; graft_tac

theorem dmap_bind {α : Type} (x : Dec) (a : Except PErr α) (k : α → Except PErr Dec) :
    (a >>= k).map (·.graft x) = a >>= fun v => (k v).map (·.graft x) := by cases a <;> rfl
theorem dmap_ite (x : Dec) (c : Prop) [Decidable c] (a b : Except PErr Dec) :
    (if c then a else b).map (·.graft x) = if c then a.map (·.graft x) else b.map (·.graft x) := by split <;> rfl
theorem dbind_congr {α : Type} (a : Except PErr α) (f g : α → Except PErr Dec) (h : ∀ v, f v = g v) :
    (a >>= f) = (a >>= g) := by
  have : f = g := funext h
  rw [this]

theorem parseIccpRaw_graft (cfg : Cfg) (d x : Dec) :
    parseIccpRaw cfg (d.graft x) = (parseIccpRaw cfg d).map (·.graft x) := by
  unfold parseIccpRaw
  simp only [graft_raw, graft_limit, dmap_bind, dmap_ite]
  apply dbind_congr; intro b
  apply dbind_congr; intro v
  have key : (match cfg.inflateBounded v.2 d.limit with
      | .ok profile => do
        let d ← reserve (d.graft x) profile.length
        pure (setInfo d (fun i => { i with icc := some profile }))
      | .error true => throw .limits
      | .error false => throw (.format "CorruptFlateStream")) =
      (match cfg.inflateBounded v.2 d.limit with
      | .ok profile => do
        let d ← reserve d profile.length
        pure (setInfo d (fun i => { i with icc := some profile }))
      | .error true => throw .limits
      | .error false => throw (.format "CorruptFlateStream") : Except PErr Dec).map (·.graft x) := by
    cases cfg.inflateBounded v.2 d.limit with
    | error b => cases b <;> rfl
    | ok profile =>
      simp only [reserve_graft]
      cases reserve d profile.length <;> rfl
  split
  · rfl
  · exact key

theorem parseIccp_graft (cfg : Cfg) (d x : Dec) : parseIccp cfg (d.graft x) = graftRes x (parseIccp cfg d) := by
  have e : ({ d.graft x with haveIccp := true } : Dec) = ({ d with haveIccp := true } : Dec).graft x := rfl
  have hI : (d.graft x).haveIdat = d.haveIdat := rfl
  have hC : (d.graft x).haveIccp = d.haveIccp := rfl
  unfold parseIccp
  by_cases h1 : d.haveIdat = true
  · rw [if_pos (by rw [hI]; exact h1), if_pos h1]; rfl
  · rw [if_neg (by rw [hI]; exact h1), if_neg h1]
    by_cases h2 : d.haveIccp = true
    · rw [if_pos (by rw [hC]; exact h2), if_pos h2]; rfl
    · rw [if_neg (by rw [hC]; exact h2), if_neg h2]
      show (match parseIccpRaw cfg ({ d.graft x with haveIccp := true }) with
        | .ok d' => (.ok (d', .nothing) : PRes)
        | .error _ => .ok ({ d.graft x with haveIccp := true }, .nothing)) =
        graftRes x (match parseIccpRaw cfg ({ d with haveIccp := true }) with
        | .ok d' => (.ok (d', .nothing) : PRes)
        | .error _ => .ok ({ d with haveIccp := true }, .nothing))
      rw [e, parseIccpRaw_graft]
      cases parseIccpRaw cfg { d with haveIccp := true } <;> rfl

/-- **`dispatch` does not look at the grafted fields**, for every chunk type but `fcTL` -/
theorem dispatch_graft (cfg : Cfg) (d x : Dec) (t : ChunkType) (ht : t ≠ fcTL) :
    dispatch cfg (d.graft x) t = graftRes x (dispatch cfg d t) := by
  unfold dispatch
  simp only [graftRes_ite, graft_opts, parseIhdr_graft, parseSbit_graft, parsePlte_graft, parseTrns_graft, parsePhys_graft,
    parseGama_graft, parseActl_graft, parseChrm_graft, parseSrgb_graft, parseCicp_graft, parseMdcv_graft, parseClli_graft,
    parseExif_graft, parseBkgd_graft, parseIccp_graft, parseText_graft, parseZtxt_graft, parseItxt_graft, ht, if_false,
    graftRes_ok]

theorem atCrc_graft (d x : Dec) (t : ChunkType) : (d.graft x).atCrc t = (d.atCrc t).graft (x.atCrc t) := rfl

theorem reserveOrKeep_graft (d x : Dec) : reserveOrKeep (d.graft x) = (reserveOrKeep d).graft x := by
  unfold reserveOrKeep
  simp only [graft_raw, reserve_graft]
  cases reserve d d.raw.length <;> rfl

theorem benignResidue_graft (d x : Dec) (t : ChunkType) : benignResidue (d.graft x) t = (benignResidue d t).graft x := by
  unfold benignResidue
  have : benignCharged (d.graft x) t = benignCharged d t := rfl
  rw [this, reserveOrKeep_graft]
  split <;> rfl

/-- **`parse_chunk` does not look at the grafted fields** (chunk type other than `fcTL`): same outcome — the same error,
    or the same event and the same decoder with the grafted fields (`state` as `parse_chunk` sets it) -/
theorem parseChunk_graft (cfg : Cfg) (d x : Dec) (t : ChunkType) (ht : t ≠ fcTL) :
    parseChunk cfg (d.graft x) t = (parseChunk cfg d t).map fun p => (p.1, p.2.graft (x.atCrc t)) := by
  rw [parseChunk_eq, parseChunk_eq, atCrc_graft, dispatch_graft cfg _ _ t ht, benignResidue_graft]
  cases dispatch cfg (d.atCrc t) t with
  | ok p => rfl
  | error e =>
    simp only [graftRes_error]
    split
    · rfl
    · cases e <;> rfl

end Png.Framing
